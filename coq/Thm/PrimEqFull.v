(** Theorems about the END-TO-END executable model Model/PrimEqFull.v.
    (a) what is executed (every intermediate array materialised once) IS the ModalAssembly
        instance at the concrete operators of Model/SHT.v / Model/Deriv.v, on the index range;
    (b) the concrete operators are linear and the concrete laplacian kills the (0,0)-only
        field, so the modal invariance theorems of Thm/PrimEq.v hold for the executable
        composition under the remaining exactness hypotheses only
        (H_roundtrip, H_div_vel, H_div_grad, H_curl_grad);
    (c) implicit_terms_full / implicit_inverse_full are, coefficient by coefficient, the
        column operators of Model/Implicit.v, hence the resolvent identity lifts. *)
From Dino Require Import Base.Ops Base.Sums Base.Ord Model.Sigma Model.Implicit Model.PrimEq Model.SHT Model.Deriv
     Model.PrimEqFull Gen.DerivExprs Thm.SHT Thm.Deriv Thm.Implicit Thm.PrimEq.
Local Open Scope F_scope.

Section Basics.
  Context {F : Type} {o : Ops F} {Fc : FieldC o}.
  Add Field FFpf : (field_c : FieldTh o).

  Lemma fdiv_mul (x y : F) : x / y = x * finv y.
  Proof. exact (Fdiv_def field_c x y). Qed.

  Lemma sh_memo2_out_row n m (x : nat -> nat -> F) a j : (n <= a)%nat -> sh_memo2 n m x a j = 0.
  Proof.
    intros Ha. unfold sh_memo2.
    rewrite (nth_overflow (map (fun a0 => map (x a0) (seq 0 m)) (seq 0 n)) []) by (rewrite map_length, seq_length; exact Ha).
    destruct j; reflexivity.
  Qed.

  Lemma memo3_ok n m q (x : nat -> nat -> nat -> F) k a j :
    (k < n)%nat -> (a < m)%nat -> (j < q)%nat -> memo3 n m q x k a j = x k a j.
  Proof.
    intros Hk Ha Hj. unfold memo3.
    rewrite (nth_map_seq (fun k0 => map (fun a0 => map (x k0 a0) (seq 0 q)) (seq 0 m)) n k []) by assumption.
    rewrite (nth_map_seq (fun a0 => map (x k a0) (seq 0 q)) m a []) by assumption.
    now apply nth_map_seq.
  Qed.

  (** *** linearity of the shift and of the spectral derivative operators (every index) *)
  Lemma shift1_lin n off (x y : nat -> F) (t : F) k :
    shift1 n off (fun j => x j + t * y j) k = shift1 n off x k + t * shift1 n off y k.
  Proof.
    unfold shift1.
    destruct (Z.leb (Z.of_nat n) (Z.abs off)); [ring|].
    destruct (Z.ltb 0 off).
    - destruct (Nat.ltb k (Z.to_nat off)); [ring|reflexivity].
    - destruct (Nat.ltb (k + Z.to_nat (- off)) n); [reflexivity|ring].
  Qed.
  Lemma shift1_ext_all n off (x y : nat -> F) k : (forall j, x j = y j) -> shift1 n off x k = shift1 n off y k.
  Proof.
    intros H. unfold shift1.
    destruct (Z.leb (Z.of_nat n) (Z.abs off)); [reflexivity|].
    destruct (Z.ltb 0 off).
    - destruct (Nat.ltb k (Z.to_nat off)); [reflexivity|apply H].
    - destruct (Nat.ltb (k + Z.to_nat (- off)) n); [apply H|reflexivity].
  Qed.

  Lemma dlon_ref_lin R (x y : nat -> nat -> F) (t : F) i l :
    dlon_ref R (fun i l => x i l + t * y i l) i l = dlon_ref R x i l + t * dlon_ref R y i l.
  Proof.
    unfold dlon_ref, shift_rows. rewrite !shift1_lin. unfold dref_sel. destruct (dref_cond i); ring.
  Qed.
  Lemma dlon_ref_ext_all R (x y : nat -> nat -> F) i l :
    (forall i l, x i l = y i l) -> dlon_ref R x i l = dlon_ref R y i l.
  Proof.
    intros H. unfold dlon_ref, shift_rows.
    rewrite (shift1_ext_all R dref_down_off (fun i' => x i' l) (fun i' => y i' l)) by (intros; apply H).
    rewrite (shift1_ext_all R dref_up_off (fun i' => x i' l) (fun i' => y i' l)) by (intros; apply H).
    reflexivity.
  Qed.

  Lemma D2_lin L C (a b x y : nat -> nat -> F) (t : F) i l :
    D2 L C a b (fun i l => x i l + t * y i l) i l = D2 L C a b x i l + t * D2 L C a b y i l.
  Proof.
    unfold D2, shift_cols.
    rewrite (shift1_ext_all C d2_om (fun l0 => d2_wm (lit (laxis L l0)) (a i l0) * (x i l0 + t * y i l0))
               (fun l0 => d2_wm (lit (laxis L l0)) (a i l0) * x i l0 + t * (d2_wm (lit (laxis L l0)) (a i l0) * y i l0)))
      by (intros; ring).
    rewrite (shift1_ext_all C d2_op (fun l0 => d2_wp (lit (laxis L l0)) (b i l0) * (x i l0 + t * y i l0))
               (fun l0 => d2_wp (lit (laxis L l0)) (b i l0) * x i l0 + t * (d2_wp (lit (laxis L l0)) (b i l0) * y i l0)))
      by (intros; ring).
    rewrite !shift1_lin. ring.
  Qed.
  Lemma D2_ext_all L C (a b x y : nat -> nat -> F) i l :
    (forall i l, x i l = y i l) -> D2 L C a b x i l = D2 L C a b y i l.
  Proof.
    intros H. unfold D2, shift_cols.
    rewrite (shift1_ext_all C d2_om (fun l0 => d2_wm (lit (laxis L l0)) (a i l0) * x i l0)
               (fun l0 => d2_wm (lit (laxis L l0)) (a i l0) * y i l0)) by (intros; now rewrite H).
    rewrite (shift1_ext_all C d2_op (fun l0 => d2_wp (lit (laxis L l0)) (b i l0) * x i l0)
               (fun l0 => d2_wp (lit (laxis L l0)) (b i l0) * y i l0)) by (intros; now rewrite H).
    reflexivity.
  Qed.
  (** D2 and d_dlon read their argument inside the index range only *)
  Lemma D2_ext_range L C (a b x y : nat -> nat -> F) i l :
    (l < C)%nat -> (forall l', (l' < C)%nat -> x i l' = y i l') -> D2 L C a b x i l = D2 L C a b y i l.
  Proof.
    intros Hl H. unfold D2, shift_cols.
    rewrite (shift1_ext C d2_om (fun l0 => d2_wm (lit (laxis L l0)) (a i l0) * x i l0)
               (fun l0 => d2_wm (lit (laxis L l0)) (a i l0) * y i l0)) by (try assumption; intros; now rewrite H).
    rewrite (shift1_ext C d2_op (fun l0 => d2_wp (lit (laxis L l0)) (b i l0) * x i l0)
               (fun l0 => d2_wp (lit (laxis L l0)) (b i l0) * y i l0)) by (try assumption; intros; now rewrite H).
    reflexivity.
  Qed.
End Basics.

Section Concrete.
  Context {F : Type} {o : Ops F} {Fc : FieldC o}.
  Add Field FFpc : (field_c : FieldTh o).
  Variable g : @HGrid F.
  Let R := hR g.
  Let L := hL g.
  Let I := hI g.
  Let J := hJ g.

  (** *** (a) staging is invisible on the index range *)
  Lemma tm_ok (z : nat -> nat -> F) a l : (a < R)%nat -> (l < L)%nat -> tm g z a l = to_modal g z a l.
  Proof. intros Ha Hl. unfold tm. now apply sh_memo2_ok. Qed.

  Lemma divm_ext_range (x y x' y' : nat -> nat -> F) a l :
    (a < R)%nat -> (l < L)%nat ->
    (forall a l, (a < R)%nat -> (l < L)%nat -> x a l = x' a l) ->
    (forall a l, (a < R)%nat -> (l < L)%nat -> y a l = y' a l) ->
    divm g x y a l = divm g x' y' a l.
  Proof.
    intros Ha Hl Hx Hy. unfold divm, div_cos_lat, clip_if. cbn [fst snd].
    rewrite (d_dlon_ext false (hR g) x x' a l) by (try assumption; intros; now apply Hx).
    rewrite (D2_ext_range (hL g) (hL g) (ha g) (hb g) y y' a l) by (try assumption; intros; now apply Hy).
    reflexivity.
  Qed.
  Lemma curlm_ext_range (x y x' y' : nat -> nat -> F) a l :
    (a < R)%nat -> (l < L)%nat ->
    (forall a l, (a < R)%nat -> (l < L)%nat -> x a l = x' a l) ->
    (forall a l, (a < R)%nat -> (l < L)%nat -> y a l = y' a l) ->
    curlm g x y a l = curlm g x' y' a l.
  Proof.
    intros Ha Hl Hx Hy. unfold curlm, curl_cos_lat, clip_if. cbn [fst snd].
    rewrite (d_dlon_ext false (hR g) y y' a l) by (try assumption; intros; now apply Hy).
    rewrite (D2_ext_range (hL g) (hL g) (ha g) (hb g) x x' a l) by (try assumption; intros; now apply Hx).
    reflexivity.
  Qed.

  Variable c : @PEcfg F.
  Variable grav : F.
  Variable orog : nat -> nat -> F.

  (** the three spectral combinations on materialised arrays = the ModalAssembly instance *)
  Theorem vort_of_is_assembly (X : Wi -> @NCol F) r a l :
    (a < R)%nat -> (l < L)%nat ->
    vort_of g (tm g (fun i j => combined_u c true (X (i, j)) (rt_dry c (X (i, j))) r))
              (tm g (fun i j => combined_v c true (X (i, j)) (rt_dry c (X (i, j))) r)) a l
    = vort_tendency_explicit Wi Wi (toM_c g) (curlc_c g) (clip_c g) c X (fun p => rt_dry c (X p)) (fun _ => 0) r (a, l).
  Proof.
    intros Ha Hl. unfold vort_tendency_explicit, vort_of, clip_c, curlc_c, toM_c, unc, cur, clipm, Deriv.clip. cbn [fst snd].
    f_equal. f_equal. f_equal.
    apply curlm_ext_range; try assumption; intros; now apply tm_ok.
  Qed.

  Theorem div_of_is_assembly (X : Wi -> @NCol F) r a l :
    (a < R)%nat -> (l < L)%nat ->
    div_of g grav orog
           (tm g (fun i j => combined_u c true (X (i, j)) (rt_dry c (X (i, j))) r))
           (tm g (fun i j => combined_v c true (X (i, j)) (rt_dry c (X (i, j))) r))
           (tm g (fun i j => kinetic (X (i, j)) r)) a l
    = div_tendency_explicit Wi Wi (toM_c g) (divc_c g) (lap_c g) (clip_c g) c grav X (fun p => rt_dry c (X p))
                            (unc orog) (fun _ => 0) r (a, l).
  Proof.
    intros Ha Hl. unfold div_tendency_explicit, div_of, clip_c, divc_c, lap_c, toM_c, unc, cur, clipm, lapm, Deriv.clip, Deriv.laplacian.
    cbn [fst snd].
    rewrite (tm_ok _ a l Ha Hl).
    rewrite (divm_ext_range _ _ (to_modal g (fun i j => combined_u c true (X (i, j)) (rt_dry c (X (i, j))) r))
               (to_modal g (fun i j => combined_v c true (X (i, j)) (rt_dry c (X (i, j))) r)) a l Ha Hl)
      by (intros; now apply tm_ok).
    reflexivity.
  Qed.

  Theorem temp_of_is_assembly (X : Wi -> @NCol F) r a l :
    (a < R)%nat -> (l < L)%nat ->
    scalar_of g (tm g (fun i j => temp_nodal_total c true (X (i, j)) r))
                (tm g (fun i j => hsa_mu (X (i, j)) (n_temp (X (i, j))) r))
                (tm g (fun i j => hsa_mv (X (i, j)) (n_temp (X (i, j))) r)) a l
    = temp_tendency_explicit Wi Wi (toM_c g) (divc_c g) (clip_c g) c X r (a, l).
  Proof.
    intros Ha Hl. unfold temp_tendency_explicit, scalar_of, clip_c, divc_c, toM_c, unc, cur, clipm, Deriv.clip. cbn [fst snd].
    rewrite (tm_ok _ a l Ha Hl).
    rewrite (divm_ext_range _ _ (to_modal g (fun i j => hsa_mu (X (i, j)) (n_temp (X (i, j))) r))
               (to_modal g (fun i j => hsa_mv (X (i, j)) (n_temp (X (i, j))) r)) a l Ha Hl)
      by (intros; now apply tm_ok).
    reflexivity.
  Qed.

  Theorem tracer_of_is_assembly (X : Wi -> @NCol F) (s : Wi -> nat -> F) r a l :
    (a < R)%nat -> (l < L)%nat ->
    scalar_of g (tm g (fun i j => tracer_nodal_total c true (X (i, j)) (s (i, j)) r))
                (tm g (fun i j => hsa_mu (X (i, j)) (s (i, j)) r))
                (tm g (fun i j => hsa_mv (X (i, j)) (s (i, j)) r)) a l
    = tracer_tendency_explicit_c g c X s r (a, l).
  Proof.
    intros Ha Hl. unfold tracer_tendency_explicit_c, scalar_of, clip_c, divc_c, toM_c, unc, cur, clipm, Deriv.clip. cbn [fst snd].
    rewrite (tm_ok _ a l Ha Hl).
    rewrite (divm_ext_range _ _ (to_modal g (fun i j => hsa_mu (X (i, j)) (s (i, j)) r))
               (to_modal g (fun i j => hsa_mv (X (i, j)) (s (i, j)) r)) a l Ha Hl)
      by (intros; now apply tm_ok).
    reflexivity.
  Qed.

  Theorem lnps_explicit_is_assembly (d : @Diag F) a l :
    (a < R)%nat -> (l < L)%nat ->
    lnps_explicit g c d a l = lnps_tendency_explicit_c g c (X_of g d) (a, l).
  Proof.
    intros Ha Hl. unfold lnps_tendency_explicit_c, lnps_explicit, clip_c, toM_c, unc, cur, clipm, Deriv.clip. cbn [fst snd].
    now rewrite (tm_ok _ a l Ha Hl).
  Qed.

  (** *** (a) the whole state: every field of explicit_terms_full is the ModalAssembly instance
      at the nodal columns of the (materialised) diagnostic state *)
  Lemma level_nth (d : @Diag F) k :
    (k < cK c)%nat ->
    nth k (map (explicit_level g c grav orog d) (seq 0 (cK c))) (lev0 (F := F)) = explicit_level g c grav orog d k.
  Proof. intros Hk. now apply nth_map_seq. Qed.

  Theorem explicit_terms_full_is_assembly (s : @State F) k a l :
    (k < cK c)%nat -> (a < R)%nat -> (l < L)%nat ->
    let X := X_of g (diagnostic_state g (cK c) s) in
    s_vort (explicit_terms_full g c grav orog s) k a l
    = vort_tendency_explicit Wi Wi (toM_c g) (curlc_c g) (clip_c g) c X (fun p => rt_dry c (X p)) (fun _ => 0) k (a, l) /\
    s_div (explicit_terms_full g c grav orog s) k a l
    = div_tendency_explicit Wi Wi (toM_c g) (divc_c g) (lap_c g) (clip_c g) c grav X (fun p => rt_dry c (X p))
                            (unc orog) (fun _ => 0) k (a, l) /\
    s_temp (explicit_terms_full g c grav orog s) k a l
    = temp_tendency_explicit Wi Wi (toM_c g) (divc_c g) (clip_c g) c X k (a, l) /\
    s_lnps (explicit_terms_full g c grav orog s) a l = lnps_tendency_explicit_c g c X (a, l).
  Proof.
    intros Hk Ha Hl X. unfold explicit_terms_full, explicit_terms_of_diag. cbv zeta.
    cbn [s_vort s_div s_temp s_lnps]. rewrite !level_nth by assumption.
    unfold explicit_level. cbv zeta. cbn [l_vort l_div l_temp].
    rewrite !sh_memo2_ok by assumption.
    split; [|split; [|split]].
    - apply vort_of_is_assembly; assumption.
    - apply div_of_is_assembly; assumption.
    - apply temp_of_is_assembly; assumption.
    - apply lnps_explicit_is_assembly; assumption.
  Qed.
End Concrete.

(** ** (b) the concrete operators satisfy the linearity hypotheses of Thm/PrimEq.v, and the
    concrete laplacian kills the (0,0)-only field *)
Section ConcreteLinear.
  Context {F : Type} {o : Ops F} {Fc : FieldC o}.
  Add Field FFpl : (field_c : FieldTh o).
  Variable g : @HGrid F.

  Lemma analysis_out_row K I J f p w (z : nat -> nat -> F) a l : (K <= a)%nat -> analysis K I J f p w z a l = 0.
  Proof.
    intros Ha. unfold analysis. cbv zeta. unfold fwd_legendre.
    apply sumn_zero. intros j _. rewrite sh_memo2_out_row by assumption. ring.
  Qed.

  Theorem toM_c_lin : linear (toM_c g).
  Proof.
    split.
    - intros x y H [a l]. unfold toM_c, unc, to_modal, cur. cbn [fst snd].
      destruct (Nat.lt_ge_cases a (hR g)) as [Ha|Ha].
      + apply analysis_ext; [assumption|]. intros; apply H.
      + now rewrite !analysis_out_row by assumption.
    - intros t x y [a l]. unfold toM_c, unc, to_modal, cur. cbn [fst snd].
      destruct (Nat.lt_ge_cases a (hR g)) as [Ha|Ha].
      + rewrite (analysis_ext (hR g) (hI g) (hJ g) (hf g) (hp g) (hw g) _
                   (fun i j => t * y (i, j) + x (i, j)) a l Ha) by (intros; ring).
        rewrite analysis_linear by assumption. ring.
      + rewrite !analysis_out_row by assumption. ring.
  Qed.

  Theorem divc_c_lin : linear2 (divc_c g).
  Proof.
    split.
    - intros x1 y1 x2 y2 H1 H2 [a l]. unfold divc_c, unc, divm, div_cos_lat, clip_if, d_dlon. cbn [fst snd].
      rewrite (dlon_ref_ext_all (hR g) (cur x1) (cur y1) a l) by (intros; apply H1).
      rewrite (D2_ext_all (hL g) (hL g) (ha g) (hb g) (cur x2) (cur y2) a l) by (intros; apply H2).
      reflexivity.
    - intros t x1 y1 x2 y2 [a l]. unfold divc_c, unc, divm, div_cos_lat, clip_if, d_dlon. cbn [fst snd].
      change (cur (fun a0 => x1 a0 + t * y1 a0)) with (fun a0 l0 => cur x1 a0 l0 + t * cur y1 a0 l0).
      change (cur (fun a0 => x2 a0 + t * y2 a0)) with (fun a0 l0 => cur x2 a0 l0 + t * cur y2 a0 l0).
      rewrite dlon_ref_lin, D2_lin, !fdiv_mul. ring.
  Qed.

  Theorem curlc_c_lin : linear2 (curlc_c g).
  Proof.
    split.
    - intros x1 y1 x2 y2 H1 H2 [a l]. unfold curlc_c, unc, curlm, curl_cos_lat, clip_if, d_dlon. cbn [fst snd].
      rewrite (dlon_ref_ext_all (hR g) (cur x2) (cur y2) a l) by (intros; apply H2).
      rewrite (D2_ext_all (hL g) (hL g) (ha g) (hb g) (cur x1) (cur y1) a l) by (intros; apply H1).
      reflexivity.
    - intros t x1 y1 x2 y2 [a l]. unfold curlc_c, unc, curlm, curl_cos_lat, clip_if, d_dlon. cbn [fst snd].
      change (cur (fun a0 => x1 a0 + t * y1 a0)) with (fun a0 l0 => cur x1 a0 l0 + t * cur y1 a0 l0).
      change (cur (fun a0 => x2 a0 + t * y2 a0)) with (fun a0 l0 => cur x2 a0 l0 + t * cur y2 a0 l0).
      rewrite dlon_ref_lin, D2_lin, !fdiv_mul. ring.
  Qed.

  Theorem lap_c_lin : linear (lap_c g).
  Proof.
    split.
    - intros x y H [a l]. unfold lap_c, unc, lapm, Deriv.laplacian, cur. cbn [fst snd]. now rewrite H.
    - intros t x y [a l]. unfold lap_c, unc, lapm, Deriv.laplacian, cur. cbn [fst snd]. ring.
  Qed.

  Theorem clip_c_lin : linear (clip_c g).
  Proof.
    split.
    - intros x y H [a l]. unfold clip_c, unc, clipm, Deriv.clip, cur. cbn [fst snd]. now rewrite H.
    - intros t x y [a l]. unfold clip_c, unc, clipm, Deriv.clip, cur. cbn [fst snd]. ring.
  Qed.

  (** the modal coefficients of a constant field: one entry, at (m, l) = (0, 0) *)
  Definition onem00 (v : F) (w : Wi) : F := if (Nat.eqb (fst w) 0 && Nat.eqb (snd w) 0)%bool then v else 0.

  Theorem lap_c_const (v : F) w : lap_c g (onem00 v) w = 0.
  Proof.
    destruct w as [a l]. unfold lap_c, unc, lapm, Deriv.laplacian, cur, onem00. cbn [fst snd].
    destruct (Nat.eqb_spec a 0) as [->|Na]; cbn [andb]; [|ring].
    destruct (Nat.eqb_spec l 0) as [->|Nl]; [|ring].
    unfold Deriv.lap_eig, laxis. destruct (Nat.ltb 0 (hL g)); cbn [lit]; unfold lap_eig_expr; rewrite fdiv_mul; ring.
  Qed.
End ConcreteLinear.

(** ** (b) reference-temperature split invariance of explicit + implicit for the executable
    composition: Thm/PrimEq.v instantiated at the concrete transforms.  Linearity of the five
    operators and [lap_const] are DISCHARGED above; what remains are the exactness facts about
    the grid tables (quadrature / alias-freeness), re-checked numerically by the plugin. *)
Section WholeStateInvariance.
  Context {F : Type} {o : Ops F} {Fc : FieldC o}.
  Add Field FFpw : (field_c : FieldTh o).
  Hypothesis two_nz : two <> 0.
  Hypothesis feqb_sound : forall x y : F, feqb x y = true -> x = y.
  Variable g : @HGrid F.
  Variable c : @PEcfg F.
  Hypothesis th2_nz : forall k, (S k < cK c)%nat -> thickness (cb c) k + thickness (cb c) (S k) <> 0.
  Variable grav : F.
  Variable X : Wi -> @NCol F.              (* nodal columns; their temperature entry is ignored *)
  Variable T : nat -> Wi -> F.             (* absolute nodal temperature *)
  Variable dv Tm : nat -> Wi -> F.         (* modal divergence, modal absolute temperature *)
  Variable lnps orog : Wi -> F.
  Variable v00 : F.                        (* the (0,0) coefficient of the constant one (2 sqrt(pi)) *)
  Hypothesis div_nodal : forall p k, n_div (X p) k = toN_c g (dv k) p.
  Hypothesis H_roundtrip : forall s w, clip_c g (toM_c g (toN_c g (dv s))) w = dv s w.
  Hypothesis H_div_vel : forall r w,
      clip_c g (divc_c g (toM_c g (fun p => n_u (X p) r * n_sec2 (X p))) (toM_c g (fun p => n_v (X p) r * n_sec2 (X p)))) w
      = clip_c g (toM_c g (fun p => n_div (X p) r)) w.
  Hypothesis H_div_grad : forall w,
      clip_c g (divc_c g (toM_c g (fun p => n_gx (X p) * n_sec2 (X p))) (toM_c g (fun p => n_gy (X p) * n_sec2 (X p)))) w
      = lap_c g lnps w.
  Hypothesis H_curl_grad : forall w,
      clip_c g (curlc_c g (toM_c g (fun p => n_gx (X p) * n_sec2 (X p))) (toM_c g (fun p => n_gy (X p) * n_sec2 (X p)))) w = 0.

  Theorem temperature_invariance_concrete (T1 T2 : nat -> F) r w :
    (r < cK c)%nat ->
    temp_tendency_explicit Wi Wi (toM_c g) (divc_c g) (clip_c g) (with_tref c T1) (Xs Wi X T T1) r w
    + temp_tendency_implicit Wi (with_tref c T1) dv r w
    = temp_tendency_explicit Wi Wi (toM_c g) (divc_c g) (clip_c g) (with_tref c T2) (Xs Wi X T T2) r w
      + temp_tendency_implicit Wi (with_tref c T2) dv r w.
  Proof.
    intros Hr.
    rewrite !(temperature_modal_closed two_nz feqb_sound Wi Wi (toN_c g) (toM_c g) (divc_c g) (clip_c g)
                (toM_c_lin g) (divc_c_lin g) (clip_c_lin g) c th2_nz X T dv div_nodal H_roundtrip H_div_vel _ r w Hr).
    reflexivity.
  Qed.

  Theorem divergence_invariance_concrete (T1 T2 : nat -> F) r w :
    div_tendency_explicit Wi Wi (toM_c g) (divc_c g) (lap_c g) (clip_c g) (with_tref c T1) grav (Xs Wi X T T1)
                          (fun p => rt_dry (with_tref c T1) (Xs Wi X T T1 p)) orog (fun _ => 0) r w
    + div_tendency_implicit Wi (lap_c g) (with_tref c T1) (Tms Wi Tm (onem00 v00) T1) lnps r w
    = div_tendency_explicit Wi Wi (toM_c g) (divc_c g) (lap_c g) (clip_c g) (with_tref c T2) grav (Xs Wi X T T2)
                            (fun p => rt_dry (with_tref c T2) (Xs Wi X T T2 p)) orog (fun _ => 0) r w
      + div_tendency_implicit Wi (lap_c g) (with_tref c T2) (Tms Wi Tm (onem00 v00) T2) lnps r w.
  Proof.
    rewrite !(divergence_modal_closed Wi Wi (toM_c g) (divc_c g) (lap_c g) (clip_c g)
                (toM_c_lin g) (divc_c_lin g) (lap_c_lin g) (clip_c_lin g) c grav X T Tm lnps (onem00 v00) orog
                H_div_grad (lap_c_const g v00) _ r w).
    reflexivity.
  Qed.

  Theorem vorticity_invariance_concrete (T1 T2 : nat -> F) r w :
    vort_tendency_explicit Wi Wi (toM_c g) (curlc_c g) (clip_c g) (with_tref c T1) (Xs Wi X T T1)
                           (fun p => rt_dry (with_tref c T1) (Xs Wi X T T1 p)) (fun _ => 0) r w
    = vort_tendency_explicit Wi Wi (toM_c g) (curlc_c g) (clip_c g) (with_tref c T2) (Xs Wi X T T2)
                             (fun p => rt_dry (with_tref c T2) (Xs Wi X T T2 p)) (fun _ => 0) r w.
  Proof.
    rewrite !(vorticity_modal_closed Wi Wi (toM_c g) (curlc_c g) (clip_c g)
                (toM_c_lin g) (curlc_c_lin g) (clip_c_lin g) c X T H_curl_grad _ r w).
    reflexivity.
  Qed.
End WholeStateInvariance.

(** ** (c) the implicit half: coefficient by coefficient the column operators of Model/Implicit.v *)
Section ImplicitFull.
  Context {F : Type} {o : Ops F} {Fc : FieldC o}.
  Add Field FFpi : (field_c : FieldTh o).
  Hypothesis feqb_sound : forall x y : F, feqb x y = true -> x = y.
  Variable g : @HGrid F.
  Variable c : @PEcfg F.
  Let lam (l : nat) : F := Deriv.lap_eig (hL g) (hr g) l.

  (** implicit_terms_full is Implicit.implicit_terms (dense) on the column of every coefficient *)
  Theorem implicit_terms_full_column (s : @State F) a l :
    col_eq (cK c) (col_of (implicit_terms_full g c s) a l) (Implicit.implicit_terms false c (lam l) (col_of s a l)).
  Proof. repeat split. Qed.

  (** linearity of implicit_terms_full in the (divergence, temperature, lnps) part of the state *)
  Theorem implicit_terms_full_linear (al be : F) (x y z : @State F) a l :
    col_eq (cK c) (col_of z a l) (col_lin al (col_of x a l) be (col_of y a l)) ->
    col_eq (cK c) (col_of (implicit_terms_full g c z) a l)
                  (col_lin al (col_of (implicit_terms_full g c x) a l) be (col_of (implicit_terms_full g c y) a l)).
  Proof.
    intros (Hd & Ht & Hp). cbn [col_lin c_div c_temp c_lnps col_of] in Hd, Ht, Hp.
    repeat split; cbn [col_of c_div c_temp c_lnps implicit_terms_full s_div s_temp s_lnps col_lin].
    - intros k Hk.
      unfold div_tendency_implicit, lap_c, unc, cur, lapm, Deriv.laplacian, div_implicit_potential. cbn [fst snd].
      rewrite Hp.
      assert (E : geo_diff false c (fun k0 => s_temp z k0 a l) k
                  = geo_diff false c (fun h => al * s_temp x h a l + be * s_temp y h a l) k).
      { unfold geo_diff, geo_diff_dense. apply sumn_ext. intros k0 Hk0. now rewrite (Ht k0 Hk0). }
      rewrite E, geo_diff_lin. ring.
    - intros k Hk.
      unfold temp_tendency_implicit, temp_implicit_col, temp_implicit_dense, unc. cbn [fst snd].
      rewrite (matvec_ext (cK c) (neg_temp_weights c) (fun s0 => s_div z s0 a l)
                 (fun h => al * s_div x h a l + be * s_div y h a l) k) by (intros h Hh; now apply Hd).
      apply matvec_lin.
    - unfold lnps_implicit_col.
      rewrite (matvec_ext (cK c) (fun _ h => thickness (cb c) h) (fun s0 => s_div z s0 a l)
                 (fun h => al * s_div x h a l + be * s_div y h a l) 0%nat) by (intros h Hh; now apply Hd).
      rewrite matvec_lin. ring.
  Qed.

  (** implicit_inverse_full (state - eta * implicit_terms_full state) = state, given that the table
      handed over for total wavenumber l is a left inverse of the assembled matrix (table obligation) *)
  Theorem implicit_inverse_full_resolvent (eta : F) (invt : nat -> @Mat F) (x : @State F) a l :
    is_left_inverse (2 * cK c + 1) (invt l) (implicit_matrix c eta (lam l)) ->
    thickness (cb c) 0%nat <> 0 -> thickness (cb c) (cK c - 1)%nat <> 0 ->
    col_eq (cK c)
           (col_of (implicit_inverse_full g c eta invt (state_minus_scaled x eta (implicit_terms_full g c x))) a l)
           (col_of x a l) /\
    (forall k, s_vort (implicit_inverse_full g c eta invt (state_minus_scaled x eta (implicit_terms_full g c x))) k a l
               = s_vort x k a l).
  Proof.
    intros Hinv H0 H1. split.
    - pose proof (split_resolvent_gen feqb_sound (fun _ _ => invt l) c eta (lam l) (col_of x a l)
                    (col_of (state_minus_scaled x eta (implicit_terms_full g c x)) a l) false Hinv H0 H1) as E.
      assert (Hy : col_eq (cK c) (col_of (state_minus_scaled x eta (implicit_terms_full g c x)) a l)
                          (col_minus_scaled (col_of x a l) eta (Implicit.implicit_terms false c (lam l) (col_of x a l)))).
      { repeat split. }
      specialize (E Hy). destruct E as (Ed & Et & Ep).
      repeat split; cbn [col_of c_div c_temp c_lnps implicit_inverse_full s_div s_temp s_lnps].
      + intros k Hk. exact (Ed k Hk).
      + intros k Hk. exact (Et k Hk).
      + exact Ep.
    - intros k. cbn [implicit_inverse_full s_vort state_minus_scaled implicit_terms_full]. unfold zero3. ring.
  Qed.
End ImplicitFull.

(** ** out-of-range behaviour of the concrete operators (used to reduce the "for all coefficients"
    premises of the concrete-operator theorems to the finitely many in-range coefficients) *)
Section OutOfRange.
  Context {F : Type} {o : Ops F} {Fc : FieldC o}.
  Add Field FFpo : (field_c : FieldTh o).
  Variable g : @HGrid F.

  Lemma clip_c_out (x : Wi -> F) a l : (hL g - 1 <= l)%nat -> clip_c g x (a, l) = 0.
  Proof.
    intros Hl. unfold clip_c, unc, clipm, Deriv.clip, cur. cbn [fst snd].
    rewrite Nat.sub_diag. destruct (Nat.ltb_spec l (hL g - (1 + 0))); [lia|ring].
  Qed.
  Lemma toM_c_out (z : Wi -> F) a l : (hR g <= a)%nat -> toM_c g z (a, l) = 0.
  Proof. intros Ha. unfold toM_c, unc, to_modal. cbn [fst snd]. now apply analysis_out_row. Qed.
  Lemma lap_c_zero (x : Wi -> F) w : x w = 0 -> lap_c g x w = 0.
  Proof.
    destruct w as [a l]. intros H. unfold lap_c, unc, lapm, Deriv.laplacian, cur. cbn [fst snd]. rewrite H. ring.
  Qed.

  Lemma shift1_zero n off k : shift1 n off (fun _ : nat => (0 : F)) k = 0.
  Proof.
    unfold shift1. destruct (Z.leb (Z.of_nat n) (Z.abs off)); [reflexivity|].
    destruct (Z.ltb 0 off).
    - destruct (Nat.ltb k (Z.to_nat off)); reflexivity.
    - destruct (Nat.ltb (k + Z.to_nat (- off)) n); reflexivity.
  Qed.
  Lemma D2_zero_row L C (a b x : nat -> nat -> F) i l : (forall l', x i l' = 0) -> D2 L C a b x i l = 0.
  Proof.
    intros H. unfold D2, shift_cols.
    rewrite (shift1_ext_all C d2_om (fun l0 => d2_wm (lit (laxis L l0)) (a i l0) * x i l0) (fun _ => 0)) by (intros; rewrite H; ring).
    rewrite (shift1_ext_all C d2_op (fun l0 => d2_wp (lit (laxis L l0)) (b i l0) * x i l0) (fun _ => 0)) by (intros; rewrite H; ring).
    rewrite !shift1_zero. ring.
  Qed.
  (** rows beyond the R = 2M-1 (odd) rows: the longitude derivative of an array that vanishes there vanishes *)
  Lemma dlon_ref_out R (x : nat -> nat -> F) i l :
    (R mod 2 = 1)%nat -> (R <= i)%nat -> (forall i' l', (R <= i')%nat -> x i' l' = 0) -> dlon_ref R x i l = 0.
  Proof.
    intros Hodd Hi Hx. unfold dlon_ref, shift_rows, dref_sel.
    destruct (dref_cond i) eqn:E.
    - unfold dref_down_off. rewrite shift1_m1. destruct (Nat.ltb_spec (S i) R); [lia|ring].
    - assert (Hne : i <> R).
      { intros ->. unfold dref_cond in E. rewrite Hodd in E. discriminate E. }
      unfold dref_up_off, shift1. destruct (Z.leb (Z.of_nat R) (Z.abs 1)); [ring|].
      change (Z.ltb 0 1) with true. cbv iota. change (Z.to_nat 1) with 1%nat.
      destruct (Nat.ltb i 1); [ring|]. rewrite Hx by lia. ring.
  Qed.

  Lemma divc_c_out (x y : Wi -> F) a l :
    (hR g mod 2 = 1)%nat -> (hR g <= a)%nat ->
    (forall a' l', (hR g <= a')%nat -> x (a', l') = 0) -> (forall a' l', (hR g <= a')%nat -> y (a', l') = 0) ->
    divc_c g x y (a, l) = 0.
  Proof.
    intros Hodd Ha Hx Hy. unfold divc_c, unc, divm, div_cos_lat, clip_if, d_dlon. cbn [fst snd].
    rewrite dlon_ref_out by (try assumption; intros; now apply Hx).
    rewrite D2_zero_row by (intros; now apply Hy).
    rewrite fdiv_mul. ring.
  Qed.
  Lemma curlc_c_out (x y : Wi -> F) a l :
    (hR g mod 2 = 1)%nat -> (hR g <= a)%nat ->
    (forall a' l', (hR g <= a')%nat -> x (a', l') = 0) -> (forall a' l', (hR g <= a')%nat -> y (a', l') = 0) ->
    curlc_c g x y (a, l) = 0.
  Proof.
    intros Hodd Ha Hx Hy. unfold curlc_c, unc, curlm, curl_cos_lat, clip_if, d_dlon. cbn [fst snd].
    rewrite dlon_ref_out by (try assumption; intros; now apply Hy).
    rewrite D2_zero_row by (intros; now apply Hx).
    rewrite fdiv_mul. ring.
  Qed.
  (** hence on transformed nodal fields *)
  Lemma divc_toM_out (z1 z2 : Wi -> F) a l :
    (hR g mod 2 = 1)%nat -> (hR g <= a)%nat -> divc_c g (toM_c g z1) (toM_c g z2) (a, l) = 0.
  Proof. intros Hodd Ha. apply divc_c_out; try assumption; intros; now apply toM_c_out. Qed.
  Lemma curlc_toM_out (z1 z2 : Wi -> F) a l :
    (hR g mod 2 = 1)%nat -> (hR g <= a)%nat -> curlc_c g (toM_c g z1) (toM_c g z2) (a, l) = 0.
  Proof. intros Hodd Ha. apply curlc_c_out; try assumption; intros; now apply toM_c_out. Qed.
  Lemma clip_c_zero (x : Wi -> F) w : x w = 0 -> clip_c g x w = 0.
  Proof.
    destruct w as [a l]. intros H. unfold clip_c, unc, clipm, Deriv.clip, cur. cbn [fst snd]. rewrite H. ring.
  Qed.
End OutOfRange.

(** ** the last lift: two EXECUTED states with the same absolute temperature.
    Range-restricted extensionality of the assembled operators; the only use of an axiom is
    [functional_extensionality] to identify two nodal-column RECORDS whose level functions agree pointwise. *)
From Coq Require Import FunctionalExtensionality.

Section Lift.
  Context {F : Type} {o : Ops F} {Fc : FieldC o}.
  Add Field FFpx : (field_c : FieldTh o).

  Lemma ncol_ext (x y : @NCol F) :
    (forall k, n_u x k = n_u y k) -> (forall k, n_v x k = n_v y k) -> (forall k, n_vort x k = n_vort y k) ->
    (forall k, n_div x k = n_div y k) -> (forall k, n_temp x k = n_temp y k) ->
    n_gx x = n_gx y -> n_gy x = n_gy y -> n_sec2 x = n_sec2 y -> n_f x = n_f y -> x = y.
  Proof.
    destruct x, y. cbn. intros Hu Hv Hw Hd Ht -> -> -> ->.
    apply functional_extensionality in Hu. apply functional_extensionality in Hv. apply functional_extensionality in Hw.
    apply functional_extensionality in Hd. apply functional_extensionality in Ht. now subst.
  Qed.

  Lemma memo3_out_k n m q (x : nat -> nat -> nat -> F) k a j : (n <= k)%nat -> memo3 n m q x k a j = 0.
  Proof.
    intros Hk. unfold memo3.
    rewrite (nth_overflow (map (fun k0 => map (fun a0 => map (x k0 a0) (seq 0 q)) (seq 0 m)) (seq 0 n)) [])
      by (rewrite map_length, seq_length; exact Hk).
    destruct a; destruct j; reflexivity.
  Qed.

  Lemma synth_zero K L J f p i j : synth K L J f p (fun _ _ => (0 : F)) i j = 0.
  Proof.
    unfold synth, inv_fourier. apply sumn_zero. intros a Ha.
    destruct (Nat.lt_ge_cases j J) as [Hj|Hj].
    - rewrite sh_memo2_ok by assumption. unfold inv_legendre.
      rewrite (sumn_zero L (fun l => p a j l * 0)) by (intros; ring). ring.
    - unfold sh_memo2. rewrite (nth_map_seq (fun a0 => map (inv_legendre L p (fun _ _ => 0) a0) (seq 0 J)) K a []) by assumption.
      rewrite nth_overflow by (rewrite map_length, seq_length; exact Hj). ring.
  Qed.

  Variable g : @HGrid F.
  Let R := hR g.
  Let L := hL g.
  Let I := hI g.
  Let J := hJ g.

  (** range-restricted extensionality of the concrete operators *)
  Lemma toM_c_ext_range (z z' : Wi -> F) a l :
    (a < R)%nat -> (forall i j, (i < I)%nat -> (j < J)%nat -> z (i, j) = z' (i, j)) -> toM_c g z (a, l) = toM_c g z' (a, l).
  Proof. intros Ha H. unfold toM_c, unc, to_modal, cur. cbn [fst snd]. apply analysis_ext; assumption. Qed.
  Lemma divc_c_ext_range (x y x' y' : Wi -> F) a l :
    (a < R)%nat -> (l < L)%nat ->
    (forall a l, (a < R)%nat -> (l < L)%nat -> x (a, l) = x' (a, l)) ->
    (forall a l, (a < R)%nat -> (l < L)%nat -> y (a, l) = y' (a, l)) ->
    divc_c g x y (a, l) = divc_c g x' y' (a, l).
  Proof. intros Ha Hl Hx Hy. unfold divc_c, unc. cbn [fst snd]. apply divm_ext_range; assumption. Qed.
  Lemma curlc_c_ext_range (x y x' y' : Wi -> F) a l :
    (a < R)%nat -> (l < L)%nat ->
    (forall a l, (a < R)%nat -> (l < L)%nat -> x (a, l) = x' (a, l)) ->
    (forall a l, (a < R)%nat -> (l < L)%nat -> y (a, l) = y' (a, l)) ->
    curlc_c g x y (a, l) = curlc_c g x' y' (a, l).
  Proof. intros Ha Hl Hx Hy. unfold curlc_c, unc. cbn [fst snd]. apply curlm_ext_range; assumption. Qed.
  Lemma clip_c_ext_pt (x x' : Wi -> F) w : x w = x' w -> clip_c g x w = clip_c g x' w.
  Proof. destruct w. intros H. unfold clip_c, unc, clipm, Deriv.clip, cur. cbn [fst snd]. now rewrite H. Qed.

  Variable c : @PEcfg F.
  Variable grav : F.

  (** the assembled explicit operators read the nodal columns on the node range only *)
  Section AssemblyExt.
    Variables X X' : Wi -> @NCol F.
    Hypothesis HX : forall i j, (i < I)%nat -> (j < J)%nat -> X (i, j) = X' (i, j).
    Lemma temp_assembly_ext r a l : (a < R)%nat -> (l < L)%nat ->
      temp_tendency_explicit Wi Wi (toM_c g) (divc_c g) (clip_c g) c X r (a, l)
      = temp_tendency_explicit Wi Wi (toM_c g) (divc_c g) (clip_c g) c X' r (a, l).
    Proof.
      intros Ha Hl. unfold temp_tendency_explicit. apply clip_c_ext_pt. f_equal.
      - apply toM_c_ext_range; [assumption|]. intros i j Hi Hj. now rewrite (HX i j Hi Hj).
      - f_equal. apply divc_c_ext_range; try assumption; intros a' l' Ha' Hl';
          (apply toM_c_ext_range; [assumption|]; intros i j Hi Hj; now rewrite (HX i j Hi Hj)).
    Qed.
    Lemma div_assembly_ext (orog : Wi -> F) r a l : (a < R)%nat -> (l < L)%nat ->
      div_tendency_explicit Wi Wi (toM_c g) (divc_c g) (lap_c g) (clip_c g) c grav X (fun p => rt_dry c (X p)) orog (fun _ => 0) r (a, l)
      = div_tendency_explicit Wi Wi (toM_c g) (divc_c g) (lap_c g) (clip_c g) c grav X' (fun p => rt_dry c (X' p)) orog (fun _ => 0) r (a, l).
    Proof.
      intros Ha Hl. unfold div_tendency_explicit. apply clip_c_ext_pt. f_equal. f_equal. f_equal.
      - f_equal. apply divc_c_ext_range; try assumption; intros a' l' Ha' Hl';
          (apply toM_c_ext_range; [assumption|]; intros i j Hi Hj; now rewrite (HX i j Hi Hj)).
      - f_equal. unfold lap_c, unc, lapm, Deriv.laplacian, cur. cbn [fst snd]. f_equal.
        apply toM_c_ext_range; [assumption|]. intros i j Hi Hj. now rewrite (HX i j Hi Hj).
    Qed.
    Lemma vort_assembly_ext r a l : (a < R)%nat -> (l < L)%nat ->
      vort_tendency_explicit Wi Wi (toM_c g) (curlc_c g) (clip_c g) c X (fun p => rt_dry c (X p)) (fun _ => 0) r (a, l)
      = vort_tendency_explicit Wi Wi (toM_c g) (curlc_c g) (clip_c g) c X' (fun p => rt_dry c (X' p)) (fun _ => 0) r (a, l).
    Proof.
      intros Ha Hl. unfold vort_tendency_explicit. apply clip_c_ext_pt. f_equal. f_equal.
      apply curlc_c_ext_range; try assumption; intros a' l' Ha' Hl';
        (apply toM_c_ext_range; [assumption|]; intros i j Hi Hj; now rewrite (HX i j Hi Hj)).
    Qed.
    Lemma lnps_assembly_ext a l : (a < R)%nat -> (l < L)%nat ->
      lnps_tendency_explicit_c g c X (a, l) = lnps_tendency_explicit_c g c X' (a, l).
    Proof.
      intros Ha Hl. unfold lnps_tendency_explicit_c. apply clip_c_ext_pt.
      apply toM_c_ext_range; [assumption|]. intros i j Hi Hj. now rewrite (HX i j Hi Hj).
    Qed.
  End AssemblyExt.
End Lift.

Section SplitInvariance.
  Context {F : Type} {o : Ops F} {Fc : FieldC o}.
  Add Field FFps : (field_c : FieldTh o).
  Hypothesis two_nz : two <> 0.
  Hypothesis feqb_sound : forall x y : F, feqb x y = true -> x = y.
  Variable g : @HGrid F.
  Variable c : @PEcfg F.
  Hypothesis th2_nz : forall k, (S k < cK c)%nat -> thickness (cb c) k + thickness (cb c) (S k) <> 0.
  Variable grav : F.
  Variable orog : nat -> nat -> F.
  (** two states that share vorticity, divergence, lnps and tracers, with temperature variations temp1, temp2 *)
  Variable s0 : @State F.
  Variables temp1 temp2 : nat -> nat -> nat -> F.
  Variables T1 T2 : nat -> F.
  Variable v00 : F.

  (** absolute temperature: modal (level k) and nodal *)
  Definition Tm_abs (k : nat) (w : Wi) : F := temp1 k (fst w) (snd w) + T1 k * onem00 v00 w.
  Definition T_abs (k : nat) (p : Wi) : F := if Nat.ltb k (cK c) then toN_c g (Tm_abs k) p else T1 k.

  (** table hypothesis: the (0,0)-only spectrum with coefficient v00 is the constant one on the node range *)
  Hypothesis H_one : forall i j, (i < hI g)%nat -> (j < hJ g)%nat -> to_nodal g (cur (onem00 v00)) i j = 1.

  Lemma to_nodal3_guard (x : nat -> nat -> nat -> F) k i j :
    (i < hI g)%nat -> (j < hJ g)%nat ->
    to_nodal3 g (cK c) x k i j = lev_guard (cK c) (fun k => to_nodal g (x k) i j) k.
  Proof.
    intros Hi Hj. unfold to_nodal3, lev_guard. destruct (Nat.ltb_spec k (cK c)).
    - rewrite memo3_ok by assumption. reflexivity.
    - now apply memo3_out_k.
  Qed.

  Lemma node_eq (t : nat -> nat -> nat -> F) (Ti : nat -> F) :
    (forall k a l, (k < cK c)%nat -> (a < hR g)%nat -> (l < hL g)%nat ->
                   t k a l = Tm_abs k (a, l) - Ti k * onem00 v00 (a, l)) ->
    (forall k, (cK c <= k)%nat -> T1 k = Ti k) ->
    forall i j, (i < hI g)%nat -> (j < hJ g)%nat ->
    X_of g (diagnostic_state g (cK c) (with_stemp s0 t)) (i, j) = Xs Wi (X_ideal g (cK c) s0) T_abs Ti (i, j).
  Proof.
    intros Hrel Hb i j Hi Hj.
    apply ncol_ext;
      cbv beta iota zeta delta [Xs with_temp X_of X_ideal diagnostic_state n_u n_v n_vort n_div n_temp n_gx n_gy n_sec2 n_f
                                d_u d_v d_vort d_div d_temp d_gx d_gy with_stemp s_vort s_div s_temp s_lnps fst snd].
    - intros k. now apply to_nodal3_guard.
    - intros k. now apply to_nodal3_guard.
    - intros k. now apply to_nodal3_guard.
    - intros k. rewrite to_nodal3_guard by assumption. unfold lev_guard, dv_of.
      destruct (Nat.ltb k (cK c)); [reflexivity|].
      unfold toN_c, unc, to_nodal, cur. cbn [fst snd]. symmetry. apply synth_zero.
    - intros k. rewrite to_nodal3_guard by assumption. unfold lev_guard, T_abs.
      destruct (Nat.ltb_spec k (cK c)) as [Hk|Hk].
      + unfold toN_c, unc, to_nodal, cur. cbn [fst snd].
        rewrite (synth_ext (hR g) (hL g) (hJ g) (hf g) (hp g) (t k)
                   (fun a l => (- Ti k) * onem00 v00 (a, l) + Tm_abs k (a, l)) i j Hj)
          by (intros a l Ha Hl; rewrite (Hrel k a l Hk Ha Hl); ring).
        rewrite (synth_linear (hR g) (hL g) (hJ g) (hf g) (hp g) (- Ti k) (fun a l => onem00 v00 (a, l))
                   (fun a l => Tm_abs k (a, l)) i j Hj).
        pose proof (H_one i j Hi Hj) as E1. unfold to_nodal, cur in E1. rewrite E1. ring.
      + rewrite (Hb k Hk). ring.
    - now apply sh_memo2_ok.
    - now apply sh_memo2_ok.
    - reflexivity.
    - reflexivity.
  Qed.

  Let X := X_ideal g (cK c) s0.
  Let dv := dv_of (cK c) s0.
  Let lnps := unc (s_lnps s0).
  (** the same absolute temperature, levelwise, on the coefficient range: a shift of the (0,0) coefficient *)
  Hypothesis Htemp : forall k a l, (k < cK c)%nat -> (a < hR g)%nat -> (l < hL g)%nat ->
      temp1 k a l + T1 k * onem00 v00 (a, l) = temp2 k a l + T2 k * onem00 v00 (a, l).
  (** profiles are K-vectors: as index functions they agree beyond the K entries the code has *)
  Hypothesis Hbeyond : forall k, (cK c <= k)%nat -> T1 k = T2 k.
  (** exactness facts about the grid tables, on the (unmaterialised) nodal columns of the shared fields *)
  Hypothesis H_roundtrip : forall s w, clip_c g (toM_c g (toN_c g (dv s))) w = dv s w.
  Hypothesis H_div_vel : forall r w,
      clip_c g (divc_c g (toM_c g (fun p => n_u (X p) r * n_sec2 (X p))) (toM_c g (fun p => n_v (X p) r * n_sec2 (X p)))) w
      = clip_c g (toM_c g (fun p => n_div (X p) r)) w.
  Hypothesis H_div_grad : forall w,
      clip_c g (divc_c g (toM_c g (fun p => n_gx (X p) * n_sec2 (X p))) (toM_c g (fun p => n_gy (X p) * n_sec2 (X p)))) w
      = lap_c g lnps w.
  Hypothesis H_curl_grad : forall w,
      clip_c g (curlc_c g (toM_c g (fun p => n_gx (X p) * n_sec2 (X p))) (toM_c g (fun p => n_gy (X p) * n_sec2 (X p)))) w = 0.

  Let s1 := with_stemp s0 temp1.
  Let s2 := with_stemp s0 temp2.

  Lemma rel1 k a l : (k < cK c)%nat -> (a < hR g)%nat -> (l < hL g)%nat ->
    temp1 k a l = Tm_abs k (a, l) - T1 k * onem00 v00 (a, l).
  Proof. intros. unfold Tm_abs. cbn [fst snd]. ring. Qed.
  Lemma rel2 k a l : (k < cK c)%nat -> (a < hR g)%nat -> (l < hL g)%nat ->
    temp2 k a l = Tm_abs k (a, l) - T2 k * onem00 v00 (a, l).
  Proof. intros Hk Ha Hl. unfold Tm_abs. cbn [fst snd]. rewrite (Htemp k a l Hk Ha Hl). ring. Qed.

  (** the implicit halves in the shape of the modal theorems *)
  Lemma temp_implicit_shape (ci : @PEcfg F) (t : nat -> nat -> nat -> F) k a l :
    cK ci = cK c ->
    s_temp (implicit_terms_full g ci (with_stemp s0 t)) k a l = temp_tendency_implicit Wi ci dv k (a, l).
  Proof.
    intros HK. cbn [implicit_terms_full s_temp with_stemp s_div].
    unfold temp_tendency_implicit, temp_implicit_col, temp_implicit_dense. rewrite HK.
    apply matvec_ext. intros h Hh. unfold dv, dv_of, unc. cbn [fst snd].
    destruct (Nat.ltb_spec h (cK c)); [reflexivity|lia].
  Qed.
  Lemma div_implicit_shape (ci : @PEcfg F) (t : nat -> nat -> nat -> F) (Ti : nat -> F) k a l :
    cK ci = cK c -> (a < hR g)%nat -> (l < hL g)%nat ->
    (forall k a l, (k < cK c)%nat -> (a < hR g)%nat -> (l < hL g)%nat ->
                   t k a l = Tm_abs k (a, l) - Ti k * onem00 v00 (a, l)) ->
    s_div (implicit_terms_full g ci (with_stemp s0 t)) k a l
    = div_tendency_implicit Wi (lap_c g) ci (Tms Wi Tm_abs (onem00 v00) Ti) lnps k (a, l).
  Proof.
    intros HK Ha Hl Hrel. cbn [implicit_terms_full s_div with_stemp s_temp s_lnps].
    unfold div_tendency_implicit, lap_c, unc, cur, lapm, Deriv.laplacian, div_implicit_potential. cbn [fst snd].
    f_equal. f_equal. f_equal.
    unfold geo_diff, geo_diff_dense. rewrite HK. apply sumn_ext. intros k0 Hk0.
    unfold Tms. now rewrite (Hrel k0 a l Hk0 Ha Hl).
  Qed.

  Theorem whole_state_split_invariance k a l :
    (k < cK c)%nat -> (a < hR g)%nat -> (l < hL g)%nat ->
    let c1 := with_tref c T1 in let c2 := with_tref c T2 in
    let E1 := explicit_terms_full g c1 grav orog s1 in let I1 := implicit_terms_full g c1 s1 in
    let E2 := explicit_terms_full g c2 grav orog s2 in let I2 := implicit_terms_full g c2 s2 in
    s_vort E1 k a l + s_vort I1 k a l = s_vort E2 k a l + s_vort I2 k a l /\
    s_div E1 k a l + s_div I1 k a l = s_div E2 k a l + s_div I2 k a l /\
    s_temp E1 k a l + s_temp I1 k a l = s_temp E2 k a l + s_temp I2 k a l /\
    s_lnps E1 a l + s_lnps I1 a l = s_lnps E2 a l + s_lnps I2 a l.
  Proof.
    intros Hk Ha Hl. cbv zeta.
    destruct (explicit_terms_full_is_assembly g (with_tref c T1) grav orog s1 k a l Hk Ha Hl) as (Ev1 & Ed1 & Et1 & El1).
    destruct (explicit_terms_full_is_assembly g (with_tref c T2) grav orog s2 k a l Hk Ha Hl) as (Ev2 & Ed2 & Et2 & El2).
    cbv zeta in Ev1, Ed1, Et1, El1, Ev2, Ed2, Et2, El2.
    change (cK (with_tref c T1)) with (cK c) in *. change (cK (with_tref c T2)) with (cK c) in *.
    pose proof (node_eq temp1 T1 rel1 (fun k _ => eq_refl)) as N1.
    pose proof (node_eq temp2 T2 rel2 Hbeyond) as N2.
    fold s1 in N1. fold s2 in N2.
    split; [|split; [|split]].
    - rewrite Ev1, Ev2.
      rewrite (vort_assembly_ext g (with_tref c T1) _ _ N1 k a l Ha Hl).
      rewrite (vort_assembly_ext g (with_tref c T2) _ _ N2 k a l Ha Hl).
      cbn [implicit_terms_full s_vort]. f_equal.
      exact (vorticity_invariance_concrete g c X T_abs H_curl_grad T1 T2 k (a, l)).
    - rewrite Ed1, Ed2.
      rewrite (div_assembly_ext g (with_tref c T1) grav _ _ N1 (unc orog) k a l Ha Hl).
      rewrite (div_assembly_ext g (with_tref c T2) grav _ _ N2 (unc orog) k a l Ha Hl).
      unfold s1, s2.
      rewrite (div_implicit_shape (with_tref c T1) temp1 T1 k a l eq_refl Ha Hl rel1).
      rewrite (div_implicit_shape (with_tref c T2) temp2 T2 k a l eq_refl Ha Hl rel2).
      exact (divergence_invariance_concrete g c grav X T_abs Tm_abs lnps (unc orog) v00 H_div_grad T1 T2 k (a, l)).
    - rewrite Et1, Et2.
      rewrite (temp_assembly_ext g (with_tref c T1) _ _ N1 k a l Ha Hl).
      rewrite (temp_assembly_ext g (with_tref c T2) _ _ N2 k a l Ha Hl).
      unfold s1, s2.
      rewrite (temp_implicit_shape (with_tref c T1) temp1 k a l eq_refl).
      rewrite (temp_implicit_shape (with_tref c T2) temp2 k a l eq_refl).
      exact (temperature_invariance_concrete two_nz feqb_sound g c th2_nz X T_abs dv (fun p k0 => eq_refl) H_roundtrip H_div_vel T1 T2 k (a, l) Hk).
    - rewrite El1, El2.
      rewrite (lnps_assembly_ext g (with_tref c T1) _ _ N1 a l Ha Hl).
      rewrite (lnps_assembly_ext g (with_tref c T2) _ _ N2 a l Ha Hl).
      reflexivity.
  Qed.
End SplitInvariance.

(** ** the moist classes: executed = assembled *)
Section ConcreteMoist.
  Context {F : Type} {o : Ops F} {Fc : FieldC o}.
  Add Field FFpm : (field_c : FieldTh o).
  Variable g : @HGrid F.
  Variable c : @PEcfg F.
  Variable m : @Moist F.
  Variable grav : F.
  Variable orog : nat -> nat -> F.
  Variable X : Wi -> @NCol F.
  Variable rt q gqx gqy : Wi -> nat -> F.
  Variable lapn : Wi -> F.

  Theorem vort_of_h_is_assembly r a l :
    (a < hR g)%nat -> (l < hL g)%nat ->
    vort_of_h g (tm g (fun i j => combined_u c true (X (i, j)) (rt (i, j)) r))
                (tm g (fun i j => combined_v c true (X (i, j)) (rt (i, j)) r))
                (tm g (fun i j => humidity_curl_nodal c m (X (i, j)) (gqx (i, j)) (gqy (i, j)) r)) a l
    = vort_tendency_explicit Wi Wi (toM_c g) (curlc_c g) (clip_c g) c X rt
                             (fun w' => humidity_curl_modal Wi Wi (toM_c g) c m X gqx gqy r w') r (a, l).
  Proof.
    intros Ha Hl. unfold vort_tendency_explicit, humidity_curl_modal, vort_of_h, clip_c, curlc_c, toM_c, unc, cur, clipm, Deriv.clip.
    cbn [fst snd].
    rewrite (tm_ok g _ a l Ha Hl).
    rewrite (curlm_ext_range g _ _ (to_modal g (fun i j => combined_u c true (X (i, j)) (rt (i, j)) r))
               (to_modal g (fun i j => combined_v c true (X (i, j)) (rt (i, j)) r)) a l Ha Hl)
      by (intros; now apply tm_ok).
    reflexivity.
  Qed.

  Theorem div_of_h_is_assembly r a l :
    (a < hR g)%nat -> (l < hL g)%nat ->
    div_of_h g grav orog
             (tm g (fun i j => combined_u c true (X (i, j)) (rt (i, j)) r))
             (tm g (fun i j => combined_v c true (X (i, j)) (rt (i, j)) r))
             (tm g (fun i j => kinetic (X (i, j)) r))
             (hum_div_of g (tm g (fun i j => humidity_geo_nodal c false m (X (i, j)) (q (i, j)) r))
                           (tm g (fun i j => humidity_div_nodal c m (X (i, j)) (q (i, j)) (gqx (i, j)) (gqy (i, j)) (lapn (i, j)) r))) a l
    = div_tendency_explicit Wi Wi (toM_c g) (divc_c g) (lap_c g) (clip_c g) c grav X rt (unc orog)
                            (fun w' => humidity_div_modal Wi Wi (toM_c g) (lap_c g) c m X q gqx gqy lapn r w') r (a, l).
  Proof.
    intros Ha Hl.
    unfold div_tendency_explicit, humidity_div_modal, div_of_h, hum_div_of, clip_c, divc_c, lap_c, toM_c, unc, cur, clipm, lapm,
      Deriv.clip, Deriv.laplacian.
    cbn [fst snd].
    rewrite !(tm_ok g _ a l Ha Hl).
    rewrite (divm_ext_range g _ _ (to_modal g (fun i j => combined_u c true (X (i, j)) (rt (i, j)) r))
               (to_modal g (fun i j => combined_v c true (X (i, j)) (rt (i, j)) r)) a l Ha Hl)
      by (intros; now apply tm_ok).
    reflexivity.
  Qed.

  Theorem temp_of_moist_is_assembly r a l :
    (a < hR g)%nat -> (l < hL g)%nat ->
    scalar_of g (tm g (fun i j => temp_nodal_total_moist c true m (X (i, j)) (q (i, j)) r))
                (tm g (fun i j => hsa_mu (X (i, j)) (n_temp (X (i, j))) r))
                (tm g (fun i j => hsa_mv (X (i, j)) (n_temp (X (i, j))) r)) a l
    = temp_tendency_explicit_moist Wi Wi (toM_c g) (divc_c g) (clip_c g) c m X q r (a, l).
  Proof.
    intros Ha Hl. unfold temp_tendency_explicit_moist, scalar_of, clip_c, divc_c, toM_c, unc, cur, clipm, Deriv.clip. cbn [fst snd].
    rewrite (tm_ok g _ a l Ha Hl).
    rewrite (divm_ext_range g _ _ (to_modal g (fun i j => hsa_mu (X (i, j)) (n_temp (X (i, j))) r))
               (to_modal g (fun i j => hsa_mv (X (i, j)) (n_temp (X (i, j))) r)) a l Ha Hl)
      by (intros; now apply tm_ok).
    reflexivity.
  Qed.
End ConcreteMoist.

Section ConcreteMoistWhole.
  Context {F : Type} {o : Ops F} {Fc : FieldC o}.
  Variable g : @HGrid F.
  Variable c : @PEcfg F.
  Variable m : @Moist F.
  Variable grav : F.
  Variable orog : nat -> nat -> F.

  (** every coefficient of vorticity, divergence, temperature, lnps of explicit_terms_full_moist is the ModalAssembly
      instance (virtual temperature [rt_full], humidity corrections, moist adiabatic term) at the nodal columns,
      nodal humidity, nodal grad(q) and nodal laplacian(lnps) of the materialised diagnostic arrays *)
  Theorem explicit_terms_full_moist_is_assembly (cloud : bool) (s : @State F) k a l :
    (k < cK c)%nat -> (a < hR g)%nat -> (l < hL g)%nat ->
    let d := diagnostic_state g (cK c) s in
    let md := moist_diag g (cK c) s in
    let X := X_of g d in
    let rt := rt_full g cloud c m d in
    let q := trn d 0 in
    let gqx := gq_of (m_gqx md) in let gqy := gq_of (m_gqy md) in
    let lapn := fun p : Wi => m_lap md (fst p) (snd p) in
    let E := explicit_terms_full_moist g cloud c m grav orog s in
    s_vort E k a l
    = vort_tendency_explicit Wi Wi (toM_c g) (curlc_c g) (clip_c g) c X rt
                             (fun w' => humidity_curl_modal Wi Wi (toM_c g) c m X gqx gqy k w') k (a, l) /\
    s_div E k a l
    = div_tendency_explicit Wi Wi (toM_c g) (divc_c g) (lap_c g) (clip_c g) c grav X rt (unc orog)
                            (fun w' => humidity_div_modal Wi Wi (toM_c g) (lap_c g) c m X q gqx gqy lapn k w') k (a, l) /\
    s_temp E k a l = temp_tendency_explicit_moist Wi Wi (toM_c g) (divc_c g) (clip_c g) c m X q k (a, l) /\
    s_lnps E a l = lnps_tendency_explicit_c g c X (a, l).
  Proof.
    intros Hk Ha Hl. cbv zeta. unfold explicit_terms_full_moist, explicit_terms_of_diag_moist. cbv zeta.
    cbn [s_vort s_div s_temp s_lnps].
    rewrite !(nth_map_seq (explicit_level_moist g cloud c m grav orog (diagnostic_state g (cK c) s) (moist_diag g (cK c) s))
                (cK c) k (lev0 (F := F)) Hk).
    unfold explicit_level_moist. cbv zeta. cbn [l_vort l_div l_temp].
    rewrite !sh_memo2_ok by assumption.
    split; [|split; [|split]].
    - exact (vort_of_h_is_assembly g c m (X_of g (diagnostic_state g (cK c) s))
               (rt_full g cloud c m (diagnostic_state g (cK c) s))
               (gq_of (m_gqx (moist_diag g (cK c) s))) (gq_of (m_gqy (moist_diag g (cK c) s))) k a l Ha Hl).
    - exact (div_of_h_is_assembly g c m grav orog (X_of g (diagnostic_state g (cK c) s))
               (rt_full g cloud c m (diagnostic_state g (cK c) s)) (trn (diagnostic_state g (cK c) s) 0)
               (gq_of (m_gqx (moist_diag g (cK c) s))) (gq_of (m_gqy (moist_diag g (cK c) s)))
               (fun p : Wi => m_lap (moist_diag g (cK c) s) (fst p) (snd p)) k a l Ha Hl).
    - exact (temp_of_moist_is_assembly g c m (X_of g (diagnostic_state g (cK c) s)) (trn (diagnostic_state g (cK c) s) 0) k a l Ha Hl).
    - apply lnps_explicit_is_assembly; assumption.
  Qed.
End ConcreteMoistWhole.
