(** Theorems for property C11: structural invariants along trajectories, for
    every field, every vector space, every step term (hence every integrator of
    time_integration.py with arbitrary coefficient lists), every filter stack
    and every step count (induction). *)
From Dino Require Import Base.Ops Base.Sums Base.Ord Base.Inst Model.Filters Thm.Filters Model.Sigma
     Gen.DerivExprs Gen.Tableaux Model.Deriv Thm.Deriv Model.Invariants.
From Dino Require Model.Integrators.
From Coq Require Import Qcanon.
Local Open Scope F_scope.

(** * generic facts about filters and iteration (any state type) *)
Section Generic.
  Context {T : Type} (S : T -> Prop).

  Lemma with_filters_preserves (step : T -> T) (filters : list (T -> T -> T)) :
    (forall u, S u -> S (step u)) ->
    (forall f, In f filters -> forall u un, S u -> S un -> S (f u un)) ->
    forall u, S u -> S (with_filters step filters u).
  Proof.
    intros Hs Hf u Hu. unfold with_filters.
    assert (H0 : S (step u)) by auto.
    revert H0. generalize (step u) as un.
    induction filters as [|f fs IH]; intros un Hun; cbn; [exact Hun|].
    apply IH.
    - intros g Hg. apply Hf. now right.
    - apply Hf; auto. now left.
  Qed.

  Lemma iter_preserves (step : T -> T) :
    (forall u, S u -> S (step u)) -> forall k u, S u -> S (iter k step u).
  Proof. intros Hs k. induction k as [|k IH]; intros u Hu; cbn; auto. Qed.

  Lemma iter_succ_r (step : T -> T) k u : iter (Datatypes.S k) step u = step (iter k step u).
  Proof. revert u. induction k as [|k IH]; intros u; [reflexivity|]. cbn in *. now rewrite IH. Qed.
End Generic.

Section EvalExt.
  Context {F V : Type} {vo : VSp F V} (Fx G : V -> V) (Ginv : F -> V -> V).
  Lemma eval_ext (t : stepterm F) (env env' : nat -> V) :
    (forall i, env i = env' i) -> eval Fx G Ginv t env = eval Fx G Ginv t env'.
  Proof. intros He. induction t; cbn; [apply He|congruence..]. Qed.
End EvalExt.

Section Abstract.
  Context {F : Type} {o : Ops F} {Fc : FieldC o}.
  Add Field FFi : (field_c : FieldTh o).
  Context {V : Type} {vo : VSp F V}.
  Context (Fx G : V -> V) (Ginv : F -> V -> V).

  (** ** a linear subspace S that the three operators map into itself *)
  Variable S : V -> Prop.
  Hypothesis S_zero : S vz.
  Hypothesis S_add : forall x y, S x -> S y -> S (va x y).
  Hypothesis S_scale : forall c x, S x -> S (vs c x).
  Hypothesis F_into : forall x, S x -> S (Fx x).
  Hypothesis G_pres : forall x, S x -> S (G x).
  Hypothesis Ginv_pres : forall eta x, S x -> S (Ginv eta x).

  Theorem term_preserves_subspace (t : stepterm F) (env : nat -> V) :
    (forall i, S (env i)) -> S (eval Fx G Ginv t env).
  Proof. intros He. induction t; cbn; auto. Qed.

  Corollary step_preserves_subspace (t : stepterm F) u : S u -> S (step_of Fx G Ginv t u).
  Proof. intros Hu. apply term_preserves_subspace. intros i. exact Hu. Qed.

  Definition S2 (pc : V * V) : Prop := S (fst pc) /\ S (snd pc).
  Corollary lf_step_preserves_subspace (t : stepterm F) pc : S2 pc -> S2 (lf_step_of Fx G Ginv t pc).
  Proof.
    intros [Hp Hc]. split; [exact Hc|]. cbn. apply term_preserves_subspace.
    intros [|i]; assumption.
  Qed.

  (** whole trajectories: any term, any filter stack preserving S, any step count *)
  Theorem trajectory_in_subspace (t : stepterm F) (filters : list (V -> V -> V)) :
    (forall f, In f filters -> forall u un, S u -> S un -> S (f u un)) ->
    forall k u, S u -> S (iter k (with_filters (step_of Fx G Ginv t) filters) u).
  Proof.
    intros Hf. apply iter_preserves. apply with_filters_preserves; [|exact Hf].
    intros u Hu. now apply step_preserves_subspace.
  Qed.

  Theorem lf_trajectory_in_subspace (t : stepterm F) (filters : list (V * V -> V * V -> V * V)) :
    (forall f, In f filters -> forall u un, S2 u -> S2 un -> S2 (f u un)) ->
    forall k u, S2 u -> S2 (iter k (with_filters (lf_step_of Fx G Ginv t) filters) u).
  Proof.
    intros Hf. apply iter_preserves. apply with_filters_preserves; [|exact Hf].
    intros u Hu. now apply lf_step_preserves_subspace.
  Qed.

  (** ** one linear component P that sees F = phi, G = 0, G_inv = id (on S) *)
  Variable P : V -> F.
  Variable phi : F.
  Hypothesis P_zero : P vz = 0.
  Hypothesis P_add : forall x y, P (va x y) = P x + P y.
  Hypothesis P_scale : forall c x, P (vs c x) = c * P x.
  Hypothesis P_F : forall x, S x -> P (Fx x) = phi.
  Hypothesis P_G : forall x, S x -> P (G x) = 0.
  Hypothesis P_Ginv : forall eta x, S x -> P (Ginv eta x) = P x.

  Theorem term_affine_component (t : stepterm F) (env : nat -> V) :
    (forall i, S (env i)) ->
    P (eval Fx G Ginv t env) = aeval phi t (fun i => P (env i)).
  Proof.
    intros He. unfold aeval. induction t; cbn.
    - reflexivity.
    - exact P_zero.
    - rewrite P_add, IHt1, IHt2. reflexivity.
    - rewrite P_scale, IHt. reflexivity.
    - apply P_F. now apply term_preserves_subspace.
    - apply P_G. now apply term_preserves_subspace.
    - rewrite P_Ginv by (now apply term_preserves_subspace). exact IHt.
  Qed.

  (** a term is *consistent with weight c* if its scalar image is u + c * phi *)
  Definition consistent (t : stepterm F) (c : F) : Prop :=
    forall ph pe, aeval ph t pe = pe 0%nat + c * ph.

  Theorem step_component (t : stepterm F) (c : F) u :
    consistent t c -> S u -> P (step_of Fx G Ginv t u) = P u + c * phi.
  Proof.
    intros Hc Hu. unfold step_of. rewrite term_affine_component by (intros i; exact Hu).
    rewrite Hc. reflexivity.
  Qed.

  (** after k filtered steps: P u + k * (c * phi), for every k *)
  Theorem component_after_k_steps (t : stepterm F) (c : F) (filters : list (V -> V -> V)) :
    consistent t c ->
    (forall f, In f filters -> forall u un, S u -> S un -> S (f u un) /\ P (f u un) = P un) ->
    forall k u, S u ->
      P (iter k (with_filters (step_of Fx G Ginv t) filters) u) = P u + lit k * (c * phi).
  Proof.
    intros Hc Hf.
    assert (Hstep : forall u, S u ->
              S (with_filters (step_of Fx G Ginv t) filters u) /\
              P (with_filters (step_of Fx G Ginv t) filters u) = P u + c * phi).
    { intros u Hu. unfold with_filters.
      assert (H0 : S (step_of Fx G Ginv t u) /\ P (step_of Fx G Ginv t u) = P u + c * phi).
      { split; [now apply step_preserves_subspace|now apply step_component]. }
      revert H0. generalize (step_of Fx G Ginv t u) as un.
      induction filters as [|f fs IH]; intros un [Hun Hp]; cbn; [now split|].
      apply IH.
      - intros g Hg. apply Hf. now right.
      - destruct (Hf f (or_introl eq_refl) u un Hu Hun) as [A B]. split; [exact A|]. now rewrite B. }
    intros k. induction k as [|k IH]; intros u Hu.
    - cbn. ring.
    - rewrite iter_succ_r.
      assert (Hk : S (iter k (with_filters (step_of Fx G Ginv t) filters) u)).
      { apply iter_preserves; [|exact Hu]. intros v Hv. now apply Hstep. }
      destruct (Hstep _ Hk) as [_ E]. rewrite E, IH by exact Hu. cbn [lit]. ring.
  Qed.

  (** leapfrog: the future snapshot *)
  Theorem lf_step_component (t : stepterm F) pc :
    S2 pc ->
    P (snd (lf_step_of Fx G Ginv t pc)) = aeval phi t (env2 (P (fst pc)) (P (snd pc))).
  Proof.
    intros [Hp Hc]. cbn. rewrite term_affine_component by (intros [|i]; assumption).
    unfold aeval. apply (eval_ext (vo := FSp)). intros [|i]; reflexivity.
  Qed.
End Abstract.

(** a left/right inverse of (1 - eta G) passes every component that G annihilates *)
Section Resolvent.
  Context {F : Type} {o : Ops F} {Fc : FieldC o}.
  Add Field FFr : (field_c : FieldTh o).
  Context {V : Type} {vo : VSp F V}.
  Context (G : V -> V) (Ginv : F -> V -> V) (P : V -> F).
  Hypothesis P_add : forall x y, P (va x y) = P x + P y.
  Hypothesis P_scale : forall c x, P (vs c x) = c * P x.
  Hypothesis P_G : forall x, P (G x) = 0.

  Theorem inverse_passes_component eta y :
    va (Ginv eta y) (vs (- eta) (G (Ginv eta y))) = y -> P (Ginv eta y) = P y.
  Proof.
    intros H. rewrite <- H at 2. rewrite P_add, P_scale, P_G. ring.
  Qed.
End Resolvent.

(** * scalar images of the integrators (all coefficient lists) *)
Section Consistency.
  Context {F : Type} {o : Ops F} {Fc : FieldC o}.
  Add Field FFc : (field_c : FieldTh o).

  Lemma aeval_var ph i pe : aeval ph (TVar i) pe = pe i. Proof. reflexivity. Qed.
  Lemma aeval_zero ph (pe : nat -> F) : aeval ph TZero pe = 0. Proof. reflexivity. Qed.
  Lemma aeval_add ph a b (pe : nat -> F) : aeval ph (TAdd a b) pe = aeval ph a pe + aeval ph b pe.
  Proof. reflexivity. Qed.
  Lemma aeval_scale ph c a (pe : nat -> F) : aeval ph (TScale c a) pe = c * aeval ph a pe.
  Proof. reflexivity. Qed.
  Lemma aeval_F ph a (pe : nat -> F) : aeval ph (TF a) pe = ph. Proof. reflexivity. Qed.
  Lemma aeval_G ph a (pe : nat -> F) : aeval ph (TG a) pe = 0. Proof. reflexivity. Qed.
  Lemma aeval_Ginv ph eta a (pe : nat -> F) : aeval ph (TGinv eta a) pe = aeval ph a pe.
  Proof. reflexivity. Qed.

  Theorem euler_consistent (dt : F) : consistent (euler_term dt) dt.
  Proof.
    intros ph pe. unfold euler_term, U.
    rewrite aeval_Ginv, aeval_add, aeval_scale, aeval_F, aeval_var. reflexivity.
  Qed.

  Theorem cn_rk2_consistent (dt : F) : (1 + 1 : F) <> 0 -> consistent (cn_rk2_term dt) dt.
  Proof.
    intros H2 ph pe. unfold cn_rk2_term, U, aeval. cbn.
    unfold ihalf. field. exact H2.
  Qed.

  Lemma aeval_ls ph dt al be ga h u (pe : nat -> F) :
    aeval ph (ls_term dt al be ga h u) pe
    = aeval ph u pe + dt * ls_w ph al be ga (aeval ph h pe).
  Proof.
    revert al ga h u. induction be as [|b be IH]; intros al ga h u.
    - cbn [ls_term ls_w]. ring.
    - destruct ga as [|g ga]; [cbn [ls_term ls_w]; ring|].
      destruct al as [|a0 [|a1 al]]; [cbn [ls_term ls_w]; ring|cbn [ls_term ls_w]; ring|].
      cbn [ls_term ls_w]. rewrite IH.
      rewrite aeval_Ginv, !aeval_add, !aeval_scale, aeval_G, aeval_add, aeval_F, aeval_scale.
      ring.
  Qed.

  Lemma ls_w_homog ph al be ga h : ls_w ph al be ga (ph * h) = ph * ls_w 1 al be ga h.
  Proof.
    revert al ga h. induction be as [|b be IH]; intros al ga h.
    - cbn [ls_term ls_w]. ring.
    - destruct ga as [|g ga]; [cbn [ls_term ls_w]; ring|].
      destruct al as [|a0 [|a1 al]]; [cbn [ls_term ls_w]; ring|cbn [ls_term ls_w]; ring|].
      cbn [ls_w].
      replace (ph + b * (ph * h)) with (ph * (1 + b * h)) by ring.
      rewrite IH. ring.
  Qed.

  (** every low-storage scheme, whatever its coefficient lists: weight dt * sum(b_ex) *)
  Theorem ls_consistent (dt : F) (al be ga : list F) :
    consistent (ls_step_term dt al be ga) (dt * ls_consistency al be ga).
  Proof.
    intros ph pe. unfold ls_step_term, ls_consistency. rewrite aeval_ls.
    rewrite aeval_zero. unfold U. rewrite aeval_var.
    replace (0 : F) with (ph * 0) at 1 by ring. rewrite ls_w_homog. ring.
  Qed.

  (** imex_runge_kutta *)
  Definition all_val (v : F) ph (pe : nat -> F) (xs : list (option (stepterm F))) : Prop :=
    Forall (fun x => forall t, x = Some t -> aeval ph t pe = v) xs.

  Lemma tsum_skip_val v ph (pe : nat -> F) cs xs acc r :
    all_val v ph pe xs -> tsum_skip cs xs acc = Some r ->
    aeval ph r pe = aeval ph acc pe + skipsum cs (length xs) * v.
  Proof.
    revert xs acc r. induction cs as [|c cs IH]; intros xs acc r Hx H.
    - cbn in H. injection H as <-. destruct xs; cbn; ring.
    - destruct xs as [|x xs]; [cbn in H; injection H as <-; cbn; ring|].
      inversion Hx as [|? ? Hx1 Hx2]; subst. cbn [tsum_skip] in H. cbn [length skipsum].
      destruct (tnz c).
      + destruct x as [t|]; [|discriminate].
        rewrite (IH _ _ _ Hx2 H). rewrite aeval_add, aeval_scale, (Hx1 t eq_refl). ring.
      + rewrite (IH _ _ _ Hx2 H). ring.
  Qed.

  Lemma all_val_app v ph (pe : nat -> F) xs x :
    all_val v ph pe xs -> (forall t, x = Some t -> aeval ph t pe = v) -> all_val v ph pe (xs ++ [x]).
  Proof. intros H1 H2. apply Forall_app. split; [exact H1|]. constructor; [exact H2|constructor]. Qed.

  Lemma imex_stage_terms_val ph (pe : nat -> F) dt b_ex b_im i rex rim fs gs fs' gs' :
    all_val ph ph pe fs -> all_val 0 ph pe gs ->
    imex_stage_terms dt b_ex b_im i rex rim fs gs = Some (fs', gs') ->
    all_val ph ph pe fs' /\ all_val 0 ph pe gs' /\
    length fs' = (length fs + Nat.min (length rex) (length rim))%nat.
  Proof.
    revert i rim fs gs. induction rex as [|re rex IH]; intros i rim fs gs Hf Hg H.
    - cbn in H. injection H as <- <-. cbn. repeat split; auto.
    - destruct rim as [|ri rim]; [cbn in H; injection H as <- <-; cbn; repeat split; auto|].
      cbn [imex_stage_terms] in H.
      destruct (tsum_skip re fs TZero) as [ex|]; [|discriminate].
      destruct (tsum_skip ri gs TZero) as [im|]; [|discriminate].
      apply IH in H.
      + destruct H as (A & B & C). repeat split; auto.
        rewrite C, app_length. cbn [length Nat.min]. lia.
      + apply all_val_app; [exact Hf|]. intros t Ht.
        destruct (tneeded i rex b_ex); [|discriminate]. injection Ht as <-. reflexivity.
      + apply all_val_app; [exact Hg|]. intros t Ht.
        destruct (tneeded i rim b_im); [|discriminate]. injection Ht as <-. reflexivity.
  Qed.

  (** every tableau on which the code does not fail: weight dt * (sum of the truthy b_ex) *)
  Theorem imex_consistent (dt : F) a_ex a_im b_ex b_im t :
    imex_term dt a_ex a_im b_ex b_im = Some t ->
    consistent t (dt * imex_consistency a_ex a_im b_ex).
  Proof.
    intros H ph pe. unfold imex_term in H.
    destruct (imex_stage_terms dt b_ex b_im 1 a_ex a_im [Some (TF U)] [Some (TG U)])
      as [[fs gs]|] eqn:E; [|discriminate].
    apply (imex_stage_terms_val ph pe) in E.
    - destruct E as (Af & Ag & Len).
      destruct (tsum_skip b_ex fs TZero) as [ex|] eqn:Eex; [|discriminate].
      destruct (tsum_skip b_im gs TZero) as [im|] eqn:Eim; [|discriminate].
      injection H as <-.
      rewrite !aeval_add, !aeval_scale.
      rewrite (tsum_skip_val _ _ _ _ _ _ _ Af Eex), (tsum_skip_val _ _ _ _ _ _ _ Ag Eim).
      rewrite aeval_zero. unfold U. rewrite aeval_var. unfold imex_consistency.
      rewrite Len. cbn [length Nat.add]. ring.
    - constructor; [|constructor]. intros t0 Ht. injection Ht as <-. reflexivity.
    - constructor; [|constructor]. intros t0 Ht. injection Ht as <-. reflexivity.
  Qed.

  (** leapfrog: future = previous + 2 dt phi *)
  Theorem leapfrog_scalar (dt alpha ph : F) pe :
    aeval ph (leapfrog_term dt alpha) pe = pe 0%nat + itwo * dt * ph.
  Proof.
    unfold leapfrog_term.
    rewrite aeval_Ginv, aeval_add, aeval_scale, aeval_add, aeval_F, aeval_scale, aeval_G, !aeval_var.
    ring.
  Qed.

  (** Robert-Asselin: a linear combination with weights summing to one *)
  Theorem ra_scalar (r ph : F) p c f pe :
    aeval ph p pe + aeval ph f pe = itwo * aeval ph c pe ->
    aeval ph (ra_term r p c f) pe = aeval ph c pe.
  Proof.
    intros H. unfold ra_term. rewrite !aeval_add, !aeval_scale, aeval_add, H. unfold itwo. ring.
  Qed.
End Consistency.

(** * states that carry a time *)
Section Timed.
  Context {F : Type} {o : Ops F} {Fc : FieldC o}.
  Add Field FFt : (field_c : FieldTh o).
  Context {V : Type} {vo : VSp F V}.
  Context (Fx G : V -> V) (Ginv : F -> V -> V) (tdot : F).

  Let TF' := timed_F tdot Fx.
  Let TG' := timed_G G.
  Let TGi' := timed_Ginv Ginv.

  (** sim_time after k filtered steps = t0 + k * (c * tdot): every term of weight c,
      every stack of filters that act on the array leaves only, every k *)
  Theorem sim_time_advances (t : stepterm F) (c : F) (fs : list (V -> V)) k (u : V * F) :
    consistent t c ->
    snd (iter k (with_filters (step_of (vo := TimedSp vo) TF' TG' TGi' t)
                              (map (fun f => rk_filter (timed_filter f)) fs)) u)
    = snd u + lit k * (c * tdot).
  Proof.
    intros Hc.
    apply (component_after_k_steps (vo := TimedSp vo) TF' TG' TGi' (fun _ => True)
             I (fun _ _ _ _ => I) (fun _ _ _ => I) (fun _ _ => I) (fun _ _ => I) (fun _ _ _ => I)
             snd tdot); try reflexivity; auto.
    intros f Hf v vn _ _. split; [exact I|].
    apply in_map_iff in Hf. destruct Hf as (g & <- & _). reflexivity.
  Qed.

  (** the implicit solve and the implicit terms do not touch the time *)
  Lemma timed_Ginv_time eta (x : V * F) : snd (timed_Ginv Ginv eta x) = snd x.
  Proof. reflexivity. Qed.
  Lemma timed_filter_time (f : V -> V) (x : V * F) : snd (timed_filter f x) = snd x.
  Proof. reflexivity. Qed.

  (** the field part of a timed trajectory is the untimed trajectory *)
  Lemma timed_eval_fst (t : stepterm F) (env : nat -> V * F) :
    fst (eval (vo := TimedSp vo) TF' TG' TGi' t env) = eval Fx G Ginv t (fun i => fst (env i)).
  Proof. induction t; cbn; try reflexivity; congruence. Qed.
End Timed.

(** * the support pattern on stacks of modal arrays *)
Section Modal.
  Context {F : Type} {o : Ops F} {Fc : FieldC o}.
  Add Field FFm : (field_c : FieldTh o).
  Variables (fast : bool) (M L R C : nat).
  Hypothesis HLC : (L <= C)%nat.

  Definition Supp (x : stack) : Prop :=
    forall k i l, (i < R)%nat -> (l < C)%nat -> must_vanish fast M L i l = true -> x k i l = 0.

  Lemma Supp_zero : Supp (vz (VSp := StackSp)).
  Proof. intros k i l _ _ _. reflexivity. Qed.
  Lemma Supp_add x y : Supp x -> Supp y -> Supp (va (VSp := StackSp) x y).
  Proof. intros Hx Hy k i l Hi Hl Hm. cbn. rewrite Hx, Hy by assumption. ring. Qed.
  Lemma Supp_scale c x : Supp x -> Supp (vs (VSp := StackSp) c x).
  Proof. intros Hx k i l Hi Hl Hm. cbn. rewrite Hx by assumption. ring. Qed.

  (** clip_wavenumbers zeroes the top total wavenumber and the padded columns *)
  Lemma clip_top (x : arr2) i l : (L - 1 <= l)%nat -> clip L C 1 x i l = 0.
  Proof.
    intros Hl. unfold clip. destruct (Nat.ltb_spec l (C - (1 + (C - L)))); [lia|ring].
  Qed.
  Lemma clip_zero (x : arr2) i l : x i l = 0 -> clip L C 1 x i l = 0.
  Proof. intros H. unfold clip. rewrite H. ring. Qed.
  Lemma clip_low (x : arr2) i l : (l < L - 1)%nat -> clip L C 1 x i l = x i l.
  Proof.
    intros Hl. unfold clip. destruct (Nat.ltb_spec l (C - (1 + (C - L)))); [ring|lia].
  Qed.

  (** explicit terms: ANY input is mapped into the pattern, provided the value
      before the final clip vanishes outside the triangular mask
      ([H_pre_mask]: outputs of to_modal and of the derivative operators) *)
  Theorem explicit_into_Supp (pre : stack -> stack) :
    (forall x k i l, (i < R)%nat -> (l < C)%nat -> mask fast M L i l = false -> pre x k i l = 0) ->
    forall x, Supp (explicit_model L C pre x).
  Proof.
    intros Hpre x k i l Hi Hl Hm. unfold explicit_model, clip_stack.
    unfold must_vanish in Hm. apply Bool.orb_true_iff in Hm. destruct Hm as [Hm|Hm].
    - apply clip_zero. apply Hpre; auto. now apply Bool.negb_true_iff.
    - apply clip_top. now apply Nat.leb_le.
  Qed.

  (** the same when the pre-clip value is only known to respect the mask for
      inputs that are themselves in the pattern (shallow water: the pressure term
      is linear in the modal input) *)
  Theorem explicit_into_Supp_rel (pre : stack -> stack) :
    (forall x, Supp x -> forall k i l, (i < R)%nat -> (l < C)%nat -> mask fast M L i l = false -> pre x k i l = 0) ->
    forall x, Supp x -> Supp (explicit_model L C pre x).
  Proof.
    intros Hpre x Hx k i l Hi Hl Hm. unfold explicit_model, clip_stack.
    unfold must_vanish in Hm. apply Bool.orb_true_iff in Hm. destruct Hm as [Hm|Hm].
    - apply clip_zero. apply Hpre; auto. now apply Bool.negb_true_iff.
    - apply clip_top. now apply Nat.leb_le.
  Qed.

  (** the top wavenumber alone needs no hypothesis at all *)
  Theorem explicit_top_zero (pre : stack -> stack) x k i l :
    (L - 1 <= l)%nat -> explicit_model L C pre x k i l = 0.
  Proof. intros Hl. unfold explicit_model, clip_stack. now apply clip_top. Qed.

  (** operators acting per (i,l) keep zero columns zero: implicit terms,
      implicit inverse (any matrices), filters (any scaling) *)
  Theorem diagop_preserves_Supp N A x : Supp x -> Supp (diagop N A x).
  Proof.
    intros Hx k i l Hi Hl Hm. unfold diagop. apply sumn_zero. intros k' _.
    rewrite Hx by assumption. ring.
  Qed.
  Theorem lfilter_preserves_Supp s x : Supp x -> Supp (lfilter s x).
  Proof. intros Hx k i l Hi Hl Hm. unfold lfilter. rewrite Hx by assumption. ring. Qed.

  (** trajectories of any integrator term with any stack of such filters stay in the pattern *)
  Theorem modal_trajectory_in_Supp (pre : stack -> stack) N AG (AI : F -> nat -> nat -> nat -> nat -> F)
          (t : stepterm F) (scalings : list (nat -> nat -> F)) :
    (forall x, Supp x -> forall k i l, (i < R)%nat -> (l < C)%nat -> mask fast M L i l = false -> pre x k i l = 0) ->
    forall k u, Supp u ->
      Supp (iter k (with_filters
                      (step_of (vo := StackSp) (explicit_model L C pre) (diagop N AG) (fun eta => diagop N (AI eta)) t)
                      (map (fun s => rk_filter (lfilter s)) scalings)) u).
  Proof.
    intros Hpre. apply trajectory_in_subspace.
    - exact Supp_zero.
    - exact Supp_add.
    - exact Supp_scale.
    - intros x Hx. now apply explicit_into_Supp_rel.
    - intros x. apply diagop_preserves_Supp.
    - intros eta x. apply diagop_preserves_Supp.
    - intros f Hf u un _ Hun. apply in_map_iff in Hf. destruct Hf as (s & <- & _).
      unfold rk_filter. now apply lfilter_preserves_Supp.
  Qed.

  (** the decision procedure agrees with the predicate *)
  Lemma pattern_ok_spec (x : arr2) :
    pattern_ok fast M L R C x = true ->
    forall i l, (i < R)%nat -> (l < C)%nat -> must_vanish fast M L i l = true -> feqb (x i l) 0 = true.
  Proof.
    unfold pattern_ok. intros H i l Hi Hl Hm.
    rewrite forallb_forall in H. specialize (H i). rewrite in_seq in H.
    specialize (H ltac:(lia)). rewrite forallb_forall in H. specialize (H l). rewrite in_seq in H.
    specialize (H ltac:(lia)). rewrite Hm in H. exact H.
  Qed.
End Modal.

(** * the (0,0) coefficient: global means *)
Section Mean.
  Context {F : Type} {o : Ops F} {Fc : FieldC o}.
  Add Field FFg : (field_c : FieldTh o).
  Variables (fast : bool) (L R C : nat) (r : F) (a b : @arr2 F).
  Hypothesis Hr : r <> 0.
  Hypothesis HL : (2 <= L)%nat.
  Hypothesis HLC : (L <= C)%nat.
  Hypothesis HR : (0 < R)%nat.

  Lemma zero_div_r : 0 / r = 0. Proof. field. exact Hr. Qed.

  Lemma d_dlon_row0 (x : arr2) l : d_dlon fast R x 0%nat l = 0.
  Proof.
    unfold d_dlon. destruct fast.
    - rewrite dlon_fast_unfold by exact HR. cbn. ring.
    - rewrite dlon_ref_unfold by exact HR. cbn. ring.
  Qed.

  (** sec_lat_d_dlat_cos2 at l = 0: the only contribution comes from l = 1 with
      weight (l - 1) * a = 0 * a, whatever the table a *)
  Lemma D2_col0 (x : arr2) i : D2 L C a b x i 0%nat = 0.
  Proof.
    rewrite D2_entries by lia. unfold tri. cbn [Nat.eqb].
    destruct (Nat.ltb 1 C); [|ring].
    rewrite laxis_lt by lia. cbn [lit]. ring.
  Qed.

  Theorem div_cos_lat_00 c (v : vec2) : div_cos_lat fast L R C r a b c v 0%nat 0%nat = 0.
  Proof.
    unfold div_cos_lat, clip_if.
    assert (E : (d_dlon fast R (fst v) 0%nat 0%nat + D2 L C a b (snd v) 0%nat 0%nat) / r = 0).
    { rewrite d_dlon_row0, D2_col0. replace (0 + 0) with (0 : F) by ring. exact zero_div_r. }
    destruct c; [|exact E]. apply clip_zero. exact E.
  Qed.

  Theorem curl_cos_lat_00 c (v : vec2) : curl_cos_lat fast L R C r a b c v 0%nat 0%nat = 0.
  Proof.
    unfold curl_cos_lat, clip_if.
    assert (E : (d_dlon fast R (snd v) 0%nat 0%nat - D2 L C a b (fst v) 0%nat 0%nat) / r = 0).
    { rewrite d_dlon_row0, D2_col0. replace (0 - 0) with (0 : F) by ring. exact zero_div_r. }
    destruct c; [|exact E]. apply clip_zero. exact E.
  Qed.

  Lemma laplacian_00 (x : arr2) i : laplacian L r x i 0%nat = 0.
  Proof. apply laplacian_padded; [now left|exact Hr]. Qed.

  (** the (0,0) coefficients of the vorticity and divergence tendencies are zero
      for ANY arguments (Stokes / Gauss in spectral form) *)
  Theorem pe_vort_tend_00 uv : pe_vort_tend fast L R C r a b uv 0%nat 0%nat = 0.
  Proof. unfold pe_vort_tend. apply clip_zero. rewrite curl_cos_lat_00. ring. Qed.
  Theorem pe_div_tend_00 g uv ke oro : pe_div_tend fast L R C r a b g uv ke oro 0%nat 0%nat = 0.
  Proof. unfold pe_div_tend. apply clip_zero. rewrite div_cos_lat_00, !laplacian_00. ring. Qed.
  Theorem sw_vort_tend_00 bv : sw_vort_tend fast L R C r a b bv 0%nat 0%nat = 0.
  Proof. unfold sw_vort_tend. apply clip_zero. rewrite div_cos_lat_00. ring. Qed.
  Theorem sw_div_tend_00 bv pe : sw_div_tend fast L R C r a b bv pe 0%nat 0%nat = 0.
  Proof. unfold sw_div_tend. apply clip_zero. rewrite curl_cos_lat_00, laplacian_00. ring. Qed.
  Theorem sw_pot_tend_00 gv : sw_pot_tend fast L R C r a b gv 0%nat 0%nat = 0.
  Proof. unfold sw_pot_tend. apply clip_zero. rewrite div_cos_lat_00. ring. Qed.

  (** shallow-water implicit part at l = 0 (eigenvalue 0) *)
  Lemma lap_eig_0 : lap_eig L r 0 = 0.
  Proof. rewrite lap_eig_val, laxis_lt by lia. cbn [lit]. field. exact Hr. Qed.
  Theorem sw_implicit_00 eta phi d p :
    sw_impl_div (lap_eig L r 0) p = 0 /\
    sw_inv_div eta phi (lap_eig L r 0) d p = d /\
    sw_inv_pot eta phi (lap_eig L r 0) d p = p - eta * phi * d /\
    sw_impl_pot phi d = - phi * d.
  Proof.
    rewrite lap_eig_0. unfold sw_impl_div, sw_inv_div, sw_inv_pot, sw_schur, sw_impl_pot.
    assert (H1 : (1 : F) <> 0) by (destruct (field_c (o := o)); auto).
    assert (E : 1 - eta * eta * phi * 0 = (1 : F)) by ring. rewrite E.
    repeat split; try ring; field; exact H1.
  Qed.
End Mean.

(** * two coupled components: mean thickness of the shallow-water system *)
Section Thickness.
  Context {F : Type} {o : Ops F} {Fc : FieldC o}.
  Add Field FFh : (field_c : FieldTh o).
  Context {V : Type} {vo : VSp F V}.
  Context (Fx G : V -> V) (Ginv : F -> V -> V).
  (** D = (0,0) divergence, P = (0,0) potential of one layer, phiref its reference potential *)
  Variables (D P : V -> F) (phiref : F).
  Hypothesis D_zero : D vz = 0.
  Hypothesis D_add : forall x y, D (va x y) = D x + D y.
  Hypothesis D_scale : forall c x, D (vs c x) = c * D x.
  Hypothesis P_zero : P vz = 0.
  Hypothesis P_add : forall x y, P (va x y) = P x + P y.
  Hypothesis P_scale : forall c x, P (vs c x) = c * P x.
  Hypothesis D_F : forall x, D (Fx x) = 0.
  Hypothesis D_G : forall x, D (G x) = 0.
  Hypothesis D_Ginv : forall eta x, D (Ginv eta x) = D x.
  Hypothesis P_F : forall x, P (Fx x) = 0.
  Hypothesis P_G : forall x, P (G x) = - phiref * D x.
  Hypothesis P_Ginv : forall eta x, P (Ginv eta x) = P x - eta * phiref * D x.

  Theorem sw_mean_thickness_conserved (t : stepterm F) (c : F) (filters : list (V -> V -> V)) :
    consistent t c ->
    (forall f, In f filters -> forall u un, D (f u un) = D un /\ P (f u un) = P un) ->
    forall k u, D u = 0 ->
      P (iter k (with_filters (step_of Fx G Ginv t) filters) u) = P u /\
      D (iter k (with_filters (step_of Fx G Ginv t) filters) u) = 0.
  Proof.
    intros Hc Hf k u Hu.
    set (S0 := fun x : V => D x = 0).
    assert (Sz : S0 vz) by exact D_zero.
    assert (Sa : forall x y, S0 x -> S0 y -> S0 (va x y)).
    { unfold S0. intros x y Hx Hy. rewrite D_add, Hx, Hy. ring. }
    assert (Ss : forall c0 x, S0 x -> S0 (vs c0 x)).
    { unfold S0. intros c0 x Hx. rewrite D_scale, Hx. ring. }
    assert (SF : forall x, S0 x -> S0 (Fx x)) by (intros; apply D_F).
    assert (SG : forall x, S0 x -> S0 (G x)) by (intros; apply D_G).
    assert (SI : forall eta x, S0 x -> S0 (Ginv eta x)).
    { unfold S0. intros eta x Hx. now rewrite D_Ginv. }
    split.
    - rewrite (component_after_k_steps Fx G Ginv S0 Sz Sa Ss SF SG SI P 0 P_zero P_add P_scale) with (c := c); auto.
      + ring.
      + intros x Hx. unfold S0 in Hx. rewrite P_G, Hx. ring.
      + intros eta x Hx. unfold S0 in Hx. rewrite P_Ginv, Hx. ring.
      + intros f Hin v vn Hv Hvn. destruct (Hf f Hin v vn) as [A B]. split; [|exact B].
        unfold S0. now rewrite A.
    - apply (trajectory_in_subspace Fx G Ginv S0 Sz Sa Ss SF SG SI); [|exact Hu].
      intros f Hin v vn Hv Hvn. unfold S0. destruct (Hf f Hin v vn) as [A _]. now rewrite A.
  Qed.
End Thickness.

(** * uniform tracer *)
Section Tracer.
  Context {F : Type} {o : Ops F} {Fc : FieldC o}.
  Add Field FFu : (field_c : FieldTh o).

  (** vertical advection of a level-constant field is exactly zero: every K,
      every level set, every vertical velocity (default zero boundary values of
      the derivative) *)
  Theorem cva_constant K (b w : nat -> F) (c wt wb : F) n :
    centered_vertical_advection K b w (fun _ => c) wt wb 0 0 n = 0.
  Proof.
    unfold centered_vertical_advection.
    assert (Z : forall j, pad_tb K 0 0 (centered_difference b (fun _ => c)) j = 0).
    { intros j. unfold pad_tb, centered_difference.
      destruct (Nat.eqb j 0); [reflexivity|]. destruct (Nat.ltb j K); [ring|reflexivity]. }
    rewrite !Z. ring.
  Qed.

  (** horizontal part, one coefficient: tendency = to_modal(q*div + vertical) - H(u q, v q)
      with q = c constant, to_modal and H linear, under [H_uv_roundtrip]:
      H(u, v) = to_modal(div) (the velocity reconstructed from vorticity and
      divergence has the divergence it was built from) *)
  Theorem uniform_tracer_horizontal {N : Type} (scaleN : F -> N -> N) (addN : N -> N -> N) (zeroN : N)
          (to_modal : N -> F) (Hop : N -> N -> F) (c : F) (divn un vn vert : N) :
    (forall k x, to_modal (scaleN k x) = k * to_modal x) ->
    (forall x y, to_modal (addN x y) = to_modal x + to_modal y) ->
    (forall k x y, Hop (scaleN k x) (scaleN k y) = k * Hop x y) ->
    to_modal vert = 0 ->
    Hop un vn = to_modal divn ->
    to_modal (addN (scaleN c divn) vert) + - Hop (scaleN c un) (scaleN c vn) = 0.
  Proof. intros H1 H2 H3 Hv Hrt. rewrite H2, H1, H3, Hv, Hrt. ring. Qed.
End Tracer.

(** * filters and scalar leaves (shape rule of filtering._preserves_shape) *)
Section ScalarLeaf.
  Context {F : Type} {o : Ops F} {Fc : FieldC o}.

  Theorem filter_leaves_scalar (sc : Filters.arr) (t : F) :
    fst sc <> [] -> rescale sc (scalar_arr t) = scalar_arr t.
  Proof.
    intros Hs. apply rescale_false. cbn.
    destruct (preserves_shape [] (fst sc)) eqn:E; [|reflexivity].
    apply preserves_shape_spec in E. destruct E as (pre & suf & E1 & E2).
    symmetry in E1. apply app_eq_nil in E1. destruct E1 as [-> ->].
    inversion E2. congruence.
  Qed.
End ScalarLeaf.

(** * the concrete coefficient tables (regenerated from the source): consistency sums *)
Definition qcl (l : list Q) : list Qc := map Q2Qc l.
Definition qcll (l : list (list Q)) : list (list Qc) := map qcl l.

Lemma rk3_consistency : ls_consistency (qcl rk3_alphas) (qcl rk3_betas) (qcl rk3_gammas) = 1.
Proof. apply Qc_is_canon. vm_compute. reflexivity. Qed.

Lemma rk4_consistency :
  fle (fabs (ls_consistency (qcl rk4_alphas) (qcl rk4_betas) (qcl rk4_gammas) - 1))
      (Q2Qc (1 # 1000000000000)).
Proof. vm_compute. reflexivity. Qed.

Lemma sil3_consistency : imex_consistency (qcll sil3_a_ex) (qcll sil3_a_im) (qcl sil3_b_ex) = 1.
Proof. apply Qc_is_canon. vm_compute. reflexivity. Qed.

Lemma sil3_term_defined (dt : Qc) :
  exists t, imex_term dt (qcll sil3_a_ex) (qcll sil3_a_im) (qcl sil3_b_ex) (qcl sil3_b_im) = Some t.
Proof.
  unfold imex_term.
  destruct (imex_stage_terms dt (qcl sil3_b_ex) (qcl sil3_b_im) 1 (qcll sil3_a_ex) (qcll sil3_a_im)
              [Some (TF U)] [Some (TG U)]) as [[fs gs]|] eqn:E.
  2:{ vm_compute in E. discriminate E. }
  revert E. vm_compute. intros E. injection E as <- <-. eexists. reflexivity.
Qed.

(** * the terms are the step functions of Model/Integrators.v *)
Section Bridge.
  Context {F : Type} {o : Ops F} {V : Type} {vo : VSp F V}.
  Context (Fx G : V -> V) (Ginv : F -> V -> V).
  Definition toVOps : Integrators.VOps F V :=
    {| Integrators.vzero := vz; Integrators.vadd := va; Integrators.vscal := vs |}.
  Let Gi := fun x eta => Ginv eta x.

  Lemma bridge_euler dt u :
    step_of Fx G Ginv (euler_term dt) u = Integrators.euler_step (vo := toVOps) Fx Gi dt u.
  Proof. reflexivity. Qed.

  Lemma bridge_cn_rk2 dt u :
    step_of Fx G Ginv (cn_rk2_term dt) u = Integrators.cn_rk2_step (vo := toVOps) Fx G Gi dt u.
  Proof. reflexivity. Qed.

  Lemma bridge_ls_loop dt al be ga h u env :
    eval Fx G Ginv (ls_term dt al be ga h u) env
    = Integrators.ls_loop (vo := toVOps) Fx G Gi dt al be ga (eval Fx G Ginv h env) (eval Fx G Ginv u env).
  Proof.
    revert al ga h u. induction be as [|b be IH]; intros al ga h u; [destruct al; reflexivity|].
    destruct ga as [|g ga]; [destruct al; reflexivity|].
    destruct al as [|a0 [|a1 al]]; [reflexivity|reflexivity|].
    cbn [ls_term Integrators.ls_loop]. rewrite IH. reflexivity.
  Qed.

  Lemma bridge_ls dt al be ga u :
    step_of Fx G Ginv (ls_step_term dt al be ga) u = Integrators.ls_step (vo := toVOps) Fx G Gi dt al be ga u.
  Proof. unfold step_of, ls_step_term, Integrators.ls_step. rewrite bridge_ls_loop. reflexivity. Qed.

  Lemma bridge_leapfrog dt alpha pc :
    lf_step_of Fx G Ginv (leapfrog_term dt alpha) pc
    = Integrators.leapfrog_step (vo := toVOps) Fx G Gi dt alpha pc.
  Proof. destruct pc as [p c]. reflexivity. Qed.

  (** imex_runge_kutta: the code fails (None) exactly when no term exists, and
      otherwise computes the value of the term *)
  Definition evo (u : V) (x : option (stepterm F)) : option V :=
    option_map (fun t => eval Fx G Ginv t (env1 u)) x.

  Lemma bridge_wsum u cs xs acc :
    option_map (fun t => eval Fx G Ginv t (env1 u)) (tsum_skip cs xs acc)
    = Integrators.wsum_skip (vo := toVOps) cs (map (evo u) xs) (eval Fx G Ginv acc (env1 u)).
  Proof.
    revert xs acc. induction cs as [|c cs IH]; intros xs acc; [reflexivity|].
    destruct xs as [|x xs]; [reflexivity|].
    cbn [tsum_skip Integrators.wsum_skip map].
    change (Integrators.nz c) with (tnz c).
    destruct (tnz c); [|apply IH].
    destruct x as [t|]; [|reflexivity]. cbn [evo option_map]. rewrite IH. reflexivity.
  Qed.

  Lemma bridge_wsum0 u cs xs :
    option_map (fun t => eval Fx G Ginv t (env1 u)) (tsum_skip cs xs TZero)
    = Integrators.wsum_skip (vo := toVOps) cs (map (evo u) xs) (Integrators.vzero (VOps := toVOps)).
  Proof. exact (bridge_wsum u cs xs TZero). Qed.

  Lemma bridge_stages u dt b_ex b_im i rex rim fs gs :
    option_map (fun p => (map (evo u) (fst p), map (evo u) (snd p)))
               (imex_stage_terms dt b_ex b_im i rex rim fs gs)
    = Integrators.imex_stages (vo := toVOps) Fx G Gi dt u b_ex b_im i rex rim (map (evo u) fs) (map (evo u) gs).
  Proof.
    revert i rim fs gs. induction rex as [|re rex IH]; intros i rim fs gs; [reflexivity|].
    destruct rim as [|ri rim]; [reflexivity|].
    cbn [imex_stage_terms Integrators.imex_stages].
    rewrite <- !(bridge_wsum0 u).
    destruct (tsum_skip re fs TZero) as [ex|]; [|reflexivity].
    destruct (tsum_skip ri gs TZero) as [im|]; [|reflexivity].
    cbn [option_map]. rewrite IH. rewrite !map_app. cbn [map].
    change (Integrators.needed i rex b_ex) with (tneeded i rex b_ex).
    change (Integrators.needed i rim b_im) with (tneeded i rim b_im).
    destruct (tneeded i rex b_ex), (tneeded i rim b_im); reflexivity.
  Qed.

  Theorem bridge_imex dt a_ex a_im b_ex b_im u :
    option_map (fun t => step_of Fx G Ginv t u) (imex_term dt a_ex a_im b_ex b_im)
    = Integrators.imex_step (vo := toVOps) Fx G Gi dt a_ex a_im b_ex b_im u.
  Proof.
    unfold imex_term, Integrators.imex_step.
    pose proof (bridge_stages u dt b_ex b_im 1 a_ex a_im [Some (TF U)] [Some (TG U)]) as H.
    cbn [map evo option_map] in H. change (eval Fx G Ginv (TF U) (env1 u)) with (Fx u) in H.
    change (eval Fx G Ginv (TG U) (env1 u)) with (G u) in H. rewrite <- H.
    destruct (imex_stage_terms dt b_ex b_im 1 a_ex a_im [Some (TF U)] [Some (TG U)]) as [[fs gs]|]; [|reflexivity].
    cbn [option_map fst snd]. rewrite <- !(bridge_wsum0 u).
    destruct (tsum_skip b_ex fs TZero) as [ex|]; [|reflexivity].
    destruct (tsum_skip b_im gs TZero) as [im|]; reflexivity.
  Qed.
End Bridge.

(** * maybe_fix_sim_time_roundoff as the last filter: the clock stays on the dt lattice *)
Section FixTimeThm.
  Context {F : Type} {o : Ops F} {Oc : OrdFieldC o}.
  Add Field FFx : (field_c : FieldTh o).
  Hypothesis ZM : ZMorph o.

  (** rounding to the nearest integer (any tie rule) *)
  Definition nearest (rnd : F -> Z) : Prop :=
    forall x n, flt (fofZ n - ihalf) x -> flt x (fofZ n + ihalf) -> rnd x = n.

  Variables (rnd : F -> Z) (dt cs : F).
  Hypothesis Hrnd : nearest rnd.
  Hypothesis Hdt : dt <> 0.
  (** the scheme advances the clock by dt * cs with |cs - 1| < 1/2 (cs = 1 up to 1e-12) *)
  Hypothesis Hlo : flt (1 - ihalf) cs.
  Hypothesis Hhi : flt cs (1 + ihalf).

  Lemma fix_time_snaps (n : Z) : fix_time rnd dt (dt * fofZ n + dt * cs) = dt * fofZ (n + 1)%Z.
  Proof.
    unfold fix_time. f_equal. f_equal. apply Hrnd.
    - replace ((dt * fofZ n + dt * cs) / dt) with (cs + fofZ n) by (field; exact Hdt).
      rewrite (zm_add _ ZM), (zm1 _ ZM).
      replace (fofZ n + 1 - ihalf) with (1 - ihalf + fofZ n) by ring. now apply flt_add.
    - replace ((dt * fofZ n + dt * cs) / dt) with (cs + fofZ n) by (field; exact Hdt).
      rewrite (zm_add _ ZM), (zm1 _ ZM).
      replace (fofZ n + 1 + ihalf) with (1 + ihalf + fofZ n) by ring. now apply flt_add.
  Qed.

  (** whole trajectories: any term of weight dt*cs, any array filters, then the
      clean-up; from n0*dt (n0 an integer of either sign) the time after k steps is
      (n0 + k)*dt exactly, for every k *)
  Theorem fix_time_trajectory {V : Type} {vo : VSp F V} (Fx G : V -> V) (Ginv : F -> V -> V)
          (t : stepterm F) (fs : list (V -> V)) (n0 : Z) k (u : V * F) :
    consistent t (dt * cs) -> snd u = dt * fofZ n0 ->
    snd (iter k (with_filters (step_of (vo := TimedSp vo) (timed_F 1 Fx) (timed_G G) (timed_Ginv Ginv) t)
                              (map (fun f => rk_filter (timed_filter f)) fs
                                   ++ [rk_filter (fix_time_filter rnd dt)])) u)
    = dt * fofZ (n0 + Z.of_nat k)%Z.
  Proof.
    intros Hc. revert n0 u. induction k as [|k IH]; intros n0 u Hu.
    - cbn [iter]. rewrite Hu. f_equal. f_equal. lia.
    - cbn [iter]. rewrite (IH (n0 + 1)%Z).
      + f_equal. f_equal. lia.
      + unfold with_filters. rewrite fold_left_app. cbn [fold_left rk_filter fix_time_filter snd].
        pose proof (sim_time_advances Fx G Ginv 1 t (dt * cs) fs 1 u Hc) as H1.
        cbn [iter] in H1. unfold with_filters in H1. rewrite H1, Hu.
        replace (dt * fofZ n0 + lit 1 * (dt * cs * 1)) with (dt * fofZ n0 + dt * cs) by (cbn [lit]; ring).
        apply fix_time_snaps.
  Qed.
End FixTimeThm.

(** the exact model of jnp.round (round half to even) rounds to the nearest integer *)
From Coq Require Import Lqa.
Lemma zq_le a b : (inject_Z a < inject_Z b + 1)%Q -> (a <= b)%Z.
Proof.
  intros H. change 1%Q with (inject_Z 1) in H. rewrite <- inject_Z_plus, <- Zlt_Qlt in H. lia.
Qed.

Lemma rhe_nearest (x : Q) (n : Z) :
  (inject_Z n - (1 # 2) < x)%Q -> (x < inject_Z n + (1 # 2))%Q -> rhe x = n.
Proof.
  intros H1 H2. unfold rhe.
  pose proof (Qround.Qfloor_le x) as A. pose proof (Qround.Qlt_floor x) as B.
  set (f := Qround.Qfloor x) in *. rewrite inject_Z_plus in B. change (inject_Z 1) with 1%Q in B.
  destruct (Qcompare_spec (x - inject_Z f) (1 # 2)) as [E|E|E].
  - exfalso.
    assert (C1 : (inject_Z n < inject_Z f + 1)%Q) by lra.
    assert (C2 : (inject_Z f < inject_Z n)%Q) by lra.
    apply zq_le in C1. rewrite <- Zlt_Qlt in C2. lia.
  - assert (C1 : (inject_Z n < inject_Z f + 1)%Q) by lra.
    assert (C2 : (inject_Z f < inject_Z n + 1)%Q) by lra.
    apply zq_le in C1. apply zq_le in C2. lia.
  - assert (C1 : (inject_Z f < inject_Z n)%Q) by lra.
    assert (C2 : (inject_Z n < inject_Z (f + 1) + 1)%Q) by (rewrite inject_Z_plus; change (inject_Z 1) with 1%Q; lra).
    rewrite <- Zlt_Qlt in C1. apply zq_le in C2. lia.
Qed.

(** the Qc instance *)
Lemma QcZMorph : ZMorph QcOps.
Proof.
  split; intros; try reflexivity.
  - change (Q2Qc (inject_Z (a + b)) = Qcplus (Q2Qc (inject_Z a)) (Q2Qc (inject_Z b))).
    unfold Qcplus. apply Q2Qc_eq_iff. unfold Q2Qc, this. rewrite !Qred_correct, inject_Z_plus. reflexivity.
  - change (Q2Qc (inject_Z (a * b)) = Qcmult (Q2Qc (inject_Z a)) (Q2Qc (inject_Z b))).
    unfold Qcmult. apply Q2Qc_eq_iff. unfold Q2Qc, this. rewrite !Qred_correct, inject_Z_mult. reflexivity.
  - change (Q2Qc (inject_Z (- a)) = Qcopp (Q2Qc (inject_Z a))).
    unfold Qcopp. apply Q2Qc_eq_iff. unfold Q2Qc, this. rewrite !Qred_correct, inject_Z_opp. reflexivity.
Qed.

Lemma this_half : this (@ihalf Qc QcOps) == (1 # 2). Proof. vm_compute. reflexivity. Qed.

Lemma this_neg_half : this (Q2Qc (- this (@ihalf Qc QcOps))) == - (1 # 2).
Proof. vm_compute. reflexivity. Qed.

Lemma this_lo n : this (@fofZ Qc QcOps n - @ihalf Qc QcOps) == inject_Z n - (1 # 2).
Proof.
  change (this (Qcminus (Q2Qc (inject_Z n)) (@ihalf Qc QcOps)) == inject_Z n - (1 # 2)).
  unfold Qcminus, Qcplus, Qcopp. unfold Q2Qc at 1 2. unfold this at 1 2. rewrite !Qred_correct.
  rewrite this_neg_half. reflexivity.
Qed.

Lemma this_hi n : this (@fofZ Qc QcOps n + @ihalf Qc QcOps) == inject_Z n + (1 # 2).
Proof.
  change (this (Qcplus (Q2Qc (inject_Z n)) (@ihalf Qc QcOps)) == inject_Z n + (1 # 2)).
  unfold Qcplus. unfold Q2Qc at 1 2. unfold this at 1 2. rewrite !Qred_correct.
  rewrite this_half. reflexivity.
Qed.

Lemma rnd_qc_nearest : nearest (fun x : Qc => rhe (this x)).
Proof.
  intros x n H1 H2. unfold flt in H1, H2.
  change (Qle_bool (this x) (this (@fofZ Qc QcOps n - @ihalf Qc QcOps)) = false) in H1.
  change (Qle_bool (this (@fofZ Qc QcOps n + @ihalf Qc QcOps)) (this x) = false) in H2.
  apply rhe_nearest.
  - rewrite <- this_lo. apply Qnot_le_lt. intro L. apply Qle_bool_iff in L. congruence.
  - rewrite <- this_hi. apply Qnot_le_lt. intro L. apply Qle_bool_iff in L. congruence.
Qed.
