(** Discrete orthonormality of the real Fourier basis under the trapezoid rule
    (the Fourier half of C01's orthonormality, formerly only a table obligation).
    Stdlib Reals only (Rtrigo1): product-to-sum formulas + finite geometric sums
    of cos / sin over equispaced nodes, proved by telescoping. *)
From Coq Require Import Reals Lra Lia.
From Dino Require Import Base.Ops Base.Sums Base.Inst Model.SHT Model.FourierR Thm.SHT.
Local Open Scope R_scope.

Ltac rops := cbn [fadd fmul fsub fdiv fopp finv f0 f1 ROps] in *.

(** [sumn] at the carrier R *)
Notation Rsum := (@sumn R ROps).

Lemma Rsum_ext n (f g : nat -> R) : (forall i, (i < n)%nat -> f i = g i) -> Rsum n f = Rsum n g.
Proof. apply sumn_ext. Qed.
Lemma Rsum_scal n c (f : nat -> R) : Rsum n (fun i => c * f i) = c * Rsum n f.
Proof. exact (sumn_scal_l n c f). Qed.
Lemma Rsum_plus n (f g : nat -> R) : Rsum n (fun i => f i + g i) = Rsum n f + Rsum n g.
Proof. exact (sumn_add n f g). Qed.
Lemma Rsum_minus n (f g : nat -> R) : Rsum n (fun i => f i - g i) = Rsum n f - Rsum n g.
Proof. exact (sumn_sub n f g). Qed.
Lemma Rsum_opp n (f : nat -> R) : Rsum n (fun i => - f i) = - Rsum n f.
Proof. exact (sumn_opp n f). Qed.
Lemma Rsum_telescope n (g : nat -> R) : Rsum n (fun i => g (S i) - g i) = g n - g 0%nat.
Proof. exact (sumn_telescope n g). Qed.
Lemma Rsum_zero n (f : nat -> R) : (forall i, (i < n)%nat -> f i = 0) -> Rsum n f = 0.
Proof. exact (sumn_zero n f). Qed.
Lemma Rsum_const n c : Rsum n (fun _ => c) = INR n * c.
Proof.
  induction n as [|n IH]; [cbn; rops; ring|].
  change (Rsum (S n) (fun _ => c)) with (Rsum n (fun _ => c) + c). rewrite IH, S_INR. ring.
Qed.

(** *** small trig lemmas *)
Lemma sin_step x h : sin (x + h) - sin (x - h) = 2 * sin h * cos x.
Proof. rewrite sin_plus, sin_minus. ring. Qed.
Lemma cos_step x h : cos (x - h) - cos (x + h) = 2 * sin h * sin x.
Proof. rewrite cos_plus, cos_minus. ring. Qed.
Lemma cos_cos x y : cos x * cos y = / 2 * (cos (x - y) + cos (x + y)).
Proof. rewrite cos_plus, cos_minus. field. Qed.
Lemma sin_sin x y : sin x * sin y = / 2 * (cos (x - y) - cos (x + y)).
Proof. rewrite cos_plus, cos_minus. field. Qed.
Lemma cos_sin x y : cos x * sin y = / 2 * (sin (x + y) - sin (x - y)).
Proof. rewrite sin_plus, sin_minus. field. Qed.

(** sin(pi k / I) <> 0 for 0 < k < I *)
Lemma sin_half_step_neq0 k I : (0 < k)%nat -> (k < I)%nat -> sin (PI * INR k / INR I) <> 0.
Proof.
  intros Hk HkI. apply Rgt_not_eq. pose proof PI_RGT_0 as Hpi.
  assert (Hk' : 0 < INR k) by (apply lt_0_INR; lia).
  assert (HI : 0 < INR I) by (apply lt_0_INR; lia).
  assert (HkI' : INR k < INR I) by (apply lt_INR; lia).
  assert (Hq : 0 < / INR I) by now apply Rinv_0_lt_compat.
  assert (E : INR I * / INR I = 1) by (apply Rinv_r; lra).
  apply sin_gt_0; unfold Rdiv.
  - apply Rmult_lt_0_compat; [apply Rmult_lt_0_compat|]; assumption.
  - assert (H : 0 < PI * (INR I - INR k) * / INR I) by (apply Rmult_lt_0_compat; [apply Rmult_lt_0_compat|]; lra).
    replace (PI * (INR I - INR k) * / INR I) with (PI * (INR I * / INR I) - PI * INR k * / INR I) in H by ring.
    rewrite E in H. lra.
Qed.

(** *** telescoped arithmetic-progression sums *)
Lemma sum_cos_ap t0 h n :
  Rsum n (fun i => 2 * sin h * cos (t0 + 2 * h * INR i)) = sin (t0 + 2 * h * INR n - h) - sin (t0 - h).
Proof.
  transitivity (sin (t0 + 2 * h * INR n - h) - sin (t0 + 2 * h * INR 0 - h)).
  - rewrite <- (Rsum_telescope n (fun i => sin (t0 + 2 * h * INR i - h))).
    apply Rsum_ext; intros i _. rewrite S_INR, <- sin_step.
    replace (t0 + 2 * h * (INR i + 1) - h) with (t0 + 2 * h * INR i + h) by ring. reflexivity.
  - cbn [INR]. replace (t0 + 2 * h * 0 - h) with (t0 - h) by ring. reflexivity.
Qed.

Lemma sum_sin_ap t0 h n :
  Rsum n (fun i => 2 * sin h * sin (t0 + 2 * h * INR i)) = cos (t0 - h) - cos (t0 + 2 * h * INR n - h).
Proof.
  transitivity (- (cos (t0 + 2 * h * INR n - h) - cos (t0 + 2 * h * INR 0 - h))).
  - rewrite <- (Rsum_telescope n (fun i => cos (t0 + 2 * h * INR i - h))), <- Rsum_opp.
    apply Rsum_ext; intros i _. rewrite S_INR, <- cos_step.
    replace (t0 + 2 * h * (INR i + 1) - h) with (t0 + 2 * h * INR i + h) by ring.
    ring.
  - cbn [INR]. replace (t0 + 2 * h * 0 - h) with (t0 - h) by ring. ring.
Qed.

(** *** the finite geometric sums over the equispaced longitudes: for every offset and
    every wavenumber k that is not a multiple of I (here 0 < k < I) *)
Lemma node_ap off k I i : (0 < I)%nat ->
  INR k * lon_node off I i = INR k * off + 2 * (PI * INR k / INR I) * INR i.
Proof.
  intros HI. unfold lon_node. field. apply Rgt_not_eq, lt_0_INR. lia.
Qed.

Lemma full_turn off k I : (0 < I)%nat ->
  INR k * off + 2 * (PI * INR k / INR I) * INR I - PI * INR k / INR I
  = (INR k * off - PI * INR k / INR I) + 2 * INR k * PI.
Proof. intros HI. field. apply Rgt_not_eq, lt_0_INR. lia. Qed.

Theorem geom_cos off k I : (0 < k)%nat -> (k < I)%nat ->
  Rsum I (fun i => cos (INR k * lon_node off I i)) = 0.
Proof.
  intros Hk HkI. set (h := PI * INR k / INR I).
  apply Rmult_eq_reg_l with (2 * sin h).
  2:{ apply Rmult_integral_contrapositive_currified; [lra | now apply sin_half_step_neq0]. }
  rewrite Rmult_0_r, <- Rsum_scal.
  rewrite (Rsum_ext I _ (fun i => 2 * sin h * cos (INR k * off + 2 * h * INR i))).
  2:{ intros i _. rewrite node_ap by lia. reflexivity. }
  rewrite sum_cos_ap. unfold h. rewrite full_turn by lia. rewrite sin_period. ring.
Qed.

Theorem geom_sin off k I : (0 < k)%nat -> (k < I)%nat ->
  Rsum I (fun i => sin (INR k * lon_node off I i)) = 0.
Proof.
  intros Hk HkI. set (h := PI * INR k / INR I).
  apply Rmult_eq_reg_l with (2 * sin h).
  2:{ apply Rmult_integral_contrapositive_currified; [lra | now apply sin_half_step_neq0]. }
  rewrite Rmult_0_r, <- Rsum_scal.
  rewrite (Rsum_ext I _ (fun i => 2 * sin h * sin (INR k * off + 2 * h * INR i))).
  2:{ intros i _. rewrite node_ap by lia. reflexivity. }
  rewrite sum_sin_ap. unfold h. rewrite full_turn by lia. rewrite cos_period. ring.
Qed.

(** differences of wavenumbers: (k - k') as a real multiplier *)
Lemma geom_cos_diff off k k' I : (k < I)%nat -> (k' < I)%nat ->
  Rsum I (fun i => cos ((INR k - INR k') * lon_node off I i)) = if Nat.eqb k k' then INR I else 0.
Proof.
  intros Hk Hk'. destruct (Nat.eqb_spec k k') as [->|Hne].
  - rewrite (Rsum_ext I _ (fun _ => 1)); [rewrite Rsum_const; ring|].
    intros i _. replace ((INR k' - INR k') * lon_node off I i) with 0 by ring. apply cos_0.
  - destruct (Nat.lt_ge_cases k' k) as [H|H].
    + rewrite (Rsum_ext I _ (fun i => cos (INR (k - k') * lon_node off I i))); [apply geom_cos; lia|].
      intros i _. rewrite minus_INR by lia. reflexivity.
    + rewrite (Rsum_ext I _ (fun i => cos (INR (k' - k) * lon_node off I i))); [apply geom_cos; lia|].
      intros i _. rewrite minus_INR by lia. rewrite <- cos_neg. f_equal. ring.
Qed.

Lemma geom_sin_diff off k k' I : (k < I)%nat -> (k' < I)%nat ->
  Rsum I (fun i => sin ((INR k - INR k') * lon_node off I i)) = 0.
Proof.
  intros Hk Hk'. destruct (Nat.eq_dec k k') as [->|Hne].
  - apply Rsum_zero. intros i _. replace ((INR k' - INR k') * lon_node off I i) with 0 by ring. apply sin_0.
  - destruct (Nat.lt_ge_cases k' k) as [H|H].
    + rewrite (Rsum_ext I _ (fun i => sin (INR (k - k') * lon_node off I i))); [apply geom_sin; lia|].
      intros i _. rewrite minus_INR by lia. reflexivity.
    + rewrite (Rsum_ext I _ (fun i => - sin (INR (k' - k) * lon_node off I i))).
      * rewrite Rsum_opp, geom_sin by lia. ring.
      * intros i _. rewrite minus_INR by lia. rewrite <- sin_neg. f_equal. ring.
Qed.

(** *** sums of products of two basis oscillations; wavenumbers k, k' >= 1 with k + k' < I *)
Section Products.
  Variables (off : R) (I k k' : nat).
  Hypothesis Hk : (1 <= k)%nat.
  Hypothesis Hk' : (1 <= k')%nat.
  Hypothesis Hsum : (k + k' < I)%nat.
  Let x i := lon_node off I i.

  Lemma sum_cos_plus : Rsum I (fun i => cos (INR k * x i + INR k' * x i)) = 0.
  Proof.
    rewrite (Rsum_ext I _ (fun i => cos (INR (k + k') * lon_node off I i))); [apply geom_cos; lia|].
    intros i _. rewrite plus_INR. unfold x. f_equal. ring.
  Qed.
  Lemma sum_sin_plus : Rsum I (fun i => sin (INR k * x i + INR k' * x i)) = 0.
  Proof.
    rewrite (Rsum_ext I _ (fun i => sin (INR (k + k') * lon_node off I i))); [apply geom_sin; lia|].
    intros i _. rewrite plus_INR. unfold x. f_equal. ring.
  Qed.
  Lemma sum_cos_minus :
    Rsum I (fun i => cos (INR k * x i - INR k' * x i)) = if Nat.eqb k k' then INR I else 0.
  Proof.
    rewrite <- (geom_cos_diff off k k' I) by lia. apply Rsum_ext; intros i _. unfold x. f_equal. ring.
  Qed.
  Lemma sum_sin_minus : Rsum I (fun i => sin (INR k * x i - INR k' * x i)) = 0.
  Proof.
    rewrite <- (geom_sin_diff off k k' I) by lia. apply Rsum_ext; intros i _. unfold x. f_equal. ring.
  Qed.

  Lemma sum_cc : Rsum I (fun i => cos (INR k * x i) * cos (INR k' * x i))
                 = if Nat.eqb k k' then INR I / 2 else 0.
  Proof.
    rewrite (Rsum_ext I _ (fun i => / 2 * (cos (INR k * x i - INR k' * x i) + cos (INR k * x i + INR k' * x i))))
      by (intros; apply cos_cos).
    rewrite Rsum_scal, Rsum_plus, sum_cos_plus, sum_cos_minus. destruct (Nat.eqb k k'); field.
  Qed.
  Lemma sum_ss : Rsum I (fun i => sin (INR k * x i) * sin (INR k' * x i))
                 = if Nat.eqb k k' then INR I / 2 else 0.
  Proof.
    rewrite (Rsum_ext I _ (fun i => / 2 * (cos (INR k * x i - INR k' * x i) - cos (INR k * x i + INR k' * x i))))
      by (intros; apply sin_sin).
    rewrite Rsum_scal, Rsum_minus, sum_cos_plus, sum_cos_minus. destruct (Nat.eqb k k'); field.
  Qed.
  Lemma sum_cs : Rsum I (fun i => cos (INR k * x i) * sin (INR k' * x i)) = 0.
  Proof.
    rewrite (Rsum_ext I _ (fun i => / 2 * (sin (INR k * x i + INR k' * x i) - sin (INR k * x i - INR k' * x i))))
      by (intros; apply cos_sin).
    rewrite Rsum_scal, Rsum_minus, sum_sin_plus, sum_sin_minus. ring.
  Qed.
End Products.

Lemma sum_sc off I k k' : (1 <= k)%nat -> (1 <= k')%nat -> (k + k' < I)%nat ->
  Rsum I (fun i => sin (INR k * lon_node off I i) * cos (INR k' * lon_node off I i)) = 0.
Proof.
  intros. rewrite <- (sum_cs off I k' k) by lia. apply Rsum_ext; intros; ring.
Qed.

(** *** columns of the basis: wavenumber and kind *)
Lemma column_eq a b : (1 <= a)%nat -> (1 <= b)%nat ->
  (a = b <-> (Nat.odd a = Nat.odd b /\ mabs_real a = mabs_real b)).
Proof.
  intros Ha Hb. split; [intros ->; auto|]. intros [Ho Hm]. unfold mabs_real in Hm.
  destruct (Nat.odd a) eqn:Ea.
  - symmetry in Ho. apply Nat.odd_spec in Ea, Ho. destruct Ea as [p ->], Ho as [q ->].
    replace (2 * p + 1 + 1)%nat with (2 * (p + 1))%nat in Hm by lia.
    replace (2 * q + 1 + 1)%nat with (2 * (q + 1))%nat in Hm by lia.
    rewrite !div2_double in Hm. lia.
  - symmetry in Ho. rewrite <- Nat.negb_even in Ea, Ho. apply Bool.negb_false_iff in Ea, Ho.
    apply Nat.even_spec in Ea, Ho. destruct Ea as [p ->], Ho as [q ->].
    rewrite !div2_double1 in Hm. lia.
Qed.

Lemma mabs_real_even_col a : Nat.odd a = false -> (a / 2 = mabs_real a)%nat.
Proof.
  intros E. rewrite <- Nat.negb_even in E. apply Bool.negb_false_iff in E.
  apply Nat.even_spec in E. destruct E as [p ->]. unfold mabs_real.
  now rewrite div2_double, div2_double1.
Qed.

Lemma mabs_real_pos a : (1 <= a)%nat -> (1 <= mabs_real a)%nat.
Proof.
  intros H. unfold mabs_real. change 1%nat with (2 / 2)%nat at 1. apply Nat.div_le_mono; lia.
Qed.

(** *** H_fourier_orth for the closed form.
    Exact condition used by the algebra: for the two columns a, b the wavenumber
    sum |m(a)| + |m(b)| is < I (then all sums and non-zero differences k of the
    two wavenumbers satisfy 0 < |k| < I, i.e. are not multiples of I).
    Negative example (aliasing): I = 2, M = 2 (so I < 2M-1 = 3), a = b = 1:
    cos(x_i)^2 = 1 at x = 0, pi, hence (2 pi / 2) * (1 + 1) / pi = 2 <> 1; more
    generally cos(k x)^2 sums to I (not I/2) as soon as 2k = I. *)
Theorem fourier_orth_columns off I a b :
  (0 < I)%nat -> (mabs_real a + mabs_real b < I)%nat ->
  @fmul R ROps (fourier_weight I)
        (Rsum I (fun i => @fmul R ROps (real_basis_R off I i a) (real_basis_R off I i b)))
  = @delta R ROps a b.
Proof.
  intros HI Hsum. rops. unfold delta. rops.
  pose proof PI_RGT_0 as Hpi.
  assert (HIr : INR I <> 0) by (apply Rgt_not_eq, lt_0_INR; lia).
  assert (Hs : sqrt PI * sqrt PI = PI) by (apply sqrt_sqrt; lra).
  assert (Hs2 : sqrt (2 * PI) * sqrt (2 * PI) = 2 * PI) by (apply sqrt_sqrt; lra).
  assert (Hsn : sqrt PI <> 0) by (apply Rgt_not_eq, sqrt_lt_R0; lra).
  assert (Hs2n : sqrt (2 * PI) <> 0) by (apply Rgt_not_eq, sqrt_lt_R0; lra).
  assert (Q1 : / sqrt PI * / sqrt PI = / PI) by (rewrite <- Rinv_mult, Hs; reflexivity).
  assert (Q2 : / sqrt (2 * PI) * / sqrt (2 * PI) = / (2 * PI)) by (rewrite <- Rinv_mult, Hs2; reflexivity).
  unfold fourier_weight, real_basis_R, real_basis_g. rops.
  destruct a as [|a'], b as [|b'].
  - (* constant x constant *)
    cbn [Nat.eqb]. rewrite Rsum_const.
    replace (1 / sqrt (2 * PI) * (1 / sqrt (2 * PI))) with (/ sqrt (2 * PI) * / sqrt (2 * PI)) by (field; assumption).
    rewrite Q2. field. split; lra.
  - (* constant x oscillation *)
    cbn [Nat.eqb]. set (b := S b') in *.
    assert (Hb : (1 <= b)%nat) by (unfold b; lia).
    pose proof (mabs_real_pos b Hb) as Hmb. change (mabs_real 0) with 0%nat in Hsum.
    destruct (Nat.odd b) eqn:Eb.
    + rewrite (Rsum_ext I _ (fun i => (1 / sqrt (2 * PI) / sqrt PI) * cos (INR (mabs_real b) * lon_node off I i))).
      2:{ intros i _. unfold mabs_real. field. split; assumption. }
      rewrite Rsum_scal, geom_cos by lia. ring.
    + rewrite (Rsum_ext I _ (fun i => (1 / sqrt (2 * PI) / sqrt PI) * sin (INR (mabs_real b) * lon_node off I i))).
      2:{ intros i _. rewrite (mabs_real_even_col b Eb). field. split; assumption. }
      rewrite Rsum_scal, geom_sin by lia. ring.
  - (* oscillation x constant *)
    cbn [Nat.eqb]. set (a := S a') in *.
    assert (Ha : (1 <= a)%nat) by (unfold a; lia).
    pose proof (mabs_real_pos a Ha) as Hma. change (mabs_real 0) with 0%nat in Hsum.
    destruct (Nat.odd a) eqn:Ea.
    + rewrite (Rsum_ext I _ (fun i => (1 / sqrt (2 * PI) / sqrt PI) * cos (INR (mabs_real a) * lon_node off I i))).
      2:{ intros i _. unfold mabs_real. field. split; assumption. }
      rewrite Rsum_scal, geom_cos by lia. ring.
    + rewrite (Rsum_ext I _ (fun i => (1 / sqrt (2 * PI) / sqrt PI) * sin (INR (mabs_real a) * lon_node off I i))).
      2:{ intros i _. rewrite (mabs_real_even_col a Ea). field. split; assumption. }
      rewrite Rsum_scal, geom_sin by lia. ring.
  - (* oscillation x oscillation *)
    set (a := S a') in *. set (b := S b') in *.
    assert (Ha : (1 <= a)%nat) by (unfold a; lia).
    assert (Hb : (1 <= b)%nat) by (unfold b; lia).
    pose proof (mabs_real_pos a Ha) as Hma. pose proof (mabs_real_pos b Hb) as Hmb.
    pose proof (column_eq a b Ha Hb) as CE.
    set (ka := mabs_real a) in *. set (kb := mabs_real b) in *.
    destruct (Nat.odd a) eqn:Ea, (Nat.odd b) eqn:Eb.
    + rewrite (Rsum_ext I _ (fun i => / PI * (cos (INR ka * lon_node off I i) * cos (INR kb * lon_node off I i)))).
      2:{ intros i _. rewrite <- Q1. unfold ka, kb, mabs_real. field. assumption. }
      rewrite Rsum_scal, sum_cc by assumption.
      destruct (Nat.eqb_spec ka kb) as [E|E]; destruct (Nat.eqb_spec a b) as [E'|E'].
      * field. split; lra.
      * exfalso. apply E'. apply CE. auto.
      * exfalso. apply E. apply CE in E'. tauto.
      * ring.
    + rewrite (Rsum_ext I _ (fun i => / PI * (cos (INR ka * lon_node off I i) * sin (INR kb * lon_node off I i)))).
      2:{ intros i _. rewrite <- Q1. rewrite (mabs_real_even_col b Eb). unfold ka, kb, mabs_real. field. assumption. }
      rewrite Rsum_scal, sum_cs by assumption.
      destruct (Nat.eqb_spec a b) as [E'|E']; [|ring].
      exfalso. apply CE in E'. destruct E' as [E' _]. discriminate E'.
    + rewrite (Rsum_ext I _ (fun i => / PI * (sin (INR ka * lon_node off I i) * cos (INR kb * lon_node off I i)))).
      2:{ intros i _. rewrite <- Q1. rewrite (mabs_real_even_col a Ea). unfold ka, kb, mabs_real. field. assumption. }
      rewrite Rsum_scal, sum_sc by assumption.
      destruct (Nat.eqb_spec a b) as [E'|E']; [|ring].
      exfalso. apply CE in E'. destruct E' as [E' _]. discriminate E'.
    + rewrite (Rsum_ext I _ (fun i => / PI * (sin (INR ka * lon_node off I i) * sin (INR kb * lon_node off I i)))).
      2:{ intros i _. rewrite <- Q1. rewrite (mabs_real_even_col a Ea), (mabs_real_even_col b Eb). unfold ka, kb. field. assumption. }
      rewrite Rsum_scal, sum_ss by assumption.
      destruct (Nat.eqb_spec ka kb) as [E|E]; destruct (Nat.eqb_spec a b) as [E'|E'].
      * field. split; lra.
      * exfalso. apply E'. apply CE. auto.
      * exfalso. apply E. apply CE in E'. tauto.
      * ring.
Qed.

(** the hypothesis of [sht_roundtrip], for the whole reference layout: I >= 2M-1 *)
Theorem fourier_orth_R off M I : (1 <= M)%nat -> (2 * M - 1 <= I)%nat ->
  H_fourier_orth (modal_rows_real M) I (real_basis_R off I) (fourier_weight I).
Proof.
  intros HM HI a b Ha Hb. apply fourier_orth_columns; [lia|].
  unfold modal_rows_real in *.
  assert (A : (mabs_real a < M)%nat).
  { unfold mabs_real. apply Nat.div_lt_upper_bound; lia. }
  assert (B : (mabs_real b < M)%nat).
  { unfold mabs_real. apply Nat.div_lt_upper_bound; lia. }
  lia.
Qed.

(** H_f0 for the closed form *)
Lemma real_basis_R_col0 off I i : real_basis_R off I i 0%nat = / sqrt (2 * PI).
Proof. unfold real_basis_R, real_basis_g. rops. field. apply Rgt_not_eq, sqrt_lt_R0. pose proof PI_RGT_0; lra. Qed.

(** the fast layout's Fourier table is the reference one re-indexed (tr_f_in, tr_f_row1 of tables_related) *)
Lemma real_basis_zi_reindex {F} {o : Ops F} (sq2pi sqpi : F) c s i a :
  real_basis_zi_g sq2pi sqpi c s i (match a with O => O | S _ => S a end)
  = real_basis_g sq2pi sqpi c s i a.
Proof.
  destruct a as [|a]; [reflexivity|]. unfold real_basis_zi_g, real_basis_g.
  rewrite Nat.even_succ_succ, Nat.odd_succ.
  replace (S a + 1)%nat with (S (S a)) by lia.
  destruct (Nat.even a) eqn:E; [reflexivity|].
  f_equal. f_equal.
  rewrite <- Nat.negb_odd in E. apply Bool.negb_false_iff in E. apply Nat.odd_spec in E. destruct E as [q ->].
  replace (S (S (2 * q + 1))) with (2 * (q + 1) + 1)%nat by lia.
  replace (S (2 * q + 1)) with (2 * (q + 1))%nat by lia.
  now rewrite div2_double, div2_double1.
Qed.
