(** The vertical operators of the semi-implicit scheme in Model/Sigma.v and
    Model/Implicit.v are the numpy constructions of dinosaur/primitive_equations.py:
    every vector / matrix equals, on every in-range index, its transcription
    regenerated from the AST on every run (Gen/ImplicitSrc.v,
    tools/translate/gen_implicit.py). *)
From Dino Require Import Base.Ops Base.Sums Base.Ord Model.Sigma Model.Filters Model.Implicit Gen.ImplicitSrc.
From Coq Require Import Lia.
Local Open Scope F_scope.

Section ImplicitSrcThm.
  Context {F : Type} {o : Ops F} {Fc : FieldC o}.
  Add Field FFisrc : (field_c : FieldTh o).
  Variable c : @PEcfg F.
  Let K := cK c.

  Lemma two_fnat : (fnat 2 : F) = two.
  Proof. unfold two. cbn [fnat]. ring. Qed.

  (** get_sigma_ratios *)
  Lemma alpha_matches_source k : (k < K)%nat -> alpha K (cls c) k = alpha_src c k.
  Proof.
    intros Hk. unfold alpha, alpha_src. fold K. rewrite two_fnat.
    destruct (Nat.ltb_spec (S k) K) as [H1|H1]; destruct (Nat.eqb_spec k (K - 1)) as [H2|H2]; try lia.
    - reflexivity.
    - rewrite <- H2. reflexivity.
  Qed.

  (** get_geopotential_weights *)
  Lemma geo_weights_matches_source j k :
    (j < K)%nat -> (k < K)%nat -> geo_weights K (cR c) (cls c) j k = geo_weights_src c j k.
  Proof.
    intros Hj Hk. unfold geo_weights, geo_weights_src.
    destruct (Nat.eqb_spec j k) as [E|E].
    - now rewrite alpha_matches_source.
    - destruct (Nat.ltb_spec j k) as [L|L]; [|reflexivity].
      rewrite !alpha_matches_source by lia. reflexivity.
  Qed.

  (** index facts used under np.roll *)
  Lemma roll_index r : (0 < r)%nat -> (r < K)%nat -> ((r + K - 1) mod K = r - 1)%nat.
  Proof.
    intros H0 H1. replace (r + K - 1)%nat with ((r - 1) + 1 * K)%nat by lia.
    rewrite Nat.mod_add by lia. apply Nat.mod_small. lia.
  Qed.

  (** get_temperature_implicit_weights *)
  Lemma temp_weights_matches_source r s :
    (r < K)%nat -> (s < K)%nat -> temp_weights c r s = temp_weights_src c r s.
  Proof.
    intros Hr Hs. unfold temp_weights, temp_weights_src, roll1_zero. fold K. cbv zeta beta.
    rewrite (alpha_matches_source r Hr).
    destruct (Nat.eqb_spec r 0) as [E0|E0].
    - (* first row: both rolled arrays are zeroed *)
      subst r.
      replace (Nat.ltb 0 (K - 1)) with (Nat.ltb 1 K)
        by (destruct (Nat.ltb_spec 1 K); destruct (Nat.ltb_spec 0 (K - 1)); try reflexivity; lia).
      destruct (Nat.ltb 1 K); ring.
    - assert (Hm : ((r + K - 1) mod K = r - 1)%nat) by (apply roll_index; lia).
      rewrite !Hm.
      rewrite (alpha_matches_source (r - 1)) by lia.
      replace (Nat.ltb (S (r - 1)) K) with (Nat.ltb (r - 1) (K - 1))
        by (destruct (Nat.ltb_spec (S (r - 1)) K); destruct (Nat.ltb_spec (r - 1) (K - 1)); try reflexivity; lia).
      replace (Nat.ltb (S r) K) with (Nat.ltb r (K - 1))
        by (destruct (Nat.ltb_spec (S r) K); destruct (Nat.ltb_spec r (K - 1)); try reflexivity; lia).
      destruct (Nat.ltb r (K - 1)); destruct (Nat.ltb (r - 1) (K - 1)); ring.
  Qed.

  (** get_temperature_implicit, method 'sparse': the three weight vectors *)
  Lemma sparse_weights_match_source r :
    (r < K)%nat ->
    neg_temp_weights c r r = diag_weights_src c r /\
    up_weights c r = up_weights_src c r /\
    down_weights c r = down_weights_src c r.
  Proof.
    intros Hr. unfold neg_temp_weights, up_weights, down_weights, diag_weights_src, up_weights_src, down_weights_src.
    unfold neg_temp_weights. fold K. cbv beta. repeat split.
    - now rewrite temp_weights_matches_source.
    - destruct (Nat.eqb_spec r 0) as [E|E]; [reflexivity|].
      replace (S (r - 1)) with r by lia.
      rewrite temp_weights_matches_source by lia. reflexivity.
    - replace (Nat.ltb (S r) K) with (Nat.ltb r (K - 1))
        by (destruct (Nat.ltb_spec (S r) K); destruct (Nat.ltb_spec r (K - 1)); try reflexivity; lia).
      destruct (Nat.ltb_spec r (K - 1)) as [L|L]; [|reflexivity].
      rewrite temp_weights_matches_source by lia. reflexivity.
  Qed.

  (** get_geopotential_diff, method 'sparse': alpha and alpha2 *)
  Lemma geo_sparse_weights_match_source k :
    (k < K)%nat ->
    cR c * alpha K (cls c) k = geo_alpha_src c k /\
    (if Nat.eqb k 0 then 0 else cR c * alpha K (cls c) k + cR c * alpha K (cls c) (k - 1)%nat) = geo_alpha2_src c k.
  Proof.
    intros Hk. unfold geo_alpha_src, geo_alpha2_src. cbv beta. split.
    - now rewrite alpha_matches_source.
    - destruct (Nat.eqb_spec k 0) as [E|E]; [reflexivity|].
      replace (S (k - 1)) with k by lia.
      rewrite !alpha_matches_source by lia. reflexivity.
  Qed.
End ImplicitSrcThm.

Lemma gen_implicit_complete : gen_implicit_ok = true.
Proof. reflexivity. Qed.
