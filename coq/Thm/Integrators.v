(** Proofs for property C06 (IMEX integrators).  Everything that mentions a
    coefficient is stated over the *generated* Gen/Tableaux.v. *)
From Dino Require Import Base.Ops Base.Sums Gen.Tableaux Model.Integrators.
From Coq Require Import Lia Qabs.
Local Open Scope F_scope.

(** * 0. The translation is complete (fail-closed switch of the translator) *)
Lemma gen_complete_ok : gen_complete = true.
Proof. reflexivity. Qed.

(** * 1. Order conditions, decided on the generated rationals (carrier Q) *)
Definition TQ := @T Q.
Definition euler_tab : TQ := @euler_tableau Q QOps.
Definition rk2_tab : TQ := @cn_rk2_tableau Q QOps.
Definition rk3_tab : TQ := lowstorage_to_butcher rk3_alphas rk3_betas rk3_gammas.
Definition rk4_tab : TQ := lowstorage_to_butcher rk4_alphas rk4_betas rk4_gammas.
Definition sil3_tab : TQ := (sil3_a_ex, sil3_a_im, sil3_b_ex, sil3_b_im).

Definition zeroq (x : Q) : bool := Qeq_bool x 0.
Definition eps13 : Q := 1 # 10000000000000.

(** meaning of the boolean deciders *)
Lemma all_zero_spec (l : list Q) : all_zero l = true <-> Forall (fun x => x == 0)%Q l.
Proof.
  unfold all_zero. rewrite forallb_forall, Forall_forall.
  split; intros H x Hx; specialize (H x Hx); cbn in *; now apply Qeq_bool_iff.
Qed.
Lemma fabsb_Q (x : Q) : (@fabsb Q QOps x == Qabs x)%Q.
Proof.
  unfold fabsb; cbn. destruct (Qle_bool 0 x) eqn:E.
  - apply Qle_bool_iff in E. now rewrite Qabs_pos.
  - assert (x <= 0)%Q.
    { destruct (Qlt_le_dec 0 x) as [H|H]; auto. apply Qlt_le_weak, Qle_bool_iff in H. congruence. }
    now rewrite Qabs_neg.
Qed.
Lemma all_within_spec (eps : Q) (l : list Q) :
  all_within eps l = true <-> Forall (fun x => Qabs x <= eps)%Q l.
Proof.
  unfold all_within. rewrite forallb_forall, Forall_forall.
  split; intros H x Hx; specialize (H x Hx); cbn in *.
  - apply Qle_bool_iff in H. now rewrite <- fabsb_Q.
  - apply Qle_bool_iff. now rewrite fabsb_Q.
Qed.

(** Named checkers: functions of the tableau, so that a derived Butcher form is
    evaluated once per check (call by value).  [eps = 0] means exact. *)
Definition additive_order1_ok (eps : Q) (t : TQ) := all_within eps (order1 t).
Definition additive_order2_ok (eps : Q) (t : TQ) := all_within eps (order1 t ++ order2 t ++ c_consistency t).
Definition additive_order3_ok (eps : Q) (t : TQ) := all_within eps (order3 t).
Definition explicit_order3_ok (eps : Q) (t : TQ) := all_within eps [ex_order3_bushy t; ex_order3_tall t].
Definition explicit_order3_tall_ok (eps : Q) (t : TQ) := all_within eps [ex_order3_tall t].
Definition explicit_order3_bushy_ok (eps : Q) (t : TQ) := all_within eps [ex_order3_bushy t].
Definition explicit_order4_ok (eps : Q) (t : TQ) := all_within eps (ex_order4 t).
Definition explicit_order4_tall_ok (eps : Q) (t : TQ) := all_within eps [ex_order4_tall t].
Definition explicit_order5_bushy_ok (eps : Q) (t : TQ) := all_within eps [ex_order5_bushy t].
Definition coupling_bIcEcE_ok (eps : Q) (t : TQ) := all_within eps [oc_bcc t false true true].

(** Euler pair: order 1 (both parts, 2 conditions), not order 2. *)
Lemma order_euler :
  additive_order1_ok 0 euler_tab = true /\ additive_order2_ok 0 euler_tab = false.
Proof. split; vm_compute; reflexivity. Qed.

(** Crank-Nicolson + Heun: all 2 + 4 additive conditions of order <= 2; equal
    stage times; order 3 fails (already for the explicit part alone). *)
Lemma order_cn_rk2 :
  additive_order2_ok 0 rk2_tab = true /\
  additive_order3_ok 0 rk2_tab = false /\ explicit_order3_tall_ok 0 rk2_tab = false.
Proof. repeat split; vm_compute; reflexivity. Qed.

(** Williamson RK3 + CN (generated alphas/betas/gammas -> Butcher form): order 2
    as an additive scheme (exact), order 3 for the explicit part (exact), the
    order-3 coupling conditions fail and the explicit order-4 conditions fail. *)
Lemma order_cn_rk3 :
  additive_order2_ok 0 rk3_tab = true /\ explicit_order3_ok 0 rk3_tab = true /\
  additive_order3_ok 0 rk3_tab = false /\ explicit_order4_ok 0 rk3_tab = false.
Proof. repeat split; vm_compute; reflexivity. Qed.

(** Carpenter-Kennedy RK4 + CN, 13-digit decimals: every condition of additive
    order 2 and of explicit order 3 and 4 (and the stage-time consistency) holds
    to 1e-13 (one unit of the last tabulated digit); the order-3 coupling
    condition b_im.(c_ex c_ex) = 1/3 is violated by more than 1e-3 and explicit
    order 5 by more than 1e-5. *)
Lemma order_cn_rk4 :
  additive_order2_ok eps13 rk4_tab = true /\
  explicit_order3_ok eps13 rk4_tab = true /\ explicit_order4_ok eps13 rk4_tab = true /\
  coupling_bIcEcE_ok (1 # 1000) rk4_tab = false /\
  explicit_order5_bushy_ok (1 # 100000) rk4_tab = false.
Proof. repeat split; vm_compute; reflexivity. Qed.

(** SIL3: additive order 2 (exact); explicit part: the order-3 tall tree holds
    (order 3 for linear F) while the bushy tree fails (order 2 for nonlinear F);
    the order-4 tall tree fails (linear order is exactly 3); coupling order 3 fails. *)
Lemma order_sil3 :
  additive_order2_ok 0 sil3_tab = true /\
  explicit_order3_tall_ok 0 sil3_tab = true /\ explicit_order3_bushy_ok 0 sil3_tab = false /\
  explicit_order4_tall_ok 0 sil3_tab = false /\ additive_order3_ok 0 sil3_tab = false.
Proof. repeat split; vm_compute; reflexivity. Qed.

(** The generated RK4 coefficients are the Carpenter-Kennedy (1994) RK4(3)5[2N]
    coefficients (published as rationals A_k, B_k, c_k) to 6e-13. *)
Definition ck_A : list Q :=
  [0; -567301805773 # 1357537059087; -2404267990393 # 2016746695238;
   -3550918686646 # 2091501179385; -1275806237668 # 842570457699]%Q.
Definition ck_B : list Q :=
  [1432997174477 # 9575080441755; 5161836677717 # 13612068292357; 1720146321549 # 2090206949498;
   3134564353537 # 4481467310338; 2277821191437 # 14882151754819]%Q.
Definition ck_c : list Q :=
  [0; 1432997174477 # 9575080441755; 2526269341429 # 6820363962896;
   2006345519317 # 3224310063776; 2802321613138 # 2924317926251; 1]%Q.
Definition close_lists (eps : Q) (l1 l2 : list Q) : bool :=
  Nat.eqb (length l1) (length l2) &&
  forallb (fun p => Qle_bool (Qabs (fst p - snd p)) eps) (combine l1 l2).
Lemma rk4_near_carpenter_kennedy :
  let eps := (6 # 10000000000000)%Q in
  close_lists eps rk4_betas ck_A = true /\ close_lists eps rk4_gammas ck_B = true /\
  close_lists eps rk4_alphas ck_c = true.
Proof. repeat split; vm_compute; reflexivity. Qed.

(** * 2. Linear test equation: Taylor coefficients of the one-step multiplier.
    The step functions of the model are run in Q[[x,y]]/(x^N, y^N) (F = x.,
    G = y., G_inv(., eta) = (1 - eta y)^-1 .) on the series 1 with dt = 1; the
    coefficient of x^i y^j must be 1/(i! j!) for i + j <= order. *)
Section SeriesRun.
  Let N := 6%nat.
  Let vo := @SerOps Q QOps N.
  Let Fx := @smulx Q QOps N.
  Let G := @smuly Q QOps.
  Let Gi := @sinv Q QOps N.
  Definition ser_euler := euler_step (vo := vo) Fx Gi 1%Q (sone N).
  Definition ser_rk2 := cn_rk2_step (vo := vo) Fx G Gi 1%Q (sone N).
  Definition ser_rk3 := ls_step (vo := vo) Fx G Gi 1%Q rk3_alphas rk3_betas rk3_gammas (sone N).
  Definition ser_rk4 := ls_step (vo := vo) Fx G Gi 1%Q rk4_alphas rk4_betas rk4_gammas (sone N).
  Definition ser_sil3 := imex_step (vo := vo) Fx G Gi 1%Q sil3_a_ex sil3_a_im sil3_b_ex sil3_b_im (sone N).
  (** exp(c (x + y)) truncated: coefficient c^(i+j)/(i! j!) *)
  Fixpoint factq (n : nat) : Q := match n with O => 1 | S k => Qred (inject_Z (Z.of_nat n) * factq k) end.
  Definition exp_coef (c : Q) (i j : nat) : Q := Qred (Qpower c (Z.of_nat (i + j)) / (factq i * factq j)).
  Definition ser_exp (c : Q) : @ser Q :=
    map (fun i => map (fun j => exp_coef c i j) (seq 0 N)) (seq 0 N).
  Definition ser_leapfrog (alpha : Q) :=
    snd (leapfrog_step (vo := vo) Fx G Gi 1%Q alpha (ser_exp (-1), sone N)).
End SeriesRun.

(** all coefficients of total degree <= p agree within eps *)
Definition taylor_upto (eps : Q) (p : nat) (a b : @ser Q) : bool :=
  forallb (fun i => forallb (fun j => Nat.ltb p (i + j) ||
     Qle_bool (Qabs (@scoef Q QOps a i j - @scoef Q QOps b i j)) eps) (seq 0 (S p))) (seq 0 (S p)).
(** pure powers of x (G-free part) up to degree p *)
Definition taylor_x_upto (eps : Q) (p : nat) (a b : @ser Q) : bool :=
  forallb (fun i => Qle_bool (Qabs (@scoef Q QOps a i 0 - @scoef Q QOps b i 0)) eps) (seq 0 (S p)).
Definition some_ser (x : option (@ser Q)) : @ser Q := match x with Some s => s | None => [] end.
Definition is_some_ser (x : option (@ser Q)) : bool := match x with Some _ => true | None => false end.


Lemma linear_taylor_series :
  let E := ser_exp 1 in
  (* Euler pair: order 1, not 2 *)
  (taylor_upto 0 1 ser_euler E = true /\ taylor_upto 0 2 ser_euler E = false) /\
  (* CN + Heun: order 2, not 3 (not even for the explicit part) *)
  (taylor_upto 0 2 ser_rk2 E = true /\ taylor_x_upto 0 3 ser_rk2 E = false) /\
  (* RK3 + CN: order 2 in (x,y), 3 in x alone, not 3 in (x,y), not 4 in x *)
  (taylor_upto 0 2 ser_rk3 E = true /\ taylor_x_upto 0 3 ser_rk3 E = true /\
   taylor_upto 0 3 ser_rk3 E = false /\ taylor_x_upto 0 4 ser_rk3 E = false) /\
  (* RK4 + CN (decimals): the same with orders 2 / 4 to 1e-13, failing beyond by > 1e-5 *)
  (taylor_upto eps13 2 ser_rk4 E = true /\ taylor_x_upto eps13 4 ser_rk4 E = true /\
   taylor_upto (1 # 100000) 3 ser_rk4 E = false /\ taylor_x_upto (1 # 100000) 5 ser_rk4 E = false) /\
  (* SIL3: order 2 in (x,y), 3 in x alone (linear F), not 3 in (x,y), not 4 in x *)
  (is_some_ser ser_sil3 = true /\
   taylor_upto 0 2 (some_ser ser_sil3) E = true /\ taylor_x_upto 0 3 (some_ser ser_sil3) E = true /\
   taylor_upto 0 3 (some_ser ser_sil3) E = false /\ taylor_x_upto 0 4 (some_ser ser_sil3) E = false).
Proof. cbv zeta. repeat split; vm_compute; reflexivity. Qed.

(** Leapfrog: started from exact snapshots exp(-(x+y)) and 1, the future snapshot
    agrees with exp(x+y) to total degree 2 exactly when alpha = 1/2 is used
    (the generated default); for alpha = 1 only to degree 1. *)
Lemma leapfrog_second_order_series :
  taylor_upto 0 2 (ser_leapfrog leapfrog_alpha_default) (ser_exp 1) = true /\
  taylor_upto 0 3 (ser_leapfrog leapfrog_alpha_default) (ser_exp 1) = false /\
  taylor_upto 0 1 (ser_leapfrog 1) (ser_exp 1) = true /\
  taylor_upto 0 2 (ser_leapfrog 1) (ser_exp 1) = false.
Proof. repeat split; vm_compute; reflexivity. Qed.

(** * 5. Length validation (the acceptance predicates are generated) *)
Ltac zbool :=
  repeat match goal with
  | |- context [Z.eqb ?a ?b] => destruct (Z.eqb_spec a b)
  | |- context [Z.ltb ?a ?b] => destruct (Z.ltb_spec a b)
  | |- context [Z.leb ?a ?b] => destruct (Z.leb_spec a b)
  end.

Lemma ls_lengths_validated (la lb lg : nat) :
  ls_rejects la lb lg = false <-> (la = S lb /\ lb = lg).
Proof.
  unfold ls_rejects. cbv zeta. zbool; cbn; split; intros H; try discriminate; try lia; try reflexivity.
Qed.

Lemma py_set_card4 (a b c d : Z) :
  Z.ltb 1 (py_set_card [a; b; c; d]) = false <-> (a = b /\ b = c /\ c = d).
Proof.
  unfold py_set_card, py_dedup, existsb.
  destruct (Z.eqb_spec a b), (Z.eqb_spec a c), (Z.eqb_spec a d), (Z.eqb_spec b c),
    (Z.eqb_spec b d), (Z.eqb_spec c d); cbn; split; intros H; try discriminate; try lia; try reflexivity.
Qed.

Lemma py_any_enum_from_false (f : Z -> Z -> bool) (rows : list Z) (k : Z) :
  py_any_enum_from k f rows = false <->
  forall i, (i < length rows)%nat -> f (k + Z.of_nat i)%Z (nth i rows 0%Z) = false.
Proof.
  revert k. induction rows as [|r t IH]; intros k; cbn [py_any_enum_from length].
  - split; auto. intros _ i Hi. lia.
  - rewrite orb_false_iff, IH. split.
    + intros [H0 H] [|i] Hi; cbn [nth].
      * now rewrite Z.add_0_r.
      * replace (k + Z.of_nat (S i))%Z with (k + 1 + Z.of_nat i)%Z by lia. apply H. cbn in Hi. lia.
    + intros H. split.
      * specialize (H 0%nat). cbn in H. rewrite Z.add_0_r in H. apply H. lia.
      * intros i Hi. specialize (H (S i)). cbn [nth] in H.
        replace (k + 1 + Z.of_nat i)%Z with (k + Z.of_nat (S i))%Z by lia. apply H. cbn. lia.
Qed.

Lemma rows_shape (off : Z) (rows : list nat) :
  py_any_enum (fun py_i py_rowlen : Z => negb (Z.eqb py_rowlen (py_i + off))) (py_lens rows) = false <->
  forall i, (i < length rows)%nat -> Z.of_nat (nth i rows 0%nat) = (Z.of_nat i + off)%Z.
Proof.
  unfold py_any_enum. rewrite py_any_enum_from_false. unfold py_lens. rewrite map_length.
  split; intros H i Hi; specialize (H i Hi).
  - rewrite negb_false_iff, Z.eqb_eq in H. cbn in H.
    rewrite (nth_indep _ 0%Z (Z.of_nat 0)) in H by (now rewrite map_length).
    now rewrite map_nth in H.
  - rewrite negb_false_iff, Z.eqb_eq. cbn.
    rewrite (nth_indep _ 0%Z (Z.of_nat 0)) by (now rewrite map_length).
    now rewrite map_nth.
Qed.

Lemma tableau_validated (a_ex_rows a_im_rows : list nat) (n_b_ex n_b_im : nat) :
  tableau_rejects a_ex_rows a_im_rows n_b_ex n_b_im = false <->
  (S (length a_ex_rows) = n_b_ex /\ S (length a_im_rows) = n_b_ex /\ n_b_im = n_b_ex /\
   (forall i, (i < length a_ex_rows)%nat -> nth i a_ex_rows 0%nat = (i + 1)%nat) /\
   (forall i, (i < length a_im_rows)%nat -> nth i a_im_rows 0%nat = (i + 2)%nat)).
Proof.
  unfold tableau_rejects.
  rewrite !orb_false_iff, py_set_card4, (rows_shape 1), (rows_shape 2).
  split.
  - intros (H1 & H2 & H3). repeat split; try lia.
    + intros i Hi. specialize (H2 i Hi). lia.
    + intros i Hi. specialize (H3 i Hi). lia.
  - intros (H1 & H2 & H3 & H4 & H5). repeat split; try lia.
    + intros i Hi. specialize (H4 i Hi). lia.
    + intros i Hi. specialize (H5 i Hi). lia.
Qed.
