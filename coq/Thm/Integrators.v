(** Proofs for property C06 (IMEX integrators).  Everything that mentions a
    coefficient is stated over the *generated* Gen/Tableaux.v. *)
From Dino Require Import Base.Ops Base.Sums Gen.Tableaux Model.Integrators.
From Coq Require Import Lia Qabs.
Local Open Scope F_scope.

(** * 0. The translation is complete (fail-closed switch of the translator) *)
Lemma gen_complete_ok : gen_complete = true.
Proof. reflexivity. Qed.

(** * 1. Order conditions, decided on the generated rationals (carrier Q) *)
Definition TQ := @T Q.
Definition euler_tab : TQ := @euler_tableau Q QOps.
Definition rk2_tab : TQ := @cn_rk2_tableau Q QOps.
Definition rk3_tab : TQ := lowstorage_to_butcher rk3_alphas rk3_betas rk3_gammas.
Definition rk4_tab : TQ := lowstorage_to_butcher rk4_alphas rk4_betas rk4_gammas.
Definition sil3_tab : TQ := (sil3_a_ex, sil3_a_im, sil3_b_ex, sil3_b_im).

Definition zeroq (x : Q) : bool := Qeq_bool x 0.
Definition eps13 : Q := 1 # 10000000000000.

(** meaning of the boolean deciders *)
Lemma all_zero_spec (l : list Q) : all_zero l = true <-> Forall (fun x => x == 0)%Q l.
Proof.
  unfold all_zero. rewrite forallb_forall, Forall_forall.
  split; intros H x Hx; specialize (H x Hx); cbn in *; now apply Qeq_bool_iff.
Qed.
Lemma fabsb_Q (x : Q) : (@fabsb Q QOps x == Qabs x)%Q.
Proof.
  unfold fabsb; cbn. destruct (Qle_bool 0 x) eqn:E.
  - apply Qle_bool_iff in E. now rewrite Qabs_pos.
  - assert (x <= 0)%Q.
    { destruct (Qlt_le_dec 0 x) as [H|H]; auto. apply Qlt_le_weak, Qle_bool_iff in H. congruence. }
    now rewrite Qabs_neg.
Qed.
Lemma all_within_spec (eps : Q) (l : list Q) :
  all_within eps l = true <-> Forall (fun x => Qabs x <= eps)%Q l.
Proof.
  unfold all_within. rewrite forallb_forall, Forall_forall.
  split; intros H x Hx; specialize (H x Hx); cbn in *.
  - apply Qle_bool_iff in H. now rewrite <- fabsb_Q.
  - apply Qle_bool_iff. now rewrite fabsb_Q.
Qed.

(** Named checkers: functions of the tableau, so that a derived Butcher form is
    evaluated once per check (call by value).  [eps = 0] means exact. *)
Definition additive_order1_ok (eps : Q) (t : TQ) := all_within eps (order1 t).
Definition additive_order2_ok (eps : Q) (t : TQ) := all_within eps (order1 t ++ order2 t ++ c_consistency t).
Definition additive_order3_ok (eps : Q) (t : TQ) := all_within eps (order3 t).
Definition explicit_order3_ok (eps : Q) (t : TQ) := all_within eps [ex_order3_bushy t; ex_order3_tall t].
Definition explicit_order3_tall_ok (eps : Q) (t : TQ) := all_within eps [ex_order3_tall t].
Definition explicit_order3_bushy_ok (eps : Q) (t : TQ) := all_within eps [ex_order3_bushy t].
Definition explicit_order4_ok (eps : Q) (t : TQ) := all_within eps (ex_order4 t).
Definition explicit_order4_tall_ok (eps : Q) (t : TQ) := all_within eps [ex_order4_tall t].
Definition explicit_order5_bushy_ok (eps : Q) (t : TQ) := all_within eps [ex_order5_bushy t].
Definition coupling_bIcEcE_ok (eps : Q) (t : TQ) := all_within eps [oc_bcc t false true true].

(** Euler pair: order 1 (both parts, 2 conditions), not order 2. *)
Lemma order_euler :
  additive_order1_ok 0 euler_tab = true /\ additive_order2_ok 0 euler_tab = false.
Proof. split; vm_compute; reflexivity. Qed.

(** Crank-Nicolson + Heun: all 2 + 4 additive conditions of order <= 2; equal
    stage times; order 3 fails (already for the explicit part alone). *)
Lemma order_cn_rk2 :
  additive_order2_ok 0 rk2_tab = true /\
  additive_order3_ok 0 rk2_tab = false /\ explicit_order3_tall_ok 0 rk2_tab = false.
Proof. repeat (match goal with |- _ /\ _ => split end); vm_compute; reflexivity. Qed.

(** Williamson RK3 + CN (generated alphas/betas/gammas -> Butcher form): order 2
    as an additive scheme (exact), order 3 for the explicit part (exact), the
    order-3 coupling conditions fail and the explicit order-4 conditions fail. *)
Lemma order_cn_rk3 :
  additive_order2_ok 0 rk3_tab = true /\ explicit_order3_ok 0 rk3_tab = true /\
  additive_order3_ok 0 rk3_tab = false /\ explicit_order4_ok 0 rk3_tab = false.
Proof. repeat (match goal with |- _ /\ _ => split end); vm_compute; reflexivity. Qed.

(** Carpenter-Kennedy RK4 + CN, 13-digit decimals: every condition of additive
    order 2 and of explicit order 3 and 4 (and the stage-time consistency) holds
    to 1e-13 (one unit of the last tabulated digit); the order-3 coupling
    condition b_im.(c_ex c_ex) = 1/3 is violated by more than 1e-3 and explicit
    order 5 by more than 1e-5. *)
Lemma order_cn_rk4 :
  additive_order2_ok eps13 rk4_tab = true /\
  explicit_order3_ok eps13 rk4_tab = true /\ explicit_order4_ok eps13 rk4_tab = true /\
  coupling_bIcEcE_ok (1 # 1000) rk4_tab = false /\
  explicit_order5_bushy_ok (1 # 100000) rk4_tab = false.
Proof. repeat (match goal with |- _ /\ _ => split end); vm_compute; reflexivity. Qed.

(** SIL3: additive order 2 (exact); explicit part: the order-3 tall tree holds
    (order 3 for linear F) while the bushy tree fails (order 2 for nonlinear F);
    the order-4 tall tree fails (linear order is exactly 3); coupling order 3 fails. *)
Lemma order_sil3 :
  additive_order2_ok 0 sil3_tab = true /\
  explicit_order3_tall_ok 0 sil3_tab = true /\ explicit_order3_bushy_ok 0 sil3_tab = false /\
  explicit_order4_tall_ok 0 sil3_tab = false /\ additive_order3_ok 0 sil3_tab = false.
Proof. repeat (match goal with |- _ /\ _ => split end); vm_compute; reflexivity. Qed.

(** The generated RK4 coefficients are the Carpenter-Kennedy (1994) RK4(3)5[2N]
    coefficients (published as rationals A_k, B_k, c_k) to 6e-13. *)
Definition ck_A : list Q :=
  [0; -567301805773 # 1357537059087; -2404267990393 # 2016746695238;
   -3550918686646 # 2091501179385; -1275806237668 # 842570457699]%Q.
Definition ck_B : list Q :=
  [1432997174477 # 9575080441755; 5161836677717 # 13612068292357; 1720146321549 # 2090206949498;
   3134564353537 # 4481467310338; 2277821191437 # 14882151754819]%Q.
Definition ck_c : list Q :=
  [0; 1432997174477 # 9575080441755; 2526269341429 # 6820363962896;
   2006345519317 # 3224310063776; 2802321613138 # 2924317926251; 1]%Q.
Definition close_lists (eps : Q) (l1 l2 : list Q) : bool :=
  Nat.eqb (length l1) (length l2) &&
  forallb (fun p => Qle_bool (Qabs (fst p - snd p)) eps) (combine l1 l2).
Lemma rk4_near_carpenter_kennedy :
  let eps := (6 # 10000000000000)%Q in
  close_lists eps rk4_betas ck_A = true /\ close_lists eps rk4_gammas ck_B = true /\
  close_lists eps rk4_alphas ck_c = true.
Proof. cbv zeta. repeat (match goal with |- _ /\ _ => split end); vm_compute; reflexivity. Qed.

(** * 2. Linear test equation: Taylor coefficients of the one-step multiplier.
    The step functions of the model are run in Q[[x,y]]/(x^N, y^N) (F = x.,
    G = y., G_inv(., eta) = (1 - eta y)^-1 .) on the series 1 with dt = 1; the
    coefficient of x^i y^j must be 1/(i! j!) for i + j <= order. *)
Section SeriesRun.
  Let N := 6%nat.
  Let vo := @SerOps Q QOps N.
  Let Fx := @smulx Q QOps N.
  Let G := @smuly Q QOps.
  Let Gi := @sinv Q QOps N.
  Definition ser_euler := euler_step (vo := vo) Fx Gi 1%Q (sone N).
  Definition ser_rk2 := cn_rk2_step (vo := vo) Fx G Gi 1%Q (sone N).
  Definition ser_rk3 := ls_step (vo := vo) Fx G Gi 1%Q rk3_alphas rk3_betas rk3_gammas (sone N).
  Definition ser_rk4 := ls_step (vo := vo) Fx G Gi 1%Q rk4_alphas rk4_betas rk4_gammas (sone N).
  Definition ser_sil3 := imex_step (vo := vo) Fx G Gi 1%Q sil3_a_ex sil3_a_im sil3_b_ex sil3_b_im (sone N).
  (** exp(c (x + y)) truncated: coefficient c^(i+j)/(i! j!) *)
  Fixpoint factq (n : nat) : Q := match n with O => 1 | S k => Qred (inject_Z (Z.of_nat n) * factq k) end.
  Definition exp_coef (c : Q) (i j : nat) : Q := Qred (Qpower c (Z.of_nat (i + j)) / (factq i * factq j)).
  Definition ser_exp (c : Q) : @ser Q :=
    map (fun i => map (fun j => exp_coef c i j) (seq 0 N)) (seq 0 N).
  Definition ser_leapfrog (alpha : Q) :=
    snd (leapfrog_step (vo := vo) Fx G Gi 1%Q alpha (ser_exp (-1), sone N)).
End SeriesRun.

(** all coefficients of total degree <= p agree within eps *)
Definition taylor_upto (eps : Q) (p : nat) (a b : @ser Q) : bool :=
  forallb (fun i => forallb (fun j => Nat.ltb p (i + j) ||
     Qle_bool (Qabs (@scoef Q QOps a i j - @scoef Q QOps b i j)) eps) (seq 0 (S p))) (seq 0 (S p)).
(** pure powers of x (G-free part) up to degree p *)
Definition taylor_x_upto (eps : Q) (p : nat) (a b : @ser Q) : bool :=
  forallb (fun i => Qle_bool (Qabs (@scoef Q QOps a i 0 - @scoef Q QOps b i 0)) eps) (seq 0 (S p)).
Definition some_ser (x : option (@ser Q)) : @ser Q := match x with Some s => s | None => [] end.
Definition is_some_ser (x : option (@ser Q)) : bool := match x with Some _ => true | None => false end.


Lemma linear_taylor_series :
  let E := ser_exp 1 in
  (* Euler pair: order 1, not 2 *)
  (taylor_upto 0 1 ser_euler E = true /\ taylor_upto 0 2 ser_euler E = false) /\
  (* CN + Heun: order 2, not 3 (not even for the explicit part) *)
  (taylor_upto 0 2 ser_rk2 E = true /\ taylor_x_upto 0 3 ser_rk2 E = false) /\
  (* RK3 + CN: order 2 in (x,y), 3 in x alone, not 3 in (x,y), not 4 in x *)
  (taylor_upto 0 2 ser_rk3 E = true /\ taylor_x_upto 0 3 ser_rk3 E = true /\
   taylor_upto 0 3 ser_rk3 E = false /\ taylor_x_upto 0 4 ser_rk3 E = false) /\
  (* RK4 + CN (decimals): the same with orders 2 / 4 to 1e-13, failing beyond by > 1e-5 *)
  (taylor_upto eps13 2 ser_rk4 E = true /\ taylor_x_upto eps13 4 ser_rk4 E = true /\
   taylor_upto (1 # 100000) 3 ser_rk4 E = false /\ taylor_x_upto (1 # 100000) 5 ser_rk4 E = false) /\
  (* SIL3: order 2 in (x,y), 3 in x alone (linear F), not 3 in (x,y), not 4 in x *)
  (is_some_ser ser_sil3 = true /\
   taylor_upto 0 2 (some_ser ser_sil3) E = true /\ taylor_x_upto 0 3 (some_ser ser_sil3) E = true /\
   taylor_upto 0 3 (some_ser ser_sil3) E = false /\ taylor_x_upto 0 4 (some_ser ser_sil3) E = false).
Proof. cbv zeta. repeat (match goal with |- _ /\ _ => split end); vm_compute; reflexivity. Qed.

(** Leapfrog: started from exact snapshots exp(-(x+y)) and 1, the future snapshot
    agrees with exp(x+y) to total degree 2 exactly when alpha = 1/2 is used
    (the generated default); for alpha = 1 only to degree 1. *)
Lemma leapfrog_second_order_series :
  taylor_upto 0 2 (ser_leapfrog leapfrog_alpha_default) (ser_exp 1) = true /\
  taylor_upto 0 3 (ser_leapfrog leapfrog_alpha_default) (ser_exp 1) = false /\
  taylor_upto 0 1 (ser_leapfrog 1) (ser_exp 1) = true /\
  taylor_upto 0 2 (ser_leapfrog 1) (ser_exp 1) = false.
Proof. repeat (match goal with |- _ /\ _ => split end); vm_compute; reflexivity. Qed.

(** * 5. Length validation (the acceptance predicates are generated) *)
Ltac zbool :=
  repeat match goal with
  | |- context [Z.eqb ?a ?b] => destruct (Z.eqb_spec a b)
  | |- context [Z.ltb ?a ?b] => destruct (Z.ltb_spec a b)
  | |- context [Z.leb ?a ?b] => destruct (Z.leb_spec a b)
  end.

Lemma ls_lengths_validated (la lb lg : nat) :
  ls_rejects la lb lg = false <-> (la = S lb /\ lb = lg).
Proof.
  unfold ls_rejects. cbv zeta. zbool; cbn; split; intros H; try discriminate; try lia; try reflexivity.
Qed.

Lemma py_set_card4 (a b c d : Z) :
  Z.ltb 1 (py_set_card [a; b; c; d]) = false <-> (a = b /\ b = c /\ c = d).
Proof.
  unfold py_set_card, py_dedup, existsb.
  destruct (Z.eqb_spec a b), (Z.eqb_spec a c), (Z.eqb_spec a d), (Z.eqb_spec b c),
    (Z.eqb_spec b d), (Z.eqb_spec c d); cbn; split; intros H; try discriminate; try lia; try reflexivity.
Qed.

Lemma py_any_enum_from_false (f : Z -> Z -> bool) (rows : list Z) (k : Z) :
  py_any_enum_from k f rows = false <->
  forall i, (i < length rows)%nat -> f (k + Z.of_nat i)%Z (nth i rows 0%Z) = false.
Proof.
  revert k. induction rows as [|r t IH]; intros k; cbn [py_any_enum_from length].
  - split; auto. intros _ i Hi. lia.
  - rewrite orb_false_iff, IH. split.
    + intros [H0 H] [|i] Hi; cbn [nth].
      * now rewrite Z.add_0_r.
      * replace (k + Z.of_nat (S i))%Z with (k + 1 + Z.of_nat i)%Z by lia. apply H. cbn in Hi. lia.
    + intros H. split.
      * specialize (H 0%nat). cbn in H. rewrite Z.add_0_r in H. apply H. lia.
      * intros i Hi. specialize (H (S i)). cbn [nth] in H.
        replace (k + 1 + Z.of_nat i)%Z with (k + Z.of_nat (S i))%Z by lia. apply H. cbn. lia.
Qed.

Lemma rows_shape (off : Z) (rows : list nat) :
  py_any_enum (fun py_i py_rowlen : Z => negb (Z.eqb py_rowlen (py_i + off))) (py_lens rows) = false <->
  forall i, (i < length rows)%nat -> Z.of_nat (nth i rows 0%nat) = (Z.of_nat i + off)%Z.
Proof.
  unfold py_any_enum. rewrite py_any_enum_from_false. unfold py_lens. rewrite map_length.
  split; intros H i Hi; specialize (H i Hi).
  - rewrite negb_false_iff, Z.eqb_eq in H. cbn in H.
    rewrite (nth_indep _ 0%Z (Z.of_nat 0)) in H by (now rewrite map_length).
    now rewrite map_nth in H.
  - rewrite negb_false_iff, Z.eqb_eq. cbn.
    rewrite (nth_indep _ 0%Z (Z.of_nat 0)) by (now rewrite map_length).
    now rewrite map_nth.
Qed.

Lemma tableau_validated (a_ex_rows a_im_rows : list nat) (n_b_ex n_b_im : nat) :
  tableau_rejects a_ex_rows a_im_rows n_b_ex n_b_im = false <->
  (S (length a_ex_rows) = n_b_ex /\ S (length a_im_rows) = n_b_ex /\ n_b_im = n_b_ex /\
   (forall i, (i < length a_ex_rows)%nat -> nth i a_ex_rows 0%nat = (i + 1)%nat) /\
   (forall i, (i < length a_im_rows)%nat -> nth i a_im_rows 0%nat = (i + 2)%nat)).
Proof.
  unfold tableau_rejects.
  rewrite !orb_false_iff, py_set_card4, (rows_shape 1), (rows_shape 2).
  split.
  - intros (H1 & H2 & H3). repeat split; try lia.
    + intros i Hi. specialize (H2 i Hi). lia.
    + intros i Hi. specialize (H3 i Hi). lia.
  - intros (H1 & H2 & H3 & H4 & H5). repeat split; try lia.
    + intros i Hi. specialize (H4 i Hi). lia.
    + intros i Hi. specialize (H5 i Hi). lia.
Qed.

(** * 3. Reduction to the underlying explicit / implicit method
    (any carrier, any vector space; only the two module laws x + 0 = x and
    c.0 = 0 are needed, stated as hypotheses). *)
Section Reduction.
  Context {F : Type} {o : Ops F} {V : Type} {vo : VOps F V}.
  Hypothesis vadd_0_r : forall x : V, vadd x vzero = x.
  Hypothesis vscal_0 : forall c : F, vscal c (vzero : V) = vzero.
  Lemma vadd_scal0_r (x : V) (c : F) : vadd x (vscal c vzero) = x.
  Proof. now rewrite vscal_0, vadd_0_r. Qed.
  Variable Fx G : V -> V.
  Variable Ginv : V -> F -> V.

  Let G0 : V -> V := fun _ => vzero.
  Let Gid : V -> F -> V := fun x _ => x.
  Let F0 : V -> V := fun _ => vzero.

  (** G = 0, G_inv = id: forward Euler, Heun, the explicit 2N Runge-Kutta scheme *)
  Lemma euler_reduces_to_explicit dt u :
    euler_step Fx Gid dt u = vadd u (vscal dt (Fx u)).
  Proof. reflexivity. Qed.

  Lemma cn_rk2_reduces_to_explicit dt u :
    cn_rk2_step Fx G0 Gid dt u =
    (let k1 := Fx u in let k2 := Fx (vadd u (vscal dt k1)) in
     vadd u (vscal dt (vscal half (vadd k2 k1)))).
  Proof. unfold cn_rk2_step, G0, Gid. cbv zeta. now rewrite !vadd_scal0_r. Qed.

  Lemma ls_reduces_to_explicit dt : forall be ga al h u,
    length al = S (length be) ->
    ls_loop Fx G0 Gid dt al be ga h u = ls_explicit_loop Fx dt be ga h u.
  Proof.
    induction be as [|b be IH]; intros ga al h u Hl; [reflexivity|].
    destruct ga as [|g ga]; [reflexivity|].
    destruct al as [|a0 [|a1 al]]; try (cbn in Hl; lia).
    cbn [ls_loop ls_explicit_loop]. unfold G0 at 1, Gid at 1.
    rewrite vadd_scal0_r. apply IH. cbn in *. lia.
  Qed.

  (** F = 0: backward Euler, one Crank-Nicolson step, the chain of
      Crank-Nicolson substeps of sizes dt (alpha_{k+1} - alpha_k) *)
  Lemma euler_reduces_to_implicit dt u :
    euler_step F0 Ginv dt u = backward_euler_step Ginv dt u.
  Proof. unfold euler_step, backward_euler_step, F0. now rewrite vadd_scal0_r. Qed.


  Lemma cn_rk2_reduces_to_implicit dt u :
    cn_rk2_step F0 G Ginv dt u = cn_substep G Ginv (half * dt) u.
  Proof.
    unfold cn_rk2_step, cn_substep, F0. cbv zeta.
    now rewrite !vadd_0_r, !vscal_0, !vadd_0_r.
  Qed.

  Lemma ls_reduces_to_implicit dt : forall be ga al u,
    length be = length ga -> length al = S (length be) ->
    ls_loop F0 G Ginv dt al be ga vzero u = cn_chain G Ginv dt al u.
  Proof.
    induction be as [|b be IH]; intros ga al u Hg Hl.
    - destruct al as [|a0 [|a1 al]]; try (cbn in Hl; lia). reflexivity.
    - destruct ga as [|g ga]; [cbn in Hg; lia|].
      destruct al as [|a0 [|a1 al]]; try (cbn in Hl; lia).
      cbn [ls_loop].
      change (cn_chain G Ginv dt (a0 :: a1 :: al) u)
        with (cn_chain G Ginv dt (a1 :: al) (cn_substep G Ginv (half * dt * (a1 - a0)) u)).
      unfold cn_substep.
      replace (vadd (F0 u) (vscal b vzero)) with (vzero : V)
        by (unfold F0; now rewrite vscal_0, vadd_0_r).
      rewrite vscal_0, vadd_0_r.
      apply IH; cbn in *; lia.
  Qed.
End Reduction.

(** * 6. The zero-skipping, lazily evaluating interpreter [imex_step] computes the
    additive Runge-Kutta step [ark_step], for every tableau (all shapes), every
    carrier and module with x + 0 = x and 0.x = 0, every F, G, G_inv. *)
Section ImexIsArk.
  Context {F : Type} {o : Ops F} {V : Type} {vo : VOps F V}.
  Hypothesis nz_false_zero : forall c : F, nz c = false -> c = 0.
  Hypothesis vadd_0_r : forall x : V, vadd x vzero = x.
  Hypothesis vscal_0_l : forall x : V, vscal 0 x = vzero.
  Variable Fx G : V -> V.
  Variable Ginv : V -> F -> V.

  Definition ok_at (c : F) (x : option V) (x' : V) : Prop := x = Some x' \/ nz c = false.

  Lemma wsum_skip_ok : forall cs xs xs' acc,
    length xs = length xs' ->
    (forall j, (j < length xs)%nat -> ok_at (nth j cs 0) (nth j xs None) (nth j xs' vzero)) ->
    wsum_skip cs xs acc = Some (wsum cs xs' acc).
  Proof.
    induction cs as [|c cs IH]; intros xs xs' acc Hl H.
    - destruct xs; reflexivity.
    - destruct xs as [|x xs], xs' as [|x' xs']; cbn in Hl; try discriminate; [reflexivity|].
      cbn [wsum_skip wsum].
      assert (H0 := H 0%nat ltac:(cbn; lia)). cbn [nth] in H0.
      assert (Hs : forall j, (j < length xs)%nat -> ok_at (nth j cs 0) (nth j xs None) (nth j xs' vzero)).
      { intros j Hj. apply (H (S j)). cbn. lia. }
      destruct (nz c) eqn:E.
      + destruct H0 as [->|H0]; [|congruence]. apply IH; [lia|exact Hs].
      + rewrite (nz_false_zero c E), vscal_0_l, vadd_0_r. apply IH; [lia|exact Hs].
  Qed.

  Definition INV (rows : list (list F)) (b : list F) (l : list (option V)) (l' : list V) : Prop :=
    length l = length l' /\
    forall j, (j < length l)%nat ->
      nth j l None = Some (nth j l' vzero) \/
      ((forall row, In row rows -> nz (nth j row 0) = false) /\ nz (nth j b 0) = false).

  Lemma INV_row re rows b l l' : INV (re :: rows) b l l' ->
    forall j, (j < length l)%nat -> ok_at (nth j re 0) (nth j l None) (nth j l' vzero).
  Proof.
    intros [_ H] j Hj. destruct (H j Hj) as [E|[E _]]; [now left|right]. apply E. now left.
  Qed.
  Lemma INV_b rows b l l' : INV rows b l l' ->
    forall j, (j < length l)%nat -> ok_at (nth j b 0) (nth j l None) (nth j l' vzero).
  Proof. intros [_ H] j Hj. destruct (H j Hj) as [E|[_ E]]; [now left|now right]. Qed.
  Lemma INV_weaken rows b l l' : INV rows b l l' -> INV [] b l l'.
  Proof.
    intros [Hl H]. split; [exact Hl|]. intros j Hj. destruct (H j Hj) as [E|[_ E]]; [now left|right].
    split; [intros row []|exact E].
  Qed.
  Lemma existsb_false_all {A} (f : A -> bool) l : existsb f l = false -> forall x, In x l -> f x = false.
  Proof.
    induction l as [|a l IH]; cbn; intros H x Hx; [contradiction|].
    apply orb_false_iff in H. destruct H as [H1 H2]. destruct Hx as [<-|Hx]; auto.
  Qed.
  Lemma INV_step re rows b l l' y : INV (re :: rows) b l l' ->
    INV rows b (l ++ [if needed (length l) rows b then Some y else None]) (l' ++ [y]).
  Proof.
    intros [Hl H]. split; [rewrite !app_length; cbn; lia|].
    intros j Hj. rewrite app_length in Hj. cbn in Hj.
    destruct (Nat.eq_dec j (length l)) as [->|Hne].
    - rewrite nth_middle. rewrite Hl at 2. rewrite nth_middle.
      destruct (needed (length l) rows b) eqn:E; [now left|right].
      unfold needed in E. apply orb_false_iff in E. destruct E as [E1 E2]. split; [|exact E2].
      intros row Hr. exact (existsb_false_all _ _ E1 row Hr).
    - assert (Hj' : (j < length l)%nat) by lia.
      rewrite !app_nth1 by lia.
      destruct (H j Hj') as [E|[E1 E2]]; [now left|right]. split; [|exact E2].
      intros row Hr. apply E1. now right.
  Qed.

  Lemma stages_ok dt y0 b_ex b_im : forall rex rim fs gs fs' gs',
    length fs = length gs -> INV rex b_ex fs fs' -> INV rim b_im gs gs' ->
    exists fsL gsL,
      imex_stages Fx G Ginv dt y0 b_ex b_im (length fs) rex rim fs gs = Some (fsL, gsL) /\
      INV [] b_ex fsL (fst (ark_stages Fx G Ginv dt y0 (length fs) rex rim fs' gs')) /\
      INV [] b_im gsL (snd (ark_stages Fx G Ginv dt y0 (length fs) rex rim fs' gs')).
  Proof.
    induction rex as [|re rex IH]; intros rim fs gs fs' gs' Hfg If Ig.
    - exists fs, gs. split; [reflexivity|]. cbn [ark_stages fst snd].
      split; [exact If|exact (INV_weaken _ _ _ _ Ig)].
    - destruct rim as [|ri rim].
      + exists fs, gs. split; [reflexivity|]. cbn [ark_stages fst snd].
        split; [exact (INV_weaken _ _ _ _ If)|exact Ig].
      + cbn [imex_stages ark_stages].
        rewrite (wsum_skip_ok re fs fs' vzero (proj1 If) (INV_row _ _ _ _ _ If)).
        rewrite (wsum_skip_ok ri gs gs' vzero (proj1 Ig) (INV_row _ _ _ _ _ Ig)).
        cbv zeta.
        set (Y := Ginv (vadd (vadd y0 (vscal dt (wsum re fs' vzero))) (vscal dt (wsum ri gs' vzero)))
                       (dt * nth (length fs) ri 0)%F).
        pose proof (INV_step _ _ _ _ _ (Fx Y) If) as If2.
        pose proof (INV_step _ _ _ _ _ (G Y) Ig) as Ig2.
        rewrite <- Hfg in Ig2.
        assert (Hl2 : length (fs ++ [if needed (length fs) rex b_ex then Some (Fx Y) else None]) =
                      length (gs ++ [if needed (length fs) rim b_im then Some (G Y) else None]))
          by (rewrite !app_length; cbn; lia).
        destruct (IH rim _ _ _ _ Hl2 If2 Ig2) as (fsL & gsL & E & I1 & I2).
        rewrite app_length in E, I1, I2. cbn [length] in E, I1, I2. rewrite Nat.add_1_r in E, I1, I2.
        exists fsL, gsL. repeat split; auto; try apply I1; try apply I2.
  Qed.

  Theorem imex_is_ark dt a_ex a_im b_ex b_im y0 :
    imex_step Fx G Ginv dt a_ex a_im b_ex b_im y0 = Some (ark_step Fx G Ginv dt a_ex a_im b_ex b_im y0).
  Proof.
    unfold imex_step, ark_step.
    assert (If : INV a_ex b_ex [Some (Fx y0)] [Fx y0]).
    { split; [reflexivity|]. intros [|j] Hj; [now left|cbn in Hj; lia]. }
    assert (Ig : INV a_im b_im [Some (G y0)] [G y0]).
    { split; [reflexivity|]. intros [|j] Hj; [now left|cbn in Hj; lia]. }
    destruct (stages_ok dt y0 b_ex b_im a_ex a_im [Some (Fx y0)] [Some (G y0)] [Fx y0] [G y0] eq_refl If Ig) as (fsL & gsL & E & I1 & I2).
    cbn [length] in E, I1, I2. rewrite E.
    destruct (ark_stages Fx G Ginv dt y0 1 a_ex a_im [Fx y0] [G y0]) as [fsA gsA]. cbn [fst snd] in I1, I2.
    rewrite (wsum_skip_ok b_ex fsL fsA vzero (proj1 I1) (INV_b _ _ _ _ I1)).
    rewrite (wsum_skip_ok b_im gsL gsA vzero (proj1 I2) (INV_b _ _ _ _ I2)).
    reflexivity.
  Qed.
End ImexIsArk.
