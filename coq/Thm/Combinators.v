(** Theorems about the stepping / scan combinators (property C14): for every
    carry / input / output type, every step function, every number of steps,
    every factorisation of the scan length, every filter and weight list. *)
From Dino Require Import Base.Ops Base.Sums Model.Combinators.
Local Open Scope F_scope.

(** ** Iteration *)
Section Iter.
  Context {St : Type}.
  Implicit Types (f : St -> St).

  Lemma iter_S f n x : Nat.iter (S n) f x = f (Nat.iter n f x).
  Proof. reflexivity. Qed.

  Lemma iter_shift f n x : Nat.iter n f (f x) = f (Nat.iter n f x).
  Proof. induction n as [|n IH]; [reflexivity|]. now rewrite !iter_S, IH. Qed.

  Lemma iter_plus f n m x : Nat.iter (n + m) f x = Nat.iter n f (Nat.iter m f x).
  Proof. induction n as [|n IH]; [reflexivity|]. change (S n + m)%nat with (S (n + m)). now rewrite !iter_S, IH. Qed.

  Lemma iter_mult f k n x : Nat.iter (k * n) f x = Nat.iter k (Nat.iter n f) x.
  Proof.
    induction k as [|k IH]; [reflexivity|].
    change (S k * n)%nat with (n + k * n)%nat. rewrite iter_plus, IH. reflexivity.
  Qed.

  Lemma iter_ext f g n x : (forall c, f c = g c) -> Nat.iter n f x = Nat.iter n g x.
  Proof. intros H. induction n as [|n IH]; [reflexivity|]. now rewrite !iter_S, IH, H. Qed.

  Lemma iter_fixed f n x : f x = x -> Nat.iter n f x = x.
  Proof. intros H. induction n as [|n IH]; [reflexivity|]. now rewrite iter_S, IH. Qed.
End Iter.

(** ** lax.scan on lists *)
Section ScanThm.
  Context {C X Y : Type}.
  Implicit Types (f : C -> X -> C * Y).

  Lemma scan_app f init a b :
    scan f init (a ++ b)
    = (fst (scan f (fst (scan f init a)) b),
       snd (scan f init a) ++ snd (scan f (fst (scan f init a)) b)).
  Proof.
    revert init. induction a as [|x a IH]; intros init; cbn [app scan fst snd].
    - now destruct (scan f init b).
    - rewrite IH. reflexivity.
  Qed.

  Lemma scan_length f init xs : length (snd (scan f init xs)) = length xs.
  Proof. revert init. induction xs as [|x r IH]; intros init; cbn; [reflexivity|]. now rewrite IH. Qed.

  (** the final carry is the sequential left fold of the carry update *)
  Lemma scan_carry_fold f init xs :
    fst (scan f init xs) = fold_left (fun c x => fst (f c x)) xs init.
  Proof. revert init. induction xs as [|x r IH]; intros init; cbn; [reflexivity|]. now rewrite IH. Qed.

  (** output k is produced from the carry after k steps and the k-th input *)
  Lemma scan_nth f init xs k dx dy :
    (k < length xs)%nat ->
    nth k (snd (scan f init xs)) dy
    = snd (f (fold_left (fun c x => fst (f c x)) (firstn k xs) init) (nth k xs dx)).
  Proof.
    revert init k. induction xs as [|x r IH]; intros init k Hk; cbn in Hk; [lia|].
    destruct k as [|k]; cbn [scan snd nth firstn fold_left]; [reflexivity|].
    apply IH. lia.
  Qed.

  Lemma scan_ext_in f g init xs :
    (forall c x, In x xs -> f c x = g c x) -> scan f init xs = scan g init xs.
  Proof.
    revert init. induction xs as [|x r IH]; intros init H; cbn [scan]; [reflexivity|].
    rewrite (H init x) by (now left). rewrite IH; [reflexivity|].
    intros c y Hy. apply H. now right.
  Qed.
End ScanThm.

(** scans with [xs = None]: bodies of the form c -> (h c, out c) *)
Section ScanLen.
  Context {St Y : Type}.

  Lemma scan_len_iter (h : St -> St) (out : St -> Y) x n :
    fst (scan_len (fun c _ => (h c, out c)) x n) = Nat.iter n h x.
  Proof.
    unfold scan_len. revert x. induction n as [|n IH]; intros x; cbn [repeat scan fst snd]; [reflexivity|].
    rewrite IH. apply iter_shift.
  Qed.

  Lemma scan_len_length (g : St -> unit -> St * Y) x n : length (snd (scan_len g x n)) = n.
  Proof. unfold scan_len. now rewrite scan_length, repeat_length. Qed.

  Lemma scan_len_nth (h : St -> St) (out : St -> Y) x n k d :
    (k < n)%nat -> nth k (snd (scan_len (fun c _ => (h c, out c)) x n)) d = out (Nat.iter k h x).
  Proof.
    unfold scan_len. revert x k. induction n as [|n IH]; intros x k Hk; [lia|].
    cbn [repeat scan fst snd]. destruct k as [|k]; cbn [nth]; [reflexivity|].
    rewrite IH by lia. now rewrite iter_shift.
  Qed.
End ScanLen.

(** ** repeated, step_with_filters, trajectory_from_step *)
Section SteppingThm.
  Context {St : Type}.

  Theorem repeated_iter (f : St -> St) n x : repeated f n x = Nat.iter n f x.
  Proof.
    unfold repeated. destruct (Nat.eqb_spec n 1) as [->|_]; [reflexivity|].
    apply (scan_len_iter f (fun _ => tt)).
  Qed.

  Theorem filters_nil (f : St -> St) u : step_with_filters f [] u = f u.
  Proof. reflexivity. Qed.

  Theorem filters_snoc (f : St -> St) phis phi u :
    step_with_filters f (phis ++ [phi]) u = phi u (step_with_filters f phis u).
  Proof. unfold step_with_filters. now rewrite fold_left_app. Qed.

  (** explicit nesting: phi_r(u, ... phi_1(u, f u)) *)
  Theorem filters_in_order (f : St -> St) phis u :
    step_with_filters f phis u = fold_right (fun phi acc => phi u acc) (f u) (rev phis).
  Proof. unfold step_with_filters. now rewrite fold_left_rev_right. Qed.

  Theorem trajectory_frames {Y : Type} (f : St -> St) outer inner (swi : bool) (post : St -> Y) x :
    let r := trajectory_from_step f outer inner swi post x in
    fst r = Nat.iter (outer * inner) f x /\
    length (snd r) = outer /\
    forall k d, (k < outer)%nat ->
      nth k (snd r) d = post (Nat.iter ((if swi then k else S k) * inner) f x).
  Proof.
    cbv zeta. unfold trajectory_from_step.
    set (h := if negb (Nat.eqb inner 1) then repeated f inner else f).
    assert (Hh : forall c, h c = Nat.iter inner f c).
    { intros c. unfold h. destruct (Nat.eqb_spec inner 1) as [->|_]; cbn [negb]; [reflexivity|].
      apply repeated_iter. }
    split; [|split].
    - rewrite (scan_len_iter h (fun c => post (if swi then c else h c))).
      rewrite iter_mult. now apply iter_ext.
    - apply scan_len_length.
    - intros k d Hk.
      rewrite (scan_len_nth h (fun c => post (if swi then c else h c))) by exact Hk.
      destruct swi.
      + rewrite iter_mult. f_equal. now apply iter_ext.
      + rewrite iter_mult, iter_S, Hh. f_equal. f_equal. now apply iter_ext.
  Qed.
End SteppingThm.

(** ** nested_checkpoint_scan *)
Section NestedThm.
  Context {C X Y : Type}.
  Implicit Types (f : C -> X -> C * Y).

  Lemma chunks_concat n m (xs : list X) : length xs = (n * m)%nat -> concat (chunks n m xs) = xs.
  Proof.
    revert xs. induction n as [|n IH]; intros xs H; cbn [chunks concat].
    - destruct xs; [reflexivity|discriminate].
    - rewrite IH; [apply firstn_skipn|]. rewrite skipn_length. lia.
  Qed.

  Lemma chunks_lengths n m (xs : list X) :
    length xs = (n * m)%nat -> forall ch, In ch (chunks n m xs) -> length ch = m.
  Proof.
    revert xs. induction n as [|n IH]; intros xs H ch Hin; cbn [chunks] in Hin; [destruct Hin|].
    destruct Hin as [<-|Hin].
    - rewrite firstn_length. lia.
    - apply (IH (skipn m xs)); [|exact Hin]. rewrite skipn_length. lia.
  Qed.

  Lemma chunks_count n m (xs : list X) : length (chunks n m xs) = n.
  Proof. revert xs. induction n as [|n IH]; intros xs; cbn; [reflexivity|]. now rewrite IH. Qed.

  (** scanning the sub-scans and concatenating = scanning the concatenation *)
  Lemma scan_chunks f init (chs : list (list X)) :
    (fst (scan (fun c ch => scan f c ch) init chs),
     concat (snd (scan (fun c ch => scan f c ch) init chs)))
    = scan f init (concat chs).
  Proof.
    revert init. induction chs as [|ch chs IH]; intros init; cbn [scan concat fst snd]; [reflexivity|].
    rewrite scan_app. rewrite <- (IH (fst (scan f init ch))). reflexivity.
  Qed.

  Lemma inner_nested_unfold f l l2 rest init xs :
    inner_nested_scan f (l :: l2 :: rest) init xs
    = (fst (scan (fun c ch => inner_nested_scan f (l2 :: rest) c ch) init
                 (chunks l (lprod (l2 :: rest)) xs)),
       concat (snd (scan (fun c ch => inner_nested_scan f (l2 :: rest) c ch) init
                         (chunks l (lprod (l2 :: rest)) xs)))).
  Proof. reflexivity. Qed.

  Theorem inner_nested_scan_eq f lengths :
    lengths <> [] -> forall init (xs : list X),
    length xs = lprod lengths -> inner_nested_scan f lengths init xs = scan f init xs.
  Proof.
    induction lengths as [|l rest IH]; [congruence|].
    intros _ init xs Hlen. destruct rest as [|l2 rest]; [reflexivity|].
    rewrite inner_nested_unfold.
    assert (Hlen' : length xs = (l * lprod (l2 :: rest))%nat) by exact Hlen.
    rewrite (scan_ext_in _ (fun c ch => scan f c ch)).
    - rewrite scan_chunks. now rewrite chunks_concat.
    - intros c ch Hin. apply IH; [discriminate|].
      now apply (chunks_lengths l _ xs).
  Qed.

  Lemma opt_eqb_spec a n : opt_eqb a n = true <-> (forall k, a = Some k -> k = n).
  Proof.
    destruct a as [k|]; cbn.
    - rewrite Nat.eqb_eq. split; [intros -> k' [= <-]; reflexivity | intros H; now apply H].
    - split; [discriminate | reflexivity].
  Qed.

  (** exactly which calls are accepted *)
  Theorem nested_accepts_spec length xs_len lengths :
    nested_accepts length xs_len lengths = true <->
    (lengths <> [] /\ (forall k, length = Some k -> k = lprod lengths) /\
     (forall k, xs_len = Some k -> k = lprod lengths) /\
     Forall (fun l => l <> 0%nat) (removelast lengths)).
  Proof.
    unfold nested_accepts. rewrite !andb_true_iff, !opt_eqb_spec, negb_true_iff, Nat.eqb_neq, forallb_forall, Forall_forall.
    split.
    - intros [[[H1 H2] H3] H4]. repeat split; auto.
      + intros ->. now apply H3.
      + intros l Hl. specialize (H4 l Hl). rewrite negb_true_iff, Nat.eqb_neq in H4. exact H4.
    - intros (H1 & H2 & H3 & H4). repeat split; auto.
      + destruct lengths; [congruence|discriminate].
      + intros l Hl. rewrite negb_true_iff, Nat.eqb_neq. now apply H4.
  Qed.

  Theorem nested_scan_eq_scan f init (xs : list X) length lengths :
    nested_accepts length (Some (List.length xs)) lengths = true ->
    nested_checkpoint_scan f init (inr xs) length lengths = Some (scan f init xs).
  Proof.
    intros H. unfold nested_checkpoint_scan. rewrite H.
    apply nested_accepts_spec in H. destruct H as (H1 & _ & H3 & _).
    rewrite inner_nested_scan_eq; auto.
  Qed.

  Theorem nested_scan_eq_scan_noxs f init (xnone : X) length lengths :
    nested_accepts length None lengths = true ->
    nested_checkpoint_scan f init (inl xnone) length lengths
    = Some (scan f init (repeat xnone (lprod lengths))).
  Proof.
    intros H. unfold nested_checkpoint_scan. rewrite H.
    apply nested_accepts_spec in H. destruct H as (H1 & _ & _ & _).
    rewrite inner_nested_scan_eq; auto. apply repeat_length.
  Qed.

  Theorem nested_scan_rejects f init (xs : list X) length lengths :
    List.length xs <> lprod lengths \/ (exists k, length = Some k /\ k <> lprod lengths) \/ lengths = [] ->
    nested_checkpoint_scan f init (inr xs) length lengths = None.
  Proof.
    intros H. unfold nested_checkpoint_scan.
    destruct (nested_accepts length (Some (List.length xs)) lengths) eqn:E; [|reflexivity].
    apply nested_accepts_spec in E. destruct E as (H1 & H2 & H3 & _). exfalso.
    destruct H as [H|[(k & Hk & Hne)|H]].
    - apply H. now apply H3.
    - apply Hne. now apply H2.
    - now apply H1.
  Qed.
End NestedThm.

(** ** accumulate_repeated and digital filter initialisation *)
Section AccumulateThm.
  Context {F : Type} {o : Ops F} {Fc : FieldC o}.
  Add Field FFc : (field_c : FieldTh o).
  Local Notation V := (@Combinators.V F).
  Local Notation ImEx := (@Combinators.ImEx F).

  Lemma map2_length {A B D} (g : A -> B -> D) la lb :
    length lb = length la -> length (map2 g la lb) = length la.
  Proof.
    revert lb. induction la as [|a la IH]; intros [|b lb] H; cbn in *; try reflexivity; try discriminate.
    rewrite IH; auto.
  Qed.

  Lemma nth_map2 {A B D} (g : A -> B -> D) la lb i da db dd :
    (i < length la)%nat -> length lb = length la ->
    nth i (map2 g la lb) dd = g (nth i la da) (nth i lb db).
  Proof.
    revert lb i. induction la as [|a la IH]; intros [|b lb] i Hi H; cbn in *; try lia.
    destruct i as [|i]; [reflexivity|]. apply IH; lia.
  Qed.

  Lemma nth_map_in {A B} (g : A -> B) l i da db :
    (i < length l)%nat -> nth i (map g l) db = g (nth i l da).
  Proof.
    intros Hi. rewrite (nth_indep _ db (g da)) by (now rewrite map_length). apply map_nth.
  Qed.

  Definition acc_body (step : V -> V) : V * V -> F -> (V * V) * unit :=
    fun carry weight =>
      ((step (fst carry), map2 (fun s a => a + weight * s) (step (fst carry)) (snd carry)), tt).

  Lemma acc_scan (step : V -> V) ws : forall (s a : V),
    (forall k, length (Nat.iter k step s) = length s) -> length a = length s ->
    let r := fst (scan (acc_body step) (s, a) ws) in
    fst r = Nat.iter (length ws) step s /\ length (snd r) = length s /\
    forall i, (i < length s)%nat ->
      nth i (snd r) 0
      = nth i a 0 + sumn (length ws) (fun k => nth k ws 0 * nth i (Nat.iter (S k) step s) 0).
  Proof.
    induction ws as [|w ws IH]; intros s a Hs Ha; cbv zeta.
    - cbn. repeat split; auto. intros i _. ring.
    - cbn [scan fst snd length]. unfold acc_body at 2 4 6. cbn [fst snd].
      assert (Hs1 : length (step s) = length s) by exact (Hs 1%nat).
      destruct (IH (step s) (map2 (fun s0 a0 => a0 + w * s0) (step s) a)) as (I1 & I2 & I3).
      + intros k. rewrite iter_shift, <- iter_S. rewrite (Hs (S k)). now rewrite Hs1.
      + rewrite map2_length; congruence.
      + split; [|split].
        * eapply eq_trans; [exact I1|]. apply iter_shift.
        * eapply eq_trans; [exact I2|exact Hs1].
        * intros i Hi. eapply eq_trans; [apply I3; now rewrite Hs1|].
          rewrite (nth_map2 _ _ _ _ 0 0) by congruence.
          rewrite (sumn_ext (length ws)
                     (fun k => nth k ws 0 * nth i (Nat.iter (S k) step (step s)) 0)
                     (fun k => nth (S k) (w :: ws) 0 * nth i (Nat.iter (S (S k)) step s) 0)).
          2:{ intros k _. cbn [nth]. now rewrite iter_shift. }
          rewrite (sumn_S_first (length ws)
                     (fun k => nth k (w :: ws) 0 * nth i (Nat.iter (S k) step s) 0)).
          cbn [nth]. change (Nat.iter 1 step s) with (step s). ring.
  Qed.

  (** accumulate_repeated = sum_k w_k * step^(k+1)(x), componentwise *)
  Theorem accumulate_is_sum (step : V -> V) ws (x : V) :
    (forall k, length (Nat.iter k step x) = length x) ->
    length (accumulate_repeated step ws x) = length x /\
    forall i, (i < length x)%nat ->
      nth i (accumulate_repeated step ws x) 0
      = sumn (length ws) (fun k => nth k ws 0 * nth i (Nat.iter (S k) step x) 0).
  Proof.
    intros Hs. unfold accumulate_repeated.
    destruct (acc_scan step ws x (zeros_like x) Hs) as (_ & I2 & I3).
    { unfold zeros_like. apply map_length. }
    cbv zeta in I2, I3. split; [exact I2|].
    intros i Hi. change (fun (carry : V * V) (weight : F) => _) with (acc_body step).
    rewrite I3 by exact Hi. unfold zeros_like.
    rewrite (nth_map_in _ _ _ 0) by exact Hi. ring.
  Qed.

  Lemma sumn_nth_map_div ws T (g : nat -> F) :
    sumn (length (map (fun w => w / T) ws)) (fun k => nth k (map (fun w => w / T) ws) 0 * g k)
    = sumn (length ws) (fun k => nth k ws 0 / T * g k).
  Proof.
    rewrite map_length. apply sumn_ext. intros k Hk. now rewrite (nth_map_in _ _ _ 0).
  Qed.

  (** general formula of the digital filter initialisation *)
  Theorem dfi_formula solver eq filters ws dt (x : V) :
    let fwd := step_with_filters (solver eq dt) filters in
    let bwd := step_with_filters (solver (time_reversed eq) dt) filters in
    let T := 1 + two * vsum ws in
    (forall k, length (Nat.iter k fwd x) = length x) ->
    (forall k, length (Nat.iter k bwd x) = length x) ->
    length (dfi solver eq filters ws dt x) = length x /\
    forall i, (i < length x)%nat ->
      nth i (dfi solver eq filters ws dt x) 0
      = 0 + nth i x 0 * (1 / T)
        + sumn (length ws) (fun k => nth k ws 0 / T * nth i (Nat.iter (S k) fwd x) 0)
        + sumn (length ws) (fun k => nth k ws 0 / T * nth i (Nat.iter (S k) bwd x) 0).
  Proof.
    intros fwd bwd T Hf Hb. unfold dfi. fold fwd bwd T.
    set (ws' := map (fun w => w / T) ws).
    destruct (accumulate_is_sum fwd ws' x Hf) as (Lf & Nf).
    destruct (accumulate_is_sum bwd ws' x Hb) as (Lb & Nb).
    assert (L1 : length (map2 (fun a b => 0 + a + b) (map (fun x0 => x0 * (1 / T)) x)
                               (accumulate_repeated fwd ws' x)) = length x).
    { rewrite map2_length; rewrite map_length; auto. }
    split.
    - rewrite map2_length; congruence.
    - intros i Hi.
      rewrite (nth_map2 _ _ _ _ 0 0) by congruence.
      rewrite (nth_map2 _ _ _ _ 0 0) by (rewrite map_length; auto).
      rewrite (nth_map_in _ _ _ 0) by exact Hi.
      rewrite Nf, Nb by exact Hi. unfold ws'. now rewrite !sumn_nth_map_div.
  Qed.

  (** a steady state of the forward and backward steps is returned unchanged *)
  Theorem dfi_fixed_point solver eq filters ws dt (x : V) :
    1 + two * vsum ws <> 0 ->
    step_with_filters (solver eq dt) filters x = x ->
    step_with_filters (solver (time_reversed eq) dt) filters x = x ->
    dfi solver eq filters ws dt x = x.
  Proof.
    intros HT Hf Hb.
    destruct (dfi_formula solver eq filters ws dt x) as (L & N).
    { intros k. now rewrite iter_fixed. }
    { intros k. now rewrite iter_fixed. }
    apply (nth_ext _ _ 0 0 L). intros i Hi. rewrite L in Hi. rewrite N by exact Hi.
    set (T := 1 + two * vsum ws) in *.
    assert (E : forall stp : V -> V, stp x = x ->
              sumn (length ws) (fun k => nth k ws 0 / T * nth i (Nat.iter (S k) stp x) 0)
              = vsum ws * (1 / T * nth i x 0)).
    { intros stp Hstp. unfold vsum. rewrite <- sumn_scal_r. apply sumn_ext. intros k _.
      rewrite iter_fixed by exact Hstp. unfold ofl. field. exact HT. }
    rewrite (E _ Hf), (E _ Hb). unfold T, two in *. field. exact HT.
  Qed.

  (** TimeReversedImExODE *)
  Lemma vneg_vneg (v : V) : vneg (vneg v) = v.
  Proof.
    unfold vneg. rewrite map_map. rewrite <- (map_id v) at 2. apply map_ext. intros a. ring.
  Qed.

  Theorem time_reversed_involutive (e : ImEx) s h :
    explicit_terms (time_reversed (time_reversed e)) s = explicit_terms e s /\
    implicit_terms (time_reversed (time_reversed e)) s = implicit_terms e s /\
    implicit_inverse (time_reversed (time_reversed e)) s h = implicit_inverse e s h.
  Proof.
    unfold time_reversed; cbn [explicit_terms implicit_terms implicit_inverse].
    rewrite !vneg_vneg. repeat split. f_equal. ring.
  Qed.

  (** a backward Euler step of the reversed equation is a step with -dt *)
  Theorem bfe_reversed_is_negative_dt (e : ImEx) dt u :
    backward_forward_euler (time_reversed e) dt u = backward_forward_euler e (- dt) u.
  Proof.
    unfold backward_forward_euler. cbn [time_reversed explicit_terms implicit_inverse].
    f_equal. f_equal. unfold vscal, vneg. rewrite map_map. apply map_ext. intros a. ring.
  Qed.
End AccumulateThm.
