(** The hand-written nodal column algebra of Model/PrimEq.v is the code of
    dinosaur/primitive_equations.py: every nodal expression equals its
    transcription regenerated from the AST on every run (Gen/PrimEqSrc.v,
    tools/translate/gen_primeq.py).  A changed formula, sign, factor, branch
    or argument order in the source changes the right-hand sides and these
    proofs fail. *)
From Dino Require Import Base.Ops Base.Sums Base.Ord Model.Sigma Model.Implicit Model.Filters Model.PrimEq Gen.PrimEqSrc.
Local Open Scope F_scope.

Section PrimEqSrcThm.
  Context {F : Type} {o : Ops F} {Fc : FieldC o}.
  Add Field FFpsrc : (field_c : FieldTh o).
  Variable c : @PEcfg F.
  Variable m : @Moist F.

  (** first syntactic equality; if the source was re-associated / commuted, ring after unfolding
      (conditionals and column-operator applications are atoms) *)
  Ltac src_eq :=
    intros; first
      [ reflexivity
      | (cbv beta zeta delta [u_dot_grad u_dot_grad_src t_omega_over_sigma_sp t_omega_over_sigma_sp_src g_part
                              combined_u combined_v combined_u_src combined_v_src combined_u_moist_src combined_v_moist_src
                              rt_dry rt_moist rt_cloud rt_moist_src rt_cloud_src moisture_contribution moisture_contribution_src
                              kinetic kinetic_src temp_vertical_tendency temp_vertical_tendency_src
                              hsa_nodal hsa_mu hsa_mv hsa_nodal_src hsa_u_src hsa_v_src
                              temp_adiabatic temp_adiabatic_src temp_adiabatic_moist temp_adiabatic_moist_src
                              g_explicit g_full_adiabatic log_pressure_tendency log_pressure_tendency_src];
         cbn [fnat fpow]; try ring) ].

  Lemma u_dot_grad_matches_source x k : u_dot_grad x k = u_dot_grad_src x k.
  Proof. src_eq. Qed.

  Lemma t_omega_matches_source Tf g vg k :
    t_omega_over_sigma_sp c Tf g vg k = t_omega_over_sigma_sp_src c Tf g vg k.
  Proof. src_eq. Qed.

  Lemma combined_matches_source inc_va x k :
    combined_u c inc_va x (rt_dry c x) k = combined_u_src c inc_va x k /\
    combined_v c inc_va x (rt_dry c x) k = combined_v_src c inc_va x k.
  Proof. split; src_eq. Qed.

  Lemma kinetic_matches_source x k : kinetic x k = kinetic_src x k.
  Proof.
    unfold kinetic, kinetic_src, two. cbn [fpow fnat].
    assert (H : (0 + 1 + 1 : F) = 1 + 1) by ring. rewrite H.
    f_equal. ring.
  Qed.

  Lemma temp_vertical_tendency_matches_source inc_va x k :
    temp_vertical_tendency c inc_va x k = temp_vertical_tendency_src c inc_va x k.
  Proof. unfold temp_vertical_tendency, temp_vertical_tendency_src. destruct (tref_nonuniform c); src_eq. Qed.

  Lemma hsa_matches_source x s k :
    hsa_nodal x s k = hsa_nodal_src x s k /\
    hsa_mu x s k = hsa_u_src x s k * n_sec2 x /\
    hsa_mv x s k = hsa_v_src x s k * n_sec2 x.
  Proof. split; [|split]; src_eq. Qed.

  Lemma temp_adiabatic_matches_source x k : temp_adiabatic c x k = temp_adiabatic_src c x k.
  Proof. src_eq. Qed.

  Lemma log_pressure_tendency_matches_source x :
    log_pressure_tendency c x = log_pressure_tendency_src c x.
  Proof. src_eq. Qed.

  Lemma rt_moist_matches_source x q k :
    moisture_contribution c m q k = moisture_contribution_src c m q k /\
    rt_moist c m x q k = rt_moist_src c x (moisture_contribution c m q) k.
  Proof. split; src_eq. Qed.

  Lemma rt_cloud_matches_source x q qc qi k :
    rt_cloud c m x q qc qi k = rt_cloud_src c x (moisture_contribution c m q) qc qi k.
  Proof. src_eq. Qed.

  Lemma combined_moist_matches_source inc_va x q rt k :
    combined_u c inc_va x rt k = combined_u_moist_src c inc_va x q rt k /\
    combined_v c inc_va x rt k = combined_v_moist_src c inc_va x q rt k.
  Proof. split; src_eq. Qed.

  Lemma temp_adiabatic_moist_matches_source x q k :
    temp_adiabatic_moist c m x q k = temp_adiabatic_moist_src c m x q k.
  Proof. src_eq. Qed.
End PrimEqSrcThm.

Lemma gen_primeq_complete : gen_primeq_ok = true.
Proof. reflexivity. Qed.

(** all of the above as one statement (re-exported by the properties that reason about Model/PrimEq.v) *)
Lemma primeq_model_is_source {F : Type} {o : Ops F} {Fc : FieldC o} (c : @PEcfg F) (m : @Moist F)
    (inc_va : bool) (x : @NCol F) (Tf g vg s q qc qi rt : nat -> F) (k : nat) :
  u_dot_grad x k = u_dot_grad_src x k /\
  t_omega_over_sigma_sp c Tf g vg k = t_omega_over_sigma_sp_src c Tf g vg k /\
  combined_u c inc_va x (rt_dry c x) k = combined_u_src c inc_va x k /\
  combined_v c inc_va x (rt_dry c x) k = combined_v_src c inc_va x k /\
  kinetic x k = kinetic_src x k /\
  temp_vertical_tendency c inc_va x k = temp_vertical_tendency_src c inc_va x k /\
  hsa_nodal x s k = hsa_nodal_src x s k /\
  hsa_mu x s k = hsa_u_src x s k * n_sec2 x /\
  hsa_mv x s k = hsa_v_src x s k * n_sec2 x /\
  temp_adiabatic c x k = temp_adiabatic_src c x k /\
  log_pressure_tendency c x = log_pressure_tendency_src c x /\
  moisture_contribution c m q k = moisture_contribution_src c m q k /\
  rt_moist c m x q k = rt_moist_src c x (moisture_contribution c m q) k /\
  rt_cloud c m x q qc qi k = rt_cloud_src c x (moisture_contribution c m q) qc qi k /\
  combined_u c inc_va x rt k = combined_u_moist_src c inc_va x q rt k /\
  combined_v c inc_va x rt k = combined_v_moist_src c inc_va x q rt k /\
  temp_adiabatic_moist c m x q k = temp_adiabatic_moist_src c m x q k.
Proof.
  split; [apply u_dot_grad_matches_source|].
  split; [apply t_omega_matches_source|].
  split; [apply (combined_matches_source c inc_va x k)|].
  split; [apply (combined_matches_source c inc_va x k)|].
  split; [apply kinetic_matches_source|].
  split; [apply temp_vertical_tendency_matches_source|].
  split; [apply (hsa_matches_source x s k)|].
  split; [apply (hsa_matches_source x s k)|].
  split; [apply (hsa_matches_source x s k)|].
  split; [apply temp_adiabatic_matches_source|].
  split; [apply log_pressure_tendency_matches_source|].
  split; [apply (rt_moist_matches_source c m x q k)|].
  split; [apply (rt_moist_matches_source c m x q k)|].
  split; [apply rt_cloud_matches_source|].
  split; [apply (combined_moist_matches_source c inc_va x q rt k)|].
  split; [apply (combined_moist_matches_source c inc_va x q rt k)|].
  apply temp_adiabatic_moist_matches_source.
Qed.
