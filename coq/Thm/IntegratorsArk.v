(** C06: the low-storage 2N + Crank-Nicolson step function is the additive
    Runge-Kutta step of its Butcher form ([lowstorage_to_butcher]); reductions of the
    additive RK step (hence of the imex interpreter) to explicit RK / DIRK.
    Generic: any field of scalars, any module, arbitrary F and G. *)
From Dino Require Import Base.Ops Base.Sums Model.Integrators.
From Coq Require Import Lia.
Local Open Scope F_scope.

Class ModuleC {F V : Type} (o : Ops F) (vo : VOps F V) : Prop := {
  vadd_comm : forall x y : V, vadd x y = vadd y x;
  vadd_assoc : forall x y z : V, vadd (vadd x y) z = vadd x (vadd y z);
  vadd_0_r : forall x : V, vadd x vzero = x;
  vscal_add_r : forall (c : F) (x y : V), vscal c (vadd x y) = vadd (vscal c x) (vscal c y);
  vscal_add_l : forall (a b : F) (x : V), vscal (a + b) x = vadd (vscal a x) (vscal b x);
  vscal_mul : forall (a b : F) (x : V), vscal (a * b) x = vscal a (vscal b x);
  vscal_1 : forall x : V, vscal 1 x = x;
  vscal_0_l : forall x : V, vscal 0 x = vzero }.

Section Module.
  Context {F : Type} {o : Ops F} {Fc : FieldC o} {V : Type} {vo : VOps F V} {Mc : ModuleC o vo}.
  Add Field FFm : (field_c : FieldTh o).

  Lemma vscal_0_r (c : F) : vscal c (vzero : V) = vzero.
  Proof.
    rewrite <- (vscal_0_l (vzero : V)) at 1. rewrite <- vscal_mul.
    replace (c * 0) with (0 : F) by ring. apply vscal_0_l.
  Qed.
  Lemma vadd_0_l (x : V) : vadd vzero x = x.
  Proof. rewrite vadd_comm. apply vadd_0_r. Qed.

  (** ** reflexive decision of equalities between linear combinations of atoms *)
  Inductive mexp : Type :=
  | MAtom (n : nat) | MAdd (a b : mexp) | MScal (c : F) (a : mexp) | MZero.
  Fixpoint meval (env : nat -> V) (e : mexp) : V :=
    match e with
    | MAtom n => env n
    | MAdd a b => vadd (meval env a) (meval env b)
    | MScal c a => vscal c (meval env a)
    | MZero => vzero
    end.
  Fixpoint mcoef (e : mexp) (n : nat) : F :=
    match e with
    | MAtom m => if Nat.eqb m n then 1 else 0
    | MAdd a b => mcoef a n + mcoef b n
    | MScal c a => c * mcoef a n
    | MZero => 0
    end.
  Fixpoint mbound (e : mexp) (N : nat) : bool :=
    match e with
    | MAtom m => Nat.ltb m N
    | MAdd a b => mbound a N && mbound b N
    | MScal _ a => mbound a N
    | MZero => true
    end.
  Fixpoint msum (N : nat) (f : nat -> V) : V :=
    match N with O => vzero | S k => vadd (msum k f) (f k) end.

  Lemma msum_ext N (f g : nat -> V) : (forall n, (n < N)%nat -> f n = g n) -> msum N f = msum N g.
  Proof. induction N as [|N IH]; intros H; cbn; [reflexivity|]. rewrite IH, H; auto. Qed.
  Lemma msum_add N (f g : nat -> V) :
    msum N (fun n => vadd (f n) (g n)) = vadd (msum N f) (msum N g).
  Proof.
    induction N as [|N IH]; cbn; [now rewrite vadd_0_r|]. rewrite IH.
    rewrite !vadd_assoc. f_equal. rewrite <- !vadd_assoc. f_equal. apply vadd_comm.
  Qed.
  Lemma msum_scal N c (f : nat -> V) : msum N (fun n => vscal c (f n)) = vscal c (msum N f).
  Proof. induction N as [|N IH]; cbn; [now rewrite vscal_0_r|]. now rewrite IH, vscal_add_r. Qed.
  Lemma msum_zero N (f : nat -> V) : (forall n, (n < N)%nat -> f n = vzero) -> msum N f = vzero.
  Proof. induction N as [|N IH]; intros H; cbn; [reflexivity|]. rewrite IH, H, ?vadd_0_r; auto. Qed.
  Lemma msum_delta N m (env : nat -> V) : (m < N)%nat ->
    msum N (fun n => vscal (if Nat.eqb m n then 1 else 0) (env n)) = env m.
  Proof.
    induction N as [|N IH]; intros Hm; [lia|]. cbn.
    destruct (Nat.eq_dec m N) as [->|Hne].
    - rewrite Nat.eqb_refl, vscal_1, msum_zero, vadd_0_l; [reflexivity|].
      intros n Hn. destruct (Nat.eqb_spec N n); [lia|apply vscal_0_l].
    - rewrite IH by lia. destruct (Nat.eqb_spec m N); [lia|]. now rewrite vscal_0_l, vadd_0_r.
  Qed.

  Lemma meval_sum env e N : mbound e N = true ->
    meval env e = msum N (fun n => vscal (mcoef e n) (env n)).
  Proof.
    induction e as [m|a IHa b IHb|c a IHa|]; cbn [meval mcoef mbound]; intros Hb.
    - apply Nat.ltb_lt in Hb. now rewrite msum_delta.
    - apply andb_prop in Hb. destruct Hb as [Ha Hb]. rewrite IHa, IHb by assumption.
      rewrite <- msum_add. apply msum_ext. intros n _. now rewrite vscal_add_l.
    - rewrite IHa by assumption. rewrite <- msum_scal. apply msum_ext. intros n _. now rewrite vscal_mul.
    - symmetry. apply msum_zero. intros n _. apply vscal_0_l.
  Qed.

  Theorem module_eq env e1 e2 N : mbound e1 N = true -> mbound e2 N = true ->
    (forall n, (n < N)%nat -> mcoef e1 n = mcoef e2 n) -> meval env e1 = meval env e2.
  Proof.
    intros H1 H2 H. rewrite (meval_sum env e1 N H1), (meval_sum env e2 N H2).
    apply msum_ext. intros n Hn. now rewrite H.
  Qed.
End Module.

Ltac find_atom x atoms n :=
  match atoms with
  | ?h :: _ => let _ := match goal with _ => constr_eq h x end in constr:(n)
  | _ :: ?t => find_atom x t (S n)
  end.
Ltac reify_m F atoms t :=
  match t with
  | vadd ?a ?b => let ra := reify_m F atoms a in let rb := reify_m F atoms b in constr:(@MAdd F ra rb)
  | vscal ?c ?a => let ra := reify_m F atoms a in constr:(@MScal F c ra)
  | vzero => constr:(@MZero F)
  | _ => let n := find_atom t atoms O in constr:(@MAtom F n)
  end.
(** [module_eq_tac atoms]: the goal [a = b] between module expressions over the listed atoms. *)
Ltac module_eq_tac atoms :=
  match goal with
  | |- @eq ?V ?a ?b =>
      let inst := constr:(_ : VOps _ V) in
      match type of inst with
      | VOps ?F _ =>
          let ra := reify_m F atoms a in
          let rb := reify_m F atoms b in
          change (meval (fun n => nth n atoms vzero) ra = meval (fun n => nth n atoms vzero) rb);
          apply (module_eq _ _ _ (length atoms)); [reflexivity|reflexivity|];
          let n := fresh "n" in let Hn := fresh "Hn" in
          intros n Hn; cbn [length] in Hn;
          repeat (first [ lia | destruct n as [|n]; [cbn [mcoef Nat.eqb]; ring|] ])
      end
  end.
Tactic Notation "module_eq" constr(atoms) := module_eq_tac atoms.

Section Wsum.
  Context {F : Type} {o : Ops F} {Fc : FieldC o} {V : Type} {vo : VOps F V} {Mc : ModuleC o vo}.
  Add Field FFw : (field_c : FieldTh o).

  Lemma wsum_acc : forall cs (xs : list V) acc, wsum cs xs acc = vadd acc (wsum cs xs vzero).
  Proof.
    induction cs as [|c cs IH]; intros xs acc.
    - destruct xs; cbn; now rewrite vadd_0_r.
    - destruct xs as [|x xs]; cbn [wsum]; [now rewrite vadd_0_r|].
      rewrite (IH xs (vadd acc (vscal c x))), (IH xs (vadd vzero (vscal c x))).
      set (W := wsum cs xs vzero). module_eq [acc; x; W].
  Qed.

  Lemma wsum_snoc : forall cs (xs : list V) c x acc, length cs = length xs ->
    wsum (cs ++ [c]) (xs ++ [x]) acc = vadd (wsum cs xs acc) (vscal c x).
  Proof.
    induction cs as [|c0 cs IH]; intros xs c x acc Hl; destruct xs as [|x0 xs]; cbn in Hl; try discriminate.
    - reflexivity.
    - cbn [app wsum]. apply IH. lia.
  Qed.

  Lemma wsum_trunc : forall cs extra (xs : list V) acc, length cs = length xs ->
    wsum (cs ++ extra) xs acc = wsum cs xs acc.
  Proof.
    induction cs as [|c0 cs IH]; intros extra xs acc Hl; destruct xs as [|x0 xs]; cbn in Hl; try discriminate.
    - destruct extra; reflexivity.
    - cbn [app wsum]. apply IH. lia.
  Qed.

  Lemma wsum_map_scal_acc b : forall cs (xs : list V) acc,
    wsum (map (fmul b) cs) xs (vscal b acc) = vscal b (wsum cs xs acc).
  Proof.
    induction cs as [|c cs IH]; intros xs acc; [reflexivity|].
    destruct xs as [|x xs]; [reflexivity|]. cbn [map wsum].
    replace (vadd (vscal b acc) (vscal (b * c) x)) with (vscal b (vadd acc (vscal c x)))
      by (module_eq [acc; x]).
    apply IH.
  Qed.
  Lemma wsum_map_scal b cs (xs : list V) :
    wsum (map (fmul b) cs) xs vzero = vscal b (wsum cs xs vzero).
  Proof. rewrite <- wsum_map_scal_acc. now rewrite vscal_0_r. Qed.

  Lemma wsum_ladd_acc : forall c1 c2 (xs : list V) a1 a2, length c1 = length c2 ->
    wsum (ladd c1 c2) xs (vadd a1 a2) = vadd (wsum c1 xs a1) (wsum c2 xs a2).
  Proof.
    induction c1 as [|c c1 IH]; intros c2 xs a1 a2 Hl; destruct c2 as [|d c2]; cbn in Hl; try discriminate.
    - reflexivity.
    - destruct xs as [|x xs]; [reflexivity|]. unfold ladd. cbn [combine map fst snd wsum].
      replace (vadd (vadd a1 a2) (vscal (c + d) x)) with (vadd (vadd a1 (vscal c x)) (vadd a2 (vscal d x)))
        by (module_eq [a1; a2; x]).
      apply (IH c2 xs). lia.
  Qed.
  Lemma wsum_ladd c1 c2 (xs : list V) : length c1 = length c2 ->
    wsum (ladd c1 c2) xs vzero = vadd (wsum c1 xs vzero) (wsum c2 xs vzero).
  Proof. intros H. rewrite <- (wsum_ladd_acc c1 c2 xs vzero vzero H). now rewrite vadd_0_r. Qed.

  Lemma ladd_length (c1 c2 : list F) : length c1 = length c2 -> length (ladd c1 c2) = length c1.
  Proof. intros H. unfold ladd. rewrite map_length, combine_length, H. apply Nat.min_id. Qed.
  Lemma last_cons {A} (x : A) l d : last (x :: l) d = last l x.
  Proof.
    revert x d. induction l as [|y l IH]; intros x d; [reflexivity|].
    change (last (x :: y :: l) d) with (last (y :: l) d). now rewrite (IH y d), (IH y x).
  Qed.
End Wsum.

Section LsArk.
  Context {F : Type} {o : Ops F} {Fc : FieldC o} {V : Type} {vo : VOps F V} {Mc : ModuleC o vo}.
  Add Field FFl : (field_c : FieldTh o).
  Variable Fx G : V -> V.
  Variable Ginv : V -> F -> V.
  (** y = G_inv(x, eta) solves y = x + eta G(y), i.e. (1 - eta G) y = x *)
  Hypothesis Ginv_solves : forall x eta, Ginv x eta = vadd x (vscal eta (G (Ginv x eta))).
  Variable dt : F.
  Variable y0 : V.

  Lemma ls2b_acc : forall be ga al hc ue uprev ulast AE AI,
    ls2b_loop al be ga hc ue uprev ulast AE AI =
    (AE ++ fst (ls2b_loop al be ga hc ue uprev ulast [] []),
     AI ++ snd (ls2b_loop al be ga hc ue uprev ulast [] [])).
  Proof.
    induction be as [|b be IH]; intros ga al hc ue uprev ulast AE AI.
    - cbn. now rewrite !app_nil_r.
    - destruct ga as [|g ga]; [cbn; now rewrite !app_nil_r|].
      destruct al as [|a0 [|a1 al]]; try (cbn; now rewrite !app_nil_r).
      cbn [ls2b_loop]. cbv zeta.
      rewrite IH. rewrite (IH _ _ _ _ _ _ ([] ++ _) ([] ++ _)). cbn [fst snd app].
      now rewrite <- !app_assoc.
  Qed.

  (** the additive-RK value of the state reached after the stages run so far *)
  Definition lin (ue ui : list F) (fs gs : list V) : V :=
    vadd (vadd y0 (vscal dt (wsum ue fs vzero))) (vscal dt (wsum ui gs vzero)).

  Lemma ls_ark_base ue uprev ulast fsp gsp u :
    length ue = length fsp ->
    u = lin ue (uprev ++ [ulast]) fsp (gsp ++ [G u]) ->
    u = lin (ue ++ [0]) (uprev ++ [ulast]) (fsp ++ [Fx u]) (gsp ++ [G u]).
  Proof.
    intros Hl Hu. etransitivity; [exact Hu|]. unfold lin.
    rewrite (wsum_snoc ue fsp 0 (Fx u) vzero Hl).
    set (W1 := wsum ue fsp vzero). set (W3 := wsum (uprev ++ [ulast]) (gsp ++ [G u]) vzero).
    set (f := Fx u). module_eq [y0; W1; W3; f].
  Qed.

  Lemma ls_ark_loop : forall be ga al hc ue uprev ulast fsp gsp h u,
    length hc = length fsp -> length ue = length fsp -> length uprev = length fsp ->
    length gsp = length fsp ->
    h = wsum hc fsp vzero ->
    u = lin ue (uprev ++ [ulast]) fsp (gsp ++ [G u]) ->
    let rows := ls2b_loop al be ga hc ue uprev ulast [] [] in
    let st := ark_stages Fx G Ginv dt y0 (S (length fsp)) (fst rows) (snd rows)
                (fsp ++ [Fx u]) (gsp ++ [G u]) in
    ls_loop Fx G Ginv dt al be ga h u =
    lin (last (fst rows) ue ++ [0]) (last (snd rows) (uprev ++ [ulast])) (fst st) (snd st).
  Proof.
    induction be as [|b be IH]; intros ga al hc ue uprev ulast fsp gsp h u Lh Lu Lp Lg Hh Hu.
    - cbn. now apply ls_ark_base.
    - destruct ga as [|g ga]; [cbn; now apply ls_ark_base|].
      destruct al as [|a0 [|a1 al]]; try (cbn; now apply ls_ark_base).
      cbn [ls_loop ls2b_loop]. cbv zeta. rewrite ls2b_acc. cbn [app fst snd ark_stages]. cbv zeta.
      set (hc' := map (fmul b) hc ++ [1]).
      set (ue' := ladd (ue ++ [0]) (map (fmul g) hc')).
      set (mu' := half * (a1 - a0)).
      set (uprev' := uprev ++ [ulast + mu']).
      set (mu := half * dt * (a1 - a0)).
      set (f := Fx u). set (Gu := G u).
      set (h' := vadd f (vscal b h)).
      (* lengths *)
      assert (Lhc' : length hc' = S (length fsp)) by (unfold hc'; rewrite app_length, map_length; cbn; lia).
      assert (Lue' : length ue' = S (length fsp)).
      { unfold ue'. rewrite ladd_length; rewrite ?app_length, ?map_length; cbn; lia. }
      assert (Lup' : length uprev' = S (length fsp)) by (unfold uprev'; rewrite app_length; cbn; lia).
      assert (Lfs' : length (fsp ++ [f]) = S (length fsp)) by (rewrite app_length; cbn; lia).
      assert (Lgs' : length (gsp ++ [Gu]) = S (length fsp)) by (rewrite app_length; cbn; lia).
      (* the register h *)
      assert (Hh' : h' = wsum hc' (fsp ++ [f]) vzero).
      { unfold hc'. rewrite wsum_snoc by (rewrite map_length; lia). rewrite wsum_map_scal, <- Hh.
        unfold h'. module_eq [f; h]. }
      (* sums over the new rows *)
      set (W1 := wsum ue fsp vzero) in *. set (W2 := wsum uprev gsp vzero) in *.
      assert (Eu : u = vadd (vadd y0 (vscal dt W1)) (vscal dt (vadd W2 (vscal ulast Gu)))).
      { etransitivity; [exact Hu|]. unfold lin. rewrite wsum_snoc by lia. reflexivity. }
      assert (EE : wsum ue' (fsp ++ [f]) vzero = vadd (vadd W1 (vscal 0 f)) (vscal g h')).
      { unfold ue'. rewrite wsum_ladd by (rewrite !app_length, map_length; cbn; lia).
        rewrite wsum_snoc by lia. rewrite wsum_map_scal, <- Hh'. reflexivity. }
      assert (EI : wsum uprev' (gsp ++ [Gu]) vzero = vadd W2 (vscal (ulast + mu') Gu)).
      { unfold uprev'. rewrite wsum_snoc by lia. reflexivity. }
      (* the stage argument and the step size of the implicit solve agree *)
      assert (Earg : vadd (vadd y0 (vscal dt (wsum ue' (fsp ++ [f]) vzero)))
                          (vscal dt (wsum (uprev' ++ [mu']) (gsp ++ [Gu]) vzero))
                     = vadd (vadd u (vscal (g * dt) h')) (vscal mu Gu)).
      { rewrite wsum_trunc by lia. rewrite EE, EI. rewrite Eu at 1.
        unfold mu, mu'. module_eq [y0; W1; W2; Gu; h'; f]. }
      assert (Eeta : dt * nth (S (length fsp)) (uprev' ++ [mu']) 0 = mu).
      { rewrite app_nth2 by lia. rewrite Lup', Nat.sub_diag. cbn [nth]. unfold mu, mu'. ring. }
      rewrite Earg, Eeta.
      set (u' := Ginv (vadd (vadd u (vscal (g * dt) h')) (vscal mu Gu)) mu).
      rewrite !last_cons.
      (* invariant for the next stage *)
      assert (Hu' : u' = lin ue' (uprev' ++ [mu']) (fsp ++ [f]) ((gsp ++ [Gu]) ++ [G u'])).
      { unfold lin. rewrite (wsum_snoc uprev' (gsp ++ [Gu]) mu' (G u') vzero) by lia. rewrite EE, EI.
        unfold u' at 1. rewrite Ginv_solves. fold u'. rewrite Eu at 1.
        set (Gu' := G u'). unfold mu, mu'. module_eq [y0; W1; W2; Gu; h'; f; Gu']. }
      pose proof (IH ga (a1 :: al) hc' ue' uprev' mu' (fsp ++ [f]) (gsp ++ [Gu]) h' u'
                    ltac:(lia) ltac:(lia) ltac:(lia) ltac:(lia) Hh' Hu') as H.
      cbv zeta in H. rewrite Lfs' in H. exact H.
  Qed.

  (** The low-storage step equals the additive Runge-Kutta step with the Butcher
      arrays of [lowstorage_to_butcher]: every list of coefficients (any lengths). *)
  Theorem lowstorage_is_ark al be ga :
    ls_step Fx G Ginv dt al be ga y0 =
    (let '(ae, ai, bex, bim) := lowstorage_to_butcher al be ga in
     ark_step Fx G Ginv dt ae ai bex bim y0).
  Proof.
    unfold ls_step, lowstorage_to_butcher.
    assert (Hu0 : y0 = lin [] ([] ++ [0]) [] ([] ++ [G y0])).
    { unfold lin. cbn [app wsum]. set (g0 := G y0). module_eq [y0; g0]. }
    pose proof (ls_ark_loop be ga al [] [] [] 0 [] [] vzero y0 eq_refl eq_refl eq_refl eq_refl eq_refl Hu0) as H.
    cbv zeta in H. cbn [length app] in H.
    destruct be as [|b be]; [cbn; set (f0 := Fx y0); module_eq [y0; f0]|].
    destruct ga as [|g ga]; [cbn; set (f0 := Fx y0); module_eq [y0; f0]|].
    destruct al as [|a0 [|a1 al]]; try (cbn; set (f0 := Fx y0); module_eq [y0; f0]).
    remember (ls2b_loop (a0 :: a1 :: al) (b :: be) (g :: ga) [] [] [] 0 [] []) as rows eqn:E in *.
    assert (exists rE0 tE rI0 tI, rows = (rE0 :: tE, rI0 :: tI)) as (rE0 & tE & rI0 & tI & ER).
    { subst rows. cbn [ls2b_loop]. cbv zeta. rewrite ls2b_acc. cbn [app]. do 4 eexists. reflexivity. }
    rewrite H. clear H E. rewrite ER. cbn [fst snd]. rewrite !last_cons. unfold ark_step, lin.
    destruct (ark_stages Fx G Ginv dt y0 1 (rE0 :: tE) (rI0 :: tI) [Fx y0] [G y0]) as [fsA gsA].
    reflexivity.
  Qed.

  (** the two directly coded schemes and their hand-derived Butcher forms *)
  Theorem euler_is_ark :
    euler_step Fx Ginv dt y0 =
    (let '(ae, ai, bex, bim) := @euler_tableau F o in ark_step Fx G Ginv dt ae ai bex bim y0).
  Proof.
    unfold euler_step, euler_tableau, ark_step. cbn [ark_stages wsum nth app]. cbv zeta.
    set (f0 := Fx y0). set (g0 := G y0).
    replace (vadd (vadd y0 (vscal dt (vadd vzero (vscal 1 f0)))) (vscal dt (vadd vzero (vscal 0 g0))))
      with (vadd y0 (vscal dt f0)) by (module_eq [y0; f0; g0]).
    replace (dt * 1) with dt by ring.
    set (Y := Ginv (vadd y0 (vscal dt f0)) dt).
    assert (HY : Y = vadd (vadd y0 (vscal dt f0)) (vscal dt (G Y))) by (unfold Y at 1; apply Ginv_solves).
    set (f1 := Fx Y). set (g1 := G Y) in *.
    etransitivity; [exact HY|]. module_eq [y0; f0; g0; f1; g1].
  Qed.

  Theorem cn_rk2_is_ark :
    cn_rk2_step Fx G Ginv dt y0 =
    (let '(ae, ai, bex, bim) := @cn_rk2_tableau F o in ark_step Fx G Ginv dt ae ai bex bim y0).
  Proof.
    unfold cn_rk2_step, cn_rk2_tableau, ark_step. cbn [ark_stages wsum nth app]. cbv zeta.
    set (f0 := Fx y0). set (g0 := G y0). set (hf := @half F o).
    replace (dt * hf) with (hf * dt) by ring.
    replace (vadd (vadd y0 (vscal dt (vadd vzero (vscal 1 f0)))) (vscal dt (vadd vzero (vscal hf g0))))
      with (vadd (vadd y0 (vscal (hf * dt) g0)) (vscal dt f0)) by (module_eq [y0; f0; g0]).
    set (Y1 := Ginv (vadd (vadd y0 (vscal (hf * dt) g0)) (vscal dt f0)) (hf * dt)).
    set (f1 := Fx Y1). set (g1 := G Y1).
    replace (vadd (vadd y0 (vscal dt (vadd (vadd vzero (vscal hf f0)) (vscal hf f1))))
                  (vscal dt (vadd (vadd vzero (vscal hf g0)) (vscal 0 g1))))
      with (vadd (vadd y0 (vscal (hf * dt) g0)) (vscal dt (vscal hf (vadd f1 f0))))
      by (module_eq [y0; f0; g0; f1; g1]).
    set (Y2 := Ginv (vadd (vadd y0 (vscal (hf * dt) g0)) (vscal dt (vscal hf (vadd f1 f0)))) (hf * dt)).
    assert (HY : Y2 = vadd (vadd (vadd y0 (vscal (hf * dt) g0)) (vscal dt (vscal hf (vadd f1 f0))))
                           (vscal (hf * dt) (G Y2))) by (unfold Y2 at 1; apply Ginv_solves).
    set (f2 := Fx Y2). set (g2 := G Y2) in *.
    etransitivity; [exact HY|]. module_eq [y0; f0; g0; f1; g1; f2; g2].
  Qed.
End LsArk.

(** * Reductions of the additive RK step (hence, by [imex_is_ark], of the
    interpreter of imex_runge_kutta) when one part vanishes. *)
Section ArkReduce.
  Context {F : Type} {o : Ops F} {V : Type} {vo : VOps F V}.
  Hypothesis vadd_0_r' : forall x : V, vadd x vzero = x.
  Hypothesis vscal_0_r' : forall c : F, vscal c (vzero : V) = vzero.
  Variable Fx G : V -> V.
  Variable Ginv : V -> F -> V.
  Variable dt : F.
  Variable y0 : V.

  Lemma wsum_zeros : forall cs (xs : list V) acc, Forall (eq vzero) xs -> wsum cs xs acc = acc.
  Proof.
    induction cs as [|c cs IH]; intros xs acc H; [destruct xs; reflexivity|].
    destruct xs as [|x xs]; [reflexivity|]. inversion H as [|? ? Hx Hxs]; subst.
    cbn [wsum]. rewrite vscal_0_r', vadd_0_r'. now apply IH.
  Qed.

  Lemma ark_stages_explicit : forall rex rim i fs gs,
    length rex = length rim -> Forall (eq vzero) gs ->
    fst (ark_stages Fx (fun _ => vzero) (fun x _ => x) dt y0 i rex rim fs gs) = erk_stages Fx dt y0 rex fs /\
    Forall (eq vzero) (snd (ark_stages Fx (fun _ => vzero) (fun x _ => x) dt y0 i rex rim fs gs)).
  Proof.
    induction rex as [|re rex IH]; intros rim i fs gs Hl Hg.
    - split; [reflexivity|destruct rim; exact Hg].
    - destruct rim as [|ri rim]; [cbn in Hl; discriminate|].
      cbn [ark_stages erk_stages]. cbv zeta.
      rewrite (wsum_zeros ri gs vzero Hg), vscal_0_r', vadd_0_r'.
      apply IH; [cbn in Hl; lia|]. apply Forall_app. split; [exact Hg|constructor; [reflexivity|constructor]].
  Qed.

  Theorem ark_reduces_to_explicit a_ex a_im b_ex b_im : length a_ex = length a_im ->
    ark_step Fx (fun _ => vzero) (fun x _ => x) dt a_ex a_im b_ex b_im y0 = erk_step Fx dt a_ex b_ex y0.
  Proof.
    intros Hl. unfold ark_step, erk_step.
    destruct (ark_stages_explicit a_ex a_im 1 [Fx y0] [vzero] Hl) as [H1 H2];
      [constructor; [reflexivity|constructor]|].
    destruct (ark_stages Fx (fun _ => vzero) (fun x _ => x) dt y0 1 a_ex a_im [Fx y0] [vzero]) as [fs gs].
    cbn [fst snd] in *. subst fs. now rewrite (wsum_zeros b_im gs vzero H2), vscal_0_r', vadd_0_r'.
  Qed.

  Lemma ark_stages_implicit : forall rex rim i fs gs,
    length rex = length rim -> Forall (eq vzero) fs ->
    snd (ark_stages (fun _ => vzero) G Ginv dt y0 i rex rim fs gs) = dirk_stages G Ginv dt y0 i rim gs /\
    Forall (eq vzero) (fst (ark_stages (fun _ => vzero) G Ginv dt y0 i rex rim fs gs)).
  Proof.
    induction rex as [|re rex IH]; intros rim i fs gs Hl Hf.
    - destruct rim; [|cbn in Hl; discriminate]. split; [reflexivity|exact Hf].
    - destruct rim as [|ri rim]; [cbn in Hl; discriminate|].
      cbn [ark_stages dirk_stages]. cbv zeta.
      rewrite (wsum_zeros re fs vzero Hf), vscal_0_r', vadd_0_r'.
      apply IH; [cbn in Hl; lia|]. apply Forall_app. split; [exact Hf|constructor; [reflexivity|constructor]].
  Qed.

  Theorem ark_reduces_to_implicit a_ex a_im b_ex b_im : length a_ex = length a_im ->
    ark_step (fun _ => vzero) G Ginv dt a_ex a_im b_ex b_im y0 = dirk_step G Ginv dt a_im b_im y0.
  Proof.
    intros Hl. unfold ark_step, dirk_step.
    destruct (ark_stages_implicit a_ex a_im 1 [vzero] [G y0] Hl) as [H1 H2];
      [constructor; [reflexivity|constructor]|].
    destruct (ark_stages (fun _ => vzero) G Ginv dt y0 1 a_ex a_im [vzero] [G y0]) as [fs gs].
    cbn [fst snd] in *. subst gs. now rewrite (wsum_zeros b_ex fs vzero H2), vscal_0_r', vadd_0_r'.
  Qed.
End ArkReduce.

Section Test.
  Context {F : Type} {o : Ops F} {Fc : FieldC o} {V : Type} {vo : VOps F V} {Mc : ModuleC o vo}.
  Add Field FFt : (field_c : FieldTh o).
  Goal forall (a b : F) (x y : V), vadd (vscal a (vadd x y)) (vscal b x) = vadd (vscal a y) (vscal (a + b) x).
  Proof. intros. module_eq [x; y]. Qed.
End Test.
