(** Theorems about the reference spherical-harmonic transform model (C01).
    Every statement: any field [F], any sizes, any tables, any input. *)
From Dino Require Import Base.Ops Base.Sums Model.SHT.
Local Open Scope F_scope.

(** *** integer facts about the modal axes and the mask *)
Lemma div2_double k : (2 * k / 2 = k)%nat.
Proof. rewrite Nat.mul_comm. apply Nat.div_mul. lia. Qed.
Lemma div2_double1 k : ((2 * k + 1) / 2 = k)%nat.
Proof. symmetry. apply (Nat.div_unique (2 * k + 1) 2 k 1); lia. Qed.

Lemma m_real_abs a : Z.abs (m_real a) = Z.of_nat (mabs_real a).
Proof.
  unfold m_real, mabs_real.
  destruct (Nat.even a) eqn:E.
  - apply Nat.even_spec in E. destruct E as [k ->].
    rewrite Z.abs_opp, Z.abs_eq by lia. f_equal.
    now rewrite div2_double, div2_double1.
  - rewrite Z.abs_eq by lia. reflexivity.
Qed.

Lemma mask_real_spec a l : mask_real a l = Nat.leb (mabs_real a) l.
Proof.
  unfold mask_real, l_real. rewrite m_real_abs.
  destruct (Nat.leb_spec (mabs_real a) l); [apply Z.leb_le | apply Z.leb_gt]; lia.
Qed.

Lemma mask_real_true a l : mask_real a l = true <-> (mabs_real a <= l)%nat.
Proof. rewrite mask_real_spec. apply Nat.leb_le. Qed.

Lemma mask_real_false a l : mask_real a l = false <-> (l < mabs_real a)%nat.
Proof. rewrite mask_real_spec. apply Nat.leb_gt. Qed.

Lemma mabs_real_even m : mabs_real (2 * m) = m.
Proof. unfold mabs_real. apply div2_double1. Qed.
Lemma mabs_real_odd m : (1 <= m)%nat -> mabs_real (2 * m - 1) = m.
Proof.
  intros H. unfold mabs_real. replace (2 * m - 1 + 1)%nat with (2 * m)%nat by lia. apply div2_double.
Qed.

Lemma nth_map_seq {A} (g : nat -> A) n i d : (i < n)%nat -> nth i (map g (seq 0 n)) d = g i.
Proof.
  intros Hi. rewrite (nth_indep _ d (g 0%nat)) by (now rewrite map_length, seq_length).
  rewrite map_nth, seq_nth; auto.
Qed.

Section Thm.
  Context {F : Type} {o : Ops F} {Fc : FieldC o}.
  Add Field FFsht : (field_c : FieldTh o).

  Lemma sh_memo2_ok n m (g : nat -> nat -> F) a j :
    (a < n)%nat -> (j < m)%nat -> sh_memo2 n m g a j = g a j.
  Proof.
    intros Ha Hj. unfold sh_memo2.
    rewrite (nth_map_seq (fun a => map (g a) (seq 0 m)) n a []) by assumption.
    now apply nth_map_seq.
  Qed.

  (** *** double sums *)
  Lemma sum2_ext n m (g h : nat -> nat -> F) :
    (forall i j, (i < n)%nat -> (j < m)%nat -> g i j = h i j) -> sum2 n m g = sum2 n m h.
  Proof. intros H. unfold sum2. apply sumn_ext; intros i Hi. apply sumn_ext; intros j Hj. auto. Qed.

  Lemma sum2_swap n m (g : nat -> nat -> F) : sum2 n m g = sum2 m n (fun j i => g i j).
  Proof. unfold sum2. apply sumn_exchange. Qed.

  Lemma sum2_scal_l n m c (g : nat -> nat -> F) : sum2 n m (fun i j => c * g i j) = c * sum2 n m g.
  Proof.
    unfold sum2. rewrite <- sumn_scal_l. apply sumn_ext; intros i _. apply sumn_scal_l.
  Qed.

  Lemma sum2_scal_r n m c (g : nat -> nat -> F) : sum2 n m (fun i j => g i j * c) = sum2 n m g * c.
  Proof.
    unfold sum2. rewrite <- sumn_scal_r. apply sumn_ext; intros i _. apply sumn_scal_r.
  Qed.

  Lemma sum2_zero n m (g : nat -> nat -> F) :
    (forall i j, (i < n)%nat -> (j < m)%nat -> g i j = 0) -> sum2 n m g = 0.
  Proof. intros H. unfold sum2. apply sumn_zero; intros i Hi. apply sumn_zero; intros j Hj. auto. Qed.

  (** exchange of two double sums (the whole "linearity" content of the transform) *)
  Lemma sum2_sum2_exchange n m k q (g : nat -> nat -> nat -> nat -> F) :
    sum2 n m (fun i j => sum2 k q (fun b l => g i j b l))
    = sum2 k q (fun b l => sum2 n m (fun i j => g i j b l)).
  Proof.
    unfold sum2.
    (* S_i S_j S_b S_l -> S_i S_b S_j S_l *)
    transitivity (sumn n (fun i => sumn k (fun b => sumn m (fun j => sumn q (fun l => g i j b l))))).
    { apply sumn_ext; intros i _.
      apply (sumn_exchange m k (fun j b => sumn q (fun l => g i j b l))). }
    (* -> S_b S_i S_j S_l *)
    rewrite (sumn_exchange n k (fun i b => sumn m (fun j => sumn q (fun l => g i j b l)))).
    apply sumn_ext; intros b _.
    (* S_i S_j S_l -> S_i S_l S_j -> S_l S_i S_j *)
    transitivity (sumn n (fun i => sumn q (fun l => sumn m (fun j => g i j b l)))).
    { apply sumn_ext; intros i _. apply (sumn_exchange m q (fun j l => g i j b l)). }
    apply (sumn_exchange n q (fun i l => sumn m (fun j => g i j b l))).
  Qed.

  Lemma sumn_trunc n n' (g : nat -> F) :
    (n <= n')%nat -> (forall i, (n <= i)%nat -> (i < n')%nat -> g i = 0) -> sumn n' g = sumn n g.
  Proof.
    intros Hn Hz. replace n' with (n + (n' - n))%nat by lia. rewrite sumn_split.
    rewrite (sumn_zero (n' - n)). { ring. }
    intros i Hi. apply Hz; lia.
  Qed.

  Lemma sumn_delta_r n k (g : nat -> F) :
    (k < n)%nat -> sumn n (fun i => delta i k * g i) = g k.
  Proof.
    intros Hk. rewrite <- (sumn_delta_l n k g Hk). apply sumn_ext; intros i _.
    unfold delta. rewrite (Nat.eqb_sym i k). reflexivity.
  Qed.

  (** *** the transforms as plain nested sums *)
  Section Tables.
    Variables (K L I J : nat).
    Variable f : nat -> nat -> F.
    Variable p : nat -> nat -> nat -> F.
    Variable w : nat -> F.

    Lemma synth_eq x i j : (j < J)%nat ->
      synth K L J f p x i j = sum2 K L (fun a l => ylm f p a l i j * x a l).
    Proof.
      intros Hj. unfold synth, inv_fourier, sum2. apply sumn_ext; intros a Ha.
      rewrite sh_memo2_ok by assumption. unfold inv_legendre, ylm.
      rewrite <- sumn_scal_l. apply sumn_ext; intros l _. ring.
    Qed.

    Lemma analysis_eq z a l : (a < K)%nat ->
      analysis K I J f p w z a l = sum2 I J (fun i j => (w j * ylm f p a l i j) * z i j).
    Proof.
      intros Ha. unfold analysis, fwd_legendre. rewrite sum2_swap. unfold sum2.
      apply sumn_ext; intros j Hj. rewrite sh_memo2_ok by assumption.
      unfold fwd_fourier. rewrite <- sumn_scal_l. apply sumn_ext; intros i Hi.
      rewrite sh_memo2_ok by assumption. unfold ylm. ring.
    Qed.

    (** synthesis and analysis only read their argument inside the index range *)
    Lemma synth_ext x x' i j : (j < J)%nat ->
      (forall a l, (a < K)%nat -> (l < L)%nat -> x a l = x' a l) ->
      synth K L J f p x i j = synth K L J f p x' i j.
    Proof.
      intros Hj H. rewrite !synth_eq by assumption. apply sum2_ext; intros a l Ha Hl.
      now rewrite H.
    Qed.

    Lemma analysis_ext z z' a l : (a < K)%nat ->
      (forall i j, (i < I)%nat -> (j < J)%nat -> z i j = z' i j) ->
      analysis K I J f p w z a l = analysis K I J f p w z' a l.
    Proof.
      intros Ha H. rewrite !analysis_eq by assumption. apply sum2_ext; intros i j Hi Hj.
      now rewrite H.
    Qed.

    (** linearity (used by the plugin's "basis + linearity" argument) *)
    Lemma synth_linear c x y i j : (j < J)%nat ->
      synth K L J f p (fun a l => c * x a l + y a l) i j
      = c * synth K L J f p x i j + synth K L J f p y i j.
    Proof.
      intros Hj. rewrite !synth_eq by assumption.
      rewrite <- sum2_scal_l. unfold sum2. rewrite <- sumn_add.
      apply sumn_ext; intros a _. rewrite <- sumn_add. apply sumn_ext; intros l _. ring.
    Qed.

    Lemma analysis_linear c z y a l : (a < K)%nat ->
      analysis K I J f p w (fun i j => c * z i j + y i j) a l
      = c * analysis K I J f p w z a l + analysis K I J f p w y a l.
    Proof.
      intros Ha. rewrite !analysis_eq by assumption.
      rewrite <- sum2_scal_l. unfold sum2. rewrite <- sumn_add.
      apply sumn_ext; intros i _. rewrite <- sumn_add. apply sumn_ext; intros j _. ring.
    Qed.

    (** *** sht_gram: analysis . synth is exactly the Gram operator of the tables *)
    Theorem sht_gram x a l : (a < K)%nat ->
      analysis K I J f p w (synth K L J f p x) a l
      = gram_apply K L (gram I J f p w) x a l.
    Proof.
      intros Ha. rewrite analysis_eq by assumption. unfold gram_apply.
      transitivity (sum2 I J (fun i j => sum2 K L (fun b l' =>
                      (w j * (ylm f p a l i j * ylm f p b l' i j)) * x b l'))).
      { apply sum2_ext; intros i j Hi Hj. rewrite synth_eq by assumption.
        rewrite <- sum2_scal_l. apply sum2_ext; intros b l' _ _. ring. }
      rewrite sum2_sum2_exchange. apply sum2_ext; intros b l' _ _.
      unfold gram. now rewrite sum2_scal_r.
    Qed.

    (** *** orthonormality hypotheses (table obligations) *)
    Variable wf : F.
    Variable wp : nat -> F.
    Variable mabs : nat -> nat.           (* |m| of modal row a *)

    Definition H_weights := forall j, (j < J)%nat -> w j = wf * wp j.
    Definition H_fourier_orth := forall a b, (a < K)%nat -> (b < K)%nat ->
      wf * sumn I (fun i => f i a * f i b) = delta a b.
    Definition H_legendre_orth := forall a l l', (a < K)%nat ->
      (mabs a <= l)%nat -> (l < L)%nat -> (mabs a <= l')%nat -> (l' < L)%nat ->
      sumn J (fun j => wp j * (p a j l * p a j l')) = delta l l'.
    Definition H_p_support := forall a j l, (a < K)%nat -> (j < J)%nat -> (l < L)%nat ->
      (l < mabs a)%nat -> p a j l = 0.

    Lemma gram_factor a l b l' : H_weights ->
      gram I J f p w a l b l'
      = (wf * sumn I (fun i => f i a * f i b)) * sumn J (fun j => wp j * (p a j l * p b j l')).
    Proof.
      intros Hw. unfold gram, sum2.
      transitivity (sumn I (fun i => (f i a * f i b) * (wf * sumn J (fun j => wp j * (p a j l * p b j l'))))).
      { apply sumn_ext; intros i _. rewrite <- sumn_scal_l, <- sumn_scal_l.
        apply sumn_ext; intros j Hj. rewrite (Hw j Hj). unfold ylm. ring. }
      rewrite sumn_scal_r. ring.
    Qed.

    (** orthonormality only up to the degree of exactness [D] of the latitude rule *)
    Definition H_legendre_orth_deg (D : nat) := forall a l l', (a < K)%nat ->
      (mabs a <= l)%nat -> (l < L)%nat -> (mabs a <= l')%nat -> (l' < L)%nat -> (l + l' <= D)%nat ->
      sumn J (fun j => wp j * (p a j l * p a j l')) = delta l l'.

    Lemma H_legendre_orth_any_deg D : H_legendre_orth -> H_legendre_orth_deg D.
    Proof. intros H a l l' Ha H1 H2 H3 H4 _. now apply H. Qed.

    (** the Legendre Gram block of row [a] is the identity on the triangle and 0 outside *)
    Lemma legendre_block D a l l' :
      H_legendre_orth_deg D -> H_p_support -> (a < K)%nat -> (l < L)%nat -> (l' < L)%nat ->
      (l + l' <= D)%nat ->
      sumn J (fun j => wp j * (p a j l * p a j l'))
      = if Nat.leb (mabs a) l then delta l l' else 0.
    Proof.
      intros Ho Hs Ha Hl Hl' HD.
      destruct (Nat.leb_spec (mabs a) l) as [Hal|Hal].
      - destruct (Nat.le_gt_cases (mabs a) l') as [Hal'|Hal'].
        + now apply Ho.
        + rewrite sumn_zero.
          * unfold delta. destruct (Nat.eqb_spec l l'); [lia|reflexivity].
          * intros j Hj. rewrite (Hs a j l') by assumption. ring.
      - apply sumn_zero. intros j Hj. rewrite (Hs a j l) by assumption. ring.
    Qed.

    (** *** sht_roundtrip, band-limited form: the rule is exact to degree [D], the
        input has no coefficients at l' >= Lb; every output entry with
        l + (Lb-1) <= D is returned exactly (masked) *)
    Theorem sht_roundtrip_bandlimited D Lb x a l :
      H_weights -> H_fourier_orth -> H_legendre_orth_deg D -> H_p_support ->
      (forall b l', (b < K)%nat -> (Lb <= l')%nat -> (l' < L)%nat -> x b l' = 0) ->
      (a < K)%nat -> (l < L)%nat -> (l + (Lb - 1) <= D)%nat ->
      analysis K I J f p w (synth K L J f p x) a l
      = if Nat.leb (mabs a) l then x a l else 0.
    Proof.
      intros Hw Hf Ho Hs Hx Ha Hl HD. rewrite sht_gram by assumption. unfold gram_apply, sum2.
      transitivity (sumn K (fun b => delta a b *
                      sumn L (fun l' => sumn J (fun j => wp j * (p a j l * p b j l')) * x b l'))).
      { apply sumn_ext; intros b Hb. rewrite <- sumn_scal_l. apply sumn_ext; intros l' _.
        rewrite gram_factor by assumption. rewrite (Hf a b Ha Hb). ring. }
      rewrite sumn_delta_l by assumption.
      transitivity (sumn L (fun l' => (if Nat.leb (mabs a) l then delta l l' else 0) * x a l')).
      { apply sumn_ext; intros l' Hl'.
        destruct (Nat.le_gt_cases Lb l') as [Hb|Hb].
        - rewrite (Hx a l') by assumption. ring.
        - rewrite (legendre_block D) by (auto; lia). reflexivity. }
      destruct (Nat.leb (mabs a) l).
      - now apply sumn_delta_l.
      - apply sumn_zero; intros; ring.
    Qed.

    (** *** sht_roundtrip *)
    Theorem sht_roundtrip x a l :
      H_weights -> H_fourier_orth -> H_legendre_orth -> H_p_support ->
      (a < K)%nat -> (l < L)%nat ->
      analysis K I J f p w (synth K L J f p x) a l
      = if Nat.leb (mabs a) l then x a l else 0.
    Proof.
      intros Hw Hf Ho Hs Ha Hl.
      apply (sht_roundtrip_bandlimited (2 * L) L); auto.
      - now apply H_legendre_orth_any_deg.
      - intros; lia.
      - lia.
    Qed.

    (** coefficients outside the triangle never influence the synthesis *)
    Theorem sht_masked_inert x i j :
      H_p_support -> (j < J)%nat ->
      synth K L J f p x i j
      = synth K L J f p (fun a l => if Nat.leb (mabs a) l then x a l else 0) i j.
    Proof.
      intros Hs Hj. rewrite !synth_eq by assumption. apply sum2_ext; intros a l Ha Hl.
      destruct (Nat.leb_spec (mabs a) l) as [H|H]; [reflexivity|].
      unfold ylm. rewrite (Hs a j l) by assumption. ring.
    Qed.

    (** *** sht_integral *)
    Theorem sht_integral_weak (r c0 c1 : F) x :
      H_weights ->
      (forall i, (i < I)%nat -> f i 0%nat = c1) ->                 (* H_f0 *)
      (forall j, (j < J)%nat -> p 0%nat j 0%nat = c0) ->           (* H_p00 *)
      c0 * c1 <> 0 ->
      (forall a, (a < K)%nat -> wf * sumn I (fun i => f i 0%nat * f i a) = delta 0 a) ->
      (forall l, (l < L)%nat -> sumn J (fun j => wp j * (p 0%nat j 0%nat * p 0%nat j l)) = delta 0 l) ->
      (0 < K)%nat -> (0 < L)%nat ->
      integrate I J w r (synth K L J f p x) = (r * r) * (1 / (c0 * c1)) * x 0%nat 0%nat.
    Proof.
      intros Hw Hf0 Hp0 Hc Hfo Hlo HK HL.
      assert (Hc0 : c0 <> 0) by (intro Z; apply Hc; rewrite Z; ring).
      assert (Hc1 : c1 <> 0) by (intro Z; apply Hc; rewrite Z; ring).
      (* integrate z = r^2/(c0 c1) * <Y00, z>_w *)
      assert (E : integrate I J w r (synth K L J f p x)
                  = (r * r) * (1 / (c0 * c1)) * analysis K I J f p w (synth K L J f p x) 0%nat 0%nat).
      { rewrite analysis_eq by assumption. unfold integrate.
        rewrite sum2_swap. unfold sum2. rewrite <- sumn_scal_l.
        apply sumn_ext; intros j Hj. rewrite <- !sumn_scal_l.
        apply sumn_ext; intros i Hi. unfold ylm. rewrite (Hf0 i Hi), (Hp0 j Hj). field; auto. }
      rewrite E. f_equal. rewrite sht_gram by assumption. unfold gram_apply, sum2.
      transitivity (sumn K (fun b => delta 0 b * sumn L (fun l' => delta 0 l' * x b l'))).
      { apply sumn_ext; intros b Hb. rewrite <- sumn_scal_l. apply sumn_ext; intros l' Hl'.
        rewrite gram_factor by assumption. rewrite (Hfo b Hb).
        destruct (Nat.eqb_spec 0 b) as [<-|Hne].
        - rewrite (Hlo l' Hl'). ring.
        - unfold delta. destruct (Nat.eqb_spec 0 b); [lia|]. ring. }
      rewrite sumn_delta_l by assumption. now apply sumn_delta_l.
    Qed.

    Theorem sht_integral (r c0 c1 : F) x :
      H_weights -> H_fourier_orth -> H_legendre_orth -> H_p_support ->
      mabs 0%nat = 0%nat ->
      (forall i, (i < I)%nat -> f i 0%nat = c1) ->
      (forall j, (j < J)%nat -> p 0%nat j 0%nat = c0) ->
      c0 * c1 <> 0 -> (0 < K)%nat -> (0 < L)%nat ->
      integrate I J w r (synth K L J f p x) = (r * r) * (1 / (c0 * c1)) * x 0%nat 0%nat.
    Proof.
      intros Hw Hf Ho Hs Hm0 Hf0 Hp0 Hc HK HL.
      apply sht_integral_weak; auto.
      intros l Hl. apply Ho; auto; rewrite Hm0; lia.
    Qed.
  End Tables.

  (** *** sht_batch: leading axes act independently (slice n of the output is the
      transform of slice n of the input and depends on no other slice) *)
  Theorem sht_batch_synth K L J f p (x x' : nat -> nat -> nat -> F) n i j :
    (j < J)%nat ->
    (forall a l, (a < K)%nat -> (l < L)%nat -> x n a l = x' n a l) ->
    synth_batch K L J f p x n i j = synth K L J f p (x' n) i j.
  Proof. intros Hj H. unfold synth_batch. now apply synth_ext. Qed.

  Theorem sht_batch_analysis K I J f p w (z z' : nat -> nat -> nat -> F) n a l :
    (a < K)%nat ->
    (forall i j, (i < I)%nat -> (j < J)%nat -> z n i j = z' n i j) ->
    analysis_batch K I J f p w z n a l = analysis K I J f p w (z' n) a l.
  Proof. intros Ha H. unfold analysis_batch. now apply analysis_ext. Qed.

End Thm.
