(** The hand-written filter model (Model/Filters.v) is the formula of the source:
    every exponent / strength expression equals its transcription regenerated from
    dinosaur/filtering.py and dinosaur/time_integration.py on every run
    (Gen/FiltersSrc.v, tools/translate/gen_filters.py).  A changed formula in the
    source changes the right-hand sides and these proofs fail. *)
From Dino Require Import Base.Ops Base.Ord Model.Filters Gen.FiltersSrc.
Local Open Scope F_scope.

Section FiltersSrcThm.
  Context {F : Type} {o : Ops F} {Fc : FieldC o}.
  Add Field FFsrc : (field_c : FieldTh o).

  Ltac src_eq := intros; first [ reflexivity | (cbv delta [exp_exponent exp_exponent_src hd_exponent hd_exponent_src
                     exp_step_att_src exp_leapfrog_att_src hd_step_scale_src ra_value ra_value_src ftwo] ; cbn [fnat]; ring) ].

  Lemma exp_exponent_matches_source (a c : F) (p lmax l : nat) :
    exp_exponent a c p lmax l = exp_exponent_src a c p (fnat l) (fnat lmax).
  Proof. src_eq. Qed.

  Lemma hd_exponent_matches_source (scale r : F) (order l : nat) :
    hd_exponent scale r order l = hd_exponent_src scale (lap_eig r l) order.
  Proof. src_eq. Qed.

  Lemma exp_step_att_matches_source (dt : F) (tau : arr) idx :
    snd (exp_step_att dt tau) idx = exp_step_att_src dt (snd tau idx) /\
    snd (exp_step_att dt tau) idx = exp_leapfrog_att_src dt (snd tau idx).
  Proof. split; src_eq. Qed.

  Lemma hd_step_scale_matches_source L lw (dt : F) (tau : arr) (r : F) order idx :
    snd (hd_step_scale L lw dt tau r order) idx
    = hd_step_scale_src dt (snd tau idx) (max_abs_eig L lw r) order.
  Proof. src_eq. Qed.

  Lemma ra_value_matches_source (r p c f : F) : ra_value r p c f = ra_value_src r p c f.
  Proof. src_eq. Qed.
End FiltersSrcThm.

(** the documented defaults and the adapters each step filter is wrapped in *)
Lemma filter_defaults_documented :
  (default_exp_attenuation == 16)%Q /\ (default_exp_order == 18)%Q /\ (default_exp_cutoff == 0)%Q /\
  (default_hd_order == 1)%Q /\ (default_hd_step_order == 1)%Q /\
  (default_step_tau == 10938 # 1000000)%Q /\ (default_lf_tau == default_step_tau)%Q /\
  (default_step_order == 18)%Q /\ (default_lf_order == 18)%Q /\
  (default_step_cutoff == 0)%Q /\ (default_lf_cutoff == 0)%Q.
Proof. repeat split; vm_compute; reflexivity. Qed.

Lemma filter_adapters_as_modelled :
  exp_step_adapter_is_runge_kutta = true /\ exp_leapfrog_adapter_is_leapfrog = true.
Proof. split; reflexivity. Qed.

Lemma gen_filters_complete : gen_filters_ok = true.
Proof. reflexivity. Qed.
