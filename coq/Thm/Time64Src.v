(** [Model.Time64.snap_ms] (the binary64 snap to milliseconds of
    PrimitiveEquationsSpecs.dimensionalize_timedelta64) is the expression of the source,
    regenerated from the AST on every run (Gen/Time64Src.v, tools/translate/gen_time64.py). *)
From Coq Require Import ZArith PrimFloat.
From Dino Require Import Model.Time64 Gen.Time64Src.

Lemma snap_ms_matches_source (dt : float) : snap_ms dt = snap_ms_src dt.
Proof. reflexivity. Qed.

Lemma gen_time64_complete : gen_time64_ok = true.
Proof. reflexivity. Qed.
