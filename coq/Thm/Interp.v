(** Proofs about Model/Interp.v: for every ordered field, every strictly
    increasing node list of length >= 2, all data and all queries. *)
From Dino Require Import Base.Ops Base.Sums Base.Ord Model.Interp.
Local Open Scope F_scope.

Section Order.
  Context {F : Type} {o : Ops F} {Oc : OrdFieldC o}.
  Add Field FFi : (field_c : FieldTh o).

  (** strictly increasing node list of length [n] *)
  Definition incr (n : nat) (X : nat -> F) : Prop :=
    forall i, (S i < n)%nat -> flt (X i) (X (S i)).

  Lemma fle_flt_false x y : fle x y -> flt y x -> False.
  Proof. intros H1 H2. apply (proj1 (flt_iff _ _) H2). exact H1. Qed.

  Lemma fltb_false_le x y : fltb x y = false <-> fle y x.
  Proof. unfold fltb, fle. destruct (fleb y x); cbn; split; intros; auto; discriminate. Qed.

  Lemma incr_lt n X : incr n X -> forall j i, (i < j)%nat -> (j < n)%nat -> flt (X i) (X j).
  Proof.
    intros H j. induction j as [|j IH]; intros i Hij Hj; [lia|].
    destruct (Nat.eq_dec i j) as [->|Hne].
    - apply H; lia.
    - eapply flt_trans; [apply IH; lia|apply H; lia].
  Qed.

  Lemma incr_le n X : incr n X -> forall i j, (i <= j)%nat -> (j < n)%nat -> fle (X i) (X j).
  Proof.
    intros H i j Hij Hj. destruct (Nat.eq_dec i j) as [->|Hne]; [apply fle_refl|].
    apply flt_le. apply (incr_lt n X H); lia.
  Qed.

  Lemma incr_neq n X : incr n X -> forall i, (S i < n)%nat -> X (S i) - X i <> 0.
  Proof.
    intros H i Hi. apply fpos_neq0. apply (proj1 (flt_sub _ _)). now apply H.
  Qed.

  Lemma idx_lt n X x a b :
    incr n X -> (a < n)%nat -> (b < n)%nat -> fle (X a) x -> flt x (X b) -> (a < b)%nat.
  Proof.
    intros H Ha Hb H1 H2. destruct (le_lt_dec b a) as [Hba|]; [exfalso|assumption].
    apply (fle_flt_false (X b) x); [|exact H2].
    eapply fle_trans; [apply (incr_le n X H b a); lia|exact H1].
  Qed.

  (** [searchsorted(side='right')] on a sorted list: everything before the
      returned index is <= x, everything from it on is > x. *)
  Lemma ssr_spec n X x :
    incr n X -> forall m, (m <= n)%nat ->
    (ssr m X x <= m)%nat /\
    (forall i, (i < ssr m X x)%nat -> fle (X i) x) /\
    (forall i, (ssr m X x <= i)%nat -> (i < m)%nat -> flt x (X i)).
  Proof.
    intros Hinc m. induction m as [|m IH]; intros Hm.
    - cbn. repeat split; intros; lia.
    - destruct (IH ltac:(lia)) as (Hu & Hlo & Hhi). cbn [ssr].
      destruct (fleb (X m) x) eqn:E.
      + assert (Hum : ssr m X x = m).
        { destruct (Nat.eq_dec (ssr m X x) m) as [|Hne]; auto. exfalso.
          assert (H1 : flt x (X (ssr m X x))) by (apply Hhi; lia).
          assert (H2 : fle (X (ssr m X x)) (X m)) by (apply (incr_le n X Hinc); lia).
          apply (fle_flt_false _ _ (fle_trans _ _ _ H2 E) H1). }
        rewrite Hum. split; [lia|]. split.
        * intros i Hi. eapply fle_trans; [apply (incr_le n X Hinc i m); lia|exact E].
        * intros; lia.
      + rewrite Nat.add_0_r. split; [lia|]. split; auto.
        intros i H1 H2. destruct (Nat.eq_dec i m) as [->|Hne]; [exact E|apply Hhi; lia].
  Qed.

  Section Bracket.
    Variables (n : nat) (X : nat -> F) (x : F).
    Hypothesis Hn : (2 <= n)%nat.
    Hypothesis Hinc : incr n X.

    Lemma bracket_range : (1 <= bracket n X x)%nat /\ (bracket n X x <= n - 1)%nat.
    Proof. unfold bracket, clipn. lia. Qed.

    Lemma bracket_below : flt x (X 0%nat) -> bracket n X x = 1%nat.
    Proof.
      intros H. destruct (ssr_spec n X x Hinc n (le_n n)) as (Hu & Hlo & Hhi).
      assert (ssr n X x = 0)%nat.
      { destruct (ssr n X x) as [|u] eqn:E; auto. exfalso.
        apply (fle_flt_false (X 0%nat) x); auto. apply Hlo. lia. }
      unfold bracket, clipn. rewrite H0. lia.
    Qed.

    Lemma bracket_lo : fle (X 0%nat) x -> fle (X (bracket n X x - 1)%nat) x.
    Proof.
      intros H. destruct (ssr_spec n X x Hinc n (le_n n)) as (Hu & Hlo & Hhi).
      assert (1 <= ssr n X x)%nat.
      { destruct (ssr n X x) as [|u] eqn:E; [|lia]. exfalso.
        apply (fle_flt_false (X 0%nat) x); auto. apply Hhi; lia. }
      apply Hlo. unfold bracket, clipn. lia.
    Qed.

    Lemma bracket_hi : flt x (X (n - 1)%nat) -> flt x (X (bracket n X x)).
    Proof.
      intros H. destruct (ssr_spec n X x Hinc n (le_n n)) as (Hu & Hlo & Hhi).
      assert (ssr n X x <= n - 1)%nat.
      { destruct (le_lt_dec (ssr n X x) (n - 1)); auto. exfalso.
        apply (fle_flt_false (X (n - 1)%nat) x); auto. }
      apply Hhi; unfold bracket, clipn; lia.
    Qed.

    Lemma bracket_above : fle (X (n - 1)%nat) x -> bracket n X x = (n - 1)%nat.
    Proof.
      intros H. destruct (ssr_spec n X x Hinc n (le_n n)) as (Hu & Hlo & Hhi).
      assert (ssr n X x = n).
      { destruct (le_lt_dec n (ssr n X x)); [lia|]. exfalso.
        apply (fle_flt_false (X (n - 1)%nat) x); auto. apply Hhi; lia. }
      unfold bracket, clipn. lia.
    Qed.

    Lemma bracket_half_open j :
      (S j < n)%nat -> fle (X j) x -> flt x (X (S j)) -> bracket n X x = S j.
    Proof.
      intros Hj H1 H2. destruct bracket_range as [R1 R2].
      assert (H0 : fle (X 0%nat) x).
      { eapply fle_trans; [apply (incr_le n X Hinc 0 j); lia|exact H1]. }
      assert (Hl : flt x (X (n - 1)%nat)).
      { eapply flt_le_trans; [exact H2|apply (incr_le n X Hinc); lia]. }
      pose proof (bracket_lo H0) as L. pose proof (bracket_hi Hl) as U.
      assert (j < bracket n X x)%nat by (apply (idx_lt n X x); auto; lia).
      assert (bracket n X x - 1 < S j)%nat by (apply (idx_lt n X x); auto; lia).
      lia.
    Qed.

    Lemma bracket_lt_1 : flt x (X 1%nat) -> bracket n X x = 1%nat.
    Proof.
      intros H. destruct (fle_or_lt (X 0%nat) x) as [H0|H0].
      - apply bracket_half_open; auto.
      - now apply bracket_below.
    Qed.

    Lemma bracket_ge_last2 : fle (X (n - 2)%nat) x -> bracket n X x = (n - 1)%nat.
    Proof.
      intros H. destruct (fle_or_lt (X (n - 1)%nat) x) as [H0|H0].
      - now apply bracket_above.
      - replace (n - 1)%nat with (S (n - 2)) in * by lia.
        apply bracket_half_open; auto. lia.
    Qed.

    (** every query is below the first node, in a half-open cell, or at/above the last node *)
    Lemma locate :
      flt x (X 0%nat) \/
      (exists j, (S j < n)%nat /\ fle (X j) x /\ flt x (X (S j))) \/
      fle (X (n - 1)%nat) x.
    Proof.
      destruct (fle_or_lt (X 0%nat) x) as [H0|H0]; [|now left].
      destruct (fle_or_lt (X (n - 1)%nat) x) as [H1|H1]; [now right; right|].
      right; left. destruct bracket_range as [R1 R2].
      exists (bracket n X x - 1)%nat.
      replace (S (bracket n X x - 1)) with (bracket n X x) by lia.
      split; [lia|]. split; [now apply bracket_lo|now apply bracket_hi].
    Qed.
  End Bracket.
End Order.

Section Thms.
  Context {F : Type} {o : Ops F} {Oc : OrdFieldC o}.
  Add Field FFj : (field_c : FieldTh o).

  Lemma fle_0_add p q : fle 0 p -> fle 0 q -> fle 0 (p + q).
  Proof.
    intros Hp Hq. pose proof (fle_add2 0 p 0 q Hp Hq) as H.
    replace (0 + 0) with (0 : F) in H by ring. exact H.
  Qed.

  Lemma convex_between (a b w : F) :
    fle 0 w -> fle 0 (1 - w) ->
    fle (fmin a b) (a + w * (b - a)) /\ fle (a + w * (b - a)) (fmax a b).
  Proof.
    intros H0 H1. split.
    - apply fle_sub_2.
      replace (a + w * (b - a) - fmin a b)
        with ((1 - w) * (a - fmin a b) + w * (b - fmin a b)) by ring.
      apply fle_0_add; apply fle_mul_pos; auto; apply fle_sub_1;
        [apply fmin_le_l|apply fmin_le_r].
    - apply fle_sub_2.
      replace (fmax a b - (a + w * (b - a)))
        with ((1 - w) * (fmax a b - a) + w * (fmax a b - b)) by ring.
      apply fle_0_add; apply fle_mul_pos; auto; apply fle_sub_1;
        [apply fmax_ge_l|apply fmax_ge_r].
  Qed.

  Lemma indb_delta i k : @indb F o (Nat.eqb i k) = delta k i.
  Proof. unfold indb, delta. now rewrite Nat.eqb_sym. Qed.

  Lemma sumn_pick n k (g : nat -> F) :
    (k < n)%nat -> sumn n (fun i => indb (Nat.eqb i k) * g i) = g k.
  Proof.
    intros Hk. rewrite <- (sumn_delta_l n k g Hk). apply sumn_ext.
    intros i _. now rewrite indb_delta.
  Qed.

  Lemma sumn_pick2 n a b (p q g : nat -> F) :
    (a < n)%nat -> (b < n)%nat ->
    sumn n (fun i => (p i * indb (Nat.eqb i a) + q i * indb (Nat.eqb i b)) * g i)
    = p a * g a + q b * g b.
  Proof.
    intros Ha Hb.
    rewrite (sumn_ext n _ (fun i => delta a i * (p i * g i) + delta b i * (q i * g i))).
    - rewrite sumn_add, !sumn_delta_l; auto.
    - intros i _. rewrite !indb_delta. ring.
  Qed.

  (** the straight line through nodes j, j+1 *)
  Definition segj (X Y : nat -> F) (j : nat) (x : F) : F :=
    Y j + ((x - X j) / (X (S j) - X j)) * (Y (S j) - Y j).

  Lemma seg_S X Y j x : seg X Y (S j) x = segj X Y j x.
  Proof. unfold seg, segj. now replace (S j - 1)%nat with j by lia. Qed.

  Section Nodes.
    Variables (n : nat) (X : nat -> F).
    Hypothesis Hn : (2 <= n)%nat.
    Hypothesis Hinc : incr n X.

    Lemma ref_inside_core Y x :
      fle (X 0%nat) x -> fle x (X (n - 1)%nat) -> interp_ref n X Y x = interp_core n X Y x.
    Proof.
      intros H0 H1. unfold interp_ref.
      rewrite (proj2 (fltb_false_le x (X 0%nat)) H0).
      now rewrite (proj2 (fltb_false_le (X (n - 1)%nat) x) H1).
    Qed.

    Lemma find_segment x :
      fle (X 0%nat) x -> fle x (X (n - 1)%nat) ->
      exists j, (S j < n)%nat /\ fle (X j) x /\ fle x (X (S j)).
    Proof.
      intros H0 H1. destruct (locate n X x Hn Hinc) as [H|[(j & Hj & A & B)|H]].
      - exfalso. apply (fle_flt_false _ _ H0 H).
      - exists j. repeat split; auto using flt_le.
      - exists (n - 2)%nat. replace (S (n - 2)) with (n - 1)%nat by lia.
        split; [lia|]. split; auto.
        eapply fle_trans; [apply (incr_le n X Hinc (n - 2) (n - 1)); lia|exact H].
    Qed.

    (** agreement with the reference piecewise-linear interpolant: on every
        closed cell [X j, X (j+1)] the value is the chord through the two
        nodes, whatever bracket the search selected at a tie. *)
    Theorem interp_ref_on_segment Y j x :
      (S j < n)%nat -> fle (X j) x -> fle x (X (S j)) ->
      interp_ref n X Y x = segj X Y j x.
    Proof.
      intros Hj H1 H2.
      assert (H0 : fle (X 0%nat) x).
      { eapply fle_trans; [apply (incr_le n X Hinc 0 j); lia|exact H1]. }
      assert (Hl : fle x (X (n - 1)%nat)).
      { eapply fle_trans; [exact H2|apply (incr_le n X Hinc); lia]. }
      rewrite ref_inside_core by assumption. unfold interp_core.
      destruct (fle_lt_or_eq _ _ H2) as [Hlt|Heq].
      - rewrite (bracket_half_open n X x Hn Hinc j Hj H1 Hlt). apply seg_S.
      - subst x. destruct (Nat.eq_dec (S j) (n - 1)) as [e|ne].
        + rewrite bracket_above by (first [assumption|rewrite <- e; apply fle_refl]).
          rewrite <- e. apply seg_S.
        + rewrite (bracket_half_open n X (X (S j)) Hn Hinc (S j)); [|lia|apply fle_refl|apply Hinc; lia].
          rewrite seg_S. unfold segj.
          pose proof (incr_neq n X Hinc j ltac:(lia)).
          pose proof (incr_neq n X Hinc (S j) ltac:(lia)).
          field. split; assumption.
    Qed.

    Theorem interp_at_nodes Y j : (j < n)%nat -> interp_ref n X Y (X j) = Y j.
    Proof.
      intros Hj. destruct (Nat.eq_dec (S j) n) as [e|ne].
      - assert (Hj2 : (S (n - 2) < n)%nat) by lia.
        replace j with (S (n - 2)) by lia.
        rewrite (interp_ref_on_segment Y (n - 2)); auto.
        + unfold segj. pose proof (incr_neq n X Hinc (n - 2) Hj2). field. assumption.
        + apply flt_le. now apply Hinc.
        + apply fle_refl.
      - assert (Hj2 : (S j < n)%nat) by lia.
        rewrite (interp_ref_on_segment Y j); auto.
        + unfold segj. pose proof (incr_neq n X Hinc j Hj2). field. assumption.
        + apply fle_refl.
        + apply flt_le. now apply Hinc.
    Qed.

    Theorem interp_affine_exact Y a c x :
      (forall i, (i < n)%nat -> Y i = a * X i + c) ->
      fle (X 0%nat) x -> fle x (X (n - 1)%nat) ->
      interp_ref n X Y x = a * x + c.
    Proof.
      intros HY H0 H1. destruct (find_segment x H0 H1) as (j & Hj & A & B).
      rewrite (interp_ref_on_segment Y j x Hj A B). unfold segj.
      rewrite (HY j), (HY (S j)) by lia.
      pose proof (incr_neq n X Hinc j Hj). field. assumption.
    Qed.

    Theorem interp_between_neighbours Y j x :
      (S j < n)%nat -> fle (X j) x -> fle x (X (S j)) ->
      fle (fmin (Y j) (Y (S j))) (interp_ref n X Y x) /\
      fle (interp_ref n X Y x) (fmax (Y j) (Y (S j))).
    Proof.
      intros Hj A B. rewrite (interp_ref_on_segment Y j x Hj A B). unfold segj.
      pose proof (incr_neq n X Hinc j Hj) as Hd.
      assert (Hp : flt 0 (X (S j) - X j)) by (apply (proj1 (flt_sub _ _)); now apply Hinc).
      apply convex_between.
      - apply fdiv_pos; auto. now apply fle_sub_1.
      - replace (1 - (x - X j) / (X (S j) - X j)) with ((X (S j) - x) / (X (S j) - X j)) by (field; assumption).
        apply fdiv_pos; auto. now apply fle_sub_1.
    Qed.

    (** constant data is reproduced for every query (inside and outside) *)
    Theorem interp_ref_const Y c x :
      (forall i, (i < n)%nat -> Y i = c) -> interp_ref n X Y x = c.
    Proof.
      intros HY. unfold interp_ref.
      destruct (fltb (X (n - 1)%nat) x); [apply HY; lia|].
      destruct (fltb x (X 0%nat)); [apply HY; lia|].
      unfold interp_core, seg. destruct (bracket_range n X x Hn) as [R1 R2].
      rewrite !HY by lia. 
      assert (Hd : X (bracket n X x) - X (bracket n X x - 1)%nat <> 0).
      { pose proof (incr_neq n X Hinc (bracket n X x - 1) ltac:(lia)) as H.
        now replace (S (bracket n X x - 1)) with (bracket n X x) in H by lia. }
      field. assumption.
    Qed.

    (** [linear_interp_with_linear_extrap] is the chord of the selected
        bracket, for every query. *)
    Lemma lin_extrap_eq_core Y x : lin_extrap n X Y x = interp_core n X Y x.
    Proof.
      unfold lin_extrap, base_weights, interp_core.
      destruct (bracket_range n X x Hn) as [R1 R2].
      remember (bracket n X x) as u eqn:Eu. destruct u as [|v]; [lia|].
      rewrite sumn_pick2 by lia. rewrite seg_S.
      replace (S v - 1)%nat with v by lia. cbn [w_right].
      unfold w_left. destruct (Nat.ltb_spec (S v) n) as [_|]; [|lia].
      unfold w_of, segj. pose proof (incr_neq n X Hinc v ltac:(lia)). field. assumption.
    Qed.

    (** the accelerator (matrix) path equals the default path for EVERY query *)
    Theorem dot_interp_eq_ref Y x : dot_interp n X Y x = interp_ref n X Y x.
    Proof.
      unfold dot_interp, interp_ref.
      destruct (fltb (X (n - 1)%nat) x) eqn:E1.
      - rewrite (sumn_ext n _ (fun i => indb (Nat.eqb i (n - 1)) * Y i)).
        + apply sumn_pick. lia.
        + intros i _. unfold dot_weights. now rewrite E1.
      - destruct (fltb x (X 0%nat)) eqn:E0.
        + rewrite (sumn_ext n _ (fun i => indb (Nat.eqb i 0) * Y i)).
          * apply sumn_pick. lia.
          * intros i _. unfold dot_weights. now rewrite E1, E0.
        + rewrite <- lin_extrap_eq_core. unfold lin_extrap. apply sumn_ext.
          intros i _. unfold dot_weights. now rewrite E1, E0.
    Qed.

    (** documented extrapolation of [linear_interp_with_linear_extrap] *)
    Theorem linear_extrap_formula Y x :
      (flt x (X 0%nat) -> lin_extrap n X Y x = segj X Y 0 x) /\
      (fle (X (n - 1)%nat) x -> lin_extrap n X Y x = segj X Y (n - 2) x) /\
      (fle (X 0%nat) x -> fle x (X (n - 1)%nat) -> lin_extrap n X Y x = interp_ref n X Y x).
    Proof.
      rewrite lin_extrap_eq_core. unfold interp_core. repeat split.
      - intros H. rewrite bracket_below by assumption. apply seg_S.
      - intros H. rewrite bracket_above by assumption.
        replace (n - 1)%nat with (S (n - 2)) by lia. apply seg_S.
      - intros H0 H1. now rewrite ref_inside_core.
    Qed.

    Lemma core_affine Y a c x :
      (forall i, (i < n)%nat -> Y i = a * X i + c) -> interp_core n X Y x = a * x + c.
    Proof.
      intros HY. unfold interp_core, seg. destruct (bracket_range n X x Hn) as [R1 R2].
      rewrite !HY by lia.
      assert (Hd : X (bracket n X x) - X (bracket n X x - 1)%nat <> 0).
      { pose proof (incr_neq n X Hinc (bracket n X x - 1) ltac:(lia)) as H.
        now replace (S (bracket n X x - 1)) with (bracket n X x) in H by lia. }
      field. assumption.
    Qed.

    Theorem lin_extrap_affine_exact Y a c x :
      (forall i, (i < n)%nat -> Y i = a * X i + c) -> lin_extrap n X Y x = a * x + c.
    Proof. intros HY. rewrite lin_extrap_eq_core. now apply core_affine. Qed.
  End Nodes.
End Thms.

(** Safe extrapolation: padding by [_extrapolate_both]. *)
Section PadGeneric.
  Context {T : Type} (eL eR : T -> T -> T).
  Lemma both_0 n (y : nat -> T) : (2 <= n)%nat -> extr_both eL eR n y 0%nat = eL (y 0%nat) (y 1%nat).
  Proof.
    intros Hn. unfold extr_both, extr_left, extr_right.
    destruct (Nat.ltb_spec 0 n); [|lia]. destruct (Nat.ltb_spec 1 n); [|lia]. reflexivity.
  Qed.
  Lemma both_mid n (y : nat -> T) j : (j < n)%nat -> extr_both eL eR n y (S j) = y j.
  Proof.
    intros Hj. unfold extr_both, extr_left, extr_right.
    destruct (Nat.ltb_spec j n); [|lia]. reflexivity.
  Qed.
  Lemma both_last n (y : nat -> T) : extr_both eL eR n y (S n) = eR (y (n - 1)%nat) (y (n - 2)%nat).
  Proof.
    unfold extr_both, extr_left, extr_right.
    destruct (Nat.ltb_spec n n); [lia|]. reflexivity.
  Qed.
  Lemma both_pen n (y : nat -> T) : (1 <= n)%nat -> extr_both eL eR n y n = y (n - 1)%nat.
  Proof.
    intros Hn. replace n with (S (n - 1)) at 2 by lia. apply both_mid. lia.
  Qed.
End PadGeneric.

Section Safe.
  Context {F : Type} {o : Ops F} {Oc : OrdFieldC o}.
  Add Field FFk : (field_c : FieldTh o).

  Notation B := (extr_both eLF eRF).

  Lemma incr_both n X : (2 <= n)%nat -> incr n X -> incr (n + 2) (B n X).
  Proof.
    intros Hn Hinc i Hi.
    destruct i as [|j].
    - rewrite both_0 by lia. rewrite (both_mid _ _ n X 0) by lia.
      apply (proj2 (flt_sub _ _)). unfold eLF.
      replace (X 0%nat - (X 0%nat - (X 1%nat - X 0%nat))) with (X 1%nat - X 0%nat) by ring.
      apply (proj1 (flt_sub _ _)). apply Hinc. lia.
    - destruct (Nat.eq_dec j (n - 1)) as [e|ne].
      + subst j. replace (S (S (n - 1))) with (S n) by lia.
        rewrite both_last. rewrite both_mid by lia.
        apply (proj2 (flt_sub _ _)). unfold eRF.
        replace (X (n - 1)%nat + (X (n - 1)%nat - X (n - 2)%nat) - X (n - 1)%nat)
          with (X (n - 1)%nat - X (n - 2)%nat) by ring.
        apply (proj1 (flt_sub _ _)).
        replace (n - 1)%nat with (S (n - 2)) by lia. apply Hinc. lia.
      + rewrite !both_mid by lia. apply Hinc. lia.
  Qed.

  (** one padding step does not change the linearly extrapolating interpolant, for any query *)
  Lemma core_both n X Y x :
    (2 <= n)%nat -> incr n X ->
    interp_core (n + 2) (B n X) (B n Y) x = interp_core n X Y x.
  Proof.
    intros Hn Hinc.
    assert (Hn2 : (2 <= n + 2)%nat) by lia.
    pose proof (incr_both n X Hn Hinc) as Hinc2.
    unfold interp_core.
    destruct (locate n X x Hn Hinc) as [H|[(j & Hj & H1 & H2)|H]].
    - rewrite (bracket_below n X x Hn Hinc H).
      rewrite (bracket_lt_1 (n + 2) (B n X) x Hn2 Hinc2).
      2:{ rewrite (both_mid _ _ n X 0) by lia. exact H. }
      rewrite !seg_S. unfold segj.
      rewrite !both_0 by lia. rewrite !(both_mid _ _ n _ 0) by lia. unfold eLF.
      pose proof (incr_neq n X Hinc 0 ltac:(lia)) as Hd.
      replace (X 0%nat - (X 0%nat - (X 1%nat - X 0%nat))) with (X 1%nat - X 0%nat) by ring.
      field. exact Hd.
    - rewrite (bracket_half_open n X x Hn Hinc j Hj H1 H2).
      rewrite (bracket_half_open (n + 2) (B n X) x Hn2 Hinc2 (S j)).
      2: lia. 2:{ rewrite both_mid by lia. exact H1. } 2:{ rewrite both_mid by lia. exact H2. }
      rewrite !seg_S. unfold segj. rewrite !both_mid by lia. reflexivity.
    - rewrite (bracket_above n X x Hn Hinc H).
      rewrite (bracket_ge_last2 (n + 2) (B n X) x Hn2 Hinc2).
      2:{ replace (n + 2 - 2)%nat with (S (n - 1)) by lia. rewrite both_mid by lia. exact H. }
      replace (n + 2 - 1)%nat with (S n) by lia.
      replace (n - 1)%nat with (S (n - 2)) at 1 by lia.
      rewrite !seg_S. unfold segj. rewrite !both_last.
      rewrite !both_pen by lia. unfold eRF.
      replace (S (n - 2)) with (n - 1)%nat by lia.
      pose proof (incr_neq n X Hinc (n - 2) ltac:(lia)) as Hd.
      replace (S (n - 2)) with (n - 1)%nat in Hd by lia.
      replace (X (n - 1)%nat + (X (n - 1)%nat - X (n - 2)%nat) - X (n - 1)%nat)
        with (X (n - 1)%nat - X (n - 2)%nat) by ring.
      field. exact Hd.
  Qed.
End Safe.

Section Safe2.
  Context {F : Type} {o : Ops F} {Oc : OrdFieldC o}.
  Add Field FFl : (field_c : FieldTh o).

  Notation B := (extr_both eLF eRF).
  Notation Bo := (extr_both (olift2 eLF) (olift2 eRF)).

  Lemma pad_x_S k n (y : nat -> F) : pad_x (S k) n y = pad_x k (n + 2) (B n y).
  Proof. reflexivity. Qed.
  Lemma pad_o_S k n (y : nat -> option F) : pad_o (S k) n y = pad_o k (n + 2) (Bo n y).
  Proof. reflexivity. Qed.

  (** k padding steps: nodes stay strictly increasing and the linearly
      extrapolating interpolant is unchanged for every query *)
  Lemma pad_core k : forall n X Y x,
    (2 <= n)%nat -> incr n X ->
    incr (n + 2 * k) (pad_x k n X) /\
    interp_core (n + 2 * k) (pad_x k n X) (pad_x k n Y) x = interp_core n X Y x.
  Proof.
    induction k as [|k IH]; intros n X Y x Hn Hinc.
    - replace (n + 2 * 0)%nat with n by lia. split; [exact Hinc|reflexivity].
    - replace (n + 2 * S k)%nat with ((n + 2) + 2 * k)%nat by lia.
      rewrite !pad_x_S.
      destruct (IH (n + 2)%nat (B n X) (B n Y) x ltac:(lia) (incr_both n X Hn Hinc)) as [I1 I2].
      split; [exact I1|]. rewrite I2. now apply core_both.
  Qed.

  Lemma pad_first k : forall n X, (2 <= n)%nat -> pad_x k n X 0%nat = win_lo k X.
  Proof.
    unfold win_lo. induction k as [|k IH]; intros n X Hn.
    - cbn. ring.
    - rewrite pad_x_S, IH by lia.
      rewrite both_0 by lia. rewrite (both_mid eLF eRF n X 0) by lia. unfold eLF. cbn [nsc].
      replace (X 0%nat - (X 0%nat - (X 1%nat - X 0%nat))) with (X 1%nat - X 0%nat) by ring. ring.
  Qed.

  Lemma pad_last k : forall n X, (2 <= n)%nat -> pad_x k n X (n + 2 * k - 1)%nat = win_hi k n X.
  Proof.
    unfold win_hi. induction k as [|k IH]; intros n X Hn.
    - replace (n + 2 * 0 - 1)%nat with (n - 1)%nat by lia. cbn. ring.
    - replace (n + 2 * S k - 1)%nat with ((n + 2) + 2 * k - 1)%nat by lia.
      rewrite pad_x_S, IH by lia.
      replace (n + 2 - 1)%nat with (S n) by lia. replace (n + 2 - 2)%nat with n by lia.
      rewrite both_last, both_pen by lia. unfold eRF. cbn [nsc].
      replace (X (n - 1)%nat + (X (n - 1)%nat - X (n - 2)%nat) - X (n - 1)%nat)
        with (X (n - 1)%nat - X (n - 2)%nat) by ring. ring.
  Qed.

  Lemma both_o_some n (G : nat -> option F) (Y : nat -> F) :
    (forall i, G i = Some (Y i)) -> forall i, Bo n G i = Some (B n Y i).
  Proof.
    intros HG i. unfold extr_both, extr_left, extr_right.
    destruct i as [|j].
    - destruct (Nat.ltb 0 n), (Nat.ltb 1 n); rewrite !HG; reflexivity.
    - destruct (Nat.ltb j n); rewrite !HG; reflexivity.
  Qed.

  Lemma pad_o_some k : forall n (G : nat -> option F) (Y : nat -> F),
    (forall i, G i = Some (Y i)) -> forall i, pad_o k n G i = Some (pad_x k n Y i).
  Proof.
    induction k as [|k IH]; intros n G Y HG i.
    - apply HG.
    - rewrite pad_o_S, pad_x_S. apply IH. now apply both_o_some.
  Qed.

  Lemma nsc_nonneg k d : fle 0 d -> fle 0 (nsc k d).
  Proof.
    intros Hd. induction k as [|k IH]; cbn; [apply fle_refl|].
    pose proof (fle_add2 0 (nsc k d) 0 d IH Hd) as H.
    replace (0 + 0) with (0 : F) in H by ring. exact H.
  Qed.

  Section Nodes.
    Variables (n : nat) (X : nat -> F).
    Hypothesis Hn : (2 <= n)%nat.
    Hypothesis Hinc : incr n X.

    Lemma win_lo_le k : fle (win_lo k X) (X 0%nat).
    Proof.
      unfold win_lo. apply fle_sub_2.
      replace (X 0%nat - (X 0%nat - nsc k (X 1%nat - X 0%nat))) with (nsc k (X 1%nat - X 0%nat)) by ring.
      apply nsc_nonneg. apply fle_sub_1. apply flt_le. apply Hinc. lia.
    Qed.

    Lemma win_hi_ge k : fle (X (n - 1)%nat) (win_hi k n X).
    Proof.
      unfold win_hi. apply fle_sub_2.
      replace (X (n - 1)%nat + nsc k (X (n - 1)%nat - X (n - 2)%nat) - X (n - 1)%nat)
        with (nsc k (X (n - 1)%nat - X (n - 2)%nat)) by ring.
      apply nsc_nonneg. apply fle_sub_1. apply flt_le.
      replace (n - 1)%nat with (S (n - 2)) by lia. apply Hinc. lia.
    Qed.

    (** Complete characterisation of [_linear_interp_with_safe_extrap]: on the
        CLOSED window it is the linearly extrapolating interpolant, strictly
        beyond it is missing. *)
    Theorem safe_extrap_char k Y x :
      safe_extrap k n X Y x =
      if in_window k n X x then Some (lin_extrap n X Y x) else None.
    Proof.
      unfold safe_extrap, safe_extrap_o, interp_nan, in_window.
      rewrite pad_first, pad_last by assumption.
      unfold fltb. destruct (fleb x (win_hi k n X)) eqn:E1; cbn [negb];
        [|now rewrite andb_false_r].
      destruct (fleb (win_lo k X) x) eqn:E0; cbn [negb andb]; [|reflexivity].
      unfold seg_o.
      rewrite !(pad_o_some k n (fun i => Some (Y i)) Y) by reflexivity. cbn [olift2].
      f_equal. rewrite (lin_extrap_eq_core n X Hn Hinc).
      destruct (pad_core k n X Y x Hn Hinc) as [_ I2]. rewrite <- I2.
      unfold interp_core, seg. ring.
    Qed.

    Theorem safe_extrap_window k Y x :
      (flt x (win_lo k X) \/ flt (win_hi k n X) x -> safe_extrap k n X Y x = None) /\
      (fle (win_lo k X) x -> fle x (win_hi k n X) ->
       safe_extrap k n X Y x = Some (lin_extrap n X Y x)) /\
      (fle (X 0%nat) x -> fle x (X (n - 1)%nat) ->
       safe_extrap k n X Y x = Some (interp_ref n X Y x)).
    Proof.
      rewrite safe_extrap_char. unfold in_window. repeat split.
      - intros [H|H]; unfold flt in H; rewrite H; [reflexivity|now rewrite andb_false_r].
      - intros H0 H1. unfold fle in H0, H1. now rewrite H0, H1.
      - intros H0 H1.
        pose proof (fle_trans _ _ _ (win_lo_le k) H0) as A.
        pose proof (fle_trans _ _ _ H1 (win_hi_ge k)) as B'.
        unfold fle in A, B'. rewrite A, B'. cbn [andb]. f_equal.
        destruct (linear_extrap_formula n X Hn Hinc Y x) as (_ & _ & L). now apply L.
    Qed.

    Theorem safe_extrap_affine_exact k Y a c x :
      (forall i, (i < n)%nat -> Y i = a * X i + c) ->
      fle (win_lo k X) x -> fle x (win_hi k n X) ->
      safe_extrap k n X Y x = Some (a * x + c).
    Proof.
      intros HY H0 H1. destruct (safe_extrap_window k Y x) as (_ & W & _).
      rewrite W by assumption. f_equal. now apply lin_extrap_affine_exact.
    Qed.
  End Nodes.
End Safe2.

(** Data with missing values; sigma <-> pressure round trip; surface pressure;
    horizontal regridders. *)
Section Partial.
  Context {F : Type} {o : Ops F} {Oc : OrdFieldC o}.
  Add Field FFm : (field_c : FieldTh o).

  Notation B := (extr_both eLF eRF).
  Notation Bo := (extr_both (olift2 eLF) (olift2 eRF)).

  (** every present entry lies on the line a*x + c *)
  Definition on_line (a c : F) (n : nat) (X : nat -> F) (D : nat -> option F) : Prop :=
    forall i, (i < n)%nat -> D i = None \/ D i = Some (a * X i + c).
  Definition all_some (n : nat) (D : nat -> option F) : Prop :=
    forall i, (i < n)%nat -> exists v, D i = Some v.

  Lemma both_on_line a c n X D :
    (2 <= n)%nat -> on_line a c n X D -> on_line a c (n + 2) (B n X) (Bo n D).
  Proof.
    intros Hn H i Hi. destruct i as [|j].
    - rewrite !both_0 by lia.
      destruct (H 0%nat ltac:(lia)) as [E0|E0]; destruct (H 1%nat ltac:(lia)) as [E1|E1];
        rewrite E0, E1; cbn [olift2]; auto.
      right. f_equal. unfold eLF. ring.
    - destruct (Nat.eq_dec j n) as [->|ne].
      + rewrite !both_last.
        destruct (H (n - 1)%nat ltac:(lia)) as [E0|E0]; destruct (H (n - 2)%nat ltac:(lia)) as [E1|E1];
          rewrite E0, E1; cbn [olift2]; auto.
        right. f_equal. unfold eRF. ring.
      + rewrite !both_mid by lia. apply H. lia.
  Qed.

  Lemma pad_on_line a c k : forall n X D,
    (2 <= n)%nat -> on_line a c n X D -> on_line a c (n + 2 * k) (pad_x k n X) (pad_o k n D).
  Proof.
    induction k as [|k IH]; intros n X D Hn H.
    - replace (n + 2 * 0)%nat with n by lia. exact H.
    - replace (n + 2 * S k)%nat with ((n + 2) + 2 * k)%nat by lia.
      rewrite pad_x_S, pad_o_S. apply IH; [lia|]. now apply both_on_line.
  Qed.

  Lemma both_all_some n D : (2 <= n)%nat -> all_some n D -> all_some (n + 2) (Bo n D).
  Proof.
    intros Hn H i Hi. destruct i as [|j].
    - rewrite both_0 by lia.
      destruct (H 0%nat ltac:(lia)) as [v0 E0]; destruct (H 1%nat ltac:(lia)) as [v1 E1].
      rewrite E0, E1. cbn [olift2]. eauto.
    - destruct (Nat.eq_dec j n) as [->|ne].
      + rewrite both_last.
        destruct (H (n - 1)%nat ltac:(lia)) as [v0 E0]; destruct (H (n - 2)%nat ltac:(lia)) as [v1 E1].
        rewrite E0, E1. cbn [olift2]. eauto.
      + rewrite both_mid by lia. apply H. lia.
  Qed.

  Lemma pad_all_some k : forall n D,
    (2 <= n)%nat -> all_some n D -> all_some (n + 2 * k) (pad_o k n D).
  Proof.
    induction k as [|k IH]; intros n D Hn H.
    - replace (n + 2 * 0)%nat with n by lia. exact H.
    - replace (n + 2 * S k)%nat with ((n + 2) + 2 * k)%nat by lia.
      rewrite pad_o_S. apply IH; [lia|]. now apply both_all_some.
  Qed.

  Section Nodes.
    Variables (n : nat) (X : nat -> F).
    Hypothesis Hn : (2 <= n)%nat.
    Hypothesis Hinc : incr n X.

    (** partially missing data on a line: the result is missing or on the line *)
    Lemma safe_o_on_line a c k D x :
      on_line a c n X D ->
      safe_extrap_o k n X D x = None \/ safe_extrap_o k n X D x = Some (a * x + c).
    Proof.
      intros HL. unfold safe_extrap_o, interp_nan.
      destruct (fltb (pad_x k n X (n + 2 * k - 1)%nat) x); auto.
      destruct (fltb x (pad_x k n X 0%nat)); auto.
      destruct (pad_core k n X X x Hn Hinc) as [I1 _].
      pose proof (pad_on_line a c k n X D Hn HL) as HL'.
      destruct (bracket_range (n + 2 * k) (pad_x k n X) x ltac:(lia)) as [R1 R2].
      set (i := bracket (n + 2 * k) (pad_x k n X) x) in *.
      unfold seg_o.
      destruct (HL' (i - 1)%nat ltac:(lia)) as [E0|E0]; destruct (HL' i ltac:(lia)) as [E1|E1];
        rewrite E0, E1; cbn [olift2]; auto.
      right. f_equal.
      pose proof (incr_neq _ _ I1 (i - 1)%nat ltac:(lia)) as Hd.
      replace (S (i - 1)) with i in Hd by lia.
      field. exact Hd.
    Qed.

    Lemma safe_o_defined k D x :
      all_some n D -> in_window k n X x = true -> exists v, safe_extrap_o k n X D x = Some v.
    Proof.
      intros HA HW. unfold safe_extrap_o, interp_nan.
      rewrite pad_first, pad_last by assumption.
      unfold in_window in HW. apply andb_prop in HW. destruct HW as [W0 W1].
      unfold fltb. rewrite W0, W1. cbn [negb].
      pose proof (pad_all_some k n D Hn HA) as HA'.
      destruct (bracket_range (n + 2 * k) (pad_x k n X) x ltac:(lia)) as [R1 R2].
      set (i := bracket (n + 2 * k) (pad_x k n X) x) in *.
      unfold seg_o.
      destruct (HA' (i - 1)%nat ltac:(lia)) as [v0 E0]; destruct (HA' i ltac:(lia)) as [v1 E1].
      rewrite E0, E1. cbn [olift2]. eauto.
    Qed.
  End Nodes.

  (** pressure -> sigma -> pressure on a column affine in pressure *)
  Section Roundtrip.
    Variables (nP nS : nat) (P sigma fld : nat -> F) (sp a c : F).
    Hypothesis HnP : (2 <= nP)%nat.
    Hypothesis HnS : (2 <= nS)%nat.
    Hypothesis HP : incr nP P.
    Hypothesis HS : incr nS sigma.
    Hypothesis Hsp : sp <> 0.
    Hypothesis Haff : forall i, (i < nP)%nat -> fld i = a * P i + c.

    Lemma p2s_on_line :
      on_line (a * sp) c nS sigma (interp_pressure_to_sigma nP P fld sigma sp).
    Proof.
      intros k Hk. unfold interp_pressure_to_sigma, interp_pressure_to_sigma_o.
      change (safe_extrap_o 1 nP P (fun i => Some (fld i)) (sigma k * sp))
        with (safe_extrap 1 nP P fld (sigma k * sp)).
      rewrite (safe_extrap_char nP P HnP HP).
      destruct (in_window 1 nP P (sigma k * sp)); auto.
      right. f_equal. rewrite (lin_extrap_affine_exact nP P HnP HP fld a c) by exact Haff. ring.
    Qed.

    (** whenever the round trip returns a number it is the original value *)
    Theorem roundtrip_partial j :
      (j < nP)%nat ->
      roundtrip_p_s_p nP nS P sigma fld sp j = None \/
      roundtrip_p_s_p nP nS P sigma fld sp j = Some (fld j).
    Proof.
      intros Hj. unfold roundtrip_p_s_p, interp_sigma_to_pressure_o.
      destruct (safe_o_on_line nS sigma HnS HS (a * sp) c 1 _ (P j / sp) p2s_on_line) as [E|E]; auto.
      right. rewrite E. f_equal. rewrite (Haff j Hj). field. exact Hsp.
    Qed.

    (** and it does return a number on the doubly covered range *)
    Theorem roundtrip_defined j :
      (j < nP)%nat ->
      (forall k, (k < nS)%nat -> in_window 1 nP P (sigma k * sp) = true) ->
      in_window 1 nS sigma (P j / sp) = true ->
      roundtrip_p_s_p nP nS P sigma fld sp j = Some (fld j).
    Proof.
      intros Hj Hall HW.
      assert (HA : all_some nS (interp_pressure_to_sigma nP P fld sigma sp)).
      { intros k Hk. unfold interp_pressure_to_sigma, interp_pressure_to_sigma_o.
        change (safe_extrap_o 1 nP P (fun i => Some (fld i)) (sigma k * sp))
          with (safe_extrap 1 nP P fld (sigma k * sp)).
        rewrite (safe_extrap_char nP P HnP HP), (Hall k Hk). eauto. }
      destruct (roundtrip_partial j Hj) as [E|E]; auto. exfalso.
      unfold roundtrip_p_s_p, interp_sigma_to_pressure_o in E.
      destruct (safe_o_defined nS sigma HnS 1 _ (P j / sp) HA HW) as [v Ev].
      rewrite Ev in E. discriminate E.
    Qed.

    (** outside the safe window of the sigma levels the result is missing *)
    Theorem roundtrip_outside j :
      in_window 1 nS sigma (P j / sp) = false ->
      roundtrip_p_s_p nP nS P sigma fld sp j = None.
    Proof.
      intros HW. unfold roundtrip_p_s_p, interp_sigma_to_pressure_o, safe_extrap_o, interp_nan.
      rewrite pad_first, pad_last by assumption.
      unfold in_window in HW. unfold fltb.
      destruct (fleb (P j / sp) (win_hi 1 nS sigma)); cbn [negb]; [|reflexivity].
      rewrite andb_true_r in HW. rewrite HW. reflexivity.
    Qed.
  End Roundtrip.

  (** [get_surface_pressure]: with i the bracket of 0 among the relative
      heights, the result p lies on the chord of the pressure levels over
      that bracket, and the chord of the geopotential over the same pair of
      levels, evaluated at p, equals g * orography. *)
  Theorem surface_pressure_on_segment n (L phi : nat -> F) (oro g : F) :
    (2 <= n)%nat -> incr n (rel_height phi oro g) ->
    (forall i, (S i < n)%nat -> L (S i) - L i <> 0) ->
    let i := bracket n (rel_height phi oro g) 0 in
    let p := surface_pressure n L phi oro g in
    p = seg (rel_height phi oro g) L i 0 /\ seg L phi i p = oro * g.
  Proof.
    intros Hn Hinc HL i p.
    assert (Hp : p = seg (rel_height phi oro g) L i 0).
    { unfold p, surface_pressure. now rewrite (lin_extrap_eq_core n _ Hn Hinc). }
    split; [exact Hp|]. rewrite Hp.
    destruct (bracket_range n (rel_height phi oro g) 0 Hn) as [R1 R2]. fold i in R1, R2.
    pose proof (incr_neq n _ Hinc (i - 1)%nat ltac:(lia)) as Hd.
    pose proof (HL (i - 1)%nat ltac:(lia)) as Hl.
    replace (S (i - 1)) with i in Hd, Hl by lia.
    unfold seg, rel_height in *.
    assert (Hphi : phi i - phi (i - 1)%nat <> 0).
    { intro E. apply Hd. replace (oro * g - phi i - (oro * g - phi (i - 1)%nat))
        with (- (phi i - phi (i - 1)%nat)) by ring. rewrite E. ring. }
    field. repeat split; auto.
  Qed.

  (** a chord between two ordered nodes with increasing data is increasing *)
  Lemma chord_monotone (a b La Lb x : F) :
    flt a b -> flt La Lb ->
    let p := La + ((x - a) / (b - a)) * (Lb - La) in
    (flt x a -> flt p La) /\ (fle a x -> fle La p) /\ (flt x b -> flt p Lb) /\ (fle b x -> fle Lb p).
  Proof.
    intros Hab HL p.
    assert (Hd : flt 0 (b - a)) by now apply (proj1 (flt_sub _ _)).
    assert (Hdn : b - a <> 0) by now apply fpos_neq0.
    assert (Hc : flt 0 ((Lb - La) * (1 / (b - a)))).
    { apply fmul_pos_pos; [now apply (proj1 (flt_sub _ _))|now apply finv_pos]. }
    set (c := (Lb - La) * (1 / (b - a))) in *.
    repeat split; intros H.
    - apply (proj2 (flt_sub _ _)). replace (La - p) with ((a - x) * c) by (unfold p, c; field; exact Hdn).
      apply fmul_pos_pos; auto. now apply (proj1 (flt_sub _ _)).
    - apply fle_sub_2. replace (p - La) with ((x - a) * c) by (unfold p, c; field; exact Hdn).
      apply fle_mul_pos; [now apply fle_sub_1|now apply flt_le].
    - apply (proj2 (flt_sub _ _)). replace (Lb - p) with ((b - x) * c) by (unfold p, c; field; exact Hdn).
      apply fmul_pos_pos; auto. now apply (proj1 (flt_sub _ _)).
    - apply fle_sub_2. replace (p - Lb) with ((x - b) * c) by (unfold p, c; field; exact Hdn).
      apply fle_mul_pos; [now apply fle_sub_1|now apply flt_le].
  Qed.

  (** [get_surface_pressure] returns the pressure at which the piecewise-linear
      (linearly extrapolated) geopotential profile equals g * orography. *)
  Theorem surface_pressure_is_intercept n (L phi : nat -> F) (oro g : F) :
    (2 <= n)%nat -> incr n (rel_height phi oro g) -> incr n L ->
    lin_extrap n L phi (surface_pressure n L phi oro g) = oro * g.
  Proof.
    intros Hn Hinc HL.
    destruct (surface_pressure_on_segment n L phi oro g Hn Hinc (incr_neq n L HL)) as [Hp Hv].
    cbv zeta in Hp, Hv.
    set (rh := rel_height phi oro g) in *. set (p := surface_pressure n L phi oro g) in *.
    assert (Hb : bracket n L p = bracket n rh 0).
    { destruct (locate n rh 0 Hn Hinc) as [H|[(j & Hj & H1 & H2)|H]].
      - rewrite (bracket_below n rh 0 Hn Hinc H) in *. rewrite seg_S in Hp. unfold segj in Hp.
        destruct (chord_monotone (rh 0%nat) (rh 1%nat) (L 0%nat) (L 1%nat) 0
                    (Hinc 0%nat ltac:(lia)) (HL 0%nat ltac:(lia))) as (C1 & _).
        apply bracket_below; auto. rewrite Hp. now apply C1.
      - rewrite (bracket_half_open n rh 0 Hn Hinc j Hj H1 H2) in *. rewrite seg_S in Hp. unfold segj in Hp.
        destruct (chord_monotone (rh j) (rh (S j)) (L j) (L (S j)) 0 (Hinc j Hj) (HL j Hj)) as (_ & C2 & C3 & _).
        apply bracket_half_open; auto; rewrite Hp; auto.
      - rewrite (bracket_above n rh 0 Hn Hinc H) in *.
        replace (n - 1)%nat with (S (n - 2)) in Hp, H by lia. rewrite seg_S in Hp. unfold segj in Hp.
        destruct (chord_monotone (rh (n - 2)%nat) (rh (S (n - 2))) (L (n - 2)%nat) (L (S (n - 2))) 0
                    (Hinc (n - 2)%nat ltac:(lia)) (HL (n - 2)%nat ltac:(lia))) as (_ & _ & _ & C4).
        apply bracket_above; auto. replace (n - 1)%nat with (S (n - 2)) by lia. rewrite Hp. now apply C4. }
    rewrite (lin_extrap_eq_core n L Hn HL). unfold interp_core. rewrite Hb. exact Hv.
  Qed.

  (** horizontal regridders *)
  Theorem bilinear_constants nlon nlat lonS latS (f : nat -> nat -> F) lonT latT c a b :
    (2 <= nlon)%nat -> (2 <= nlat)%nat -> incr nlon lonS -> incr nlat latS ->
    (forall i j, (i < nlon)%nat -> (j < nlat)%nat -> f i j = c) ->
    bilinear nlon nlat lonS latS f lonT latT a b = c.
  Proof.
    intros H1 H2 I1 I2 Hf. unfold bilinear.
    apply (interp_ref_const nlon lonS H1 I1). intros i Hi.
    apply (interp_ref_const nlat latS H2 I2). intros j Hj. now apply Hf.
  Qed.

  Theorem bilinear_identity_same_grid nlon nlat lonS latS (f : nat -> nat -> F) a b :
    (2 <= nlon)%nat -> (2 <= nlat)%nat -> incr nlon lonS -> incr nlat latS ->
    (a < nlon)%nat -> (b < nlat)%nat ->
    bilinear nlon nlat lonS latS f lonS latS a b = f a b.
  Proof.
    intros H1 H2 I1 I2 Ha Hb. unfold bilinear.
    rewrite (interp_at_nodes nlon lonS H1 I1 _ a Ha).
    now rewrite (interp_at_nodes nlat latS H2 I2 _ b Hb).
  Qed.

  Theorem nearest_constants (idx : nat -> nat) (f : nat -> F) N c t :
    (forall i, (i < N)%nat -> f i = c) -> (idx t < N)%nat -> nearest idx f t = c.
  Proof. intros Hf Hi. unfold nearest. now apply Hf. Qed.

  Theorem nearest_identity_same_grid (idx : nat -> nat) (f : nat -> F) t :
    idx t = t -> nearest idx f t = f t.
  Proof. intros H. unfold nearest. now rewrite H. Qed.
End Partial.
