(** C06, stability part: |r(0,z)| <= 1 for every z with Re z <= 0, over the reals
    (complex numbers as pairs).  The step functions of Model/Integrators.v are
    instantiated at V = Cplx, F = 0, G = z., G_inv(., eta) = (1 - eta z)^-1 . *)
From Dino Require Import Base.Ops Base.Inst Gen.Tableaux Model.Integrators.
From Coq Require Import Reals Lra Qreals.
Local Open Scope R_scope.

Definition Cplx := (R * R)%type.
#[export] Instance CVOps : VOps R Cplx := {|
  vzero := (0, 0);
  vadd a b := (fst a + fst b, snd a + snd b);
  vscal c a := (c * fst a, c * snd a) |}.
Definition nsq (u : Cplx) : R := fst u * fst u + snd u * snd u.
Definition F0 (u : Cplx) : Cplx := (0, 0).
Definition Gz (z u : Cplx) : Cplx := (fst z * fst u - snd z * snd u, fst z * snd u + snd z * fst u).
Definition Dz (z : Cplx) (eta : R) : R :=
  (1 - eta * fst z) * (1 - eta * fst z) + (eta * snd z) * (eta * snd z).
(** u / (1 - eta z) *)
Definition Ginvz (z u : Cplx) (eta : R) : Cplx :=
  let wr := 1 - eta * fst z in let wi := - (eta * snd z) in
  ((fst u * wr + snd u * wi) / Dz z eta, (snd u * wr - fst u * wi) / Dz z eta).

Lemma Dz_ge_1 z eta : 0 <= eta -> fst z <= 0 -> 1 <= Dz z eta.
Proof.
  intros He Hx. unfold Dz.
  assert (0 <= eta * - fst z) by (apply Rmult_le_pos; lra).
  assert (0 <= (eta * snd z) * (eta * snd z)) by apply Rle_0_sqr.
  nra.
Qed.

(** [Ginvz] really inverts 1 - eta G. *)
Lemma Ginvz_inverse z u eta : Dz z eta <> 0 ->
  Ginvz z (vadd u (vscal (- eta) (Gz z u))) eta = u.
Proof.
  intros HD. destruct u as [a b], z as [x y]. unfold Ginvz, Gz; cbn [fst snd vadd vscal CVOps].
  unfold Dz in *; cbn [fst snd] in *. f_equal; field; exact HD.
Qed.

Lemma Ginvz_nsq z v eta : Dz z eta <> 0 -> nsq (Ginvz z v eta) = nsq v / Dz z eta.
Proof.
  intros HD. destruct v as [a b], z as [x y]. unfold Ginvz, nsq; cbn [fst snd].
  unfold Dz in *; cbn [fst snd] in *. field. exact HD.
Qed.

(** |1 + c1 z| <= |1 - c2 z| when c1 <= c2, c1 + c2 >= 0, Re z <= 0; hence
    u |-> (1 - c2 z)^-1 (u + c1 z u) is a contraction. *)
Lemma theta_contract z u c1 c2 :
  c1 <= c2 -> 0 <= c1 + c2 -> fst z <= 0 ->
  nsq (Ginvz z (vadd u (vscal c1 (Gz z u))) c2) <= nsq u.
Proof.
  intros H12 Hs Hx.
  assert (Hc2 : 0 <= c2) by lra.
  pose proof (Dz_ge_1 z c2 Hc2 Hx) as HD.
  rewrite Ginvz_nsq by lra.
  apply (Rmult_le_reg_r (Dz z c2)); [lra|].
  unfold Rdiv. rewrite Rmult_assoc, Rinv_l, Rmult_1_r by lra.
  destruct u as [a b], z as [x y]. unfold nsq, Gz, Dz in *; cbn [fst snd vadd vscal CVOps] in *.
  assert (P1 : 0 <= (c2 - c1) * (c2 + c1)) by (apply Rmult_le_pos; lra).
  assert (P2 : 0 <= - x * (c1 + c2)) by (apply Rmult_le_pos; lra).
  assert (P3 : 0 <= a * a + b * b) by (pose proof (Rle_0_sqr a); pose proof (Rle_0_sqr b); unfold Rsqr in *; lra).
  assert (P4 : 0 <= x * x + y * y) by (pose proof (Rle_0_sqr x); pose proof (Rle_0_sqr y); unfold Rsqr in *; lra).
  pose proof (Rmult_le_pos _ _ P3 (Rmult_le_pos _ _ P4 P1)) as Q1.
  pose proof (Rmult_le_pos _ _ P3 P2) as Q2.
  match goal with |- ?L <= ?Rr =>
    replace Rr with (L + (2 * ((a * a + b * b) * (- x * (c1 + c2)))
                         + (a * a + b * b) * ((x * x + y * y) * ((c2 - c1) * (c2 + c1))))) by ring
  end.
  lra.
Qed.

Lemma ginv_contract z u eta : 0 <= eta -> fst z <= 0 -> nsq (Ginvz z u eta) <= nsq u.
Proof.
  intros He Hx. pose proof (theta_contract z u 0 eta) as H.
  replace (vadd u (vscal 0 (Gz z u))) with u in H
    by (destruct u; unfold Gz; cbn; f_equal; ring).
  apply H; lra.
Qed.

Lemma half_R : @half R ROps = / 2.
Proof. unfold half; cbn. lra. Qed.

(** ** backward Euler *)
Theorem A_stable_backward_euler z u dt :
  0 <= dt -> fst z <= 0 ->
  nsq (euler_step (vo := CVOps) F0 (Ginvz z) dt u) <= nsq u.
Proof.
  intros Hd Hx. unfold euler_step, F0.
  replace (vadd u (vscal dt (0, 0))) with u by (destruct u; cbn; f_equal; ring).
  now apply ginv_contract.
Qed.

(** ** every Crank-Nicolson low-storage scheme with non-decreasing alphas *)
Fixpoint NonDec (l : list R) : Prop :=
  match l with
  | a0 :: ((a1 :: _) as l') => a0 <= a1 /\ NonDec l'
  | _ => True
  end.

Lemma ls_loop_stable z dt : 0 <= dt -> fst z <= 0 ->
  forall be ga al u, NonDec al ->
  nsq (ls_loop (o := ROps) (vo := CVOps) F0 (Gz z) (Ginvz z) dt al be ga (0, 0) u) <= nsq u.
Proof.
  intros Hd Hx. induction be as [|b be IH]; intros ga al u Hal.
  - cbn. apply Rle_refl.
  - destruct ga as [|g ga]; [cbn; apply Rle_refl|].
    destruct al as [|a0 [|a1 al]]; [cbn; apply Rle_refl|cbn; apply Rle_refl|].
    cbn [ls_loop]. destruct Hal as [H01 Hal].
    replace (vadd (F0 u) (vscal b (0, 0))) with ((0, 0) : Cplx) by (unfold F0; cbn; f_equal; ring).
    eapply Rle_trans; [apply IH; exact Hal|].
    set (mu := half * dt * (a1 - a0)).
    replace (vadd (vadd u (vscal (g * dt) (0, 0))) (vscal mu (Gz z u)))
      with (vadd u (vscal mu (Gz z u))) by (destruct u; unfold Gz; cbn; f_equal; ring).
    assert (0 <= mu).
    { unfold mu. rewrite half_R.
      change (0 <= (/ 2 * dt) * (a1 - a0))%R.
      apply Rmult_le_pos; [apply Rmult_le_pos; lra|lra]. }
    change (nsq (Ginvz z (vadd u (vscal mu (Gz z u))) mu) <= nsq u). clearbody mu. apply theta_contract; lra.
Qed.

Theorem A_stable_cn_lowstorage_any z u dt (al be ga : list R) :
  0 <= dt -> fst z <= 0 -> NonDec al ->
  nsq (ls_step (o := ROps) (vo := CVOps) F0 (Gz z) (Ginvz z) dt al be ga u) <= nsq u.
Proof. intros. unfold ls_step. now apply ls_loop_stable. Qed.

Lemma nondec_Q2R (l : list Q) :
  nondecreasing (o := QOps) l = true -> NonDec (map Q2R l).
Proof.
  induction l as [|a0 l IH]; [cbn; auto|].
  destruct l as [|a1 l]; [cbn; auto|].
  intros H. change (nondecreasing (a0 :: a1 :: l)) with (fleb a0 a1 && nondecreasing (a1 :: l))%bool in H.
  apply andb_prop in H. destruct H as [H1 H2]. cbn [map NonDec]. split.
  - cbn in H1. apply Qle_bool_iff in H1. now apply Qle_Rle.
  - apply IH. exact H2.
Qed.

(** the generated alphas of RK3 / RK4 are non-decreasing (vm_compute fact) *)
Lemma rk3_alphas_nondecreasing : nondecreasing (o := QOps) rk3_alphas = true.
Proof. vm_compute. reflexivity. Qed.
Lemma rk4_alphas_nondecreasing : nondecreasing (o := QOps) rk4_alphas = true.
Proof. vm_compute. reflexivity. Qed.

Theorem A_stable_cn_rk3 z u dt : 0 <= dt -> fst z <= 0 ->
  nsq (ls_step (o := ROps) (vo := CVOps) F0 (Gz z) (Ginvz z) dt
         (map Q2R rk3_alphas) (map Q2R rk3_betas) (map Q2R rk3_gammas) u) <= nsq u.
Proof. intros. apply A_stable_cn_lowstorage_any; auto. apply nondec_Q2R, rk3_alphas_nondecreasing. Qed.

Theorem A_stable_cn_rk4 z u dt : 0 <= dt -> fst z <= 0 ->
  nsq (ls_step (o := ROps) (vo := CVOps) F0 (Gz z) (Ginvz z) dt
         (map Q2R rk4_alphas) (map Q2R rk4_betas) (map Q2R rk4_gammas) u) <= nsq u.
Proof. intros. apply A_stable_cn_lowstorage_any; auto. apply nondec_Q2R, rk4_alphas_nondecreasing. Qed.

(** ** Crank-Nicolson + Heun *)
Theorem A_stable_cn_rk2 z u dt : 0 <= dt -> fst z <= 0 ->
  nsq (cn_rk2_step (o := ROps) (vo := CVOps) F0 (Gz z) (Ginvz z) dt u) <= nsq u.
Proof.
  intros Hd Hx. unfold cn_rk2_step, F0. cbv zeta.
  set (mu := fmul half dt).
  match goal with |- nsq (Ginvz z ?x _) <= _ =>
    replace x with (vadd u (vscal mu (Gz z u))) by (destruct u; unfold Gz; cbn; f_equal; ring)
  end.
  assert (0 <= mu) by (unfold mu; rewrite half_R; change (0 <= / 2 * dt)%R; lra).
  clearbody mu. apply theta_contract; lra.
Qed.

(** ** semi-implicit leapfrog, alpha >= 1/2: with F = 0 the future snapshot is
    r(z) * previous with r = (1 + 2 dt (1-alpha) z)/(1 - 2 dt alpha z) = rho^2 for
    both characteristic roots rho; |r| <= 1. *)
Theorem A_stable_leapfrog z prev cur dt alpha : 0 <= dt -> / 2 <= alpha -> fst z <= 0 ->
  nsq (snd (leapfrog_step (o := ROps) (vo := CVOps) F0 (Gz z) (Ginvz z) dt alpha (prev, cur))) <= nsq prev.
Proof.
  intros Hd Ha Hx. unfold leapfrog_step, F0. cbn [snd].
  match goal with |- nsq (Ginvz z _ ?e) <= _ => set (c2 := e) end.
  pose (c1 := 2 * dt * (1 - alpha)).
  match goal with |- nsq (Ginvz z ?x _) <= _ =>
    replace x with (vadd prev (vscal c1 (Gz z prev)))
      by (destruct prev; unfold Gz, c1, two; cbn; f_equal; ring)
  end.
  assert (E2 : c2 = 2 * dt * alpha) by (unfold c2, two; cbn; ring).
  clearbody c2. subst c2.
  assert (0 <= dt * (2 * alpha - 1)) by (apply Rmult_le_pos; lra).
  unfold c1. apply theta_contract; lra.
Qed.

Lemma leapfrog_default_alpha_ok : / 2 <= Q2R leapfrog_alpha_default.
Proof.
  assert (H : Qle_bool (1 # 2) leapfrog_alpha_default = true) by (vm_compute; reflexivity).
  apply Qle_bool_iff, Qle_Rle in H.
  replace (/ 2) with (Q2R (1 # 2)); [exact H|]. unfold Q2R; cbn. lra.
Qed.
