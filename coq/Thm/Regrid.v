(** Theorems about the conservative-regridding model (property C16), for every
    ordered field, every number of source/target cells and every sorted
    boundary list. *)
From Dino Require Import Base.Ops Base.Sums Base.Ord Model.Regrid.
Local Open Scope F_scope.

Section Order.
  Context {F : Type} {o : Ops F} {Oc : OrdFieldC o}.
  Add Field FFr0 : (field_c : FieldTh o).

  (** *** order lemmas missing from Base/Ord.v *)
  Lemma fmax_l x y : fle y x -> fmax x y = x.
  Proof.
    intros H. unfold fmax. destruct (fleb x y) eqn:E; [|reflexivity].
    apply fle_antisym; [exact H|exact E].
  Qed.
  Lemma fmax_r x y : fle x y -> fmax x y = y.
  Proof. intros H. unfold fmax. unfold fle in H. now rewrite H. Qed.
  Lemma fmin_l x y : fle x y -> fmin x y = x.
  Proof. intros H. unfold fmin. unfold fle in H. now rewrite H. Qed.
  Lemma fmin_r x y : fle y x -> fmin x y = y.
  Proof.
    intros H. unfold fmin. destruct (fleb x y) eqn:E; [|reflexivity].
    apply fle_antisym; [exact E|exact H].
  Qed.
  Lemma fmax_comm x y : fmax x y = fmax y x.
  Proof.
    destruct (fle_total x y) as [H|H].
    - now rewrite (fmax_r x y H), (fmax_l y x H).
    - now rewrite (fmax_l x y H), (fmax_r y x H).
  Qed.
  Lemma fmin_comm x y : fmin x y = fmin y x.
  Proof.
    destruct (fle_total x y) as [H|H].
    - now rewrite (fmin_l x y H), (fmin_r y x H).
    - now rewrite (fmin_r x y H), (fmin_l y x H).
  Qed.
  Lemma fle_sub_nonpos x y : fle x y -> fle (x - y) 0.
  Proof.
    intros H. apply fle_sub_2. replace (0 - (x - y)) with (y - x) by ring. now apply fle_sub_1.
  Qed.
  Lemma flt_sub_pos x y : flt x y -> flt 0 (y - x).
  Proof. apply flt_sub. Qed.
  Lemma fle_0_two : fle (0:F) two.
  Proof. unfold two. replace 0 with (0 + 0) by ring. apply fle_add2; apply fle_0_1. Qed.
  Lemma flt_0_two : flt (0:F) two.
  Proof.
    unfold two. apply flt_le_trans with (y := 1); [apply flt_0_1|].
    replace 1 with (0 + 1) at 1 by ring. apply fle_add. apply fle_0_1.
  Qed.
  Lemma two_nz : two <> (0:F).
  Proof. apply fpos_neq0. apply flt_0_two. Qed.
  Lemma fle_mul_r c x y : fle 0 c -> fle x y -> fle (x * c) (y * c).
  Proof. intros Hc H. replace (x * c) with (c * x) by ring. replace (y * c) with (c * y) by ring. now apply fle_mul_l. Qed.
  Lemma fle_neq_lt x y : fle x y -> x <> y -> flt x y.
  Proof. intros H N. destruct (fle_lt_or_eq x y H); [assumption|contradiction]. Qed.
  Lemma fle_eq x y : x = y -> fle x y.
  Proof. intros ->. apply fle_refl. Qed.

  (** *** finite sums and order *)
  Lemma sumn_nonneg n (f : nat -> F) : (forall i, (i < n)%nat -> fle 0 (f i)) -> fle 0 (sumn n f).
  Proof.
    induction n as [|n IH]; intros H; cbn [sumn]; [apply fle_refl|].
    replace 0 with (0 + 0) by ring. apply fle_add2; [apply IH; intros; apply H; lia|apply H; lia].
  Qed.
  Lemma sumn_le n (f g : nat -> F) :
    (forall i, (i < n)%nat -> fle (f i) (g i)) -> fle (sumn n f) (sumn n g).
  Proof.
    induction n as [|n IH]; intros H; cbn [sumn]; [apply fle_refl|].
    apply fle_add2; [apply IH; intros; apply H; lia|apply H; lia].
  Qed.
  Lemma sumn_ge_term n (f : nat -> F) k :
    (forall i, (i < n)%nat -> fle 0 (f i)) -> (k < n)%nat -> fle (f k) (sumn n f).
  Proof.
    induction n as [|n IH]; intros H Hk; [lia|]. cbn [sumn].
    destruct (Nat.eq_dec k n) as [->|Hne].
    - replace (f n) with (0 + f n) at 1 by ring. apply fle_add. apply sumn_nonneg. intros; apply H; lia.
    - replace (f k) with (f k + 0) by ring. apply fle_add2; [apply IH; [intros; apply H; lia|lia]|apply H; lia].
  Qed.
  Lemma sumn_zero_terms n (f : nat -> F) k :
    (forall i, (i < n)%nat -> fle 0 (f i)) -> sumn n f = 0 -> (k < n)%nat -> f k = 0.
  Proof.
    intros H E Hk. apply fle_antisym; [|apply H; exact Hk].
    rewrite <- E. now apply sumn_ge_term.
  Qed.

  (** min / max of x 0 .. x n *)
  Fixpoint fminn (n : nat) (x : nat -> F) : F :=
    match n with O => x 0%nat | S k => fmin (fminn k x) (x (S k)) end.
  Fixpoint fmaxn (n : nat) (x : nat -> F) : F :=
    match n with O => x 0%nat | S k => fmax (fmaxn k x) (x (S k)) end.
  Lemma fminn_le n x j : (j <= n)%nat -> fle (fminn n x) (x j).
  Proof.
    induction n as [|n IH]; intros Hj; cbn [fminn].
    - replace j with 0%nat by lia. apply fle_refl.
    - destruct (Nat.eq_dec j (S n)) as [->|Hne]; [apply fmin_le_r|].
      eapply fle_trans; [apply fmin_le_l|apply IH; lia].
  Qed.
  Lemma fmaxn_ge n x j : (j <= n)%nat -> fle (x j) (fmaxn n x).
  Proof.
    induction n as [|n IH]; intros Hj; cbn [fmaxn].
    - replace j with 0%nat by lia. apply fle_refl.
    - destruct (Nat.eq_dec j (S n)) as [->|Hne]; [apply fmax_ge_r|].
      eapply fle_trans; [apply IH; lia|apply fmax_ge_l].
  Qed.

  (** monotone chains *)
  Lemma chain_le (s : nat -> F) m :
    (forall j, (j < m)%nat -> fle (s j) (s (S j))) ->
    forall i j, (i <= j)%nat -> (j <= m)%nat -> fle (s i) (s j).
  Proof.
    intros H i j Hij Hj. induction j as [|j IH].
    - replace i with 0%nat by lia. apply fle_refl.
    - destruct (Nat.eq_dec i (S j)) as [->|Hne]; [apply fle_refl|].
      eapply fle_trans; [apply IH; lia|apply H; lia].
  Qed.

  (** *** overlap of two intervals *)
  Definition clip (lo hi x : F) : F := fmin hi (fmax lo x).

  Lemma ov_nonneg a b c d : fle 0 (ov a b c d).
  Proof. unfold ov. apply fmax_ge_r. Qed.

  Lemma ov_sym a b c d : ov a b c d = ov c d a b.
  Proof. unfold ov. now rewrite (fmin_comm b d), (fmax_comm a c). Qed.

  Lemma ov_eq0_iff a b c d : ov a b c d = 0 <-> fle (fmin b d) (fmax a c).
  Proof.
    unfold ov. set (u := fmin b d). set (l := fmax a c). split.
    - intros E. destruct (fle_or_lt u l) as [H|H]; [exact H|exfalso].
      rewrite fmax_l in E by (apply fle_sub_1; now apply flt_le).
      apply (fpos_neq0 (u - l)); [now apply flt_sub_pos|exact E].
    - intros H. apply fmax_r. now apply fle_sub_nonpos.
  Qed.

  Lemma ov_pos_iff a b c d : flt 0 (ov a b c d) <-> flt (fmax a c) (fmin b d).
  Proof.
    split; intros H.
    - apply flt_iff. intro H2. apply ov_eq0_iff in H2. rewrite H2 in H. now apply (flt_irrefl 0).
    - apply fle_neq_lt; [apply ov_nonneg|]. intro E. symmetry in E. apply ov_eq0_iff in E.
      apply flt_iff in H. now apply H.
  Qed.

  (** length of [lo,hi] /\ [c,d] as a difference of clipped end points *)
  Lemma ov_clip lo hi c d :
    fle lo hi -> fle c d -> ov lo hi c d = clip lo hi d - clip lo hi c.
  Proof.
    intros Hlh Hcd. unfold ov, clip.
    destruct (fle_total c lo) as [Hc|Hc].
    - (* c <= lo *)
      rewrite (fmax_l lo c Hc). rewrite (fmin_r hi lo Hlh).
      destruct (fle_total d lo) as [Hd|Hd].
      + rewrite (fmax_l lo d Hd). rewrite (fmin_r hi lo Hlh).
        rewrite (fmin_r hi d) by (eapply fle_trans; eauto).
        rewrite fmax_r by (now apply fle_sub_nonpos). ring.
      + rewrite (fmax_r lo d Hd).
        destruct (fle_total d hi) as [Hd2|Hd2].
        * rewrite (fmin_r hi d Hd2). rewrite fmax_l by (now apply fle_sub_1). ring.
        * rewrite (fmin_l hi d Hd2). rewrite fmax_l by (now apply fle_sub_1). ring.
    - (* lo <= c *)
      rewrite (fmax_r lo c Hc).
      assert (Hd : fle lo d) by (eapply fle_trans; eauto).
      rewrite (fmax_r lo d Hd).
      destruct (fle_total c hi) as [Hc2|Hc2].
      + rewrite (fmin_r hi c Hc2).
        destruct (fle_total d hi) as [Hd2|Hd2].
        * rewrite (fmin_r hi d Hd2). rewrite fmax_l by (now apply fle_sub_1). ring.
        * rewrite (fmin_l hi d Hd2). rewrite fmax_l by (now apply fle_sub_1). ring.
      + rewrite (fmin_l hi c Hc2).
        assert (Hd2 : fle hi d) by (eapply fle_trans; eauto).
        rewrite (fmin_l hi d Hd2). rewrite fmax_r by (now apply fle_sub_nonpos). ring.
  Qed.

  Lemma ov_inside lo hi c d : fle c lo -> fle lo hi -> fle hi d -> ov lo hi c d = hi - lo.
  Proof.
    intros H1 H2 H3. unfold ov. rewrite (fmin_l hi d H3), (fmax_l lo c H1).
    apply fmax_l. now apply fle_sub_1.
  Qed.

  (** ** partition_overlap: the overlaps of [lo,hi] with the cells of a sorted
      boundary list add up to its overlap with the whole range. *)
  Theorem partition_overlap (s : nat -> F) m lo hi :
    (forall j, (j < m)%nat -> fle (s j) (s (S j))) -> fle lo hi ->
    sumn m (fun j => ov lo hi (s j) (s (S j))) = ov lo hi (s 0%nat) (s m).
  Proof.
    intros Hs Hlh.
    rewrite (sumn_ext m _ (fun j => clip lo hi (s (S j)) - clip lo hi (s j))).
    2:{ intros j Hj. apply ov_clip; [exact Hlh|now apply Hs]. }
    rewrite (sumn_telescope m (fun j => clip lo hi (s j))).
    symmetry. apply ov_clip; [exact Hlh|]. apply (chain_le s m Hs); lia.
  Qed.

  Corollary partition_overlap_inside (s : nat -> F) m lo hi :
    (forall j, (j < m)%nat -> fle (s j) (s (S j))) ->
    fle (s 0%nat) lo -> fle lo hi -> fle hi (s m) ->
    sumn m (fun j => ov lo hi (s j) (s (S j))) = hi - lo.
  Proof. intros Hs H1 H2 H3. rewrite partition_overlap by assumption. now apply ov_inside. Qed.
End Order.

Section Weights.
  Context {F : Type} {o : Ops F} {Oc : OrdFieldC o}.
  Add Field FFr1 : (field_c : FieldTh o).

  (** *** row-normalised weights (any non-negative overlap matrix) *)
  Variable m : nat.
  Variable w : nat -> nat -> F.
  Variable i : nat.
  Hypothesis w_nonneg : forall j, (j < m)%nat -> fle 0 (w i j).
  Hypothesis tot_nz : row_total m w i <> 0.

  Lemma row_total_pos : flt 0 (row_total m w i).
  Proof.
    apply fle_neq_lt; [apply sumn_nonneg; exact w_nonneg|]. intro E. now apply tot_nz.
  Qed.

  Theorem weights_nonneg j : (j < m)%nat -> fle 0 (normalize_rows m w i j).
  Proof. intros Hj. unfold normalize_rows. apply fdiv_pos; [now apply w_nonneg|apply row_total_pos]. Qed.

  Theorem rows_sum_to_one : sumn m (normalize_rows m w i) = 1.
  Proof.
    unfold normalize_rows.
    rewrite (sumn_ext m _ (fun j => (1 / row_total m w i) * w i j)).
    2:{ intros j _. cbv beta. field. exact tot_nz. }
    rewrite sumn_scal_l. fold (row_total m w i).
    field. exact tot_nz.
  Qed.

  Theorem constants_reproduced c : apply_weights m (normalize_rows m w) (fun _ => c) i = c.
  Proof.
    unfold apply_weights. rewrite sumn_scal_r.
    change (sumn m (fun j => normalize_rows m w i j)) with (sumn m (normalize_rows m w i)).
    rewrite rows_sum_to_one. ring.
  Qed.

  (** a convex combination lies between any bounds of the combined values *)
  Theorem range_preserved (x : nat -> F) lo hi :
    (forall j, (j < m)%nat -> fle lo (x j) /\ fle (x j) hi) ->
    fle lo (apply_weights m (normalize_rows m w) x i) /\
    fle (apply_weights m (normalize_rows m w) x i) hi.
  Proof.
    intros Hx. unfold apply_weights.
    assert (E1 : lo = sumn m (fun j => normalize_rows m w i j * lo)).
    { rewrite sumn_scal_r.
      change (sumn m (fun j => normalize_rows m w i j)) with (sumn m (normalize_rows m w i)).
      rewrite rows_sum_to_one. ring. }
    assert (E2 : hi = sumn m (fun j => normalize_rows m w i j * hi)).
    { rewrite sumn_scal_r.
      change (sumn m (fun j => normalize_rows m w i j)) with (sumn m (normalize_rows m w i)).
      rewrite rows_sum_to_one. ring. }
    split.
    - rewrite E1 at 1. apply sumn_le. intros j Hj. apply fle_mul_l; [now apply weights_nonneg|now apply Hx].
    - rewrite E2 at 1. apply sumn_le. intros j Hj. apply fle_mul_l; [now apply weights_nonneg|now apply Hx].
  Qed.

  Corollary range_preserved_minmax (x : nat -> F) :
    (0 < m)%nat ->
    fle (fminn (m - 1) x) (apply_weights m (normalize_rows m w) x i) /\
    fle (apply_weights m (normalize_rows m w) x i) (fmaxn (m - 1) x).
  Proof.
    intros Hm. apply range_preserved. intros j Hj. split; [apply fminn_le|apply fmaxn_ge]; lia.
  Qed.

  (** un-normalising: row total times the output is the overlap-weighted sum *)
  Lemma total_times_output (x : nat -> F) :
    row_total m w i * apply_weights m (normalize_rows m w) x i = sumn m (fun j => w i j * x j).
  Proof.
    unfold apply_weights. rewrite <- sumn_scal_l. apply sumn_ext. intros j _. cbv beta.
    unfold normalize_rows. field. exact tot_nz.
  Qed.
End Weights.

Section Conservation.
  Context {F : Type} {o : Ops F} {Oc : OrdFieldC o}.
  Add Field FFr2 : (field_c : FieldTh o).

  (** generic algebra: for any overlap matrix [w] with non-zero row totals,
      sum_i rowtotal_i * out_i = sum_j coltotal_j * x_j *)
  Lemma conservation_algebra n m (w : nat -> nat -> F) (x : nat -> F) :
    (forall i, (i < n)%nat -> row_total m w i <> 0) ->
    sumn n (fun i => row_total m w i * apply_weights m (normalize_rows m w) x i)
    = sumn m (fun j => sumn n (fun i => w i j) * x j).
  Proof.
    intros Hnz.
    rewrite (sumn_ext n _ (fun i => sumn m (fun j => w i j * x j))).
    2:{ intros i Hi. cbv beta. apply total_times_output. now apply Hnz. }
    rewrite sumn_exchange. apply sumn_ext. intros j _. cbv beta. now rewrite sumn_scal_r.
  Qed.

  (** *** vertical regridding: _interval_overlap / conservative_regrid_weights *)
  Section Vertical.
    Variables (n m : nat) (tb sb : nat -> F).
    Hypothesis tb_sorted : forall i, (i < n)%nat -> fle (tb i) (tb (S i)).
    Hypothesis sb_sorted : forall j, (j < m)%nat -> fle (sb j) (sb (S j)).

    Lemma interval_overlap_nonneg i j : fle 0 (interval_overlap sb tb i j).
    Proof. apply ov_nonneg. Qed.

    (** the two partition identities *)
    Lemma vert_row_total i : (i < n)%nat ->
      row_total m (interval_overlap sb tb) i = ov (tb i) (tb (S i)) (sb 0%nat) (sb m).
    Proof.
      intros Hi. unfold row_total, interval_overlap.
      exact (partition_overlap sb m (tb i) (tb (S i)) sb_sorted (tb_sorted i Hi)).
    Qed.
    Lemma vert_col_total j : (j < m)%nat ->
      sumn n (fun i => interval_overlap sb tb i j) = ov (sb j) (sb (S j)) (tb 0%nat) (tb n).
    Proof.
      intros Hj. unfold interval_overlap.
      rewrite (sumn_ext n _ (fun i => ov (sb j) (sb (S j)) (tb i) (tb (S i)))).
      2:{ intros i _. apply ov_sym. }
      exact (partition_overlap tb n (sb j) (sb (S j)) tb_sorted (sb_sorted j Hj)).
    Qed.

    (** a row can be normalised exactly when the target layer meets the source range *)
    Theorem vertical_row_nonzero_iff i : (i < n)%nat ->
      (row_total m (interval_overlap sb tb) i <> 0 <->
       flt (fmax (tb i) (sb 0%nat)) (fmin (tb (S i)) (sb m))).
    Proof.
      intros Hi. rewrite (vert_row_total i Hi). rewrite <- ov_pos_iff. split.
      - intros N. apply fle_neq_lt; [apply ov_nonneg|]. intro E. now apply N.
      - intros P. now apply fpos_neq0.
    Qed.

    Theorem vertical_rows i : (i < n)%nat ->
      flt (fmax (tb i) (sb 0%nat)) (fmin (tb (S i)) (sb m)) ->
      (forall j, (j < m)%nat -> fle 0 (vert_weights m sb tb i j)) /\
      sumn m (vert_weights m sb tb i) = 1.
    Proof.
      intros Hi Hx. apply (vertical_row_nonzero_iff i Hi) in Hx. split.
      - intros j Hj. apply weights_nonneg; auto. intros; apply interval_overlap_nonneg.
      - now apply rows_sum_to_one.
    Qed.

    (** thickness-weighted integral over the covered range *)
    Theorem vertical_integral_conserved (x : nat -> F) :
      (forall i, (i < n)%nat -> flt (fmax (tb i) (sb 0%nat)) (fmin (tb (S i)) (sb m))) ->
      sumn n (fun i => ov (tb i) (tb (S i)) (sb 0%nat) (sb m) * apply_weights m (vert_weights m sb tb) x i)
      = sumn m (fun j => ov (sb j) (sb (S j)) (tb 0%nat) (tb n) * x j).
    Proof.
      intros Hx.
      assert (Hnz : forall i, (i < n)%nat -> row_total m (interval_overlap sb tb) i <> 0).
      { intros i Hi. apply (vertical_row_nonzero_iff i Hi). now apply Hx. }
      rewrite (sumn_ext n _ (fun i => row_total m (interval_overlap sb tb) i *
                                      apply_weights m (normalize_rows m (interval_overlap sb tb)) x i)).
      2:{ intros i Hi. cbv beta. now rewrite (vert_row_total i Hi). }
      rewrite (conservation_algebra n m _ x Hnz).
      apply sumn_ext. intros j Hj. cbv beta. now rewrite (vert_col_total j Hj).
    Qed.

    (** same range, strictly increasing target: plain thickness weights *)
    Corollary vertical_integral_conserved_same_range (x : nat -> F) :
      (forall i, (i < n)%nat -> flt (tb i) (tb (S i))) ->
      tb 0%nat = sb 0%nat -> tb n = sb m ->
      sumn n (fun i => (tb (S i) - tb i) * apply_weights m (vert_weights m sb tb) x i)
      = sumn m (fun j => (sb (S j) - sb j) * x j).
    Proof.
      intros Hst E0 En.
      assert (Ti : forall i, (i < n)%nat -> ov (tb i) (tb (S i)) (sb 0%nat) (sb m) = tb (S i) - tb i).
      { intros i Hi. apply ov_inside; [rewrite <- E0; apply (chain_le tb n tb_sorted); lia
                                       |now apply tb_sorted
                                       |rewrite <- En; apply (chain_le tb n tb_sorted); lia]. }
      assert (Sj : forall j, (j < m)%nat -> ov (sb j) (sb (S j)) (tb 0%nat) (tb n) = sb (S j) - sb j).
      { intros j Hj. apply ov_inside; [rewrite E0; apply (chain_le sb m sb_sorted); lia
                                       |now apply sb_sorted
                                       |rewrite En; apply (chain_le sb m sb_sorted); lia]. }
      rewrite (sumn_ext n _ (fun i => ov (tb i) (tb (S i)) (sb 0%nat) (sb m) * apply_weights m (vert_weights m sb tb) x i)).
      2:{ intros i Hi. cbv beta. now rewrite (Ti i Hi). }
      rewrite vertical_integral_conserved.
      - apply sumn_ext. intros j Hj. cbv beta. now rewrite (Sj j Hj).
      - intros i Hi. apply ov_pos_iff. rewrite (Ti i Hi). apply flt_sub_pos. now apply Hst.
    Qed.
  End Vertical.

  (** *** latitude: the overlap computed through the sin tables is the overlap
      of the sin-intervals *)
  Definition sin_mono (n m : nat) (tb sb st ss : nat -> F) : Prop :=
    (forall i j, (i <= n)%nat -> (j <= m)%nat -> fle (tb i) (sb j) -> fle (st i) (ss j)) /\
    (forall i j, (i <= n)%nat -> (j <= m)%nat -> fle (sb j) (tb i) -> fle (ss j) (st i)) /\
    (forall i i', (i <= n)%nat -> (i' <= n)%nat -> fle (tb i) (tb i') -> fle (st i) (st i')) /\
    (forall j j', (j <= m)%nat -> (j' <= m)%nat -> fle (sb j) (sb j') -> fle (ss j) (ss j')).

  Lemma sel_overlap (L U sL sU : F) :
    (fle L U -> fle sL sU) -> (fle U L -> fle sU sL) ->
    ind (fltb L U) * (sU - sL) = fmax (sU - sL) 0.
  Proof.
    intros H1 H2. destruct (fltb L U) eqn:E.
    - apply fltb_true in E. rewrite fmax_l; [unfold ind; ring|].
      apply fle_sub_1, H1. now apply flt_le.
    - unfold fltb in E. apply Bool.negb_false_iff in E. rewrite fmax_r; [unfold ind; ring|].
      apply fle_sub_nonpos, H2. exact E.
  Qed.

  Theorem lat_overlap_is_ov n m (tb sb st ss : nat -> F) i j :
    sin_mono n m tb sb st ss -> (i < n)%nat -> (j < m)%nat ->
    lat_overlap tb sb st ss i j = ov (st i) (st (S i)) (ss j) (ss (S j)).
  Proof.
    intros (Hts & Hst & Htt & Hss) Hi Hj. unfold lat_overlap, ov. cbv zeta.
    destruct (fleb (tb (S i)) (sb (S j))) eqn:E1; destruct (fleb (tb i) (sb j)) eqn:E2.
    - rewrite (fmin_l (st (S i)) (ss (S j))) by (apply Hts; [lia|lia|exact E1]).
      rewrite (fmax_r (st i) (ss j)) by (apply Hts; [lia|lia|exact E2]).
      apply sel_overlap; intros H; [apply Hst|apply Hts]; auto; lia.
    - assert (E2' : fle (sb j) (tb i)) by (apply flt_le; exact E2).
      rewrite (fmin_l (st (S i)) (ss (S j))) by (apply Hts; [lia|lia|exact E1]).
      rewrite (fmax_l (st i) (ss j)) by (apply Hst; [lia|lia|exact E2']).
      apply sel_overlap; intros H; apply Htt; auto; lia.
    - assert (E1' : fle (sb (S j)) (tb (S i))) by (apply flt_le; exact E1).
      rewrite (fmin_r (st (S i)) (ss (S j))) by (apply Hst; [lia|lia|exact E1']).
      rewrite (fmax_r (st i) (ss j)) by (apply Hts; [lia|lia|exact E2]).
      apply sel_overlap; intros H; apply Hss; auto; lia.
    - assert (E1' : fle (sb (S j)) (tb (S i))) by (apply flt_le; exact E1).
      assert (E2' : fle (sb j) (tb i)) by (apply flt_le; exact E2).
      rewrite (fmin_r (st (S i)) (ss (S j))) by (apply Hst; [lia|lia|exact E1']).
      rewrite (fmax_l (st i) (ss j)) by (apply Hst; [lia|lia|exact E2']).
      apply sel_overlap; intros H; [apply Hts|apply Hst]; auto; lia.
  Qed.

  Section Latitude.
    Variables (n m : nat) (tb sb st ss : nat -> F).
    Hypothesis H_sin_mono : sin_mono n m tb sb st ss.
    Hypothesis H_st_incr : forall i, (i < n)%nat -> flt (st i) (st (S i)).
    Hypothesis H_ss_incr : forall j, (j < m)%nat -> fle (ss j) (ss (S j)).
    Hypothesis H_end0 : st 0%nat = ss 0%nat.
    Hypothesis H_end1 : st n = ss m.

    Let st_sorted : forall i, (i < n)%nat -> fle (st i) (st (S i)).
    Proof. intros i Hi. apply flt_le. now apply H_st_incr. Qed.

    Lemma lat_row_total i : (i < n)%nat ->
      row_total m (lat_overlap tb sb st ss) i = st (S i) - st i.
    Proof.
      intros Hi. unfold row_total.
      rewrite (sumn_ext m _ (fun j => ov (st i) (st (S i)) (ss j) (ss (S j)))).
      2:{ intros j Hj. now apply (lat_overlap_is_ov n m). }
      apply partition_overlap_inside; auto.
      - rewrite <- H_end0. apply (chain_le st n st_sorted); lia.
      - rewrite <- H_end1. apply (chain_le st n st_sorted); lia.
    Qed.

    Lemma lat_col_total j : (j < m)%nat ->
      sumn n (fun i => lat_overlap tb sb st ss i j) = ss (S j) - ss j.
    Proof.
      intros Hj.
      rewrite (sumn_ext n _ (fun i => ov (ss j) (ss (S j)) (st i) (st (S i)))).
      2:{ intros i Hi. cbv beta. rewrite (lat_overlap_is_ov n m) by assumption. apply ov_sym. }
      apply partition_overlap_inside; auto.
      - rewrite H_end0. apply (chain_le ss m H_ss_incr); lia.
      - rewrite H_end1. apply (chain_le ss m H_ss_incr); lia.
    Qed.

    Lemma lat_overlap_nonneg i j : (i < n)%nat -> (j < m)%nat -> fle 0 (lat_overlap tb sb st ss i j).
    Proof. intros Hi Hj. rewrite (lat_overlap_is_ov n m) by assumption. apply ov_nonneg. Qed.

    Lemma lat_row_nz i : (i < n)%nat -> row_total m (lat_overlap tb sb st ss) i <> 0.
    Proof. intros Hi. rewrite (lat_row_total i Hi). apply fpos_neq0, flt_sub_pos. now apply H_st_incr. Qed.

    Theorem latitude_rows i : (i < n)%nat ->
      (forall j, (j < m)%nat -> fle 0 (normalize_rows m (lat_overlap tb sb st ss) i j)) /\
      sumn m (normalize_rows m (lat_overlap tb sb st ss) i) = 1.
    Proof.
      intros Hi. split.
      - intros j Hj. apply weights_nonneg; auto. intros; now apply lat_overlap_nonneg. now apply lat_row_nz.
      - apply rows_sum_to_one. now apply lat_row_nz.
    Qed.

    (** area (sin-measure) weighted integral *)
    Theorem latitude_integral_conserved (x : nat -> F) :
      sumn n (fun i => (st (S i) - st i) * apply_weights m (normalize_rows m (lat_overlap tb sb st ss)) x i)
      = sumn m (fun j => (ss (S j) - ss j) * x j).
    Proof.
      rewrite (sumn_ext n _ (fun i => row_total m (lat_overlap tb sb st ss) i *
                                      apply_weights m (normalize_rows m (lat_overlap tb sb st ss)) x i)).
      2:{ intros i Hi. cbv beta. now rewrite (lat_row_total i Hi). }
      rewrite (conservation_algebra n m _ x lat_row_nz).
      apply sumn_ext. intros j Hj. cbv beta. now rewrite (lat_col_total j Hj).
    Qed.
  End Latitude.

  (** *** tensor product: conservation of the 2-D integral from the two 1-D
      column identities *)
  Lemma cons1 n m (A : nat -> F) (w : nat -> nat -> F) (y : nat -> F) :
    sumn n (fun a => A a * sumn m (fun b => w a b * y b))
    = sumn m (fun b => sumn n (fun a => A a * w a b) * y b).
  Proof.
    rewrite (sumn_ext n _ (fun a => sumn m (fun b => A a * w a b * y b))).
    2:{ intros a _. cbv beta. rewrite <- sumn_scal_l. apply sumn_ext. intros b _. cbv beta. ring. }
    rewrite sumn_exchange. apply sumn_ext. intros b _. cbv beta. now rewrite sumn_scal_r.
  Qed.

  Theorem tensor_integral_conserved na nb nc nd (A B C D : nat -> F)
          (wlon wlat : nat -> nat -> F) (f : nat -> nat -> F) :
    (forall b, (b < nb)%nat -> sumn na (fun a => A a * wlon a b) = B b) ->
    (forall d, (d < nd)%nat -> sumn nc (fun c => C c * wlat c d) = D d) ->
    sumn na (fun a => sumn nc (fun c => A a * C c * mean2 nb nd wlon wlat f a c))
    = sumn nb (fun b => sumn nd (fun d => B b * D d * f b d)).
  Proof.
    intros HB HD.
    (* out(a,c) = sum_b wlon a b * g c b,  g c b = sum_d wlat c d * f b d *)
    set (g := fun c b => sumn nd (fun d => wlat c d * f b d)).
    assert (M : forall a c, mean2 nb nd wlon wlat f a c = sumn nb (fun b => wlon a b * g c b)).
    { intros a c. unfold mean2, g. apply sumn_ext. intros b _. cbv beta.
      rewrite <- sumn_scal_l. apply sumn_ext. intros d _. cbv beta. ring. }
    rewrite sumn_exchange.
    rewrite (sumn_ext nc _ (fun c => C c * sumn nb (fun b => B b * g c b))).
    2:{ intros c _. cbv beta.
        rewrite (sumn_ext na _ (fun a => C c * (A a * sumn nb (fun b => wlon a b * g c b)))).
        2:{ intros a _. cbv beta. rewrite M. ring. }
        rewrite sumn_scal_l. f_equal. rewrite cons1. apply sumn_ext. intros b Hb. cbv beta.
        now rewrite (HB b Hb). }
    (* now sum_c C c * sum_b B b * g c b *)
    rewrite (sumn_ext nc _ (fun c => sumn nb (fun b => B b * (C c * g c b)))).
    2:{ intros c _. cbv beta. rewrite <- sumn_scal_l. apply sumn_ext. intros b _. cbv beta. ring. }
    rewrite sumn_exchange. apply sumn_ext. intros b _. cbv beta.
    rewrite sumn_scal_l.
    rewrite (sumn_ext nd _ (fun d => B b * (D d * f b d))).
    2:{ intros d _. cbv beta. ring. }
    rewrite sumn_scal_l. f_equal. unfold g. rewrite cons1.
    apply sumn_ext. intros d Hd. cbv beta. now rewrite (HD d Hd).
  Qed.
End Conservation.

Section Horizontal.
  Context {F : Type} {o : Ops F} {Oc : OrdFieldC o}.
  Add Field FFr3 : (field_c : FieldTh o).

  (** *** longitude (periodic overlap as coded) *)
  Lemma per_overlap_nonneg period x0 x1 y0 y1 : fle 0 (per_overlap period x0 x1 y0 y1).
  Proof.
    unfold per_overlap. cbv zeta.
    replace 0 with (0 + 0 + 0 + 0) at 1 by ring.
    repeat apply fle_add2; try apply fle_refl; apply fmax_ge_r.
  Qed.

  (** the coded periodic overlap is the sum of the overlaps with the three
      images (offsets -period, 0, +period) of the second interval moved as a
      whole by [shift = align(y0,x0) - y0] *)
  Lemma per_overlap_images period x0 x1 y0 y1 :
    let s := align_phase y0 x0 period - y0 in
    per_overlap period x0 x1 y0 y1
    = ov x0 x1 (y0 + s + - period) (y1 + s + - period) + ov x0 x1 (y0 + s + 0) (y1 + s + 0)
      + ov x0 x1 (y0 + s + period) (y1 + s + period).
  Proof. cbv zeta. unfold per_overlap, ov. cbv zeta. ring. Qed.

  Lemma lon_overlap_nonneg period n m tp sp i j : fle 0 (lon_overlap period n m tp sp i j).
  Proof. apply per_overlap_nonneg. Qed.

  Definition cell_width (n : nat) (period : F) (p : nat -> F) (i : nat) : F :=
    per_upper n period p i - per_lower n period p i.

  (** the periodic partition identity (NOT proved here: hypothesis of the
      horizontal conservation theorem, explored by the oracles) *)
  Definition lon_partition (period : F) (n m : nat) (tp sp : nat -> F) : Prop :=
    (forall i, (i < n)%nat -> row_total m (lon_overlap period n m tp sp) i = cell_width n period tp i) /\
    (forall j, (j < m)%nat -> sumn n (fun i => lon_overlap period n m tp sp i j) = cell_width m period sp j).

  Theorem longitude_rows_partial period n m tp sp i :
    row_total m (lon_overlap period n m tp sp) i <> 0 ->
    (forall j, (j < m)%nat -> fle 0 (lon_weights period n m tp sp i j)) /\
    sumn m (lon_weights period n m tp sp i) = 1 /\
    (forall c, apply_weights m (lon_weights period n m tp sp) (fun _ => c) i = c) /\
    (forall x lo hi, (forall j, (j < m)%nat -> fle lo (x j) /\ fle (x j) hi) ->
        fle lo (apply_weights m (lon_weights period n m tp sp) x i) /\
        fle (apply_weights m (lon_weights period n m tp sp) x i) hi).
  Proof.
    intros Hnz. unfold lon_weights.
    assert (Hnn : forall j, (j < m)%nat -> fle 0 (lon_overlap period n m tp sp i j))
      by (intros; apply lon_overlap_nonneg).
    repeat split.
    - intros j Hj. now apply weights_nonneg.
    - now apply rows_sum_to_one.
    - intros c. now apply constants_reproduced.
    - now apply (range_preserved m _ i Hnn Hnz x lo hi).
    - now apply (range_preserved m _ i Hnn Hnz x lo hi).
  Qed.

  (** column identity of a row-normalised overlap matrix whose row totals are the target measures *)
  Lemma normalized_column_identity n m (w : nat -> nat -> F) (A B : nat -> F) :
    (forall i, (i < n)%nat -> row_total m w i = A i) ->
    (forall i, (i < n)%nat -> A i <> 0) ->
    (forall j, (j < m)%nat -> sumn n (fun i => w i j) = B j) ->
    forall j, (j < m)%nat -> sumn n (fun i => A i * normalize_rows m w i j) = B j.
  Proof.
    intros HA Hnz HB j Hj. rewrite <- (HB j Hj). apply sumn_ext. intros i Hi. cbv beta.
    unfold normalize_rows. rewrite (HA i Hi). field. now apply Hnz.
  Qed.

  Theorem horizontal_integral_conserved_partial
          period na nb (tp sp : nat -> F)             (* longitudes reduced mod period *)
          nc nd (tb sb st ss : nat -> F)              (* latitude bounds and their sin tables *)
          (f : nat -> nat -> F) :
    lon_partition period na nb tp sp ->
    (forall a, (a < na)%nat -> cell_width na period tp a <> 0) ->
    sin_mono nc nd tb sb st ss ->
    (forall c, (c < nc)%nat -> flt (st c) (st (S c))) ->
    (forall d, (d < nd)%nat -> fle (ss d) (ss (S d))) ->
    st 0%nat = ss 0%nat -> st nc = ss nd ->
    sumn na (fun a => sumn nc (fun c => cell_width na period tp a * (st (S c) - st c) *
        mean2 nb nd (lon_weights period na nb tp sp) (normalize_rows nd (lat_overlap tb sb st ss)) f a c))
    = sumn nb (fun b => sumn nd (fun d => cell_width nb period sp b * (ss (S d) - ss d) * f b d)).
  Proof.
    intros (Hrow & Hcol) Hw Hmono Hst Hss E0 E1.
    apply tensor_integral_conserved.
    - unfold lon_weights. apply normalized_column_identity; auto.
    - apply normalized_column_identity.
      + intros c Hc. now apply (lat_row_total nc nd tb sb st ss).
      + intros c Hc. apply fpos_neq0, flt_sub_pos. now apply Hst.
      + intros d Hd. now apply (lat_col_total nc nd tb sb st ss).
  Qed.

  (** *** ConservativeRegridder.__call__ : NaN bookkeeping *)
  Lemma fabs_nonpos x : fle x 0 -> fabs x = - x.
  Proof.
    intros H. unfold fabs. destruct (fleb 0 x) eqn:E; [|reflexivity].
    assert (x = 0) by (apply fle_antisym; [exact H|exact E]). subst x. ring.
  Qed.

  Section Nan.
    Variables (nb nd : nat) (wlon wlat : nat -> nat -> F) (a c : nat).
    Hypothesis lon_nonneg : forall b, (b < nb)%nat -> fle 0 (wlon a b).
    Hypothesis lat_nonneg : forall d, (d < nd)%nat -> fle 0 (wlat c d).
    Hypothesis lon_sum : sumn nb (wlon a) = 1.
    Hypothesis lat_sum : sumn nd (wlat c) = 1.
    Variable field : nat -> nat -> option F.

    (** weight of source cell (b,d) in output cell (a,c) *)
    Definition W (b d : nat) : F := wlon a b * wlat c d.
    Definition mean_of (g : nat -> nat -> F) : F := mean2 nb nd wlon wlat g a c.
    Definition nan_weight : F := mean_of (fun b d => 1 - notnull (field b d)).
    Definition frac : F := mean_of (fun b d => notnull (field b d)).
    Definition mean : F := mean_of (fun b d => val0 (field b d)).

    Lemma W_nonneg b d : (b < nb)%nat -> (d < nd)%nat -> fle 0 (W b d).
    Proof. intros Hb Hd. apply fle_mul_pos; auto. Qed.

    Lemma mean_of_nonneg g :
      (forall b d, (b < nb)%nat -> (d < nd)%nat -> fle 0 (W b d * g b d)) -> fle 0 (mean_of g).
    Proof.
      intros H. unfold mean_of, mean2. apply sumn_nonneg. intros b Hb. apply sumn_nonneg. intros d Hd.
      now apply H.
    Qed.
    Lemma mean_of_le g h :
      (forall b d, (b < nb)%nat -> (d < nd)%nat -> fle (W b d * g b d) (W b d * h b d)) ->
      fle (mean_of g) (mean_of h).
    Proof.
      intros H. unfold mean_of, mean2. apply sumn_le. intros b Hb. apply sumn_le. intros d Hd. now apply H.
    Qed.
    Lemma mean_of_ge_term g b d :
      (forall b d, (b < nb)%nat -> (d < nd)%nat -> fle 0 (W b d * g b d)) ->
      (b < nb)%nat -> (d < nd)%nat -> fle (W b d * g b d) (mean_of g).
    Proof.
      intros H Hb Hd. unfold mean_of, mean2.
      eapply fle_trans; [|apply (sumn_ge_term nb _ b); [|exact Hb]].
      - cbv beta. apply (sumn_ge_term nd (fun d => wlon a b * wlat c d * g b d) d); [|exact Hd].
        intros d' Hd'. now apply H.
      - intros b' Hb'. cbv beta. apply sumn_nonneg. intros d' Hd'. now apply H.
    Qed.
    Lemma mean_of_zero_terms g b d :
      (forall b d, (b < nb)%nat -> (d < nd)%nat -> fle 0 (W b d * g b d)) ->
      mean_of g = 0 -> (b < nb)%nat -> (d < nd)%nat -> W b d * g b d = 0.
    Proof.
      intros H E Hb Hd. apply fle_antisym; [|now apply H]. rewrite <- E. now apply mean_of_ge_term.
    Qed.
    Lemma mean_of_all_zero g :
      (forall b d, (b < nb)%nat -> (d < nd)%nat -> W b d * g b d = 0) -> mean_of g = 0.
    Proof.
      intros H. unfold mean_of, mean2. apply sumn_zero. intros b Hb. apply sumn_zero. intros d Hd. now apply H.
    Qed.
    Lemma mean_of_add g h : mean_of (fun b d => g b d + h b d) = mean_of g + mean_of h.
    Proof.
      unfold mean_of, mean2. rewrite <- sumn_add. apply sumn_ext. intros b _. cbv beta.
      rewrite <- sumn_add. apply sumn_ext. intros d _. cbv beta. ring.
    Qed.
    Lemma mean_of_scal k g : mean_of (fun b d => k * g b d) = k * mean_of g.
    Proof.
      unfold mean_of, mean2. rewrite <- sumn_scal_l. apply sumn_ext. intros b _. cbv beta.
      rewrite <- sumn_scal_l. apply sumn_ext. intros d _. cbv beta. ring.
    Qed.
    Lemma mean_of_one : mean_of (fun _ _ => 1) = 1.
    Proof.
      unfold mean_of, mean2.
      rewrite (sumn_ext nb _ (fun b => wlon a b * 1)).
      2:{ intros b _. cbv beta.
          rewrite (sumn_ext nd _ (fun d => wlon a b * wlat c d)) by (intros; cbv beta; ring).
          rewrite sumn_scal_l. fold (sumn nd (wlat c)).
          replace (sumn nd (fun i => wlat c i)) with (sumn nd (wlat c)) by reflexivity.
          now rewrite lat_sum. }
      rewrite sumn_scal_r. replace (sumn nb (fun i => wlon a i)) with (sumn nb (wlon a)) by reflexivity.
      rewrite lon_sum. ring.
    Qed.

    Lemma frac_plus_nan_weight : frac + nan_weight = 1.
    Proof.
      unfold frac, nan_weight. rewrite <- mean_of_add.
      transitivity (mean_of (fun _ _ => 1)); [|apply mean_of_one].
      unfold mean_of, mean2. apply sumn_ext. intros b _. apply sumn_ext. intros d _. cbv beta. ring.
    Qed.

    Lemma notnull_cases v : (notnull v = 1 /\ exists x, v = Some x) \/ (notnull v = 0 /\ v = None).
    Proof. destruct v as [x|]; [left; split; [reflexivity|now exists x]|right; split; reflexivity]. Qed.

    Lemma nan_weight_nonneg : fle 0 nan_weight.
    Proof.
      apply mean_of_nonneg. intros b d Hb Hd.
      apply fle_mul_pos; [now apply W_nonneg|].
      destruct (field b d); cbn [notnull].
      - replace (1 - 1) with 0 by ring. apply fle_refl.
      - replace (1 - 0) with 1 by ring. apply fle_0_1.
    Qed.

    Lemma frac_nonneg : fle 0 frac.
    Proof.
      apply mean_of_nonneg. intros b d Hb Hd. apply fle_mul_pos; [now apply W_nonneg|].
      destruct (field b d); cbn [notnull]; [apply fle_0_1|apply fle_refl].
    Qed.

    (** **** skipna = False *)
    Theorem nan_strict_iff tol :
      regrid_call false tol nb nd wlon wlat field a c = None <-> flt tol nan_weight.
    Proof.
      unfold regrid_call. cbv zeta. change (mean2 nb nd wlon wlat (fun b d => val0 (field b d)) a c) with mean. change (mean2 nb nd wlon wlat (fun b d => notnull (field b d)) a c) with frac.
      assert (E : fabs (frac - 1) = nan_weight).
      { rewrite fabs_nonpos.
        - rewrite <- frac_plus_nan_weight. ring.
        - rewrite <- frac_plus_nan_weight. replace (frac - (frac + nan_weight)) with (- nan_weight) by ring.
          replace 0 with (- 0) by ring. apply fle_opp. apply nan_weight_nonneg. }
      unfold isclose1. rewrite E.
      destruct (fleb nan_weight tol) eqn:T.
      - split; [discriminate|]. intros H. unfold flt in H. rewrite H in T. discriminate.
      - split; [intros _; exact T|reflexivity].
    Qed.

    (** no overlapping source cell is NaN: the result is the plain weighted mean *)
    Theorem nan_strict_clean tol :
      fle 0 tol ->
      (forall b d, (b < nb)%nat -> (d < nd)%nat -> flt 0 (W b d) -> field b d <> None) ->
      regrid_call false tol nb nd wlon wlat field a c = Some mean.
    Proof.
      intros Htol Hclean.
      assert (Z : nan_weight = 0).
      { apply mean_of_all_zero. intros b d Hb Hd.
        destruct (fle_lt_or_eq 0 (W b d) (W_nonneg b d Hb Hd)) as [P|P].
        - destruct (notnull_cases (field b d)) as [(E & _)|(_ & E)].
          + rewrite E. ring.
          + exfalso. now apply (Hclean b d Hb Hd P).
        - rewrite <- P. ring. }
      assert (Fr : frac = 1) by (rewrite <- frac_plus_nan_weight, Z; ring).
      destruct (regrid_call false tol nb nd wlon wlat field a c) eqn:R.
      - unfold regrid_call in R. cbv zeta in R. change (mean2 nb nd wlon wlat (fun b d => val0 (field b d)) a c) with mean in R.
        change (mean2 nb nd wlon wlat (fun b d => notnull (field b d)) a c) with frac in R.
        destruct (isclose1 tol frac); [|discriminate]. injection R as <-. f_equal.
        rewrite Fr. field. intro H. apply f01. now symmetry.
      - exfalso. apply nan_strict_iff in R. rewrite Z in R. apply flt_iff in R. now apply R.
    Qed.

    (** an overlapping NaN cell heavier than the isclose slack makes the output NaN *)
    Theorem nan_strict_propagates tol b d :
      (b < nb)%nat -> (d < nd)%nat -> field b d = None -> flt tol (W b d) ->
      regrid_call false tol nb nd wlon wlat field a c = None.
    Proof.
      intros Hb Hd Hn Hw. apply nan_strict_iff.
      eapply flt_le_trans; [exact Hw|].
      assert (T : W b d = W b d * (1 - notnull (field b d))) by (rewrite Hn; cbn [notnull]; ring).
      rewrite T. apply (mean_of_ge_term (fun b d => 1 - notnull (field b d))); auto.
      intros b' d' Hb' Hd'. apply fle_mul_pos; [now apply W_nonneg|].
      destruct (field b' d'); cbn [notnull].
      - replace (1 - 1) with 0 by ring. apply fle_refl.
      - replace (1 - 0) with 1 by ring. apply fle_0_1.
    Qed.

    (** **** skipna = True *)
    Lemma frac_zero_iff :
      frac = 0 <-> (forall b d, (b < nb)%nat -> (d < nd)%nat -> flt 0 (W b d) -> field b d = None).
    Proof.
      assert (NN : forall b d, (b < nb)%nat -> (d < nd)%nat -> fle 0 (W b d * notnull (field b d))).
      { intros b d Hb Hd. apply fle_mul_pos; [now apply W_nonneg|].
        destruct (field b d); cbn [notnull]; [apply fle_0_1|apply fle_refl]. }
      split.
      - intros E b d Hb Hd P.
        pose proof (mean_of_zero_terms (fun b d => notnull (field b d)) b d NN E Hb Hd) as Z.
        destruct (notnull_cases (field b d)) as [(E1 & _)|(_ & E1)]; [|exact E1].
        exfalso. cbv beta in Z. rewrite E1 in Z. apply (fpos_neq0 _ P). rewrite <- Z. ring.
      - intros H. apply mean_of_all_zero. intros b d Hb Hd.
        destruct (fle_lt_or_eq 0 (W b d) (W_nonneg b d Hb Hd)) as [P|P].
        + rewrite (H b d Hb Hd P). cbn [notnull]. ring.
        + rewrite <- P. ring.
    Qed.

    Theorem nan_skipna_iff tol :
      regrid_call true tol nb nd wlon wlat field a c = None <->
      (forall b d, (b < nb)%nat -> (d < nd)%nat -> flt 0 (W b d) -> field b d = None).
    Proof.
      rewrite <- frac_zero_iff.
      unfold regrid_call. cbv zeta. change (mean2 nb nd wlon wlat (fun b d => val0 (field b d)) a c) with mean.
      change (mean2 nb nd wlon wlat (fun b d => notnull (field b d)) a c) with frac.
      destruct (feqb frac 0) eqn:E.
      - apply feqb_spec in E. split; auto.
      - split; [discriminate|]. intros Z. apply feqb_spec in Z. rewrite Z in E. discriminate.
    Qed.

    (** otherwise the result is the weight-renormalised mean of the non-NaN
        overlapping cells and lies within their range *)
    Theorem nan_skipna_value tol v lo hi :
      regrid_call true tol nb nd wlon wlat field a c = Some v ->
      (forall b d x, (b < nb)%nat -> (d < nd)%nat -> flt 0 (W b d) -> field b d = Some x ->
                     fle lo x /\ fle x hi) ->
      frac <> 0 /\ v = mean / frac /\ fle lo v /\ fle v hi.
    Proof.
      intros R Hr.
      unfold regrid_call in R. cbv zeta in R. change (mean2 nb nd wlon wlat (fun b d => val0 (field b d)) a c) with mean in R.
      change (mean2 nb nd wlon wlat (fun b d => notnull (field b d)) a c) with frac in R.
      destruct (feqb frac 0) eqn:E; [discriminate|]. injection R as <-.
      assert (Fnz : frac <> 0) by (intro Z; apply feqb_spec in Z; rewrite Z in E; discriminate).
      assert (Fpos : flt 0 frac) by (apply fle_neq_lt; [apply frac_nonneg|intro Z; now apply Fnz]).
      assert (Lo : fle (lo * frac) mean).
      { unfold frac, mean. rewrite <- mean_of_scal. apply mean_of_le. intros b d Hb Hd.
        destruct (fle_lt_or_eq 0 (W b d) (W_nonneg b d Hb Hd)) as [P|P].
        - apply fle_mul_l; [now apply flt_le|].
          destruct (field b d) as [x|] eqn:Fx; cbn [notnull val0].
          + replace (lo * 1) with lo by ring. now apply (Hr b d x Hb Hd P).
          + replace (lo * 0) with 0 by ring. apply fle_refl.
        - rewrite <- P. apply fle_eq. ring. }
      assert (Hi : fle mean (hi * frac)).
      { unfold frac, mean. rewrite <- mean_of_scal. apply mean_of_le. intros b d Hb Hd.
        destruct (fle_lt_or_eq 0 (W b d) (W_nonneg b d Hb Hd)) as [P|P].
        - apply fle_mul_l; [now apply flt_le|].
          destruct (field b d) as [x|] eqn:Fx; cbn [notnull val0].
          + replace (hi * 1) with hi by ring. now apply (Hr b d x Hb Hd P).
          + replace (hi * 0) with 0 by ring. apply fle_refl.
        - rewrite <- P. apply fle_eq. ring. }
      repeat split; auto.
      - apply fle_sub_2. replace (mean / frac - lo) with ((mean - lo * frac) / frac) by (field; exact Fnz).
        apply fdiv_pos; [now apply fle_sub_1|exact Fpos].
      - apply fle_sub_2. replace (hi - mean / frac) with ((hi * frac - mean) / frac) by (field; exact Fnz).
        apply fdiv_pos; [now apply fle_sub_1|exact Fpos].
    Qed.
  End Nan.
End Horizontal.

(** *** latitude over the reals: the tables are the real [sin] of the cell
    bounds, so all table hypotheses become theorems *)
From Dino Require Import Base.Inst.
From Coq Require Import Reals Lra.

Section LatitudeR.
  Local Open Scope R_scope.

  Lemma lat_bounds_R_eq (hpi : R) n (x : nat -> R) k :
    @lat_bounds R ROps hpi n x k =
    if Nat.eqb k 0 then - hpi else if Nat.ltb k n then (x (k - 1)%nat + x k) / 2 else hpi.
  Proof.
    unfold lat_bounds, two. cbn.
    destruct (Nat.eqb k 0); [reflexivity|]. destruct (Nat.ltb k n); [|reflexivity].
    replace (1 + 1) with 2 by lra. reflexivity.
  Qed.

  Lemma incr_chain_R (x : nat -> R) n :
    (forall i, (S i < n)%nat -> x i < x (S i)) ->
    forall i j, (i < j)%nat -> (j < n)%nat -> x i < x j.
  Proof.
    intros H i j Hij Hj. induction j as [|j IH]; [lia|].
    destruct (Nat.eq_dec i j) as [->|Hne]; [now apply H|].
    apply Rlt_trans with (x j); [apply IH; lia|now apply H].
  Qed.

  Lemma lat_bounds_R_facts (hpi : R) n (x : nat -> R) :
    0 < hpi -> (0 < n)%nat ->
    (forall i, (S i < n)%nat -> x i < x (S i)) ->
    - hpi <= x 0%nat -> x (n - 1)%nat <= hpi ->
    (forall k, (k < n)%nat -> @lat_bounds R ROps hpi n x k < @lat_bounds R ROps hpi n x (S k)) /\
    (forall k, (k <= n)%nat -> - hpi <= @lat_bounds R ROps hpi n x k <= hpi).
  Proof.
    intros Hh Hn Hinc H0 H1.
    pose proof (incr_chain_R x n Hinc) as Hch.
    assert (Hlo : forall i, (i < n)%nat -> - hpi <= x i).
    { intros i Hi. destruct (Nat.eq_dec i 0) as [->|Hne]; [exact H0|].
      apply Rle_trans with (x 0%nat); [exact H0|]. left. apply Hch; lia. }
    assert (Hhi : forall i, (i < n)%nat -> x i <= hpi).
    { intros i Hi. destruct (Nat.eq_dec i (n - 1)) as [->|Hne]; [exact H1|].
      apply Rle_trans with (x (n - 1)%nat); [|exact H1]. left. apply Hch; lia. }
    split.
    - intros k Hk. rewrite !lat_bounds_R_eq.
      destruct (Nat.eqb_spec k 0) as [->|Hk0].
      + cbn [Nat.eqb]. destruct (Nat.ltb_spec 1 n) as [Hn1|Hn1].
        * cbn [Nat.sub]. pose proof (Hlo 0%nat ltac:(lia)). pose proof (Hinc 0%nat ltac:(lia)). lra.
        * lra.
      + destruct (Nat.eqb_spec (S k) 0); [lia|].
        destruct (Nat.ltb_spec k n); [|lia].
        replace (S k - 1)%nat with k by lia.
        pose proof (Hinc (k - 1)%nat ltac:(lia)) as Hi1. replace (S (k - 1)) with k in Hi1 by lia.
        destruct (Nat.ltb_spec (S k) n) as [Hn1|Hn1].
        * pose proof (Hinc k ltac:(lia)). lra.
        * pose proof (Hhi k ltac:(lia)). lra.
    - intros k Hk. rewrite lat_bounds_R_eq.
      destruct (Nat.eqb_spec k 0); [lra|]. destruct (Nat.ltb_spec k n); [|lra].
      pose proof (Hlo (k - 1)%nat ltac:(lia)). pose proof (Hlo k ltac:(lia)).
      pose proof (Hhi (k - 1)%nat ltac:(lia)). pose proof (Hhi k ltac:(lia)). lra.
  Qed.

  Lemma sin_mono_le u v :
    - (PI / 2) <= u <= PI / 2 -> - (PI / 2) <= v <= PI / 2 -> u <= v -> sin u <= sin v.
  Proof.
    intros Hu Hv H. apply sin_incr_1; lra.
  Qed.

  (** the table hypotheses of the latitude theorems hold for the real sin *)
  Lemma lat_tables_R n m (tx sx : nat -> R) :
    (0 < n)%nat -> (0 < m)%nat ->
    (forall i, (S i < n)%nat -> tx i < tx (S i)) -> - (PI / 2) <= tx 0%nat -> tx (n - 1)%nat <= PI / 2 ->
    (forall j, (S j < m)%nat -> sx j < sx (S j)) -> - (PI / 2) <= sx 0%nat -> sx (m - 1)%nat <= PI / 2 ->
    let tb := @lat_bounds R ROps (PI / 2) n tx in
    let sb := @lat_bounds R ROps (PI / 2) m sx in
    let st := fun k => sin (tb k) in
    let ss := fun k => sin (sb k) in
    @sin_mono R ROps n m tb sb st ss /\
    (forall i, (i < n)%nat -> st i < st (S i)) /\
    (forall j, (j < m)%nat -> ss j <= ss (S j)) /\
    st 0%nat = ss 0%nat /\ st n = ss m.
  Proof.
    intros Hn Hm Hti Ht0 Ht1 Hsi Hs0 Hs1 tb sb st ss.
    assert (Hpi : 0 < PI / 2) by (pose proof PI_RGT_0; lra).
    destruct (lat_bounds_R_facts (PI / 2) n tx Hpi Hn Hti Ht0 Ht1) as [Tinc Trng].
    destruct (lat_bounds_R_facts (PI / 2) m sx Hpi Hm Hsi Hs0 Hs1) as [Sinc Srng].
    fold tb in Tinc, Trng. fold sb in Sinc, Srng.
    split; [|split; [|split; [|split]]].
    - repeat split; intros; apply fle_R; apply sin_mono_le; auto; now apply fle_R.
    - intros i Hi. unfold st. apply sin_increasing_1; try apply Trng; try lia. now apply Tinc.
    - intros j Hj. unfold ss. apply sin_mono_le; try apply Srng; try lia. left. now apply Sinc.
    - unfold st, ss, tb, sb. rewrite !lat_bounds_R_eq. reflexivity.
    - unfold st, ss, tb, sb. rewrite !lat_bounds_R_eq.
      destruct (Nat.eqb_spec n 0); [lia|]. destruct (Nat.eqb_spec m 0); [lia|].
      rewrite !Nat.ltb_irrefl. reflexivity.
  Qed.

  Theorem latitude_integral_conserved_R n m (tx sx x : nat -> R) :
    (0 < n)%nat -> (0 < m)%nat ->
    (forall i, (S i < n)%nat -> tx i < tx (S i)) -> - (PI / 2) <= tx 0%nat -> tx (n - 1)%nat <= PI / 2 ->
    (forall j, (S j < m)%nat -> sx j < sx (S j)) -> - (PI / 2) <= sx 0%nat -> sx (m - 1)%nat <= PI / 2 ->
    let tb := @lat_bounds R ROps (PI / 2) n tx in
    let sb := @lat_bounds R ROps (PI / 2) m sx in
    let st := fun k => sin (tb k) in
    let ss := fun k => sin (sb k) in
    @sumn R ROps n (fun i => (st (S i) - st i) *
                             @apply_weights R ROps m (@lat_weights R ROps (PI / 2) n m tx sx st ss) x i)
    = @sumn R ROps m (fun j => (ss (S j) - ss j) * x j).
  Proof.
    intros Hn Hm Hti Ht0 Ht1 Hsi Hs0 Hs1 tb sb st ss.
    destruct (lat_tables_R n m tx sx Hn Hm Hti Ht0 Ht1 Hsi Hs0 Hs1) as (M & I1 & I2 & E0 & E1).
    apply (@latitude_integral_conserved R ROps ROrd n m tb sb st ss); auto.
    - intros i Hi. apply flt_R. now apply I1.
    - intros j Hj. apply fle_R. now apply I2.
  Qed.
End LatitudeR.

(** *** periodic overlap over the reals, pointwise facts (case analysis + lra) *)
Section PeriodicR.
  Local Open Scope R_scope.
  Ltac no_dec t := lazymatch t with context [Rle_dec _ _] => fail | _ => idtac end.
  Ltac split_le :=
    repeat (match goal with
            | |- context [Rle_dec ?a ?b] => no_dec a; no_dec b; destruct (Rle_dec a b); cbn; try (exfalso; lra)
            end).
  Ltac unfold_pov :=
    unfold per_overlap, align_phase, fmax, fmin, fltb, ind, two; cbn; unfold Rleb;
    replace (1 + 1) with 2 by lra.

  (** a full-period interval overlaps any cell not wider than the period by the whole cell *)
  Lemma pov_full_R (P x0 x1 u : R) :
    0 < P -> x0 <= x1 -> x1 - x0 <= P -> - (3 * P / 2) < u - x0 < 3 * P / 2 ->
    @per_overlap R ROps P x0 x1 u (u + P) = x1 - x0.
  Proof. intros HP Hx Hw Hr. unfold_pov. split_le; cbn; lra. Qed.

  Lemma pov_empty_R (P x0 x1 u : R) :
    0 < P -> x0 <= x1 -> @per_overlap R ROps P x0 x1 u u = 0.
  Proof. intros HP Hx. unfold_pov. split_le; cbn; lra. Qed.
End PeriodicR.

(** *** cyclic index shift and telescoping (any field) *)
Section Cyclic.
  Context {F : Type} {o : Ops F} {Fc : FieldC o}.
  Add Field FFcyc : (field_c : FieldTh o).

  Definition nxt (n j : nat) : nat := if Nat.eqb (S j) n then 0%nat else S j.
  Definition prv (n j : nat) : nat := if Nat.eqb j 0 then (n - 1)%nat else (j - 1)%nat.

  Lemma nxt_lt n j : (j < n)%nat -> (nxt n j < n)%nat.
  Proof. intros H. unfold nxt. destruct (Nat.eqb_spec (S j) n); lia. Qed.
  Lemma prv_lt n j : (j < n)%nat -> (prv n j < n)%nat.
  Proof. intros H. unfold prv. destruct (Nat.eqb_spec j 0); lia. Qed.
  Lemma nxt_prv n j : (j < n)%nat -> nxt n (prv n j) = j.
  Proof.
    intros H. unfold nxt, prv. destruct (Nat.eqb_spec j 0) as [->|Hj].
    - destruct (Nat.eqb_spec (S (n - 1)) n); lia.
    - destruct (Nat.eqb_spec (S (j - 1)) n); lia.
  Qed.
  Lemma prv_nxt n j : (j < n)%nat -> prv n (nxt n j) = j.
  Proof.
    intros H. unfold nxt, prv. destruct (Nat.eqb_spec (S j) n) as [E|E]; cbn [Nat.eqb]; lia.
  Qed.
  Lemma nxt_mod n j : (j < n)%nat -> Nat.modulo (j + 1) n = nxt n j.
  Proof.
    intros H. unfold nxt. destruct (Nat.eqb_spec (S j) n) as [E|E].
    - replace (j + 1)%nat with n by lia. apply Nat.mod_same. lia.
    - rewrite Nat.mod_small; lia.
  Qed.
  Lemma prv_mod n j : (j < n)%nat -> Nat.modulo (j + n - 1) n = prv n j.
  Proof.
    intros H. unfold prv. destruct (Nat.eqb_spec j 0) as [->|E].
    - replace (0 + n - 1)%nat with (n - 1)%nat by lia. rewrite Nat.mod_small; lia.
    - replace (j + n - 1)%nat with ((j - 1) + 1 * n)%nat by lia.
      rewrite Nat.mod_add by lia. rewrite Nat.mod_small; lia.
  Qed.

  Lemma sumn_cyclic n (f : nat -> F) : sumn n (fun j => f (nxt n j)) = sumn n f.
  Proof.
    destruct n as [|k]; [reflexivity|].
    rewrite (sumn_S_first k f). cbn [sumn].
    rewrite (sumn_ext k (fun j => f (nxt (S k) j)) (fun j => f (S j))).
    2:{ intros j Hj. unfold nxt. destruct (Nat.eqb_spec (S j) (S k)); [lia|reflexivity]. }
    unfold nxt. rewrite Nat.eqb_refl. ring.
  Qed.

  (** sum_j (hq j - ha j) when ha (next j) - hq j = d j * X *)
  Lemma cyclic_telescope n (pv hq ha d : nat -> F) (X : F) :
    (forall j, (j < n)%nat -> pv j = hq j - ha j) ->
    (forall j, (j < n)%nat -> ha (nxt n j) - hq j = d j * X) ->
    sumn n pv = - (sumn n d * X).
  Proof.
    intros H1 H2.
    rewrite (sumn_ext n pv (fun j => (ha (nxt n j) - ha j) - d j * X)).
    2:{ intros j Hj. rewrite (H1 j Hj). rewrite <- (H2 j Hj). ring. }
    rewrite sumn_sub, sumn_sub, sumn_scal_r. rewrite (sumn_cyclic n ha). ring.
  Qed.

  Lemma cyclic_steps n (a w : nat -> F) (P : F) :
    P <> 0 -> sumn n w = P ->
    sumn n (fun j => (a (nxt n j) - (a j + w j)) / P) = - (1).
  Proof.
    intros HP Hw.
    rewrite (sumn_ext n _ (fun j => (1 / P) * ((a (nxt n j) - a j) - w j))).
    2:{ intros j _. cbv beta. field. exact HP. }
    rewrite sumn_scal_l, sumn_sub, sumn_sub. rewrite (sumn_cyclic n a). rewrite Hw. field. exact HP.
  Qed.
End Cyclic.

Section PeriodicPartitionR.
  Local Open Scope R_scope.
  Ltac no_dec t := lazymatch t with context [Rle_dec _ _] => fail | _ => idtac end.
  Ltac split_le :=
    repeat (match goal with
            | |- context [Rle_dec ?a ?b] => no_dec a; no_dec b; destruct (Rle_dec a b); cbn; try (exfalso; lra)
            end).

  Notation clipR := (@clip R ROps).
  Notation ovR := (@ov R ROps).
  Notation povR := (@per_overlap R ROps).
  Notation alignR := (@align_phase R ROps).

  Lemma clipR_hi x0 x1 z : x0 <= x1 -> x1 <= z -> clipR x0 x1 z = x1.
  Proof. intros H1 H2. unfold clip, fmin, fmax. cbn. unfold Rleb. split_le; lra. Qed.
  Lemma clipR_lo x0 x1 z : x0 <= x1 -> z <= x0 -> clipR x0 x1 z = x0.
  Proof. intros H1 H2. unfold clip, fmin, fmax. cbn. unfold Rleb. split_le; lra. Qed.

  Lemma ov_clip_R x0 x1 c d : x0 <= x1 -> c <= d -> ovR x0 x1 c d = clipR x0 x1 d - clipR x0 x1 c.
  Proof.
    intros H1 H2.
    exact (@ov_clip R ROps ROrd x0 x1 c d (proj2 (fle_R _ _) H1) (proj2 (fle_R _ _) H2)).
  Qed.

  (** alignment: the result is the argument shifted by -P, 0 or +P and lies within P/2 of the target *)
  Lemma align_R P u t :
    0 < P -> - (3 * P / 2) < u - t < 3 * P / 2 ->
    (t - P / 2 <= alignR u t P <= t + P / 2) /\
    (alignR u t P = u \/ alignR u t P = u - P \/ alignR u t P = u + P).
  Proof.
    intros HP Hr. unfold align_phase, fltb, ind, two. cbn. unfold Rleb.
    replace (1 + 1) with 2 by lra. split_le; lra.
  Qed.

  (** periodised clip: five images *)
  Definition HH (P x0 x1 z : R) : R :=
    clipR x0 x1 (z - 2 * P) + clipR x0 x1 (z - P) + clipR x0 x1 z + clipR x0 x1 (z + P) + clipR x0 x1 (z + 2 * P).

  Lemma pov_as_H P x0 x1 u w :
    0 < P -> x0 <= x1 -> x1 - x0 <= P -> 0 <= w <= P -> - (3 * P / 2) < u - x0 < 3 * P / 2 ->
    povR P x0 x1 u (u + w) = HH P x0 x1 (alignR u x0 P + w) - HH P x0 x1 (alignR u x0 P).
  Proof.
    intros HP Hx Hwx Hw Hr.
    destruct (align_R P u x0 HP Hr) as [Ha _].
    pose proof (@per_overlap_images R ROps ROrd P x0 x1 u (u + w)) as E. cbv zeta in E.
    remember (alignR u x0 P) as a eqn:Ea.
    cbn [fadd fsub fopp f0 ROps] in E. rewrite E. clear E.
    replace (u + (a - u) + - P) with (a - P) by lra.
    replace (u + w + (a - u) + - P) with (a + w - P) by lra.
    replace (u + (a - u) + 0) with a by lra.
    replace (u + w + (a - u) + 0) with (a + w) by lra.
    replace (u + (a - u) + P) with (a + P) by lra.
    replace (u + w + (a - u) + P) with (a + w + P) by lra.
    rewrite !ov_clip_R by lra.
    unfold HH.
    rewrite (clipR_hi x0 x1 (a + w + 2 * P)) by lra.
    rewrite (clipR_hi x0 x1 (a + 2 * P)) by lra.
    rewrite (clipR_lo x0 x1 (a + w - 2 * P)) by lra.
    rewrite (clipR_lo x0 x1 (a - 2 * P)) by lra.
    lra.
  Qed.

  Lemma HH_shift P x0 x1 z :
    0 < P -> x0 <= x1 -> x1 - x0 <= P -> x0 - P / 2 <= z <= x0 + P / 2 ->
    HH P x0 x1 (z + P) = HH P x0 x1 z + (x1 - x0).
  Proof.
    intros HP Hx Hw Hz. unfold HH.
    replace (z + P - 2 * P) with (z - P) by lra.
    replace (z + P - P) with z by lra.
    replace (z + P + P) with (z + 2 * P) by lra.
    rewrite (clipR_hi x0 x1 (z + P + 2 * P)) by lra.
    rewrite (clipR_lo x0 x1 (z - 2 * P)) by lra.
    lra.
  Qed.

  Lemma HH_step P x0 x1 z z' :
    0 < P -> x0 <= x1 -> x1 - x0 <= P ->
    x0 - P / 2 <= z <= x0 + 3 * P / 2 -> x0 - P / 2 <= z' <= x0 + P / 2 ->
    (z' = z - 2 * P \/ z' = z - P \/ z' = z \/ z' = z + P) ->
    HH P x0 x1 z' - HH P x0 x1 z = (z' - z) / P * (x1 - x0).
  Proof.
    intros HP Hx Hw Hz Hz' [E|[E|[E|E]]].
    - pose proof (HH_shift P x0 x1 z' HP Hx Hw Hz') as S1.
      pose proof (HH_shift P x0 x1 (z' + P) HP Hx Hw ltac:(lra)) as S2.
      replace (z' + P + P) with z in S2 by lra.
      replace ((z' - z) / P) with (-2) by (subst z'; field; lra). lra.
    - pose proof (HH_shift P x0 x1 z' HP Hx Hw Hz') as S1.
      replace (z' + P) with z in S1 by lra.
      replace ((z' - z) / P) with (-1) by (subst z'; field; lra). lra.
    - subst z'. replace ((z - z) / P) with 0 by (field; lra). lra.
    - pose proof (HH_shift P x0 x1 z HP Hx Hw ltac:(lra)) as S1.
      rewrite <- E in S1.
      replace ((z' - z) / P) with 1 by (subst z'; field; lra). lra.
  Qed.

  (** a periodic chain of cells: consecutive cells share an end point up to one
      period, the widths add up to the period *)
  Definition per_chain (P : R) (m : nat) (lo up : nat -> R) : Prop :=
    (0 < m)%nat /\
    (forall j, (j < m)%nat -> lo j <= up j /\ up j - lo j <= P) /\
    (forall j, (j < m)%nat -> lo (nxt m j) = up j \/ lo (nxt m j) = up j - P) /\
    @sumn R ROps m (fun j => up j - lo j) = P.

  Theorem periodic_row_total_R P x0 x1 m (lo up : nat -> R) :
    0 < P -> x0 <= x1 -> x1 - x0 <= P ->
    per_chain P m lo up ->
    (forall j, (j < m)%nat -> - (3 * P / 2) < lo j - x0 < 3 * P / 2) ->
    @sumn R ROps m (fun j => povR P x0 x1 (lo j) (up j)) = x1 - x0.
  Proof.
    intros HP Hx Hwx (Hm & Hcell & Hnext & Hsum) Hrng.
    set (a := fun j => alignR (lo j) x0 P).
    set (w := fun j => up j - lo j).
    assert (Ha : forall j, (j < m)%nat ->
              (x0 - P / 2 <= a j <= x0 + P / 2) /\ (a j = lo j \/ a j = lo j - P \/ a j = lo j + P)).
    { intros j Hj. unfold a. apply align_R; auto. }
    pose proof (@cyclic_telescope R ROps RFieldC m
                  (fun j => povR P x0 x1 (lo j) (up j))
                  (fun j => HH P x0 x1 (a j + w j)) (fun j => HH P x0 x1 (a j))
                  (fun j => (a (nxt m j) - (a j + w j)) / P) (x1 - x0)) as T.
    cbn [fadd fsub fmul fopp fdiv ROps] in T.
    rewrite T; clear T.
    - pose proof (@cyclic_steps R ROps RFieldC m a w P) as S.
      cbn [fadd fsub fmul fopp fdiv f1 ROps] in S. rewrite S; [cbn; lra|cbn; lra|exact Hsum].
    - intros j Hj. destruct (Hcell j Hj) as [C1 C2].
      replace (up j) with (lo j + w j) by (unfold w; lra).
      unfold a. apply pov_as_H; auto. unfold w; lra.
    - intros j Hj. destruct (Hcell j Hj) as [C1 C2].
      destruct (Ha j Hj) as [A1 A2]. destruct (Ha (nxt m j) (nxt_lt m j Hj)) as [B1 B2].
      apply HH_step; auto.
      + unfold w. lra.
      + unfold w. destruct (Hnext j Hj) as [N|N]; rewrite N in B2;
          destruct A2 as [A2|[A2|A2]]; destruct B2 as [B2|[B2|B2]]; rewrite A2 in *; rewrite B2 in *;
          first [left; lra|right; left; lra|right; right; left; lra|right; right; right; lra|exfalso; lra].
  Qed.

  (** **** the cells built by _periodic_lower/upper_bounds form a periodic chain *)

  (** points reduced mod P that advance cyclically by steps [g j] in (0, P/2)
      and go around exactly once *)
  Definition cyclic_points (P : R) (n : nat) (p g : nat -> R) : Prop :=
    (0 < n)%nat /\
    (forall j, (j < n)%nat -> 0 <= p j < P) /\
    (forall j, (j < n)%nat -> 0 < g j < P / 2) /\
    (forall j, (j < n)%nat -> p (nxt n j) = p j + g j \/ p (nxt n j) = p j + g j - P) /\
    @sumn R ROps n g = P.

  Lemma align_near P v t :
    0 < P -> - (P / 2) < v - t < P / 2 ->
    alignR v t P = v /\ alignR (v - P) t P = v /\ alignR (v + P) t P = v.
  Proof.
    intros HP Hr. unfold align_phase, fltb, ind, two. cbn. unfold Rleb.
    replace (1 + 1) with 2 by lra. repeat split; split_le; lra.
  Qed.

  Section Cells.
    Variables (P : R) (n : nat) (p g : nat -> R).
    Hypothesis HP : 0 < P.
    Hypothesis Hcyc : cyclic_points P n p g.

    Let lo := @per_lower R ROps n P p.
    Let up := @per_upper R ROps n P p.

    Lemma upper_eq j : (j < n)%nat -> up j = p j + g j / 2.
    Proof.
      destruct Hcyc as (Hn & Hp & Hg & Hstep & Hsum). intros Hj.
      unfold up, per_upper, roll_m1. rewrite (nxt_mod n j Hj). pose proof (Hg j Hj) as G.
      destruct (align_near P (p j + g j) (p j) HP ltac:(lra)) as (A1 & A2 & _).
      destruct (Hstep j Hj) as [E|E]; rewrite E; [rewrite A1|rewrite A2]; unfold two; cbn; lra.
    Qed.

    Lemma lower_next_eq j : (j < n)%nat -> lo (nxt n j) = p (nxt n j) - g j / 2.
    Proof.
      destruct Hcyc as (Hn & Hp & Hg & Hstep & Hsum). intros Hj.
      unfold lo, per_lower, roll_p1. rewrite (prv_mod n (nxt n j) (nxt_lt n j Hj)).
      rewrite (prv_nxt n j Hj). pose proof (Hg j Hj) as G.
      set (t := p (nxt n j)).
      destruct (align_near P (t - g j) t HP ltac:(lra)) as (A1 & _ & A3).
      destruct (Hstep j Hj) as [E|E]; fold t in E.
      - replace (p j) with (t - g j) by lra. rewrite A1. unfold two; cbn; lra.
      - replace (p j) with (t - g j + P) by lra. rewrite A3. unfold two; cbn; lra.
    Qed.

    Lemma lower_eq j : (j < n)%nat -> lo j = p j - g (prv n j) / 2.
    Proof.
      intros Hj. pose proof (lower_next_eq (prv n j) (prv_lt n j Hj)) as E.
      now rewrite (nxt_prv n j Hj) in E.
    Qed.

    Lemma cell_facts j : (j < n)%nat ->
      lo j < up j /\ up j - lo j < P / 2 /\ - (P / 4) < lo j < P.
    Proof.
      destruct Hcyc as (Hn & Hp & Hg & Hstep & Hsum). intros Hj.
      rewrite (upper_eq j Hj), (lower_eq j Hj).
      pose proof (Hg j Hj). pose proof (Hg (prv n j) (prv_lt n j Hj)). pose proof (Hp j Hj). lra.
    Qed.

    Lemma cells_chain : per_chain P n lo up.
    Proof.
      pose proof Hcyc as (Hn & Hp & Hg & Hstep & Hsum).
      split; [exact Hn|split; [|split]].
      - intros j Hj. destruct (cell_facts j Hj) as (C1 & C2 & _). lra.
      - intros j Hj. rewrite (lower_next_eq j Hj), (upper_eq j Hj).
        destruct (Hstep j Hj) as [E|E]; rewrite E; [left|right]; lra.
      - rewrite (@sumn_ext R ROps n _ (fun j => (1 / 2) * g j + (1 / 2) * g (prv n j))).
        2:{ intros j Hj. cbv beta. rewrite (upper_eq j Hj), (lower_eq j Hj). cbn. lra. }
        pose proof (@sumn_add R ROps RFieldC n (fun j => (1 / 2) * g j) (fun j => (1 / 2) * g (prv n j))) as E1.
        cbn [fadd fmul ROps] in E1. rewrite E1. clear E1.
        pose proof (@sumn_scal_l R ROps RFieldC n (1 / 2) g) as E2.
        cbn [fadd fmul ROps] in E2. rewrite E2. clear E2.
        pose proof (@sumn_scal_l R ROps RFieldC n (1 / 2) (fun j => g (prv n j))) as E3.
        cbn [fadd fmul ROps] in E3. rewrite E3. clear E3.
        pose proof (@sumn_cyclic R ROps RFieldC n (fun j => g (prv n j))) as E4. cbv beta in E4.
        rewrite (@sumn_ext R ROps n (fun j => g (prv n (nxt n j))) g) in E4.
        2:{ intros j Hj. now rewrite (prv_nxt n j Hj). }
        rewrite <- E4. rewrite Hsum. cbn. lra.
    Qed.
  End Cells.

  (** symmetry of the coded periodic overlap (case analysis + lra, ~30 s) *)
  Lemma pov_sym_R (P x0 x1 y0 y1 : R) :
    0 < P -> x0 <= x1 -> y0 <= y1 -> x1 - x0 <= P / 2 -> y1 - y0 <= P / 2 ->
    - (3 * P / 2) < y0 - x0 < 3 * P / 2 ->
    povR P x0 x1 y0 y1 = povR P y0 y1 x0 x1.
  Proof.
    intros HP Hx Hy Hwx Hwy Hr.
    unfold per_overlap, align_phase, fmax, fmin, fltb, ind, two; cbn; unfold Rleb.
    replace (1 + 1) with 2 by lra. split_le; cbn; lra.
  Qed.

  (** ** the periodic partition identity *)
  Theorem lon_partition_R P n m (tp gt sp gs : nat -> R) :
    0 < P -> cyclic_points P n tp gt -> cyclic_points P m sp gs ->
    @lon_partition R ROps P n m tp sp.
  Proof.
    intros HP Ht Hs.
    pose proof (cell_facts P n tp gt HP Ht) as TF. pose proof (cell_facts P m sp gs HP Hs) as SF.
    split.
    - intros i Hi. destruct (TF i Hi) as (T1 & T2 & T3).
      change (@sumn R ROps m (fun j => povR P (@per_lower R ROps n P tp i) (@per_upper R ROps n P tp i)
                                            (@per_lower R ROps m P sp j) (@per_upper R ROps m P sp j))
              = @per_upper R ROps n P tp i - @per_lower R ROps n P tp i).
      apply periodic_row_total_R; try lra.
      + now apply (cells_chain P m sp gs).
      + intros j Hj. destruct (SF j Hj) as (S1 & S2 & S3). lra.
    - intros j Hj. destruct (SF j Hj) as (S1 & S2 & S3).
      change (@sumn R ROps n (fun i => povR P (@per_lower R ROps n P tp i) (@per_upper R ROps n P tp i)
                                            (@per_lower R ROps m P sp j) (@per_upper R ROps m P sp j))
              = @per_upper R ROps m P sp j - @per_lower R ROps m P sp j).
      rewrite (sumn_ext n _ (fun i => povR P (@per_lower R ROps m P sp j) (@per_upper R ROps m P sp j)
                                            (@per_lower R ROps n P tp i) (@per_upper R ROps n P tp i))).
      2:{ intros i Hi. cbv beta. destruct (TF i Hi) as (T1 & T2 & T3). apply pov_sym_R; lra. }
      apply periodic_row_total_R; try lra.
      + now apply (cells_chain P n tp gt).
      + intros i Hi. destruct (TF i Hi) as (T1 & T2 & T3). lra.
  Qed.

  (** strictly increasing longitudes with all cyclic gaps in (0, P/2), reduced
      mod P with validated quotients, are cyclic points *)
  Lemma IZR_small (z : Z) P : 0 < P -> - (3 * P / 2) < IZR z * P < P -> z = 0%Z \/ z = (-1)%Z.
  Proof.
    intros HP [H1 H2].
    destruct (Z_lt_le_dec z (-1)) as [L|L].
    - exfalso. assert (z <= -2)%Z by lia. apply IZR_le in H. nra.
    - destruct (Z_lt_le_dec 0 z) as [G|G].
      + exfalso. assert (1 <= z)%Z by lia. apply IZR_le in H. nra.
      + lia.
  Qed.

  Definition gaps (P : R) (n : nat) (x : nat -> R) (j : nat) : R :=
    if Nat.eqb (S j) n then x 0%nat + P - x (n - 1)%nat else x (S j) - x j.

  Theorem cyclic_points_of_increasing P n (x : nat -> R) (k : nat -> Z) :
    0 < P -> (0 < n)%nat ->
    (forall j, (j < n)%nat -> 0 < gaps P n x j < P / 2) ->
    (forall j, (j < n)%nat -> 0 <= x j - IZR (k j) * P < P) ->
    cyclic_points P n (fun j => @pmod R ROps P (k j) (x j)) (gaps P n x).
  Proof.
    intros HP Hn Hg Hk.
    assert (Ep : forall j, @pmod R ROps P (k j) (x j) = x j - IZR (k j) * P) by reflexivity.
    split; [exact Hn|split; [|split; [exact Hg|split]]].
    - intros j Hj. rewrite Ep. now apply Hk.
    - intros j Hj. rewrite !Ep. pose proof (Hg j Hj) as G. pose proof (Hk j Hj) as Kj.
      pose proof (Hk (nxt n j) (nxt_lt n j Hj)) as Kn.
      unfold gaps in *. unfold nxt in *. destruct (Nat.eqb_spec (S j) n) as [E|E].
      + replace (n - 1)%nat with j in * by lia.
        destruct (IZR_small (k j - k 0%nat - 1)%Z P HP) as [Z|Z].
        * rewrite minus_IZR, minus_IZR. lra.
        * left. apply (f_equal IZR) in Z. rewrite minus_IZR, minus_IZR in Z.
          assert (Zk : IZR (k j) = IZR (k 0%nat) + 1) by lra. rewrite Zk. lra.
        * right. apply (f_equal IZR) in Z. rewrite minus_IZR, minus_IZR in Z.
          assert (Zk : IZR (k j) = IZR (k 0%nat)) by lra. rewrite Zk. lra.
      + destruct (IZR_small (k j - k (S j))%Z P HP) as [Z|Z].
        * rewrite minus_IZR. lra.
        * left. apply (f_equal IZR) in Z. rewrite minus_IZR in Z.
          assert (Zk : IZR (k j) = IZR (k (S j))) by lra. rewrite Zk. lra.
        * right. apply (f_equal IZR) in Z. rewrite minus_IZR in Z.
          assert (Zk : IZR (k j) = IZR (k (S j)) - 1) by lra. rewrite Zk. lra.
    - destruct n as [|q]; [lia|]. cbn [sumn].
      rewrite (sumn_ext q (gaps P (S q) x) (fun j => x (S j) - x j)).
      2:{ intros j Hj. unfold gaps. destruct (Nat.eqb_spec (S j) (S q)); [lia|reflexivity]. }
      pose proof (@sumn_telescope R ROps RFieldC q x) as T. cbn [fsub ROps] in T. rewrite T.
      unfold gaps. rewrite Nat.eqb_refl. replace (S q - 1)%nat with q by lia. cbn. lra.
  Qed.

  (** ** longitude rows and horizontal conservation without the partition hypothesis *)
  Theorem longitude_rows_R P n m (tp gt sp gs : nat -> R) i :
    0 < P -> cyclic_points P n tp gt -> cyclic_points P m sp gs -> (i < n)%nat ->
    @row_total R ROps m (@lon_overlap R ROps P n m tp sp) i = @cell_width R ROps n P tp i /\
    0 < @cell_width R ROps n P tp i /\
    (forall j, (j < m)%nat -> 0 <= @lon_weights R ROps P n m tp sp i j) /\
    @sumn R ROps m (@lon_weights R ROps P n m tp sp i) = 1 /\
    (forall c, @apply_weights R ROps m (@lon_weights R ROps P n m tp sp) (fun _ => c) i = c) /\
    (forall x lo hi, (forall j, (j < m)%nat -> lo <= x j <= hi) ->
        lo <= @apply_weights R ROps m (@lon_weights R ROps P n m tp sp) x i <= hi).
  Proof.
    intros HP Ht Hs Hi.
    destruct (lon_partition_R P n m tp gt sp gs HP Ht Hs) as [Hrow _].
    destruct (cell_facts P n tp gt HP Ht i Hi) as (T1 & T2 & T3).
    assert (W : 0 < @cell_width R ROps n P tp i)
      by (change (0 < @per_upper R ROps n P tp i - @per_lower R ROps n P tp i); lra).
    assert (Hnz : @row_total R ROps m (@lon_overlap R ROps P n m tp sp) i <> 0%F).
    { rewrite (Hrow i Hi). change (@cell_width R ROps n P tp i <> 0). lra. }
    destruct (@longitude_rows_partial R ROps ROrd P n m tp sp i Hnz) as (R1 & R2 & R3 & R4).
    split; [now apply Hrow|split; [exact W|split; [|split; [exact R2|split; [exact R3|]]]]].
    - intros j Hj. apply fle_R. now apply R1.
    - intros x lo hi Hx.
      destruct (R4 x lo hi) as [L U].
      + intros j Hj. destruct (Hx j Hj). split; now apply fle_R.
      + split; now apply fle_R.
  Qed.

  Theorem horizontal_integral_conserved_R
          P na nb (tp gt sp gs : nat -> R) nc nd (tb sb st ss : nat -> R) (f : nat -> nat -> R) :
    0 < P -> cyclic_points P na tp gt -> cyclic_points P nb sp gs ->
    @sin_mono R ROps nc nd tb sb st ss ->
    (forall c, (c < nc)%nat -> st c < st (S c)) ->
    (forall d, (d < nd)%nat -> ss d <= ss (S d)) ->
    st 0%nat = ss 0%nat -> st nc = ss nd ->
    @sumn R ROps na (fun a => @sumn R ROps nc (fun c =>
        @cell_width R ROps na P tp a * (st (S c) - st c) *
        @mean2 R ROps nb nd (@lon_weights R ROps P na nb tp sp)
               (@normalize_rows R ROps nd (@lat_overlap R ROps tb sb st ss)) f a c))
    = @sumn R ROps nb (fun b => @sumn R ROps nd (fun d =>
        @cell_width R ROps nb P sp b * (ss (S d) - ss d) * f b d)).
  Proof.
    intros HP Ht Hs Hm Hst Hss E0 E1.
    apply (@horizontal_integral_conserved_partial R ROps ROrd P na nb tp sp nc nd tb sb st ss f); auto.
    - now apply (lon_partition_R P na nb tp gt sp gs).
    - intros a Ha. destruct (cell_facts P na tp gt HP Ht a Ha) as (T1 & T2 & T3).
      change (@per_upper R ROps na P tp a - @per_lower R ROps na P tp a <> 0). lra.
    - intros c Hc. apply flt_R. now apply Hst.
    - intros d Hd. apply fle_R. now apply Hss.
  Qed.
End PeriodicPartitionR.

(** *** the horizontal regridder over the reals: real sin, longitudes given as
    strictly increasing points reduced mod the period *)
Section HorizontalR.
  Local Open Scope R_scope.
  Theorem horizontal_integral_conserved_real
          P na nb (tlon slon : nat -> R) (kt ks : nat -> Z) nc nd (tlat slat : nat -> R) (f : nat -> nat -> R) :
    0 < P -> (0 < na)%nat -> (0 < nb)%nat -> (0 < nc)%nat -> (0 < nd)%nat ->
    (forall j, (j < na)%nat -> 0 < gaps P na tlon j < P / 2) ->
    (forall j, (j < na)%nat -> 0 <= tlon j - IZR (kt j) * P < P) ->
    (forall j, (j < nb)%nat -> 0 < gaps P nb slon j < P / 2) ->
    (forall j, (j < nb)%nat -> 0 <= slon j - IZR (ks j) * P < P) ->
    (forall i, (S i < nc)%nat -> tlat i < tlat (S i)) -> - (PI / 2) <= tlat 0%nat -> tlat (nc - 1)%nat <= PI / 2 ->
    (forall j, (S j < nd)%nat -> slat j < slat (S j)) -> - (PI / 2) <= slat 0%nat -> slat (nd - 1)%nat <= PI / 2 ->
    let tp := fun j => @pmod R ROps P (kt j) (tlon j) in
    let sp := fun j => @pmod R ROps P (ks j) (slon j) in
    let st := fun k => sin (@lat_bounds R ROps (PI / 2) nc tlat k) in
    let ss := fun k => sin (@lat_bounds R ROps (PI / 2) nd slat k) in
    @sumn R ROps na (fun a => @sumn R ROps nc (fun c =>
        @cell_width R ROps na P tp a * (st (S c) - st c) *
        @mean2 R ROps nb nd (@lon_weights R ROps P na nb tp sp)
               (@lat_weights R ROps (PI / 2) nc nd tlat slat st ss) f a c))
    = @sumn R ROps nb (fun b => @sumn R ROps nd (fun d =>
        @cell_width R ROps nb P sp b * (ss (S d) - ss d) * f b d)).
  Proof.
    intros HP Hna Hnb Hnc Hnd Gt Kt Gs Ks T1 T2 T3 S1 S2 S3 tp sp st ss.
    destruct (lat_tables_R nc nd tlat slat Hnc Hnd T1 T2 T3 S1 S2 S3) as (M & I1 & I2 & E0 & E1).
    apply (horizontal_integral_conserved_R P na nb tp (gaps P na tlon) sp (gaps P nb slon) nc nd
             (@lat_bounds R ROps (PI / 2) nc tlat) (@lat_bounds R ROps (PI / 2) nd slat) st ss f); auto.
    - now apply cyclic_points_of_increasing.
    - now apply cyclic_points_of_increasing.
  Qed.
End HorizontalR.
