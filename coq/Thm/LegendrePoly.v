(** Polynomial structure of the Legendre table of dinosaur/associated_legendre.py
    (coefficient-list model of Model/Legendre.v, section LegendrePoly; the recurrence step
    and the radicand 1 - x*x are the GENERATED expressions of Gen/Legendre.v run on coefficient
    lists).  For every field, every [sq], every node tables, all sizes n_m <= n_l:
      p[m,i,l] = y_i^m * peval (leg_q m l) (x_i),   degree (leg_q m l) <= l - m,
    under y_i^2 = 1 - x_i^2 the Gram integrand p[m,i,l] p[m,i,l'] is the value at x_i of ONE
    polynomial [leg_gram_poly m l l'] of degree <= l + l', and for a quadrature rule that
    integrates the monomials x^n, n <= D, like a linear functional Int, the discrete Gram entry is
    Int of that polynomial whenever l + l' <= D: it does not depend on the nodes. *)
From Dino Require Import Base.Ops Base.Sums Model.SHT Thm.SHT Gen.Legendre Gen.DerivExprs Model.Legendre Thm.Legendre.
Local Open Scope F_scope.

Section Poly.
  Context {F : Type} {o : Ops F} {Fc : FieldC o}.
  Add Field FFpoly : (field_c : FieldTh o).

  (** *** evaluation is a ring morphism from coefficient lists *)
  Lemma peval_padd (p q : list F) t : peval (padd p q) t = peval p t + peval q t.
  Proof.
    revert q; induction p as [|a p IH]; intros [|b q]; cbn [padd peval]; try ring.
    rewrite IH. ring.
  Qed.
  Lemma peval_pscale c (p : list F) t : peval (pscale c p) t = c * peval p t.
  Proof. unfold pscale. induction p as [|a p IH]; cbn [map peval]; [ring|]. rewrite IH. ring. Qed.
  Lemma peval_popp (p : list F) t : peval (popp p) t = - peval p t.
  Proof. unfold popp. induction p as [|a p IH]; cbn [map peval]; [ring|]. rewrite IH. ring. Qed.
  Lemma peval_psub (p q : list F) t : peval (psub p q) t = peval p t - peval q t.
  Proof. unfold psub. rewrite peval_padd, peval_popp. ring. Qed.
  Lemma peval_pmulx (p : list F) t : peval (pmulx p) t = t * peval p t.
  Proof. unfold pmulx. cbn [peval]. ring. Qed.
  Lemma peval_pmul (p q : list F) t : peval (pmul p q) t = peval p t * peval q t.
  Proof.
    induction p as [|a p IH]; cbn [pmul peval]; [ring|].
    rewrite peval_padd, peval_pscale, peval_pmulx, IH. ring.
  Qed.
  Lemma peval_pconst (c t : F) : peval (pconst c) t = c.
  Proof. unfold pconst. cbn [peval]. ring. Qed.
  Lemma peval_pX (t : F) : peval pX t = t.
  Proof. unfold pX. cbn [peval]. ring. Qed.
  Lemma peval_llit n (t : F) : peval (@llit (list F) PolyOps n) t = llit n.
  Proof.
    induction n as [|n IH]; [cbn; reflexivity|].
    change (@llit (list F) PolyOps (S n)) with (padd (@llit (list F) PolyOps n) (pconst 1)).
    rewrite peval_padd, IH, peval_pconst. reflexivity.
  Qed.
  Lemma peval_ppow (p : list F) n t : peval (ppow p n) t = lpow (peval p t) n.
  Proof. induction n as [|n IH]; cbn [ppow lpow]; [apply peval_pconst|]. now rewrite peval_pmul, IH. Qed.
  Lemma lpow_mul (a b : F) n : lpow (a * b) n = lpow a n * lpow b n.
  Proof. induction n as [|n IH]; cbn [lpow]; [ring|]. rewrite IH. ring. Qed.

  (** the generated expressions commute with evaluation *)
  Lemma peval_leg_step (a b X p1 p2 : list F) t :
    peval (@leg_step (list F) PolyOps a b X p1 p2) t
    = leg_step (peval a t) (peval b t) (peval X t) (peval p1 t) (peval p2 t).
  Proof.
    unfold leg_step. cbn [fadd fmul fsub fopp PolyOps].
    repeat first [rewrite peval_pmul | rewrite peval_psub | rewrite peval_padd | rewrite peval_popp].
    ring.
  Qed.
  Lemma peval_leg_y2 (X : list F) t : peval (@leg_y2 (list F) PolyOps X) t = leg_y2 (peval X t).
  Proof.
    unfold leg_y2. cbn [fadd fmul fsub fopp PolyOps].
    repeat first [rewrite peval_pmul | rewrite peval_psub | rewrite peval_padd | rewrite peval_popp | rewrite peval_llit].
    ring.
  Qed.

  (** *** lengths (degree + 1) *)
  Lemma length_padd (p q : list F) : length (padd p q) = Nat.max (length p) (length q).
  Proof. revert q; induction p as [|a p IH]; intros [|b q]; cbn [padd length Nat.max]; auto; try (now rewrite IH). Qed.
  Lemma length_pscale c (p : list F) : length (pscale c p) = length p.
  Proof. apply map_length. Qed.
  Lemma length_popp (p : list F) : length (popp p) = length p.
  Proof. apply map_length. Qed.
  Lemma length_psub (p q : list F) : length (psub p q) = Nat.max (length p) (length q).
  Proof. unfold psub. now rewrite length_padd, length_popp. Qed.
  Lemma length_pmul (p q : list F) : (length (pmul p q) <= length p + Nat.pred (length q))%nat.
  Proof.
    induction p as [|a p IH]; cbn [pmul length]; [lia|].
    rewrite length_padd, length_pscale. unfold pmulx. cbn [length]. lia.
  Qed.
  Lemma length_leg_step (a b X p1 p2 : list F) n :
    (length a <= 1)%nat -> (length b <= 1)%nat -> (length X <= 2)%nat ->
    (length p1 <= n + 1)%nat -> (length p2 <= n)%nat ->
    (length (@leg_step (list F) PolyOps a b X p1 p2) <= n + 2)%nat.
  Proof.
    intros Ha Hb HX H1 H2. unfold leg_step. cbn [fadd fmul fsub fopp PolyOps].
    pose proof (length_pmul a (psub (pmul X p1) (pmul b p2))) as H0. rewrite length_psub in H0.
    pose proof (length_pmul X p1). pose proof (length_pmul b p2). lia.
  Qed.
  Lemma length_leg_y2_X : (length (@leg_y2 (list F) PolyOps pX) <= 3)%nat.
  Proof.
    unfold leg_y2. cbn [fadd fmul fsub fopp PolyOps].
    rewrite length_psub. pose proof (length_pmul pX pX) as H. unfold pX in *. cbn [length Nat.pred] in *.
    assert (length (@llit (list F) PolyOps 1) <= 1)%nat by (cbn; lia). lia.
  Qed.
  Lemma length_ppow (p : list F) n : (length p <= 3)%nat -> (length (ppow p n) <= 2 * n + 1)%nat.
  Proof.
    intros Hp. induction n as [|n IH]; cbn [ppow]; [cbn; lia|].
    pose proof (length_pmul p (ppow p n)). lia.
  Qed.

  Section Tables.
    Variable sq : F -> F.

    (** *** degree of q_{m,l} *)
    Lemma leg_qs_length m k :
      (length (fst (leg_qs sq m k)) <= k + 1)%nat /\ (length (snd (leg_qs sq m k)) <= k)%nat.
    Proof.
      induction k as [|k [IH1 IH2]]; cbn [leg_qs fst snd]; [cbn; lia|]. split; [|lia].
      replace (S k + 1)%nat with (k + 2)%nat by lia.
      apply length_leg_step; cbn [pconst pX length]; lia.
    Qed.
    Theorem leg_q_degree m l : (length (leg_q sq m l) <= l - m + 1)%nat.
    Proof. unfold leg_q. apply leg_qs_length. Qed.

    Theorem leg_gram_poly_degree m l l' : (m <= l)%nat -> (m <= l')%nat ->
      (length (leg_gram_poly sq m l l') <= l + l' + 1)%nat.
    Proof.
      intros Hl Hl'. unfold leg_gram_poly.
      pose proof (length_pmul (ppow (@leg_y2 (list F) PolyOps pX) m) (pmul (leg_q sq m l) (leg_q sq m l'))) as H0.
      pose proof (length_ppow _ m length_leg_y2_X) as H1.
      pose proof (length_pmul (leg_q sq m l) (leg_q sq m l')) as H2.
      pose proof (leg_q_degree m l). pose proof (leg_q_degree m l'). lia.
    Qed.

    (** *** factorisation p[m,i,l] = y_i^m q_{m,l}(x_i), for EVERY node table *)
    Variable nx : nat.
    Variables x y : nat -> F.

    Lemma leg_diag_factor m i : leg_diag sq y m i = lpow (y i) m * leg_cdiag sq m.
    Proof.
      induction m as [|m IH]; cbn [leg_diag leg_cdiag lpow]; [ring|].
      rewrite IH.
      rewrite (proj1 (leg_steps_spec sq (llit (S m)) (y i) (lpow (y i) m * leg_cdiag sq m) 0 0 0 0 0)).
      rewrite (proj1 (leg_steps_spec sq (llit (S m)) 1 (leg_cdiag sq m) 0 0 0 0 0)).
      ring.
    Qed.

    Lemma rs_factor m i k :
      fst (rs sq x y m i k) = lpow (y i) m * peval (fst (leg_qs sq m k)) (x i) /\
      snd (rs sq x y m i k) = lpow (y i) m * peval (snd (leg_qs sq m k)) (x i).
    Proof.
      induction k as [|k [IH1 IH2]]; cbn [rs leg_qs fst snd].
      - rewrite leg_diag_factor, peval_pconst. cbn [peval]. split; ring.
      - split; [|exact IH1].
        rewrite IH1, IH2, peval_leg_step, !peval_pconst, peval_pX.
        unfold leg_step. ring.
    Qed.

    Theorem legendre_evaluate_poly n_m n_l m i l : (n_m <= n_l)%nat -> (i < nx)%nat ->
      legendre_evaluate sq nx x y n_m n_l m i l
      = if Nat.ltb m n_m && Nat.leb m l && Nat.ltb l n_l
        then lpow (y i) m * peval (leg_q sq m l) (x i) else 0.
    Proof.
      intros Hml Hi. rewrite legendre_evaluate_spec by assumption.
      destruct (Nat.ltb m n_m && Nat.leb m l && Nat.ltb l n_l); [|reflexivity].
      unfold rk, leg_q. apply rs_factor.
    Qed.

    (** *** the Gram integrand is one polynomial in x (needs y^2 = 1 - x^2, the generated radicand) *)
    Theorem legendre_gram_integrand n_m n_l m i l l' :
      (n_m <= n_l)%nat -> (i < nx)%nat -> (m < n_m)%nat ->
      (m <= l)%nat -> (l < n_l)%nat -> (m <= l')%nat -> (l' < n_l)%nat ->
      y i * y i = leg_y2 (x i) ->
      legendre_evaluate sq nx x y n_m n_l m i l * legendre_evaluate sq nx x y n_m n_l m i l'
      = peval (leg_gram_poly sq m l l') (x i).
    Proof.
      intros Hml Hi Hm H1 H2 H3 H4 Hy. rewrite !legendre_evaluate_poly by assumption.
      destruct (Nat.ltb_spec m n_m); [|lia].
      destruct (Nat.leb_spec m l); [|lia]. destruct (Nat.ltb_spec l n_l); [|lia].
      destruct (Nat.leb_spec m l'); [|lia]. destruct (Nat.ltb_spec l' n_l); [|lia]. cbn [andb].
      unfold leg_gram_poly. rewrite !peval_pmul, peval_ppow, peval_leg_y2, peval_pX, <- Hy, lpow_mul. ring.
    Qed.

    (** *** quadrature: a rule that integrates the monomials x^n, n <= D, to mom n integrates every
        polynomial of degree <= D to the functional [pint mom] of its coefficient list *)
    Variable w : nat -> F.
    Variable mom : nat -> F.
    Variable D : nat.
    Hypothesis H_rule_exact : forall n, (n <= D)%nat -> sumn nx (fun j => w j * lpow (x j) n) = mom n.

    Lemma quadrature_poly_from (p : list F) : forall s, (s + length p <= D + 1)%nat ->
      sumn nx (fun j => w j * (lpow (x j) s * peval p (x j))) = pint_from mom s p.
    Proof.
      induction p as [|a p IH]; intros s Hs; cbn [peval pint_from].
      - apply sumn_zero. intros j _. ring.
      - cbn [length] in Hs.
        rewrite (sumn_ext nx _ (fun j => a * (w j * lpow (x j) s) + w j * (lpow (x j) (S s) * peval p (x j)))).
        2:{ intros j _. cbn [lpow]. ring. }
        rewrite sumn_add, sumn_scal_l, H_rule_exact by lia. rewrite IH by lia. reflexivity.
    Qed.
    Lemma quadrature_poly (p : list F) : (length p <= D + 1)%nat ->
      sumn nx (fun j => w j * peval p (x j)) = pint mom p.
    Proof.
      intros Hp. unfold pint. rewrite <- quadrature_poly_from by lia.
      apply sumn_ext. intros j _. cbn [lpow]. ring.
    Qed.

    (** *** the discrete Legendre Gram entry is the functional of a node-independent polynomial *)
    Theorem legendre_gram_is_moment_functional n_m n_l m l l' :
      (n_m <= n_l)%nat -> (m < n_m)%nat ->
      (m <= l)%nat -> (l < n_l)%nat -> (m <= l')%nat -> (l' < n_l)%nat -> (l + l' <= D)%nat ->
      (forall i, (i < nx)%nat -> y i * y i = leg_y2 (x i)) ->
      sumn nx (fun i => w i * (legendre_evaluate sq nx x y n_m n_l m i l * legendre_evaluate sq nx x y n_m n_l m i l'))
      = pint mom (leg_gram_poly sq m l l').
    Proof.
      intros Hml Hm H1 H2 H3 H4 HD Hy.
      rewrite <- quadrature_poly by (pose proof (leg_gram_poly_degree m l l' H1 H3); lia).
      apply sumn_ext. intros i Hi. f_equal. apply (legendre_gram_integrand n_m n_l); auto.
    Qed.

    (** hence the table obligation [H_legendre_orth_deg] of the round-trip theorems (basis.p[a] =
        evaluate(M, L, x)[|m(a)|]) reduces to a statement about the functional and the coefficient
        lists only - no node, no weight occurs in the premise [H_functional] *)
    Theorem legendre_orth_deg_from_functional M L :
      (M <= L)%nat ->
      (forall i, (i < nx)%nat -> y i * y i = leg_y2 (x i)) ->
      (forall m l l', (m < M)%nat -> (m <= l)%nat -> (l < L)%nat -> (m <= l')%nat -> (l' < L)%nat -> (l + l' <= D)%nat ->
         pint mom (leg_gram_poly sq m l l') = delta l l') ->
      H_legendre_orth_deg (modal_rows_real M) L nx
        (fun a j l => legendre_evaluate sq nx x y M L (mabs_real a) j l) w mabs_real D.
    Proof.
      intros HML Hy Hfun a l l' Ha H1 H2 H3 H4 HD.
      assert (Hm : (mabs_real a < M)%nat).
      { unfold mabs_real, modal_rows_real in *. apply Nat.div_lt_upper_bound; lia. }
      rewrite (legendre_gram_is_moment_functional M L (mabs_real a) l l') by assumption.
      now apply Hfun.
    Qed.
  End Tables.
End Poly.

(** with [Model/SHT.v]'s predicate: on a grid that resolves its truncation (2(L-1) <= exact_degree),
    a rule exact to [exact_degree spacing J] gives the FULL orthonormality hypothesis of the round
    trip from the functional statement alone *)
Theorem legendre_orth_resolves {F : Type} {o : Ops F} {Fc : FieldC o}
  (sq : F -> F) (J : nat) (x y w mom : nat -> F) (spacing I M L : nat) :
  resolves spacing I J M L = true ->
  (forall n, (n <= exact_degree spacing J)%nat -> sumn J (fun j => w j * lpow (x j) n) = mom n) ->
  (forall i, (i < J)%nat -> y i * y i = leg_y2 (x i)) ->
  (forall m l l', (m < M)%nat -> (m <= l)%nat -> (l < L)%nat -> (m <= l')%nat -> (l' < L)%nat ->
     pint mom (leg_gram_poly sq m l l') = delta l l') ->
  H_legendre_orth (modal_rows_real M) L J
    (fun a j l => legendre_evaluate sq J x y M L (mabs_real a) j l) w mabs_real.
Proof.
  intros Hres Hrule Hy Hfun. unfold resolves in Hres.
  rewrite !andb_true_iff, !Nat.leb_le in Hres. destruct Hres as [[[[HM HML] HI] HJ] HD].
  intros a l l' Ha H1 H2 H3 H4.
  apply (legendre_orth_deg_from_functional sq J x y w mom (exact_degree spacing J) Hrule M L HML Hy); auto; try lia.
Qed.

(** *** (C02) the derivative relation of the basis functions from the three-term recurrence.
    Abstract form: ANY sequences Q k, dQ k (values at a point t of q_{m,m+k} and of its formal
    derivative) that satisfy the code's three-term recurrence in normalised form (HR0, HR) and its
    formal derivative (HdR0, HdR: product rule on x * q), with eps obeying
    1 + (2l-1) eps_l^2 = (2l+3) eps_{l+1}^2 (a consequence [eps2_key] of the closed form
    eps^2 = a2_expr 1 l m of Gen/DerivExprs.v), satisfy
      (1 - t^2) dQ_k - m t Q_k = (l+1) eps_l Q_{k-1} - l eps_{l+1} Q_{k+1},   l = m + k,
    i.e. (1-x^2) d/dx P_l^m = (l+1) eps_l P_{l-1}^m - l eps_{l+1} P_{l+1}^m: exactly the weights
    d1_wm = (l+1) a, d1_wp = -l b of Grid.cos_lat_d_dlat.
    NOT done (hence the name ..._partial in Prop/C02.v): the instantiation Q k := peval (leg_q ..) t,
    dQ k := peval (pderiv (leg_q ..)) t, which needs the Leibniz rule of [pderiv] on [pmul]. *)
Section DerivRel.
  Context {F : Type} {o : Ops F} {Fc : FieldC o}.
  Add Field FFdr : (field_c : FieldTh o).

  Lemma fsub0 (a b : F) : a = b -> a - b = 0.
  Proof. intros ->. ring. Qed.
  Lemma fsub0_inv (a b : F) : a - b = 0 -> a = b.
  Proof. intros H. transitivity (a - b + b); [ring|]. rewrite H. ring. Qed.
  Lemma zeros6 (a b c d f g : F) : a * 0 - b * 0 + c * 0 - d * 0 + f * 0 + g * 0 = 0.
  Proof. ring. Qed.
  Lemma fmul_cancel_l (e a b : F) : e <> 0 -> e * a = e * b -> a = b.
  Proof.
    intros He H. transitivity (e * a / e); [field; exact He|]. rewrite H. field. exact He.
  Qed.
  Lemma fdiv_cross (a c u v : F) : u <> 0 -> v <> 0 -> a * v = c * u -> a / u = c / v.
  Proof.
    intros Hu Hv H. transitivity (a * v / (u * v)); [field; split; assumption|].
    rewrite H. field. split; assumption.
  Qed.

  (** 1 + (2l-1) eps^2(m,l) = (2l+3) eps^2(m,l+1) for the closed form eps^2 = a2_expr 1 l m *)
  Lemma a2_expr_closed (l m : F) : a2_expr 1 l m = (l * l - m * m) / (lit 4 * (l * l) - 1).
  Proof. unfold a2_expr. cbn [lit]. f_equal; ring. Qed.
  Lemma eps2_key_atoms (l N1 N2 u v : F) : u <> 0 -> v <> 0 ->
    (u + ((1 + 1) * l - 1) * N1) * v = ((1 + 1) * l + 1 + 1 + 1) * N2 * u ->
    1 + ((1 + 1) * l - 1) * (N1 / u) = ((1 + 1) * l + 1 + 1 + 1) * (N2 / v).
  Proof.
    intros Hu Hv H.
    transitivity ((u + ((1 + 1) * l - 1) * N1) / u); [field; exact Hu|].
    transitivity ((((1 + 1) * l + 1 + 1 + 1) * N2) / v); [|field; exact Hv].
    now apply fdiv_cross.
  Qed.
  Lemma eps2_key (l m : F) :
    lit 4 * (l * l) - 1 <> 0 -> lit 4 * ((l + 1) * (l + 1)) - 1 <> 0 ->
    1 + ((1 + 1) * l - 1) * a2_expr 1 l m = ((1 + 1) * l + 1 + 1 + 1) * a2_expr 1 (l + 1) m.
  Proof.
    intros H1 H2. rewrite !a2_expr_closed. apply eps2_key_atoms; auto. cbn [lit]. ring.
  Qed.

  (** *** the derivative relation from the three-term recurrence and its formal derivative.
      For a fixed order m (field value M) and point t:  Q k, dQ k are the values of q_{m,m+k} and of
      its formal derivative, e k = eps(m, m+k), Lf k = m + k.  E k = (1-t^2) dQ k - M t Q k is the
      value of D = (1-x^2) d/dx applied to y^m q (divided by y^m). *)
  Variables (t M : F) (Q dQ e Lf : nat -> F).
  Hypothesis HL0 : Lf 0%nat = M.
  Hypothesis HLS : forall k, Lf (S k) = Lf k + 1.
  Hypothesis He0 : e 0%nat = 0.
  Hypothesis Hnz : forall k, e (S k) <> 0.
  Hypothesis HR0 : e 1%nat * Q 1%nat = t * Q 0%nat.
  Hypothesis HR : forall k, e (S (S k)) * Q (S (S k)) = t * Q (S k) - e (S k) * Q k.
  Hypothesis HdQ0 : dQ 0%nat = 0.
  Hypothesis HdR0 : e 1%nat * dQ 1%nat = Q 0%nat + t * dQ 0%nat.
  Hypothesis HdR : forall k, e (S (S k)) * dQ (S (S k)) = Q (S k) + t * dQ (S k) - e (S k) * dQ k.
  Hypothesis Hkey : forall k, 1 + ((1 + 1) * Lf k - 1) * (e k * e k) = ((1 + 1) * Lf k + 1 + 1 + 1) * (e (S k) * e (S k)).

  Definition Ek (k : nat) : F := (1 - t * t) * dQ k - M * t * Q k.

  Lemma deriv_one_sided : forall k,
    Ek k = (Lf k + 1) * t * Q k - ((1 + 1) * Lf k + 1) * (e (S k) * Q (S k)) /\
    Ek (S k) = (Lf (S k) + 1) * t * Q (S k) - ((1 + 1) * Lf (S k) + 1) * (e (S (S k)) * Q (S (S k))).
  Proof.
    induction k as [|k [IH0 IH1]].
    - assert (A0 : Ek 0 = (Lf 0%nat + 1) * t * Q 0%nat - ((1 + 1) * Lf 0%nat + 1) * (e 1%nat * Q 1%nat)).
      { unfold Ek. rewrite HR0, HdQ0, HL0. ring. }
      split; [exact A0|].
      apply (fmul_cancel_l (e 1%nat)); [apply Hnz|]. apply fsub0_inv.
      pose proof (Hkey 0%nat) as K0. rewrite He0, HL0 in K0. rewrite HdQ0 in HdR0.
      unfold Ek. rewrite HLS, HL0.
      transitivity ((1 - t * t) * (e 1%nat * dQ 1%nat - (Q 0%nat + t * 0))
                    + t * (e 1%nat * Q 1%nat - t * Q 0%nat)
                    + ((1 + 1) * M + 1 + 1 + 1) * e 1%nat * (e 2%nat * Q 2%nat - (t * Q 1%nat - e 1%nat * Q 0%nat))
                    + Q 0%nat * ((1 + ((1 + 1) * M - 1) * (0 * 0)) - ((1 + 1) * M + 1 + 1 + 1) * (e 1%nat * e 1%nat))).
      { ring. }
      rewrite (fsub0 _ _ HdR0), (fsub0 _ _ HR0), (fsub0 _ _ (HR 0%nat)), (fsub0 _ _ K0). ring.
    - split; [exact IH1|].
      apply (fmul_cancel_l (e (S (S k)))); [apply Hnz|]. apply fsub0_inv.
      pose proof (Hkey (S k)) as K1. pose proof (HR k) as R1. pose proof (HR (S k)) as R2. pose proof (HdR k) as D1.
      unfold Ek in *. rewrite !HLS in *.
      set (l := Lf k + 1) in *.
      transitivity ((1 - t * t) * (e (S (S k)) * dQ (S (S k)) - (Q (S k) + t * dQ (S k) - e (S k) * dQ k))
                    - (M + l) * t * (e (S (S k)) * Q (S (S k)) - (t * Q (S k) - e (S k) * Q k))
                    + t * (((1 - t * t) * dQ (S k) - M * t * Q (S k))
                           - ((l + 1) * t * Q (S k) - ((1 + 1) * l + 1) * (e (S (S k)) * Q (S (S k)))))
                    - e (S k) * (((1 - t * t) * dQ k - M * t * Q k)
                                 - (l * t * Q k - ((1 + 1) * Lf k + 1) * (e (S k) * Q (S k))))
                    + Q (S k) * ((1 + ((1 + 1) * l - 1) * (e (S k) * e (S k))) - ((1 + 1) * l + 1 + 1 + 1) * (e (S (S k)) * e (S (S k))))
                    + ((1 + 1) * l + 1 + 1 + 1) * e (S (S k)) * (e (S (S (S k))) * Q (S (S (S k))) - (t * Q (S (S k)) - e (S (S k)) * Q (S k)))).
      { unfold l. ring. }
      rewrite (fsub0 _ _ D1), (fsub0 _ _ R1), (fsub0 _ _ IH1), (fsub0 _ _ IH0), (fsub0 _ _ K1), (fsub0 _ _ R2). apply zeros6.
  Qed.

  (** (1 - x^2) d/dx P_l = (l+1) eps_l P_{l-1} - l eps_{l+1} P_{l+1}   (P_{m-1} = 0) *)
  Theorem deriv_relation_abstract k :
    Ek k = (Lf k + 1) * (e k * (match k with O => 0 | S k' => Q k' end)) - Lf k * (e (S k) * Q (S k)).
  Proof.
    destruct (deriv_one_sided k) as [A _]. rewrite A. destruct k as [|k].
    - rewrite He0, HR0. ring.
    - cbv iota. transitivity (- (Lf (S k) + 1) * (e (S (S k)) * Q (S (S k)) - (t * Q (S k) - e (S k) * Q k))
                    + ((Lf (S k) + 1) * (e (S k) * Q k) - Lf (S k) * (e (S (S k)) * Q (S (S k))))); [ring|].
      rewrite (fsub0 _ _ (HR k)). ring.
  Qed.
End DerivRel.

(** *** formal derivative on coefficient lists: linearity and the Leibniz rule (at evaluation) *)
Section PolyDeriv.
  Context {F : Type} {o : Ops F} {Fc : FieldC o}.
  Add Field FFpd : (field_c : FieldTh o).

  Lemma pdf_S n (p : list F) t :
    peval (pderiv_from (S n) p) t = peval (pderiv_from n p) t + peval p t.
  Proof.
    revert n; induction p as [|a p IH]; intros n; cbn [pderiv_from peval]; [ring|].
    rewrite (IH (S n)). cbn [llit]. ring.
  Qed.
  Lemma pdf_0 (p : list F) t : peval (pderiv_from 0 p) t = t * peval (pderiv p) t.
  Proof. destruct p as [|a p]; cbn [pderiv_from pderiv peval llit]; ring. Qed.
  Lemma pderiv_cons a (p : list F) t :
    peval (pderiv (a :: p)) t = peval p t + t * peval (pderiv p) t.
  Proof. cbn [pderiv]. rewrite pdf_S, pdf_0. ring. Qed.

  Lemma pdf_padd n (p q : list F) t :
    peval (pderiv_from n (padd p q)) t = peval (pderiv_from n p) t + peval (pderiv_from n q) t.
  Proof.
    revert n q; induction p as [|a p IH]; intros n [|b q]; cbn [padd pderiv_from peval]; try ring.
    rewrite IH. ring.
  Qed.
  Lemma pderiv_padd (p q : list F) t :
    peval (pderiv (padd p q)) t = peval (pderiv p) t + peval (pderiv q) t.
  Proof. destruct p as [|a p], q as [|b q]; cbn [padd pderiv peval]; try ring. apply pdf_padd. Qed.

  Lemma pdf_map n (g : F -> F) c (p : list F) t : (forall a, g a = c * a) ->
    peval (pderiv_from n (map g p)) t = c * peval (pderiv_from n p) t.
  Proof.
    intros Hg. revert n; induction p as [|a p IH]; intros n; cbn [map pderiv_from peval]; [ring|].
    rewrite IH, Hg. ring.
  Qed.
  Lemma pderiv_map (g : F -> F) c (p : list F) t : (forall a, g a = c * a) ->
    peval (pderiv (map g p)) t = c * peval (pderiv p) t.
  Proof. intros Hg. destruct p as [|a p]; cbn [map pderiv peval]; [ring|]. now apply pdf_map. Qed.
  Lemma pderiv_pscale c (p : list F) t : peval (pderiv (pscale c p)) t = c * peval (pderiv p) t.
  Proof. unfold pscale. apply pderiv_map. reflexivity. Qed.
  Lemma pderiv_popp (p : list F) t : peval (pderiv (popp p)) t = - peval (pderiv p) t.
  Proof. unfold popp. rewrite (pderiv_map _ (- (1))); [ring|]. intros a. ring. Qed.
  Lemma pderiv_psub (p q : list F) t :
    peval (pderiv (psub p q)) t = peval (pderiv p) t - peval (pderiv q) t.
  Proof. unfold psub. rewrite pderiv_padd, pderiv_popp. ring. Qed.
  Lemma pderiv_pmulx (p : list F) t : peval (pderiv (pmulx p)) t = peval p t + t * peval (pderiv p) t.
  Proof. unfold pmulx. apply pderiv_cons. Qed.

  (** Leibniz rule *)
  Theorem pderiv_pmul (p q : list F) t :
    peval (pderiv (pmul p q)) t = peval (pderiv p) t * peval q t + peval p t * peval (pderiv q) t.
  Proof.
    induction p as [|a p IH]; [cbn [pmul pderiv peval]; ring|].
    cbn [pmul]. rewrite pderiv_padd, pderiv_pscale, pderiv_pmulx, IH, peval_pmul, pderiv_cons.
    cbn [peval]. ring.
  Qed.
  Lemma pderiv_pconst (c t : F) : peval (pderiv (pconst c)) t = 0.
  Proof. reflexivity. Qed.
  Lemma pderiv_pX (t : F) : peval (pderiv pX) t = 1.
  Proof. unfold pX. cbn [pderiv pderiv_from peval llit]. ring. Qed.

  (** derivative of the generated three-term step with constant a, b and X = x *)
  Lemma pderiv_leg_step (a b : F) (p1 p2 : list F) t :
    peval (pderiv (@leg_step (list F) PolyOps (pconst a) (pconst b) pX p1 p2)) t
    = a * (peval p1 t + t * peval (pderiv p1) t - b * peval (pderiv p2) t).
  Proof.
    unfold leg_step. cbn [fadd fmul fsub fopp PolyOps].
    repeat first [rewrite pderiv_pmul | rewrite pderiv_psub | rewrite pderiv_padd | rewrite pderiv_popp
                 | rewrite peval_pmul | rewrite peval_psub | rewrite peval_padd | rewrite peval_popp].
    rewrite !pderiv_pconst, pderiv_pX, !peval_pconst, peval_pX. ring.
  Qed.
End PolyDeriv.

(** *** (C02) the derivative relation for the code's recurrence: instantiation of
    [deriv_relation_abstract] with the coefficient lists [leg_qs] (built by the generated [leg_step]
    at [PolyOps]) and their formal derivative.
    eb k = sqrt(rad_b m k) is the code's coefficient b at step k, i.e. eps(m, m+k-1);
    ea k = sqrt(rad_a m k) the coefficient a.  Hypotheses on np.sqrt: it squares to the radicand on
    the b-radicands [Hsq], it is 0 on the zero radicand of step 1 [Hb1], a_k * b_{k+1} = 1 (the two
    radicands are reciprocal, Thm/Legendre.v rad_a_rad_b) [Hrec]; and 4 l^2 - 1 <> 0 in F [Hden]. *)
Section LegendreDerivative.
  Context {F : Type} {o : Ops F} {Fc : FieldC o}.
  Add Field FFld : (field_c : FieldTh o).
  Variable sq : F -> F.
  Variable m : nat.
  Definition leg_ea (k : nat) : F := sq (rad_a (llit m) (llit k)).
  Definition leg_eb (k : nat) : F := sq (rad_b (llit m) (llit k)).
  Hypothesis Hsq : forall k, leg_eb (S k) * leg_eb (S k) = rad_b (llit m) (llit (S k)).
  Hypothesis Hb1 : leg_eb 1 = 0.
  Hypothesis Hrec : forall k, leg_ea (S k) * leg_eb (S (S k)) = 1.
  Hypothesis Hden : forall k, lit 4 * (llit (m + k) * llit (m + k)) - 1 <> 0.

  Lemma leg_qs_fst_S k :
    fst (leg_qs sq m (S k))
    = @leg_step (list F) PolyOps (pconst (leg_ea (S k))) (pconst (leg_eb (S k))) pX
                (fst (leg_qs sq m k)) (snd (leg_qs sq m k)).
  Proof. reflexivity. Qed.
  Lemma leg_qs_snd_S k : snd (leg_qs sq m (S k)) = fst (leg_qs sq m k).
  Proof. reflexivity. Qed.

  Lemma leg_eb_nz k : leg_eb (S (S k)) <> 0.
  Proof. intro E. pose proof (Hrec k) as H. rewrite E in H. apply f1_neq_0. rewrite <- H. ring. Qed.

  Lemma llit_mk k : llit m + llit (S k) - 1 = llit (m + k) :> F.
  Proof. rewrite llit_add. cbn [llit]. ring. Qed.

  Lemma leg_eb_sq k : leg_eb (S k) * leg_eb (S k) = a2_expr 1 (llit (m + k)) (llit m).
  Proof. rewrite Hsq, rad_b_eps2, llit_mk. reflexivity. Qed.

  Section AtPoint.
    Variable t : F.
    Let Q (k : nat) : F := peval (fst (leg_qs sq m k)) t.
    Let dQ (k : nat) : F := peval (pderiv (fst (leg_qs sq m k))) t.
    Let e (k : nat) : F := leg_eb (S k).
    Let Lf (k : nat) : F := llit (m + k).

    Lemma Q_S k : Q (S k) = leg_ea (S k) * (t * Q k - leg_eb (S k) * peval (snd (leg_qs sq m k)) t).
    Proof.
      unfold Q. rewrite leg_qs_fst_S, peval_leg_step, !peval_pconst, peval_pX. unfold leg_step. ring.
    Qed.
    Lemma dQ_S k :
      dQ (S k) = leg_ea (S k) * (Q k + t * dQ k - leg_eb (S k) * peval (pderiv (snd (leg_qs sq m k))) t).
    Proof. unfold dQ, Q. rewrite leg_qs_fst_S, pderiv_leg_step. reflexivity. Qed.

    Lemma leg_HR0 : e 1%nat * Q 1%nat = t * Q 0%nat.
    Proof.
      unfold e. rewrite Q_S. cbn [leg_qs snd peval].
      transitivity (leg_ea 1 * leg_eb 2 * (t * Q 0%nat)); [ring|]. rewrite Hrec. ring.
    Qed.
    Lemma leg_HR k : e (S (S k)) * Q (S (S k)) = t * Q (S k) - e (S k) * Q k.
    Proof.
      unfold e. rewrite (Q_S (S k)), leg_qs_snd_S. fold (Q k).
      transitivity (leg_ea (S (S k)) * leg_eb (S (S (S k))) * (t * Q (S k) - leg_eb (S (S k)) * Q k)); [ring|].
      rewrite Hrec. ring.
    Qed.
    Lemma leg_HdQ0 : dQ 0%nat = 0.
    Proof. reflexivity. Qed.
    Lemma leg_HdR0 : e 1%nat * dQ 1%nat = Q 0%nat + t * dQ 0%nat.
    Proof.
      unfold e. rewrite dQ_S. cbn [leg_qs snd pderiv peval].
      transitivity (leg_ea 1 * leg_eb 2 * (Q 0%nat + t * dQ 0%nat)); [ring|]. rewrite Hrec. ring.
    Qed.
    Lemma leg_HdR k : e (S (S k)) * dQ (S (S k)) = Q (S k) + t * dQ (S k) - e (S k) * dQ k.
    Proof.
      unfold e. rewrite (dQ_S (S k)), leg_qs_snd_S. fold (dQ k).
      transitivity (leg_ea (S (S k)) * leg_eb (S (S (S k))) * (Q (S k) + t * dQ (S k) - leg_eb (S (S k)) * dQ k)); [ring|].
      rewrite Hrec. ring.
    Qed.
    Lemma leg_Hkey k :
      1 + ((1 + 1) * Lf k - 1) * (e k * e k) = ((1 + 1) * Lf k + 1 + 1 + 1) * (e (S k) * e (S k)).
    Proof.
      unfold e, Lf. rewrite !leg_eb_sq.
      replace (llit (m + S k) : F) with (llit (m + k) + 1 : F) by (rewrite Nat.add_succ_r; reflexivity).
      apply eps2_key; [apply Hden|].
      pose proof (Hden (S k)) as H. rewrite Nat.add_succ_r in H. exact H.
    Qed.

    Lemma peval_leg_Dm (q : list F) :
      peval (leg_Dm m q) t = (1 - t * t) * peval (pderiv q) t - llit m * t * peval q t.
    Proof.
      unfold leg_Dm. rewrite peval_psub, peval_pmul, peval_leg_y2, peval_pX, peval_pscale, peval_pmul, peval_pX, leg_y2_spec.
      ring.
    Qed.

    (** (1 - x^2) q_l' - m x q_l = d1_wm(l, eps_l) q_{l-1} + d1_wp(l, eps_{l+1}) q_{l+1},  l = m + k *)
    Theorem leg_q_derivative_relation k :
      peval (leg_Dm m (fst (leg_qs sq m k))) t
      = d1_wm (lit (m + k)) (leg_eb (S k)) * (match k with O => 0 | S k' => peval (fst (leg_qs sq m k')) t end)
        + d1_wp (lit (m + k)) (leg_eb (S (S k))) * peval (fst (leg_qs sq m (S k))) t.
    Proof.
      rewrite peval_leg_Dm.
      pose proof (deriv_relation_abstract t (llit m) Q dQ e Lf) as H.
      specialize (H (f_equal llit (Nat.add_0_r m))).
      specialize (H (fun k => f_equal llit (Nat.add_succ_r m k))).
      specialize (H Hb1 leg_eb_nz leg_HR0 leg_HR leg_HdQ0 leg_HdR0 leg_HdR leg_Hkey k).
      unfold Ek in H. fold (dQ k) (Q k). rewrite H.
      unfold d1_wm, d1_wp, e, Lf. change (@lit F o (m + k)) with (@llit F o (m + k)). cbn [lit].
      destruct k; unfold Q; ring.
    Qed.
  End AtPoint.
End LegendreDerivative.

(** *** the same on the Legendre TABLE of the code: with P[m,i,l] = evaluate(n_m, n_l, x)[m,i,l] = y_i^m q_{m,l}(x_i),
    the value of (1 - x^2) d/dx P at node i, y_i^m * ((1 - x^2) q' - m x q)(x_i) = y_i^m * leg_Dm, is the
    d1_wm / d1_wp weighted combination of the neighbouring table entries, with a = eps(m,l), b = eps(m,l+1) *)
Section LegendreDerivativeTable.
  Context {F : Type} {o : Ops F} {Fc : FieldC o}.
  Add Field FFldt : (field_c : FieldTh o).
  Variable sq : F -> F.

  Lemma leg_q_mk m k : leg_q sq m (m + k) = fst (leg_qs sq m k).
  Proof. unfold leg_q. replace (m + k - m)%nat with k by lia. reflexivity. Qed.
  Lemma leg_eps_mk m k : leg_eps sq m (m + k) = leg_eb sq m (S k).
  Proof. unfold leg_eps, leg_b, leg_eb. replace (m + k + 1 - m)%nat with (S k) by lia. reflexivity. Qed.

  Theorem legendre_derivative_relation nx (x y : nat -> F) n_m n_l m i k :
    (forall j, leg_eb sq m (S j) * leg_eb sq m (S j) = rad_b (llit m) (llit (S j))) ->
    leg_eb sq m 1 = 0 ->
    (forall j, leg_ea sq m (S j) * leg_eb sq m (S (S j)) = 1) ->
    (forall j, lit 4 * (llit (m + j)%nat * llit (m + j)%nat) - 1 <> 0) ->
    (n_m <= n_l)%nat -> (i < nx)%nat -> (m < n_m)%nat -> (m + k + 1 < n_l)%nat ->
    lpow (y i) m * peval (leg_Dm m (leg_q sq m (m + k)%nat)) (x i)
    = d1_wm (lit (m + k)%nat) (leg_eps sq m (m + k)%nat)
        * (match k with O => 0 | S k' => legendre_evaluate sq nx x y n_m n_l m i (m + k')%nat end)
      + d1_wp (lit (m + k)%nat) (leg_eps sq m (m + k + 1)%nat) * legendre_evaluate sq nx x y n_m n_l m i (m + k + 1)%nat.
  Proof.
    intros Hsq Hb1 Hrec Hden Hml Hi Hm Hk.
    assert (Hev : forall j, (m + j < n_l)%nat ->
              legendre_evaluate sq nx x y n_m n_l m i (m + j)%nat = lpow (y i) m * peval (fst (leg_qs sq m j)) (x i)).
    { intros j Hj. rewrite legendre_evaluate_poly by assumption.
      destruct (Nat.ltb_spec m n_m); [|lia]. destruct (Nat.leb_spec m (m + j)%nat); [|lia].
      destruct (Nat.ltb_spec (m + j)%nat n_l); [|lia]. cbn [andb]. now rewrite leg_q_mk. }
    rewrite leg_q_mk, (leg_q_derivative_relation sq m Hsq Hb1 Hrec Hden (x i) k).
    rewrite leg_eps_mk. replace (m + k + 1)%nat with (m + S k)%nat by lia. rewrite leg_eps_mk, (Hev (S k)) by lia.
    destruct k as [|k']; [ring|]. rewrite (Hev k') by lia. ring.
  Qed.
End LegendreDerivativeTable.
