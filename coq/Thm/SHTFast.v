(** Theorems relating the fast spherical-harmonic layout to the reference
    layout (C09; padding inertness also used by C01).  Any field, any sizes,
    any paddings, any tables, any input. *)
From Dino Require Import Base.Ops Base.Sums Model.SHT Model.SHTFast Thm.SHT.
Local Open Scope F_scope.

(** *** integer facts: shapes, axes, masks *)
Lemma round_to_multiple_spec x m : (1 <= m)%nat ->
  (x <= round_to_multiple x m)%nat /\ (round_to_multiple x m < x + m)%nat /\
  (round_to_multiple x m mod m = 0)%nat.
Proof.
  intros Hm. unfold round_to_multiple, ceil_div.
  pose proof (Nat.div_mod (x + m - 1) m ltac:(lia)) as D.
  pose proof (Nat.mod_upper_bound (x + m - 1) m ltac:(lia)) as U.
  repeat split; try nia.
  rewrite Nat.mul_comm. apply Nat.mod_mul. lia.
Qed.

Lemma modal_rows_fast_even base xs M : (1 <= base)%nat -> (1 <= xs)%nat ->
  exists Mh, modal_rows_fast base xs M = (2 * Mh)%nat /\ (M <= Mh)%nat.
Proof.
  intros Hb Hx. unfold modal_rows_fast.
  destruct (round_to_multiple_spec (2 * M) (2 * base * xs)) as (A & _ & _); [nia|].
  unfold round_to_multiple in *.
  exists (base * xs * ceil_div (2 * M) (2 * base * xs))%nat. split; nia.
Qed.

Lemma phi_half a : (phi a / 2 = mabs_real a)%nat.
Proof.
  destruct a as [|a]; [reflexivity|]. unfold phi, mabs_real.
  now replace (S a + 1)%nat with (S (S a)) by lia.
Qed.

Lemma phi_lt a M : (a < 2 * M - 1)%nat -> (phi a < 2 * M)%nat.
Proof. destruct a; cbn [phi]; lia. Qed.

Lemma phi_ne1 a : phi a <> 1%nat.
Proof. destruct a; cbn [phi]; lia. Qed.

Lemma div2_lt k M : (k < 2 * M)%nat -> (k / 2 < M)%nat.
Proof. intros H. apply Nat.div_lt_upper_bound; lia. Qed.

Lemma divmod2 k : (2 * (k / 2) + k mod 2 = k)%nat.
Proof. symmetry. apply Nat.div_mod. lia. Qed.

(** the m axis of the fast layout is the re-indexed m axis of the reference layout *)
Lemma m_fast_phi M a : (a < 2 * M - 1)%nat -> m_fast M (phi a) = m_real a.
Proof.
  intros Ha. destruct a as [|a]; [reflexivity|].
  unfold m_fast, m_real. cbn [phi].
  replace (S (S a) <? 2) with false by (symmetry; apply Nat.ltb_ge; lia).
  replace (S (S a) <? 2 * M) with true by (symmetry; apply Nat.ltb_lt; lia).
  cbn [orb negb].
  rewrite Nat.even_succ_succ.
  destruct (Nat.even a) eqn:E.
  - rewrite Nat.even_succ. rewrite <- Nat.negb_even, E. cbn [negb].
    now replace (S a + 1)%nat with (S (S a)) by lia.
  - rewrite Nat.even_succ. rewrite <- Nat.negb_even, E. cbn [negb].
    f_equal. f_equal.
    rewrite <- Nat.negb_odd in E. apply Bool.negb_false_iff in E.
    apply Nat.odd_spec in E. destruct E as [q ->].
    replace (S (S (2 * q + 1))) with (2 * (q + 1) + 1)%nat by lia.
    replace (S (2 * q + 1)) with (2 * (q + 1))%nat by lia.
    now rewrite div2_double, div2_double1.
Qed.

Lemma m_fast_abs M k : (k < 2 * M)%nat -> k <> 1%nat ->
  Z.abs (m_fast M k) = Z.of_nat (k / 2).
Proof.
  intros Hk H1. unfold m_fast.
  destruct (Nat.ltb_spec k 2) as [H2|H2].
  - cbn [orb]. assert (k = 0)%nat as -> by lia. reflexivity.
  - replace (k <? 2 * M) with true by (symmetry; apply Nat.ltb_lt; lia). cbn [orb negb].
    destruct (Nat.even k); [|rewrite Z.abs_opp]; apply Z.abs_eq; lia.
Qed.

(** the fast mask is the embedded reference mask: false on the extra row and on all padding *)
Lemma mask_fast_spec M L k l :
  mask_fast M L k l =
  (k <? 2 * M) && (l <? L) &&
  match k with O => mask_real O l | S O => false | S k' => mask_real k' l end.
Proof.
  unfold mask_fast.
  destruct (Nat.ltb_spec k (2 * M)) as [Hk|Hk]; [|now rewrite !Bool.andb_false_r].
  destruct (Nat.ltb_spec l L) as [Hl|Hl]; [|now rewrite !Bool.andb_false_r].
  rewrite !Bool.andb_true_r. cbn [andb].
  destruct (Nat.eqb_spec k 1) as [->|H1]; [now rewrite Bool.andb_false_r|].
  rewrite Bool.andb_true_r. rewrite m_fast_abs by assumption.
  unfold l_fast. replace (l <? L) with true by (symmetry; apply Nat.ltb_lt; lia).
  destruct k as [|[|k]]; [| lia |].
  - rewrite mask_real_spec. change (0 / 2)%nat with (mabs_real 0).
    destruct (Nat.leb_spec (mabs_real 0) l); [apply Z.leb_le | apply Z.leb_gt]; lia.
  - rewrite mask_real_spec. change (S (S k)) with (phi (S k)). rewrite phi_half.
    destruct (Nat.leb_spec (mabs_real (S k)) l); [apply Z.leb_le | apply Z.leb_gt]; lia.
Qed.

Lemma mask_fast_phi M L a l : (a < 2 * M - 1)%nat -> (l < L)%nat ->
  mask_fast M L (phi a) l = mask_real a l.
Proof.
  intros Ha Hl. rewrite mask_fast_spec.
  replace (phi a <? 2 * M) with true by (symmetry; apply Nat.ltb_lt; now apply phi_lt).
  replace (l <? L) with true by (symmetry; apply Nat.ltb_lt; lia).
  destruct a; reflexivity.
Qed.

Lemma mask_fast_row1 M L l : mask_fast M L 1 l = false.
Proof. rewrite mask_fast_spec. now rewrite Bool.andb_false_r. Qed.

Lemma mask_fast_pad M L k l : (2 * M <= k \/ L <= l)%nat -> mask_fast M L k l = false.
Proof.
  intros H. rewrite mask_fast_spec.
  destruct (Nat.ltb_spec k (2 * M)); destruct (Nat.ltb_spec l L); try reflexivity; lia.
Qed.

Section Thm.
  Context {F : Type} {o : Ops F} {Fc : FieldC o}.
  Add Field FFshtf : (field_c : FieldTh o).

  Lemma emul_comm rev (a b : F) : emul rev a b = a * b.
  Proof. destruct rev; unfold emul; ring. Qed.

  Lemma sh_memo3_ok b n m (g : nat -> nat -> nat -> F) q a j :
    (q < b)%nat -> (a < n)%nat -> (j < m)%nat -> sh_memo3 b n m g q a j = g q a j.
  Proof.
    intros Hq Ha Hj. unfold sh_memo3.
    rewrite (nth_map_seq (fun q => sh_memo2 n m (g q)) b q) by assumption.
    now apply sh_memo2_ok.
  Qed.

  (** the reshape lemma: a sum over 2n stacked rows = sum over sign and |m| *)
  Lemma sumn_even_odd n (g : nat -> F) :
    sumn (2 * n) g = sumn 2 (fun s => sumn n (fun m => g (2 * m + s)%nat)).
  Proof.
    induction n as [|n IH].
    - cbn. ring.
    - replace (2 * S n)%nat with (S (S (2 * n))) by lia.
      change (sumn (S (S (2 * n))) g) with (sumn (2 * n) g + g (2 * n)%nat + g (S (2 * n))).
      rewrite IH.
      change (sumn 2 (fun s => sumn n (fun m => g (2 * m + s)%nat)))
        with (0 + sumn n (fun m => g (2 * m + 0)%nat) + sumn n (fun m => g (2 * m + 1)%nat)).
      change (sumn 2 (fun s => sumn (S n) (fun m => g (2 * m + s)%nat)))
        with (0 + (sumn n (fun m => g (2 * m + 0)%nat) + g (2 * n + 0)%nat)
                + (sumn n (fun m => g (2 * m + 1)%nat) + g (2 * n + 1)%nat)).
      replace (2 * n + 0)%nat with (2 * n)%nat by lia.
      replace (2 * n + 1)%nat with (S (2 * n)) by lia. ring.
  Qed.

  (** a sum over the 2M fast rows whose row-1 term vanishes = sum over the 2M-1 reference rows *)
  Lemma sumn_phi M (g : nat -> F) : (1 <= M)%nat -> g 1%nat = 0 ->
    sumn (2 * M) g = sumn (2 * M - 1) (fun a => g (phi a)).
  Proof.
    intros HM H1. replace (2 * M)%nat with (S (S (2 * M - 2))) by lia.
    replace (S (S (2 * M - 2)) - 1)%nat with (S (2 * M - 2)) by lia.
    rewrite (sumn_S_first (S (2 * M - 2)) g), (sumn_S_first (2 * M - 2) (fun i => g (S i))).
    rewrite (sumn_S_first (2 * M - 2) (fun a => g (phi a))).
    rewrite H1. cbn [phi]. ring.
  Qed.

    (** *** re-indexing algebra *)
    Lemma proj_embed M L (x : nat -> nat -> F) a l : (a < 2 * M - 1)%nat -> (l < L)%nat -> proj (embed M L x) a l = x a l.
    Proof.
      intros Ha Hl. unfold proj, embed.
      replace (phi a <? 2 * M) with true by (symmetry; apply Nat.ltb_lt; now apply phi_lt).
      replace (l <? L) with true by (symmetry; apply Nat.ltb_lt; lia).
      destruct a; reflexivity.
    Qed.

    Lemma embed_row1 M L (x : nat -> nat -> F) l : embed M L x 1 l = 0.
    Proof. unfold embed. destruct ((1 <? 2 * M) && (l <? L)); reflexivity. Qed.

    Lemma embed_pad M L (x : nat -> nat -> F) k l : (2 * M <= k \/ L <= l)%nat -> embed M L x k l = 0.
    Proof.
      intros H. unfold embed.
      destruct (Nat.ltb_spec k (2 * M)); destruct (Nat.ltb_spec l L); try reflexivity; lia.
    Qed.

    Lemma embed_phi M L (x : nat -> nat -> F) a l : (a < 2 * M - 1)%nat -> (l < L)%nat -> embed M L x (phi a) l = x a l.
    Proof. intros Ha Hl. now apply proj_embed. Qed.

  Section Plain.
    Variables (Mh Lf If Jf : nat).
    Variable ff : nat -> nat -> F.
    Variable pf : nat -> nat -> nat -> F.
    Variable wf : nat -> F.

    (** *** the fast transforms as plain nested sums *)
    Lemma synth_fast_u_eq rev y i j : (j < Jf)%nat ->
      synth_fast_u rev Mh Lf Jf ff pf y i j
      = sumn (2 * Mh) (fun k => ff i k * sumn Lf (fun l => pf (k / 2) j l * y k l)).
    Proof.
      intros Hj. unfold synth_fast_u. apply sumn_ext; intros k Hk.
      rewrite emul_comm. f_equal. rewrite sh_memo2_ok by assumption.
      unfold stack_m, inv_legendre_f, unstack_m. apply sumn_ext; intros l _.
      rewrite emul_comm. now rewrite divmod2.
    Qed.

    Lemma synth_fast_s_eq_u rev f3 y i j :
      (forall i s m, (s < 2)%nat -> (m < Mh)%nat -> f3 i s m = ff i (2 * m + s)%nat) ->
      (j < Jf)%nat ->
      synth_fast_s rev Mh Lf Jf f3 pf y i j = synth_fast_u rev Mh Lf Jf ff pf y i j.
    Proof.
      intros H3 Hj. rewrite synth_fast_u_eq by assumption. rewrite sumn_even_odd.
      unfold synth_fast_s. apply sumn_ext; intros s Hs. apply sumn_ext; intros m Hm.
      rewrite emul_comm, sh_memo3_ok, H3 by assumption. f_equal.
      unfold inv_legendre_f, unstack_m. apply sumn_ext; intros l _. rewrite emul_comm.
      replace ((2 * m + s) / 2)%nat with m; [reflexivity|].
      apply (Nat.div_unique (2 * m + s) 2 m s); lia.
    Qed.

    Lemma analysis_fast_u_eq rev z k l : (k < 2 * Mh)%nat ->
      analysis_fast_u rev Mh If Jf ff pf wf z k l
      = sumn Jf (fun j => pf (k / 2) j l * sumn If (fun i => ff i k * (wf j * z i j))).
    Proof.
      intros Hk. unfold analysis_fast_u, stack_m, fwd_legendre_f, unstack_m.
      apply sumn_ext; intros j Hj. rewrite emul_comm. f_equal.
      rewrite divmod2. rewrite sh_memo2_ok by assumption.
      apply sumn_ext; intros i Hi. rewrite emul_comm. now rewrite sh_memo2_ok.
    Qed.

    Lemma analysis_fast_s_eq_u rev f3 z k l :
      (forall i s m, (s < 2)%nat -> (m < Mh)%nat -> f3 i s m = ff i (2 * m + s)%nat) ->
      (k < 2 * Mh)%nat ->
      analysis_fast_s rev Mh If Jf f3 pf wf z k l = analysis_fast_u rev Mh If Jf ff pf wf z k l.
    Proof.
      intros H3 Hk. rewrite analysis_fast_u_eq by assumption.
      unfold analysis_fast_s, stack_m, fwd_legendre_f.
      apply sumn_ext; intros j Hj. rewrite emul_comm. f_equal.
      assert (Hs : (k mod 2 < 2)%nat) by (apply Nat.mod_upper_bound; lia).
      assert (Hm : (k / 2 < Mh)%nat) by now apply div2_lt.
      rewrite sh_memo3_ok by assumption.
      apply sumn_ext; intros i Hi. rewrite emul_comm, H3 by assumption.
      rewrite divmod2. now rewrite sh_memo2_ok.
    Qed.

  End Plain.

  Section Related.
    Variables (M L I J Mh Lf If Jf : nat).
    Hypothesis HM : (1 <= M)%nat.
    Hypothesis HMh : (M <= Mh)%nat.
    Hypothesis HLf : (L <= Lf)%nat.
    Hypothesis HIf : (I <= If)%nat.
    Hypothesis HJf : (J <= Jf)%nat.
    Variable fr : nat -> nat -> F.
    Variable pr : nat -> nat -> nat -> F.
    Variable wr : nat -> F.
    Variable ff : nat -> nat -> F.
    Variable pf : nat -> nat -> nat -> F.
    Variable wf : nat -> F.

    (** the fast tables are the reference tables re-indexed by phi, with the
        extra zero column for m = -0 and zero padding (exact table obligation) *)
    Record tables_related : Prop := {
      tr_f_in : forall i a, (i < I)%nat -> (a < 2 * M - 1)%nat -> ff i (phi a) = fr i a;
      tr_f_row1 : forall i, (i < If)%nat -> ff i 1%nat = 0;
      tr_f_out : forall i k, (i < If)%nat -> (k < 2 * Mh)%nat -> (I <= i \/ 2 * M <= k)%nat -> ff i k = 0;
      tr_p_in : forall a j l, (a < 2 * M - 1)%nat -> (j < J)%nat -> (l < L)%nat ->
                              pf (mabs_real a) j l = pr a j l;
      tr_p_out : forall m j l, (m < Mh)%nat -> (j < Jf)%nat -> (l < Lf)%nat ->
                               (M <= m \/ J <= j \/ L <= l)%nat -> pf m j l = 0;
      tr_w_in : forall j, (j < J)%nat -> wf j = wr j;
      tr_w_out : forall j, (J <= j)%nat -> (j < Jf)%nat -> wf j = 0 }.

    Definition K := (2 * M - 1)%nat.

    (** *** synthesis: fast = pad . reference . Pi, for EVERY fast-layout input
        (whatever sits in the extra row or in the padding is inert) *)
    Theorem synth_fast_general rev y i j :
      tables_related -> (i < If)%nat -> (j < Jf)%nat ->
      synth_fast_u rev Mh Lf Jf ff pf y i j
      = pad2 I J (synth K L J fr pr (proj y)) i j.
    Proof.
      intros T Hi Hj. rewrite synth_fast_u_eq by assumption. unfold pad2.
      destruct (Nat.ltb_spec i I) as [HiI|HiI]; cbn [andb].
      2:{ apply sumn_zero; intros k Hk. rewrite (tr_f_out T i k) by (auto; lia). ring. }
      destruct (Nat.ltb_spec j J) as [HjJ|HjJ].
      2:{ apply sumn_zero; intros k Hk. rewrite sumn_zero; [ring|].
          intros l Hl. rewrite (tr_p_out T (k / 2) j l); auto; [ring | now apply div2_lt]. }
      rewrite (sumn_trunc (2 * M) (2 * Mh)); [| lia |].
      2:{ intros k Hk1 Hk2. rewrite (tr_f_out T i k) by (auto; lia). ring. }
      rewrite sumn_phi; [| assumption | rewrite (tr_f_row1 T i Hi); ring].
      rewrite synth_eq by assumption. unfold sum2, K. apply sumn_ext; intros a Ha.
      rewrite (tr_f_in T i a HiI Ha). rewrite <- sumn_scal_l.
      rewrite (sumn_trunc L Lf); [| lia |].
      2:{ intros l Hl1 Hl2. rewrite (tr_p_out T (phi a / 2) j l); auto; [ring|].
          apply div2_lt. pose proof (phi_lt a M Ha). lia. }
      apply sumn_ext; intros l Hl. rewrite phi_half, (tr_p_in T a j l) by assumption.
      unfold ylm, proj. ring.
    Qed.

    (** *** analysis: fast = E . reference, for EVERY padded nodal input
        (whatever sits in the nodal padding is inert; the extra row and the
        modal padding of the result are exactly zero) *)
    Theorem analysis_fast_general rev z k l :
      tables_related -> (k < 2 * Mh)%nat -> (l < Lf)%nat ->
      analysis_fast_u rev Mh If Jf ff pf wf z k l
      = embed M L (analysis K I J fr pr wr z) k l.
    Proof.
      intros T Hk Hl. rewrite analysis_fast_u_eq by assumption. unfold embed.
      destruct (Nat.ltb_spec k (2 * M)) as [HkM|HkM]; cbn [andb].
      2:{ apply sumn_zero; intros j Hj. rewrite sumn_zero; [ring|].
          intros i Hi. rewrite (tr_f_out T i k) by (auto; lia). ring. }
      destruct (Nat.ltb_spec l L) as [HlL|HlL].
      2:{ apply sumn_zero; intros j Hj. rewrite (tr_p_out T (k / 2) j l); auto; [ring|].
          now apply div2_lt. }
      assert (Main : forall a, (a < 2 * M - 1)%nat ->
                sumn Jf (fun j => pf (phi a / 2) j l * sumn If (fun i => ff i (phi a) * (wf j * z i j)))
                = analysis K I J fr pr wr z a l).
      { intros a Ha. rewrite analysis_eq by assumption. rewrite sum2_swap. unfold sum2.
        rewrite (sumn_trunc J Jf); [| lia |].
        2:{ intros j Hj1 Hj2. rewrite (tr_p_out T (phi a / 2) j l); auto; [ring|].
            apply div2_lt. pose proof (phi_lt a M Ha). lia. }
        apply sumn_ext; intros j Hj. rewrite phi_half, (tr_p_in T a j l) by assumption.
        rewrite <- sumn_scal_l.
        rewrite (sumn_trunc I If); [| lia |].
        2:{ intros i Hi1 Hi2. rewrite (tr_f_out T i (phi a)); auto; [ring|].
            pose proof (phi_lt a M Ha). lia. }
        apply sumn_ext; intros i Hi. rewrite (tr_f_in T i a Hi Ha), (tr_w_in T j Hj).
        unfold ylm. ring. }
      destruct k as [|[|k]].
      - apply (Main 0%nat). lia.
      - apply sumn_zero; intros j Hj. rewrite sumn_zero; [ring|].
        intros i Hi. rewrite (tr_f_row1 T i Hi). ring.
      - apply (Main (S k)). lia.
    Qed.

    (** *** C09 statements in the E / pad form *)
    Theorem synth_fast_embed rev x i j :
      tables_related -> (i < If)%nat -> (j < Jf)%nat ->
      synth_fast_u rev Mh Lf Jf ff pf (embed M L x) i j = pad2 I J (synth K L J fr pr x) i j.
    Proof.
      intros T Hi Hj. rewrite synth_fast_general by assumption. unfold pad2.
      destruct (Nat.ltb_spec i I); destruct (Nat.ltb_spec j J); cbn [andb]; try reflexivity.
      apply synth_ext; [assumption|]. intros a l Ha Hl. now apply proj_embed.
    Qed.

    Theorem analysis_fast_pad rev z k l :
      tables_related -> (k < 2 * Mh)%nat -> (l < Lf)%nat ->
      analysis_fast_u rev Mh If Jf ff pf wf (pad2 I J z) k l
      = embed M L (analysis K I J fr pr wr z) k l.
    Proof.
      intros T Hk Hl. rewrite analysis_fast_general by assumption. unfold embed.
      destruct ((k <? 2 * M) && (l <? L)) eqn:E; [|reflexivity].
      apply Bool.andb_true_iff in E. destruct E as [E1 _]. apply Nat.ltb_lt in E1.
      assert (X : forall a, (a < K)%nat ->
                analysis K I J fr pr wr (pad2 I J z) a l = analysis K I J fr pr wr z a l).
      { intros a Ha. apply analysis_ext; [assumption|]. intros i j Hi Hj. unfold pad2.
        replace (i <? I) with true by (symmetry; now apply Nat.ltb_lt).
        replace (j <? J) with true by (symmetry; now apply Nat.ltb_lt). reflexivity. }
      destruct k as [|[|k]]; [apply X; unfold K; lia | reflexivity | apply X; unfold K; lia].
    Qed.

    (** padded nodal entries of a fast synthesis are exactly zero *)
    Corollary synth_fast_padding_zero rev y i j :
      tables_related -> (i < If)%nat -> (j < Jf)%nat -> (I <= i \/ J <= j)%nat ->
      synth_fast_u rev Mh Lf Jf ff pf y i j = 0.
    Proof.
      intros T Hi Hj H. rewrite synth_fast_general by assumption. unfold pad2.
      destruct (Nat.ltb_spec i I); destruct (Nat.ltb_spec j J); cbn [andb]; try reflexivity; lia.
    Qed.

    (** the extra row and the modal padding of a fast analysis are exactly zero *)
    Corollary analysis_fast_extra_zero rev z k l :
      tables_related -> (k < 2 * Mh)%nat -> (l < Lf)%nat -> (k = 1 \/ 2 * M <= k \/ L <= l)%nat ->
      analysis_fast_u rev Mh If Jf ff pf wf z k l = 0.
    Proof.
      intros T Hk Hl H. rewrite analysis_fast_general by assumption.
      destruct H as [->|H]; [apply embed_row1 | now apply embed_pad].
    Qed.

    (** *** the C01 round trip transported to the fast layout *)
    Theorem fast_roundtrip rev y k l (wq : F) (wp : nat -> F) :
      tables_related ->
      H_weights J wr wq wp -> H_fourier_orth K I fr wq -> H_legendre_orth K L J pr wp mabs_real ->
      H_p_support K L J pr mabs_real ->
      (k < 2 * Mh)%nat -> (l < Lf)%nat ->
      analysis_fast_u rev Mh If Jf ff pf wf (synth_fast_u rev Mh Lf Jf ff pf y) k l
      = if mask_fast M L k l then y k l else 0.
    Proof.
      intros T Hw Hfo Hlo Hps Hk Hl. rewrite analysis_fast_general by assumption.
      rewrite mask_fast_spec. unfold embed.
      destruct (Nat.ltb_spec k (2 * M)) as [HkM|HkM]; cbn [andb]; [|reflexivity].
      destruct (Nat.ltb_spec l L) as [HlL|HlL]; cbn [andb]; [|reflexivity].
      assert (X : forall a, (a < K)%nat ->
                analysis K I J fr pr wr (synth_fast_u rev Mh Lf Jf ff pf y) a l
                = if mask_real a l then y (phi a) l else 0).
      { intros a Ha.
        rewrite (analysis_ext K I J fr pr wr _ (synth K L J fr pr (proj y))); [| assumption |].
        - rewrite (sht_roundtrip K L I J fr pr wr wq wp mabs_real) by assumption.
          rewrite mask_real_spec. reflexivity.
        - intros i j Hi Hj. rewrite synth_fast_general by (auto; lia). unfold pad2.
          replace (i <? I) with true by (symmetry; now apply Nat.ltb_lt).
          replace (j <? J) with true by (symmetry; now apply Nat.ltb_lt). reflexivity. }
      destruct k as [|[|k]]; [apply (X 0%nat); unfold K; lia | reflexivity | apply (X (S k)); unfold K; lia].
    Qed.
  End Related.

  (** *** options are irrelevant *)
  Theorem rev_irrelevant_synth Mh Lf Jf (f : nat -> nat -> F) p y i j : (j < Jf)%nat ->
    synth_fast_u true Mh Lf Jf f p y i j = synth_fast_u false Mh Lf Jf f p y i j.
  Proof. intros Hj. now rewrite !synth_fast_u_eq. Qed.

  Theorem rev_irrelevant_analysis Mh If Jf (f : nat -> nat -> F) p w z k l : (k < 2 * Mh)%nat ->
    analysis_fast_u true Mh If Jf f p w z k l = analysis_fast_u false Mh If Jf f p w z k l.
  Proof. intros Hk. now rewrite !analysis_fast_u_eq. Qed.

  (** stacked (with the Fortran-reshaped Fourier table of [basis]) = unstacked, any argument order *)
  Theorem stacked_irrelevant_synth rev rev' Mh Lf Jf (f : nat -> nat -> F) p y i j : (j < Jf)%nat ->
    synth_fast_s rev Mh Lf Jf (stack_f f) p y i j = synth_fast_u rev' Mh Lf Jf f p y i j.
  Proof.
    intros Hj. rewrite (synth_fast_s_eq_u Mh Lf Jf f p rev (stack_f f)); [| intros; reflexivity | assumption].
    now rewrite !synth_fast_u_eq.
  Qed.

  Theorem stacked_irrelevant_analysis rev rev' Mh If Jf (f : nat -> nat -> F) p w z k l :
    (k < 2 * Mh)%nat ->
    analysis_fast_s rev Mh If Jf (stack_f f) p w z k l = analysis_fast_u rev' Mh If Jf f p w z k l.
  Proof.
    intros Hk. rewrite (analysis_fast_s_eq_u Mh If Jf f p w rev (stack_f f)); [| intros; reflexivity | assumption].
    now rewrite !analysis_fast_u_eq.
  Qed.

  (** two fast configurations (different paddings / base multiples) related to the
      same reference tables agree on every resolved entry *)
  Theorem base_multiple_irrelevant_synth M L I J Mh Lf If Jf Mh' Lf' If' Jf'
          fr pr wr ff pf wf ff' pf' wf' rev rev' y y' i j :
    (1 <= M)%nat -> (M <= Mh)%nat -> (L <= Lf)%nat -> (M <= Mh')%nat -> (L <= Lf')%nat ->
    (I <= If)%nat -> (J <= Jf)%nat -> (I <= If')%nat -> (J <= Jf')%nat ->
    tables_related M L I J Mh Lf If Jf fr pr wr ff pf wf ->
    tables_related M L I J Mh' Lf' If' Jf' fr pr wr ff' pf' wf' ->
    (forall a l, (a < 2 * M - 1)%nat -> (l < L)%nat -> y (phi a) l = y' (phi a) l) ->
    (i < I)%nat -> (j < J)%nat ->
    synth_fast_u rev Mh Lf Jf ff pf y i j = synth_fast_u rev' Mh' Lf' Jf' ff' pf' y' i j.
  Proof.
    intros HM H1 H2 H3 H4 H5 H6 H7 H8 T T' Hy Hi Hj.
    rewrite synth_fast_general with (M:=M) (L:=L) (I:=I) (J:=J) (If:=If) (fr:=fr) (pr:=pr) (wr:=wr) (wf:=wf);
      try assumption; try lia.
    rewrite synth_fast_general with (M:=M) (L:=L) (I:=I) (J:=J) (If:=If') (fr:=fr) (pr:=pr) (wr:=wr) (wf:=wf');
      try assumption; try lia.
    unfold pad2.
    replace (i <? I) with true by (symmetry; now apply Nat.ltb_lt).
    replace (j <? J) with true by (symmetry; now apply Nat.ltb_lt). cbn [andb].
    apply synth_ext; [assumption|]. intros a l Ha Hl. unfold proj. now apply Hy.
  Qed.

  Theorem base_multiple_irrelevant_analysis M L I J Mh Lf If Jf Mh' Lf' If' Jf'
          fr pr wr ff pf wf ff' pf' wf' rev rev' z z' a l :
    (1 <= M)%nat -> (M <= Mh)%nat -> (L <= Lf)%nat -> (M <= Mh')%nat -> (L <= Lf')%nat ->
    (I <= If)%nat -> (J <= Jf)%nat -> (I <= If')%nat -> (J <= Jf')%nat ->
    tables_related M L I J Mh Lf If Jf fr pr wr ff pf wf ->
    tables_related M L I J Mh' Lf' If' Jf' fr pr wr ff' pf' wf' ->
    (forall i j, (i < I)%nat -> (j < J)%nat -> z i j = z' i j) ->
    (a < 2 * M - 1)%nat -> (l < L)%nat ->
    analysis_fast_u rev Mh If Jf ff pf wf z (phi a) l
    = analysis_fast_u rev' Mh' If' Jf' ff' pf' wf' z' (phi a) l.
  Proof.
    intros HM H1 H2 H3 H4 H5 H6 H7 H8 T T' Hz Ha Hl.
    pose proof (phi_lt a M Ha) as Hp.
    rewrite analysis_fast_general with (M:=M) (L:=L) (I:=I) (J:=J) (Lf:=Lf) (fr:=fr) (pr:=pr) (wr:=wr);
      try assumption; try lia.
    rewrite analysis_fast_general with (M:=M) (L:=L) (I:=I) (J:=J) (Lf:=Lf') (fr:=fr) (pr:=pr) (wr:=wr);
      try assumption; try lia.
    rewrite !embed_phi by assumption.
    apply analysis_ext; [assumption|]. exact Hz.
  Qed.
End Thm.
