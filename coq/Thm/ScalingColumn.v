(** Property C12, discharge of the hypotheses of the step-covariance theorems
    (Thm/Scaling.v, Section StepCovariance) for the implicit column model of the
    primitive equations (Model/Implicit.v): one spectral coefficient with
    Laplacian eigenvalue [lam], state (divergence[K], temperature[K], lnps).

    Change of scale: divergence * kr, temperature * kT, lnps + shift;
    R * kR, T_ref * kT, kappa and sigma unchanged, lam * kl (1/L^2),
    step sizes * tau.  Dimensional consistency of the implicit system is the
    three relations  tau * kr = 1  (time x rate),  kR * kT * kl = kr * kr
    (geopotential / L^2 = rate^2)  and  shift * lam = 0  (the log-pressure
    shift lives in the mean mode, whose eigenvalue is 0).

    Leibniz equality of columns (records of functions) is obtained with
    functional extensionality on the clipped representation. *)
From Dino Require Import Base.Ops Base.Sums Model.Sigma Model.Implicit Model.Integrators Model.Scaling
  Thm.Sigma Thm.Implicit Thm.Scaling.
From Coq Require Import FunctionalExtensionality.
Local Open Scope F_scope.

Section ColumnCov.
  Context {F : Type} {o : Ops F} {Fc : FieldC o}.
  Add Field FFcc : (field_c : FieldTh o).

  Lemma col_ext (d1 d2 t1 t2 : nat -> F) (l1 l2 : F) :
    (forall k, d1 k = d2 k) -> (forall k, t1 k = t2 k) -> l1 = l2 -> mkCol d1 t1 l1 = mkCol d2 t2 l2.
  Proof.
    intros Hd Ht ->. f_equal; apply functional_extensionality; assumption.
  Qed.

  Lemma clipv_lt K (v : nat -> F) k : (k < K)%nat -> clipv K v k = v k.
  Proof. intros H. unfold clipv. destruct (Nat.ltb_spec k K); [reflexivity|lia]. Qed.
  Lemma clipv_ge K (v : nat -> F) k : (K <= k)%nat -> clipv K v k = 0.
  Proof. intros H. unfold clipv. destruct (Nat.ltb_spec k K); [lia|reflexivity]. Qed.

  Variables (kr kT kR kl tau shift : F).
  Variable c : @PEcfg F.
  Variable lam : F.
  Hypothesis H_time : tau * kr = 1.
  Hypothesis H_geo : kR * kT * kl = kr * kr.
  Hypothesis H_shift : shift * lam = 0.

  Notation K := (cK c).
  Notation c' := (scale_cfg kT kR c).
  Notation lam' := (kl * lam).
  Notation Lc := (col_L K kr kT).
  Notation c0 := (col_shift shift).
  Local Instance vo : VOps F (@Col F) := ColOps.
  Notation Scc := (Sc Lc c0).
  Notation Tnc := (Tn Lc tau).

  Lemma tau_nz : tau <> 0.
  Proof. intro E. rewrite E in H_time. apply (one_nz (F := F)). rewrite <- H_time. ring. Qed.
  Lemma inv_tau : 1 / tau = kr.
  Proof.
    pose proof tau_nz as Ht.
    replace kr with (tau * kr / tau) by (field; assumption). rewrite H_time. reflexivity.
  Qed.

  (** *** vector-space laws of the column state space and linearity of the change of scale *)
  Lemma col_vadd_assoc (u v w : @Col F) : vadd u (vadd v w) = vadd (vadd u v) w.
  Proof. destruct u, v, w; cbn. apply col_ext; intros; ring. Qed.
  Lemma col_vadd_comm (u v : @Col F) : vadd u v = vadd v u.
  Proof. destruct u, v; cbn. apply col_ext; intros; ring. Qed.
  Lemma col_vscal_add (a : F) (u v : @Col F) : vscal a (vadd u v) = vadd (vscal a u) (vscal a v).
  Proof. destruct u, v; cbn. apply col_ext; intros; ring. Qed.
  Lemma col_vscal_mul (a b : F) (u : @Col F) : vscal a (vscal b u) = vscal (a * b) u.
  Proof. destruct u; cbn. apply col_ext; intros; ring. Qed.
  Lemma col_vscal_zero (a : F) : vscal a vzero = (vzero : @Col F).
  Proof. cbn. apply col_ext; intros; ring. Qed.
  Lemma col_L_add u v : Lc (vadd u v) = vadd (Lc u) (Lc v).
  Proof.
    destruct u, v; cbn. unfold col_L; cbn. apply col_ext; try reflexivity;
      intros k; unfold clipv, scol; destruct (Nat.ltb k K); ring.
  Qed.
  Lemma col_L_scal a u : Lc (vscal a u) = vscal a (Lc u).
  Proof.
    destruct u; cbn. unfold col_L; cbn. apply col_ext; try reflexivity;
      intros k; unfold clipv, scol; destruct (Nat.ltb k K); ring.
  Qed.
  Lemma col_L_zero : Lc vzero = vzero.
  Proof.
    cbn. unfold col_L; cbn. apply col_ext; try reflexivity;
      intros k; unfold clipv, scol; destruct (Nat.ltb k K); ring.
  Qed.

  (** *** the matrix H of the temperature equation is linear in T_ref *)
  Lemma temp_weights_homogeneous r s : temp_weights c' r s = kT * temp_weights c r s.
  Proof.
    unfold temp_weights. cbv zeta. cbn [Scaling.scale_cfg cK cb cls ckappa cTref].
    unfold roll1_zero, scol. rewrite !Thm.Scaling.fdiv_mul.
    repeat match goal with |- context [if ?b then _ else _] => destruct b end; ring.
  Qed.

  (** *** implicit terms of a rescaled column *)
  Lemma Sc_div u k : (k < K)%nat -> c_div (Scc u) k = kr * c_div u k.
  Proof. intros Hk. unfold Sc, col_L, col_shift; cbn. rewrite clipv_lt by exact Hk. unfold scol. ring. Qed.
  Lemma Sc_temp u k : (k < K)%nat -> c_temp (Scc u) k = kT * c_temp u k.
  Proof. intros Hk. unfold Sc, col_L, col_shift; cbn. rewrite clipv_lt by exact Hk. unfold scol. ring. Qed.
  Lemma Sc_lnps u : c_lnps (Scc u) = c_lnps u + shift.
  Proof. reflexivity. Qed.

  Theorem column_implicit_terms_covariant u :
    col_G c' lam' (Scc u) = Tnc (col_G c lam u).
  Proof.
    unfold col_G, Tn, clipK, implicit_terms. cbv zeta. cbn [c_div c_temp c_lnps vscal vo ColOps col_L].
    cbn [Scaling.scale_cfg cK cb cR cTref]. rewrite inv_tau.
    apply col_ext.
    - intros k. unfold scol.
      destruct (Nat.ltb_spec k K) as [Hk|Hk]; [rewrite !(clipv_lt K _ k Hk) | rewrite !(clipv_ge K _ k Hk); ring].
      unfold geo_diff. cbn [Scaling.scale_cfg cK cR cls]. unfold geo_diff_dense at 1.
      rewrite (sumn_ext K _ (fun j => geo_weights K (kR * cR c) (cls c) k j * scol kT (c_temp u) j)).
      2:{ intros j Hj. now rewrite Sc_temp. }
      change (sumn K (fun j => geo_weights K (kR * cR c) (cls c) k j * scol kT (c_temp u) j))
        with (geo_diff_dense K (kR * cR c) (cls c) (scol kT (c_temp u)) k).
      rewrite geo_diff_dense_homogeneous, Sc_lnps.
      set (g := geo_diff_dense K (cR c) (cls c) (c_temp u) k).
      transitivity (kR * kT * kl * (- ((g + cR c * cTref c k * c_lnps u) * lam))
                    + shift * lam * (- (kR * cR c * (kT * cTref c k) * kl))); [ring|].
      rewrite H_geo, H_shift. ring.
    - intros k. unfold scol.
      destruct (Nat.ltb_spec k K) as [Hk|Hk]; [rewrite !(clipv_lt K _ k Hk) | rewrite !(clipv_ge K _ k Hk); ring].
      unfold temp_implicit, temp_implicit_dense, matvec, neg_temp_weights. cbn [Scaling.scale_cfg cK].
      rewrite (sumn_ext K _ (fun h => kT * kr * (- temp_weights c k h * c_div u h))).
      2:{ intros h Hh. rewrite temp_weights_homogeneous, Sc_div by exact Hh. ring. }
      rewrite sumn_scal_l. ring.
    - unfold matvec.
      rewrite (sumn_ext K _ (fun h => kr * (thickness (cb c) h * c_div u h))).
      2:{ intros h Hh. rewrite Sc_div by exact Hh. ring. }
      rewrite sumn_scal_l. ring.
  Qed.

  (** *** the resolvent *)
  Variable inv : nat -> @Mat F -> @Mat F.
  Hypothesis feqb_sound : forall x y : F, feqb x y = true -> x = y.
  Hypothesis th0_nz : thickness (cb c) 0%nat <> 0.
  Hypothesis thK_nz : thickness (cb c) (K - 1)%nat <> 0.
  Notation n := (2 * K + 1)%nat.

  (** [inv] inverts the implicit matrix of the first scale at step size [eta]
      (as a right inverse) and the one of the second scale at [tau * eta] (as a
      left inverse) - for square matrices both just say "np.linalg.inv worked" *)
  Definition col_ok (eta : F) : Prop :=
    is_left_inverse n (implicit_matrix c eta lam) (inv n (implicit_matrix c eta lam)) /\
    is_left_inverse n (inv n (implicit_matrix c' (tau * eta) lam')) (implicit_matrix c' (tau * eta) lam').

  Lemma implicit_terms_col_ext (cc : @PEcfg F) l (x y : @Col F) :
    col_eq (cK cc) x y -> col_eq (cK cc) (implicit_terms false cc l x) (implicit_terms false cc l y).
  Proof.
    intros (A & B & C). unfold implicit_terms. cbv zeta.
    repeat split; cbn [c_div c_temp c_lnps].
    - intros g Hg. rewrite C. unfold geo_diff, geo_diff_dense.
      rewrite (sumn_ext (cK cc) _ (fun k => geo_weights (cK cc) (cR cc) (cls cc) g k * c_temp y k))
        by (intros k Hk; now rewrite B). reflexivity.
    - intros g Hg. unfold temp_implicit, temp_implicit_dense. apply matvec_ext. exact A.
    - f_equal. apply matvec_ext. exact A.
  Qed.

  Lemma clipK_col_eq (x : @Col F) : col_eq K (clipK K x) x.
  Proof. repeat split; cbn [clipK c_div c_temp c_lnps]; intros; now apply clipv_lt. Qed.

  (** right inverse of the matrix => right resolvent of the operator *)
  Lemma column_right_resolvent eta y :
    is_left_inverse n (implicit_matrix c eta lam) (inv n (implicit_matrix c eta lam)) ->
    Lc (vadd (col_Ginv inv c lam y eta) (vscal (- eta) (col_G c lam (col_Ginv inv c lam y eta)))) = Lc y.
  Proof.
    intros Hr. unfold col_Ginv, col_G.
    set (z := inverse_stacked inv c eta lam y).
    assert (W : col_eq K (col_minus_scaled z eta (implicit_terms false c lam z)) y).
    { apply stack_inj. intros h Hh. rewrite <- matrix_is_I_minus_eta_L by exact Hh.
      rewrite (matvec_ext n _ (stack K z) (matvec n (inv n (implicit_matrix c eta lam)) (stack K y))).
      2:{ intros j Hj. unfold z, inverse_stacked. cbv zeta. now apply stack_unstack. }
      rewrite <- matvec_matmul.
      rewrite (matvec_ext_mat n _ eye) by (intros j Hj; now apply Hr).
      now apply matvec_eye. }
    destruct W as (Wd & Wt & Wl).
    destruct (clipK_col_eq z) as (Ud & Ut & Ul).
    destruct (implicit_terms_col_ext c lam _ _ (clipK_col_eq z)) as (Id & It & Il).
    set (uz := clipK K z) in *.
    unfold col_L. cbn [vadd vscal vo ColOps c_div c_temp c_lnps clipK].
    apply col_ext.
    - intros k. destruct (Nat.ltb_spec k K) as [Hk|Hk]; [|now rewrite !(clipv_ge K _ k Hk)].
      rewrite !(clipv_lt K _ k Hk). unfold scol. rewrite <- (Wd k Hk).
      cbn [col_minus_scaled c_div]. rewrite ?(clipv_lt K _ k Hk). rewrite (Id k Hk), (Ud k Hk). ring.
    - intros k. destruct (Nat.ltb_spec k K) as [Hk|Hk]; [|now rewrite !(clipv_ge K _ k Hk)].
      rewrite !(clipv_lt K _ k Hk). unfold scol. rewrite <- (Wt k Hk).
      cbn [col_minus_scaled c_temp]. rewrite ?(clipv_lt K _ k Hk). rewrite (It k Hk), (Ut k Hk). ring.
    - rewrite <- Wl. cbn [col_minus_scaled c_lnps]. rewrite Il, Ul. ring.
  Qed.

  (** left inverse of the matrix => left resolvent, on rescaled (hence clipped) states *)
  Lemma column_left_resolvent eta' u :
    is_left_inverse n (inv n (implicit_matrix c' eta' lam')) (implicit_matrix c' eta' lam') ->
    col_Ginv inv c' lam' (vadd (Scc u) (vscal (- eta') (col_G c' lam' (Scc u)))) eta' = Scc u.
  Proof.
    intros Hl. unfold col_Ginv.
    pose proof (stacked_resolvent_gen feqb_sound inv c' eta' lam' (Scc u)
                  (vadd (Scc u) (vscal (- eta') (col_G c' lam' (Scc u)))) false Hl th0_nz thK_nz) as R.
    cbn [Scaling.scale_cfg cK] in R.
    assert (Hy : col_eq K (vadd (Scc u) (vscal (- eta') (col_G c' lam' (Scc u))))
                         (col_minus_scaled (Scc u) eta' (implicit_terms false c' lam' (Scc u)))).
    { unfold col_G. cbn [vadd vscal vo ColOps c_div c_temp c_lnps clipK col_minus_scaled Scaling.scale_cfg cK].
      repeat split; cbn [c_div c_temp c_lnps]; intros; rewrite ?clipv_lt by assumption;
        unfold col_minus_scaled; cbn [c_div c_temp c_lnps]; ring. }
    specialize (R Hy). destruct R as (Rd & Rt & Rl).
    cbn [Scaling.scale_cfg cK]. unfold clipK.
    assert (E : Scc u = mkCol (c_div (Scc u)) (c_temp (Scc u)) (c_lnps (Scc u))) by (destruct (Scc u); reflexivity).
    rewrite E at 3. apply col_ext.
    - intros k. destruct (Nat.ltb_spec k K) as [Hk|Hk].
      + rewrite clipv_lt by exact Hk. now apply Rd.
      + rewrite clipv_ge by exact Hk. unfold Sc, col_L, col_shift; cbn. rewrite clipv_ge by exact Hk. ring.
    - intros k. destruct (Nat.ltb_spec k K) as [Hk|Hk].
      + rewrite clipv_lt by exact Hk. now apply Rt.
      + rewrite clipv_ge by exact Hk. unfold Sc, col_L, col_shift; cbn. rewrite clipv_ge by exact Hk. ring.
    - exact Rl.
  Qed.

  (** the resolvent hypothesis of the step theorems, discharged *)
  Theorem column_resolvent_covariant u eta :
    col_ok eta ->
    col_Ginv inv c' lam' (Scc u) (tau * eta) = Scc (col_Ginv inv c lam u eta).
  Proof.
    intros [Hr Hl].
    apply (resolvent_covariant_from_terms col_vadd_assoc col_vadd_comm col_vscal_mul Lc c0 tau
             col_L_add col_L_scal tau_nz (col_G c lam) (col_Ginv inv c lam) (col_G c' lam') (col_Ginv inv c' lam')
             column_implicit_terms_covariant eta).
    - intros y. now apply column_right_resolvent.
    - intros w. now apply column_left_resolvent.
  Qed.

  (** *** every integrator on the column model: only the explicit terms [Fx]
      remain abstract (they involve the horizontal transforms); the hypotheses
      on the implicit terms and on the resolvent are theorems now *)
  Variables Fx Fx' : @Col F -> @Col F.
  Hypothesis HF : forall u, Fx' (Scc u) = Tnc (Fx u).
  Notation G0 := (col_G c lam).
  Notation G1 := (col_G c' lam').
  Notation Gi0 := (col_Ginv inv c lam).
  Notation Gi1 := (col_Ginv inv c' lam').

  Theorem column_steps_covariant dt alpha al be ga a_ex a_im b_ex b_im u p q :
    (col_ok dt -> euler_step Fx' Gi1 (tau * dt) (Scc u) = Scc (euler_step Fx Gi0 dt u)) /\
    (col_ok (half * dt) -> cn_rk2_step Fx' G1 Gi1 (tau * dt) (Scc u) = Scc (cn_rk2_step Fx G0 Gi0 dt u)) /\
    (ls_ok col_ok dt al -> ls_step Fx' G1 Gi1 (tau * dt) al be ga (Scc u) = Scc (ls_step Fx G0 Gi0 dt al be ga u)) /\
    (imex_ok col_ok dt 1 a_im ->
       imex_step Fx' G1 Gi1 (tau * dt) a_ex a_im b_ex b_im (Scc u)
       = option_map Scc (imex_step Fx G0 Gi0 dt a_ex a_im b_ex b_im u)) /\
    (col_ok (two * dt * alpha) ->
       leapfrog_step Fx' G1 Gi1 (tau * dt) alpha (Scc p, Scc q)
       = (Scc (fst (leapfrog_step Fx G0 Gi0 dt alpha (p, q))), Scc (snd (leapfrog_step Fx G0 Gi0 dt alpha (p, q))))).
  Proof.
    pose proof column_implicit_terms_covariant as HG.
    pose proof column_resolvent_covariant as HGi.
    pose proof tau_nz as Ht.
    split; [|split; [|split; [|split]]]; intros Hok.
    - apply (euler_step_covariant col_vadd_assoc col_vadd_comm col_vscal_mul Lc c0 tau col_L_add col_L_scal Ht
               Fx Gi0 Fx' Gi1 HF col_ok HGi dt u Hok).
    - apply (cn_rk2_step_covariant col_vadd_assoc col_vadd_comm col_vscal_add col_vscal_mul Lc c0 tau col_L_add col_L_scal Ht
               Fx G0 Gi0 Fx' G1 Gi1 HF HG col_ok HGi dt u Hok).
    - apply (ls_step_covariant col_vadd_assoc col_vadd_comm col_vscal_add col_vscal_mul col_vscal_zero Lc c0 tau
               col_L_add col_L_scal col_L_zero Ht Fx G0 Gi0 Fx' G1 Gi1 HF HG col_ok HGi dt al be ga u Hok).
    - apply (imex_step_covariant col_vadd_assoc col_vadd_comm col_vscal_add col_vscal_mul col_vscal_zero Lc c0 tau
               col_L_add col_L_scal col_L_zero Ht Fx G0 Gi0 Fx' G1 Gi1 HF HG col_ok HGi dt a_ex a_im b_ex b_im u Hok).
    - apply (leapfrog_covariant col_vadd_assoc col_vadd_comm col_vscal_add col_vscal_mul Lc c0 tau col_L_add col_L_scal Ht
               Fx G0 Gi0 Fx' G1 Gi1 HF HG col_ok HGi dt alpha p q Hok).
  Qed.
End ColumnCov.

(** ** explicit and implicit tendencies assembled over abstract horizontal
    operators (Model/PrimEq.v, Section ModalAssembly), all four classes.
    The horizontal operators of the second scale live on a sphere whose
    non-dimensional radius differs: div', curl' = kg * div, curl and
    lap' = kg^2 * lap; to_modal and clip do not depend on the radius.  Only
    homogeneity / extensionality of the operators is assumed (they are linear
    maps in the code), plus "lap kills the constant mode" for the log-pressure
    shift.  This discharges the hypothesis [HF] of the step theorems up to
    these operator laws. *)
From Dino Require Import Model.PrimEq.

Section ModalCov.
  Context {F : Type} {o : Ops F} {Fc : FieldC o}.
  Add Field FFmc : (field_c : FieldTh o).
  Variables (ku kr kT kg kR : F).
  Hypothesis H_rate : ku * kg = kr.
  Hypothesis H_accel : kR * kT * kg = ku * kr.
  Hypothesis feqb_iff : forall a b : F, feqb a b = true <-> a = b.
  Hypothesis kT_nz : kT <> 0.
  Hypothesis kR_nz : kR <> 0.

  Variables W P : Type.
  Variable toM : (P -> F) -> W -> F.
  Variables divc curlc divc' curlc' : (W -> F) -> (W -> F) -> W -> F.
  Variables lap lap' clip : (W -> F) -> W -> F.
  Hypothesis toM_scal : forall k f w, toM (fun p => k * f p) w = k * toM f w.
  Hypothesis toM_ext : forall f g, (forall p, f p = g p) -> forall w, toM f w = toM g w.
  Hypothesis divc_scal : forall k a b w, divc (fun v => k * a v) (fun v => k * b v) w = k * divc a b w.
  Hypothesis divc_ext : forall a a' b b', (forall v, a v = a' v) -> (forall v, b v = b' v) -> forall w, divc a b w = divc a' b' w.
  Hypothesis curlc_scal : forall k a b w, curlc (fun v => k * a v) (fun v => k * b v) w = k * curlc a b w.
  Hypothesis curlc_ext : forall a a' b b', (forall v, a v = a' v) -> (forall v, b v = b' v) -> forall w, curlc a b w = curlc a' b' w.
  Hypothesis lap_scal : forall k a w, lap (fun v => k * a v) w = k * lap a w.
  Hypothesis lap_ext : forall a a', (forall v, a v = a' v) -> forall w, lap a w = lap a' w.
  Hypothesis clip_scal : forall k a w, clip (fun v => k * a v) w = k * clip a w.
  Hypothesis clip_ext : forall a a', (forall v, a v = a' v) -> forall w, clip a w = clip a' w.
  Hypothesis divc'_def : forall a b w, divc' a b w = kg * divc a b w.
  Hypothesis curlc'_def : forall a b w, curlc' a b w = kg * curlc a b w.
  Hypothesis lap'_def : forall a w, lap' a w = kg * kg * lap a w.

  Variable c : @PEcfg F.
  Hypothesis R_nz : cR c <> 0.
  Notation c' := (scale_cfg kT kR c).
  Variable X : P -> @NCol F.
  Notation X' := (fun p => scale_ncol ku kr kT kg (X p)).

  Lemma toM_scaled k (f f' : P -> F) w : (forall p, f' p = k * f p) -> toM f' w = k * toM f w.
  Proof. intros H. rewrite (toM_ext f' (fun p => k * f p) H). apply toM_scal. Qed.

  Lemma divc'_scaled k (a a' b b' : W -> F) w :
    (forall v, a' v = k * a v) -> (forall v, b' v = k * b v) -> divc' a' b' w = kg * k * divc a b w.
  Proof. intros Ha Hb. rewrite divc'_def, (divc_ext a' _ b' _ Ha Hb), divc_scal. ring. Qed.
  Lemma curlc'_scaled k (a a' b b' : W -> F) w :
    (forall v, a' v = k * a v) -> (forall v, b' v = k * b v) -> curlc' a' b' w = kg * k * curlc a b w.
  Proof. intros Ha Hb. rewrite curlc'_def, (curlc_ext a' _ b' _ Ha Hb), curlc_scal. ring. Qed.
  Lemma lap'_scaled k (a a' : W -> F) w : (forall v, a' v = k * a v) -> lap' a' w = kg * kg * k * lap a w.
  Proof. intros Ha. rewrite lap'_def, (lap_ext a' _ Ha), lap_scal. ring. Qed.
  Lemma clip_scaled k (a a' : W -> F) w : (forall v, a' v = k * a v) -> clip a' w = k * clip a w.
  Proof. intros Ha. rewrite (clip_ext a' _ Ha). apply clip_scal. Qed.

  (** temperature, dry: Theta / T *)
  Theorem temp_tendency_explicit_covariant r w :
    temp_tendency_explicit W P toM divc' clip c' X' r w = kT * kr * temp_tendency_explicit W P toM divc clip c X r w.
  Proof.
    unfold temp_tendency_explicit. apply clip_scaled. intros v.
    rewrite (toM_scaled (kT * kr) (fun p => temp_nodal_total c true (X p) r)).
    2:{ intros p. exact (temp_nodal_total_homogeneous ku kr kT kg kR H_rate H_accel c feqb_iff kT_nz true (X p) r). }
    rewrite (divc'_scaled (ku * kT) (toM (fun p => hsa_mu (X p) (n_temp (X p)) r)) _ (toM (fun p => hsa_mv (X p) (n_temp (X p)) r))).
    2,3: intros v'; apply toM_scaled; intros p; apply (hsa_homogeneous ku kr kT kg kT (X p) (n_temp (X p)) r).
    rewrite <- H_rate. ring.
  Qed.

  (** divergence (any [rt] of dimension L^2/T^2, orography in L, g in L/T^2, humidity correction in 1/T^2): 1 / T^2 *)
  Theorem div_tendency_explicit_covariant (rt rt' : P -> nat -> F) (orog orog' hum hum' : W -> F) (grav kL : F) r w :
    kL * kg = 1 ->
    (forall p j, rt' p j = kR * kT * rt p j) -> (forall v, orog' v = kL * orog v) -> (forall v, hum' v = kr * kr * hum v) ->
    div_tendency_explicit W P toM divc' lap' clip c' (ku * kr * grav) X' rt' orog' hum' r w
      = kr * kr * div_tendency_explicit W P toM divc lap clip c grav X rt orog hum r w.
  Proof.
    intros HL Hrt Horo Hhum. unfold div_tendency_explicit. apply clip_scaled. intros v.
    rewrite (divc'_scaled (ku * kr) (toM (fun p => combined_u c true (X p) (rt p) r)) _ (toM (fun p => combined_v c true (X p) (rt p) r))).
    2:{ intros v'; apply toM_scaled; intros p. exact (proj1 (combined_uv_scal ku kr kT kg kR H_rate H_accel c true (X p) (rt p) (rt' p) r (Hrt p))). }
    2:{ intros v'; apply toM_scaled; intros p. exact (proj2 (combined_uv_scal ku kr kT kg kR H_rate H_accel c true (X p) (rt p) (rt' p) r (Hrt p))). }
    rewrite (lap'_scaled (ku * ku) (toM (fun p => kinetic (X p) r))).
    2:{ intros v'; apply toM_scaled; intros p. apply kinetic_homogeneous. }
    rewrite (lap'_scaled kL orog orog' v Horo), Hhum.
    transitivity ((ku * kg) * kr * (- divc (toM (fun p => combined_u c true (X p) (rt p) r)) (toM (fun p => combined_v c true (X p) (rt p) r)) v)
                  + (ku * kg) * (ku * kg) * (- lap (toM (fun p => kinetic (X p) r)) v)
                  + (ku * kg) * kr * (kL * kg) * (- grav * lap orog v) + kr * kr * hum v); [ring|].
    rewrite H_rate, HL. ring.
  Qed.

  (** vorticity: 1 / T^2 *)
  Theorem vort_tendency_explicit_covariant (rt rt' : P -> nat -> F) (hum hum' : W -> F) r w :
    (forall p j, rt' p j = kR * kT * rt p j) -> (forall v, hum' v = kr * kr * hum v) ->
    vort_tendency_explicit W P toM curlc' clip c' X' rt' hum' r w
      = kr * kr * vort_tendency_explicit W P toM curlc clip c X rt hum r w.
  Proof.
    intros Hrt Hhum. unfold vort_tendency_explicit. apply clip_scaled. intros v.
    rewrite (curlc'_scaled (ku * kr) (toM (fun p => combined_u c true (X p) (rt p) r)) _ (toM (fun p => combined_v c true (X p) (rt p) r))).
    2:{ intros v'; apply toM_scaled; intros p. exact (proj1 (combined_uv_scal ku kr kT kg kR H_rate H_accel c true (X p) (rt p) (rt' p) r (Hrt p))). }
    2:{ intros v'; apply toM_scaled; intros p. exact (proj2 (combined_uv_scal ku kr kT kg kR H_rate H_accel c true (X p) (rt p) (rt' p) r (Hrt p))). }
    rewrite Hhum. rewrite <- H_rate. ring.
  Qed.

  (** moist classes *)
  Variable m : @Moist F.
  Notation m' := (scale_moist kR m).
  Hypothesis kappa_nz : ckappa c <> 0.

  Theorem temp_tendency_explicit_moist_covariant (q : P -> nat -> F) r w :
    temp_tendency_explicit_moist W P toM divc' clip c' m' X' q r w
      = kT * kr * temp_tendency_explicit_moist W P toM divc clip c m X q r w.
  Proof.
    unfold temp_tendency_explicit_moist. apply clip_scaled. intros v.
    rewrite (toM_scaled (kT * kr) (fun p => temp_nodal_total_moist c true m (X p) (q p) r)).
    2:{ intros p. exact (temp_nodal_total_moist_homogeneous ku kr kT kg kR H_rate H_accel c feqb_iff kT_nz kR_nz R_nz m true (X p) (q p) r kappa_nz). }
    rewrite (divc'_scaled (ku * kT) (toM (fun p => hsa_mu (X p) (n_temp (X p)) r)) _ (toM (fun p => hsa_mv (X p) (n_temp (X p)) r))).
    2,3: intros v'; apply toM_scaled; intros p; apply (hsa_homogeneous ku kr kT kg kT (X p) (n_temp (X p)) r).
    rewrite <- H_rate. ring.
  Qed.

  (** divergence_tendency_due_to_humidity and vorticity_tendency_due_to_humidity: 1 / T^2 *)
  Theorem humidity_modal_covariant (q gqx gqy : P -> nat -> F) (lapn : P -> F) r w :
    (r < cK c)%nat ->
    humidity_div_modal W P toM lap' c' m' X' q (fun p => scol kg (gqx p)) (fun p => scol kg (gqy p)) (fun p => kg * kg * lapn p) r w
      = kr * kr * humidity_div_modal W P toM lap c m X q gqx gqy lapn r w /\
    humidity_curl_modal W P toM c' m' X' (fun p => scol kg (gqx p)) (fun p => scol kg (gqy p)) r w
      = kr * kr * humidity_curl_modal W P toM c m X gqx gqy r w.
  Proof.
    intros Hr.
    assert (E : kT * kR * (kg * kg) = kr * kr).
    { transitivity (kR * kT * kg * kg); [ring|]. rewrite H_accel, <- H_rate. ring. }
    assert (E2 : kg * kg * (kR * kT) = kr * kr) by (rewrite <- E; ring).
    split.
    - unfold humidity_div_modal.
      rewrite (lap'_scaled (kR * kT) (toM (fun p => humidity_geo_nodal c false m (X p) (q p) r))).
      2:{ intros v; apply toM_scaled; intros p.
          exact (proj2 (proj2 (humidity_terms_homogeneous ku kr kT kg kR c kR_nz R_nz m false (X p) (q p) (gqx p) (gqy p) (lapn p) r Hr))). }
      rewrite (toM_scaled (kT * kR * (kg * kg)) (fun p => humidity_div_nodal c m (X p) (q p) (gqx p) (gqy p) (lapn p) r)).
      2:{ intros p. exact (proj1 (humidity_terms_homogeneous ku kr kT kg kR c kR_nz R_nz m false (X p) (q p) (gqx p) (gqy p) (lapn p) r Hr)). }
      rewrite E, E2. ring.
    - unfold humidity_curl_modal.
      rewrite (toM_scaled (kT * kR * (kg * kg)) (fun p => humidity_curl_nodal c m (X p) (gqx p) (gqy p) r)).
      2:{ intros p. exact (proj1 (proj2 (humidity_terms_homogeneous ku kr kT kg kR c kR_nz R_nz m false (X p) (fun _ => 0) (gqx p) (gqy p) 0 r Hr))). }
      now rewrite E.
  Qed.


  Lemma geo_dense_Tm (Tm Tm' : nat -> W -> F) r v :
    (forall k v, Tm' k v = kT * Tm k v) ->
    Sigma.geo_diff_dense (cK c) (kR * cR c) (cls c) (fun k => Tm' k v) r
    = kR * kT * Sigma.geo_diff_dense (cK c) (cR c) (cls c) (fun k => Tm k v) r.
  Proof.
    intros H. rewrite <- (geo_diff_dense_homogeneous (cK c) (cR c) (cls c) (fun k => Tm k v) kR kT r).
    unfold Sigma.geo_diff_dense. apply sumn_ext. intros k _. unfold scol. now rewrite H.
  Qed.

  (** implicit terms at the modal layer: Theta / T and 1 / T^2; the log-pressure
      shift [shift * e] ([e] = the constant mode) is annihilated by the Laplacian *)
  Hypothesis lap_add : forall a b w, lap (fun v => a v + b v) w = lap a w + lap b w.

  Theorem implicit_tendencies_covariant (dv dv' Tm Tm' : nat -> W -> F) (lnps lnps' e : W -> F) shift r w :
    (forall k v, dv' k v = kr * dv k v) -> (forall k v, Tm' k v = kT * Tm k v) ->
    (forall v, lnps' v = lnps v + shift * e v) -> (forall v, lap e v = 0) ->
    temp_tendency_implicit W c' dv' r w = kT * kr * temp_tendency_implicit W c dv r w /\
    div_tendency_implicit W lap' c' Tm' lnps' r w = kr * kr * div_tendency_implicit W lap c Tm lnps r w.
  Proof.
    intros Hdv HTm Hl He. split.
    - unfold temp_tendency_implicit, temp_implicit_col, temp_implicit_dense, matvec, neg_temp_weights.
      cbn [Scaling.scale_cfg cK].
      rewrite (sumn_ext (cK c) _ (fun h => kT * kr * (- temp_weights c r h * dv h w))).
      + now rewrite sumn_scal_l.
      + intros h _. rewrite temp_weights_homogeneous, Hdv. ring.
    - unfold div_tendency_implicit.
      assert (E : kg * kg * (kR * kT) = kr * kr).
      { transitivity (kR * kT * kg * kg); [ring|]. rewrite H_accel, <- H_rate. ring. }
      set (pot := fun v => div_implicit_potential c false (fun k => Tm k v) (lnps v) r).
      rewrite lap'_def.
      rewrite (lap_ext _ (fun v => kR * kT * pot v + (kR * cR c * (kT * cTref c r) * shift) * e v)).
      2:{ intros v. unfold pot, div_implicit_potential, geo_diff. cbn [Scaling.scale_cfg cK cR cls cTref]. unfold scol.
          rewrite (geo_dense_Tm Tm Tm' r v HTm), Hl. ring. }
      rewrite lap_add, !lap_scal, He. fold pot. rewrite <- E. ring.
  Qed.
End ModalCov.
