(** Property C12, discharge of the hypotheses of the step-covariance theorems
    (Thm/Scaling.v, Section StepCovariance) for the implicit column model of the
    primitive equations (Model/Implicit.v): one spectral coefficient with
    Laplacian eigenvalue [lam], state (divergence[K], temperature[K], lnps).

    Change of scale: divergence * kr, temperature * kT, lnps + shift;
    R * kR, T_ref * kT, kappa and sigma unchanged, lam * kl (1/L^2),
    step sizes * tau.  Dimensional consistency of the implicit system is the
    three relations  tau * kr = 1  (time x rate),  kR * kT * kl = kr * kr
    (geopotential / L^2 = rate^2)  and  shift * lam = 0  (the log-pressure
    shift lives in the mean mode, whose eigenvalue is 0).

    Leibniz equality of columns (records of functions) is obtained with
    functional extensionality on the clipped representation. *)
From Dino Require Import Base.Ops Base.Sums Model.Sigma Model.Implicit Model.Integrators Model.Scaling
  Thm.Sigma Thm.Implicit Thm.Scaling.
From Coq Require Import FunctionalExtensionality.
Local Open Scope F_scope.

Section ColumnCov.
  Context {F : Type} {o : Ops F} {Fc : FieldC o}.
  Add Field FFcc : (field_c : FieldTh o).

  Lemma col_ext (d1 d2 t1 t2 : nat -> F) (l1 l2 : F) :
    (forall k, d1 k = d2 k) -> (forall k, t1 k = t2 k) -> l1 = l2 -> mkCol d1 t1 l1 = mkCol d2 t2 l2.
  Proof.
    intros Hd Ht ->. f_equal; apply functional_extensionality; assumption.
  Qed.

  Lemma clipv_lt K (v : nat -> F) k : (k < K)%nat -> clipv K v k = v k.
  Proof. intros H. unfold clipv. destruct (Nat.ltb_spec k K); [reflexivity|lia]. Qed.
  Lemma clipv_ge K (v : nat -> F) k : (K <= k)%nat -> clipv K v k = 0.
  Proof. intros H. unfold clipv. destruct (Nat.ltb_spec k K); [lia|reflexivity]. Qed.

  Variables (kr kT kR kl tau shift : F).
  Variable c : @PEcfg F.
  Variable lam : F.
  Hypothesis H_time : tau * kr = 1.
  Hypothesis H_geo : kR * kT * kl = kr * kr.
  Hypothesis H_shift : shift * lam = 0.

  Notation K := (cK c).
  Notation c' := (scale_cfg kT kR c).
  Notation lam' := (kl * lam).
  Notation Lc := (col_L K kr kT).
  Notation c0 := (col_shift shift).
  Local Instance vo : VOps F (@Col F) := ColOps.
  Notation Scc := (Sc Lc c0).
  Notation Tnc := (Tn Lc tau).

  Lemma tau_nz : tau <> 0.
  Proof. intro E. rewrite E in H_time. apply (one_nz (F := F)). rewrite <- H_time. ring. Qed.
  Lemma inv_tau : 1 / tau = kr.
  Proof.
    pose proof tau_nz as Ht.
    replace kr with (tau * kr / tau) by (field; assumption). rewrite H_time. reflexivity.
  Qed.

  (** *** vector-space laws of the column state space and linearity of the change of scale *)
  Lemma col_vadd_assoc (u v w : @Col F) : vadd u (vadd v w) = vadd (vadd u v) w.
  Proof. destruct u, v, w; cbn. apply col_ext; intros; ring. Qed.
  Lemma col_vadd_comm (u v : @Col F) : vadd u v = vadd v u.
  Proof. destruct u, v; cbn. apply col_ext; intros; ring. Qed.
  Lemma col_vscal_add (a : F) (u v : @Col F) : vscal a (vadd u v) = vadd (vscal a u) (vscal a v).
  Proof. destruct u, v; cbn. apply col_ext; intros; ring. Qed.
  Lemma col_vscal_mul (a b : F) (u : @Col F) : vscal a (vscal b u) = vscal (a * b) u.
  Proof. destruct u; cbn. apply col_ext; intros; ring. Qed.
  Lemma col_vscal_zero (a : F) : vscal a vzero = (vzero : @Col F).
  Proof. cbn. apply col_ext; intros; ring. Qed.
  Lemma col_L_add u v : Lc (vadd u v) = vadd (Lc u) (Lc v).
  Proof.
    destruct u, v; cbn. unfold col_L; cbn. apply col_ext; try reflexivity;
      intros k; unfold clipv, scol; destruct (Nat.ltb k K); ring.
  Qed.
  Lemma col_L_scal a u : Lc (vscal a u) = vscal a (Lc u).
  Proof.
    destruct u; cbn. unfold col_L; cbn. apply col_ext; try reflexivity;
      intros k; unfold clipv, scol; destruct (Nat.ltb k K); ring.
  Qed.
  Lemma col_L_zero : Lc vzero = vzero.
  Proof.
    cbn. unfold col_L; cbn. apply col_ext; try reflexivity;
      intros k; unfold clipv, scol; destruct (Nat.ltb k K); ring.
  Qed.

  (** *** the matrix H of the temperature equation is linear in T_ref *)
  Lemma temp_weights_homogeneous r s : temp_weights c' r s = kT * temp_weights c r s.
  Proof.
    unfold temp_weights. cbv zeta. cbn [Scaling.scale_cfg cK cb cls ckappa cTref].
    unfold roll1_zero, scol. rewrite !Thm.Scaling.fdiv_mul.
    repeat match goal with |- context [if ?b then _ else _] => destruct b end; ring.
  Qed.

  (** *** implicit terms of a rescaled column *)
  Lemma Sc_div u k : (k < K)%nat -> c_div (Scc u) k = kr * c_div u k.
  Proof. intros Hk. unfold Sc, col_L, col_shift; cbn. rewrite clipv_lt by exact Hk. unfold scol. ring. Qed.
  Lemma Sc_temp u k : (k < K)%nat -> c_temp (Scc u) k = kT * c_temp u k.
  Proof. intros Hk. unfold Sc, col_L, col_shift; cbn. rewrite clipv_lt by exact Hk. unfold scol. ring. Qed.
  Lemma Sc_lnps u : c_lnps (Scc u) = c_lnps u + shift.
  Proof. reflexivity. Qed.

  Theorem column_implicit_terms_covariant u :
    col_G c' lam' (Scc u) = Tnc (col_G c lam u).
  Proof.
    unfold col_G, Tn, clipK, implicit_terms. cbv zeta. cbn [c_div c_temp c_lnps vscal vo ColOps col_L].
    cbn [Scaling.scale_cfg cK cb cR cTref]. rewrite inv_tau.
    apply col_ext.
    - intros k. unfold scol.
      destruct (Nat.ltb_spec k K) as [Hk|Hk]; [rewrite !(clipv_lt K _ k Hk) | rewrite !(clipv_ge K _ k Hk); ring].
      unfold geo_diff. cbn [Scaling.scale_cfg cK cR cls]. unfold geo_diff_dense at 1.
      rewrite (sumn_ext K _ (fun j => geo_weights K (kR * cR c) (cls c) k j * scol kT (c_temp u) j)).
      2:{ intros j Hj. now rewrite Sc_temp. }
      change (sumn K (fun j => geo_weights K (kR * cR c) (cls c) k j * scol kT (c_temp u) j))
        with (geo_diff_dense K (kR * cR c) (cls c) (scol kT (c_temp u)) k).
      rewrite geo_diff_dense_homogeneous, Sc_lnps.
      set (g := geo_diff_dense K (cR c) (cls c) (c_temp u) k).
      transitivity (kR * kT * kl * (- ((g + cR c * cTref c k * c_lnps u) * lam))
                    + shift * lam * (- (kR * cR c * (kT * cTref c k) * kl))); [ring|].
      rewrite H_geo, H_shift. ring.
    - intros k. unfold scol.
      destruct (Nat.ltb_spec k K) as [Hk|Hk]; [rewrite !(clipv_lt K _ k Hk) | rewrite !(clipv_ge K _ k Hk); ring].
      unfold temp_implicit, temp_implicit_dense, matvec, neg_temp_weights. cbn [Scaling.scale_cfg cK].
      rewrite (sumn_ext K _ (fun h => kT * kr * (- temp_weights c k h * c_div u h))).
      2:{ intros h Hh. rewrite temp_weights_homogeneous, Sc_div by exact Hh. ring. }
      rewrite sumn_scal_l. ring.
    - unfold matvec.
      rewrite (sumn_ext K _ (fun h => kr * (thickness (cb c) h * c_div u h))).
      2:{ intros h Hh. rewrite Sc_div by exact Hh. ring. }
      rewrite sumn_scal_l. ring.
  Qed.

  (** *** the resolvent *)
  Variable inv : nat -> @Mat F -> @Mat F.
  Hypothesis feqb_sound : forall x y : F, feqb x y = true -> x = y.
  Hypothesis th0_nz : thickness (cb c) 0%nat <> 0.
  Hypothesis thK_nz : thickness (cb c) (K - 1)%nat <> 0.
  Notation n := (2 * K + 1)%nat.

  (** [inv] inverts the implicit matrix of the first scale at step size [eta]
      (as a right inverse) and the one of the second scale at [tau * eta] (as a
      left inverse) - for square matrices both just say "np.linalg.inv worked" *)
  Definition col_ok (eta : F) : Prop :=
    is_left_inverse n (implicit_matrix c eta lam) (inv n (implicit_matrix c eta lam)) /\
    is_left_inverse n (inv n (implicit_matrix c' (tau * eta) lam')) (implicit_matrix c' (tau * eta) lam').

  Lemma implicit_terms_col_ext (cc : @PEcfg F) l (x y : @Col F) :
    col_eq (cK cc) x y -> col_eq (cK cc) (implicit_terms false cc l x) (implicit_terms false cc l y).
  Proof.
    intros (A & B & C). unfold implicit_terms. cbv zeta.
    repeat split; cbn [c_div c_temp c_lnps].
    - intros g Hg. rewrite C. unfold geo_diff, geo_diff_dense.
      rewrite (sumn_ext (cK cc) _ (fun k => geo_weights (cK cc) (cR cc) (cls cc) g k * c_temp y k))
        by (intros k Hk; now rewrite B). reflexivity.
    - intros g Hg. unfold temp_implicit, temp_implicit_dense. apply matvec_ext. exact A.
    - f_equal. apply matvec_ext. exact A.
  Qed.

  Lemma clipK_col_eq (x : @Col F) : col_eq K (clipK K x) x.
  Proof. repeat split; cbn [clipK c_div c_temp c_lnps]; intros; now apply clipv_lt. Qed.

  (** right inverse of the matrix => right resolvent of the operator *)
  Lemma column_right_resolvent eta y :
    is_left_inverse n (implicit_matrix c eta lam) (inv n (implicit_matrix c eta lam)) ->
    Lc (vadd (col_Ginv inv c lam y eta) (vscal (- eta) (col_G c lam (col_Ginv inv c lam y eta)))) = Lc y.
  Proof.
    intros Hr. unfold col_Ginv, col_G.
    set (z := inverse_stacked inv c eta lam y).
    assert (W : col_eq K (col_minus_scaled z eta (implicit_terms false c lam z)) y).
    { apply stack_inj. intros h Hh. rewrite <- matrix_is_I_minus_eta_L by exact Hh.
      rewrite (matvec_ext n _ (stack K z) (matvec n (inv n (implicit_matrix c eta lam)) (stack K y))).
      2:{ intros j Hj. unfold z, inverse_stacked. cbv zeta. now apply stack_unstack. }
      rewrite <- matvec_matmul.
      rewrite (matvec_ext_mat n _ eye) by (intros j Hj; now apply Hr).
      now apply matvec_eye. }
    destruct W as (Wd & Wt & Wl).
    destruct (clipK_col_eq z) as (Ud & Ut & Ul).
    destruct (implicit_terms_col_ext c lam _ _ (clipK_col_eq z)) as (Id & It & Il).
    set (uz := clipK K z) in *.
    unfold col_L. cbn [vadd vscal vo ColOps c_div c_temp c_lnps clipK].
    apply col_ext.
    - intros k. destruct (Nat.ltb_spec k K) as [Hk|Hk]; [|now rewrite !(clipv_ge K _ k Hk)].
      rewrite !(clipv_lt K _ k Hk). unfold scol. rewrite <- (Wd k Hk).
      cbn [col_minus_scaled c_div]. rewrite ?(clipv_lt K _ k Hk). rewrite (Id k Hk), (Ud k Hk). ring.
    - intros k. destruct (Nat.ltb_spec k K) as [Hk|Hk]; [|now rewrite !(clipv_ge K _ k Hk)].
      rewrite !(clipv_lt K _ k Hk). unfold scol. rewrite <- (Wt k Hk).
      cbn [col_minus_scaled c_temp]. rewrite ?(clipv_lt K _ k Hk). rewrite (It k Hk), (Ut k Hk). ring.
    - rewrite <- Wl. cbn [col_minus_scaled c_lnps]. rewrite Il, Ul. ring.
  Qed.

  (** left inverse of the matrix => left resolvent, on rescaled (hence clipped) states *)
  Lemma column_left_resolvent eta' u :
    is_left_inverse n (inv n (implicit_matrix c' eta' lam')) (implicit_matrix c' eta' lam') ->
    col_Ginv inv c' lam' (vadd (Scc u) (vscal (- eta') (col_G c' lam' (Scc u)))) eta' = Scc u.
  Proof.
    intros Hl. unfold col_Ginv.
    pose proof (stacked_resolvent_gen feqb_sound inv c' eta' lam' (Scc u)
                  (vadd (Scc u) (vscal (- eta') (col_G c' lam' (Scc u)))) false Hl th0_nz thK_nz) as R.
    cbn [Scaling.scale_cfg cK] in R.
    assert (Hy : col_eq K (vadd (Scc u) (vscal (- eta') (col_G c' lam' (Scc u))))
                         (col_minus_scaled (Scc u) eta' (implicit_terms false c' lam' (Scc u)))).
    { unfold col_G. cbn [vadd vscal vo ColOps c_div c_temp c_lnps clipK col_minus_scaled Scaling.scale_cfg cK].
      repeat split; cbn [c_div c_temp c_lnps]; intros; rewrite ?clipv_lt by assumption;
        unfold col_minus_scaled; cbn [c_div c_temp c_lnps]; ring. }
    specialize (R Hy). destruct R as (Rd & Rt & Rl).
    cbn [Scaling.scale_cfg cK]. unfold clipK.
    assert (E : Scc u = mkCol (c_div (Scc u)) (c_temp (Scc u)) (c_lnps (Scc u))) by (destruct (Scc u); reflexivity).
    rewrite E at 3. apply col_ext.
    - intros k. destruct (Nat.ltb_spec k K) as [Hk|Hk].
      + rewrite clipv_lt by exact Hk. now apply Rd.
      + rewrite clipv_ge by exact Hk. unfold Sc, col_L, col_shift; cbn. rewrite clipv_ge by exact Hk. ring.
    - intros k. destruct (Nat.ltb_spec k K) as [Hk|Hk].
      + rewrite clipv_lt by exact Hk. now apply Rt.
      + rewrite clipv_ge by exact Hk. unfold Sc, col_L, col_shift; cbn. rewrite clipv_ge by exact Hk. ring.
    - exact Rl.
  Qed.

  (** the resolvent hypothesis of the step theorems, discharged *)
  Theorem column_resolvent_covariant u eta :
    col_ok eta ->
    col_Ginv inv c' lam' (Scc u) (tau * eta) = Scc (col_Ginv inv c lam u eta).
  Proof.
    intros [Hr Hl].
    apply (resolvent_covariant_from_terms col_vadd_assoc col_vadd_comm col_vscal_mul Lc c0 tau
             col_L_add col_L_scal tau_nz (col_G c lam) (col_Ginv inv c lam) (col_G c' lam') (col_Ginv inv c' lam')
             column_implicit_terms_covariant eta).
    - intros y. now apply column_right_resolvent.
    - intros w. now apply column_left_resolvent.
  Qed.

  (** *** every integrator on the column model: only the explicit terms [Fx]
      remain abstract (they involve the horizontal transforms); the hypotheses
      on the implicit terms and on the resolvent are theorems now *)
  Variables Fx Fx' : @Col F -> @Col F.
  Hypothesis HF : forall u, Fx' (Scc u) = Tnc (Fx u).
  Notation G0 := (col_G c lam).
  Notation G1 := (col_G c' lam').
  Notation Gi0 := (col_Ginv inv c lam).
  Notation Gi1 := (col_Ginv inv c' lam').

  Theorem column_steps_covariant dt alpha al be ga a_ex a_im b_ex b_im u p q :
    (col_ok dt -> euler_step Fx' Gi1 (tau * dt) (Scc u) = Scc (euler_step Fx Gi0 dt u)) /\
    (col_ok (half * dt) -> cn_rk2_step Fx' G1 Gi1 (tau * dt) (Scc u) = Scc (cn_rk2_step Fx G0 Gi0 dt u)) /\
    (ls_ok col_ok dt al -> ls_step Fx' G1 Gi1 (tau * dt) al be ga (Scc u) = Scc (ls_step Fx G0 Gi0 dt al be ga u)) /\
    (imex_ok col_ok dt 1 a_im ->
       imex_step Fx' G1 Gi1 (tau * dt) a_ex a_im b_ex b_im (Scc u)
       = option_map Scc (imex_step Fx G0 Gi0 dt a_ex a_im b_ex b_im u)) /\
    (col_ok (two * dt * alpha) ->
       leapfrog_step Fx' G1 Gi1 (tau * dt) alpha (Scc p, Scc q)
       = (Scc (fst (leapfrog_step Fx G0 Gi0 dt alpha (p, q))), Scc (snd (leapfrog_step Fx G0 Gi0 dt alpha (p, q))))).
  Proof.
    pose proof column_implicit_terms_covariant as HG.
    pose proof column_resolvent_covariant as HGi.
    pose proof tau_nz as Ht.
    split; [|split; [|split; [|split]]]; intros Hok.
    - apply (euler_step_covariant col_vadd_assoc col_vadd_comm col_vscal_mul Lc c0 tau col_L_add col_L_scal Ht
               Fx Gi0 Fx' Gi1 HF col_ok HGi dt u Hok).
    - apply (cn_rk2_step_covariant col_vadd_assoc col_vadd_comm col_vscal_add col_vscal_mul Lc c0 tau col_L_add col_L_scal Ht
               Fx G0 Gi0 Fx' G1 Gi1 HF HG col_ok HGi dt u Hok).
    - apply (ls_step_covariant col_vadd_assoc col_vadd_comm col_vscal_add col_vscal_mul col_vscal_zero Lc c0 tau
               col_L_add col_L_scal col_L_zero Ht Fx G0 Gi0 Fx' G1 Gi1 HF HG col_ok HGi dt al be ga u Hok).
    - apply (imex_step_covariant col_vadd_assoc col_vadd_comm col_vscal_add col_vscal_mul col_vscal_zero Lc c0 tau
               col_L_add col_L_scal col_L_zero Ht Fx G0 Gi0 Fx' G1 Gi1 HF HG col_ok HGi dt a_ex a_im b_ex b_im u Hok).
    - apply (leapfrog_covariant col_vadd_assoc col_vadd_comm col_vscal_add col_vscal_mul Lc c0 tau col_L_add col_L_scal Ht
               Fx G0 Gi0 Fx' G1 Gi1 HF HG col_ok HGi dt alpha p q Hok).
  Qed.
End ColumnCov.
