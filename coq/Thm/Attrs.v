(** Proofs about Model/Attrs.v: the shape -> dimension-names table of an
    admissible coordinate system, its collisions outside admissibility, and the
    attrs round trip. *)
From Coq Require Import ZArith List Bool Lia String.
Import ListNotations.
From Dino Require Import Base.Ops Base.Ord Model.Trees Model.Sigma Model.Attrs Thm.Trees.
Local Open Scope Z_scope.
Local Arguments Z.eqb : simpl never.

(** * shape -> dims *)
(** the documented table (before the sample/time prefix) *)
Definition documented (K M1 M2 N1 N2 : Z) : table :=
  [ ([], []);
    ([K; M1; M2], d_level :: MODAL);
    ([K; N1; N2], d_level :: NODAL);
    ([N1; N2], NODAL);
    ([M1; M2], MODAL);
    ([1; N1; N2], d_surface :: NODAL);
    ([1; M1; M2], d_surface :: MODAL);
    ([1], [d_surface]) ].

Lemma admissible_inv K modal nodal :
  admissible K modal nodal = true ->
  exists M1 M2 N1 N2, modal = [M1; M2] /\ nodal = [N1; N2] /\ K <> 1 /\ (N1 <> M1 \/ N2 <> M2).
Proof.
  unfold admissible. rewrite !andb_true_iff, !negb_true_iff. intros [[[HK HN] LM] LN].
  destruct modal as [|M1 [|M2 [|]]]; try discriminate. destruct nodal as [|N1 [|N2 [|]]]; try discriminate.
  exists M1, M2, N1, N2. repeat split; auto.
  - now apply Z.eqb_neq.
  - apply str_eqb_neq in HN. destruct (Z.eq_dec N1 M1), (Z.eq_dec N2 M2); subst; auto; try (now contradiction HN).
Qed.

Ltac ground_eqb :=
  match goal with
  | |- context [Z.eqb ?a ?b] =>
      let v := eval vm_compute in (Z.eqb a b) in
      match v with
      | true => change (Z.eqb a b) with true
      | false => change (Z.eqb a b) with false
      end
  end.
Ltac eqb_simpl HK :=
  repeat (progress cbn
          || ground_eqb
          || rewrite andb_false_r || rewrite andb_true_r
          || rewrite Z.eqb_refl
          || rewrite (proj2 (Z.eqb_neq _ _) HK)
          || rewrite (proj2 (Z.eqb_neq _ _) (not_eq_sym HK))).

Theorem xarray_table_documented K modal nodal times samples :
  admissible K modal nodal = true ->
  exists M1 M2 N1 N2, modal = [M1; M2] /\ nodal = [N1; N2] /\
  xarray_table K modal nodal times samples [] =
    Some (map (update_shape_dims times samples false) (documented K M1 M2 N1 N2)).
Proof.
  intro A. destruct (admissible_inv _ _ _ A) as (M1 & M2 & N1 & N2 & -> & -> & HK & HNM).
  exists M1, M2, N1, N2. split; [reflexivity|split; [reflexivity|]].
  unfold xarray_table, with_surface, shape_to_dims, basic_table, documented.
  rewrite (proj2 (Z.eqb_neq _ _) HK). cbn [negb andb has_name existsb app].
  destruct (Z.eq_dec N1 M1) as [E1|E1].
  - subst N1. assert (E2 : N2 <> M2) by (destruct HNM; [contradiction|assumption]).
    destruct times, samples; eqb_simpl HK;
      repeat (rewrite (proj2 (Z.eqb_neq _ _) E2) || rewrite (proj2 (Z.eqb_neq _ _) (not_eq_sym E2)) || eqb_simpl HK);
      reflexivity.
  - destruct times, samples; eqb_simpl HK;
      repeat (rewrite (proj2 (Z.eqb_neq _ _) E1) || rewrite (proj2 (Z.eqb_neq _ _) (not_eq_sym E1)) || eqb_simpl HK);
      reflexivity.
Qed.

Definition pre_s (times samples : option Z) : shape :=
  (match samples with Some x => [x] | None => [] end) ++ (match times with Some x => [x] | None => [] end).
Definition pre_d (times samples : option Z) : list Z :=
  (match samples with Some _ => [d_sample] | None => [] end) ++ (match times with Some _ => [d_time] | None => [] end).

Lemma update_is_prefix times samples sd :
  update_shape_dims times samples false sd = (pre_s times samples ++ fst sd, pre_d times samples ++ snd sd).
Proof. destruct sd as [sh d], times, samples; cbn; now rewrite ?andb_false_r. Qed.

Lemma documented_nodup K M1 M2 N1 N2 :
  K <> 1 -> (N1 <> M1 \/ N2 <> M2) -> NoDup (map fst (documented K M1 M2 N1 N2)).
Proof.
  intros HK HNM. apply has_dup_false. unfold documented.
  destruct (Z.eq_dec N1 M1) as [E1|E1].
  - subst N1. assert (E2 : N2 <> M2) by (destruct HNM; [contradiction|assumption]).
    eqb_simpl HK;
      repeat (rewrite (proj2 (Z.eqb_neq _ _) E2) || rewrite (proj2 (Z.eqb_neq _ _) (not_eq_sym E2)) || eqb_simpl HK);
      reflexivity.
  - eqb_simpl HK;
      repeat (rewrite (proj2 (Z.eqb_neq _ _) E1) || rewrite (proj2 (Z.eqb_neq _ _) (not_eq_sym E1)) || eqb_simpl HK);
      reflexivity.
Qed.

Lemma dget_notin {V} k (d : list (str * V)) : ~ In k (map fst d) -> dget k d = None.
Proof.
  induction d as [|[k' v] d IH]; cbn; [reflexivity|]. intro N.
  destruct (str_eqb k k') eqn:E; [apply str_eqb_eq in E; subst; exfalso; apply N; now left|].
  apply IH. tauto.
Qed.

(** For an admissible coordinate system the eight documented roles have
    pairwise different shapes, every role's shape is assigned exactly its
    documented dimension names (after the sample/time prefix), names and shape
    have the same rank, and no other shape is accepted. *)
Theorem dims_inference_injective K modal nodal times samples :
  admissible K modal nodal = true ->
  exists M1 M2 N1 N2, modal = [M1; M2] /\ nodal = [N1; N2] /\
    let doc := documented K M1 M2 N1 N2 in
    NoDup (map fst doc) /\
    (forall sh d, In (sh, d) doc ->
       dims_of K modal nodal times samples [] (pre_s times samples ++ sh) = Some (Some (pre_d times samples ++ d)) /\
       length d = length sh) /\
    (forall sh dd, dims_of K modal nodal times samples [] sh = Some (Some dd) ->
       exists sh0 d0, In (sh0, d0) doc /\ sh = pre_s times samples ++ sh0 /\ dd = pre_d times samples ++ d0).
Proof.
  intro A. destruct (xarray_table_documented K modal nodal times samples A) as (M1 & M2 & N1 & N2 & Em & En & T).
  destruct (admissible_inv _ _ _ A) as (M1' & M2' & N1' & N2' & Em' & En' & HK & HNM).
  rewrite Em in Em'. rewrite En in En'. injection Em' as <- <-. injection En' as <- <-.
  exists M1, M2, N1, N2. split; [exact Em|split; [exact En|]]. cbv zeta.
  pose proof (documented_nodup K M1 M2 N1 N2 HK HNM) as ND.
  set (doc := documented K M1 M2 N1 N2) in *.
  assert (TE : map (update_shape_dims times samples false) doc =
               map (fun sd => (pre_s times samples ++ fst sd, pre_d times samples ++ snd sd)) doc).
  { apply map_ext. intro sd. apply update_is_prefix. }
  assert (ND' : NoDup (map fst (map (fun sd : shape * list Z => (pre_s times samples ++ fst sd, pre_d times samples ++ snd sd)) doc))).
  { rewrite map_map. cbn [fst]. rewrite <- (map_map fst (app (pre_s times samples))).
    apply nodup_map_inj_in; auto. intros x y _ _ E. now apply app_inv_head in E. }
  unfold dims_of. rewrite T, TE. split; [exact ND|split].
  - intros sh d Hi. split.
    + f_equal. apply In_dget; auto. apply in_map_iff. now exists (sh, d).
    + unfold doc, documented in Hi. cbn in Hi.
      repeat (destruct Hi as [Hi|Hi]; [injection Hi as <- <-; reflexivity|]). contradiction.
  - intros sh dd H.
    assert (H' : forall (A : Type) (a b : A), Some a = Some b -> a = b) by (intros ? ? ? E; now injection E).
    apply H' in H. apply dget_In in H. apply in_map_iff in H as ([sh0 d0] & E & Hi).
    injection E as <- <-. now exists sh0, d0.
Qed.

(** ** outside admissibility *)
(** one layer: a 3-d nodal field (1, lon, lat) is given the two names (lon, lat)
    (the surface_nodal_shape entry overwrites the level entry and no surface
    coordinate is added), so the dataset cannot be built *)
Theorem dims_one_layer_refuted M1 M2 N1 N2 times samples :
  dims_of 1 [M1; M2] [N1; N2] times samples [] (pre_s times samples ++ [1; N1; N2])
  = Some (Some (pre_d times samples ++ NODAL)).
Proof.
  unfold dims_of, xarray_table, with_surface, shape_to_dims, basic_table.
  assert (H1 : (1:Z) <> 2) by lia.
  destruct (Z.eq_dec N1 M1) as [E1|E1]; [destruct (Z.eq_dec N2 M2) as [E2|E2]|].
  - subst. destruct times, samples; eqb_simpl H1; reflexivity.
  - subst N1. destruct times, samples; eqb_simpl H1;
      repeat (rewrite (proj2 (Z.eqb_neq _ _) E2) || rewrite (proj2 (Z.eqb_neq _ _) (not_eq_sym E2)) || eqb_simpl H1);
      reflexivity.
  - destruct times, samples; eqb_simpl H1;
      repeat (rewrite (proj2 (Z.eqb_neq _ _) E1) || rewrite (proj2 (Z.eqb_neq _ _) (not_eq_sym E1)) || eqb_simpl H1);
      reflexivity.
Qed.

(** equal nodal and modal shapes: a 2-d field is labelled as modal while 3-d
    fields of the same horizontal shape are labelled as nodal *)
Theorem dims_nodal_eq_modal_refuted K N1 N2 times samples :
  K <> 1 ->
  dims_of K [N1; N2] [N1; N2] times samples [] (pre_s times samples ++ [N1; N2])
    = Some (Some (pre_d times samples ++ MODAL)) /\
  dims_of K [N1; N2] [N1; N2] times samples [] (pre_s times samples ++ [K; N1; N2])
    = Some (Some (pre_d times samples ++ d_level :: NODAL)) /\
  dims_of K [N1; N2] [N1; N2] times samples [] (pre_s times samples ++ [1; N1; N2])
    = Some (Some (pre_d times samples ++ d_surface :: NODAL)).
Proof.
  intro HK. unfold dims_of, xarray_table, with_surface, shape_to_dims, basic_table.
  rewrite (proj2 (Z.eqb_neq _ _) HK). cbn [negb andb has_name existsb app].
  destruct times, samples; eqb_simpl HK; repeat split; reflexivity.
Qed.

(** * spelling of the attribute keys and class names used by the model *)
Definition spell (x : string) : str := map (fun a => Z.of_N (Ascii.N_of_ascii a)) (list_ascii_of_string x).
Lemma keys_spelled :
  k_lw = spell "longitude_wavenumbers" /\
  k_tw = spell "total_wavenumbers" /\
  k_lon_nodes = spell "longitude_nodes" /\
  k_lat_nodes = spell "latitude_nodes" /\
  k_spacing = spell "latitude_spacing" /\
  k_offset = spell "longitude_offset" /\
  k_radius = spell "radius" /\
  k_impl = spell "spherical_harmonics_impl" /\
  k_mesh = spell "spmd_mesh" /\
  k_htype = spell "horizontal_grid_type" /\
  k_vtype = spell "vertical_grid_type" /\
  k_boundaries = spell "boundaries" /\
  k_layers = spell "layers" /\
  k_centers = spell "centers" /\
  n_grid = spell "Grid" /\
  n_sigma = spell "SigmaCoordinates" /\
  n_layer = spell "LayerCoordinates" /\
  n_pressure = spell "PressureCoordinates" /\
  default_impl = spell "RealSphericalHarmonics" /\
  spacings = [spell "gauss"; spell "equiangular"; spell "equiangular_with_poles"].
Proof. repeat split; reflexivity. Qed.

(** * attrs round trip *)
Section AttrsThm.
  Context {F : Type} {o : Ops F}.
  Variables tol0 tol1 : F.

  (** [coordinate_system_from_attrs(cs.asdict())] rebuilds every field that
      defines the discretisation - wavenumbers, node counts, latitude spacing,
      longitude offset, radius, and the vertical coordinate with its
      boundaries / layers / centers - and drops exactly the implementation
      class (reset to the default) and the mesh (reset to None). *)
  Theorem attrs_roundtrip (g : grid) (v : vertical) :
    grid_ok g = true -> vertical_ok tol0 tol1 v = true ->
    exists a, cs_asdict g v = Some a /\
              from_attrs tol0 tol1 a = Some (restored g, Some v).
  Proof.
    intros Hg Hv. destruct g as [lw tw ln lt sp off rad impl mesh].
    assert (C1 : str_eqb n_layer n_sigma = false) by (vm_compute; reflexivity).
    assert (C2 : str_eqb n_pressure n_sigma = false) by (vm_compute; reflexivity).
    assert (C3 : str_eqb n_pressure n_layer = false) by (vm_compute; reflexivity).
    destruct v as [b|n|c];
      (eexists; split; [vm_compute; reflexivity|];
       match goal with |- from_attrs _ _ ?a = _ => set (A := a) end;
       assert (E0 : get_str k_htype A = Some n_grid) by (vm_compute; reflexivity);
       assert (E1 : get_int k_lw A = Some lw) by (vm_compute; reflexivity);
       assert (E2 : get_int k_tw A = Some tw) by (vm_compute; reflexivity);
       assert (E3 : get_int k_lon_nodes A = Some ln) by (vm_compute; reflexivity);
       assert (E4 : get_int k_lat_nodes A = Some lt) by (vm_compute; reflexivity);
       assert (E5 : get_str k_spacing A = Some sp) by (vm_compute; reflexivity);
       assert (E6 : get_num k_offset A = Some off) by (vm_compute; reflexivity);
       assert (E7 : get_num k_radius A = Some rad) by (vm_compute; reflexivity);
       assert (E8 : dget k_impl A = Some (AStr impl)) by (vm_compute; reflexivity);
       assert (E9 : dget k_mesh A = Some (AStr (match mesh with Some m => m | None => [] end)))
         by (vm_compute; reflexivity);
       unfold from_attrs; rewrite E0, E1, E2, E3, E4, E5, E6, E7, E8, E9;
       rewrite str_eqb_refl; cbn [negb];
       unfold grid_ok in *; cbn [g_spacing] in *; rewrite Hg; cbn [negb]).
    - assert (EV : dget k_vtype A = Some (AStr n_sigma)) by (vm_compute; reflexivity).
      assert (EB : get_list k_boundaries A = Some b) by (vm_compute; reflexivity).
      rewrite EV, str_eqb_refl, EB. cbn [option_map]. rewrite Hv. reflexivity.
    - assert (EV : dget k_vtype A = Some (AStr n_layer)) by (vm_compute; reflexivity).
      assert (EB : get_int k_layers A = Some n) by (vm_compute; reflexivity).
      rewrite EV, C1, str_eqb_refl, EB. cbn [option_map]. rewrite Hv. reflexivity.
    - assert (EV : dget k_vtype A = Some (AStr n_pressure)) by (vm_compute; reflexivity).
      assert (EB : get_list k_centers A = Some c) by (vm_compute; reflexivity).
      rewrite EV, C2, C3, str_eqb_refl, EB. cbn [option_map]. rewrite Hv. reflexivity.
  Qed.
End AttrsThm.
