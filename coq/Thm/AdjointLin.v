(** C08, the filters of Model/Filters.v are linear and diagonal in the state:
    run at dual numbers with the attenuation table as a constant, the tangent of
    [rescale] / [filter_tree] is the same filter applied to the tangent (for
    every state), and the filter is its own transpose entry by entry.
    (The IMEX step functions of Model/Integrators.v are NOT treated here:
    C08_linear_jvp_is_self covers linear maps given as matrices only.) *)
From Dino Require Import Base.Ops Base.Sums Base.Ord Model.Dual Model.Filters Thm.Dual.
Local Open Scope F_scope.

Section FilterLin.
  Context {F : Type} {o : Ops F} {Fc : FieldC o}.
  Add Field FFl : (field_c : FieldTh o).

  (** a leaf with tangent, a constant leaf *)
  Definition darr (x dx : @arr F) : @arr (dual F) := (fst x, fun idx => mkdual (snd x idx) (snd dx idx)).
  Definition carr (s : @arr F) : @arr (dual F) := (fst s, fun idx => dconst (snd s idx)).

  Theorem rescale_jvp_is_self (sc x dx : @arr F) idx : fst dx = fst x ->
    fst (rescale (carr sc) (darr x dx)) = fst (rescale sc x) /\
    snd (rescale (carr sc) (darr x dx)) idx = mkdual (snd (rescale sc x) idx) (snd (rescale sc dx) idx).
  Proof.
    intros E. unfold rescale, carr, darr. cbn [fst snd]. rewrite E.
    destruct (preserves_shape (fst x) (fst sc)); cbn [fst snd]; split; try reflexivity.
    apply dual_eq; cbn; ring.
  Qed.

  (** the whole pytree *)
  Theorem filter_tree_jvp_is_self (sc : @arr F) (t dt : list (@arr F)) :
    Forall2 (fun x dx => fst dx = fst x) t dt ->
    Forall2 (fun y p => fst y = fst (fst p) /\ forall idx, snd y idx = mkdual (snd (fst p) idx) (snd (snd p) idx))
            (filter_tree (carr sc) (map (fun p => darr (fst p) (snd p)) (combine t dt)))
            (combine (filter_tree sc t) (filter_tree sc dt)).
  Proof.
    unfold filter_tree. induction 1 as [|x dx t dt E _ IH]; cbn [combine map]; constructor; [|exact IH].
    cbn [fst snd]. split; [apply (rescale_jvp_is_self sc x dx nil E)|].
    intros idx. apply (rescale_jvp_is_self sc x dx idx E).
  Qed.

  (** diagonal, hence self-adjoint entry by entry (reverse mode = the filter itself) *)
  Theorem rescale_self_adjoint (sc x y : @arr F) idx : fst y = fst x ->
    snd (rescale sc x) idx * snd y idx = snd x idx * snd (rescale sc y) idx.
  Proof.
    intros E. unfold rescale. rewrite E.
    destruct (preserves_shape (fst x) (fst sc)); cbn [fst snd]; ring.
  Qed.
End FilterLin.
