(** Theorems of property C05: the implementation's column algebra refines the
    pointwise specification Model/PrimEqSpec.v; balanced states are steady.
    Every statement is for an arbitrary field, arbitrary K, arbitrary levels. *)
From Dino Require Import Base.Ops Base.Sums Base.Ord Model.Sigma Thm.Sigma Model.Implicit Model.PrimEq Thm.PrimEq
     Model.PrimEqSpec.
Local Open Scope F_scope.

(** * 1. A resting isothermal atmosphere in hydrostatic balance is steady (model level) *)
Section RestState.
  Context {F : Type} {o : Ops F} {Fc : FieldC o}.
  Add Field FFrest : (field_c : FieldTh o).
  Variables W P : Type.
  Variable toM : (P -> F) -> W -> F.
  Variable divc curlc : (W -> F) -> (W -> F) -> W -> F.
  Variable lap clip : (W -> F) -> W -> F.
  Hypothesis toM_lin : linear toM.
  Hypothesis divc_lin : linear2 divc.
  Hypothesis curlc_lin : linear2 curlc.
  Hypothesis lap_lin : linear lap.
  Hypothesis clip_lin : linear clip.

  Variable c : @PEcfg F.
  Variables grav T0 cst : F.
  Hypothesis RT0_nz : cR c * T0 <> 0.
  Hypothesis Tref_iso : forall k, cTref c k = T0.

  (** the state: no wind, no divergence, no temperature deviation; the gradient
      of ln ps ([n_gx], [n_gy]), the Coriolis parameter and sec^2 are arbitrary *)
  Variable X : P -> @NCol F.
  Hypothesis u0 : forall p k, n_u (X p) k = 0.
  Hypothesis v0 : forall p k, n_v (X p) k = 0.
  Hypothesis d0 : forall p k, n_div (X p) k = 0.
  Hypothesis t0 : forall p k, n_temp (X p) k = 0.
  Variable dv Tm : nat -> W -> F.
  Hypothesis dv0 : forall k w, dv k w = 0.
  Hypothesis Tm0 : forall k w, Tm k w = 0.
  Variables lnps onem orog : W -> F.
  (** hydrostatic balance, as a relation between modal coefficients *)
  Hypothesis H_hydrostatic : forall w, lnps w = cst * onem w - grav / (cR c * T0) * orog w.
  Hypothesis lap_const : forall w, lap onem w = 0.

  Lemma udg0 p k : u_dot_grad (X p) k = 0.
  Proof. unfold u_dot_grad. rewrite u0, v0. ring. Qed.

  Lemma cumint_zero (g : nat -> F) j : (forall k, g k = 0) -> cumint c g j = 0.
  Proof.
    intros H. unfold cumint, cum_sigma_integral, cumsum_m, cumsum_dot. apply sumn_zero.
    intros i _. unfold xdsigma. rewrite H. ring.
  Qed.
  Lemma sigma_dot_zero (g : nat -> F) r : (forall k, g k = 0) -> sigma_dot c g r = 0.
  Proof. intros H. unfold sigma_dot. cbv zeta. rewrite !cumint_zero by exact H. ring. Qed.
  Lemma g_part_zero (g : nat -> F) n : (forall k, g k = 0) -> g_part c g n = 0.
  Proof.
    intros H. unfold g_part. cbv zeta. rewrite !cumint_zero by exact H. rewrite fdiv_def.
    destruct (Nat.eqb n 0); ring.
  Qed.
  Lemma vt_zero_w (w x : nat -> F) n : (forall k, w k = 0) -> vertical_tendency c w x n = 0.
  Proof.
    intros H. unfold vertical_tendency, centered_vertical_advection. cbv zeta.
    assert (E : forall m, pad_tb (cK c) 0 0 w m = 0).
    { intros m. unfold pad_tb. destruct (Nat.eqb m 0); [reflexivity|]. destruct (Nat.ltb m (cK c)); [apply H|reflexivity]. }
    rewrite !E. ring.
  Qed.
  Lemma sdf0 p r : sigma_dot_full c (X p) r = 0.
  Proof. apply sigma_dot_zero. intros k. unfold g_full_diag. rewrite d0, udg0. ring. Qed.
  Lemma sde0 p r : sigma_dot_explicit c (X p) r = 0.
  Proof. apply sigma_dot_zero. intros k. apply udg0. Qed.

  Lemma temp_nodal_zero p r : temp_nodal_total c true (X p) r = 0.
  Proof.
    unfold temp_nodal_total, hsa_nodal, temp_vertical_tendency, temp_adiabatic, t_omega_over_sigma_sp. cbv zeta.
    rewrite !(vt_zero_w _ _ r) by (intros; first [apply sdf0 | apply sde0]).
    rewrite !g_part_zero by (intros k; unfold g_explicit, g_full_adiabatic; rewrite ?d0, ?udg0; ring).
    rewrite udg0, t0. destruct (tref_nonuniform c); ring.
  Qed.

  Lemma toM_zero (f : P -> F) w : (forall p, f p = 0) -> toM f w = 0.
  Proof. intros H. rewrite (lin_ext toM toM_lin f (fun _ => 0) H). apply lin_zero, toM_lin. Qed.
  Lemma lin2_zero (D : (W -> F) -> (W -> F) -> W -> F) (HD : linear2 D) w : D (fun _ => 0) (fun _ => 0) w = 0.
  Proof.
    assert (E0 : forall a : W, (fun _ : W => 0) a = (fun _ : W => 0) a + 1 * (fun _ : W => 0) a) by (intros; cbv beta; ring).
    pose proof (lin2_comb D HD (fun _ => 0) (fun _ => 0) (fun _ => 0) (fun _ => 0) (fun _ => 0) (fun _ => 0) 1 E0 E0 w) as E.
    set (z := D (fun _ : W => 0) (fun _ : W => 0) w) in *.
    assert (X0 : z + 1 * z - z = z - z) by (rewrite <- E; reflexivity).
    transitivity (z + 1 * z - z); [ring|]. rewrite X0. ring.
  Qed.
  Lemma divc_zero (x y : W -> F) w : (forall a, x a = 0) -> (forall a, y a = 0) -> divc x y w = 0.
  Proof.
    intros Hx Hy. destruct divc_lin as [He _].
    rewrite (He x (fun _ => 0) y (fun _ => 0) Hx Hy). apply lin2_zero, divc_lin.
  Qed.
  Lemma curlc_zero (x y : W -> F) w : (forall a, x a = 0) -> (forall a, y a = 0) -> curlc x y w = 0.
  Proof.
    intros Hx Hy. destruct curlc_lin as [He _].
    rewrite (He x (fun _ => 0) y (fun _ => 0) Hx Hy). apply lin2_zero, curlc_lin.
  Qed.
  Lemma clip_zero (f : W -> F) w : (forall a, f a = 0) -> clip f w = 0.
  Proof. intros H. rewrite (lin_ext clip clip_lin f (fun _ => 0) H). apply lin_zero, clip_lin. Qed.

  Theorem rest_temperature_steady r w :
    temp_tendency_explicit W P toM divc clip c X r w + temp_tendency_implicit W c dv r w = 0.
  Proof.
    unfold temp_tendency_explicit, temp_tendency_implicit.
    rewrite clip_zero.
    2:{ intros w'. rewrite toM_zero by (intros; apply temp_nodal_zero).
        rewrite divc_zero; [ring| |]; intros w2; apply toM_zero; intros p;
          unfold hsa_mu, hsa_mv; rewrite ?u0, ?v0; ring. }
    unfold temp_implicit_col, temp_implicit_dense, matvec.
    rewrite sumn_zero; [ring|]. intros h _. rewrite dv0. ring.
  Qed.

  Lemma combined_u0 p r : combined_u c true (X p) (rt_dry c (X p)) r = 0.
  Proof.
    unfold combined_u, rt_dry. cbv zeta.
    rewrite (vt_zero_w _ _ r) by (intros; apply sdf0). rewrite v0, t0. ring.
  Qed.
  Lemma combined_v0 p r : combined_v c true (X p) (rt_dry c (X p)) r = 0.
  Proof.
    unfold combined_v, rt_dry. cbv zeta.
    rewrite (vt_zero_w _ _ r) by (intros; apply sdf0). rewrite u0, t0. ring.
  Qed.
  Lemma kinetic0 p r : kinetic (X p) r = 0.
  Proof. unfold kinetic. rewrite u0, v0, fdiv_def. ring. Qed.

  Theorem rest_vorticity_steady r w :
    vort_tendency_explicit W P toM curlc clip c X (fun p => rt_dry c (X p)) (fun _ => 0) r w = 0.
  Proof.
    unfold vort_tendency_explicit. apply clip_zero. intros w'.
    rewrite curlc_zero; [ring| |]; intros w2; apply toM_zero; intros p; first [apply combined_u0|apply combined_v0].
  Qed.

  (** the divergence equation: the explicit orographic term -g lap(orog) is clipped,
      the implicit term -lap(R T0 lnps) = +g lap(orog) is not: exact residual *)
  Theorem rest_divergence_residual r w :
    div_tendency_explicit W P toM divc lap clip c grav X (fun p => rt_dry c (X p)) orog (fun _ => 0) r w
    + div_tendency_implicit W lap c Tm lnps r w
    = grav * (lap orog w - clip (lap orog) w).
  Proof.
    unfold div_tendency_explicit, div_tendency_implicit.
    rewrite (lin_scal clip clip_lin _ (lap orog) (- grav)).
    2:{ intros w'. rewrite divc_zero.
        2:{ intros w2; apply toM_zero; intros p; apply combined_u0. }
        2:{ intros w2; apply toM_zero; intros p; apply combined_v0. }
        rewrite (lin_ext lap lap_lin (toM (fun p => kinetic (X p) r)) (fun _ => 0))
          by (intros w2; apply toM_zero; intros p; apply kinetic0).
        rewrite (lin_zero lap lap_lin). ring. }
    rewrite (lin_comb lap lap_lin
               (fun w' => div_implicit_potential c false (fun k => Tm k w') (lnps w') r)
               (fun w' => (cR c * T0 * cst) * onem w') orog (- grav)).
    2:{ intros w'. unfold div_implicit_potential, geo_diff, geo_diff_dense.
        rewrite sumn_zero by (intros; rewrite Tm0; ring).
        rewrite Tref_iso, H_hydrostatic. field.
        split; intro E; apply RT0_nz; rewrite E; ring. }
    rewrite (lin_scal lap lap_lin (fun w' => (cR c * T0 * cst) * onem w') onem (cR c * T0 * cst)) by reflexivity.
    rewrite lap_const. ring.
  Qed.

  (** orography without content in the clipped top wavenumber: exactly steady *)
  Theorem rest_divergence_steady r w :
    clip (lap orog) w = lap orog w ->
    div_tendency_explicit W P toM divc lap clip c grav X (fun p => rt_dry c (X p)) orog (fun _ => 0) r w
    + div_tendency_implicit W lap c Tm lnps r w = 0.
  Proof. intros H. rewrite rest_divergence_residual, H. ring. Qed.

  Theorem rest_lnps_steady w :
    clip (toM (fun p => log_pressure_tendency c (X p))) w + lnps_implicit_col c (fun s => dv s w) = 0.
  Proof.
    rewrite clip_zero.
    2:{ intros w'. apply toM_zero. intros p. unfold log_pressure_tendency, sigma_integral.
        rewrite sumn_zero; [ring|]. intros k _. unfold xdsigma. rewrite udg0. ring. }
    unfold lnps_implicit_col, matvec. rewrite sumn_zero; [ring|]. intros h _. rewrite dv0. ring.
  Qed.

  (** *** moist classes: uniform specific humidity q0, lnps = cst*one - g/(R T0 (1 + eps q0)) orog *)
  Section RestMoist.
    Variable m : @Moist F.
    Variable q0 : F.
    Variables q gqx gqy : P -> nat -> F.
    Variable lapn : P -> F.
    Hypothesis Hq : forall p k, q p k = q0.
    Hypothesis Hgqx : forall p k, gqx p k = 0.
    Hypothesis Hgqy : forall p k, gqy p k = 0.
    Variable lnpsm : W -> F.
    Let eps := mRv m / cR c - 1.
    Hypothesis R_nz : cR c <> 0.
    Hypothesis mf_nz : 1 + eps * q0 <> 0.
    Hypothesis H_hydrostatic_m : forall w, lnpsm w = cst * onem w - grav / (cR c * T0 * (1 + eps * q0)) * orog w.
    (** the analysed constant field has no laplacian; laplacian(lnps) survives to_nodal -> to_modal under the clip *)
    Hypothesis lap_one : forall w, lap (toM (fun _ => 1)) w = 0.
    Hypothesis H_lapn : forall w, clip (toM lapn) w = clip (lap lnpsm) w.

    Lemma rt_moist0 p k : rt_moist c m (X p) (q p) k = 0.
    Proof. unfold rt_moist. rewrite t0. ring. Qed.
    Lemma combined_um0 p r : combined_u c true (X p) (rt_moist c m (X p) (q p)) r = 0.
    Proof.
      unfold combined_u. cbv zeta.
      rewrite (vt_zero_w _ _ r) by (intros; apply sdf0). rewrite v0, rt_moist0. ring.
    Qed.
    Lemma combined_vm0 p r : combined_v c true (X p) (rt_moist c m (X p) (q p)) r = 0.
    Proof.
      unfold combined_v. cbv zeta.
      rewrite (vt_zero_w _ _ r) by (intros; apply sdf0). rewrite u0, rt_moist0. ring.
    Qed.

    Theorem rest_temperature_steady_moist r w :
      temp_tendency_explicit_moist W P toM divc clip c m X q r w + temp_tendency_implicit W c dv r w = 0.
    Proof.
      unfold temp_tendency_explicit_moist, temp_tendency_implicit.
      rewrite clip_zero.
      2:{ intros w'. rewrite toM_zero.
          2:{ intros p. unfold temp_nodal_total_moist, hsa_nodal, temp_vertical_tendency, temp_adiabatic_moist,
                t_omega_over_sigma_sp. cbv zeta.
              rewrite !(vt_zero_w _ _ r) by (intros; first [apply sdf0 | apply sde0]).
              rewrite !g_part_zero by (intros k; unfold g_explicit, g_full_adiabatic; rewrite ?d0, ?udg0; ring).
              rewrite udg0, t0. destruct (tref_nonuniform c); ring. }
          rewrite divc_zero; [ring| |]; intros w2; apply toM_zero; intros p;
            unfold hsa_mu, hsa_mv; rewrite ?u0, ?v0; ring. }
      unfold temp_implicit_col, temp_implicit_dense, matvec.
      rewrite sumn_zero; [ring|]. intros h _. rewrite dv0. ring.
    Qed.

    Theorem rest_vorticity_steady_moist r w :
      vort_tendency_explicit W P toM curlc clip c X (fun p => rt_moist c m (X p) (q p))
                             (fun w' => humidity_curl_modal W P toM c m X gqx gqy r w') r w = 0.
    Proof.
      unfold vort_tendency_explicit. apply clip_zero. intros w'.
      rewrite curlc_zero.
      2,3: intros w2; apply toM_zero; intros p; first [apply combined_um0 | apply combined_vm0].
      unfold humidity_curl_modal. rewrite toM_zero; [ring|].
      intros p. unfold humidity_curl_nodal. cbv zeta. rewrite Hgqx, Hgqy. ring.
    Qed.

    Theorem rest_divergence_residual_moist r w :
      div_tendency_explicit W P toM divc lap clip c grav X (fun p => rt_moist c m (X p) (q p)) orog
                            (fun w' => humidity_div_modal W P toM lap c m X q gqx gqy lapn r w') r w
      + div_tendency_implicit W lap c Tm lnpsm r w
      = grav / (1 + eps * q0) * (lap orog w - clip (lap orog) w).
    Proof.
      unfold div_tendency_explicit, div_tendency_implicit.
      set (k0 := q0 * T0 * (mRv m - cR c)).
      set (gam := grav / (cR c * T0 * (1 + eps * q0))).
      assert (Hll : forall w', lap lnpsm w' = (- gam) * lap orog w').
      { intros w'.
        rewrite (lin_comb lap lap_lin lnpsm (fun a => cst * onem a) orog (- gam)) by (intros; rewrite H_hydrostatic_m; unfold gam; ring).
        rewrite (lin_scal lap lap_lin (fun a => cst * onem a) onem cst) by reflexivity. rewrite lap_const. ring. }
      (* explicit part *)
      rewrite (lin_comb clip clip_lin _ (fun w' => (- grav) * lap orog w') (toM lapn) (- k0)).
      2:{ intros w'. rewrite divc_zero.
          2,3: intros w2; apply toM_zero; intros p; first [apply combined_um0 | apply combined_vm0].
          rewrite (lin_ext lap lap_lin (toM (fun p => kinetic (X p) r)) (fun _ => 0))
            by (intros w2; apply toM_zero; intros p; apply kinetic0).
          rewrite (lin_zero lap lap_lin).
          unfold humidity_div_modal.
          set (Gc := geo_diff false c (fun k => q0 * (0 + T0) * (mRv m / cR c - 1)) r).
          rewrite (lin_scal lap lap_lin (toM (fun p => humidity_geo_nodal c false m (X p) (q p) r)) (toM (fun _ => 1)) Gc).
          2:{ intros a. apply (lin_scal toM toM_lin). intros p.
              unfold humidity_geo_nodal, humidity_temperature_diff, Gc, geo_diff, geo_diff_dense.
              rewrite <- sumn_scal_r. apply sumn_ext. intros k _. rewrite Hq, t0, Tref_iso. ring. }
          rewrite lap_one.
          rewrite (lin_scal toM toM_lin (fun p => humidity_div_nodal c m (X p) (q p) (gqx p) (gqy p) (lapn p) r) lapn k0).
          2:{ intros p. unfold humidity_div_nodal, k0. cbv zeta. rewrite Hgqx, Hgqy, Hq, Tref_iso. ring. }
          ring. }
      rewrite (lin_scal clip clip_lin (fun w' => - grav * lap orog w') (lap orog) (- grav)) by reflexivity.
      rewrite H_lapn.
      rewrite (lin_scal clip clip_lin (lap lnpsm) (lap orog) (- gam)) by exact Hll.
      (* implicit part *)
      rewrite (lin_scal lap lap_lin
                 (fun w' => div_implicit_potential c false (fun k => Tm k w') (lnpsm w') r) lnpsm (cR c * T0)).
      2:{ intros w'. unfold div_implicit_potential, geo_diff, geo_diff_dense.
          rewrite sumn_zero by (intros; rewrite Tm0; ring). rewrite Tref_iso. ring. }
      rewrite Hll. unfold gam, k0, eps. field.
      split; [exact R_nz|]. split.
      - intro E. apply mf_nz. unfold eps.
        transitivity ((cR c + (mRv m - cR c) * q0) / cR c); [field; exact R_nz | rewrite E; field; exact R_nz].
      - intro E. apply RT0_nz. rewrite E. ring.
    Qed.

    Theorem rest_divergence_steady_moist r w :
      clip (lap orog) w = lap orog w ->
      div_tendency_explicit W P toM divc lap clip c grav X (fun p => rt_moist c m (X p) (q p)) orog
                            (fun w' => humidity_div_modal W P toM lap c m X q gqx gqy lapn r w') r w
      + div_tendency_implicit W lap c Tm lnpsm r w = 0.
    Proof. intros H. rewrite rest_divergence_residual_moist, H. ring. Qed.
  End RestMoist.
End RestState.

(** * 2. The nodal column algebra of the implementation (explicit + implicit)
    equals the vertical discretisation of the specification, term by term *)
Section ColumnRefinement.
  Context {F : Type} {o : Ops F} {Fc : FieldC o}.
  Add Field FFcol : (field_c : FieldTh o).
  Hypothesis two_nz : two <> 0.
  Hypothesis feqb_sound : forall x y : F, feqb x y = true -> x = y.
  Variable c : @PEcfg F.
  Hypothesis th2_nz : forall k, (S k < cK c)%nat -> thickness (cb c) k + thickness (cb c) (S k) <> 0.
  (** the level set starts at sigma = 0 (np.cumsum(layer_thickness) is then the boundary value) *)
  Hypothesis b_top : cb c 0%nat = 0.

  Lemma cumint_is_spec (g : nat -> F) n : (n < cK c)%nat -> cumint c g n = spec_cum c g n.
  Proof.
    intros Hn. unfold cumint, cum_sigma_integral, cumsum_m.
    rewrite cumsum_dot_seq by exact Hn. reflexivity.
  Qed.
  Lemma sum_sigma_is_boundary r : sum_sigma c r = cb c (S r).
  Proof.
    unfold sum_sigma, cumsum_seq, thickness.
    rewrite (sumn_telescope (S r) (cb c)), b_top. ring.
  Qed.
  Lemma sigma_dot_is_spec (g : nat -> F) r :
    (r < cK c)%nat -> sigma_dot c g r = spec_sigma_dot c g r.
  Proof.
    intros Hr. unfold sigma_dot, spec_sigma_dot. cbv zeta.
    rewrite sum_sigma_is_boundary, !cumint_is_spec by lia.
    unfold spec_cum at 1. replace (S (cK c - 1)) with (cK c) by lia. reflexivity.
  Qed.
  Lemma vertical_tendency_is_spec (w x : nat -> F) n :
    (n < cK c)%nat -> vertical_tendency c w x n = spec_vadv c w x n.
  Proof.
    intros Hn. rewrite vertical_tendency_closed by exact Hn.
    unfold spec_vadv, adv_term, spec_ddsigma, centered_difference, c2c, half.
    destruct n as [|n].
    - cbn [Nat.eqb]. destruct (Nat.ltb 1 (cK c)); rewrite !fdiv_def; ring.
    - cbn [Nat.eqb]. replace (S n - 1)%nat with n by lia.
      destruct (Nat.ltb_spec (S n) (cK c)) as [_|H]; [|lia].
      destruct (Nat.ltb (S (S n)) (cK c)); rewrite !fdiv_def; ring.
  Qed.
  Lemma vertical_tendency_spec_ext (w1 w2 x : nat -> F) n :
    (n < cK c)%nat -> (forall k, (S k < cK c)%nat -> w1 k = w2 k) ->
    spec_vadv c w1 x n = spec_vadv c w2 x n.
  Proof.
    intros Hn H. rewrite <- !vertical_tendency_is_spec by exact Hn.
    apply vertical_tendency_ext; auto.
  Qed.
  (** the upwind option: Model/Sigma.v's [upwind_vertical_advection] (tied to the code by C13) is the
      specification's upwind operator; it vanishes on level-independent profiles, and it is the one-sided
      difference - w dX/dsigma taken above for downward and below for upward motion *)
  Lemma upwind_is_spec (w x : nat -> F) n :
    upwind_vertical_advection (cK c) (cb c) w x n = spec_vadv_upwind c w x n.
  Proof.
    unfold upwind_vertical_advection, spec_vadv_upwind, spec_ddsigma, centered_difference, c2c. cbv zeta.
    destruct (Nat.eqb n 0), (Nat.ltb (S n) (cK c)); rewrite ?fdiv_def; ring.
  Qed.
  Lemma upwind_constant (w x : nat -> F) n :
    (forall k, x k = x 0%nat) -> spec_vadv_upwind c w x n = 0.
  Proof.
    intros H. unfold spec_vadv_upwind, spec_ddsigma.
    rewrite (H (S n)), (H n), (H (S (n - 1))), (H (n - 1)%nat), !fdiv_def.
    destruct (Nat.eqb n 0), (Nat.ltb (S n) (cK c)); ring.
  Qed.
  Lemma upwind_one_sided (w x : nat -> F) n :
    (0 < n)%nat -> (S n < cK c)%nat ->
    spec_vadv_upwind c w x n
    = - (fmax (w (n - 1)%nat) 0 * spec_ddsigma c x (n - 1) + fmin (w n) 0 * spec_ddsigma c x n).
  Proof.
    intros H0 H1. unfold spec_vadv_upwind.
    destruct (Nat.eqb_spec n 0); [lia|]. destruct (Nat.ltb_spec (S n) (cK c)); [reflexivity|lia].
  Qed.
  Lemma g_part_is_spec (g ug : nat -> F) n :
    (n < cK c)%nat -> ug n - g_part c g n = spec_omega_p c g ug n.
  Proof.
    intros Hn. unfold g_part, spec_omega_p. cbv zeta.
    destruct n as [|n]; cbn [Nat.eqb].
    - now rewrite cumint_is_spec by exact Hn.
    - replace (S n - 1)%nat with n by lia. now rewrite !cumint_is_spec by lia.
  Qed.

  (** u . grad ln ps as the code forms it (python's sum starts from 0) *)
  Lemma u_dot_grad_is_spec (x : NCol) k :
    u_dot_grad x k = n_sec2 x * (n_u x k * n_gx x + n_v x k * n_gy x).
  Proof. unfold u_dot_grad. ring. Qed.

  Definition gcol (x : @NCol F) (k : nat) : F := n_div x k + u_dot_grad x k.

  (** sigma_dot from the cumulative integrals *)
  Theorem refines_sigma_dot (x : NCol) r :
    (r < cK c)%nat -> sigma_dot_full c x r = spec_sigma_dot c (gcol x) r.
  Proof. intros Hr. unfold sigma_dot_full. now rewrite sigma_dot_is_spec by exact Hr. Qed.

  (** TEMPERATURE EQUATION.  Grouping proved: for the absolute temperature [T] and ANY
      reference profile [Tref] (T' = T - Tref),
        [explicit vertical advection of T' by sigma_dot_full  +  explicit vertical advection of Tref by
         the u.grad(lnps) part of sigma_dot  +  explicit kappa (Tref, T') omega/p parts]
        + [implicit -H . divergence]
        = - sigma_dot dT/dsigma  +  kappa T omega/p      of the specification.
      (The horizontal part  T' div - div(u T') = - u.grad T  is [flux_form_is_advective_form] below.) *)
  Theorem refines_temperature (Tref T : nat -> F) (x : NCol) n :
    (n < cK c)%nat ->
    let ci := with_tref c Tref in
    let xi := with_temp x (fun k => T k - Tref k) in
    temp_vertical_tendency ci true xi n + temp_adiabatic ci xi n + temp_implicit_col ci (n_div x) n
    = spec_vadv c (spec_sigma_dot c (gcol x)) T n
      + ckappa c * (T n * spec_omega_p c (gcol x) (u_dot_grad x) n).
  Proof.
    intros Hn ci xi. subst ci xi.
    rewrite (tref_split_closed two_nz feqb_sound c th2_nz Tref T x n Hn).
    unfold temp_closed.
    rewrite vertical_tendency_is_spec by exact Hn.
    rewrite (vertical_tendency_spec_ext (sigma_dot_full c x) (spec_sigma_dot c (gcol x)) T n Hn)
      by (intros; apply refines_sigma_dot; lia).
    rewrite (g_part_ext c (g_full_adiabatic x) (gcol x) n) by (intros; unfold g_full_adiabatic, gcol; ring).
    now rewrite g_part_is_spec by exact Hn.
  Qed.

  Theorem refines_temperature_moist (m : Moist) (Tref T q : nat -> F) (x : NCol) n :
    (n < cK c)%nat ->
    1 + (mCpv m / (cR c / ckappa c) - 1) * q n <> 0 ->
    let ci := with_tref c Tref in
    let xi := with_temp x (fun k => T k - Tref k) in
    temp_vertical_tendency ci true xi n + temp_adiabatic_moist ci m xi q n + temp_implicit_col ci (n_div x) n
    = spec_vadv c (spec_sigma_dot c (gcol x)) T n
      + ckappa c * (T n * ((1 + (mRv m / cR c - 1) * q n) / (1 + (mCpv m / (cR c / ckappa c) - 1) * q n))
                    * spec_omega_p c (gcol x) (u_dot_grad x) n).
  Proof.
    intros Hn Hq ci xi. subst ci xi.
    rewrite (tref_split_closed_moist two_nz feqb_sound c th2_nz m Tref T q x n Hn Hq).
    unfold temp_closed_moist.
    rewrite vertical_tendency_is_spec by exact Hn.
    rewrite (vertical_tendency_spec_ext (sigma_dot_full c x) (spec_sigma_dot c (gcol x)) T n Hn)
      by (intros; apply refines_sigma_dot; lia).
    rewrite (g_part_ext c (g_full_adiabatic x) (gcol x) n) by (intros; unfold g_full_adiabatic, gcol; ring).
    now rewrite g_part_is_spec by exact Hn.
  Qed.

  (** SURFACE PRESSURE EQUATION: explicit -sum(u.grad lnps dsigma) + implicit -sum(div dsigma) *)
  Theorem refines_lnps (x : NCol) :
    log_pressure_tendency c x + lnps_implicit_col c (n_div x)
    = - sumn (cK c) (fun k => gcol x k * thickness (cb c) k).
  Proof.
    unfold log_pressure_tendency, lnps_implicit_col, sigma_integral, matvec, gcol.
    rewrite <- !sumn_opp, <- sumn_add. apply sumn_ext. intros k _. unfold xdsigma. ring.
  Qed.

  (** MOMENTUM: the nodal vector handed to div/curl plus the implicit R Tref grad(lnps) part is
      sec^2 * cos(lat) * [ (zeta+f) k x v + sigma_dot dv/dsigma + R Tv grad lnps ] of the specification
      (dry: q = 0) *)
  Theorem refines_momentum (m : Moist) (Tref T q : nat -> F) (x : NCol) k :
    (k < cK c)%nat -> cR c <> 0 ->
    let ci := with_tref c Tref in
    let xi := with_temp x (fun j => T j - Tref j) in
    effective_pgf_u ci true m xi (rt_moist ci m xi q) q k
    = n_sec2 x * (- n_v x k * (n_vort x k + n_f x)
                  - spec_vadv c (spec_sigma_dot c (gcol x)) (n_u x) k
                  + cR c * (T k * (1 + (mRv m / cR c - 1) * q k)) * n_gx x) /\
    effective_pgf_v ci true m xi (rt_moist ci m xi q) q k
    = n_sec2 x * (n_u x k * (n_vort x k + n_f x)
                  - spec_vadv c (spec_sigma_dot c (gcol x)) (n_v x) k
                  + cR c * (T k * (1 + (mRv m / cR c - 1) * q k)) * n_gy x).
  Proof.
    intros Hk HR ci xi. subst ci xi.
    unfold effective_pgf_u, effective_pgf_v, combined_u, combined_v, tref_pgf_u, tref_pgf_v, rt_moist,
      moisture_contribution. cbv zeta.
    change (sigma_dot_full (with_tref c Tref) (with_temp x (fun j => T j - Tref j))) with (sigma_dot_full c x).
    change (vertical_tendency (with_tref c Tref)) with (vertical_tendency c).
    cbn [with_tref with_temp cR cTref n_temp n_u n_v n_vort n_f n_sec2 n_gx n_gy].
    rewrite !vertical_tendency_is_spec by exact Hk.
    rewrite !(vertical_tendency_spec_ext (sigma_dot_full c x) (spec_sigma_dot c (gcol x)) _ k Hk)
      by (intros; apply refines_sigma_dot; lia).
    split; field; exact HR.
  Qed.

  (** the nodal vector handed to div/curl for ANY pressure-gradient temperature [rt] (R T, R Tv, ...) *)
  Lemma combined_is_spec (x : NCol) (rt : nat -> F) k :
    (k < cK c)%nat ->
    combined_u c true x rt k
    = n_sec2 x * (- n_v x k * (n_vort x k + n_f x) - spec_vadv c (spec_sigma_dot c (gcol x)) (n_u x) k + rt k * n_gx x) /\
    combined_v c true x rt k
    = n_sec2 x * (n_u x k * (n_vort x k + n_f x) - spec_vadv c (spec_sigma_dot c (gcol x)) (n_v x) k + rt k * n_gy x).
  Proof.
    intros Hk. unfold combined_u, combined_v. cbv zeta.
    rewrite !vertical_tendency_is_spec by exact Hk.
    rewrite !(vertical_tendency_spec_ext (sigma_dot_full c x) (spec_sigma_dot c (gcol x)) _ k Hk)
      by (intros; apply refines_sigma_dot; lia).
    split; ring.
  Qed.

  (** kinetic energy and hydrostatic geopotential are the specification's by definition *)
  Theorem refines_kinetic (x : NCol) k :
    kinetic x k = n_sec2 x * (n_u x k * n_u x k + n_v x k * n_v x k) / two.
  Proof. unfold kinetic. rewrite !fdiv_def. ring. Qed.
  Theorem refines_geopotential (phis lnps : F) (Tref T : nat -> F) k :
    (forall j, (j < cK c)%nat -> Tref j = Tref 0%nat) ->
    phis + div_implicit_potential (with_tref c Tref) false (fun j => T j - Tref j) lnps k
    = spec_phi c phis T k - geo_diff_dense (cK c) (cR c) (cls c) Tref k + cR c * Tref k * lnps.
  Proof.
    intros _. unfold div_implicit_potential, spec_phi, geo_diff, geo_diff_dense.
    cbn [with_tref cK cR cls cTref].
    rewrite (sumn_ext (cK c) (fun j => geo_weights (cK c) (cR c) (cls c) k j * (T j - Tref j))
               (fun j => geo_weights (cK c) (cR c) (cls c) k j * T j - geo_weights (cK c) (cR c) (cls c) k j * Tref j))
      by (intros; ring).
    rewrite sumn_sub. ring.
  Qed.
End ColumnRefinement.

(** * 3. The specification over an abstract commutative differential ring [A] of smooth fields *)
Section Ring.
  Context {A : Type} {o : Ops A}.
  Hypothesis Aring : ring_theory (@f0 A o) f1 fadd fmul fsub fopp (@eq A).
  Add Ring ARing : Aring.
  Hypothesis div_def : forall x y : A, x / y = x * finv y.
  Variables dlon dmu : A -> A.
  Variables mu a : A.
  Notation c2 := (cos2 mu).
  Notation s2 := (sec2 mu).
  Notation ia := (finv a).
  Notation itwo := (finv (@two A o)).
  (** the units that are divided by *)
  Hypothesis inv_a : ia * a = 1.
  Hypothesis inv_c2 : finv c2 * c2 = 1.
  Hypothesis inv_two : itwo * two = 1.
  (** two commuting derivations *)
  Hypothesis dlon_add : forall x y, dlon (x + y) = dlon x + dlon y.
  Hypothesis dmu_add : forall x y, dmu (x + y) = dmu x + dmu y.
  Hypothesis dlon_leib : forall x y, dlon (x * y) = dlon x * y + x * dlon y.
  Hypothesis dmu_leib : forall x y, dmu (x * y) = dmu x * y + x * dmu y.
  Hypothesis d_commute : forall x, dlon (dmu x) = dmu (dlon x).
  (** mu = sin(lat):  d mu / dlon = 0,  cos(lat) d mu / dlat = cos^2(lat); the radius is a constant *)
  Hypothesis dlon_mu : dlon mu = 0.
  Hypothesis dmu_mu : dmu mu = c2.
  Hypothesis dlon_a : dlon a = 0.
  Hypothesis dmu_a : dmu a = 0.

  (** constant fields *)
  Definition cst (k : A) : Prop := dlon k = 0 /\ dmu k = 0.

  Lemma cancel_double (x : A) : x = x + x -> x = 0.
  Proof.
    intros H. assert (E : x + x - x = x - x) by (rewrite <- H; reflexivity).
    transitivity (x + x - x); [ring|]. rewrite E. ring.
  Qed.
  Lemma sumn_zero_ring n (f : nat -> A) : (forall i, (i < n)%nat -> f i = 0) -> sumn n f = 0.
  Proof.
    induction n as [|n IH]; intros H; cbn [sumn]; [reflexivity|].
    rewrite IH, H by auto. ring.
  Qed.
  Lemma sumn_ext_ring n (f g : nat -> A) : (forall i, (i < n)%nat -> f i = g i) -> sumn n f = sumn n g.
  Proof.
    induction n as [|n IH]; intros H; cbn [sumn]; [reflexivity|]. rewrite IH, H by auto. reflexivity.
  Qed.
  Lemma sumn_pull n (cf g : nat -> A) (m : A) :
    sumn n (fun j => cf j * (g j * m)) = m * sumn n (fun j => cf j * g j).
  Proof. induction n as [|n IH]; cbn [sumn]; [ring|]. rewrite IH. ring. Qed.
  Lemma half_double (x : A) : itwo * (x + x) = x.
  Proof. transitivity ((itwo * two) * x); [unfold two; ring|]. rewrite inv_two. ring. Qed.

  Section Deriv.
    Variable D : A -> A.
    Hypothesis D_add : forall x y, D (x + y) = D x + D y.
    Hypothesis D_leib : forall x y, D (x * y) = D x * y + x * D y.
    Lemma D_zero : D 0 = 0.
    Proof. apply cancel_double. rewrite <- D_add. f_equal. ring. Qed.
    Lemma D_one : D 1 = 0.
    Proof.
      apply cancel_double. transitivity (D (1 * 1)); [f_equal; ring|]. rewrite D_leib. ring.
    Qed.
    Lemma D_opp x : D (- x) = - D x.
    Proof.
      assert (H : D (x + - x) = D x + D (- x)) by apply D_add.
      replace (x + - x) with (@f0 A o) in H by ring. rewrite D_zero in H.
      transitivity (D x + D (- x) - D x); [ring|]. rewrite <- H. ring.
    Qed.
    Lemma D_sub x y : D (x - y) = D x - D y.
    Proof. replace (x - y) with (x + - y) by ring. rewrite D_add, D_opp. ring. Qed.
    Lemma D_scal k x : D k = 0 -> D (k * x) = k * D x.
    Proof. intros H. rewrite D_leib, H. ring. Qed.
    Lemma D_scal_r k x : D k = 0 -> D (x * k) = D x * k.
    Proof. intros H. rewrite D_leib, H. ring. Qed.
    Lemma D_inv u iu : iu * u = 1 -> D u = 0 -> D iu = 0.
    Proof.
      intros Hu H. pose proof (D_leib iu u) as E. rewrite Hu, D_one, H in E.
      transitivity ((D iu * u + iu * 0) * iu); [|rewrite <- E; ring].
      transitivity (D iu * (iu * u)); [rewrite Hu; ring|ring].
    Qed.
    Lemma D_sumn n (cf fs : nat -> A) :
      (forall j, D (cf j) = 0) -> D (sumn n (fun j => cf j * fs j)) = sumn n (fun j => cf j * D (fs j)).
    Proof.
      intros H. induction n as [|n IH]; cbn [sumn]; [apply D_zero|].
      rewrite D_add, IH, D_scal by apply H. reflexivity.
    Qed.
    Lemma D_cos2 : D c2 = - (two * mu * D mu).
    Proof. unfold cos2. rewrite D_sub, D_one, D_leib. unfold two. ring. Qed.
  End Deriv.

  Lemma s2c2 : s2 * c2 = 1.
  Proof. unfold sec2. rewrite div_def. transitivity (finv c2 * c2); [ring|exact inv_c2]. Qed.
  Lemma D_sec2 (D : A -> A) :
    (forall x y, D (x + y) = D x + D y) -> (forall x y, D (x * y) = D x * y + x * D y) ->
    D s2 = - (s2 * s2 * D c2).
  Proof.
    intros Da Dl. pose proof (Dl s2 c2) as E. rewrite s2c2, (D_one D Dl) in E.
    assert (H1 : D s2 * c2 = - (s2 * D c2)).
    { transitivity ((D s2 * c2 + s2 * D c2) - s2 * D c2); [ring|]. rewrite <- E. ring. }
    transitivity (D s2 * c2 * s2).
    { transitivity (D s2 * (s2 * c2)); [rewrite s2c2; ring | ring]. }
    rewrite H1. ring.
  Qed.
  Lemma dlon_c2 : dlon c2 = 0.
  Proof. rewrite (D_cos2 dlon dlon_add dlon_leib), dlon_mu. ring. Qed.
  Lemma dmu_c2 : dmu c2 = - (two * mu * c2).
  Proof. now rewrite (D_cos2 dmu dmu_add dmu_leib), dmu_mu. Qed.
  Lemma dlon_s2 : dlon s2 = 0.
  Proof. rewrite (D_sec2 dlon dlon_add dlon_leib), dlon_c2. ring. Qed.
  Lemma dmu_s2 : dmu s2 = two * mu * s2.
  Proof.
    rewrite (D_sec2 dmu dmu_add dmu_leib), dmu_c2.
    transitivity (two * mu * s2 * (s2 * c2)); [ring|]. rewrite s2c2. ring.
  Qed.
  Lemma dlon_ia : dlon ia = 0. Proof. exact (D_inv dlon dlon_leib a ia inv_a dlon_a). Qed.
  Lemma dmu_ia : dmu ia = 0. Proof. exact (D_inv dmu dmu_leib a ia inv_a dmu_a). Qed.
  Lemma dlon_div_a x : dlon (x / a) = dlon x / a.
  Proof. rewrite !div_def, dlon_leib, dlon_ia. ring. Qed.
  Lemma dmu_div_a x : dmu (x / a) = dmu x / a.
  Proof. rewrite !div_def, dmu_leib, dmu_ia. ring. Qed.

  (** closure of the constants *)
  Lemma cst_0 : cst 0. Proof. split; [apply (D_zero dlon dlon_add)|apply (D_zero dmu dmu_add)]. Qed.
  Lemma cst_1 : cst 1. Proof. split; [apply (D_one dlon dlon_leib)|apply (D_one dmu dmu_leib)]. Qed.
  Lemma cst_add x y : cst x -> cst y -> cst (x + y).
  Proof. intros [H1 H2] [H3 H4]. split; [rewrite dlon_add, H1, H3|rewrite dmu_add, H2, H4]; ring. Qed.
  Lemma cst_opp x : cst x -> cst (- x).
  Proof. intros [H1 H2]. split; [rewrite (D_opp dlon dlon_add), H1|rewrite (D_opp dmu dmu_add), H2]; ring. Qed.
  Lemma cst_sub x y : cst x -> cst y -> cst (x - y).
  Proof. intros [H1 H2] [H3 H4]. split; [rewrite (D_sub dlon dlon_add), H1, H3|rewrite (D_sub dmu dmu_add), H2, H4]; ring. Qed.
  Lemma cst_mul x y : cst x -> cst y -> cst (x * y).
  Proof. intros [H1 H2] [H3 H4]. split; [rewrite dlon_leib, H1, H3|rewrite dmu_leib, H2, H4]; ring. Qed.
  Lemma cst_two : cst two. Proof. unfold two. apply cst_add; apply cst_1. Qed.
  Lemma cst_itwo : cst itwo.
  Proof.
    destruct cst_two as [H1 H2].
    split; [exact (D_inv dlon dlon_leib two itwo inv_two H1)|exact (D_inv dmu dmu_leib two itwo inv_two H2)].
  Qed.
  Lemma cst_half x : cst x -> cst (x / two).
  Proof. intros H. rewrite div_def. apply cst_mul; [exact H|apply cst_itwo]. Qed.
  Lemma cst_a : cst a. Proof. split; assumption. Qed.
  Lemma cst_sumn n (f : nat -> A) : (forall j, cst (f j)) -> cst (sumn n f).
  Proof. intros H. induction n as [|n IH]; cbn [sumn]; [apply cst_0|apply cst_add; auto]. Qed.
  Lemma cst_geo_weights K R (ls : nat -> A) j k :
    cst R -> (forall i, cst (ls i)) -> cst (geo_weights K R ls j k).
  Proof.
    intros HR Hl. assert (Ha : forall i, cst (alpha K ls i)).
    { intros i. unfold alpha. destruct (Nat.ltb (S i) K); [apply cst_half, cst_sub; apply Hl|apply cst_opp, Hl]. }
    unfold geo_weights. apply cst_mul; [exact HR|].
    destruct (Nat.eqb j k); [apply Ha|]. destruct (Nat.ltb j k); [apply cst_add; apply Ha|apply cst_0].
  Qed.

  (** ** the divergence of the velocity built from (psi, chi) is lap(chi), its curl lap(psi) *)
  Theorem div_of_velocity (psi chi : A) :
    sdiv dlon dmu mu a (vel_u dlon dmu a psi chi) (vel_v dlon dmu a psi chi) = slap dlon dmu mu a chi.
  Proof.
    unfold slap, sdiv, vel_u, vel_v, grad_x, grad_y.
    rewrite (D_sub dlon dlon_add), dmu_add, !dlon_div_a, !dmu_div_a, d_commute. rewrite !div_def. ring.
  Qed.
  Theorem curl_of_velocity (psi chi : A) :
    scurl dlon dmu mu a (vel_u dlon dmu a psi chi) (vel_v dlon dmu a psi chi) = slap dlon dmu mu a psi.
  Proof.
    unfold slap, scurl, sdiv, vel_u, vel_v, grad_x, grad_y.
    rewrite dlon_add, (D_sub dmu dmu_add), !dlon_div_a, !dmu_div_a, d_commute. rewrite !div_def. ring.
  Qed.

  (** ** horizontal advection: the code's flux form  X div(v) - div(v X)  is  - v . grad X *)
  Theorem flux_form_is_advective_form (Uc Vc X : A) :
    X * sdiv dlon dmu mu a Uc Vc - sdiv dlon dmu mu a (Uc * X) (Vc * X)
    = - (s2 * (Uc * dlon X + Vc * dmu X) / a).
  Proof. unfold sdiv. rewrite dlon_leib, dmu_leib, !div_def. ring. Qed.

  (** the operators as the code applies them: div_cos_lat / curl_cos_lat act on the sec^2-scaled
      components (M sec^2, N sec^2) through d/dlon and sec(lat) d/dlat(cos^2 . ) *)
  Definition div_cos_lat_pt (X Y : A) : A := (dlon X + s2 * dmu (c2 * Y)) / a.
  Definition curl_cos_lat_pt (X Y : A) : A := (dlon Y - s2 * dmu (c2 * X)) / a.
  Lemma c2_s2_cancel (N : A) : c2 * (N * s2) = N.
  Proof. transitivity (N * (s2 * c2)); [ring|rewrite s2c2; ring]. Qed.
  Theorem div_cos_lat_is_sdiv (M N : A) :
    div_cos_lat_pt (M * s2) (N * s2) = sdiv dlon dmu mu a M N.
  Proof. unfold div_cos_lat_pt, sdiv. rewrite c2_s2_cancel, dlon_leib, dlon_s2, !div_def. ring. Qed.
  Theorem curl_cos_lat_is_scurl (M N : A) :
    curl_cos_lat_pt (M * s2) (N * s2) = scurl dlon dmu mu a M N.
  Proof. unfold curl_cos_lat_pt, scurl. rewrite c2_s2_cancel, dlon_leib, dlon_s2, !div_def. ring. Qed.

  Theorem laplacian_of_constant k : cst k -> slap dlon dmu mu a k = 0.
  Proof.
    intros [H1 H2]. unfold slap, sdiv, grad_x, grad_y. rewrite H1, H2, !div_def.
    replace (0 * ia) with (@f0 A o) by ring. rewrite (D_zero dlon dlon_add), (D_zero dmu dmu_add). ring.
  Qed.
  Lemma slap_add (f g : A) : slap dlon dmu mu a (f + g) = slap dlon dmu mu a f + slap dlon dmu mu a g.
  Proof.
    unfold slap, sdiv, grad_x, grad_y.
    rewrite dlon_add, dmu_add, !div_def.
    replace ((dlon f + dlon g) * ia) with (dlon f * ia + dlon g * ia) by ring.
    replace ((dmu f + dmu g) * ia) with (dmu f * ia + dmu g * ia) by ring.
    rewrite dlon_add, dmu_add. ring.
  Qed.

  (** ** zonal fields: functions of mu with a known derivative *)
  Definition zon (f : A) : Prop := dlon f = 0.
  (** [zd f f'] : f is zonal and cos(lat) d f/dlat = cos^2 * f'  (f' = df/dmu) *)
  Definition zd (f f' : A) : Prop := zon f /\ dmu f = c2 * f'.

  Lemma zon_cst k : cst k -> zon k. Proof. intros [H _]. exact H. Qed.
  Lemma zon_0 : zon 0. Proof. apply zon_cst, cst_0. Qed.
  Lemma zon_mu : zon mu. Proof. exact dlon_mu. Qed.
  Lemma zon_add f g : zon f -> zon g -> zon (f + g).
  Proof. unfold zon. intros Hf Hg. rewrite dlon_add, Hf, Hg. ring. Qed.
  Lemma zon_sub f g : zon f -> zon g -> zon (f - g).
  Proof. unfold zon. intros Hf Hg. rewrite (D_sub dlon dlon_add), Hf, Hg. ring. Qed.
  Lemma zon_opp f : zon f -> zon (- f).
  Proof. unfold zon. intros Hf. rewrite (D_opp dlon dlon_add), Hf. ring. Qed.
  Lemma zon_mul f g : zon f -> zon g -> zon (f * g).
  Proof. unfold zon. intros Hf Hg. rewrite dlon_leib, Hf, Hg. ring. Qed.
  Lemma zon_dmu f : zon f -> zon (dmu f).
  Proof. unfold zon. intros Hf. rewrite d_commute, Hf. apply (D_zero dmu dmu_add). Qed.
  Lemma zon_c2 : zon c2. Proof. exact dlon_c2. Qed.
  Lemma zon_s2 : zon s2. Proof. exact dlon_s2. Qed.
  Lemma zon_ia : zon ia. Proof. exact dlon_ia. Qed.
  Lemma zon_two : zon two. Proof. apply zon_cst, cst_two. Qed.
  (** the mu-derivative of a zonal field is zonal *)
  Lemma zd_zon' f f' : zd f f' -> zon f'.
  Proof.
    intros [Hz Hd]. pose proof (zon_dmu f Hz) as E. unfold zon in *. rewrite Hd, dlon_leib, dlon_c2 in E.
    transitivity ((s2 * c2) * dlon f'); [rewrite s2c2; ring|].
    transitivity (s2 * (0 * f' + c2 * dlon f')); [ring|]. rewrite E. ring.
  Qed.

  Lemma zd_cst k : cst k -> zd k 0.
  Proof. intros [H1 H2]. split; [exact H1|]. rewrite H2. ring. Qed.
  Lemma zd_mu : zd mu 1.
  Proof. split; [apply zon_mu|]. rewrite dmu_mu. ring. Qed.
  Lemma zd_c2 : zd c2 (- (two * mu)).
  Proof. split; [apply zon_c2|]. rewrite dmu_c2. ring. Qed.
  Lemma zd_add f g f' g' : zd f f' -> zd g g' -> zd (f + g) (f' + g').
  Proof. intros [Hf Hf'] [Hg Hg']. split; [now apply zon_add|]. rewrite dmu_add, Hf', Hg'. ring. Qed.
  Lemma zd_mul f g f' g' : zd f f' -> zd g g' -> zd (f * g) (f' * g + f * g').
  Proof. intros [Hf Hf'] [Hg Hg']. split; [now apply zon_mul|]. rewrite dmu_leib, Hf', Hg'. ring. Qed.
  Lemma zd_scal k f f' : cst k -> zd f f' -> zd (k * f) (k * f').
  Proof.
    intros [H1 H2] [Hf Hf']. split; [apply zon_mul; [exact H1|exact Hf]|].
    rewrite (D_scal dmu dmu_leib) by exact H2. rewrite Hf'. ring.
  Qed.
  Lemma zd_eq f f' g' : f' = g' -> zd f f' -> zd f g'.
  Proof. intros <-. auto. Qed.
  Lemma zd_sumn n (cf fs fs' : nat -> A) :
    (forall j, cst (cf j)) -> (forall j, zd (fs j) (fs' j)) ->
    zd (sumn n (fun j => cf j * fs j)) (sumn n (fun j => cf j * fs' j)).
  Proof.
    intros Hc H. induction n as [|n IH]; cbn [sumn]; [apply zd_cst, cst_0|].
    apply zd_add; [exact IH|]. apply zd_scal; auto.
  Qed.

  (** polynomials in mu with constant coefficients *)
  Theorem zonal_polynomial_derivative (cs : list A) :
    Forall cst cs -> zd (peval cs mu) (pdiff cs mu).
  Proof.
    induction 1 as [|c0 r Hc Hr IH]; cbn [peval pdiff]; [apply zd_cst, cst_0|].
    apply (zd_eq _ (0 + (1 * peval r mu + mu * pdiff r mu))); [ring|].
    apply zd_add; [now apply zd_cst|]. apply zd_mul; [apply zd_mu|exact IH].
  Qed.

  (** operators on zonal fields *)
  Lemma sdiv_zonal (X Y : A) : zon X -> Y = 0 -> sdiv dlon dmu mu a X Y = 0.
  Proof. unfold zon. intros HX ->. unfold sdiv. rewrite HX, (D_zero dmu dmu_add), div_def. ring. Qed.
  Lemma scurl_zonal (X Y : A) : Y = 0 -> scurl dlon dmu mu a X Y = - (s2 * dmu X * ia).
  Proof. intros ->. unfold scurl. rewrite (D_zero dlon dlon_add), div_def. ring. Qed.
  Lemma sdiv_zonal_v (X Y : A) : zon X -> sdiv dlon dmu mu a X Y = s2 * dmu Y * ia.
  Proof. unfold zon. intros HX. unfold sdiv. rewrite HX, div_def. ring. Qed.
  Lemma slap_zd (E E' : A) : zd E E' -> slap dlon dmu mu a E = s2 * dmu (c2 * E') * ia * ia.
  Proof.
    intros [Hz Hd]. unfold zon in Hz. unfold slap, sdiv, grad_x, grad_y.
    rewrite dlon_div_a, dmu_div_a, Hz, Hd, (D_zero dlon dlon_add), !div_def. ring.
  Qed.

  (** zonal flow u = cos(lat) * w(mu): psi' = - a w, no divergent part *)
  Section ZonalFlow.
    Variables psi chi wf wf' : A.
    Hypothesis Hchi : chi = 0.
    Hypothesis Hw : zd wf wf'.
    Hypothesis Hpsi : zd psi (- (a * wf)).
    Lemma zonal_vel_u : vel_u dlon dmu a psi chi = c2 * wf.
    Proof.
      unfold vel_u, grad_x, grad_y. destruct Hpsi as [_ Hd].
      rewrite Hchi, (D_zero dlon dlon_add), Hd, !div_def.
      transitivity (c2 * wf * (ia * a)); [ring|]. rewrite inv_a. ring.
    Qed.
    Lemma zonal_vel_v : vel_v dlon dmu a psi chi = 0.
    Proof.
      unfold vel_v, grad_x, grad_y. destruct Hpsi as [Hz _]. unfold zon in Hz.
      rewrite Hchi, (D_zero dmu dmu_add), Hz, !div_def. ring.
    Qed.
    (** relative vorticity  - d(u cos)/(a dmu) *)
    Definition zvort : A := (two * mu * wf - c2 * wf') * ia.
    Lemma zonal_vorticity : slap dlon dmu mu a psi = zvort.
    Proof.
      rewrite (slap_zd psi _ Hpsi). destruct Hw as [_ Hd'].
      replace (c2 * - (a * wf)) with ((- a) * (c2 * wf)) by ring.
      rewrite (D_scal dmu dmu_leib) by (rewrite (D_opp dmu dmu_add), dmu_a; ring).
      rewrite dmu_leib, dmu_c2, Hd'. unfold zvort.
      transitivity ((s2 * c2) * (ia * a) * ((two * mu * wf - c2 * wf') * ia)); [ring|].
      rewrite s2c2, inv_a. ring.
    Qed.
    Lemma zonal_divergence : slap dlon dmu mu a chi = 0.
    Proof. rewrite Hchi. apply laplacian_of_constant, cst_0. Qed.
    Lemma zon_zvort : zon zvort.
    Proof.
      destruct Hw as [Hz _]. unfold zvort. apply zon_mul; [|apply zon_ia]. apply zon_sub.
      - apply zon_mul; [apply zon_mul; [apply zon_two|apply zon_mu]|exact Hz].
      - apply zon_mul; [apply zon_c2|apply (zd_zon' wf wf' Hw)].
    Qed.
    (** kinetic energy (u^2)/2 = cos^2 w^2 / 2 and its mu-derivative *)
    Lemma zonal_kin_val : kin mu (vel_u dlon dmu a psi chi) (vel_v dlon dmu a psi chi) = itwo * (c2 * (wf * wf)).
    Proof.
      unfold kin. rewrite zonal_vel_u, zonal_vel_v, div_def.
      transitivity ((s2 * c2) * (itwo * (c2 * (wf * wf)))); [ring|]. rewrite s2c2. ring.
    Qed.
    Lemma zonal_kin :
      zd (kin mu (vel_u dlon dmu a psi chi) (vel_v dlon dmu a psi chi)) (- (mu * wf * wf) + c2 * wf * wf').
    Proof.
      rewrite zonal_kin_val.
      apply (zd_eq _ (itwo * ((- (two * mu)) * (wf * wf) + c2 * (wf' * wf + wf * wf')))).
      - transitivity (itwo * ((- (mu * wf * wf) + c2 * wf * wf') + (- (mu * wf * wf) + c2 * wf * wf')));
          [unfold two; ring|apply half_double].
      - apply zd_scal; [apply cst_itwo|]. apply zd_mul; [apply zd_c2|]. now apply zd_mul.
    Qed.
  End ZonalFlow.

  (** ** layered shallow water: geostrophically balanced zonal jets are steady *)
  Section SWZonal.
    Variable Kl : nat.
    Variable Rm : nat -> nat -> A.
    Variable ref : nat -> A.
    Variable Omega : A.
    Variable oro : A.
    Variable st : @SWState A.
    Variables wf wf' pr' : nat -> A.
    Hypothesis HOm : zon Omega.
    Hypothesis Href : forall i, zon (ref i).
    Hypothesis Hchi : forall i, w_chi st i = 0.
    Hypothesis Hw : forall i, zd (wf i) (wf' i).
    Hypothesis Hpsi : forall i, zd (w_psi st i) (- (a * wf i)).
    Hypothesis Hpot : forall i, zon (w_pot st i).
    (** the pressure sum_j R_ij Phi_j + Phi_s of layer i is zonal with mu-derivative pr' i ... *)
    Hypothesis Hpr : forall i, zd (wpress Kl Rm oro st i) (pr' i).
    (** ... and in geostrophic (gradient-wind) balance with the jet:
        d(pressure)/dmu = - mu w (w + 2 a Omega),  i.e.  (1/a) dPhi/dlat = -(u^2 tan(lat)/a + f u) *)
    Hypothesis Hbal : forall i, pr' i = - (mu * wf i * (wf i + two * a * Omega)).

    Lemma sw_abs_val i : wabs dlon dmu mu a Omega st i = zvort (wf i) (wf' i) + two * Omega * mu.
    Proof. unfold wabs, wzeta. now rewrite (zonal_vorticity _ _ _ (Hw i) (Hpsi i)). Qed.
    Lemma sw_abs_zon i : zon (wabs dlon dmu mu a Omega st i).
    Proof.
      rewrite sw_abs_val. apply zon_add; [apply (zon_zvort _ _ (Hw i))|].
      apply zon_mul; [apply zon_mul; [apply zon_two|exact HOm]|apply zon_mu].
    Qed.
    Lemma sw_U i : wU dlon dmu a st i = c2 * wf i.
    Proof. unfold wU. apply (zonal_vel_u _ _ _ (Hchi i) (Hpsi i)). Qed.
    Lemma sw_V i : wV dlon dmu a st i = 0.
    Proof. unfold wV. apply (zonal_vel_v _ _ _ (Hchi i) (Hpsi i)). Qed.
    Lemma sw_U_zon i : zon (wU dlon dmu a st i).
    Proof. rewrite sw_U. apply zon_mul; [apply zon_c2|apply (Hw i)]. Qed.

    Theorem sw_zonal_vorticity_steady i : sw_vort_tend dlon dmu mu a Omega st i = 0.
    Proof.
      unfold sw_vort_tend. rewrite sdiv_zonal; [ring| |].
      - unfold wflux_u. apply zon_mul; [apply sw_U_zon|apply sw_abs_zon].
      - unfold wflux_v. rewrite sw_V. ring.
    Qed.

    Theorem sw_zonal_potential_steady i : sw_pot_tend dlon dmu mu a ref st i = 0.
    Proof.
      unfold sw_pot_tend. rewrite sdiv_zonal; [ring| |].
      - apply zon_mul; [apply sw_U_zon|]. apply zon_add; [apply Href|apply Hpot].
      - rewrite sw_V. ring.
    Qed.

    Theorem sw_zonal_divergence_steady i : sw_div_tend dlon dmu mu a Kl Rm Omega oro st i = 0.
    Proof.
      unfold sw_div_tend.
      rewrite scurl_zonal by (unfold wflux_v; rewrite sw_V; ring).
      pose proof (zd_add _ _ _ _ (Hpr i) (zonal_kin _ _ _ _ (Hchi i) (Hw i) (Hpsi i))) as HE.
      unfold wU, wV. rewrite (slap_zd _ _ HE).
      (* the balance *)
      assert (B : wflux_u dlon dmu mu a Omega st i
                  = (- ia) * (c2 * (pr' i + (- (mu * wf i * wf i) + c2 * wf i * wf' i)))).
      { unfold wflux_u. rewrite sw_U, sw_abs_val, Hbal. unfold zvort.
        transitivity (c2 * wf i * ((two * mu * wf i - c2 * wf' i) * ia) + (ia * a) * (c2 * wf i * (two * Omega * mu)));
          [rewrite inv_a; ring|unfold two; ring]. }
      rewrite B, (D_scal dmu dmu_leib) by (rewrite (D_opp dmu dmu_add), dmu_ia; ring). ring.
    Qed.
  End SWZonal.

  (** ** primitive equations: zonal flow in gradient-wind balance is steady *)
  Section PEZonal.
    Variable c : @PEcfg A.
    Variables Omega grav Rv Cpv : A.
    Variable oro : A.
    Variable st : @PEState A.
    Variables wf wf' ph' : nat -> A.
    Variable lam' : A.
    Hypothesis HOm : zon Omega.
    Hypothesis HR : zon (cR c).
    Hypothesis Heps : zon (Rv / cR c).
    Hypothesis Hchi : forall k, st_chi st k = 0.
    Hypothesis Hw : forall k, zd (wf k) (wf' k).
    Hypothesis Hpsi : forall k, zd (st_psi st k) (- (a * wf k)).
    Hypothesis HT : forall k, zon (st_T st k).
    Hypothesis Hq : forall k, zon (st_q st k).
    Hypothesis Hlnps : zd (st_lnps st) lam'.
    (** the hydrostatic geopotential of level k is zonal with mu-derivative ph' k ... *)
    Hypothesis Hphi : forall k, zd (phi c grav Rv oro st k) (ph' k).
    (** ... and the flow is in gradient-wind balance on every level:
        dPhi/dmu + R Tv d(ln ps)/dmu = - mu w (w + 2 a Omega) *)
    Hypothesis Hbal : forall k,
        ph' k + cR c * Tv c Rv st k * lam' = - (mu * wf k * (wf k + two * a * Omega)).

    Lemma pe_gx0 : gx dlon a st = 0.
    Proof. unfold gx, grad_x. destruct Hlnps as [Hz _]. unfold zon in Hz. rewrite Hz, div_def. ring. Qed.
    Lemma pe_gy : gy dmu a st = c2 * lam' * ia.
    Proof. unfold gy, grad_y. destruct Hlnps as [_ Hd]. now rewrite Hd, div_def. Qed.
    Lemma pe_U k : U dlon dmu a st k = c2 * wf k.
    Proof. unfold U. apply (zonal_vel_u _ _ _ (Hchi k) (Hpsi k)). Qed.
    Lemma pe_V k : V dlon dmu a st k = 0.
    Proof. unfold V. apply (zonal_vel_v _ _ _ (Hchi k) (Hpsi k)). Qed.
    Lemma pe_gfull0 k : gfull dlon dmu mu a st k = 0.
    Proof. unfold gfull, delta, ugrad. rewrite (zonal_divergence _ (Hchi k)), pe_gx0, pe_V. ring. Qed.
    Lemma pe_sdot0 r : sdot dlon dmu mu a c st r = 0.
    Proof.
      unfold sdot, spec_sigma_dot, spec_cum.
      rewrite !sumn_zero_ring by (intros; rewrite pe_gfull0; ring). ring.
    Qed.
    Lemma spec_vadv_zero_w (w x : nat -> A) n : (forall k, w k = 0) -> spec_vadv c w x n = 0.
    Proof.
      intros H. unfold spec_vadv. rewrite !H, div_def.
      destruct (Nat.ltb (S n) (cK c)), (Nat.eqb n 0); ring.
    Qed.

    Theorem pe_zonal_lnps_steady : spec_lnps_tend dlon dmu mu a c st = 0.
    Proof. unfold spec_lnps_tend. rewrite sumn_zero_ring; [ring|]. intros k _. rewrite pe_gfull0. ring. Qed.

    Theorem pe_zonal_temperature_steady k : spec_temp_tend dlon dmu mu a c Rv Cpv st k = 0.
    Proof.
      unfold spec_temp_tend.
      rewrite spec_vadv_zero_w by (intros; apply pe_sdot0).
      rewrite (HT k), pe_V.
      unfold spec_omega_p, spec_cum. rewrite !sumn_zero_ring by (intros; rewrite pe_gfull0; ring).
      unfold ugrad. rewrite pe_gx0, pe_V, !div_def. destruct (Nat.eqb k 0); ring.
    Qed.

    Theorem pe_zonal_tracer_steady (X : nat -> A) k :
      zon (X k) -> spec_tracer_tend dlon dmu mu a c st X k = 0.
    Proof.
      intros HX. unfold spec_tracer_tend.
      rewrite spec_vadv_zero_w by (intros; apply pe_sdot0).
      rewrite HX, pe_V, !div_def. ring.
    Qed.

    Lemma pe_mom_u0 k : mom_u dlon dmu mu a c Omega Rv st k = 0.
    Proof.
      unfold mom_u. rewrite spec_vadv_zero_w by (intros; apply pe_sdot0). rewrite pe_V, pe_gx0. ring.
    Qed.
    Lemma pe_Tv_zon k : zon (Tv c Rv st k).
    Proof.
      unfold Tv. apply zon_mul; [apply HT|]. apply zon_add; [apply zon_cst, cst_1|].
      apply zon_mul; [|apply Hq]. apply zon_sub; [exact Heps|apply zon_cst, cst_1].
    Qed.
    Lemma pe_mom_v k :
      mom_v dlon dmu mu a c Omega Rv st k
      = c2 * (wf k * (zvort (wf k) (wf' k) + two * Omega * mu) + cR c * Tv c Rv st k * lam' * ia).
    Proof.
      unfold mom_v. rewrite spec_vadv_zero_w by (intros; apply pe_sdot0).
      unfold zeta, fcor. rewrite pe_U, pe_gy, (zonal_vorticity _ _ _ (Hw k) (Hpsi k)). ring.
    Qed.

    Theorem pe_zonal_vorticity_steady k : spec_vort_tend dlon dmu mu a c Omega Rv st k = 0.
    Proof.
      unfold spec_vort_tend, scurl. rewrite pe_mom_u0, (D_zero dmu dmu_add), pe_mom_v.
      assert (Z : zon (c2 * (wf k * (zvort (wf k) (wf' k) + two * Omega * mu) + cR c * Tv c Rv st k * lam' * ia))).
      { apply zon_mul; [apply zon_c2|]. apply zon_add.
        - apply zon_mul; [apply (Hw k)|]. apply zon_add; [apply (zon_zvort _ _ (Hw k))|].
          apply zon_mul; [apply zon_mul; [apply zon_two|exact HOm]|apply zon_mu].
        - apply zon_mul; [|apply zon_ia]. apply zon_mul; [apply zon_mul; [exact HR|apply pe_Tv_zon]|].
          apply (zd_zon' _ _ Hlnps). }
      unfold zon in Z. rewrite Z, !div_def. ring.
    Qed.

    Theorem pe_zonal_divergence_steady k : spec_div_tend dlon dmu mu a c Omega grav Rv oro st k = 0.
    Proof.
      unfold spec_div_tend.
      rewrite sdiv_zonal_v by (unfold zon; rewrite pe_mom_u0; apply (D_zero dlon dlon_add)).
      pose proof (zd_add _ _ _ _ (zonal_kin _ _ _ _ (Hchi k) (Hw k) (Hpsi k)) (Hphi k)) as HE.
      unfold energy, U, V. rewrite (slap_zd _ _ HE).
      assert (B : mom_v dlon dmu mu a c Omega Rv st k
                  = (- ia) * (c2 * ((- (mu * wf k * wf k) + c2 * wf k * wf' k) + ph' k))).
      { rewrite pe_mom_v. unfold zvort.
        assert (E : ph' k = - (mu * wf k * (wf k + two * a * Omega)) - cR c * Tv c Rv st k * lam')
          by (rewrite <- (Hbal k); ring).
        rewrite E.
        transitivity (c2 * (wf k * ((two * mu * wf k - c2 * wf' k) * ia) + (ia * a) * (wf k * (two * Omega * mu))
                            + cR c * Tv c Rv st k * lam' * ia));
          [rewrite inv_a; ring|unfold two; ring]. }
      rewrite B, (D_scal dmu dmu_leib) by (rewrite (D_opp dmu dmu_add), dmu_ia; ring). ring.
    Qed.
  End PEZonal.

  (** ** concrete balanced families *)
  Lemma zd_mumu : zd (mu * mu) (two * mu).
  Proof. apply (zd_eq _ (1 * mu + mu * 1)); [unfold two; ring|]. apply zd_mul; apply zd_mu. Qed.

  (** arbitrary polynomial jets u_i = cos(lat) * w_i(mu), polynomial potentials and zonal orography,
      any number of layers, any (constant) density matrix, any rotation rate and radius *)
  Theorem sw_polynomial_jet_steady (Kl : nat) (Rm : nat -> nat -> A) (ref : nat -> A) (Omega : A)
          (ws Ps Phs : nat -> list A) (Os : list A) :
    zon Omega -> (forall i, zon (ref i)) -> (forall i j, cst (Rm i j)) ->
    (forall i, Forall cst (ws i)) -> (forall i, Forall cst (Ps i)) -> (forall i, Forall cst (Phs i)) -> Forall cst Os ->
    (forall i x, pdiff (Ps i) x = - (a * peval (ws i) x)) ->
    (forall i x, sumn Kl (fun j => Rm i j * pdiff (Phs j) x) + pdiff Os x
                 = - (x * peval (ws i) x * (peval (ws i) x + two * a * Omega))) ->
    let st := mkSWS (fun i => peval (Ps i) mu) (fun _ => 0) (fun i => peval (Phs i) mu) in
    let oro := peval Os mu in
    forall i,
      sw_vort_tend dlon dmu mu a Omega st i = 0 /\
      sw_div_tend dlon dmu mu a Kl Rm Omega oro st i = 0 /\
      sw_pot_tend dlon dmu mu a ref st i = 0.
  Proof.
    intros HOm Href HRm Hws HPs HPhs HOs HP HB st oro i.
    set (wf := fun i => peval (ws i) mu). set (wf' := fun i => pdiff (ws i) mu).
    set (pr' := fun i => sumn Kl (fun j => Rm i j * pdiff (Phs j) mu) + pdiff Os mu).
    assert (Hchi : forall i, w_chi st i = 0) by reflexivity.
    assert (Hw : forall i, zd (wf i) (wf' i)) by (intros; apply zonal_polynomial_derivative, Hws).
    assert (Hpsi : forall i, zd (w_psi st i) (- (a * wf i))).
    { intros k. apply (zd_eq _ (pdiff (Ps k) mu)); [apply HP|]. apply zonal_polynomial_derivative, HPs. }
    assert (Hpot : forall i, zon (w_pot st i)) by (intros k; apply (zonal_polynomial_derivative (Phs k)), HPhs).
    assert (Hpr : forall i, zd (wpress Kl Rm oro st i) (pr' i)).
    { intros k. unfold wpress, pr'. apply zd_add; [|apply zonal_polynomial_derivative, HOs].
      apply zd_sumn; [apply HRm|]. intros j. apply zonal_polynomial_derivative, HPhs. }
    assert (Hbal : forall i, pr' i = - (mu * wf i * (wf i + two * a * Omega))) by (intros k; apply HB).
    split; [|split].
    - apply (sw_zonal_vorticity_steady Omega st wf wf' HOm Hchi Hw Hpsi).
    - apply (sw_zonal_divergence_steady Kl Rm Omega oro st wf wf' pr' Hchi Hw Hpsi Hpr Hbal).
    - apply (sw_zonal_potential_steady ref st wf wf' Href Hchi Hw Hpsi Hpot).
  Qed.

  (** one layer, solid-body rotation u = U0 cos(lat): the balanced height is
      Phi = c0 - (U0^2/2 + a Omega U0) sin^2(lat) *)
  Theorem sw_solid_body_one_layer (ref : nat -> A) (Omega U0 c0 : A) :
    cst Omega -> cst U0 -> cst c0 -> (forall i, zon (ref i)) ->
    let st := mkSWS (fun _ => - (a * U0) * mu) (fun _ => 0)
                    (fun _ => c0 - (U0 * U0 / two + a * Omega * U0) * (mu * mu)) in
    sw_vort_tend dlon dmu mu a Omega st 0%nat = 0 /\
    sw_div_tend dlon dmu mu a 1 (fun _ _ => 1) Omega 0 st 0%nat = 0 /\
    sw_pot_tend dlon dmu mu a ref st 0%nat = 0.
  Proof.
    intros HOm HU Hc Href st.
    set (wf := fun (_ : nat) => U0). set (wf' := fun (_ : nat) => (@f0 A o)).
    set (pr' := fun (_ : nat) => - (mu * U0 * (U0 + two * a * Omega))).
    set (Kc := U0 * U0 / two + a * Omega * U0).
    assert (HK : cst Kc).
    { unfold Kc. apply cst_add; [apply cst_half, cst_mul; exact HU|]. apply cst_mul; [apply cst_mul; [apply cst_a|exact HOm]|exact HU]. }
    assert (Hchi : forall i, w_chi st i = 0) by reflexivity.
    assert (Hw : forall i, zd (wf i) (wf' i)) by (intros j; exact (zd_cst U0 HU)).
    assert (Hpsi : forall i, zd (w_psi st i) (- (a * wf i))).
    { intros k. apply (zd_eq _ ((- (a * U0)) * 1)); [unfold wf; ring|].
      apply zd_scal; [apply cst_opp, cst_mul; [apply cst_a|exact HU]|apply zd_mu]. }
    assert (Hpot : forall i, zon (w_pot st i)).
    { intros k. apply zon_sub; [apply zon_cst, Hc|]. apply zon_mul; [apply zon_cst, HK|apply zd_mumu]. }
    assert (Hpr : forall i, zd (wpress 1 (fun _ _ => 1) 0 st i) (pr' i)).
    { intros k.
      assert (Z : zd (c0 + (- Kc) * (mu * mu)) (0 + (- Kc) * (two * mu))).
      { apply zd_add; [now apply zd_cst|]. apply zd_scal; [now apply cst_opp|apply zd_mumu]. }
      assert (E1 : wpress 1 (fun _ _ => 1) 0 st k = c0 + (- Kc) * (mu * mu)).
      { unfold wpress. cbn [sumn w_pot st]. fold Kc. ring. }
      rewrite E1. apply (zd_eq _ (0 + - Kc * (two * mu))); [|exact Z].
      unfold pr', Kc. rewrite div_def.
      transitivity (- (U0 * U0 * mu) * (itwo * two) - a * Omega * U0 * (two * mu)); [ring|rewrite inv_two; ring]. }
    assert (Hbal : forall i, pr' i = - (mu * wf i * (wf i + two * a * Omega))) by reflexivity.
    split; [|split].
    - apply (sw_zonal_vorticity_steady Omega st wf wf' (zon_cst _ HOm) Hchi Hw Hpsi).
    - apply (sw_zonal_divergence_steady 1 (fun _ _ => 1) Omega 0 st wf wf' pr' Hchi Hw Hpsi Hpr Hbal).
    - apply (sw_zonal_potential_steady ref st wf wf' Href Hchi Hw Hpsi Hpot).
  Qed.

  (** shallow_water_states.one_layer: vorticity = -E(w), Phi + u^2/2 = -lap^{-1} E(w (vorticity + sin lat)),
      with E(X) = sec(lat) d/dlat(cos^2 X) applied without the 1/radius factors and f = sin(lat):
      balanced exactly when radius = 1 and 2 Omega = 1 *)
  Definition Eop (X : A) : A := s2 * dmu (c2 * X).
  Theorem one_layer_formulas_balanced (Omega k0 psi wf wf' pe : A) :
    a = 1 -> two * Omega = 1 -> cst k0 ->
    zd wf wf' -> zd psi (- (a * wf)) ->
    let vort := - Eop wf in
    slap dlon dmu mu a pe = - Eop (wf * (vort + mu)) ->
    let st := mkSWS (fun _ => psi) (fun _ => 0) (fun _ => pe - c2 * wf * wf / two + k0) in
    wzeta dlon dmu mu a st 0%nat = vort /\
    sw_div_tend dlon dmu mu a 1 (fun _ _ => 1) Omega 0 st 0%nat = 0.
  Proof.
    intros Ha HO Hk Hw Hpsi vort Hpe st.
    assert (Hia : ia = 1) by (transitivity (ia * a); [rewrite Ha; ring|exact inv_a]).
    assert (Hchi : w_chi st 0%nat = 0) by reflexivity.
    assert (Hv : vort = zvort wf wf').
    { unfold vort, Eop, zvort. destruct Hw as [_ Hd]. rewrite dmu_leib, dmu_c2, Hd, Hia.
      transitivity ((s2 * c2) * (two * mu * wf - c2 * wf')); [ring|]. rewrite s2c2. ring. }
    assert (Hz : wzeta dlon dmu mu a st 0%nat = vort).
    { unfold wzeta. cbn [w_psi st]. now rewrite (zonal_vorticity psi wf wf' Hw Hpsi), Hv. }
    split; [exact Hz|].
    unfold sw_div_tend.
    rewrite scurl_zonal by (unfold wflux_v, wV; cbn [w_psi w_chi st]; rewrite (zonal_vel_v psi _ wf eq_refl Hpsi); ring).
    replace (wpress 1 (fun _ _ => 1) 0 st 0 + kin mu (wU dlon dmu a st 0) (wV dlon dmu a st 0)) with (pe + k0).
    2:{ unfold wpress, wU, wV. cbn [sumn w_pot w_psi w_chi st].
        rewrite (zonal_kin_val psi _ wf eq_refl Hpsi), div_def. ring. }
    rewrite slap_add, (laplacian_of_constant k0 Hk), Hpe.
    replace (wflux_u dlon dmu mu a Omega st 0) with (c2 * (wf * (vort + mu))).
    2:{ unfold wflux_u, wabs. rewrite Hz. unfold wU. cbn [w_psi w_chi st].
        rewrite (zonal_vel_u psi _ wf eq_refl Hpsi).
        transitivity (c2 * wf * (vort + (two * Omega) * mu)); [rewrite HO; ring|ring]. }
    unfold Eop. rewrite Hia. ring.
  Qed.

  (** shallow_water_states.multi_layer solves sum_j R_ij Phi_j = s_i: the divergence tendency of layer i
      depends on the potentials only through that sum *)
  Theorem multi_layer_formulas_balanced (Kl : nat) (Rm : nat -> nat -> A) (Omega oro : A)
          (psi chi pot s : nat -> A) i :
    sumn Kl (fun j => Rm i j * pot j) = s i ->
    sw_div_tend dlon dmu mu a Kl Rm Omega oro (mkSWS psi chi pot) i
    = sw_div_tend dlon dmu mu a 1 (fun _ _ => 1) Omega oro (mkSWS (fun _ => psi i) (fun _ => chi i) (fun _ => s i)) 0%nat.
  Proof.
    intros H. unfold sw_div_tend, wpress, wflux_u, wflux_v, wabs, wzeta, wU, wV. cbn [sumn w_pot w_psi w_chi].
    rewrite H. replace (0 + 1 * s i) with (s i) by ring. reflexivity.
  Qed.

  (** primitive equations: solid-body rotation u_k = U_k cos(lat) on every level,
      T_k = Tb_k + tau_k mu^2, uniform humidity q0, ln ps = cst + beta mu^2, orography gam mu^2 *)
  Theorem solid_body_steady (c : @PEcfg A) (Omega grav Rv Cpv q0 cst0 beta gam : A) (Uk Tb tau : nat -> A) :
    cst Omega -> cst grav -> cst q0 -> cst cst0 -> cst beta -> cst gam ->
    cst (cR c) -> cst (Rv / cR c) -> (forall i, cst (cls c i)) ->
    (forall k, cst (Uk k)) -> (forall k, cst (Tb k)) -> (forall k, cst (tau k)) ->
    let mf := 1 + (Rv / cR c - 1) * q0 in
    (forall k, Uk k * (Uk k + two * a * Omega)
               + two * (grav * gam + mf * sumn (cK c) (fun j => geo_weights (cK c) (cR c) (cls c) k j * tau j))
               + two * (cR c * mf * Tb k * beta) = 0) ->
    (forall k, beta * tau k = 0) ->
    let st := mkPES (fun k => - (a * Uk k) * mu) (fun _ => 0)
                    (fun k => Tb k + tau k * (mu * mu)) (cst0 + beta * (mu * mu)) (fun _ => q0) in
    let oro := gam * (mu * mu) in
    forall k,
      spec_vort_tend dlon dmu mu a c Omega Rv st k = 0 /\
      spec_div_tend dlon dmu mu a c Omega grav Rv oro st k = 0 /\
      spec_temp_tend dlon dmu mu a c Rv Cpv st k = 0 /\
      spec_lnps_tend dlon dmu mu a c st = 0 /\
      spec_tracer_tend dlon dmu mu a c st (st_q st) k = 0.
  Proof.
    intros HOm Hg Hq0 Hc0 Hbeta Hgam HRc Heps Hls HU HTb Htau mf C1 C2 st oro k.
    set (wf := fun (k : nat) => Uk k). set (wf' := fun (_ : nat) => (@f0 A o)).
    set (lam' := beta * (two * mu)).
    set (W := geo_weights (cK c) (cR c) (cls c)).
    set (ph' := fun (k : nat) => two * mu * (grav * gam + mf * sumn (cK c) (fun j => W k j * tau j))).
    assert (Hmf : cst mf).
    { unfold mf. apply cst_add; [apply cst_1|]. apply cst_mul; [|exact Hq0]. apply cst_sub; [exact Heps|apply cst_1]. }
    assert (HW : forall i j, cst (W i j)) by (intros; apply cst_geo_weights; assumption).
    assert (Hchi : forall k, st_chi st k = 0) by reflexivity.
    assert (Hw : forall k, zd (wf k) (wf' k)) by (intros j; exact (zd_cst (Uk j) (HU j))).
    assert (Hpsi : forall k, zd (st_psi st k) (- (a * wf k))).
    { intros j. apply (zd_eq _ ((- (a * Uk j)) * 1)); [unfold wf; ring|].
      apply zd_scal; [apply cst_opp, cst_mul; [apply cst_a|apply HU]|apply zd_mu]. }
    assert (HTz : forall j, zd (st_T st j) (0 + tau j * (two * mu))).
    { intros j. apply zd_add; [apply zd_cst, HTb|]. apply zd_scal; [apply Htau|apply zd_mumu]. }
    assert (HT : forall k, zon (st_T st k)) by (intros j; apply (HTz j)).
    assert (Hq : forall k, zon (st_q st k)) by (intros j; exact (zon_cst q0 Hq0)).
    assert (Hlnps : zd (st_lnps st) lam').
    { apply (zd_eq _ (0 + beta * (two * mu))); [unfold lam'; ring|].
      apply zd_add; [now apply zd_cst|]. apply zd_scal; [exact Hbeta|apply zd_mumu]. }
    assert (Hphi : forall k, zd (phi c grav Rv oro st k) (ph' k)).
    { intros j.
      assert (Z : zd (grav * (gam * (mu * mu)) + sumn (cK c) (fun i => W j i * ((Tb i + tau i * (mu * mu)) * mf)))
                     (grav * (gam * (two * mu))
                      + sumn (cK c) (fun i => W j i * ((0 + tau i * (two * mu)) * mf + (Tb i + tau i * (mu * mu)) * 0)))).
      { apply zd_add; [apply zd_scal; [exact Hg|]; apply zd_scal; [exact Hgam|apply zd_mumu]|].
        apply zd_sumn; [apply HW|]. intros i. apply zd_mul; [apply (HTz i)|now apply zd_cst]. }
      apply (zd_eq _ _ (ph' j)) in Z; [exact Z|].
      unfold ph'.
      rewrite (sumn_ext_ring (cK c) _ (fun i => W j i * (tau i * (two * mu * mf)))) by (intros; ring).
      rewrite sumn_pull. ring. }
    assert (Hbal : forall k, ph' k + cR c * Tv c Rv st k * lam' = - (mu * wf k * (wf k + two * a * Omega))).
    { intros j. unfold ph', Tv, lam', wf. cbn [st_T st_q st]. fold mf.
      set (S := sumn (cK c) (fun i => W j i * tau i)).
      transitivity (mu * (Uk j * (Uk j + two * a * Omega) + two * (grav * gam + mf * S) + two * (cR c * mf * Tb j * beta))
                    + two * cR c * mf * (mu * mu * mu) * (beta * tau j)
                    - mu * Uk j * (Uk j + two * a * Omega)); [ring|].
      unfold S, W. rewrite C1, C2. ring. }
    pose proof (zon_cst _ HOm) as ZO. pose proof (zon_cst _ HRc) as ZR. pose proof (zon_cst _ Heps) as ZE.
    repeat split.
    - apply (pe_zonal_vorticity_steady c Omega Rv st wf wf' lam' ZO ZR ZE Hchi Hw Hpsi HT Hq Hlnps).
    - apply (pe_zonal_divergence_steady c Omega grav Rv oro st wf wf' ph' lam' Hchi Hw Hpsi Hlnps Hphi Hbal).
    - apply (pe_zonal_temperature_steady c Rv Cpv st wf lam' Hchi Hpsi HT Hlnps).
    - apply (pe_zonal_lnps_steady c st wf lam' Hchi Hpsi Hlnps).
    - apply (pe_zonal_tracer_steady c st wf lam' Hchi Hpsi Hlnps). apply Hq.
  Qed.
End Ring.

(** * 4. A concrete commutative differential ring: formal power series in mu over Qc
    (coefficient sequences, Cauchy product), d/dlon = 0, cos(lat) d/dlat = (1 - mu^2) d/dmu,
    sec^2 = 1 + mu^2 + mu^4 + ...  Every hypothesis of section 3 holds in it (non-vacuity). *)
From Dino Require Import Base.Inst.
From Coq Require Import Qcanon FunctionalExtensionality.
Local Open Scope F_scope.

Section PowerSeries.
  Add Field FFqc : (@field_c Qc QcOps QcField).

  Definition ps := nat -> Qc.
  Definition ps_c (k : Qc) : ps := fun n => if Nat.eqb n 0 then k else 0.
  Definition ps_add (f g : ps) : ps := fun n => f n + g n.
  Definition ps_opp (f : ps) : ps := fun n => - f n.
  Definition ps_sub (f g : ps) : ps := fun n => f n - g n.
  Definition ps_mul (f g : ps) : ps := fun n => sumn (S n) (fun i => f i * g (n - i)%nat).
  Definition ps_X : ps := fun n => if Nat.eqb n 1 then 1 else 0.
  Definition ps_s2 : ps := fun n => if Nat.even n then 1 else 0.
  Fixpoint nq (n : nat) : Qc := match n with O => 0%F | S k => (nq k + 1)%F end.
  (** d/dmu *)
  Definition ps_d (f : ps) : ps := fun n => nq (S n) * f (S n).
  Definition ps_c2 : ps := ps_sub (ps_c 1%F) (ps_mul ps_X ps_X).
  Definition ps_dmu (f : ps) : ps := ps_mul ps_c2 (ps_d f).
  Definition ps_dlon (f : ps) : ps := ps_c 0%F.
  (** inverse: of 1 - mu^2 it is sec^2, otherwise the constant 1/f(0) (an inverse for constant series) *)
  Definition ps_inv (f : ps) : ps := if feqb (f 2%nat) (- (1))%F then ps_s2 else ps_c (1 / f 0%nat)%F.

  Lemma ps_ext (f g : ps) : (forall n, f n = g n) -> f = g.
  Proof. intros H. apply functional_extensionality. exact H. Qed.

  Lemma ps_c_eqb i k : ps_c k i = Sums.delta 0%nat i * k.
  Proof. destruct i as [|i]; [change (k = 1 * k)|change ((0 : Qc) = 0 * k)]; ring. Qed.

  Lemma ps_mul_1_l f : ps_mul (ps_c 1%F) f = f.
  Proof.
    apply ps_ext. intros n. unfold ps_mul.
    rewrite (sumn_ext (S n) _ (fun i => Sums.delta 0%nat i * f (n - i)%nat)) by (intros; cbv beta; rewrite ps_c_eqb; ring).
    rewrite sumn_delta_l by lia. now rewrite Nat.sub_0_r.
  Qed.
  Lemma ps_mul_comm f g : ps_mul f g = ps_mul g f.
  Proof.
    apply ps_ext. intros n. unfold ps_mul. rewrite sumn_rev. apply sumn_ext. intros i Hi.
    replace (S n - 1 - i)%nat with (n - i)%nat by lia. replace (n - (n - i))%nat with i by lia. ring.
  Qed.
  Lemma ps_distr_l f g h : ps_mul (ps_add f g) h = ps_add (ps_mul f h) (ps_mul g h).
  Proof.
    apply ps_ext. intros n. unfold ps_mul, ps_add. rewrite <- sumn_add. apply sumn_ext. intros; ring.
  Qed.

  Lemma sumn_shift_mask n i (Fk : nat -> Qc) :
    (i <= n)%nat ->
    sumn (S n) (fun k => if Nat.leb i k then Fk k else 0) = sumn (S n - i) (fun j => Fk (i + j)%nat).
  Proof.
    intros Hi. replace (S n) with (i + (S n - i))%nat at 1 by lia. rewrite sumn_split.
    rewrite sumn_zero by (intros k Hk; destruct (Nat.leb_spec i k); [lia|reflexivity]).
    rewrite (sumn_ext (S n - i) _ (fun j => Fk (i + j)%nat))
      by (intros j _; destruct (Nat.leb_spec i (i + j)); [reflexivity|lia]).
    ring.
  Qed.

  Lemma ps_mul_assoc f g h : ps_mul f (ps_mul g h) = ps_mul (ps_mul f g) h.
  Proof.
    apply ps_ext. intros n. unfold ps_mul.
    set (Tt := fun i j : nat => f i * g j * h (n - i - j)%nat).
    transitivity (sumn (S n) (fun i => sumn (S n - i) (fun j => Tt i j))).
    - apply sumn_ext. intros i Hi. replace (S n - i)%nat with (S (n - i)) by lia.
      rewrite <- sumn_scal_l. apply sumn_ext. intros j _. unfold Tt. ring.
    - symmetry.
      rewrite (sumn_ext (S n) _ (fun k => sumn (S n) (fun i => if Nat.ltb i (S k) then f i * g (k - i)%nat * h (n - k)%nat else 0))).
      2:{ intros k Hk. rewrite sumn_prefix_mask by lia. rewrite <- sumn_scal_r. reflexivity. }
      rewrite sumn_exchange. apply sumn_ext. intros i Hi.
      rewrite (sumn_ext (S n) _ (fun k => if Nat.leb i k then f i * g (k - i)%nat * h (n - k)%nat else 0)).
      2:{ intros k _. destruct (Nat.ltb_spec i (S k)), (Nat.leb_spec i k); try lia; reflexivity. }
      rewrite sumn_shift_mask by lia. apply sumn_ext. intros j _. unfold Tt.
      replace (i + j - i)%nat with j by lia. replace (n - (i + j))%nat with (n - i - j)%nat by lia. reflexivity.
  Qed.

  #[export] Instance psOps : Ops ps := {|
    f0 := ps_c 0%F; f1 := ps_c 1%F; fadd := ps_add; fmul := ps_mul; fsub := ps_sub; fopp := ps_opp;
    fdiv x y := ps_mul x (ps_inv y); finv := ps_inv; fofZ z := ps_c (fofZ z);
    fleb _ _ := true; feqb _ _ := true |}.

  Lemma ps_ring_raw : ring_theory (ps_c 0%F) (ps_c 1%F) ps_add ps_mul ps_sub ps_opp (@eq ps).
  Proof.
    constructor.
    - intros f. apply ps_ext. intros n. unfold ps_add, ps_c. destruct (Nat.eqb n 0); ring.
    - intros f g. apply ps_ext. intros n. unfold ps_add. ring.
    - intros f g h. apply ps_ext. intros n. unfold ps_add. ring.
    - exact ps_mul_1_l.
    - exact ps_mul_comm.
    - exact ps_mul_assoc.
    - exact ps_distr_l.
    - intros f g. apply ps_ext. intros n. unfold ps_sub, ps_add, ps_opp. ring.
    - intros f. apply ps_ext. intros n. unfold ps_add, ps_opp, ps_c. destruct (Nat.eqb n 0); ring.
  Qed.
  Lemma ps_ring : ring_theory (@f0 ps psOps) f1 fadd fmul fsub fopp (@eq ps).
  Proof. exact ps_ring_raw. Qed.
  Add Ring psR : ps_ring_raw.

  Notation q0 := (@f0 Qc QcOps).
  Notation q1 := (@f1 Qc QcOps).

  Lemma ps_c_add x y : ps_add (ps_c x) (ps_c y) = ps_c (x + y).
  Proof.
    apply ps_ext. intros n. destruct n; [change (x + y = x + y)|change (q0 + q0 = q0)]; ring.
  Qed.
  Lemma ps_c_mul_l x f n : ps_mul (ps_c x) f n = x * f n.
  Proof.
    unfold ps_mul.
    rewrite (sumn_ext (S n) _ (fun i => Sums.delta 0%nat i * (x * f (n - i)%nat))) by (intros; cbv beta; rewrite ps_c_eqb; ring).
    rewrite sumn_delta_l by lia. now rewrite Nat.sub_0_r.
  Qed.
  Lemma ps_c_mul x y : ps_mul (ps_c x) (ps_c y) = ps_c (x * y).
  Proof.
    apply ps_ext. intros n. rewrite ps_c_mul_l.
    destruct n; [change (x * y = x * y)|change (x * q0 = q0)]; ring.
  Qed.
  Lemma ps_c_opp x : ps_opp (ps_c x) = ps_c (- x).
  Proof. apply ps_ext. intros n. destruct n; [change (- x = - x)|change (- q0 = q0)]; ring. Qed.
  Lemma ps_d_c k : ps_d (ps_c k) = ps_c q0.
  Proof.
    apply ps_ext. intros n. change (nq (S n) * q0 = ps_c q0 n).
    destruct n as [|m]; [change (nq 1%nat * q0 = q0)|change (nq (S (S m)) * q0 = q0)]; ring.
  Qed.
  Lemma ps_d_add f g : ps_d (ps_add f g) = ps_add (ps_d f) (ps_d g).
  Proof.
    apply ps_ext. intros n.
    change (nq (S n) * (f (S n) + g (S n)) = nq (S n) * f (S n) + nq (S n) * g (S n)). ring.
  Qed.
  Lemma nq_add i j : nq (i + j) = nq i + nq j.
  Proof.
    induction i as [|i IH]; [change (nq j = q0 + nq j); ring|].
    change (nq (i + j) + q1 = (nq i + q1) + nq j). rewrite IH. ring.
  Qed.
  Lemma ps_d_leib f g : ps_d (ps_mul f g) = ps_add (ps_mul (ps_d f) g) (ps_mul f (ps_d g)).
  Proof.
    apply ps_ext. intros n. unfold ps_d, ps_mul, ps_add.
    rewrite <- sumn_scal_l.
    rewrite (sumn_ext (S (S n)) _ (fun i => nq i * (f i * g (S n - i)%nat) + nq (S n - i) * (f i * g (S n - i)%nat))).
    2:{ intros i Hi. cbv beta.
        assert (E : nq (S n) = nq i + nq (S n - i)) by (rewrite <- nq_add; f_equal; lia).
        rewrite E. ring. }
    rewrite sumn_add. f_equal.
    - rewrite sumn_S_first. change (nq 0%nat) with q0.
      rewrite (sumn_ext (S n) _ (fun i => nq (S i) * f (S i) * g (n - i)%nat))
        by (intros i _; cbv beta; change (S n - S i)%nat with (n - i)%nat; ring).
      ring.
    - change (sumn (S (S n)) (fun i => nq (S n - i) * (f i * g (S n - i)%nat)))
        with (sumn (S n) (fun i => nq (S n - i) * (f i * g (S n - i)%nat))
              + nq (S n - S n) * (f (S n) * g (S n - S n)%nat)).
      replace (S n - S n)%nat with 0%nat by lia. change (nq 0%nat) with q0.
      rewrite (sumn_ext (S n) _ (fun i => f i * (nq (S (n - i)) * g (S (n - i)))))
        by (intros i Hi; cbv beta; replace (S n - i)%nat with (S (n - i)) by lia; ring).
      ring.
  Qed.

  Lemma ps_X_delta i : ps_X i = Sums.delta 1%nat i.
  Proof. destruct i as [|[|i]]; reflexivity. Qed.
  Lemma ps_X_mul f n : ps_mul ps_X f n = match n with O => q0 | S m => f m end.
  Proof.
    unfold ps_mul. destruct n as [|m].
    - change (q0 + q0 * f 0%nat = q0). ring.
    - rewrite (sumn_ext (S (S m)) _ (fun i => Sums.delta 1%nat i * f (S m - i)%nat)) by (intros; cbv beta; now rewrite ps_X_delta).
      rewrite sumn_delta_l by lia. f_equal. lia.
  Qed.
  Lemma ps_s2c2 : ps_mul ps_s2 ps_c2 = ps_c q1.
  Proof.
    transitivity (ps_sub ps_s2 (ps_mul ps_X (ps_mul ps_X ps_s2))); [unfold ps_c2; ring|].
    apply ps_ext. intros n. unfold ps_sub. rewrite ps_X_mul. destruct n as [|[|m]].
    - change (q1 - q0 = q1). ring.
    - rewrite ps_X_mul. change (q0 - q0 = q0). ring.
    - rewrite ps_X_mul. change (ps_s2 m - ps_s2 m = q0). ring.
  Qed.

  Lemma ps_inv_c k : ps_inv (ps_c k) = ps_c (q1 / k).
  Proof.
    unfold ps_inv. replace (feqb (ps_c k 2%nat) (- q1)) with false by (vm_compute; reflexivity). reflexivity.
  Qed.
  Lemma ps_inv_c2 : ps_inv ps_c2 = ps_s2.
  Proof.
    unfold ps_inv. replace (feqb (ps_c2 2%nat) (- q1)) with true by (vm_compute; reflexivity). reflexivity.
  Qed.

  (** *** the hypotheses of section 3 in this ring: mu = X, radius a = 2 *)
  Definition ps_a : ps := ps_c (q1 + q1).
  Lemma qc_half : (q1 / (q1 + q1)) * (q1 + q1) = q1.
  Proof. apply Qc_is_canon. vm_compute. reflexivity. Qed.
  Lemma psH_div_def : forall x y : ps, x / y = x * finv y.
  Proof. reflexivity. Qed.
  Lemma psH_inv_a : finv ps_a * ps_a = 1.
  Proof.
    change (ps_mul (ps_inv (ps_c (q1 + q1))) (ps_c (q1 + q1)) = ps_c q1).
    rewrite ps_inv_c, ps_c_mul. f_equal. exact qc_half.
  Qed.
  Lemma psH_inv_c2 : finv (cos2 ps_X) * cos2 ps_X = 1.
  Proof. change (ps_mul (ps_inv ps_c2) ps_c2 = ps_c q1). rewrite ps_inv_c2. exact ps_s2c2. Qed.
  Lemma psH_inv_two : finv (@two ps psOps) * two = 1.
  Proof.
    change (ps_mul (ps_inv (ps_add (ps_c q1) (ps_c q1))) (ps_add (ps_c q1) (ps_c q1)) = ps_c q1).
    rewrite ps_c_add, ps_inv_c, ps_c_mul. f_equal. exact qc_half.
  Qed.
  Lemma psH_dlon_add : forall x y : ps, ps_dlon (x + y) = ps_dlon x + ps_dlon y.
  Proof. intros. change (ps_c q0 = ps_add (ps_c q0) (ps_c q0)). ring. Qed.
  Lemma psH_dlon_leib : forall x y : ps, ps_dlon (x * y) = ps_dlon x * y + x * ps_dlon y.
  Proof. intros. change (ps_c q0 = ps_add (ps_mul (ps_c q0) y) (ps_mul x (ps_c q0))). ring. Qed.
  Lemma psH_dmu_add : forall x y : ps, ps_dmu (x + y) = ps_dmu x + ps_dmu y.
  Proof.
    intros. change (ps_mul ps_c2 (ps_d (ps_add x y)) = ps_add (ps_mul ps_c2 (ps_d x)) (ps_mul ps_c2 (ps_d y))).
    rewrite ps_d_add. ring.
  Qed.
  Lemma psH_dmu_leib : forall x y : ps, ps_dmu (x * y) = ps_dmu x * y + x * ps_dmu y.
  Proof.
    intros. change (ps_mul ps_c2 (ps_d (ps_mul x y))
                    = ps_add (ps_mul (ps_mul ps_c2 (ps_d x)) y) (ps_mul x (ps_mul ps_c2 (ps_d y)))).
    rewrite ps_d_leib. ring.
  Qed.
  Lemma ps_dmu_c k : ps_dmu (ps_c k) = ps_c q0.
  Proof. unfold ps_dmu. rewrite ps_d_c. ring. Qed.
  Lemma psH_commute : forall x : ps, ps_dlon (ps_dmu x) = ps_dmu (ps_dlon x).
  Proof. intros. unfold ps_dlon. now rewrite ps_dmu_c. Qed.
  Lemma psH_dlon_mu : ps_dlon ps_X = 0. Proof. reflexivity. Qed.
  Lemma ps_d_X : ps_d ps_X = ps_c q1.
  Proof.
    apply ps_ext. intros n. destruct n as [|m].
    - change ((q0 + q1) * q1 = q1). ring.
    - change (nq (S (S m)) * q0 = q0). ring.
  Qed.
  Lemma psH_dmu_mu : ps_dmu ps_X = cos2 ps_X.
  Proof. unfold ps_dmu. rewrite ps_d_X. change (ps_mul ps_c2 (ps_c q1) = ps_c2). ring. Qed.
  Lemma psH_dlon_a : ps_dlon ps_a = 0. Proof. reflexivity. Qed.
  Lemma psH_dmu_a : ps_dmu ps_a = 0. Proof. apply ps_dmu_c. Qed.
  (** the derivation is not trivial: cos(lat) d(mu)/dlat = 1 - mu^2 <> 0 *)
  Lemma ps_dmu_nontrivial : ps_dmu ps_X <> 0.
  Proof.
    rewrite psH_dmu_mu. intro H. assert (E : cos2 ps_X 0%nat = (@f0 ps psOps) 0%nat) by (now rewrite H).
    vm_compute in E. discriminate E.
  Qed.
  Lemma ps_cst_c k : cst ps_dlon ps_dmu (ps_c k).
  Proof. split; [reflexivity|apply ps_dmu_c]. Qed.
  Lemma ps_div_c x y : ps_c x / ps_c y = ps_c (x * (q1 / y)).
  Proof. change (ps_mul (ps_c x) (ps_inv (ps_c y)) = ps_c (x * (q1 / y))). now rewrite ps_inv_c, ps_c_mul. Qed.
  Lemma ps_mul_0_r x : ps_mul x (ps_c q0) = ps_c q0.
  Proof. ring. Qed.
End PowerSeries.

Ltac ps_hyps :=
  first [exact ps_ring | exact psH_div_def | exact psH_inv_a | exact psH_inv_c2 | exact psH_inv_two
        | exact psH_dlon_add | exact psH_dmu_add | exact psH_dlon_leib | exact psH_dmu_leib | exact psH_commute
        | exact psH_dlon_mu | exact psH_dmu_mu | exact psH_dlon_a | exact psH_dmu_a | apply ps_cst_c
        | (intros; apply ps_cst_c) | (intros; apply zon_cst; apply ps_cst_c) ].

(** * 5. Modal layer: explicit + implicit vorticity / divergence tendencies of the model are the
    (clipped) modal operators applied to the analysed specification quantities
      - div / - curl  of  sec^2 cos(lat) [ (zeta+f) k x v + sigma_dot dv/dsigma + R Tv grad ln ps ]
      - lap ( KE + g orog [+ humidity part of the geopotential] )  - lap ( G . T )
    for ANY reference profile.  Exactness hypotheses used (table obligations of C04/C02):
    [H_div_grad], [H_curl_grad] (div/curl of the analysed sec^2 grad(lnps) are lap(lnps) / 0 below the
    clipped wavenumber), [lap_const] (the constant mode has no laplacian), for the moist classes the
    Leibniz obligations [H_leibniz], [H_leibniz_curl] of q grad(lnps); plus b_0 = 0.  What is NOT
    assumed and not proved: that to_modal of a nodal product is the exact projection of the product
    of the continuous fields (alias-freeness) - decided by Oracle A. *)
Section ModalRefinement.
  Context {F : Type} {o : Ops F} {Fc : FieldC o}.
  Add Field FFmref : (field_c : FieldTh o).
  Variables W P : Type.
  Variable toM : (P -> F) -> W -> F.
  Variable divc curlc : (W -> F) -> (W -> F) -> W -> F.
  Variable lap clip : (W -> F) -> W -> F.
  Hypothesis toM_lin : linear toM.
  Hypothesis divc_lin : linear2 divc.
  Hypothesis curlc_lin : linear2 curlc.
  Hypothesis lap_lin : linear lap.
  Hypothesis clip_lin : linear clip.
  Variable c : @PEcfg F.
  Hypothesis b_top : cb c 0%nat = 0.
  Variable grav : F.
  Variable X : P -> @NCol F.          (* nodal columns; their temperature entry is ignored *)
  Variable T : nat -> P -> F.         (* absolute nodal temperature *)
  Variable Tm : nat -> W -> F.        (* its modal coefficients *)
  Variable lnps onem orog : W -> F.
  Hypothesis H_div_grad : forall w,
      clip (divc (toM (fun p => n_gx (X p) * n_sec2 (X p))) (toM (fun p => n_gy (X p) * n_sec2 (X p)))) w = lap lnps w.
  Hypothesis H_curl_grad : forall w,
      clip (curlc (toM (fun p => n_gx (X p) * n_sec2 (X p))) (toM (fun p => n_gy (X p) * n_sec2 (X p)))) w = 0.
  Hypothesis lap_const : forall w, lap onem w = 0.

  (** sec^2 cos(lat) * the specification's momentum vector at node p, level r, for the
      pressure-gradient temperature [rt] (R T dry, R Tv moist) *)
  Definition spec_P (rt : P -> nat -> F) (p : P) (r : nat) : F :=
    n_sec2 (X p) * (- n_v (X p) r * (n_vort (X p) r + n_f (X p))
                    - spec_vadv c (spec_sigma_dot c (gcol (X p))) (n_u (X p)) r + rt p r * n_gx (X p)).
  Definition spec_Q (rt : P -> nat -> F) (p : P) (r : nat) : F :=
    n_sec2 (X p) * (n_u (X p) r * (n_vort (X p) r + n_f (X p))
                    - spec_vadv c (spec_sigma_dot c (gcol (X p))) (n_v (X p)) r + rt p r * n_gy (X p)).
  Definition rt_abs (p : P) (k : nat) : F := cR c * T k p.

  Lemma toM_combined_u rt r a : (r < cK c)%nat ->
    toM (fun p => combined_u c true (X p) (rt p) r) a = toM (fun p => spec_P rt p r) a.
  Proof. intros Hr. apply (lin_ext toM toM_lin). intros p. apply (combined_is_spec c b_top (X p) (rt p) r Hr). Qed.
  Lemma toM_combined_v rt r a : (r < cK c)%nat ->
    toM (fun p => combined_v c true (X p) (rt p) r) a = toM (fun p => spec_Q rt p r) a.
  Proof. intros Hr. apply (lin_ext toM toM_lin). intros p. apply (combined_is_spec c b_top (X p) (rt p) r Hr). Qed.

  (** DRY classes, divergence *)
  Theorem refines_divergence_modal (Tref : nat -> F) r w :
    (r < cK c)%nat ->
    div_tendency_explicit W P toM divc lap clip (with_tref c Tref) grav (Xs P X T Tref)
                          (fun p => rt_dry (with_tref c Tref) (Xs P X T Tref p)) orog (fun _ => 0) r w
    + div_tendency_implicit W lap (with_tref c Tref) (Tms W Tm onem Tref) lnps r w
    = clip (fun w' => - divc (toM (fun p => spec_P rt_abs p r)) (toM (fun p => spec_Q rt_abs p r)) w'
                      - lap (fun w2 => toM (fun p => kinetic (X p) r) w2 + grav * orog w2) w') w
      - lap (fun w' => geo_diff false c (fun k => Tm k w') r) w.
  Proof.
    intros Hr.
    rewrite (divergence_modal_closed W P toM divc lap clip toM_lin divc_lin lap_lin clip_lin c grav X T Tm lnps onem orog
               H_div_grad lap_const Tref r w).
    f_equal. apply (lin_ext clip clip_lin). intros w'. unfold div_base, cu_abs, cv_abs.
    destruct divc_lin as [Hde _].
    match goal with |- context [divc ?xa ?xb w'] =>
      rewrite (Hde xa (toM (fun p => spec_P rt_abs p r)) xb (toM (fun p => spec_Q rt_abs p r))
                 (fun z => toM_combined_u rt_abs r z Hr) (fun z => toM_combined_v rt_abs r z Hr) w') end.
    rewrite (lin_comb lap lap_lin (fun w2 => toM (fun p => kinetic (X p) r) w2 + grav * orog w2)
               (toM (fun p => kinetic (X p) r)) orog grav (fun _ => eq_refl)).
    ring.
  Qed.

  (** ... in the documented form  - div(...) - lap(KE + Phi),  Phi = g orog + G . T  the hydrostatic
      geopotential, when the temperature has no content in the clipped top wavenumber *)
  Theorem refines_divergence_modal_energy (Tref : nat -> F) r w :
    (r < cK c)%nat ->
    clip (lap (fun w' => geo_diff false c (fun k => Tm k w') r)) w = lap (fun w' => geo_diff false c (fun k => Tm k w') r) w ->
    div_tendency_explicit W P toM divc lap clip (with_tref c Tref) grav (Xs P X T Tref)
                          (fun p => rt_dry (with_tref c Tref) (Xs P X T Tref p)) orog (fun _ => 0) r w
    + div_tendency_implicit W lap (with_tref c Tref) (Tms W Tm onem Tref) lnps r w
    = clip (fun w' => - divc (toM (fun p => spec_P rt_abs p r)) (toM (fun p => spec_Q rt_abs p r)) w'
                      - lap (fun w2 => toM (fun p => kinetic (X p) r) w2
                                       + spec_phi c (grav * orog w2) (fun k => Tm k w2) r) w') w.
  Proof.
    intros Hr Hc. rewrite (refines_divergence_modal Tref r w Hr), <- Hc.
    set (Gd := fun w' => geo_diff false c (fun k => Tm k w') r).
    set (E1 := fun w2 => toM (fun p => kinetic (X p) r) w2 + grav * orog w2).
    set (Dv := fun w' => divc (toM (fun p => spec_P rt_abs p r)) (toM (fun p => spec_Q rt_abs p r)) w').
    symmetry.
    rewrite (lin_comb clip clip_lin _ (fun w' => - Dv w' - lap E1 w') (lap Gd) (- (1))).
    - ring.
    - intros w'. unfold Dv.
      rewrite (lin_comb lap lap_lin (fun w2 => toM (fun p => kinetic (X p) r) w2 + spec_phi c (grav * orog w2) (fun k => Tm k w2) r)
                 E1 Gd 1) by (intros a; unfold E1, Gd, spec_phi, geo_diff; ring).
      ring.
  Qed.

  (** DRY classes, vorticity *)
  Theorem refines_vorticity_modal (Tref : nat -> F) r w :
    (r < cK c)%nat ->
    vort_tendency_explicit W P toM curlc clip (with_tref c Tref) (Xs P X T Tref)
                           (fun p => rt_dry (with_tref c Tref) (Xs P X T Tref p)) (fun _ => 0) r w
    = clip (fun w' => - curlc (toM (fun p => spec_P rt_abs p r)) (toM (fun p => spec_Q rt_abs p r)) w') w.
  Proof.
    intros Hr.
    rewrite (vorticity_modal_closed W P toM curlc clip toM_lin curlc_lin clip_lin c X T H_curl_grad Tref r w).
    apply (lin_ext clip clip_lin). intros w'. unfold vort_base, cu_abs, cv_abs.
    destruct curlc_lin as [Hce _].
    match goal with |- context [curlc ?xa ?xb w'] =>
      rewrite (Hce xa (toM (fun p => spec_P rt_abs p r)) xb (toM (fun p => spec_Q rt_abs p r))
                 (fun z => toM_combined_u rt_abs r z Hr) (fun z => toM_combined_v rt_abs r z Hr) w') end.
    ring.
  Qed.

  (** MOIST classes: R Tv = R T (1 + (Rv/R - 1) q) in the pressure-gradient term, the humidity part
      G . ((Rv/R - 1) q T) of the geopotential evaluated at the nodes *)
  Section Moist.
    Variable m : @Moist F.
    Hypothesis R_nz : cR c <> 0.
    Variable q gqx gqy : P -> nat -> F.
    Variable lapn : P -> F.
    Hypothesis H_leibniz : forall r w,
        clip (fun w' => divc (toM (qgx P X q r)) (toM (qgy P X q r)) w' - toM (leib_div P X q gqx gqy lapn r) w') w = 0.
    Hypothesis H_leibniz_curl : forall r w,
        clip (fun w' => curlc (toM (qgx P X q r)) (toM (qgy P X q r)) w' + toM (leib_curl P X gqx gqy r) w') w = 0.
    Definition rtv_abs (p : P) (k : nat) : F := cR c * T k p * (1 + (mRv m / cR c - 1) * q p k).

    Theorem refines_divergence_modal_moist (Tref : nat -> F) r w :
      (r < cK c)%nat ->
      div_tendency_explicit W P toM divc lap clip (with_tref c Tref) grav (Xs P X T Tref)
          (fun p => rt_moist (with_tref c Tref) m (Xs P X T Tref p) (q p)) orog
          (fun w' => humidity_div_modal W P toM lap (with_tref c Tref) m (Xs P X T Tref) q gqx gqy lapn r w') r w
      + div_tendency_implicit W lap (with_tref c Tref) (Tms W Tm onem Tref) lnps r w
      = clip (fun w' => - divc (toM (fun p => spec_P rtv_abs p r)) (toM (fun p => spec_Q rtv_abs p r)) w'
                        - lap (fun w2 => toM (fun p => kinetic (X p) r) w2 + grav * orog w2
                                         + toM (fun p => geo_diff false c (fun k => q p k * T k p * (mRv m / cR c - 1)) r) w2) w') w
        - lap (fun w' => geo_diff false c (fun k => Tm k w') r) w.
    Proof.
      intros Hr.
      rewrite (divergence_modal_closed_moist W P toM divc lap clip toM_lin divc_lin lap_lin clip_lin c R_nz grav m X T Tm
                 lnps onem orog q gqx gqy lapn H_div_grad lap_const H_leibniz Tref r w).
      f_equal. apply (lin_ext clip clip_lin). intros w'. unfold div_base_m, cu_abs_m, cv_abs_m, geo_abs_m.
      destruct divc_lin as [Hde _].
      match goal with |- context [divc ?xa ?xb w'] =>
        rewrite (Hde xa (toM (fun p => spec_P rtv_abs p r)) xb (toM (fun p => spec_Q rtv_abs p r))
                   (fun z => toM_combined_u rtv_abs r z Hr) (fun z => toM_combined_v rtv_abs r z Hr) w') end.
      set (KE := toM (fun p => kinetic (X p) r)).
      set (GQ := toM (fun p => geo_diff false c (fun k => q p k * T k p * (mRv m / cR c - 1)) r)).
      rewrite (lin_comb lap lap_lin (fun w2 => KE w2 + grav * orog w2 + GQ w2) (fun w2 => KE w2 + grav * orog w2) GQ 1)
        by (intros; ring).
      rewrite (lin_comb lap lap_lin (fun w2 => KE w2 + grav * orog w2) KE orog grav (fun _ => eq_refl)).
      ring.
    Qed.

    Theorem refines_vorticity_modal_moist (Tref : nat -> F) r w :
      (r < cK c)%nat ->
      vort_tendency_explicit W P toM curlc clip (with_tref c Tref) (Xs P X T Tref)
          (fun p => rt_moist (with_tref c Tref) m (Xs P X T Tref p) (q p))
          (fun w' => humidity_curl_modal W P toM (with_tref c Tref) m (Xs P X T Tref) gqx gqy r w') r w
      = clip (fun w' => - curlc (toM (fun p => spec_P rtv_abs p r)) (toM (fun p => spec_Q rtv_abs p r)) w') w.
    Proof.
      intros Hr.
      rewrite (vorticity_modal_closed_moist W P toM curlc clip toM_lin curlc_lin clip_lin c R_nz m X T q gqx gqy
                 H_curl_grad H_leibniz_curl Tref r w).
      apply (lin_ext clip clip_lin). intros w'. unfold vort_base_m, cu_abs_m, cv_abs_m.
      destruct curlc_lin as [Hce _].
      match goal with |- context [curlc ?xa ?xb w'] =>
        rewrite (Hce xa (toM (fun p => spec_P rtv_abs p r)) xb (toM (fun p => spec_Q rtv_abs p r))
                   (fun z => toM_combined_u rtv_abs r z Hr) (fun z => toM_combined_v rtv_abs r z Hr) w') end.
      reflexivity.
    Qed.
  End Moist.
End ModalRefinement.
