(** Theorems of property C05: the implementation's column algebra refines the
    pointwise specification Model/PrimEqSpec.v; balanced states are steady.
    Every statement is for an arbitrary field, arbitrary K, arbitrary levels. *)
From Dino Require Import Base.Ops Base.Sums Base.Ord Model.Sigma Thm.Sigma Model.Implicit Model.PrimEq Thm.PrimEq
     Model.PrimEqSpec.
Local Open Scope F_scope.

(** * 1. A resting isothermal atmosphere in hydrostatic balance is steady (model level) *)
Section RestState.
  Context {F : Type} {o : Ops F} {Fc : FieldC o}.
  Add Field FFrest : (field_c : FieldTh o).
  Variables W P : Type.
  Variable toM : (P -> F) -> W -> F.
  Variable divc curlc : (W -> F) -> (W -> F) -> W -> F.
  Variable lap clip : (W -> F) -> W -> F.
  Hypothesis toM_lin : linear toM.
  Hypothesis divc_lin : linear2 divc.
  Hypothesis curlc_lin : linear2 curlc.
  Hypothesis lap_lin : linear lap.
  Hypothesis clip_lin : linear clip.

  Variable c : @PEcfg F.
  Variables grav T0 cst : F.
  Hypothesis RT0_nz : cR c * T0 <> 0.
  Hypothesis Tref_iso : forall k, cTref c k = T0.

  (** the state: no wind, no divergence, no temperature deviation; the gradient
      of ln ps ([n_gx], [n_gy]), the Coriolis parameter and sec^2 are arbitrary *)
  Variable X : P -> @NCol F.
  Hypothesis u0 : forall p k, n_u (X p) k = 0.
  Hypothesis v0 : forall p k, n_v (X p) k = 0.
  Hypothesis d0 : forall p k, n_div (X p) k = 0.
  Hypothesis t0 : forall p k, n_temp (X p) k = 0.
  Variable dv Tm : nat -> W -> F.
  Hypothesis dv0 : forall k w, dv k w = 0.
  Hypothesis Tm0 : forall k w, Tm k w = 0.
  Variables lnps onem orog : W -> F.
  (** hydrostatic balance, as a relation between modal coefficients *)
  Hypothesis H_hydrostatic : forall w, lnps w = cst * onem w - grav / (cR c * T0) * orog w.
  Hypothesis lap_const : forall w, lap onem w = 0.

  Lemma udg0 p k : u_dot_grad (X p) k = 0.
  Proof. unfold u_dot_grad. rewrite u0, v0. ring. Qed.

  Lemma cumint_zero (g : nat -> F) j : (forall k, g k = 0) -> cumint c g j = 0.
  Proof.
    intros H. unfold cumint, cum_sigma_integral, cumsum_m, cumsum_dot. apply sumn_zero.
    intros i _. unfold xdsigma. rewrite H. ring.
  Qed.
  Lemma sigma_dot_zero (g : nat -> F) r : (forall k, g k = 0) -> sigma_dot c g r = 0.
  Proof. intros H. unfold sigma_dot. cbv zeta. rewrite !cumint_zero by exact H. ring. Qed.
  Lemma g_part_zero (g : nat -> F) n : (forall k, g k = 0) -> g_part c g n = 0.
  Proof.
    intros H. unfold g_part. cbv zeta. rewrite !cumint_zero by exact H. rewrite fdiv_def.
    destruct (Nat.eqb n 0); ring.
  Qed.
  Lemma vt_zero_w (w x : nat -> F) n : (forall k, w k = 0) -> vertical_tendency c w x n = 0.
  Proof.
    intros H. unfold vertical_tendency, centered_vertical_advection. cbv zeta.
    assert (E : forall m, pad_tb (cK c) 0 0 w m = 0).
    { intros m. unfold pad_tb. destruct (Nat.eqb m 0); [reflexivity|]. destruct (Nat.ltb m (cK c)); [apply H|reflexivity]. }
    rewrite !E. ring.
  Qed.
  Lemma sdf0 p r : sigma_dot_full c (X p) r = 0.
  Proof. apply sigma_dot_zero. intros k. unfold g_full_diag. rewrite d0, udg0. ring. Qed.
  Lemma sde0 p r : sigma_dot_explicit c (X p) r = 0.
  Proof. apply sigma_dot_zero. intros k. apply udg0. Qed.

  Lemma temp_nodal_zero p r : temp_nodal_total c true (X p) r = 0.
  Proof.
    unfold temp_nodal_total, hsa_nodal, temp_vertical_tendency, temp_adiabatic, t_omega_over_sigma_sp. cbv zeta.
    rewrite !(vt_zero_w _ _ r) by (intros; first [apply sdf0 | apply sde0]).
    rewrite !g_part_zero by (intros k; unfold g_explicit, g_full_adiabatic; rewrite ?d0, ?udg0; ring).
    rewrite udg0, t0. destruct (tref_nonuniform c); ring.
  Qed.

  Lemma toM_zero (f : P -> F) w : (forall p, f p = 0) -> toM f w = 0.
  Proof. intros H. rewrite (lin_ext toM toM_lin f (fun _ => 0) H). apply lin_zero, toM_lin. Qed.
  Lemma lin2_zero (D : (W -> F) -> (W -> F) -> W -> F) (HD : linear2 D) w : D (fun _ => 0) (fun _ => 0) w = 0.
  Proof.
    assert (E0 : forall a : W, (fun _ : W => 0) a = (fun _ : W => 0) a + 1 * (fun _ : W => 0) a) by (intros; cbv beta; ring).
    pose proof (lin2_comb D HD (fun _ => 0) (fun _ => 0) (fun _ => 0) (fun _ => 0) (fun _ => 0) (fun _ => 0) 1 E0 E0 w) as E.
    set (z := D (fun _ : W => 0) (fun _ : W => 0) w) in *.
    assert (X0 : z + 1 * z - z = z - z) by (rewrite <- E; reflexivity).
    transitivity (z + 1 * z - z); [ring|]. rewrite X0. ring.
  Qed.
  Lemma divc_zero (x y : W -> F) w : (forall a, x a = 0) -> (forall a, y a = 0) -> divc x y w = 0.
  Proof.
    intros Hx Hy. destruct divc_lin as [He _].
    rewrite (He x (fun _ => 0) y (fun _ => 0) Hx Hy). apply lin2_zero, divc_lin.
  Qed.
  Lemma curlc_zero (x y : W -> F) w : (forall a, x a = 0) -> (forall a, y a = 0) -> curlc x y w = 0.
  Proof.
    intros Hx Hy. destruct curlc_lin as [He _].
    rewrite (He x (fun _ => 0) y (fun _ => 0) Hx Hy). apply lin2_zero, curlc_lin.
  Qed.
  Lemma clip_zero (f : W -> F) w : (forall a, f a = 0) -> clip f w = 0.
  Proof. intros H. rewrite (lin_ext clip clip_lin f (fun _ => 0) H). apply lin_zero, clip_lin. Qed.

  Theorem rest_temperature_steady r w :
    temp_tendency_explicit W P toM divc clip c X r w + temp_tendency_implicit W c dv r w = 0.
  Proof.
    unfold temp_tendency_explicit, temp_tendency_implicit.
    rewrite clip_zero.
    2:{ intros w'. rewrite toM_zero by (intros; apply temp_nodal_zero).
        rewrite divc_zero; [ring| |]; intros w2; apply toM_zero; intros p;
          unfold hsa_mu, hsa_mv; rewrite ?u0, ?v0; ring. }
    unfold temp_implicit_col, temp_implicit_dense, matvec.
    rewrite sumn_zero; [ring|]. intros h _. rewrite dv0. ring.
  Qed.

  Lemma combined_u0 p r : combined_u c true (X p) (rt_dry c (X p)) r = 0.
  Proof.
    unfold combined_u, rt_dry. cbv zeta.
    rewrite (vt_zero_w _ _ r) by (intros; apply sdf0). rewrite v0, t0. ring.
  Qed.
  Lemma combined_v0 p r : combined_v c true (X p) (rt_dry c (X p)) r = 0.
  Proof.
    unfold combined_v, rt_dry. cbv zeta.
    rewrite (vt_zero_w _ _ r) by (intros; apply sdf0). rewrite u0, t0. ring.
  Qed.
  Lemma kinetic0 p r : kinetic (X p) r = 0.
  Proof. unfold kinetic. rewrite u0, v0, fdiv_def. ring. Qed.

  Theorem rest_vorticity_steady r w :
    vort_tendency_explicit W P toM curlc clip c X (fun p => rt_dry c (X p)) (fun _ => 0) r w = 0.
  Proof.
    unfold vort_tendency_explicit. apply clip_zero. intros w'.
    rewrite curlc_zero; [ring| |]; intros w2; apply toM_zero; intros p; first [apply combined_u0|apply combined_v0].
  Qed.

  (** the divergence equation: the explicit orographic term -g lap(orog) is clipped,
      the implicit term -lap(R T0 lnps) = +g lap(orog) is not: exact residual *)
  Theorem rest_divergence_residual r w :
    div_tendency_explicit W P toM divc lap clip c grav X (fun p => rt_dry c (X p)) orog (fun _ => 0) r w
    + div_tendency_implicit W lap c Tm lnps r w
    = grav * (lap orog w - clip (lap orog) w).
  Proof.
    unfold div_tendency_explicit, div_tendency_implicit.
    rewrite (lin_scal clip clip_lin _ (lap orog) (- grav)).
    2:{ intros w'. rewrite divc_zero.
        2:{ intros w2; apply toM_zero; intros p; apply combined_u0. }
        2:{ intros w2; apply toM_zero; intros p; apply combined_v0. }
        rewrite (lin_ext lap lap_lin (toM (fun p => kinetic (X p) r)) (fun _ => 0))
          by (intros w2; apply toM_zero; intros p; apply kinetic0).
        rewrite (lin_zero lap lap_lin). ring. }
    rewrite (lin_comb lap lap_lin
               (fun w' => div_implicit_potential c false (fun k => Tm k w') (lnps w') r)
               (fun w' => (cR c * T0 * cst) * onem w') orog (- grav)).
    2:{ intros w'. unfold div_implicit_potential, geo_diff, geo_diff_dense.
        rewrite sumn_zero by (intros; rewrite Tm0; ring).
        rewrite Tref_iso, H_hydrostatic. field.
        split; intro E; apply RT0_nz; rewrite E; ring. }
    rewrite (lin_scal lap lap_lin (fun w' => (cR c * T0 * cst) * onem w') onem (cR c * T0 * cst)) by reflexivity.
    rewrite lap_const. ring.
  Qed.

  (** orography without content in the clipped top wavenumber: exactly steady *)
  Theorem rest_divergence_steady r w :
    clip (lap orog) w = lap orog w ->
    div_tendency_explicit W P toM divc lap clip c grav X (fun p => rt_dry c (X p)) orog (fun _ => 0) r w
    + div_tendency_implicit W lap c Tm lnps r w = 0.
  Proof. intros H. rewrite rest_divergence_residual, H. ring. Qed.

  Theorem rest_lnps_steady w :
    clip (toM (fun p => log_pressure_tendency c (X p))) w + lnps_implicit_col c (fun s => dv s w) = 0.
  Proof.
    rewrite clip_zero.
    2:{ intros w'. apply toM_zero. intros p. unfold log_pressure_tendency, sigma_integral.
        rewrite sumn_zero; [ring|]. intros k _. unfold xdsigma. rewrite udg0. ring. }
    unfold lnps_implicit_col, matvec. rewrite sumn_zero; [ring|]. intros h _. rewrite dv0. ring.
  Qed.
End RestState.

(** * 2. The nodal column algebra of the implementation (explicit + implicit)
    equals the vertical discretisation of the specification, term by term *)
Section ColumnRefinement.
  Context {F : Type} {o : Ops F} {Fc : FieldC o}.
  Add Field FFcol : (field_c : FieldTh o).
  Hypothesis two_nz : two <> 0.
  Hypothesis feqb_sound : forall x y : F, feqb x y = true -> x = y.
  Variable c : @PEcfg F.
  Hypothesis th2_nz : forall k, (S k < cK c)%nat -> thickness (cb c) k + thickness (cb c) (S k) <> 0.
  (** the level set starts at sigma = 0 (np.cumsum(layer_thickness) is then the boundary value) *)
  Hypothesis b_top : cb c 0%nat = 0.

  Lemma cumint_is_spec (g : nat -> F) n : (n < cK c)%nat -> cumint c g n = spec_cum c g n.
  Proof.
    intros Hn. unfold cumint, cum_sigma_integral, cumsum_m.
    rewrite cumsum_dot_seq by exact Hn. reflexivity.
  Qed.
  Lemma sum_sigma_is_boundary r : sum_sigma c r = cb c (S r).
  Proof.
    unfold sum_sigma, cumsum_seq, thickness.
    rewrite (sumn_telescope (S r) (cb c)), b_top. ring.
  Qed.
  Lemma sigma_dot_is_spec (g : nat -> F) r :
    (r < cK c)%nat -> sigma_dot c g r = spec_sigma_dot c g r.
  Proof.
    intros Hr. unfold sigma_dot, spec_sigma_dot. cbv zeta.
    rewrite sum_sigma_is_boundary, !cumint_is_spec by lia.
    unfold spec_cum at 1. replace (S (cK c - 1)) with (cK c) by lia. reflexivity.
  Qed.
  Lemma vertical_tendency_is_spec (w x : nat -> F) n :
    (n < cK c)%nat -> vertical_tendency c w x n = spec_vadv c w x n.
  Proof.
    intros Hn. rewrite vertical_tendency_closed by exact Hn.
    unfold spec_vadv, adv_term, spec_ddsigma, centered_difference, c2c, half.
    destruct n as [|n].
    - cbn [Nat.eqb]. destruct (Nat.ltb 1 (cK c)); rewrite !fdiv_def; ring.
    - cbn [Nat.eqb]. replace (S n - 1)%nat with n by lia.
      destruct (Nat.ltb_spec (S n) (cK c)) as [_|H]; [|lia].
      destruct (Nat.ltb (S (S n)) (cK c)); rewrite !fdiv_def; ring.
  Qed.
  Lemma vertical_tendency_spec_ext (w1 w2 x : nat -> F) n :
    (n < cK c)%nat -> (forall k, (S k < cK c)%nat -> w1 k = w2 k) ->
    spec_vadv c w1 x n = spec_vadv c w2 x n.
  Proof.
    intros Hn H. rewrite <- !vertical_tendency_is_spec by exact Hn.
    apply vertical_tendency_ext; auto.
  Qed.
  Lemma g_part_is_spec (g ug : nat -> F) n :
    (n < cK c)%nat -> ug n - g_part c g n = spec_omega_p c g ug n.
  Proof.
    intros Hn. unfold g_part, spec_omega_p. cbv zeta.
    destruct n as [|n]; cbn [Nat.eqb].
    - now rewrite cumint_is_spec by exact Hn.
    - replace (S n - 1)%nat with n by lia. now rewrite !cumint_is_spec by lia.
  Qed.

  (** u . grad ln ps as the code forms it (python's sum starts from 0) *)
  Lemma u_dot_grad_is_spec (x : NCol) k :
    u_dot_grad x k = n_sec2 x * (n_u x k * n_gx x + n_v x k * n_gy x).
  Proof. unfold u_dot_grad. ring. Qed.

  Definition gcol (x : @NCol F) (k : nat) : F := n_div x k + u_dot_grad x k.

  (** sigma_dot from the cumulative integrals *)
  Theorem refines_sigma_dot (x : NCol) r :
    (r < cK c)%nat -> sigma_dot_full c x r = spec_sigma_dot c (gcol x) r.
  Proof. intros Hr. unfold sigma_dot_full. now rewrite sigma_dot_is_spec by exact Hr. Qed.

  (** TEMPERATURE EQUATION.  Grouping proved: for the absolute temperature [T] and ANY
      reference profile [Tref] (T' = T - Tref),
        [explicit vertical advection of T' by sigma_dot_full  +  explicit vertical advection of Tref by
         the u.grad(lnps) part of sigma_dot  +  explicit kappa (Tref, T') omega/p parts]
        + [implicit -H . divergence]
        = - sigma_dot dT/dsigma  +  kappa T omega/p      of the specification.
      (The horizontal part  T' div - div(u T') = - u.grad T  is [flux_form_is_advective_form] below.) *)
  Theorem refines_temperature (Tref T : nat -> F) (x : NCol) n :
    (n < cK c)%nat ->
    let ci := with_tref c Tref in
    let xi := with_temp x (fun k => T k - Tref k) in
    temp_vertical_tendency ci true xi n + temp_adiabatic ci xi n + temp_implicit_col ci (n_div x) n
    = spec_vadv c (spec_sigma_dot c (gcol x)) T n
      + ckappa c * (T n * spec_omega_p c (gcol x) (u_dot_grad x) n).
  Proof.
    intros Hn ci xi. subst ci xi.
    rewrite (tref_split_closed two_nz feqb_sound c th2_nz Tref T x n Hn).
    unfold temp_closed.
    rewrite vertical_tendency_is_spec by exact Hn.
    rewrite (vertical_tendency_spec_ext (sigma_dot_full c x) (spec_sigma_dot c (gcol x)) T n Hn)
      by (intros; apply refines_sigma_dot; lia).
    rewrite (g_part_ext c (g_full_adiabatic x) (gcol x) n) by (intros; unfold g_full_adiabatic, gcol; ring).
    now rewrite g_part_is_spec by exact Hn.
  Qed.

  Theorem refines_temperature_moist (m : Moist) (Tref T q : nat -> F) (x : NCol) n :
    (n < cK c)%nat ->
    1 + (mCpv m / (cR c / ckappa c) - 1) * q n <> 0 ->
    let ci := with_tref c Tref in
    let xi := with_temp x (fun k => T k - Tref k) in
    temp_vertical_tendency ci true xi n + temp_adiabatic_moist ci m xi q n + temp_implicit_col ci (n_div x) n
    = spec_vadv c (spec_sigma_dot c (gcol x)) T n
      + ckappa c * (T n * ((1 + (mRv m / cR c - 1) * q n) / (1 + (mCpv m / (cR c / ckappa c) - 1) * q n))
                    * spec_omega_p c (gcol x) (u_dot_grad x) n).
  Proof.
    intros Hn Hq ci xi. subst ci xi.
    rewrite (tref_split_closed_moist two_nz feqb_sound c th2_nz m Tref T q x n Hn Hq).
    unfold temp_closed_moist.
    rewrite vertical_tendency_is_spec by exact Hn.
    rewrite (vertical_tendency_spec_ext (sigma_dot_full c x) (spec_sigma_dot c (gcol x)) T n Hn)
      by (intros; apply refines_sigma_dot; lia).
    rewrite (g_part_ext c (g_full_adiabatic x) (gcol x) n) by (intros; unfold g_full_adiabatic, gcol; ring).
    now rewrite g_part_is_spec by exact Hn.
  Qed.

  (** SURFACE PRESSURE EQUATION: explicit -sum(u.grad lnps dsigma) + implicit -sum(div dsigma) *)
  Theorem refines_lnps (x : NCol) :
    log_pressure_tendency c x + lnps_implicit_col c (n_div x)
    = - sumn (cK c) (fun k => gcol x k * thickness (cb c) k).
  Proof.
    unfold log_pressure_tendency, lnps_implicit_col, sigma_integral, matvec, gcol.
    rewrite <- !sumn_opp, <- sumn_add. apply sumn_ext. intros k _. unfold xdsigma. ring.
  Qed.

  (** MOMENTUM: the nodal vector handed to div/curl plus the implicit R Tref grad(lnps) part is
      sec^2 * cos(lat) * [ (zeta+f) k x v + sigma_dot dv/dsigma + R Tv grad lnps ] of the specification
      (dry: q = 0) *)
  Theorem refines_momentum (m : Moist) (Tref T q : nat -> F) (x : NCol) k :
    (k < cK c)%nat -> cR c <> 0 ->
    let ci := with_tref c Tref in
    let xi := with_temp x (fun j => T j - Tref j) in
    effective_pgf_u ci true m xi (rt_moist ci m xi q) q k
    = n_sec2 x * (- n_v x k * (n_vort x k + n_f x)
                  - spec_vadv c (spec_sigma_dot c (gcol x)) (n_u x) k
                  + cR c * (T k * (1 + (mRv m / cR c - 1) * q k)) * n_gx x) /\
    effective_pgf_v ci true m xi (rt_moist ci m xi q) q k
    = n_sec2 x * (n_u x k * (n_vort x k + n_f x)
                  - spec_vadv c (spec_sigma_dot c (gcol x)) (n_v x) k
                  + cR c * (T k * (1 + (mRv m / cR c - 1) * q k)) * n_gy x).
  Proof.
    intros Hk HR ci xi. subst ci xi.
    unfold effective_pgf_u, effective_pgf_v, combined_u, combined_v, tref_pgf_u, tref_pgf_v, rt_moist,
      moisture_contribution. cbv zeta.
    change (sigma_dot_full (with_tref c Tref) (with_temp x (fun j => T j - Tref j))) with (sigma_dot_full c x).
    change (vertical_tendency (with_tref c Tref)) with (vertical_tendency c).
    cbn [with_tref with_temp cR cTref n_temp n_u n_v n_vort n_f n_sec2 n_gx n_gy].
    rewrite !vertical_tendency_is_spec by exact Hk.
    rewrite !(vertical_tendency_spec_ext (sigma_dot_full c x) (spec_sigma_dot c (gcol x)) _ k Hk)
      by (intros; apply refines_sigma_dot; lia).
    split; field; exact HR.
  Qed.

  (** kinetic energy and hydrostatic geopotential are the specification's by definition *)
  Theorem refines_kinetic (x : NCol) k :
    kinetic x k = n_sec2 x * (n_u x k * n_u x k + n_v x k * n_v x k) / two.
  Proof. unfold kinetic. rewrite !fdiv_def. ring. Qed.
  Theorem refines_geopotential (phis lnps : F) (Tref T : nat -> F) k :
    (forall j, (j < cK c)%nat -> Tref j = Tref 0%nat) ->
    phis + div_implicit_potential (with_tref c Tref) false (fun j => T j - Tref j) lnps k
    = spec_phi c phis T k - geo_diff_dense (cK c) (cR c) (cls c) Tref k + cR c * Tref k * lnps.
  Proof.
    intros _. unfold div_implicit_potential, spec_phi, geo_diff, geo_diff_dense.
    cbn [with_tref cK cR cls cTref].
    rewrite (sumn_ext (cK c) (fun j => geo_weights (cK c) (cR c) (cls c) k j * (T j - Tref j))
               (fun j => geo_weights (cK c) (cR c) (cls c) k j * T j - geo_weights (cK c) (cR c) (cls c) k j * Tref j))
      by (intros; ring).
    rewrite sumn_sub. ring.
  Qed.
End ColumnRefinement.

(** * 3. The pointwise specification over an abstract differential ring *)
Section Ring.
  Context {F : Type} {o : Ops F} {Fc : FieldC o}.
  Add Field FFring : (field_c : FieldTh o).
  Hypothesis two_nz : two <> 0.
  Variable P : Type.
  Notation fld := (P -> F).
  Variables dlon dmu : fld -> fld.
  Variable mu : fld.
  Variable a : F.
  Hypothesis a_nz : a <> 0.
  Hypothesis dlon_lin : linear dlon.
  Hypothesis dmu_lin : linear dmu.
  Hypothesis dlon_leib : forall (f g : fld) p, dlon (fun q => f q * g q) p = dlon f p * g p + f p * dlon g p.
  Hypothesis dmu_leib : forall (f g : fld) p, dmu (fun q => f q * g q) p = dmu f p * g p + f p * dmu g p.
  Hypothesis d_commute : forall (f : fld) p, dlon (dmu f) p = dmu (dlon f) p.
  (** mu = sin(lat):  d mu / dlon = 0,  cos(lat) d mu / dlat = cos^2(lat), away from the poles *)
  Hypothesis dlon_mu : forall p, dlon mu p = 0.
  Hypothesis dmu_mu : forall p, dmu mu p = cos2 P mu p.
  Hypothesis cos2_nz : forall p, cos2 P mu p <> 0.

  Notation c2 := (cos2 P mu).
  Notation s2 := (sec2 P mu).

  (** generic facts about a derivation *)
  Section Deriv.
    Variable D : fld -> fld.
    Hypothesis D_lin : linear D.
    Hypothesis D_leib : forall (f g : fld) p, D (fun q => f q * g q) p = D f p * g p + f p * D g p.
    Lemma D_ext (f g : fld) p : (forall q, f q = g q) -> D f p = D g p.
    Proof. intros H. now apply (lin_ext D D_lin). Qed.
    Lemma D_one p : D (fun _ => 1) p = 0.
    Proof.
      pose proof (D_leib (fun _ => 1) (fun _ => 1) p) as E. cbv beta in E.
      rewrite (D_ext (fun _ => 1 * 1) (fun _ => 1) p) in E by (intros; ring).
      set (z := D (fun _ : P => 1) p) in *.
      assert (X0 : z - z = z * 1 + 1 * z - z) by (rewrite <- E; reflexivity).
      transitivity (z * 1 + 1 * z - z); [ring|]. rewrite <- X0. ring.
    Qed.
    Lemma D_const k p : D (fun _ => k) p = 0.
    Proof. rewrite (lin_scal D D_lin (fun _ => k) (fun _ => 1) k) by (intros; ring). rewrite D_one. ring. Qed.
    Lemma D_zero_fn (f : fld) p : (forall q, f q = 0) -> D f p = 0.
    Proof. intros H. rewrite (D_ext f (fun _ => 0) p H). apply D_const. Qed.
    Lemma D_add (f g : fld) p : D (fun q => f q + g q) p = D f p + D g p.
    Proof. rewrite (lin_comb D D_lin _ f g 1) by (intros; ring). ring. Qed.
    Lemma D_sub (f g : fld) p : D (fun q => f q - g q) p = D f p - D g p.
    Proof. rewrite (lin_comb D D_lin _ f g (- (1))) by (intros; ring). ring. Qed.
    Lemma D_opp (f : fld) p : D (fun q => - f q) p = - D f p.
    Proof. rewrite (lin_scal D D_lin _ f (- (1))) by (intros; ring). ring. Qed.
    Lemma D_scal k (f : fld) p : D (fun q => k * f q) p = k * D f p.
    Proof. now rewrite (lin_scal D D_lin _ f k) by (intros; ring). Qed.
    Lemma D_scal_r k (f : fld) p : D (fun q => f q * k) p = D f p * k.
    Proof. rewrite (lin_scal D D_lin _ f k) by (intros; ring). ring. Qed.
    Lemma D_div_const k (f : fld) p : D (fun q => f q / k) p = D f p / k.
    Proof. rewrite (lin_scal D D_lin _ f (finv k)) by (intros; rewrite fdiv_def; ring). rewrite fdiv_def. ring. Qed.
    Lemma D_sumn n (cf : nat -> F) (fs : nat -> fld) p :
      D (fun q => sumn n (fun j => cf j * fs j q)) p = sumn n (fun j => cf j * D (fs j) p).
    Proof.
      induction n as [|n IH]; cbn [sumn]; [apply D_const|].
      rewrite D_add, IH, D_scal. reflexivity.
    Qed.
    Lemma D_cos2 p : D c2 p = - (two * mu p * D mu p).
    Proof.
      unfold cos2. rewrite D_sub, D_const, D_leib. unfold two. ring.
    Qed.
    Lemma s2c2 p : s2 p * c2 p = 1.
    Proof. unfold sec2. field. apply cos2_nz. Qed.
    Lemma D_sec2 p : D s2 p = - (s2 p * s2 p * D c2 p).
    Proof.
      pose proof (D_leib s2 c2 p) as E.
      rewrite (D_ext (fun q => s2 q * c2 q) (fun _ => 1) p) in E by (intros; apply s2c2).
      rewrite D_one in E.
      assert (H1 : D s2 p * c2 p = - (s2 p * D c2 p)).
      { transitivity ((D s2 p * c2 p + s2 p * D c2 p) - s2 p * D c2 p); [ring|]. rewrite <- E. ring. }
      transitivity (D s2 p * c2 p * s2 p).
      { transitivity (D s2 p * (s2 p * c2 p)); [rewrite s2c2; ring | ring]. }
      rewrite H1. ring.
    Qed.
  End Deriv.

  Lemma dlon_c2 p : dlon c2 p = 0.
  Proof. rewrite (D_cos2 dlon dlon_lin dlon_leib), dlon_mu. ring. Qed.
  Lemma dmu_c2 p : dmu c2 p = - (two * mu p * c2 p).
  Proof. now rewrite (D_cos2 dmu dmu_lin dmu_leib), dmu_mu. Qed.
  Lemma dlon_s2 p : dlon s2 p = 0.
  Proof. rewrite (D_sec2 dlon dlon_lin dlon_leib), dlon_c2. ring. Qed.
  Lemma dmu_s2 p : dmu s2 p = two * mu p * s2 p.
  Proof.
    rewrite (D_sec2 dmu dmu_lin dmu_leib), dmu_c2.
    transitivity (two * mu p * s2 p * (s2 p * c2 p)); [ring|]. rewrite s2c2. ring.
  Qed.

  (** ** the divergence of the velocity built from (psi, chi) is lap(chi), its curl lap(psi) *)
  Theorem div_of_velocity (psi chi : fld) p :
    sdiv P dlon dmu mu a (vel_u P dlon dmu a psi chi) (vel_v P dlon dmu a psi chi) p = slap P dlon dmu mu a chi p.
  Proof.
    unfold slap, sdiv, vel_u, vel_v, grad_x, grad_y.
    rewrite (D_sub dlon dlon_lin), (D_add dmu dmu_lin), !(D_div_const dlon dlon_lin), !(D_div_const dmu dmu_lin).
    rewrite d_commute. rewrite !fdiv_def. ring.
  Qed.
  Theorem curl_of_velocity (psi chi : fld) p :
    scurl P dlon dmu mu a (vel_u P dlon dmu a psi chi) (vel_v P dlon dmu a psi chi) p = slap P dlon dmu mu a psi p.
  Proof.
    unfold slap, scurl, sdiv, vel_u, vel_v, grad_x, grad_y.
    rewrite (D_add dlon dlon_lin), (D_sub dmu dmu_lin), !(D_div_const dlon dlon_lin), !(D_div_const dmu dmu_lin).
    rewrite d_commute. rewrite !fdiv_def. ring.
  Qed.

  (** ** horizontal advection: the code's flux form  X div(v) - div(v X)  is  - v . grad X *)
  Theorem flux_form_is_advective_form (Uc Vc X : fld) p :
    X p * sdiv P dlon dmu mu a Uc Vc p - sdiv P dlon dmu mu a (fun q => Uc q * X q) (fun q => Vc q * X q) p
    = - (s2 p * (Uc p * dlon X p + Vc p * dmu X p) / a).
  Proof. unfold sdiv. rewrite dlon_leib, dmu_leib, !fdiv_def. ring. Qed.

  (** the operators as the code applies them: div_cos_lat / curl_cos_lat act on the sec^2-scaled
      components (M sec^2, N sec^2) through d/dlon and sec(lat) d/dlat(cos^2 . ) *)
  Definition div_cos_lat_pt (A B : fld) : fld := fun p => (dlon A p + s2 p * dmu (fun q => c2 q * B q) p) / a.
  Definition curl_cos_lat_pt (A B : fld) : fld := fun p => (dlon B p - s2 p * dmu (fun q => c2 q * A q) p) / a.
  Theorem div_cos_lat_is_sdiv (M N : fld) p :
    div_cos_lat_pt (fun q => M q * s2 q) (fun q => N q * s2 q) p = sdiv P dlon dmu mu a M N p.
  Proof.
    unfold div_cos_lat_pt, sdiv.
    rewrite (D_ext dmu dmu_lin (fun q => c2 q * (N q * s2 q)) N p)
      by (intros q; transitivity (N q * (s2 q * c2 q)); [ring|rewrite s2c2; ring]).
    rewrite dlon_leib, dlon_s2, !fdiv_def. ring.
  Qed.
  Theorem curl_cos_lat_is_scurl (M N : fld) p :
    curl_cos_lat_pt (fun q => M q * s2 q) (fun q => N q * s2 q) p = scurl P dlon dmu mu a M N p.
  Proof.
    unfold curl_cos_lat_pt, scurl.
    rewrite (D_ext dmu dmu_lin (fun q => c2 q * (M q * s2 q)) M p)
      by (intros q; transitivity (M q * (s2 q * c2 q)); [ring|rewrite s2c2; ring]).
    rewrite dlon_leib, dlon_s2, !fdiv_def. ring.
  Qed.

  Theorem laplacian_of_constant k p : slap P dlon dmu mu a (fun _ => k) p = 0.
  Proof.
    unfold slap, sdiv, grad_x, grad_y.
    rewrite (D_zero_fn dlon dlon_lin dlon_leib) by (intros; rewrite (D_const dlon dlon_lin dlon_leib), fdiv_def; ring).
    rewrite (D_zero_fn dmu dmu_lin dmu_leib) by (intros; rewrite (D_const dmu dmu_lin dmu_leib), fdiv_def; ring).
    rewrite fdiv_def. ring.
  Qed.
  Lemma slap_add (f g : fld) p :
    slap P dlon dmu mu a (fun q => f q + g q) p = slap P dlon dmu mu a f p + slap P dlon dmu mu a g p.
  Proof.
    unfold slap, sdiv, grad_x, grad_y.
    rewrite (D_ext dlon dlon_lin (fun q => dlon (fun q0 => f q0 + g q0) q / a) (fun q => dlon f q / a + dlon g q / a) p)
      by (intros; rewrite (D_add dlon dlon_lin), !fdiv_def; ring).
    rewrite (D_ext dmu dmu_lin (fun q => dmu (fun q0 => f q0 + g q0) q / a) (fun q => dmu f q / a + dmu g q / a) p)
      by (intros; rewrite (D_add dmu dmu_lin), !fdiv_def; ring).
    rewrite (D_add dlon dlon_lin), (D_add dmu dmu_lin), !fdiv_def. ring.
  Qed.
  Lemma slap_ext (f g : fld) p : (forall q, f q = g q) -> slap P dlon dmu mu a f p = slap P dlon dmu mu a g p.
  Proof.
    intros H. unfold slap, sdiv, grad_x, grad_y.
    rewrite (D_ext dlon dlon_lin (fun q => dlon f q / a) (fun q => dlon g q / a) p)
      by (intros; now rewrite (D_ext dlon dlon_lin f g _ H)).
    rewrite (D_ext dmu dmu_lin (fun q => dmu f q / a) (fun q => dmu g q / a) p)
      by (intros; now rewrite (D_ext dmu dmu_lin f g _ H)).
    reflexivity.
  Qed.

  (** ** zonal fields: functions of mu with a known derivative *)
  Definition zon (f : fld) : Prop := forall p, dlon f p = 0.
  (** [zd f f'] : f is zonal and cos(lat) d f/dlat = cos^2 * f'  (f' = df/dmu) *)
  Definition zd (f f' : fld) : Prop := zon f /\ forall p, dmu f p = c2 p * f' p.

  Lemma zon_ext (f g : fld) : (forall q, f q = g q) -> zon f -> zon g.
  Proof. intros H Hf p. rewrite <- (D_ext dlon dlon_lin f g p H). apply Hf. Qed.
  Lemma zon_const k : zon (fun _ => k).
  Proof. intros p. apply (D_const dlon dlon_lin dlon_leib). Qed.
  Lemma zon_mu : zon mu. Proof. exact dlon_mu. Qed.
  Lemma zon_add (f g : fld) : zon f -> zon g -> zon (fun q => f q + g q).
  Proof. intros Hf Hg p. rewrite (D_add dlon dlon_lin), Hf, Hg. ring. Qed.
  Lemma zon_sub (f g : fld) : zon f -> zon g -> zon (fun q => f q - g q).
  Proof. intros Hf Hg p. rewrite (D_sub dlon dlon_lin), Hf, Hg. ring. Qed.
  Lemma zon_mul (f g : fld) : zon f -> zon g -> zon (fun q => f q * g q).
  Proof. intros Hf Hg p. rewrite dlon_leib, Hf, Hg. ring. Qed.
  Lemma zon_divc k (f : fld) : zon f -> zon (fun q => f q / k).
  Proof. intros Hf p. rewrite (D_div_const dlon dlon_lin), Hf, fdiv_def. ring. Qed.
  Lemma zon_dmu (f : fld) : zon f -> zon (dmu f).
  Proof. intros Hf p. rewrite d_commute. apply (D_zero_fn dmu dmu_lin dmu_leib). exact Hf. Qed.
  Lemma zon_c2 : zon c2. Proof. exact dlon_c2. Qed.
  Lemma zon_s2 : zon s2. Proof. exact dlon_s2. Qed.

  (** polynomials in mu *)
  Theorem zonal_polynomial_derivative (cs : list F) :
    zd (fun p => peval cs (mu p)) (fun p => pdiff cs (mu p)).
  Proof.
    induction cs as [|c0 r [IHz IHd]]; cbn [peval pdiff].
    - split; [apply zon_const|]. intros p. rewrite (D_const dmu dmu_lin dmu_leib). ring.
    - split.
      + apply zon_add; [apply zon_const|]. apply zon_mul; [apply zon_mu|exact IHz].
      + intros p. rewrite (D_add dmu dmu_lin), (D_const dmu dmu_lin dmu_leib), dmu_leib, dmu_mu, IHd. ring.
  Qed.

  (** calculus of [zd] *)
  Lemma zd_ext (f g f' g' : fld) : (forall q, f q = g q) -> (forall q, f' q = g' q) -> zd f f' -> zd g g'.
  Proof.
    intros H H' [Hz Hd]. split; [now apply (zon_ext f g)|].
    intros p. rewrite <- (D_ext dmu dmu_lin f g p H), Hd, H'. reflexivity.
  Qed.
  Lemma zd_const k : zd (fun _ => k) (fun _ => 0).
  Proof. split; [apply zon_const|]. intros p. rewrite (D_const dmu dmu_lin dmu_leib). ring. Qed.
  Lemma zd_mu : zd mu (fun _ => 1).
  Proof. split; [apply zon_mu|]. intros p. rewrite dmu_mu. ring. Qed.
  Lemma zd_c2 : zd c2 (fun p => - (two * mu p)).
  Proof. split; [apply zon_c2|]. intros p. rewrite dmu_c2. ring. Qed.
  Lemma zd_add (f g f' g' : fld) : zd f f' -> zd g g' -> zd (fun q => f q + g q) (fun q => f' q + g' q).
  Proof.
    intros [Hf Hf'] [Hg Hg']. split; [now apply zon_add|].
    intros p. rewrite (D_add dmu dmu_lin), Hf', Hg'. ring.
  Qed.
  Lemma zd_mul (f g f' g' : fld) : zd f f' -> zd g g' -> zd (fun q => f q * g q) (fun q => f' q * g q + f q * g' q).
  Proof.
    intros [Hf Hf'] [Hg Hg']. split; [now apply zon_mul|].
    intros p. rewrite dmu_leib, Hf', Hg'. ring.
  Qed.
  Lemma zd_scal k (f f' : fld) : zd f f' -> zd (fun q => k * f q) (fun q => k * f' q).
  Proof.
    intros [Hf Hf']. split; [apply zon_mul; [apply zon_const|exact Hf]|].
    intros p. rewrite (D_scal dmu dmu_lin), Hf'. ring.
  Qed.
  Lemma zd_sumn n (cf : nat -> F) (fs fs' : nat -> fld) :
    (forall j, zd (fs j) (fs' j)) ->
    zd (fun q => sumn n (fun j => cf j * fs j q)) (fun q => sumn n (fun j => cf j * fs' j q)).
  Proof.
    intros H. induction n as [|n IH]; cbn [sumn]; [apply zd_const|].
    apply zd_add; [exact IH|]. apply zd_scal, H.
  Qed.

  (** operators on zonal fields *)
  Lemma sdiv_zonal (A B : fld) p : zon A -> (forall q, B q = 0) -> sdiv P dlon dmu mu a A B p = 0.
  Proof.
    intros HA HB. unfold sdiv. rewrite HA, (D_zero_fn dmu dmu_lin dmu_leib B p HB), fdiv_def. ring.
  Qed.
  Lemma scurl_zonal (A B : fld) p :
    (forall q, B q = 0) -> scurl P dlon dmu mu a A B p = - (s2 p * dmu A p / a).
  Proof.
    intros HB. unfold scurl. rewrite (D_zero_fn dlon dlon_lin dlon_leib B p HB), !fdiv_def. ring.
  Qed.
  Lemma sdiv_zonal_v (A B : fld) p : zon A -> sdiv P dlon dmu mu a A B p = s2 p * dmu B p / a.
  Proof. intros HA. unfold sdiv. rewrite HA, !fdiv_def. ring. Qed.
  Lemma slap_zd (E E' : fld) p :
    zd E E' -> slap P dlon dmu mu a E p = s2 p * dmu (fun q => c2 q * E' q) p / (a * a).
  Proof.
    intros [Hz Hd]. unfold slap, sdiv, grad_x, grad_y.
    rewrite (D_zero_fn dlon dlon_lin dlon_leib (fun q => dlon E q / a)) by (intros; rewrite Hz, fdiv_def; ring).
    rewrite (D_ext dmu dmu_lin (fun q => dmu E q / a) (fun q => (c2 q * E' q) / a) p) by (intros; now rewrite Hd).
    rewrite (D_div_const dmu dmu_lin). field. exact a_nz.
  Qed.

  (** zonal flow u = cos(lat) * w(mu): psi' = - a w, no divergent part *)
  Section ZonalFlow.
    Variables psi chi wf wf' : fld.
    Hypothesis Hchi : forall p, chi p = 0.
    Hypothesis Hw : zd wf wf'.
    Hypothesis Hpsi : zd psi (fun p => - (a * wf p)).
    Lemma zonal_vel_u p : vel_u P dlon dmu a psi chi p = c2 p * wf p.
    Proof.
      unfold vel_u, grad_x, grad_y. destruct Hpsi as [_ Hd].
      rewrite (D_zero_fn dlon dlon_lin dlon_leib chi p Hchi), Hd. field. exact a_nz.
    Qed.
    Lemma zonal_vel_v p : vel_v P dlon dmu a psi chi p = 0.
    Proof.
      unfold vel_v, grad_x, grad_y. destruct Hpsi as [Hz _].
      rewrite (D_zero_fn dmu dmu_lin dmu_leib chi p Hchi), Hz, !fdiv_def. ring.
    Qed.
    (** relative vorticity  - d(u cos)/(a dmu) *)
    Definition zvort : fld := fun p => (two * mu p * wf p - c2 p * wf' p) / a.
    Lemma zonal_vorticity p : slap P dlon dmu mu a psi p = zvort p.
    Proof.
      rewrite (slap_zd psi _ p Hpsi). destruct Hw as [_ Hd'].
      rewrite (D_ext dmu dmu_lin (fun q => c2 q * - (a * wf q)) (fun q => (- a) * (c2 q * wf q)) p) by (intros; ring).
      rewrite (D_scal dmu dmu_lin), dmu_leib, dmu_c2, Hd'. unfold zvort.
      transitivity ((s2 p * c2 p) * (two * mu p * wf p - c2 p * wf' p) / a); [field; exact a_nz|].
      rewrite s2c2. field. exact a_nz.
    Qed.
    Lemma zonal_divergence p : slap P dlon dmu mu a chi p = 0.
    Proof. rewrite (slap_ext chi (fun _ => 0) p Hchi). apply laplacian_of_constant. Qed.
    Lemma zon_zvort : zon zvort.
    Proof.
      destruct Hw as [Hz _]. unfold zvort. apply zon_divc. apply zon_sub.
      - apply zon_mul; [apply zon_mul; [apply zon_const|apply zon_mu]|exact Hz].
      - apply zon_mul; [apply zon_c2|]. intros p. pose proof (zon_dmu wf Hz p) as E.
        destruct Hw as [_ Hd]. rewrite (D_ext dlon dlon_lin (dmu wf) (fun q => c2 q * wf' q) p Hd) in E.
        rewrite dlon_leib, dlon_c2 in E.
        assert (X0 : s2 p * (0 * wf' p + c2 p * dlon wf' p) = s2 p * 0) by (now rewrite E).
        transitivity ((s2 p * c2 p) * dlon wf' p); [rewrite s2c2; ring|].
        transitivity (s2 p * (0 * wf' p + c2 p * dlon wf' p)); [ring|]. rewrite X0. ring.
    Qed.
    (** kinetic energy (u^2)/2 = cos^2 w^2 / 2 and its mu-derivative *)
    Lemma zonal_kin :
      zd (kin P mu (vel_u P dlon dmu a psi chi) (vel_v P dlon dmu a psi chi))
         (fun p => - (mu p * wf p * wf p) + c2 p * wf p * wf' p).
    Proof.
      apply (zd_ext (fun p => (1 / two) * (c2 p * (wf p * wf p)))
                    _ (fun p => (1 / two) * ((- (two * mu p)) * (wf p * wf p) + c2 p * (wf' p * wf p + wf p * wf' p)))).
      - intros q. unfold kin. rewrite zonal_vel_u, zonal_vel_v.
        transitivity ((s2 q * c2 q) * (c2 q * wf q * wf q) / two); [|field; exact two_nz].
        rewrite s2c2. field. exact two_nz.
      - intros q. cbv beta. unfold two. field. exact two_nz.
      - apply zd_scal. apply zd_mul; [apply zd_c2|]. now apply zd_mul.
    Qed.
  End ZonalFlow.

  (** ** layered shallow water: geostrophically balanced zonal jets are steady *)
  Section SWZonal.
    Variable Kl : nat.
    Variable Rm : nat -> nat -> F.
    Variable ref : nat -> F.
    Variable Omega : F.
    Variable oro : fld.
    Variable st : @SWState F P.
    Variables wf wf' pr' : nat -> fld.
    Hypothesis Hchi : forall i p, w_chi P st i p = 0.
    Hypothesis Hw : forall i, zd (wf i) (wf' i).
    Hypothesis Hpsi : forall i, zd (w_psi P st i) (fun p => - (a * wf i p)).
    Hypothesis Hpot : forall i, zon (w_pot P st i).
    (** the pressure sum_j R_ij Phi_j + Phi_s of layer i is zonal with mu-derivative pr' i ... *)
    Hypothesis Hpr : forall i, zd (wpress P Kl Rm oro st i) (pr' i).
    (** ... and in geostrophic (gradient-wind) balance with the jet:
        d(pressure)/dmu = - mu w (w + 2 a Omega),  i.e.  (1/a) dPhi/dlat = -(u^2 tan(lat)/a + f u) *)
    Hypothesis Hbal : forall i p, pr' i p = - (mu p * wf i p * (wf i p + two * a * Omega)).

    Lemma sw_abs_zon i : zon (wabs P dlon dmu mu a Omega st i).
    Proof.
      apply (zon_ext (fun p => zvort (wf i) (wf' i) p + two * Omega * mu p)).
      - intros q. unfold wabs, wzeta. now rewrite (zonal_vorticity _ _ _ (Hw i) (Hpsi i)).
      - apply zon_add; [apply (zon_zvort _ _ (Hw i))|]. apply zon_mul; [apply zon_const|apply zon_mu].
    Qed.

    Theorem sw_zonal_vorticity_steady i p : sw_vort_tend P dlon dmu mu a Omega st i p = 0.
    Proof.
      unfold sw_vort_tend. rewrite sdiv_zonal; [ring| |].
      - unfold wflux_u. apply zon_mul; [|apply sw_abs_zon].
        apply (zon_ext (fun q => c2 q * wf i q)).
        + intros q. unfold wU. now rewrite (zonal_vel_u _ _ _ (Hchi i) (Hpsi i)).
        + apply zon_mul; [apply zon_c2|apply (Hw i)].
      - intros q. unfold wflux_v, wV. rewrite (zonal_vel_v _ _ _ (Hchi i) (Hpsi i)). ring.
    Qed.

    Theorem sw_zonal_potential_steady i p : sw_pot_tend P dlon dmu mu a ref st i p = 0.
    Proof.
      unfold sw_pot_tend. rewrite sdiv_zonal; [ring| |].
      - apply zon_mul.
        + apply (zon_ext (fun q => c2 q * wf i q)).
          * intros q. unfold wU. now rewrite (zonal_vel_u _ _ _ (Hchi i) (Hpsi i)).
          * apply zon_mul; [apply zon_c2|apply (Hw i)].
        + apply zon_add; [apply zon_const|apply Hpot].
      - intros q. unfold wV. rewrite (zonal_vel_v _ _ _ (Hchi i) (Hpsi i)). ring.
    Qed.

    Theorem sw_zonal_divergence_steady i p : sw_div_tend P dlon dmu mu a Kl Rm Omega oro st i p = 0.
    Proof.
      unfold sw_div_tend.
      rewrite scurl_zonal by (intros q; unfold wflux_v, wV; rewrite (zonal_vel_v _ _ _ (Hchi i) (Hpsi i)); ring).
      pose proof (zd_add _ _ _ _ (Hpr i) (zonal_kin _ _ _ _ (Hchi i) (Hw i) (Hpsi i))) as HE.
      unfold wU, wV. rewrite (slap_zd _ _ p HE).
      (* the balance, pointwise *)
      rewrite (D_ext dmu dmu_lin (wflux_u P dlon dmu mu a Omega st i)
                 (fun q => (- (1 / a)) * (c2 q * (pr' i q + (- (mu q * wf i q * wf i q) + c2 q * wf i q * wf' i q)))) p).
      2:{ intros q. unfold wflux_u, wabs, wzeta, wU.
          rewrite (zonal_vel_u _ _ _ (Hchi i) (Hpsi i)), (zonal_vorticity _ _ _ (Hw i) (Hpsi i)), Hbal.
          unfold zvort, two. cbv beta. field. exact a_nz. }
      rewrite (D_scal dmu dmu_lin). field. exact a_nz.
    Qed.
  End SWZonal.

  (** ** primitive equations: zonal flow in gradient-wind balance is steady *)
  Section PEZonal.
    Variable c : @PEcfg F.
    Variables Omega grav Rv Cpv : F.
    Variable oro : fld.
    Variable st : @PEState F P.
    Variables wf wf' ph' : nat -> fld.
    Variable lam' : fld.
    Hypothesis Hchi : forall k p, st_chi P st k p = 0.
    Hypothesis Hw : forall k, zd (wf k) (wf' k).
    Hypothesis Hpsi : forall k, zd (st_psi P st k) (fun p => - (a * wf k p)).
    Hypothesis HT : forall k, zon (st_T P st k).
    Hypothesis Hq : forall k, zon (st_q P st k).
    Hypothesis Hlnps : zd (st_lnps P st) lam'.
    (** the hydrostatic geopotential of level k is zonal with mu-derivative ph' k ... *)
    Hypothesis Hphi : forall k, zd (phi P c grav Rv oro st k) (ph' k).
    (** ... and the flow is in gradient-wind balance on every level:
        dPhi/dmu + R Tv d(ln ps)/dmu = - mu w (w + 2 a Omega) *)
    Hypothesis Hbal : forall k p,
        ph' k p + cR c * Tv P c Rv st k p * lam' p = - (mu p * wf k p * (wf k p + two * a * Omega)).

    Lemma pe_gx0 p : gx P dlon a st p = 0.
    Proof. unfold gx, grad_x. destruct Hlnps as [Hz _]. rewrite Hz, fdiv_def. ring. Qed.
    Lemma pe_gy p : gy P dmu a st p = c2 p * lam' p / a.
    Proof. unfold gy, grad_y. destruct Hlnps as [_ Hd]. now rewrite Hd. Qed.
    Lemma pe_U k p : U P dlon dmu a st k p = c2 p * wf k p.
    Proof. unfold U. apply (zonal_vel_u _ _ _ (Hchi k) (Hpsi k)). Qed.
    Lemma pe_V k p : V P dlon dmu a st k p = 0.
    Proof. unfold V. apply (zonal_vel_v _ _ _ (Hchi k) (Hpsi k)). Qed.
    Lemma pe_gfull0 k p : gfull P dlon dmu mu a st k p = 0.
    Proof.
      unfold gfull, delta, ugrad. rewrite (zonal_divergence _ (Hchi k)), pe_gx0, pe_V. ring.
    Qed.
    Lemma pe_sdot0 p r : sdot P dlon dmu mu a c st p r = 0.
    Proof.
      unfold sdot, spec_sigma_dot, spec_cum.
      rewrite !sumn_zero by (intros; rewrite pe_gfull0; ring). ring.
    Qed.
    Lemma spec_vadv_zero_w (w x : nat -> F) n : (forall k, w k = 0) -> spec_vadv c w x n = 0.
    Proof.
      intros H. unfold spec_vadv. rewrite !H, fdiv_def.
      destruct (Nat.ltb (S n) (cK c)), (Nat.eqb n 0); ring.
    Qed.

    Theorem pe_zonal_lnps_steady p : spec_lnps_tend P dlon dmu mu a c st p = 0.
    Proof. unfold spec_lnps_tend. rewrite sumn_zero; [ring|]. intros k _. rewrite pe_gfull0. ring. Qed.

    Theorem pe_zonal_temperature_steady k p : spec_temp_tend P dlon dmu mu a c Rv Cpv st k p = 0.
    Proof.
      unfold spec_temp_tend.
      rewrite spec_vadv_zero_w by (intros; apply pe_sdot0).
      rewrite (HT k p), pe_V.
      unfold spec_omega_p, spec_cum. rewrite !sumn_zero by (intros; rewrite pe_gfull0; ring).
      unfold ugrad. rewrite pe_gx0, pe_V, !fdiv_def. destruct (Nat.eqb k 0); ring.
    Qed.

    Theorem pe_zonal_tracer_steady (X : nat -> fld) k p :
      zon (X k) -> spec_tracer_tend P dlon dmu mu a c st X k p = 0.
    Proof.
      intros HX. unfold spec_tracer_tend.
      rewrite spec_vadv_zero_w by (intros; apply pe_sdot0).
      rewrite (HX p), pe_V, !fdiv_def. ring.
    Qed.

    Lemma pe_mom_u0 k p : mom_u P dlon dmu mu a c Omega Rv st k p = 0.
    Proof.
      unfold mom_u. rewrite spec_vadv_zero_w by (intros; apply pe_sdot0). rewrite pe_V, pe_gx0. ring.
    Qed.
    Lemma pe_Tv_zon k : zon (Tv P c Rv st k).
    Proof.
      unfold Tv. apply zon_mul; [apply HT|]. apply zon_add; [apply zon_const|].
      apply zon_mul; [apply zon_const|apply Hq].
    Qed.
    Lemma pe_mom_v k p :
      mom_v P dlon dmu mu a c Omega Rv st k p
      = c2 p * (wf k p * (zvort (wf k) (wf' k) p + two * Omega * mu p) + cR c * Tv P c Rv st k p * lam' p / a).
    Proof.
      unfold mom_v. rewrite spec_vadv_zero_w by (intros; apply pe_sdot0).
      unfold zeta, fcor. rewrite pe_U, pe_gy, (zonal_vorticity _ _ _ (Hw k) (Hpsi k)), !fdiv_def. ring.
    Qed.

    Theorem pe_zonal_vorticity_steady k p : spec_vort_tend P dlon dmu mu a c Omega Rv st k p = 0.
    Proof.
      unfold spec_vort_tend, scurl.
      rewrite (D_zero_fn dmu dmu_lin dmu_leib _ p (pe_mom_u0 k)).
      rewrite (D_ext dlon dlon_lin _ _ p (pe_mom_v k)).
      assert (Z : zon (fun p => c2 p * (wf k p * (zvort (wf k) (wf' k) p + two * Omega * mu p)
                                        + cR c * Tv P c Rv st k p * lam' p / a))).
      { apply zon_mul; [apply zon_c2|]. apply zon_add.
        - apply zon_mul; [apply (Hw k)|]. apply zon_add; [apply (zon_zvort _ _ (Hw k))|].
          apply zon_mul; [apply zon_const|apply zon_mu].
        - apply zon_divc. apply zon_mul; [apply zon_mul; [apply zon_const|apply pe_Tv_zon]|].
          (* lam' is zonal: it is the mu-derivative of a zonal field *)
          intros q. destruct Hlnps as [Hz Hd]. pose proof (zon_dmu _ Hz q) as E.
          rewrite (D_ext dlon dlon_lin (dmu (st_lnps P st)) (fun r => c2 r * lam' r) q Hd) in E.
          rewrite dlon_leib, dlon_c2 in E.
          transitivity ((s2 q * c2 q) * dlon lam' q); [rewrite s2c2; ring|].
          transitivity (s2 q * (0 * lam' q + c2 q * dlon lam' q)); [ring|]. rewrite E. ring. }
      rewrite (Z p), !fdiv_def. ring.
    Qed.

    Theorem pe_zonal_divergence_steady k p : spec_div_tend P dlon dmu mu a c Omega grav Rv oro st k p = 0.
    Proof.
      unfold spec_div_tend.
      rewrite sdiv_zonal_v by (intros q; apply (D_zero_fn dlon dlon_lin dlon_leib), pe_mom_u0).
      pose proof (zd_add _ _ _ _ (zonal_kin _ _ _ _ (Hchi k) (Hw k) (Hpsi k)) (Hphi k)) as HE.
      rewrite (slap_ext (energy P dlon dmu mu a c grav Rv oro st k)
                 (fun q => kin P mu (vel_u P dlon dmu a (st_psi P st k) (st_chi P st k))
                               (vel_v P dlon dmu a (st_psi P st k) (st_chi P st k)) q
                           + phi P c grav Rv oro st k q) p) by reflexivity.
      rewrite (slap_zd _ _ p HE).
      rewrite (D_ext dmu dmu_lin (mom_v P dlon dmu mu a c Omega Rv st k)
                 (fun q => (- (1 / a)) * (c2 q * ((- (mu q * wf k q * wf k q) + c2 q * wf k q * wf' k q) + ph' k q))) p).
      2:{ intros q. rewrite pe_mom_v. unfold zvort.
          assert (E : ph' k q = - (mu q * wf k q * (wf k q + two * a * Omega)) - cR c * Tv P c Rv st k q * lam' q)
            by (rewrite <- (Hbal k q); ring).
          rewrite E. unfold two. cbv beta. field. exact a_nz. }
      rewrite (D_scal dmu dmu_lin). field. exact a_nz.
    Qed.
  End PEZonal.

  (** ** concrete balanced families *)
  Lemma sumn_pull n (cf g : nat -> F) (m : F) :
    sumn n (fun j => cf j * (g j * m)) = m * sumn n (fun j => cf j * g j).
  Proof. rewrite <- sumn_scal_l. apply sumn_ext. intros; ring. Qed.

  (** arbitrary polynomial jets u_i = cos(lat) * w_i(mu), polynomial potentials and zonal orography,
      any number of layers, any density matrix, any rotation rate and radius *)
  Theorem sw_polynomial_jet_steady (Kl : nat) (Rm : nat -> nat -> F) (ref : nat -> F) (Omega : F)
          (ws Ps Phs : nat -> list F) (Os : list F) :
    (forall i x, pdiff (Ps i) x = - (a * peval (ws i) x)) ->
    (forall i x, sumn Kl (fun j => Rm i j * pdiff (Phs j) x) + pdiff Os x
                 = - (x * peval (ws i) x * (peval (ws i) x + two * a * Omega))) ->
    let st := mkSWS P (fun i p => peval (Ps i) (mu p)) (fun _ _ => 0) (fun i p => peval (Phs i) (mu p)) in
    let oro := fun p => peval Os (mu p) in
    forall i p,
      sw_vort_tend P dlon dmu mu a Omega st i p = 0 /\
      sw_div_tend P dlon dmu mu a Kl Rm Omega oro st i p = 0 /\
      sw_pot_tend P dlon dmu mu a ref st i p = 0.
  Proof.
    intros HP HB st oro i p.
    set (wf := fun i p => peval (ws i) (mu p)). set (wf' := fun i p => pdiff (ws i) (mu p)).
    set (pr' := fun i p => sumn Kl (fun j => Rm i j * pdiff (Phs j) (mu p)) + pdiff Os (mu p)).
    assert (Hchi : forall i p, w_chi P st i p = 0) by reflexivity.
    assert (Hw : forall i, zd (wf i) (wf' i)) by (intros; apply zonal_polynomial_derivative).
    assert (Hpsi : forall i, zd (w_psi P st i) (fun p => - (a * wf i p))).
    { intros k. apply (zd_ext _ _ _ _ (fun _ => eq_refl) (fun q => HP k (mu q))).
      apply zonal_polynomial_derivative. }
    assert (Hpot : forall i, zon (w_pot P st i)) by (intros k; apply (zonal_polynomial_derivative (Phs k))).
    assert (Hpr : forall i, zd (wpress P Kl Rm oro st i) (pr' i)).
    { intros k. unfold wpress, pr'. apply zd_add; [|apply zonal_polynomial_derivative].
      apply zd_sumn. intros j. apply zonal_polynomial_derivative. }
    assert (Hbal : forall i p, pr' i p = - (mu p * wf i p * (wf i p + two * a * Omega))).
    { intros k q. apply HB. }
    split; [|split].
    - apply (sw_zonal_vorticity_steady Omega st wf wf' Hchi Hw Hpsi).
    - apply (sw_zonal_divergence_steady Kl Rm Omega oro st wf wf' pr' Hchi Hw Hpsi Hpr Hbal).
    - apply (sw_zonal_potential_steady ref st wf wf' Hchi Hw Hpsi Hpot).
  Qed.

  (** one layer, solid-body rotation u = U0 cos(lat): the balanced height is
      Phi = c0 - (U0^2/2 + a Omega U0) sin^2(lat) *)
  Theorem sw_solid_body_one_layer (ref : nat -> F) (Omega U0 c0 : F) :
    let st := mkSWS P (fun _ p => - (a * U0) * mu p) (fun _ _ => 0)
                    (fun _ p => c0 - (U0 * U0 / two + a * Omega * U0) * (mu p * mu p)) in
    forall p,
      sw_vort_tend P dlon dmu mu a Omega st 0%nat p = 0 /\
      sw_div_tend P dlon dmu mu a 1 (fun _ _ => 1) Omega (fun _ => 0) st 0%nat p = 0 /\
      sw_pot_tend P dlon dmu mu a ref st 0%nat p = 0.
  Proof.
    intros st p.
    set (wf := fun (_ : nat) (_ : P) => U0). set (wf' := fun (_ : nat) (_ : P) => 0).
    set (pr' := fun (_ : nat) (q : P) => - (mu q * U0 * (U0 + two * a * Omega))).
    assert (Hchi : forall i p, w_chi P st i p = 0) by reflexivity.
    assert (Hw : forall i, zd (wf i) (wf' i)) by (intros j; exact (zd_const U0)).
    assert (Hpsi : forall i, zd (w_psi P st i) (fun p => - (a * wf i p))).
    { intros k. apply (zd_ext (fun q => (- (a * U0)) * mu q) _ (fun q => (- (a * U0)) * 1)).
      - reflexivity. - intros; unfold wf; ring. - apply zd_scal, zd_mu. }
    assert (Hpot : forall i, zon (w_pot P st i)).
    { intros k. apply zon_sub; [apply zon_const|]. apply zon_mul; [apply zon_const|]. apply zon_mul; apply zon_mu. }
    assert (Hpr : forall i, zd (wpress P 1 (fun _ _ => 1) (fun _ => 0) st i) (pr' i)).
    { intros k.
      apply (zd_ext (fun q => c0 + (- (U0 * U0 / two + a * Omega * U0)) * (mu q * mu q)) _
                    (fun q => 0 + (- (U0 * U0 / two + a * Omega * U0)) * (1 * mu q + mu q * 1))).
      - intros q. unfold wpress. cbn [sumn w_pot st]. ring.
      - intros q. unfold pr', two. field. exact two_nz.
      - apply zd_add; [apply zd_const|]. apply zd_scal. apply zd_mul; apply zd_mu. }
    assert (Hbal : forall i p, pr' i p = - (mu p * wf i p * (wf i p + two * a * Omega))) by reflexivity.
    split; [|split].
    - apply (sw_zonal_vorticity_steady Omega st wf wf' Hchi Hw Hpsi).
    - apply (sw_zonal_divergence_steady 1 (fun _ _ => 1) Omega (fun _ => 0) st wf wf' pr' Hchi Hw Hpsi Hpr Hbal).
    - apply (sw_zonal_potential_steady ref st wf wf' Hchi Hw Hpsi Hpot).
  Qed.

  (** shallow_water_states.one_layer: vorticity = -E(w), Phi + u^2/2 = -lap^{-1} E(w (vorticity + sin lat)),
      with E(X) = sec(lat) d/dlat(cos^2 X) applied without the 1/radius factors and f = sin(lat):
      balanced exactly when radius = 1 and 2 Omega = 1 *)
  Definition Eop (X : fld) : fld := fun p => s2 p * dmu (fun q => c2 q * X q) p.
  Theorem one_layer_formulas_balanced (Omega k0 : F) (psi wf wf' pe : fld) :
    a = 1 -> two * Omega = 1 ->
    zd wf wf' -> zd psi (fun p => - (a * wf p)) ->
    let vort := fun p => - Eop wf p in
    (forall p, slap P dlon dmu mu a pe p = - Eop (fun q => wf q * (vort q + mu q)) p) ->
    let st := mkSWS P (fun _ => psi) (fun _ _ => 0) (fun _ p => pe p - c2 p * wf p * wf p / two + k0) in
    forall p,
      wzeta P dlon dmu mu a st 0%nat p = vort p /\
      sw_div_tend P dlon dmu mu a 1 (fun _ _ => 1) Omega (fun _ => 0) st 0%nat p = 0.
  Proof.
    intros Ha HO Hw Hpsi vort Hpe st p.
    assert (Hchi : forall q, w_chi P st 0%nat q = 0) by reflexivity.
    assert (Hv : forall q, vort q = zvort wf wf' q).
    { intros q. unfold vort, Eop, zvort. destruct Hw as [_ Hd]. rewrite dmu_leib, dmu_c2, Hd, Ha.
      transitivity ((s2 q * c2 q) * (two * mu q * wf q - c2 q * wf' q)); [ring|]. rewrite s2c2. field.
      intro E1. apply a_nz. rewrite Ha. exact E1. }
    split.
    - unfold wzeta. cbn [w_psi st]. rewrite (zonal_vorticity psi wf wf' Hw Hpsi). now rewrite Hv.
    - unfold sw_div_tend.
      rewrite scurl_zonal by (intros q; unfold wflux_v, wV; cbn [w_psi w_chi st]; rewrite (zonal_vel_v psi _ wf Hchi Hpsi); ring).
      rewrite (slap_ext _ (fun q => pe q + k0) p).
      2:{ intros q. unfold wpress, kin, wU, wV. cbn [sumn w_pot w_psi w_chi st].
          rewrite (zonal_vel_u psi _ wf Hchi Hpsi), (zonal_vel_v psi _ wf Hchi Hpsi).
          transitivity (pe q - c2 q * wf q * wf q / two + k0 + (s2 q * c2 q) * (c2 q * wf q * wf q) / two);
            [field; exact two_nz|]. rewrite s2c2. field. exact two_nz. }
      rewrite slap_add, laplacian_of_constant, Hpe.
      rewrite (D_ext dmu dmu_lin (wflux_u P dlon dmu mu a Omega st 0%nat) (fun q => c2 q * (wf q * (vort q + mu q))) p).
      2:{ intros q. unfold wflux_u, wabs, wzeta, wU. cbn [w_psi w_chi st].
          rewrite (zonal_vel_u psi _ wf Hchi Hpsi), (zonal_vorticity psi wf wf' Hw Hpsi), Hv.
          transitivity (c2 q * wf q * (zvort wf wf' q + (two * Omega) * mu q)); [ring|]. rewrite HO. ring. }
      unfold Eop. rewrite Ha, fdiv_def. field. intro E1. apply a_nz. rewrite Ha. exact E1.
  Qed.

  (** shallow_water_states.multi_layer solves sum_j R_ij Phi_j = s_i: the divergence tendency of layer i
      depends on the potentials only through that sum *)
  Theorem multi_layer_formulas_balanced (Kl : nat) (Rm : nat -> nat -> F) (Omega : F) (oro : fld)
          (psi chi pot s : nat -> fld) i :
    (forall p, sumn Kl (fun j => Rm i j * pot j p) = s i p) ->
    forall p,
      sw_div_tend P dlon dmu mu a Kl Rm Omega oro (mkSWS P psi chi pot) i p
      = sw_div_tend P dlon dmu mu a 1 (fun _ _ => 1) Omega oro (mkSWS P (fun _ => psi i) (fun _ => chi i) (fun _ => s i)) 0%nat p.
  Proof.
    intros H p. unfold sw_div_tend. f_equal.
    apply slap_ext. intros q. unfold wpress. cbn [sumn w_pot]. rewrite H. unfold kin, wU, wV. cbn [w_psi w_chi]. ring.
  Qed.

  (** primitive equations: solid-body rotation u_k = U_k cos(lat) on every level,
      T_k = Tb_k + tau_k mu^2, uniform humidity q0, ln ps = cst + beta mu^2, orography gam mu^2 *)
  Theorem solid_body_steady (c : @PEcfg F) (Omega grav Rv Cpv q0 cst beta gam : F) (Uk Tb tau : nat -> F) :
    let mf := 1 + (Rv / cR c - 1) * q0 in
    (forall k, Uk k * (Uk k + two * a * Omega)
               + two * (grav * gam + mf * sumn (cK c) (fun j => geo_weights (cK c) (cR c) (cls c) k j * tau j))
               + two * (cR c * mf * Tb k * beta) = 0) ->
    (forall k, beta * tau k = 0) ->
    let st := mkPES P (fun k p => - (a * Uk k) * mu p) (fun _ _ => 0)
                    (fun k p => Tb k + tau k * (mu p * mu p)) (fun p => cst + beta * (mu p * mu p)) (fun _ _ => q0) in
    let oro := fun p => gam * (mu p * mu p) in
    forall k p,
      spec_vort_tend P dlon dmu mu a c Omega Rv st k p = 0 /\
      spec_div_tend P dlon dmu mu a c Omega grav Rv oro st k p = 0 /\
      spec_temp_tend P dlon dmu mu a c Rv Cpv st k p = 0 /\
      spec_lnps_tend P dlon dmu mu a c st p = 0 /\
      spec_tracer_tend P dlon dmu mu a c st (st_q P st) k p = 0.
  Proof.
    intros mf C1 C2 st oro k p.
    set (wf := fun (k : nat) (_ : P) => Uk k). set (wf' := fun (_ : nat) (_ : P) => 0).
    set (lam' := fun q : P => beta * (two * mu q)).
    set (ph' := fun (k : nat) (q : P) =>
                  two * mu q * (grav * gam + mf * sumn (cK c) (fun j => geo_weights (cK c) (cR c) (cls c) k j * tau j))).
    assert (Hchi : forall k p, st_chi P st k p = 0) by reflexivity.
    assert (Hw : forall k, zd (wf k) (wf' k)) by (intros j; exact (zd_const (Uk j))).
    assert (Hpsi : forall k, zd (st_psi P st k) (fun p => - (a * wf k p))).
    { intros j. apply (zd_ext (fun q => (- (a * Uk j)) * mu q) _ (fun q => (- (a * Uk j)) * 1)).
      - reflexivity. - intros; unfold wf; ring. - apply zd_scal, zd_mu. }
    assert (Hmm : zd (fun q => mu q * mu q) (fun q => two * mu q)).
    { apply (zd_ext (fun q => mu q * mu q) _ (fun q => 1 * mu q + mu q * 1)); [reflexivity|intros; unfold two; ring|].
      apply zd_mul; apply zd_mu. }
    assert (HT : forall k, zon (st_T P st k)).
    { intros j. apply zon_add; [apply zon_const|]. apply zon_mul; [apply zon_const|apply Hmm]. }
    assert (Hq : forall k, zon (st_q P st k)) by (intros j; exact (zon_const q0)).
    assert (Hlnps : zd (st_lnps P st) lam').
    { apply (zd_ext (fun q => cst + beta * (mu q * mu q)) _ (fun q => 0 + beta * (two * mu q))); [reflexivity|intros; unfold lam'; ring|].
      apply zd_add; [apply zd_const|]. apply zd_scal, Hmm. }
    assert (Hphi : forall k, zd (phi P c grav Rv oro st k) (ph' k)).
    { intros j.
      apply (zd_ext (fun q => grav * (gam * (mu q * mu q))
                              + sumn (cK c) (fun i => geo_weights (cK c) (cR c) (cls c) j i * ((Tb i + tau i * (mu q * mu q)) * mf)))
                    _ (fun q => grav * (gam * (two * mu q))
                                + sumn (cK c) (fun i => geo_weights (cK c) (cR c) (cls c) j i * ((0 + tau i * (two * mu q)) * mf)))).
      - intros q. reflexivity.
      - intros q. unfold ph'.
        rewrite (sumn_ext (cK c) _ (fun i => geo_weights (cK c) (cR c) (cls c) j i * (tau i * (two * mu q * mf))))
          by (intros; ring).
        rewrite sumn_pull. ring.
      - apply zd_add; [apply zd_scal, zd_scal, Hmm|]. apply zd_sumn. intros i.
        apply (zd_ext (fun q => mf * (Tb i + tau i * (mu q * mu q))) _ (fun q => mf * (0 + tau i * (two * mu q)))); try (intros; ring).
        apply zd_scal. apply zd_add; [apply zd_const|]. apply zd_scal, Hmm. }
    assert (Hbal : forall k p, ph' k p + cR c * Tv P c Rv st k p * lam' p
                               = - (mu p * wf k p * (wf k p + two * a * Omega))).
    { intros j q. unfold ph', Tv, lam', wf. cbn [st_T st_q st]. fold mf.
      set (S := sumn (cK c) (fun i => geo_weights (cK c) (cR c) (cls c) j i * tau i)).
      transitivity (mu q * (Uk j * (Uk j + two * a * Omega) + two * (grav * gam + mf * S) + two * (cR c * mf * Tb j * beta))
                    + two * cR c * mf * (mu q * mu q * mu q) * (beta * tau j)
                    - mu q * Uk j * (Uk j + two * a * Omega)); [ring|].
      unfold S. rewrite C1, C2. ring. }
    repeat split.
    - apply (pe_zonal_vorticity_steady c Omega Rv st wf wf' lam' Hchi Hw Hpsi HT Hq Hlnps).
    - apply (pe_zonal_divergence_steady c Omega grav Rv oro st wf wf' ph' lam' Hchi Hw Hpsi Hlnps Hphi Hbal).
    - apply (pe_zonal_temperature_steady c Rv Cpv st wf lam' Hchi Hpsi HT Hlnps).
    - apply (pe_zonal_lnps_steady c st wf lam' Hchi Hpsi Hlnps).
    - apply (pe_zonal_tracer_steady c st wf lam' Hchi Hpsi Hlnps). apply Hq.
  Qed.
End Ring.
