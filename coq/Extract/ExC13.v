(** Executable entry point of the C13 model (run at exact rationals) and its
    extraction.  ExtrOcamlBasic only: Z, positive, Q, nat stay inductive. *)
From Dino Require Import Base.Ops Base.Sums Model.Sigma Extract.Common.
Require Extraction.
Require Import ExtrOcamlBasic.

(** arrays: see tools/props/C13.py for the argument conventions. *)
Definition run_C13 (cmd : Z) (ints : list Z) (arrs : list (list Q)) : option (list Q) :=
  let K := intn ints 0 in
  match cmd with
  | 0%Z => let b := arrf arrs 0 in
           Some (qtab K (centers b) ++ qtab K (thickness b) ++ qtab (K - 1) (c2c b))
  | 1%Z => let b := arrf arrs 0 in
           Some [qofb (sigma_accepts (scalar arrs 1 0) (scalar arrs 1 1) K b)]
  | 2%Z => Some (qtab (K - 1) (centered_difference (arrf arrs 0) (arrf arrs 1)))
  | 3%Z => Some (qtab K (cum_sigma_integral (intb ints 1) (intb ints 2) K (arrf arrs 0) (arrf arrs 1)))
  | 4%Z => Some [sigma_integral K (arrf arrs 0) (arrf arrs 1)]
  | 5%Z => Some (qtab K (cum_log_sigma_integral (intb ints 1) (intb ints 2) K (arrf arrs 0) (arrf arrs 1)))
  | 6%Z => Some (qtab K (centered_vertical_advection K (arrf arrs 0) (arrf arrs 1) (arrf arrs 2)
                           (scalar arrs 3 0) (scalar arrs 3 1) (scalar arrs 3 2) (scalar arrs 3 3)))
  | 7%Z => Some (qtab K (upwind_vertical_advection K (arrf arrs 0) (arrf arrs 1) (arrf arrs 2)))
  | 8%Z => Some (qtab K (alpha K (arrf arrs 0)))
  | 9%Z => Some (qtab2 K K (geo_weights K (scalar arrs 1 0) (arrf arrs 0)))
  | 10%Z => Some (qtab K ((if intb ints 1 then geo_diff_sparse else geo_diff_dense)
                            K (scalar arrs 2 0) (arrf arrs 0) (arrf arrs 1)))
  | _ => None
  end.

Definition run (prop cmd : Z) (ints : list Z) (arrs : list (list Q)) : option (list Q) :=
  run_C13 cmd ints arrs.

Extraction "Extract/ml/C13/dispatch.ml" run.
