(** Executable entry point of the C02 model (run at exact rationals) and its
    extraction.  ExtrOcamlBasic only: Z, positive, Q, nat stay inductive. *)
From Dino Require Import Base.Ops Base.Sums Gen.DerivExprs Model.Deriv Extract.Common.
Require Extraction.
Require Import ExtrOcamlBasic.

(** Argument conventions (see tools/props/C02.py):
    ints = [fast; M; L; R; C; clip; n]   arrs = [[r]; a; b; x; y]
    2-D arrays are flattened row-major with [C] columns. *)
Definition a2f (C : nat) (l : list Q) : nat -> nat -> Q := fun i j => qnth l (i * C + j).
Definition qofz (z : Z) : Q := inject_Z z.
Definition qofn (n : nat) : Q := inject_Z (Z.of_nat n).
Definition out2 (R C : nat) (v : (nat -> nat -> Q) * (nat -> nat -> Q)) : list Q :=
  qtab2 R C (fst v) ++ qtab2 R C (snd v).

Definition run_C02 (cmd : Z) (ints : list Z) (arrs : list (list Q)) : option (list Q) :=
  let fast := intb ints 0 in
  let M := intn ints 1 in let L := intn ints 2 in
  let R := intn ints 3 in let C := intn ints 4 in
  let c := intb ints 5 in let n := intn ints 6 in
  let r := scalar arrs 0 0 in
  let a := a2f C (arr arrs 1) in let b := a2f C (arr arrs 2) in
  let x := a2f C (arr arrs 3) in let y := a2f C (arr arrs 4) in
  match cmd with
  | 0%Z => Some (qtab (intn ints 0) (shift1 (intn ints 0) (int ints 1) (arrf arrs 0)))
  | 1%Z => Some (qtab R (fun i => qofz (maxis fast M i)) ++ qtab C (fun l => qofn (laxis L l))
                 ++ qtab2 R C (fun i l => qofb (mask fast M L i l)))
  | 2%Z => Some (qtab2 R C (a2_table fast M L C) ++ qtab2 R C (b2_table fast M L C))
  | 3%Z => Some (qtab C (lap_eig L r) ++ qtab C (inv_eig L r))
  | 4%Z => Some (qtab2 R C (if fast then dlon_fast R n x else dlon_ref R x))
  | 5%Z => Some [qofb (clip_accepts (int ints 0))]
  | 10%Z => Some (qtab2 R C (d_dlon fast R x))
  | 11%Z => Some (qtab2 R C (D1 L C a b x))
  | 12%Z => Some (qtab2 R C (D2 L C a b x))
  | 13%Z => Some (qtab2 R C (laplacian L r x))
  | 14%Z => Some (qtab2 R C (inverse_laplacian L r x))
  | 15%Z => Some (qtab2 R C (clip L C n x))
  | 16%Z => Some (out2 R C (cos_lat_grad fast L R C r a b c x))
  | 17%Z => Some (out2 R C (k_cross (x, y)))
  | 18%Z => Some (qtab2 R C (div_cos_lat fast L R C r a b c (x, y)))
  | 19%Z => Some (qtab2 R C (curl_cos_lat fast L R C r a b c (x, y)))
  | 20%Z => Some (out2 R C (get_cos_lat_vector fast L R C r a b c x y))
  | 21%Z => Some (out2 R C (uv_to_vor_div fast L R C r a b c (x, y)))
  | 22%Z => Some (qtab2 R C (Mmu C a b x))
  | _ => None
  end.

Definition run (prop cmd : Z) (ints : list Z) (arrs : list (list Q)) : option (list Q) :=
  run_C02 cmd ints arrs.

Extraction "Extract/ml/C02/dispatch.ml" run.
