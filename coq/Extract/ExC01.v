(** Executable entry point of the C01 model (spherical-harmonic transforms of
    both layouts, run at exact rationals) and its extraction.
    ExtrOcamlBasic only: Z, positive, Q, nat stay inductive.
    Commands 0-23 are shared verbatim with ExC09.v; 30-34 (associated_legendre.py, Model/Legendre.v) exist only here. *)
From Dino Require Import Base.Ops Base.Sums Model.SHT Model.SHTFast Model.FourierR Gen.GridTable Gen.Legendre Model.Legendre Extract.Common.
Require Extraction.
Require Import ExtrOcamlBasic.

Definition qofn (n : nat) : Q := inject_Z (Z.of_nat n).

(** argument conventions: see tools/props/C01.py.  All arrays flat row-major. *)
Definition run_C01 (cmd : Z) (ints : list Z) (arrs : list (list Q)) : option (list Q) :=
  match cmd with
  | 0%Z => (* modal layout of RealSphericalHarmonics: rows, m axis, l axis, mask *)
      let M := intn ints 0 in let L := intn ints 1 in
      let K := modal_rows_real M in
      Some ([qofn K]
            ++ qtab K (fun a => inject_Z (m_real a)) ++ qtab L (fun l => inject_Z (l_real l))
            ++ qtab2 K L (fun a l => qofb (mask_real a l)))
  | 1%Z => (* to_nodal, reference layout *)
      let B := intn ints 0 in let K := intn ints 1 in let L := intn ints 2 in
      let I := intn ints 3 in let J := intn ints 4 in
      let f := arr2 I K (arr arrs 0) in let p := arr3 K J L (arr arrs 1) in
      let x := arr3 B K L (arr arrs 2) in
      Some (tab3 B I J (synth_batch K L J f p x))
  | 2%Z => (* to_modal, reference layout *)
      let B := intn ints 0 in let K := intn ints 1 in let L := intn ints 2 in
      let I := intn ints 3 in let J := intn ints 4 in
      let f := arr2 I K (arr arrs 0) in let p := arr3 K J L (arr arrs 1) in
      let w := arr1 (arr arrs 2) in let z := arr3 B I J (arr arrs 3) in
      Some (tab3 B K L (analysis_batch K I J f p w z))
  | 3%Z => (* integrate (either layout: I, J are the array sizes) *)
      let B := intn ints 0 in let I := intn ints 1 in let J := intn ints 2 in
      let w := arr1 (arr arrs 0) in let r := scalar arrs 1 0 in
      let z := arr3 B I J (arr arrs 2) in
      Some (qtab B (fun n => integrate I J w r (z n)))
  | 4%Z => Some [qofb (resolves (intn ints 0) (intn ints 1) (intn ints 2) (intn ints 3) (intn ints 4));
                 qofn (exact_degree (intn ints 0) (intn ints 2))]
  | 5%Z => (* laplacian_eigenvalues over the (padded) l axis: ints L, cols *)
      let L := intn ints 0 in let cols := intn ints 1 in let r := scalar arrs 0 0 in
      Some (qtab cols (fun l => lap_eig r (l_fast L l)))
  | 6%Z => (* mask (.) x, reference layout *)
      let K := intn ints 0 in let L := intn ints 1 in
      Some (tab2 K L (apply_mask mask_real (arr2 K L (arr arrs 0))))
  | 10%Z => (* FastSphericalHarmonics: shapes, default stacking, modal axes, mask *)
      let base := intn ints 0 in let xs := intn ints 1 in let ys := intn ints 2 in
      let M := intn ints 3 in let L := intn ints 4 in let I := intn ints 5 in let J := intn ints 6 in
      let rows := modal_rows_fast base xs M in let cols := modal_cols_fast base ys L in
      Some ([qofn rows; qofn cols; qofn (nodal_rows_fast base xs I); qofn (nodal_cols_fast base ys J);
             qofb (default_stacked M)]
            ++ qtab rows (fun k => inject_Z (m_fast M k)) ++ qtab cols (fun l => inject_Z (l_fast L l))
            ++ qtab2 rows cols (fun k l => qofb (mask_fast M L k l)))
  | 11%Z => (* to_nodal, fast layout *)
      let B := intn ints 0 in let stacked := intb ints 1 in let rev := intb ints 2 in
      let Mh := intn ints 3 in let Lf := intn ints 4 in let If := intn ints 5 in let Jf := intn ints 6 in
      let f := arr2 If (2 * Mh) (arr arrs 0) in let f3 := arr3 If 2 Mh (arr arrs 0) in
      let p := arr3 Mh Jf Lf (arr arrs 1) in let x := arr3 B (2 * Mh) Lf (arr arrs 2) in
      Some (tab3 B If Jf (synth_fast_batch stacked rev Mh Lf Jf f f3 p x))
  | 12%Z => (* to_modal, fast layout *)
      let B := intn ints 0 in let stacked := intb ints 1 in let rev := intb ints 2 in
      let Mh := intn ints 3 in let Lf := intn ints 4 in let If := intn ints 5 in let Jf := intn ints 6 in
      let f := arr2 If (2 * Mh) (arr arrs 0) in let f3 := arr3 If 2 Mh (arr arrs 0) in
      let p := arr3 Mh Jf Lf (arr arrs 1) in let w := arr1 (arr arrs 2) in
      let z := arr3 B If Jf (arr arrs 3) in
      Some (tab3 B (2 * Mh) Lf (analysis_fast_batch stacked rev Mh If Jf f f3 p w z))
  | 13%Z => (* E *)
      let M := intn ints 0 in let L := intn ints 1 in let rows := intn ints 2 in let cols := intn ints 3 in
      Some (tab2 rows cols (embed M L (arr2 (2 * M - 1) L (arr arrs 0))))
  | 14%Z => (* Pi *)
      let M := intn ints 0 in let L := intn ints 1 in let rows := intn ints 2 in let cols := intn ints 3 in
      Some (tab2 (2 * M - 1) L (proj (arr2 rows cols (arr arrs 0))))
  | 15%Z => (* nodal zero padding *)
      let I := intn ints 0 in let J := intn ints 1 in let If := intn ints 2 in let Jf := intn ints 3 in
      Some (tab2 If Jf (pad2 I J (arr2 I J (arr arrs 0))))
  | 16%Z => (* the Fortran-order reshape of f in basis (stacked transforms) *)
      let If := intn ints 0 in let Mh := intn ints 1 in
      let f3 := stack_f (arr2 If (2 * Mh) (arr arrs 0)) in
      Some (concat (map (fun i => tab2 2 Mh (f3 i)) (seq 0 If)))
  | 17%Z => (* Grid.construct (generated from the source) *)
      let mw := intn ints 0 in let g := intn ints 1 in
      Some [qofn (construct_M mw g); qofn (construct_L mw g); qofn (construct_I mw g); qofn (construct_J mw g)]
  | 18%Z => (* Grid.with_wavenumbers (generated from the source) *)
      let order := intn ints 0 in let M := intn ints 1 in
      let I := wv_I order M in
      Some [qofn M; qofn (wv_L M); qofn I; qofn (wv_J I)]
  | 19%Z => (* mask (.) x, fast layout *)
      let M := intn ints 0 in let L := intn ints 1 in let rows := intn ints 2 in let cols := intn ints 3 in
      Some (tab2 rows cols (apply_mask (mask_fast M L) (arr2 rows cols (arr arrs 0))))
  | 20%Z => (* the factory table *)
      Some (concat (map (fun g => let '(tl, mw, gn) := g in [qofb tl; qofn mw; qofn gn]) grid_table))
  | 21%Z => Some [CONSTANT_NORMALIZATION_FACTOR_Q]
  | 22%Z => (* fourier.real_basis closed form on given cos/sin tables: ints M I; arrs [sqrt(2pi), sqrt(pi)], c (M x I), s (M x I) *)
      let M := intn ints 0 in let I := intn ints 1 in
      let c := arr2 M I (arr arrs 1) in let s := arr2 M I (arr arrs 2) in
      Some (tab2 I (2 * M - 1) (real_basis_g (scalar arrs 0 0) (scalar arrs 0 1) c s))
  | 23%Z => (* fourier.real_basis_with_zero_imag closed form *)
      let M := intn ints 0 in let I := intn ints 1 in
      let c := arr2 M I (arr arrs 1) in let s := arr2 M I (arr arrs 2) in
      Some (tab2 I (2 * M) (real_basis_zi_g (scalar arrs 0 0) (scalar arrs 0 1) c s))
  | 30%Z => (* associated_legendre: guards and the radicands np.sqrt is applied to.  ints n_m n_l *)
      let n_m := intn ints 0 in let n_l := intn ints 1 in
      Some ([qofb (legendre_accepts n_m n_l); qofb (legendre_defined n_m n_l)] ++ legendre_radicands n_m n_l)
  | 31%Z => (* associated_legendre.evaluate: ints n_m n_l nx; arrs x, y = sqrt(1-x^2), radicands, their np.sqrt *)
      let n_m := intn ints 0 in let n_l := intn ints 1 in let nx := intn ints 2 in
      if legendre_defined n_m n_l
      then Some (tab3 n_m nx n_l (legendre_evaluate (sq_table (arr arrs 2) (arr arrs 3)) nx (arrf arrs 0) (arrf arrs 1) n_m n_l))
      else None
  | 32%Z => (* associated_legendre._evaluate_rhombus(truncation='triangle'): ints n_l n_m nx; arrs as 31 *)
      let n_l := intn ints 0 in let n_m := intn ints 1 in let nx := intn ints 2 in
      if legendre_defined n_m n_l
      then Some (tab3 n_l n_m nx (rhombus_triangle (sq_table (arr arrs 2) (arr arrs 3)) nx (arrf arrs 0) (arrf arrs 1) n_l n_m))
      else None
  | 33%Z => (* associated_legendre._compute_weights after the solve: ints n; arrs x, y, radicands, sqrt, w (solve result):
               residual of the linear system (n entries) ++ normalised weights (n entries) *)
      let n := intn ints 0 in
      let sqf := sq_table (arr arrs 2) (arr arrs 3) in let w := arrf arrs 4 in
      Some (qtab n (weights_residual sqf n (arrf arrs 0) (arrf arrs 1) n w) ++ qtab n (weights_normalise n w))
  | 34%Z => (* the radicand of y = np.sqrt(1 - x*x) *)
      Some (map (fun t => leg_y2 t) (arr arrs 0))
  | 35%Z => (* coefficient list q_{m,l} (lowest degree first): ints m l; arrs radicands, their np.sqrt *)
      Some (leg_q (sq_table (arr arrs 0) (arr arrs 1)) (intn ints 0) (intn ints 1))
  | 36%Z => (* Gram polynomial (1 - x^2)^m q_{m,l} q_{m,l'}: ints m l l' *)
      Some (leg_gram_poly (sq_table (arr arrs 0) (arr arrs 1)) (intn ints 0) (intn ints 1) (intn ints 2))
  | _ => None
  end.

Definition run (prop cmd : Z) (ints : list Z) (arrs : list (list Q)) : option (list Q) :=
  run_C01 cmd ints arrs.

Extraction "Extract/ml/C01/dispatch.ml" run.
