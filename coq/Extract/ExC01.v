(** Executable entry point of the C01 model (reference spherical-harmonic
    transform, run at exact rationals) and its extraction.
    ExtrOcamlBasic only: Z, positive, Q, nat stay inductive. *)
From Dino Require Import Base.Ops Base.Sums Model.SHT Extract.Common.
Require Extraction.
Require Import ExtrOcamlBasic.

(** argument conventions: see tools/props/C01.py.  All arrays flat row-major. *)
Definition run_C01 (cmd : Z) (ints : list Z) (arrs : list (list Q)) : option (list Q) :=
  match cmd with
  | 0%Z => (* modal layout of RealSphericalHarmonics: rows, m axis, l axis, mask *)
      let M := intn ints 0 in let L := intn ints 1 in
      let K := modal_rows_real M in
      Some ([inject_Z (Z.of_nat K)]
            ++ qtab K (fun a => inject_Z (m_real a)) ++ qtab L (fun l => inject_Z (l_real l))
            ++ qtab2 K L (fun a l => qofb (mask_real a l)))
  | 1%Z => (* to_nodal *)
      let B := intn ints 0 in let K := intn ints 1 in let L := intn ints 2 in
      let I := intn ints 3 in let J := intn ints 4 in
      let f := arr2 I K (arr arrs 0) in let p := arr3 K J L (arr arrs 1) in
      let x := arr3 B K L (arr arrs 2) in
      Some (tab3 B I J (synth_batch K L J f p x))
  | 2%Z => (* to_modal *)
      let B := intn ints 0 in let K := intn ints 1 in let L := intn ints 2 in
      let I := intn ints 3 in let J := intn ints 4 in
      let f := arr2 I K (arr arrs 0) in let p := arr3 K J L (arr arrs 1) in
      let w := arr1 (arr arrs 2) in let z := arr3 B I J (arr arrs 3) in
      Some (tab3 B K L (analysis_batch K I J f p w z))
  | 3%Z => (* integrate *)
      let B := intn ints 0 in let I := intn ints 1 in let J := intn ints 2 in
      let w := arr1 (arr arrs 0) in let r := scalar arrs 1 0 in
      let z := arr3 B I J (arr arrs 2) in
      Some (qtab B (fun n => integrate I J w r (z n)))
  | 4%Z => Some [qofb (resolves (intn ints 0) (intn ints 1) (intn ints 2) (intn ints 3) (intn ints 4))]
  | 5%Z => (* laplacian_eigenvalues over a given integer l axis *)
      let r := scalar arrs 0 0 in
      Some (map (fun lz => lap_eig r lz) (tl ints))
  | 6%Z => (* mask (.) x *)
      let K := intn ints 0 in let L := intn ints 1 in
      Some (tab2 K L (apply_mask mask_real (arr2 K L (arr arrs 0))))
  | _ => None
  end.

Definition run (prop cmd : Z) (ints : list Z) (arrs : list (list Q)) : option (list Q) :=
  run_C01 cmd ints arrs.

Extraction "Extract/ml/C01/dispatch.ml" run.
