(** Executable entry point of the C19 model (nested dictionaries, pytree packing,
    spectral slicing/padding) and its extraction.  ExtrOcamlBasic only. *)
From Dino Require Import Base.Ops Base.Sums Model.Trees Model.Attrs Extract.Common.
Require Extraction.
Require Import ExtrOcamlBasic.

(** ** integer-stream encoding (see tools/props/C19.py)
    key  := len c1 .. clen
    tree := 0 v | 1 n (key tree)^n *)
Definition dec_key (s : list Z) : option (str * list Z) :=
  match s with
  | [] => None
  | n :: r => let n' := Z.to_nat n in
              if Nat.ltb (length r) n' then None else Some (firstn n' r, skipn n' r)
  end.

Fixpoint dec_tree (fuel : nat) (s : list Z) : option (tree * list Z) :=
  match fuel with
  | O => None
  | S f =>
      match s with
      | 0%Z :: v :: r => Some (Leaf v, r)
      | 1%Z :: n :: r =>
          match (fix items (n : nat) (s : list Z) : option (list (str * tree) * list Z) :=
                   match n with
                   | O => Some ([], s)
                   | S n' =>
                       match dec_key s with
                       | None => None
                       | Some (k, s1) =>
                           match dec_tree f s1 with
                           | None => None
                           | Some (t, s2) =>
                               match items n' s2 with
                               | None => None
                               | Some (l, s3) => Some ((k, t) :: l, s3)
                               end
                           end
                       end
                   end) (Z.to_nat n) r with
          | Some (l, r') => Some (Node l, r')
          | None => None
          end
      | _ => None
      end
  end.

Definition enc_key (k : str) : list Z := Z.of_nat (length k) :: k.
Fixpoint enc_tree (t : tree) : list Z :=
  match t with
  | Leaf v => [0%Z; v]
  | Node l => 1%Z :: Z.of_nat (length l) :: flat_map (fun kc => enc_key (fst kc) ++ enc_tree (snd kc)) l
  end.

(** flat dictionary: n (key v)^n ; key tuple: n key^n *)
Fixpoint dec_flat (n : nat) (s : list Z) : option (list (str * Z) * list Z) :=
  match n with
  | O => Some ([], s)
  | S n' => match dec_key s with
            | Some (k, v :: s1) =>
                match dec_flat n' s1 with Some (l, s2) => Some ((k, v) :: l, s2) | None => None end
            | _ => None
            end
  end.
Fixpoint dec_keys (n : nat) (s : list Z) : option (list str * list Z) :=
  match n with
  | O => Some ([], s)
  | S n' => match dec_key s with
            | Some (k, s1) =>
                match dec_keys n' s1 with Some (l, s2) => Some (k :: l, s2) | None => None end
            | None => None
            end
  end.
Definition dec_flat_c (s : list Z) : option (list (str * Z) * list Z) :=
  match s with n :: r => dec_flat (Z.to_nat n) r | [] => None end.
Definition dec_keys_c (s : list Z) : option (list str * list Z) :=
  match s with n :: r => dec_keys (Z.to_nat n) r | [] => None end.

Definition enc_flat (fl : list (str * Z)) : list Z :=
  Z.of_nat (length fl) :: flat_map (fun kv => enc_key (fst kv) ++ [snd kv]) fl.
Definition enc_keys (ks : list str) : list Z :=
  Z.of_nat (length ks) :: flat_map enc_key ks.

Definition zq (l : list Z) : list Q := map inject_Z l.
Definition enc_flat_result (r : option flat_result) : list Q :=
  match r with
  | None => zq [0%Z]
  | Some (fl, em) => zq (1%Z :: enc_flat fl ++ enc_keys em)
  end.
Definition enc_dict_result (r : option dict) : list Q :=
  match r with None => zq [0%Z] | Some d => zq (1%Z :: enc_tree (Node d)) end.

Definition as_dict (t : tree) : option dict := match t with Node l => Some l | Leaf _ => None end.

(** ** arrays: a leaf is [nrows] rows of [slab] rationals *)
Definition rows_of (slab nrows : nat) (data : list Q) : list (list Q) := chunks slab nrows data.
(** leaves from ints = slab_1 nrows_1 .. slab_n nrows_n and arrs *)
Fixpoint leaves_of (spec : list Z) (arrs : list (list Q)) {struct spec} : list (list (list Q)) :=
  match spec with
  | s :: n :: sp => rows_of (Z.to_nat s) (Z.to_nat n) (hd [] arrs) :: leaves_of sp (tl arrs)
  | _ => []
  end.
Definition enc_leaf (a : list (list Q)) : list Q := concat a.
Definition enc_leaves (ls : list (list (list Q))) : list Q :=
  inject_Z (Z.of_nat (length ls)) :: map (fun a => inject_Z (Z.of_nat (length a))) ls ++ concat (map enc_leaf ls).
Definition enc_opt {B} (f : B -> list Q) (r : option B) : list Q :=
  match r with None => [0%Q] | Some x => 1%Q :: f x end.

Definition mat_of (M L : nat) (data : list Q) : list (list Q) := chunks L M data.


(** ** shape tables and attrs (Model/Attrs.v) *)
Definition enc_list (l : list Z) : list Z := Z.of_nat (length l) :: l.
Definition enc_table (t : table) : list Z :=
  Z.of_nat (length t) :: flat_map (fun sd => enc_list (fst sd) ++ enc_list (snd sd)) t.
Definition dec_opt (flag v : Z) : option Z := if Z.eqb flag 0 then None else Some v.
(** additional coords: n (name ndim d1..dndim)^n *)
Fixpoint dec_addl (n : nat) (s : list Z) : list (Z * shape) :=
  match n with
  | O => []
  | S n' => match s with
            | name :: r => match dec_key r with
                           | Some (sh, r') => (name, sh) :: dec_addl n' r'
                           | None => []
                           end
            | [] => []
            end
  end.

Definition tolq0 : Q := 1 # 100000000.
Definition tolq1 : Q := 1001 # 100000000.

(** attrs: n (key tag payload)^n; tag 0 int | 1 str | 2 float index into arrs[0] | 3 list = arrs[index] *)
Fixpoint dec_attrs (n : nat) (s : list Z) (arrs : list (list Q)) : option (@attrs Q) :=
  match n with
  | O => Some []
  | S n' =>
      match dec_key s with
      | Some (k, tag :: r) =>
          let cont (v : @aval Q) (r' : list Z) :=
              match dec_attrs n' r' arrs with Some l => Some ((k, v) :: l) | None => None end in
          match tag, r with
          | 0%Z, z :: r' => cont (AInt z) r'
          | 1%Z, _ => match dec_key r with Some (x, r') => cont (AStr x) r' | None => None end
          | 2%Z, j :: r' => cont (ANum (nth (Z.to_nat j) (arr arrs 0) 0%Q)) r'
          | 3%Z, j :: r' => cont (AList (arr arrs (Z.to_nat j))) r'
          | _, _ => None
          end
      | _ => None
      end
  end.
Definition enc_aval (v : @aval Q) : list Q :=
  match v with
  | AInt z => zq [0%Z; z]
  | AStr x => zq (1%Z :: enc_key x)
  | ANum x => [2%Q; x]
  | AList l => 3%Q :: inject_Z (Z.of_nat (length l)) :: l
  end.
Definition enc_attrs (a : @attrs Q) : list Q :=
  inject_Z (Z.of_nat (length a)) :: flat_map (fun kv => zq (enc_key (fst kv)) ++ enc_aval (snd kv)) a.
Definition enc_vertical (v : option (@vertical Q)) : list Q :=
  match v with
  | None => [0%Q]
  | Some (VSigma b) => 1%Q :: inject_Z (Z.of_nat (length b)) :: b
  | Some (VLayer n) => [2%Q; inject_Z n]
  | Some (VPressure c) => 3%Q :: inject_Z (Z.of_nat (length c)) :: c
  end.
Definition enc_grid (g : @grid Q) : list Q :=
  zq [g_lw g; g_tw g; g_lon_nodes g; g_lat_nodes g] ++ zq (enc_key (g_spacing g)) ++
  [g_offset g; g_radius g] ++ zq (enc_key (g_impl g)) ++
  match g_mesh g with None => [0%Q] | Some m => 1%Q :: zq (enc_key m) end.

Definition run_C19 (cmd : Z) (ints : list Z) (arrs : list (list Q)) : option (list Q) :=
  match cmd with
  (* 0: flatten_dict: sep, key prefix, tree *)
  | 0%Z => match ints with
           | sep :: r =>
               match dec_key r with
               | Some (prefix, r1) =>
                   match dec_tree (S (length r1)) r1 with
                   | Some (Node d, _) => Some (enc_flat_result (flatten_dict sep prefix d))
                   | _ => None
                   end
               | None => None
               end
           | [] => None
           end
  (* 1: unflatten_dict: sep, flat, empties *)
  | 1%Z => match ints with
           | sep :: r =>
               match dec_flat_c r with
               | Some (fl, r1) =>
                   match dec_keys_c r1 with
                   | Some (em, _) => Some (enc_dict_result (unflatten_dict sep fl em))
                   | None => None
                   end
               | None => None
               end
           | [] => None
           end
  (* 2: wf_dict, round trip through the model: [wf; flatten ok; unflatten ok; r == d; d == r] *)
  | 2%Z => match ints with
           | sep :: r =>
               match dec_tree (S (length r)) r with
               | Some (Node d, _) =>
                   let w := wf_dict sep d in
                   match flatten_dict sep [] d with
                   | None => Some [qofb w; 0; 0; 0; 0]%Q
                   | Some (fl, em) =>
                       match unflatten_dict sep fl em with
                       | None => Some [qofb w; 1; 0; 0; 0]%Q
                       | Some rr => Some [qofb w; 1%Q; 1%Q; qofb (tree_eqb (Node rr) (Node d));
                                          qofb (tree_eqb (Node d) (Node rr))]
                       end
                   end
               | _ => None
               end
           | [] => None
           end
  (* 3: replace_with_matching_or_default: default, check, x, replace *)
  | 3%Z => match ints with
           | default :: chk :: r =>
               match dec_tree (S (length r)) r with
               | Some (Node x, r1) =>
                   match dec_tree (S (length r1)) r1 with
                   | Some (Node rep, _) =>
                       Some (enc_dict_result
                               (replace_with_matching_or_default x rep default (negb (Z.eqb chk 0))))
                   | _ => None
                   end
               | _ => None
               end
           | _ => None
           end
  (* 4: tree_eqb of two trees *)
  | 4%Z => match dec_tree (S (length ints)) ints with
           | Some (t1, r1) =>
               match dec_tree (S (length r1)) r1 with
               | Some (t2, _) => Some [qofb (tree_eqb t1 t2)]
               | None => None
               end
           | None => None
           end
  (* 10: pack_pytree: ints = (slab, nrows)..; arrs = leaves *)
  | 10%Z => Some (enc_opt enc_leaf (pack_pytree (leaves_of ints arrs)))
  (* 11: unpack_to_pytree: ints = slab, nrows(array), sizes..; arrs = [array] *)
  | 11%Z => match ints with
            | slab :: n :: sizes =>
                Some (enc_opt enc_leaves
                              (unpack_to_pytree (rows_of (Z.to_nat slab) (Z.to_nat n) (arr arrs 0))
                                                (map Z.to_nat sizes)))
            | _ => None
            end
  (* 12: stack_pytree: ints = number of leaves; arrs = leaves (one slab each; empty slabs allowed) *)
  | 12%Z => let n := intn ints 0 in
            Some (enc_opt (@concat Q) (stack_pytree (map (fun i => arr arrs i) (seq 0 n))))
  (* 13: unstack_to_pytree: ints = slab, n, nleaves; arrs = [array] *)
  | 13%Z => match ints with
            | slab :: n :: nl :: _ =>
                Some (enc_opt (fun ls => inject_Z (Z.of_nat (length ls)) :: concat ls)
                              (unstack_to_pytree (rows_of (Z.to_nat slab) (Z.to_nat n) (arr arrs 0))
                                                 (Z.to_nat nl)))
            | _ => None
            end
  (* 14: split_along_axis: ints = split_idx, (slab, nrows)..; output both pytrees *)
  | 14%Z => match ints with
            | i :: nr =>
                let sp := split_along_axis i (leaves_of nr arrs) in
                Some (enc_leaves (fst sp) ++ enc_leaves (snd sp))
            | _ => None
            end
  (* 15: concat_along_axis: ints = ntrees, nleaves(tree 1).., then (slab, nrows) of all leaves *)
  | 15%Z => match ints with
            | nt :: r =>
                let counts := map Z.to_nat (firstn (Z.to_nat nt) r) in
                let nr := skipn (Z.to_nat nt) r in
                let all := leaves_of nr arrs in
                let trees :=
                    (fix go (cs : list nat) (ls : list (list (list Q))) : list (list (list (list Q))) :=
                       match cs with [] => [] | c :: cs' => firstn c ls :: go cs' (skipn c ls) end)
                      counts all in
                Some (enc_opt enc_leaves (concat_along_axis trees))
            | _ => None
            end
  (* 16: split_axis keep_dims: ints = keep, (slab, nrows)..; output list of pytrees *)
  | 16%Z => match ints with
            | keep :: nr =>
                let inputs := leaves_of nr arrs in
                if Z.eqb keep 0 then
                  Some (enc_opt (fun ts => inject_Z (Z.of_nat (length ts)) ::
                                           concat (map (fun t => inject_Z (Z.of_nat (length t)) :: concat t) ts))
                                (split_axis_squeeze inputs))
                else
                  Some (enc_opt (fun ts => inject_Z (Z.of_nat (length ts)) :: concat (map enc_leaves ts))
                                (split_axis_keep inputs))
            | _ => None
            end
  (* 20: spectral: ints = which, Mw, Lw, M, L, Mw', Lw', M', L'; arrs = [x (M x L)] *)
  | 20%Z => match ints with
            | which :: mw :: lw :: m :: l :: mw' :: lw' :: m' :: l' :: _ =>
                let n := Z.to_nat in
                let x := mat_of (n m) (n l) (arr arrs 0) in
                let r := match which with
                         | 0%Z => downsample (n mw) (n lw) (n mw') (n lw') (n m') (n l') x
                         | 1%Z => upsample 0%Q (n m) (n l) (n m') (n l') x
                         | _ => interpolate 0%Q (n mw) (n lw) (n m) (n l) (n mw') (n lw') (n m') (n l') x
                         end in
                Some (enc_opt (fun y => inject_Z (Z.of_nat (length y)) ::
                                        inject_Z (Z.of_nat (length (nth 0 y []))) :: concat y) r)
            | _ => None
            end
  (* 30: _infer_dims_shape_and_coords table / 31: data_to_xarray table;
         ints = K M1 M2 N1 N2 has_t T has_s S naddl addl.. *)
  | 30%Z | 31%Z =>
      match ints with
      | k :: m1 :: m2 :: n1 :: n2 :: ht :: t :: hs :: sm :: na :: r =>
          let addl := dec_addl (Z.to_nat na) r in
          let tb := (if Z.eqb cmd 30 then shape_to_dims else xarray_table)
                      k [m1; m2] [n1; n2] (dec_opt ht t) (dec_opt hs sm) addl in
          Some (match tb with None => zq [0%Z] | Some t => zq (1%Z :: enc_table t) end)
      | _ => None
      end
  (* 32: admissible K modal nodal *)
  | 32%Z => match ints with
            | k :: m1 :: m2 :: n1 :: n2 :: _ => Some [qofb (admissible k [m1; m2] [n1; n2])]
            | _ => None
            end
  (* 40: CoordinateSystem.asdict: ints = lw tw ln lt, spacing, impl, has_mesh, mesh, vkind [layers];
         arrs[0] = [offset; radius], arrs[1] = boundaries / centers *)
  | 40%Z =>
      match ints with
      | lw :: tw :: ln :: lt :: r =>
          match dec_key r with
          | Some (sp, r1) =>
              match dec_key r1 with
              | Some (impl, hm :: r2) =>
                  match dec_key r2 with
                  | Some (mesh, vk :: r3) =>
                      let g := mkGrid lw tw ln lt sp (scalar arrs 0 0) (scalar arrs 0 1) impl
                                      (if Z.eqb hm 0 then None else Some mesh) in
                      let v := match vk with
                               | 1%Z => VSigma (arr arrs 1)
                               | 2%Z => VLayer (hd 0%Z r3)
                               | _ => VPressure (arr arrs 1)
                               end in
                      Some (match cs_asdict g v with
                            | None => [0%Q]
                            | Some a => 1%Q :: enc_attrs a ++ [qofb (grid_ok g); qofb (vertical_ok tolq0 tolq1 v)]
                            end)
                  | _ => None
                  end
              | _ => None
              end
          | None => None
          end
      | _ => None
      end
  (* 41: coordinate_system_from_attrs: ints = n attrs..; arrs[0] = floats, arrs[j] = lists *)
  | 41%Z =>
      match ints with
      | n :: r =>
          match dec_attrs (Z.to_nat n) r arrs with
          | Some a =>
              Some (match from_attrs tolq0 tolq1 a with
                    | None => [0%Q]
                    | Some (g, v) => 1%Q :: enc_grid g ++ enc_vertical v
                    end)
          | None => None
          end
      | [] => None
      end
  | _ => None
  end.

Definition run (prop cmd : Z) (ints : list Z) (arrs : list (list Q)) : option (list Q) :=
  run_C19 cmd ints arrs.

Extraction "Extract/ml/C19/dispatch.ml" run.
