(** Executable entry point of the C11 model (run at exact rationals) and its
    extraction.  ExtrOcamlBasic only: Z, positive, Q, nat stay inductive. *)
From Dino Require Import Base.Ops Base.Sums Gen.Tableaux Model.Deriv Model.Invariants Extract.Common.
Require Extraction.
Require Import ExtrOcamlBasic.

(** rows of a triangular tableau stored flat: row r has [r + off] entries *)
Fixpoint rows_of (n : nat) (len : nat) (l : list Q) : list (list Q) :=
  match n with
  | O => []
  | S n' => firstn len l :: rows_of n' (S len) (skipn len l)
  end.

(** the term of scheme number [s] (see tools/props/C11.py):
    0 euler, 2 cn_rk2, 3 cn_rk3, 4 cn_rk4, 5 sil3, 6 low-storage with explicit
    lists (arrs 6,7,8), 7 imex tableau with ints[3] stages (arrs 6..9) *)
Definition scheme_term (s : Z) (ints : list Z) (arrs : list (list Q)) (dt : Q) : option (stepterm Q) :=
  match s with
  | 0%Z => Some (euler_term dt)
  | 2%Z => Some (cn_rk2_term dt)
  | 3%Z => Some (ls_step_term dt rk3_alphas rk3_betas rk3_gammas)
  | 4%Z => Some (ls_step_term dt rk4_alphas rk4_betas rk4_gammas)
  | 5%Z => imex_term dt sil3_a_ex sil3_a_im sil3_b_ex sil3_b_im
  | 6%Z => Some (ls_step_term dt (arr arrs 6) (arr arrs 7) (arr arrs 8))
  | 7%Z => let s := intn ints 3 in
           imex_term dt (rows_of (s - 1) 1 (arr arrs 6)) (rows_of (s - 1) 2 (arr arrs 7))
                     (arr arrs 8) (arr arrs 9)
  | _ => None
  end.

Definition scheme_consistency (s : Z) (ints : list Z) (arrs : list (list Q)) : option Q :=
  match s with
  | 0%Z => Some 1%Q
  | 2%Z => Some (fmul ihalf (fadd 1%Q 1%Q))
  | 3%Z => Some (ls_consistency rk3_alphas rk3_betas rk3_gammas)
  | 4%Z => Some (ls_consistency rk4_alphas rk4_betas rk4_gammas)
  | 5%Z => Some (imex_consistency sil3_a_ex sil3_a_im sil3_b_ex)
  | 6%Z => Some (ls_consistency (arr arrs 6) (arr arrs 7) (arr arrs 8))
  | 7%Z => let s := intn ints 3 in
           Some (imex_consistency (rows_of (s - 1) 1 (arr arrs 6)) (rows_of (s - 1) 2 (arr arrs 7)) (arr arrs 8))
  | _ => None
  end.

Definition optq (x : option (list Q)) : option (list Q) := x.

(** arrays: see tools/props/C11.py for the argument conventions. *)
Definition run_C11 (cmd : Z) (ints : list Z) (arrs : list (list Q)) : option (list Q) :=
  match cmd with
  | 0%Z =>
      (* k steps on the diagonal bench: ints = [scheme; d; k; stages], arrs = [u; a; b; c; [dt; alpha]; filt; ...] *)
      let s := int ints 0 in let d := intn ints 1 in let k := intn ints 2 in
      let u := arr arrs 0 in
      let a := arr arrs 1 in let b := arr arrs 2 in let c := arr arrs 3 in
      let dt := scalar arrs 4 0 in let alpha := scalar arrs 4 1 in
      let filt := arr arrs 5 in
      let vo := ListSp (F := Q) d in
      let Fx := bench_F a b in let G := bench_G c in let Gi := bench_Ginv c in
      let fl : list (list Q -> list Q) := match filt with [] => [] | _ => [bench_filter filt] end in
      match s with
      | 1%Z =>
          let t := leapfrog_term dt alpha in
          let step := with_filters (lf_step_of (vo := vo) Fx G Gi t) (map lf_filter fl) in
          let r := iter k step (firstn d u, skipn d u) in
          Some (fst r ++ snd r)
      | _ =>
          match scheme_term s ints arrs dt with
          | Some t => Some (iter k (with_filters (step_of (vo := vo) Fx G Gi t) (map rk_filter fl)) u)
          | None => None
          end
      end
  | 1%Z => (* required-zero pattern: ints = [fast; M; L; R; C] *)
      Some (qtab2 (intn ints 3) (intn ints 4)
                  (fun i l => qofb (must_vanish (intb ints 0) (intn ints 1) (intn ints 2) i l)))
  | 2%Z => (* pattern check of one R x C array: ints = [fast; M; L; R; C], arrs = [x row major] *)
      let C := intn ints 4 in
      Some [qofb (pattern_ok (intb ints 0) (intn ints 1) (intn ints 2) (intn ints 3) C
                             (fun i l => qnth (arr arrs 0) (i * C + l)))]
  | 3%Z => (* scalar image after k steps: ints = [scheme; _; k; stages], arrs = [[p0; p1]; _; _; _; [dt; alpha]; [phi]; ...] *)
      let s := int ints 0 in let k := intn ints 2 in
      let dt := scalar arrs 4 0 in let alpha := scalar arrs 4 1 in
      let phi := scalar arrs 5 0 in
      match s with
      | 1%Z =>
          let t := leapfrog_term dt alpha in
          let step := fun pc : Q * Q => (snd pc, aeval phi t (env2 (fst pc) (snd pc))) in
          let r := iter k step (scalar arrs 0 0, scalar arrs 0 1) in
          Some [fst r; snd r]
      | _ =>
          match scheme_term s ints arrs dt with
          | Some t => Some [iter k (fun p => aeval phi t (env1 p)) (scalar arrs 0 0)]
          | None => None
          end
      end
  | 4%Z => (* explicit consistency sum of a scheme *)
      match scheme_consistency (int ints 0) ints arrs with Some c => Some [c] | None => None end
  | 5%Z => (* clip on one R x C array: ints = [L; R; C], arrs = [x] *)
      let C := intn ints 2 in
      Some (qtab2 (intn ints 1) C (clip (intn ints 0) C 1 (fun i l => qnth (arr arrs 0) (i * C + l))))
  | 6%Z => (* maybe_fix_sim_time_roundoff: arrs = [[dt]; times] *)
      let dt := scalar arrs 0 0 in
      Some (map (fix_time (fun x => rhe x) dt) (arr arrs 1))
  | _ => None
  end.

Definition run (prop cmd : Z) (ints : list Z) (arrs : list (list Q)) : option (list Q) :=
  run_C11 cmd ints arrs.

Extraction "Extract/ml/C11/dispatch.ml" run.
