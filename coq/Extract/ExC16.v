(** Executable entry point of the C16 model (run at exact rationals) and its
    extraction.  ExtrOcamlBasic only: Z, positive, Q, nat stay inductive. *)
From Dino Require Import Base.Ops Base.Sums Base.Ord Model.Regrid Extract.Common.
Require Extraction.
Require Import ExtrOcamlBasic.

(** argument conventions: see tools/props/C16.py *)
Definition kwit (ints : list Z) (off : nat) : nat -> Z := fun i => int ints (off + i).
Definition qall (n : nat) (f : nat -> bool) : bool := forallb f (seq 0 n).
(** points reduced mod period with validated witnesses *)
Definition reduced (period : Q) (n : nat) (k : nat -> Z) (x : nat -> Q) : nat -> Q :=
  memo n (fun i => pmod period (k i) (x i)).
Definition reduced_ok (period : Q) (n : nat) (k : nat -> Z) (x : nat -> Q) : bool :=
  qall n (fun i => pmod_ok period (k i) (x i)).
Definition optf (nd : nat) (vals mask : nat -> Q) : nat -> nat -> option Q :=
  fun b d => if Qeq_bool (mask (b * nd + d)%nat) 0 then None else Some (vals (b * nd + d)%nat).
Definition oq (v : option Q) : Q := match v with Some x => x | None => 0%Q end.
Definition om (v : option Q) : Q := match v with Some _ => 1%Q | None => 0%Q end.

Definition run_C16 (cmd : Z) (ints : list Z) (arrs : list (list Q)) : option (list Q) :=
  let n := intn ints 0 in
  let m := intn ints 1 in
  match cmd with
  | 0%Z => (* _latitude_cell_bounds: ints [n]; arrs [x; [hpi]] *)
           Some (qtab (S n) (lat_bounds (scalar arrs 1 0) n (arrf arrs 0)))
  | 1%Z | 2%Z => (* latitude overlap / weights: ints [n;m]; arrs [tx; sx; st; ss; [hpi]] *)
           let hpi := scalar arrs 4 0 in
           let tb := memo (S n) (lat_bounds hpi n (arrf arrs 0)) in
           let sb := memo (S m) (lat_bounds hpi m (arrf arrs 1)) in
           let w := memo2 n m (lat_overlap tb sb (arrf arrs 2) (arrf arrs 3)) in
           if Z.eqb cmd 1 then Some (qtab2 n m w)
           else let tot := memo n (row_total m w) in
                Some (qtab2 n m (fun i j => (w i j / tot i)%F) ++ qtab n tot)
  | 3%Z => (* _align_phase_with: arrs [[x; target; period]] *)
           Some [align_phase (scalar arrs 0 0) (scalar arrs 0 1) (scalar arrs 0 2)]
  | 4%Z => (* mod + periodic bounds: ints [n; k_0..k_{n-1}]; arrs [x; [period]] *)
           let period := scalar arrs 1 0 in
           let k := kwit ints 1 in
           let p := reduced period n k (arrf arrs 0) in
           Some (qofb (reduced_ok period n k (arrf arrs 0)) :: qtab n p ++
                 qtab n (per_lower n period p) ++ qtab n (per_upper n period p))
  | 5%Z | 6%Z => (* longitude overlap / weights: ints [n;m;kt..;ks..]; arrs [tx; sx; [period]] *)
           let period := scalar arrs 2 0 in
           let tp := reduced period n (kwit ints 2) (arrf arrs 0) in
           let sp := reduced period m (kwit ints (2 + n)) (arrf arrs 1) in
           let okk := reduced_ok period n (kwit ints 2) (arrf arrs 0) &&
                      reduced_ok period m (kwit ints (2 + n)) (arrf arrs 1) in
           let tl := memo n (per_lower n period tp) in let tu := memo n (per_upper n period tp) in
           let sl := memo m (per_lower m period sp) in let su := memo m (per_upper m period sp) in
           let w := memo2 n m (fun i j => per_overlap period (tl i) (tu i) (sl j) (su j)) in
           if negb okk then None
           else if Z.eqb cmd 5 then Some (qtab2 n m w)
           else let tot := memo n (row_total m w) in
                Some (qtab2 n m (fun i j => (w i j / tot i)%F) ++ qtab n tot)
  | 7%Z | 8%Z => (* vertical: ints [n;m]; arrs [sb (m+1); tb (n+1)] *)
           let w := memo2 n m (interval_overlap (arrf arrs 0) (arrf arrs 1)) in
           if Z.eqb cmd 7 then Some (qtab2 n m w)
           else let tot := memo n (row_total m w) in
                Some (qtab2 n m (fun i j => (w i j / tot i)%F) ++ qtab n tot)
  | 9%Z => (* regrid_hybrid_to_sigma, one column: ints [n;m]; arrs [a; b; [sp]; tb; x] *)
           let sp := scalar arrs 2 0 in
           let hb := memo (S m) (hybrid_bounds (arrf arrs 0) (arrf arrs 1) sp) in
           let tb := arrf arrs 3 in
           let w := memo2 n m (interval_overlap hb tb) in
           let tot := memo n (row_total m w) in
           let wn := memo2 n m (fun i j => (w i j / tot i)%F) in
           Some (qtab (S m) hb ++ qtab n (apply_weights m wn (arrf arrs 4)) ++ qtab n tot)
  | 10%Z => (* ConservativeRegridder.__call__:
               ints [na; nb; nc; nd; skipna; kt (na); ks (nb)]
               arrs [tlon; slon; tlat; slat; st; ss; [hpi; period; tol]; vals (nb*nd); mask (nb*nd)] *)
           let na := n in let nb := m in let nc := intn ints 2 in let nd := intn ints 3 in
           let skipna := intb ints 4 in
           let hpi := scalar arrs 6 0 in let period := scalar arrs 6 1 in let tol := scalar arrs 6 2 in
           let tp := reduced period na (kwit ints 5) (arrf arrs 0) in
           let sp := reduced period nb (kwit ints (5 + na)) (arrf arrs 1) in
           let okk := reduced_ok period na (kwit ints 5) (arrf arrs 0) &&
                      reduced_ok period nb (kwit ints (5 + na)) (arrf arrs 1) in
           let tl := memo na (per_lower na period tp) in let tu := memo na (per_upper na period tp) in
           let sl := memo nb (per_lower nb period sp) in let su := memo nb (per_upper nb period sp) in
           let wl := memo2 na nb (fun i j => per_overlap period (tl i) (tu i) (sl j) (su j)) in
           let totl := memo na (row_total nb wl) in
           let wlon := memo2 na nb (fun i j => (wl i j / totl i)%F) in
           let tb := memo (S nc) (lat_bounds hpi nc (arrf arrs 2)) in
           let sb := memo (S nd) (lat_bounds hpi nd (arrf arrs 3)) in
           let wa := memo2 nc nd (lat_overlap tb sb (arrf arrs 4) (arrf arrs 5)) in
           let tota := memo nc (row_total nd wa) in
           let wlat := memo2 nc nd (fun i j => (wa i j / tota i)%F) in
           let field := optf nd (arrf arrs 7) (arrf arrs 8) in
           let outs := map (fun a => map (fun c => regrid_call skipna tol nb nd wlon wlat field a c) (seq 0 nc)) (seq 0 na) in
           if negb okk then None
           else Some (concat (map (map om) outs) ++ concat (map (map oq) outs) ++
                      qtab2 na nc (mean2 nb nd wlon wlat (fun b d => notnull (field b d))))
  | 11%Z => (* _periodic_overlap: arrs [[x0; x1; y0; y1; period]] *)
           Some [per_overlap (scalar arrs 0 4) (scalar arrs 0 0) (scalar arrs 0 1) (scalar arrs 0 2) (scalar arrs 0 3)]
  | _ => None
  end.

Definition run (prop cmd : Z) (ints : list Z) (arrs : list (list Q)) : option (list Q) :=
  run_C16 cmd ints arrs.

Extraction "Extract/ml/C16/dispatch.ml" run.
