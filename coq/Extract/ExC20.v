(** Executable entry point of the C20 model (run at exact rationals) and its
    extraction.  ExtrOcamlBasic only: Z, positive, Q, nat stay inductive. *)
From Dino Require Import Base.Ops Base.Sums Base.Ord Gen.Constants Model.Forcings Extract.Common.
Require Extraction.
Require Import ExtrOcamlBasic.

(** cos/sin as finite tables keyed by the exact rational argument; a missing
    key yields a sentinel that cannot be mistaken for a cosine. *)
Fixpoint lookup (keys vals : list Q) (x : Q) : Q :=
  match keys, vals with
  | k :: ks, v :: vs => if Qeq_bool k x then v else lookup ks vs x
  | _, _ => 12345678%Q
  end.

Definition mat (l : list Q) (ncols : nat) (i j : nat) : Q := nth (i * ncols + j) l 0%Q.

(** conventions (see tools/props/C20.py):
    arrs[0..3] = cos keys, cos values, sin keys, sin values; arrs[4] = scalars. *)
Definition run_rad (cmd : Z) (ints : list Z) (arrs : list (list Q)) : option (list Q) :=
  let cosf := lookup (arr arrs 0) (arr arrs 1) in
  let sinf := lookup (arr arrs 2) (arr arrs 3) in
  let sc := scalar arrs 4 in
  let pi := sc 0%nat in
  match cmd with
  | 0%Z => Some [PERIHELION pi; SPRING_EQUINOX pi; EARTH_AXIS_INCLINATION pi;
                 TOTAL_SOLAR_IRRADIANCE pi; SOLAR_IRRADIANCE_VARIATION pi;
                 DAYS_PER_YEAR pi; MINUTES_PER_DAY pi; SECONDS_PER_DAY pi]
  | 1%Z => let op := sc 3%nat in
           let b := fsub op (SPRING_EQUINOX pi) in
           Some [fsub op (PERIHELION pi); b; fmul ftwo b]
  | 2%Z => let op := sc 3%nat in let syn := sc 4%nat in
           Some (declination sinf pi op :: equation_of_time cosf sinf pi op ::
                 map (hour_angle cosf sinf pi op syn) (arr arrs 5))
  | 3%Z => Some [direct_solar_irradiance cosf (sc 3%nat) (sc 1%nat) (sc 2%nat) (PERIHELION pi)]
  | 4%Z => Some (concat (map (fun lon => map (solar_sin_altitude cosf sinf pi (sc 3%nat) (sc 4%nat) lon)
                                             (arr arrs 6)) (arr arrs 5)))
  | 5%Z => Some (concat (map (fun lon => map (radiation_flux cosf sinf pi (sc 1%nat) (sc 2%nat) (sc 3%nat) (sc 4%nat) lon)
                                             (arr arrs 6)) (arr arrs 5)))
  | 6%Z => Some (concat (map (fun lon => map (normalized_radiation_flux cosf sinf pi (sc 1%nat) (sc 2%nat) (sc 3%nat) (sc 4%nat) lon)
                                             (arr arrs 6)) (arr arrs 5)))
  | 7%Z => Some [datetime_orbital_phase pi (int ints 0) (int ints 1) (int ints 2) (int ints 3);
                 datetime_synodic_phase pi (int ints 2) (int ints 3)]
  | 8%Z => (* scalars: pi, ref_o, ref_s, rate_o, rate_s, time *)
           let xo := phase_raw (sc 1%nat) (sc 3%nat) (sc 5%nat) in
           let xs := phase_raw (sc 2%nat) (sc 4%nat) (sc 5%nat) in
           Some [xo; xs; wrap_phase pi xo (int ints 0); wrap_phase pi xs (int ints 1);
                 qofb (floor_ok pi xo (int ints 0)); qofb (floor_ok pi xs (int ints 1))]
  | 9%Z => (* scalars: pi, S, V, ref_o, ref_s, rate_o, rate_s, time *)
           Some (concat (map (fun lon => map (solar_radiation_flux cosf sinf pi (sc 1%nat) (sc 2%nat) (sc 3%nat) (sc 4%nat)
                                                                   (sc 5%nat) (sc 6%nat) (sc 7%nat) (int ints 0) (int ints 1) lon)
                                             (arr arrs 6)) (arr arrs 5)))
  | _ => None
  end.

(** Held-Suarez: arrs[0] = parameters p0 sigma_b kf ka ks minT maxT dTy dThz. *)
Definition hsparams (l : list Q) : HSParams Q :=
  let g := qnth l in
  mkHSParams (g 0%nat) (g 1%nat) (g 2%nat) (g 3%nat) (g 4%nat) (g 5%nat) (g 6%nat) (g 7%nat) (g 8%nat).

Definition run_HS (cmd : Z) (ints : list Z) (arrs : list (list Q)) : option (list Q) :=
  let P := hsparams (arr arrs 0) in
  match cmd with
  | 20%Z => Some (map (hs_kv P) (arr arrs 1))
  | 21%Z => Some (concat (map (fun s => map (hs_kt P s) (arr arrs 2)) (arr arrs 1)))
  | 22%Z => Some (concat (map (fun s => map (hs_p_over_p0 P s) (arr arrs 2)) (arr arrs 1)))
  | 23%Z => let n := length (arr arrs 1) in
            Some (qtab n (fun i => hs_teq P (arrf arrs 1 i) (arrf arrs 2 i) (arrf arrs 3 i) (arrf arrs 4 i)))
  | 24%Z => let nm := intn ints 0 in let nn := intn ints 1 in
            Some (qtab nn (matop nm (mat (arr arrs 1) nm) (arrf arrs 2)))
  | 25%Z => let nm := intn ints 0 in let nn := intn ints 1 in
            let G := mkHSGrid Q nm nn (mat (arr arrs 9) nm) (mat (arr arrs 10) nn)
                              (mat (arr arrs 11) nm) (mat (arr arrs 12) nm) (mat (arr arrs 13) nm) (mat (arr arrs 14) nm)
                              (mat (arr arrs 15) nm) (mat (arr arrs 16) nm) (mat (arr arrs 17) nm) (mat (arr arrs 18) nm)
                              (arrf arrs 7) (arrf arrs 8) in
            let sigma := scalar arrs 1 0 in let tref := scalar arrs 1 1 in
            Some (qtab nm (hs_vorticity_tendency G P sigma (arrf arrs 2) (arrf arrs 3)) ++
                  qtab nm (hs_divergence_tendency G P sigma (arrf arrs 2) (arrf arrs 3)) ++
                  qtab nm (hs_temperature_tendency G P sigma tref (arrf arrs 4) (arrf arrs 5) (arrf arrs 6)) ++
                  qtab nm (hs_log_surface_pressure_tendency (arrf arrs 2)))
  | 26%Z => Some [hs_default_p0_Q; hs_default_sigma_b_Q; hs_default_kf_Q; hs_default_ka_Q; hs_default_ks_Q;
                  hs_default_minT_Q; hs_default_maxT_Q; hs_default_dTy_Q; hs_default_dThz_Q]
  | _ => None
  end.

Definition run_C20 (cmd : Z) (ints : list Z) (arrs : list (list Q)) : option (list Q) :=
  if Z.ltb cmd 20 then run_rad cmd ints arrs else run_HS cmd ints arrs.

Definition run (prop cmd : Z) (ints : list Z) (arrs : list (list Q)) : option (list Q) :=
  run_C20 cmd ints arrs.

Extraction "Extract/ml/C20/dispatch.ml" run.
