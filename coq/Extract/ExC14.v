(** Executable entry point of the C14 model (run at exact rationals) and its
    extraction.  ExtrOcamlBasic only: Z, positive, Q, nat stay inductive. *)
From Dino Require Import Base.Ops Base.Sums Model.Combinators Extract.Common.
Require Extraction.
Require Import ExtrOcamlBasic.

(** Conventions (see tools/props/C14.py): states are vectors of dimension [d]
    (flattened pytrees); matrices are row-major lists. *)
Definition mat (rows cols : nat) (l : list Q) : list (list Q) := chunks rows cols l.

(** filters: triples (al, be, ga) *)
Fixpoint filters_of (r : nat) (p : list Q) : list (list Q -> list Q -> list Q) :=
  match r with
  | O => []
  | S k => affine_filter (nth 0 p 0%Q) (nth 1 p 0%Q) (nth 2 p 0%Q) :: filters_of k (skipn 3 p)
  end.


Definition flat_out (r : list Q * list (list Q)) : list Q := fst r ++ concat (snd r).

Definition run_C14 (cmd : Z) (ints : list Z) (arrs : list (list Q)) : option (list Q) :=
  let d := intn ints 0 in
  let A := mat d d (arr arrs 0) in
  let b := arr arrs 1 in
  match cmd with
  | 0%Z => (* lax.scan: ints d m has_xs n ; arrs A b P Q init xs *)
    let m := intn ints 1 in
    let body := affine_body A b (mat m d (arr arrs 2)) (mat m d (arr arrs 3)) in
    let xs := if intb ints 2 then chunks (intn ints 3) d (arr arrs 5)
              else repeat (repeat 0%Q d) (intn ints 3) in
    Some (flat_out (scan body (arr arrs 4) xs))
  | 1%Z => (* repeated: ints d n ; arrs A b x0 *)
    Some (repeated (affine A b) (intn ints 1) (arr arrs 2))
  | 2%Z => (* step_with_filters: ints d r ; arrs A b x0 fparams *)
    Some (step_with_filters (affine A b) (filters_of (intn ints 1) (arr arrs 3)) (arr arrs 2))
  | 3%Z => (* trajectory_from_step: ints d outer inner swi has_post m r ; arrs A b x0 P p fparams *)
    let m := intn ints 5 in
    let step := step_with_filters (affine A b) (filters_of (intn ints 6) (arr arrs 5)) in
    let post := if intb ints 4 then affine (mat m d (arr arrs 3)) (arr arrs 4) else (fun x => x) in
    Some (flat_out (trajectory_from_step step (intn ints 1) (intn ints 2) (intb ints 3) post (arr arrs 2)))
  | 4%Z => (* nested_checkpoint_scan: ints d m has_xs has_length length nlen l1.. ; arrs A b P Q init xs *)
    let m := intn ints 1 in
    let body := affine_body A b (mat m d (arr arrs 2)) (mat m d (arr arrs 3)) in
    let lengths := map Z.to_nat (firstn (intn ints 5) (skipn 6 ints)) in
    let length := if intb ints 3 then Some (intn ints 4) else None in
    let xs := if intb ints 2 then inr (chunks (Nat.div (List.length (arr arrs 5)) d) d (arr arrs 5))
              else inl (repeat 0%Q d) in
    match nested_checkpoint_scan body (arr arrs 4) xs length lengths with
    | Some r => Some (flat_out r)
    | None => None
    end
  | 5%Z => (* accumulate_repeated: ints d ; arrs A b x0 weights *)
    Some (accumulate_repeated (affine A b) (arr arrs 3) (arr arrs 2))
  | 6%Z => (* DFI: ints d solver r ; arrs A dvec x0 s1 s2 [dt] fparams *)
    let solver := if intb ints 1 then cn_solver else backward_forward_euler in
    let eq := linear_imex A (arr arrs 1) in
    let ws := dfi_lanczos_weights (arr arrs 3) (arr arrs 4) in
    Some (dfi solver eq (filters_of (intn ints 2) (arr arrs 6)) ws (scalar arrs 5 0) (arr arrs 2))
  | 7%Z => (* one solver step, forward (ints 2 = 0) or time-reversed: ints d solver rev ; arrs A dvec x0 [dt] *)
    let solver := if intb ints 1 then cn_solver else backward_forward_euler in
    let eq := linear_imex A (arr arrs 1) in
    Some (solver (if intb ints 2 then time_reversed eq else eq) (scalar arrs 3 0) (arr arrs 2))
  | _ => None
  end.

Definition run (prop cmd : Z) (ints : list Z) (arrs : list (list Q)) : option (list Q) :=
  run_C14 cmd ints arrs.

Extraction "Extract/ml/C14/dispatch.ml" run.
