(** Executable entry point of the C18 unit/phase model (run at exact
    rationals) and its extraction.  ExtrOcamlBasic only.  The binary64 time
    model (Model/Time64.v) uses primitive floats and is evaluated with
    [vm_compute] by the plugin instead (see tools/props/C18.py). *)
From Dino Require Import Base.Ops Base.Sums Model.Units Extract.Common.
From Coq Require Import Qround.
Require Extraction.
Require Import ExtrOcamlBasic.

(** integer tables: [zfun ints off] reads ints[off + i] *)
Definition zfun (ints : list Z) (off : nat) : nat -> Z := fun i => nth (off + i)%nat ints 0%Z.
Definition zfun2 (ints : list Z) (off w : nat) : nat -> nat -> Z := fun j i => nth (off + j * w + i)%nat ints 0%Z.

(** ints = [U; n; k] ++ ud (U rows of n) ++ has (n) ++ k unit vectors (U each)
    arrs = [cv (U); sc (n); values (k)] *)
Definition run_C18 (cmd : Z) (ints : list Z) (arrs : list (list Q)) : option (list Q) :=
  let U := intn ints 0 in let n := intn ints 1 in let k := intn ints 2 in
  let ud := zfun2 ints 3 n in
  let has := fun i => negb (Z.eqb (zfun ints (3 + U * n) i) 0) in
  let ue := fun q => zfun ints (3 + U * n + n + q * U) in
  let cv := arrf arrs 0 in let sc := arrf arrs 1 in let vals := arrf arrs 2 in
  let opt := fun (r : option Q) => match r with Some v => [1%Q; v] | None => [0%Q; 0%Q] end in
  match cmd with
  | 0%Z => Some (concat (map (fun q => opt (nondim_opt U cv ud n has sc (vals q) (ue q))) (seq 0 k)))
  | 1%Z => Some (concat (map (fun q => opt (dimen_opt U cv ud n has sc (vals q) (ue q))) (seq 0 k)))
  | 2%Z => Some (concat (map (fun q => conv U cv (ue q) :: map (fun i => inject_Z (dimof U ud (ue q) i)) (seq 0 n)) (seq 0 k)))
  | 3%Z => (* Scale.__init__: ints = [U; n; 0] ++ w (n rows of U); arrs = [cv; v] *)
           Some (qtab n (mk_scale U cv (arrf arrs 1) (zfun2 ints 3 U)))
  | 4%Z => (* phases: arrs = [[twopi; ref; rate]; times] *)
           Some (map (phase_at Qfloor (scalar arrs 0 0) (scalar arrs 0 1) (scalar arrs 0 2)) (arr arrs 1))
  | 5%Z => (* calendar phases: ints = [yday; diy; hour; minute]; arrs = [[twopi]] *)
           Some [orbital_phase_of_date (scalar arrs 0 0) (int ints 0) (int ints 1) (int ints 2) (int ints 3);
                 synodic_phase_of_date (scalar arrs 0 0) (int ints 2) (int ints 3)]
  | 6%Z => (* zpow: arrs = [[x]], ints = [z] *)
           Some [zpow (scalar arrs 0 0) (int ints 0)]
  | _ => None
  end.

Definition run (prop cmd : Z) (ints : list Z) (arrs : list (list Q)) : option (list Q) :=
  run_C18 cmd ints arrs.

Extraction "Extract/ml/C18/dispatch.ml" run.
