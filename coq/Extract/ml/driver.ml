(* Generic line-protocol driver around the extracted [Dispatch.run].
   One case per input line:   <prop> <cmd> | <int> ... | <q>,<q>,... ; <q>,... ; ...
   Integers and rationals are signed hexadecimal ("-1f", "3/a").
   Output per case: "S q q q ..." (Some) or "N" (None).
   No arithmetic is done here: numbers are converted bit by bit to/from the
   extracted inductive [positive]/[z]/[q]. *)
open Dispatch

let hexval c = match c with
  | '0'..'9' -> Char.code c - 48
  | 'a'..'f' -> Char.code c - 87
  | 'A'..'F' -> Char.code c - 55
  | _ -> failwith ("bad hex digit " ^ String.make 1 c)

(* positive from hex string (most significant digit first); None if zero *)
let pos_of_hex (s : string) : positive option =
  let acc = ref None in
  String.iter (fun c ->
    let v = hexval c in
    for k = 3 downto 0 do
      let bit = (v lsr k) land 1 in
      acc := (match !acc, bit with
        | None, 0 -> None
        | None, _ -> Some XH
        | Some p, 0 -> Some (XO p)
        | Some p, _ -> Some (XI p))
    done) s;
  !acc

let z_of_hex (s : string) : z =
  let neg, body = if String.length s > 0 && s.[0] = '-' then true, String.sub s 1 (String.length s - 1) else false, s in
  match pos_of_hex body with
  | None -> Z0
  | Some p -> if neg then Zneg p else Zpos p

let q_of_string (s : string) : q =
  match String.index_opt s '/' with
  | None -> { qnum = z_of_hex s; qden = XH }
  | Some i ->
    let n = z_of_hex (String.sub s 0 i) in
    (match pos_of_hex (String.sub s (i+1) (String.length s - i - 1)) with
     | None -> failwith "zero denominator"
     | Some d -> { qnum = n; qden = d })

let hex_of_pos (p : positive) : string =
  (* collect bits least significant first *)
  let rec collect p acc = match p with
    | XH -> 1 :: acc
    | XO p' -> collect p' (0 :: acc)
    | XI p' -> collect p' (1 :: acc) in
  let msb_first = collect p [] in
  let n = List.length msb_first in
  let pad = (4 - n mod 4) mod 4 in
  let l = (List.init pad (fun _ -> 0)) @ msb_first in
  let buf = Buffer.create (n/4+2) in
  let rec go l = match l with
    | a::b::c::d::rest ->
      Buffer.add_char buf "0123456789abcdef".[a*8+b*4+c*2+d]; go rest
    | [] -> ()
    | _ -> failwith "impossible" in
  go l; Buffer.contents buf

let hex_of_z (x : z) : string = match x with
  | Z0 -> "0"
  | Zpos p -> hex_of_pos p
  | Zneg p -> "-" ^ hex_of_pos p

let string_of_q (x : q) : string =
  match x.qden with
  | XH -> hex_of_z x.qnum
  | d -> hex_of_z x.qnum ^ "/" ^ hex_of_pos d

let split_ws s = List.filter (fun t -> t <> "") (String.split_on_char ' ' (String.trim s))

let () =
  try
    while true do
      let line = input_line stdin in
      if String.trim line <> "" then begin
        match String.split_on_char '|' line with
        | [hd; ints; arrs] ->
          (match split_ws hd with
           | [p; c] ->
             let ints = List.map z_of_hex (split_ws ints) in
             let arrs =
               if String.trim arrs = "" then []
               else List.map (fun a ->
                   List.map q_of_string
                     (List.filter (fun t -> t <> "") (List.map String.trim (String.split_on_char ',' a))))
                   (String.split_on_char ';' arrs) in
             (match run (z_of_hex p) (z_of_hex c) ints arrs with
              | None -> print_string "N\n"
              | Some l ->
                print_string "S";
                List.iter (fun q -> print_char ' '; print_string (string_of_q q)) l;
                print_char '\n')
           | _ -> print_string "E bad header\n")
        | _ -> print_string "E bad line\n"
      end;
      flush stdout
    done
  with End_of_file -> ()
