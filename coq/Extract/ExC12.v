(** Executable entry point of the C12 model (dimension algebra, dimension typing
    of expressions, scale-covariance checks of the column operators; run at
    exact rationals) and its extraction.
    ExtrOcamlBasic only: Z, positive, Q, nat stay inductive. *)
From Dino Require Import Base.Ops Base.Sums Model.Sigma Model.Implicit Model.PrimEq Model.Integrators Thm.Dual Model.Scaling Extract.Common.
Require Extraction.
Require Import ExtrOcamlBasic.
Local Open Scope F_scope.

(** Argument conventions: see tools/props/C12.py.  A dimension is four
    consecutive ints (length, time, mass, temperature) starting at [k]; a scale
    is a 4-element array. *)
Definition dim_at (ints : list Z) (k : nat) : dim :=
  mkdim (int ints k) (int ints (k + 1)%nat) (int ints (k + 2)%nat) (int ints (k + 3)%nat).
Definition scale_at (arrs : list (list Q)) (i : nat) : @scale Q :=
  mkscale (scalar arrs i 0) (scalar arrs i 1) (scalar arrs i 2) (scalar arrs i 3).

(** expressions in prefix form: 0 c (constant number c of the constant array),
    1 i (variable i), 2 add, 3 sub, 4 mul, 5 opp, 6 div *)
Fixpoint decode (fuel : nat) (consts : nat -> Q) (t : list Z) : option (expr Q * list Z) :=
  match fuel with
  | O => None
  | S f =>
    let bin (mk : expr Q -> expr Q -> expr Q) (r : list Z) :=
      match decode f consts r with
      | Some (a, r1) => match decode f consts r1 with
                        | Some (b, r2) => Some (mk a b, r2)
                        | None => None end
      | None => None end in
    match t with
    | 0%Z :: c :: r => Some (EConst (consts (Z.to_nat c)), r)
    | 1%Z :: i :: r => Some (EVar (Z.to_nat i), r)
    | 2%Z :: r => bin EAdd r
    | 3%Z :: r => bin ESub r
    | 4%Z :: r => bin EMul r
    | 5%Z :: r => match decode f consts r with Some (a, r1) => Some (EOpp a, r1) | None => None end
    | 6%Z :: r => bin EDiv r
    | _ => None
    end
  end.

Definition qdim (d : dim) : list Q := [inject_Z (dL d); inject_Z (dT d); inject_Z (dM d); inject_Z (dK d)].

Definition run_C12 (cmd : Z) (ints : list Z) (arrs : list (list Q)) : option (list Q) :=
  match cmd with
  (* ints = dim; arrs = [scale; values]: factor, nondimensionalised and dimensionalised values *)
  | 0%Z => let s := scale_at arrs 0 in let d := dim_at ints 0 in
           Some (factor s d :: map (nondim s d) (arr arrs 1) ++ map (redim s d) (arr arrs 1))
  (* ints = nv :: dims of the nv variables ++ prefix expression; arrs = [scale; x; consts]
     -> [typed; dim(4); denominators ok; eval x; eval (rescaled x); factor s dim] *)
  | 1%Z => let nv := intn ints 0 in
           let dv := fun i => dim_at ints (1 + 4 * i)%nat in
           let toks := skipn (1 + 4 * nv)%nat ints in
           let s := scale_at arrs 0 in let x := arrf arrs 1 in
           match decode (S (length toks)) (arrf arrs 2) toks with
           | Some (e, []) =>
               match dim_of dv e with
               | Some d => Some ([1%Q] ++ qdim d ++ [qofb (denoms_nzb x e); eval x e; eval (rescale s dv x) e; factor s d])
               | None => Some [0%Q]
               end
           | _ => None
           end
  (* column operators: outputs for rescaled inputs, then rescaled outputs *)
  (* ints = K; dot; downward; dim x.  arrs = [b; x; scale] *)
  | 2%Z => let K := intn ints 0 in let c := factor (scale_at arrs 2) (dim_at ints 3) in
           let f := cum_sigma_integral (intb ints 1) (intb ints 2) K (arrf arrs 0) in
           Some (qtab K (f (scol c (arrf arrs 1))) ++ qtab K (scol c (f (arrf arrs 1))))
  (* ints = K; dim w; dim x.  arrs = [b; w; x; scale; [wt; wb; dt; db]] *)
  | 3%Z => let K := intn ints 0 in let s := scale_at arrs 3 in
           let cw := factor s (dim_at ints 1) in let cx := factor s (dim_at ints 5) in
           let cwx := factor s (dadd (dim_at ints 1) (dim_at ints 5)) in
           let b := arrf arrs 0 in let w := arrf arrs 1 in let x := arrf arrs 2 in
           let wt := scalar arrs 4 0 in let wb := scalar arrs 4 1 in
           let dt := scalar arrs 4 2 in let db := scalar arrs 4 3 in
           Some (qtab K (centered_vertical_advection K b (scol cw w) (scol cx x) (cw * wt) (cw * wb) (cx * dt) (cx * db))
                 ++ qtab K (scol cwx (centered_vertical_advection K b w x wt wb dt db)))
  (* ints = K; sparse.  arrs = [ls; T; [R]; scale] *)
  | 4%Z => let K := intn ints 0 in let s := scale_at arrs 3 in
           let g := if intb ints 1 then geo_diff_sparse else geo_diff_dense in
           let R := scalar arrs 2 0 in
           Some (qtab K (g K (factor s d_gas * R) (arrf arrs 0) (scol (factor s d_temp) (arrf arrs 1)))
                 ++ qtab K (scol (factor s d_geopot) (g K R (arrf arrs 0) (arrf arrs 1))))
  (* ints = K; dim x.  arrs = [b; x; scale] *)
  | 5%Z => let K := intn ints 0 in let c := factor (scale_at arrs 2) (dim_at ints 1) in
           Some (qtab (K - 1)%nat (centered_difference (arrf arrs 0) (scol c (arrf arrs 1)))
                 ++ qtab (K - 1)%nat (scol c (centered_difference (arrf arrs 0) (arrf arrs 1))))
  (* nodal primitive-equation terms: ints = K; include_vertical_advection.
     arrs = [0 ls; 1 b; 2 Tref; 3 [R; kappa]; 4 u; 5 v; 6 vort; 7 div; 8 temp; 9 [gx; gy; sec2; f]; 10 scale] *)
  | 6%Z => let K := intn ints 0 in let va := intb ints 1 in let s := scale_at arrs 10 in
           let c := mkPE K (scalar arrs 3 0) (scalar arrs 3 1) (arrf arrs 0) (arrf arrs 1) (arrf arrs 2) in
           let x := mkNCol (arrf arrs 4) (arrf arrs 5) (arrf arrs 6) (arrf arrs 7) (arrf arrs 8)
                           (scalar arrs 9 0) (scalar arrs 9 1) (scalar arrs 9 2) (scalar arrs 9 3) in
           let x' := scale_ncol (factor s d_vel) (factor s d_rate) (factor s d_temp) (factor s d_invlen) x in
           let c' := scale_cfg (factor s d_temp) (factor s d_gas) c in
           Some (qtab K (temp_adiabatic c' x') ++ [log_pressure_tendency c' x']
                 ++ qtab K (combined_u c' va x' (rt_dry c' x')) ++ qtab K (combined_v c' va x' (rt_dry c' x'))
                 ++ qtab K (scol (factor s d_temp_rate) (temp_adiabatic c x)) ++ [factor s d_rate * log_pressure_tendency c x]
                 ++ qtab K (scol (factor s d_accel) (combined_u c va x (rt_dry c x)))
                 ++ qtab K (scol (factor s d_accel) (combined_v c va x (rt_dry c x))))
  (* implicit column operators (Model/Implicit.v) of a rescaled column:
     ints = K.  arrs = [0 ls; 1 b; 2 Tref; 3 [R; kappa]; 4 div; 5 temp; 6 [lnps; lam; shift]; 7 scale]
     -> implicit terms of the rescaled column (K + K + 1 entries), then the rescaled implicit terms *)
  | 7%Z => let K := intn ints 0 in let s := scale_at arrs 7 in
           let c := mkPE K (scalar arrs 3 0) (scalar arrs 3 1) (arrf arrs 0) (arrf arrs 1) (arrf arrs 2) in
           let u := mkCol (arrf arrs 4) (arrf arrs 5) (scalar arrs 6 0) in
           let lam := scalar arrs 6 1 in let shift := scalar arrs 6 2 in
           let kr := factor s d_rate in let kT := factor s d_temp in let tau := factor s d_time in
           let c' := scale_cfg kT (factor s d_gas) c in
           let lam' := factor s (mkdim (-2) 0 0 0) * lam in
           let Su := @vadd Q (@Col Q) ColOps (col_L K kr kT u) (col_shift shift) in
           let lhs := col_G c' lam' Su in
           let rhs := @vscal Q (@Col Q) ColOps (1 / tau) (col_L K kr kT (col_G c lam u)) in
           Some (qtab K (c_div lhs) ++ qtab K (c_temp lhs) ++ [c_lnps lhs]
                 ++ qtab K (c_div rhs) ++ qtab K (c_temp rhs) ++ [c_lnps rhs])
  (* moist / cloud nodal terms and the vertical temperature tendency:
     ints = K; include_vertical_advection; sparse.
     arrs = [0 ls; 1 b; 2 Tref; 3 [R; kappa; Rv; Cpv]; 4 u; 5 v; 6 vort; 7 div; 8 temp; 9 [gx; gy; sec2; f; lap];
             10 q; 11 qc; 12 qi; 13 gqx; 14 gqy; 15 scale] *)
  | 8%Z => let K := intn ints 0 in let va := intb ints 1 in let sp := intb ints 2 in let s := scale_at arrs 15 in
           let c := mkPE K (scalar arrs 3 0) (scalar arrs 3 1) (arrf arrs 0) (arrf arrs 1) (arrf arrs 2) in
           let m := mkMoist (scalar arrs 3 2) (scalar arrs 3 3) in
           let x := mkNCol (arrf arrs 4) (arrf arrs 5) (arrf arrs 6) (arrf arrs 7) (arrf arrs 8)
                           (scalar arrs 9 0) (scalar arrs 9 1) (scalar arrs 9 2) (scalar arrs 9 3) in
           let lap := scalar arrs 9 4 in
           let q := arrf arrs 10 in let qc := arrf arrs 11 in let qi := arrf arrs 12 in
           let gqx := arrf arrs 13 in let gqy := arrf arrs 14 in
           let kg := factor s d_invlen in let kT := factor s d_temp in
           let x' := scale_ncol (factor s d_vel) (factor s d_rate) kT kg x in
           let c' := scale_cfg kT (factor s d_gas) c in
           let m' := scale_moist (factor s d_gas) m in
           let all (c0 : PEcfg) (m0 : Moist) (x0 : NCol) (gx0 gy0 : nat -> Q) (lap0 : Q) :=
             qtab K (temp_vertical_tendency c0 va x0) ++ qtab K (temp_nodal_total c0 va x0)
             ++ qtab K (temp_nodal_total_moist c0 va m0 x0 q)
             ++ qtab K (combined_u c0 va x0 (rt_moist c0 m0 x0 q)) ++ qtab K (combined_v c0 va x0 (rt_cloud c0 m0 x0 q qc qi))
             ++ qtab K (humidity_div_nodal c0 m0 x0 q gx0 gy0 lap0) ++ qtab K (humidity_curl_nodal c0 m0 x0 gx0 gy0)
             ++ qtab K (humidity_geo_nodal c0 sp m0 x0 q) ++ qtab K (tracer_nodal_total c0 va x0 q)
             ++ [qofb (tref_nonuniform c0)] in
           let fs := [factor s d_temp_rate; factor s d_temp_rate; factor s d_temp_rate; factor s d_accel; factor s d_accel;
                      factor s d_rate2; factor s d_rate2; factor s d_geopot; factor s d_rate] in
           let scaled := concat (map (fun p => map (fun v => fst p * v) (snd p))
                            (combine fs
                               [qtab K (temp_vertical_tendency c va x); qtab K (temp_nodal_total c va x);
                                qtab K (temp_nodal_total_moist c va m x q);
                                qtab K (combined_u c va x (rt_moist c m x q)); qtab K (combined_v c va x (rt_cloud c m x q qc qi));
                                qtab K (humidity_div_nodal c m x q gqx gqy lap); qtab K (humidity_curl_nodal c m x gqx gqy);
                                qtab K (humidity_geo_nodal c sp m x q); qtab K (tracer_nodal_total c va x q)])) in
           Some (all c' m' x' (scol kg gqx) (scol kg gqy) (kg * kg * lap) ++ scaled ++ [qofb (tref_nonuniform c)])
  | _ => None
  end.

(** *** whole-state model (Model/PrimEqFull.v), the model of [C12_whole_state_tendencies_covariant].
    Same argument conventions as commands 20-25 of Extract/ExC04.v (all arrays flat row-major):
    ints = [M; L; I; J; K; ntr]
    arrs = [0 f (I x R); 1 p (R x J x L); 2 w (J); 3 a (R x L); 4 b (R x L); 5 sec2_lat (J); 6 sin_lat (J);
            7 [radius; angular_velocity; g; R; kappa; eta]; 8 log(centers) (K); 9 boundaries (K+1); 10 T_ref (K);
            11 orography (R x L); 12 vorticity (K x R x L); 13 divergence; 14 temperature_variation;
            15 log_surface_pressure (R x L); 16 tracers (ntr x K x R x L);
            17 np.linalg.inv(implicit_matrix) (L x (2K+1) x (2K+1))        -- command 122 *)
From Dino Require Import Model.SHT Model.Deriv Model.PrimEqFull.
Definition hgrid12 (ints : list Z) (arrs : list (list Q)) : @HGrid Q :=
  let M := intn ints 0 in let L := intn ints 1 in let I := intn ints 2 in let J := intn ints 3 in
  let R := modal_rows_real M in
  mkHG M L I J (scalar arrs 7 0) (SHT.arr2 I R (arr arrs 0)) (SHT.arr3 R J L (arr arrs 1)) (arrf arrs 2)
       (SHT.arr2 R L (arr arrs 3)) (SHT.arr2 R L (arr arrs 4)) (arrf arrs 5) (arrf arrs 6) (scalar arrs 7 1).
Definition vcfg12 (ints : list Z) (arrs : list (list Q)) : @PEcfg Q :=
  mkPE (intn ints 4) (scalar arrs 7 3) (scalar arrs 7 4) (arrf arrs 8) (arrf arrs 9) (arrf arrs 10).
Definition slice12 (K A B : nat) (l : list Q) (n : nat) : nat -> nat -> nat -> Q :=
  SHT.arr3 K A B (firstn (K * (A * B)) (skipn (n * (K * (A * B))) l)).
Definition state12 (ints : list Z) (arrs : list (list Q)) : @State Q :=
  let M := intn ints 0 in let L := intn ints 1 in let K := intn ints 4 in let ntr := intn ints 5 in
  let R := modal_rows_real M in
  mkState (SHT.arr3 K R L (arr arrs 12)) (SHT.arr3 K R L (arr arrs 13)) (SHT.arr3 K R L (arr arrs 14))
          (SHT.arr2 R L (arr arrs 15)) (map (slice12 K R L (arr arrs 16)) (seq 0 ntr)).
Definition state_out12 (K R L : nat) (s : @State Q) : list Q :=
  SHT.tab3 K R L (s_vort s) ++ SHT.tab3 K R L (s_div s) ++ SHT.tab3 K R L (s_temp s) ++ SHT.tab2 R L (s_lnps s)
  ++ concat (map (SHT.tab3 K R L) (s_tr s)).

Definition run_C12_full (cmd : Z) (ints : list Z) (arrs : list (list Q)) : option (list Q) :=
  let M := intn ints 0 in let L := intn ints 1 in
  let K := intn ints 4 in let R := modal_rows_real M in
  let g := hgrid12 ints arrs in
  let c := vcfg12 ints arrs in
  let grav := scalar arrs 7 2 in
  let eta := scalar arrs 7 5 in
  let orog := SHT.arr2 R L (arr arrs 11) in
  match cmd with
  | 120%Z => Some (state_out12 K R L (explicit_terms_full g c grav orog (state12 ints arrs)))
  | 121%Z => Some (state_out12 K R L (implicit_terms_full g c (state12 ints arrs)))
  | 122%Z => let n := (2 * K + 1)%nat in
             let invs := SHT.arr3 L n n (arr arrs 17) in
             Some (state_out12 K R L (implicit_inverse_full g c eta invs (state12 ints arrs)))
  | _ => None
  end.

Definition run (prop cmd : Z) (ints : list Z) (arrs : list (list Q)) : option (list Q) :=
  if Z.leb 120 cmd then run_C12_full cmd ints arrs else run_C12 cmd ints arrs.

Extraction "Extract/ml/C12/dispatch.ml" run.
