(** Executable entry point of the C06 model (run at exact rationals) and its
    extraction.  ExtrOcamlBasic only: Z, positive, Q, nat stay inductive. *)
From Dino Require Import Base.Ops Base.Sums Gen.Tableaux Model.Integrators Model.SeriesH Extract.Common.
Require Extraction.
Require Import ExtrOcamlBasic.

(** Test bench: V = Q^d (lists), F(u)_i = (A u)_i + p_i u_i u_{(i+1) mod d},
    G u = B u,  G_inv(x, eta) = (I - eta B)^-1 x by Cramer's rule (d <= 4). *)
Definition vec := list Q.
Definition VQ (d : nat) : VOps Q vec :=
  {| vzero := repeat 0%Q d; vadd := @ladd Q QOps; vscal c v := map (fmul c) v |}.

Definition matvec (d : nat) (M : nat -> nat -> Q) (u : vec) : vec :=
  map (fun i => sumn d (fun j => fmul (M i j) (qnth u j))) (seq 0 d).
Definition mat (d : nat) (l : list Q) : nat -> nat -> Q := fun i j => qnth l (i * d + j).

Fixpoint det (n : nat) (M : nat -> nat -> Q) : Q :=
  match n with
  | O => 1%Q
  | S m => sumn (S m) (fun j =>
             fmul (fmul (if Nat.even j then 1%Q else (-1)%Q) (M O j))
                  (det m (fun r c => M (S r) (if Nat.ltb c j then c else S c))))
  end.
Definition solve (d : nat) (M0 : nat -> nat -> Q) (rhs : vec) : vec :=
  let Ml := qtab2 d d M0 in        (* materialise the matrix once *)
  let M := mat d Ml in
  let D := det d M in
  map (fun i => fdiv (det d (fun r c => if Nat.eqb c i then qnth rhs r else M r c)) D) (seq 0 d).

Definition Fbench (d : nat) (A : nat -> nat -> Q) (p : list Q) (u : vec) : vec :=
  map (fun i => fadd (sumn d (fun j => fmul (A i j) (qnth u j)))
                     (fmul (fmul (qnth p i) (qnth u i)) (qnth u (Nat.modulo (S i) d)))) (seq 0 d).
Definition Gbench (d : nat) (B : nat -> nat -> Q) (u : vec) : vec := matvec d B u.
Definition Ginvbench (d : nat) (B : nat -> nat -> Q) (x : vec) (eta : Q) : vec :=
  solve d (fun i j => fsub (if Nat.eqb i j then 1%Q else 0%Q) (fmul eta (B i j))) x.

(** rows of a triangular tableau stored flat: row r has [r + off] entries *)
Fixpoint rows_of (n : nat) (len : nat) (l : list Q) : list (list Q) :=
  match n with
  | O => []
  | S n' => firstn len l :: rows_of n' (S len) (skipn len l)
  end.
Definition flat (t : list (list Q) * list (list Q) * list Q * list Q) : list Q :=
  let '(ae, ai, be, bi) := t in concat ae ++ concat ai ++ be ++ bi.

Definition scheme_ls (k : Z) : list Q * list Q * list Q :=
  match k with
  | 3%Z => (rk3_alphas, rk3_betas, rk3_gammas)
  | 4%Z => (rk4_alphas, rk4_betas, rk4_gammas)
  | _ => (rk2_alphas, rk2_betas, rk2_gammas)
  end.

Definition optl (x : option vec) : option (list Q) := x.

(** arrays: see tools/props/C06.py for the argument conventions. *)
Definition run_C06 (cmd : Z) (ints : list Z) (arrs : list (list Q)) : option (list Q) :=
  match cmd with
  | 0%Z =>  (* one step: ints = [scheme; d; ...], arrs = [u; A; B; p; [dt; alpha]; extra...] *)
      let scheme := int ints 0 in let d := intn ints 1 in
      let u := arr arrs 0 in
      let A := mat d (arr arrs 1) in let B := mat d (arr arrs 2) in let p := arr arrs 3 in
      let dt := scalar arrs 4 0 in let alpha := scalar arrs 4 1 in
      let Fx := Fbench d A p in let G := Gbench d B in let Gi := Ginvbench d B in
      let vo := VQ d in
      match scheme with
      | 0%Z => Some (euler_step (vo := vo) Fx Gi dt u)
      | 1%Z => let r := leapfrog_step (vo := vo) Fx G Gi dt alpha (firstn d u, skipn d u) in
               Some (fst r ++ snd r)
      | 2%Z => Some (cn_rk2_step (vo := vo) Fx G Gi dt u)
      | 3%Z | 4%Z => let '(al, be, ga) := scheme_ls scheme in
               Some (ls_step (vo := vo) Fx G Gi dt al be ga u)
      | 5%Z => optl (imex_step (vo := vo) Fx G Gi dt sil3_a_ex sil3_a_im sil3_b_ex sil3_b_im u)
      | 6%Z => (* explicit low-storage lists: arrs 5,6,7 *)
               Some (ls_step (vo := vo) Fx G Gi dt (arr arrs 5) (arr arrs 6) (arr arrs 7) u)
      | 7%Z => (* explicit tableau with s = ints[2] stages: arrs 5 = a_ex flat, 6 = a_im flat, 7 = b_ex, 8 = b_im *)
               let s := intn ints 2 in
               optl (imex_step (vo := vo) Fx G Gi dt (rows_of (s - 1) 1 (arr arrs 5)) (rows_of (s - 1) 2 (arr arrs 6))
                               (arr arrs 7) (arr arrs 8) u)
      | 8%Z => (* additive RK step (no skipping) on the Butcher form of low-storage scheme ints[2] *)
               let '(al, be, ga) := scheme_ls (int ints 2) in
               let '(ae, ai, bex, bim) := lowstorage_to_butcher al be ga in
               Some (ark_step (vo := vo) Fx G Gi dt ae ai bex bim u)
      | 9%Z => let '(ae, ai, bex, bim) := @euler_tableau Q QOps in
               Some (ark_step (vo := vo) Fx G Gi dt ae ai bex bim u)
      | 10%Z => let '(ae, ai, bex, bim) := @cn_rk2_tableau Q QOps in
               Some (ark_step (vo := vo) Fx G Gi dt ae ai bex bim u)
      | 11%Z => (* reduction targets: explicit RK / DIRK of the generated SIL3 tableau *)
               Some (erk_step (vo := vo) Fx dt sil3_a_ex sil3_b_ex u)
      | 12%Z => Some (dirk_step (vo := vo) G Gi dt sil3_a_im sil3_b_im u)
      | 13%Z => (* explicit 2N scheme / Crank-Nicolson chain of low-storage scheme ints[2] *)
               let '(al, be, ga) := scheme_ls (int ints 2) in
               Some (ls_explicit_loop (vo := vo) Fx dt be ga (repeat 0%Q d) u)
      | 14%Z => let '(al, be, ga) := scheme_ls (int ints 2) in
               Some (cn_chain (vo := vo) G Gi dt al u)
      | _ => None
      end
  | 1%Z => Some [qofb (ls_rejects (intn ints 0) (intn ints 1) (intn ints 2))]
  | 2%Z => (* ints = [n_b_ex; n_b_im; n_rows_ex; rows_ex...; rows_im...] *)
      let nre := intn ints 2 in
      let rest := map Z.to_nat (skipn 3 ints) in
      Some [qofb (tableau_rejects (firstn nre rest) (skipn nre rest) (intn ints 0) (intn ints 1))]
  | 3%Z => (* Butcher form of a low-storage scheme: ints = [scheme] (3,4) or arrays given (scheme 6) *)
      let '(al, be, ga) := match int ints 0 with
                           | 6%Z => (arr arrs 0, arr arrs 1, arr arrs 2)
                           | k => scheme_ls k end in
      Some (flat (lowstorage_to_butcher al be ga))
  | 4%Z => (* the generated coefficients, for the implementation-side oracles *)
      match int ints 0 with
      | 3%Z | 4%Z => let '(al, be, ga) := scheme_ls (int ints 0) in Some (al ++ be ++ ga)
      | 5%Z => Some (flat (sil3_a_ex, sil3_a_im, sil3_b_ex, sil3_b_im))
      | 1%Z => Some [leapfrog_alpha_default]
      | _ => Some [qofb gen_complete; qofb rk2_via_lowstorage]
      end
  | 5%Z => (* power series in h of one step for u' = F(u) + g u (Model/SeriesH.v, carrier Q, truncated after
              h^(n-1)): ints = [scheme; n] (0..5 as above, 6 = exact flow; n = 0 means 5, the truncation of the
              theorems), arrs = [[u0; g; alpha]; [c0..c4]] *)
      let u0 := scalar arrs 0 0 in let g := scalar arrs 0 1 in let alpha := scalar arrs 0 2 in
      let cs := arr arrs 1 in
      let cq := fun q : Q => Qred q in
      let n := match intn ints 1 with O => 5%nat | k => k end in
      match int ints 0 with
      | 0%Z => Some (run_euler (oB := QOps) n cs u0 g)
      | 1%Z => Some (run_leapfrog (oB := QOps) cq n cs u0 g alpha)
      | 2%Z => Some (run_rk2 (oB := QOps) cq n cs u0 g)
      | 3%Z => Some (run_ls (oB := QOps) cq n cs u0 g rk3_alphas rk3_betas rk3_gammas)
      | 4%Z => Some (run_ls (oB := QOps) cq n cs u0 g rk4_alphas rk4_betas rk4_gammas)
      | 5%Z => run_imex (oB := QOps) cq n cs u0 g sil3_a_ex sil3_a_im sil3_b_ex sil3_b_im
      | 6%Z => Some (exact_flow (oB := QOps) cq n cs u0 g)
      | _ => None
      end
  | _ => None
  end.

Definition run (prop cmd : Z) (ints : list Z) (arrs : list (list Q)) : option (list Q) :=
  run_C06 cmd ints arrs.

Extraction "Extract/ml/C06/dispatch.ml" run.
