(** Helpers shared by the per-property dispatchers (executed at [Q]). *)
From Dino Require Import Base.Ops Base.Sums.

Definition qnth (l : list Q) : nat -> Q := fun i => nth i l 0%Q.
Definition arr (arrs : list (list Q)) (i : nat) : list Q := nth i arrs [].
Definition arrf (arrs : list (list Q)) (i : nat) : nat -> Q := qnth (arr arrs i).
Definition int (ints : list Z) (i : nat) : Z := nth i ints 0%Z.
Definition intn (ints : list Z) (i : nat) : nat := Z.to_nat (int ints i).
Definition intb (ints : list Z) (i : nat) : bool := negb (Z.eqb (int ints i) 0).
Definition qtab (n : nat) (f : nat -> Q) : list Q := map f (seq 0 n).
Definition qtab2 (n m : nat) (f : nat -> nat -> Q) : list Q :=
  concat (map (fun i => map (f i) (seq 0 m)) (seq 0 n)).
Definition qofb (b : bool) : Q := if b then 1%Q else 0%Q.
Definition scalar (arrs : list (list Q)) (i j : nat) : Q := nth j (arr arrs i) 0%Q.
