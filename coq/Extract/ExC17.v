(** Executable entry point of the C17 model (run at exact rationals) and its
    extraction.  ExtrOcamlBasic only: Z, positive, Q, nat stay inductive. *)
From Dino Require Import Base.Ops Base.Sums Model.Interp Extract.Common.
Require Extraction.
Require Import ExtrOcamlBasic.

(** optional results are encoded as pairs [present; value] *)
Definition enc (v : option Q) : list Q :=
  match v with Some q => [1%Q; q] | None => [0%Q; 0%Q] end.
Definition otab (n : nat) (f : nat -> option Q) : list Q := flat_map (fun i => enc (f i)) (seq 0 n).
(** data with a "missing" mask (1 = missing; an absent mask means all present) *)
Definition optf (mask vals : nat -> Q) : nat -> option Q :=
  fun i => if Qeq_bool (mask i) 0 then Some (vals i) else None.
Definition nats_from (ints : list Z) (k : nat) : nat -> nat :=
  fun i => Z.to_nat (nth (k + i) ints 0%Z).

(** arrays: see tools/props/C17.py for the argument conventions. *)
Definition run_C17 (cmd : Z) (ints : list Z) (arrs : list (list Q)) : option (list Q) :=
  let n := intn ints 0 in
  let m := intn ints 1 in
  match cmd with
  | 0%Z => Some (map (interp_ref n (arrf arrs 0) (arrf arrs 1)) (arr arrs 2))
  | 1%Z => Some (map (dot_interp n (arrf arrs 0) (arrf arrs 1)) (arr arrs 2))
  | 2%Z => Some (map (lin_extrap n (arrf arrs 0) (arrf arrs 1)) (arr arrs 2))
  | 3%Z => Some (flat_map (fun x => enc (safe_extrap_o (intn ints 2) n (arrf arrs 0)
                                           (optf (arrf arrs 3) (arrf arrs 1)) x)) (arr arrs 2))
  | 4%Z => Some [win_lo m (arrf arrs 0); win_hi m n (arrf arrs 0)]
  | 5%Z => Some (otab m (interp_pressure_to_sigma_o n (arrf arrs 0) (optf (arrf arrs 4) (arrf arrs 1))
                           (arrf arrs 2) (scalar arrs 3 0)))
  | 6%Z => Some (otab m (interp_sigma_to_pressure_o n (arrf arrs 0) (optf (arrf arrs 4) (arrf arrs 1))
                           (arrf arrs 2) (scalar arrs 3 0)))
  | 7%Z => Some (otab n (roundtrip_p_s_p n m (arrf arrs 0) (arrf arrs 1) (arrf arrs 2) (scalar arrs 3 0)))
  | 8%Z => Some (otab m (interp_hybrid_to_sigma n (arrf arrs 0) (arrf arrs 1) (arrf arrs 2)
                           (arrf arrs 3) (scalar arrs 4 0)))
  | 9%Z => Some [surface_pressure n (arrf arrs 0) (arrf arrs 1) (scalar arrs 2 0) (scalar arrs 2 1)]
  | 10%Z => let mlon := intn ints 2 in let mlat := intn ints 3 in
            let f := fun i j => arrf arrs 2 (i * m + j)%nat in
            Some (qtab2 mlon mlat (bilinear n m (arrf arrs 0) (arrf arrs 1) f (arrf arrs 3) (arrf arrs 4)))
  | 11%Z => Some (qtab m (nearest (nats_from ints 2) (arrf arrs 0)))
  | 12%Z => Some (qtab n (hyb_sigma_centers (arrf arrs 0) (arrf arrs 1) (scalar arrs 2 0)))
  | _ => None
  end.

Definition run (prop cmd : Z) (ints : list Z) (arrs : list (list Q)) : option (list Q) :=
  run_C17 cmd ints arrs.

Extraction "Extract/ml/C17/dispatch.ml" run.
