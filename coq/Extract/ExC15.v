(** Executable entry point of the C15 model (run at exact rationals) and its
    extraction.  ExtrOcamlBasic only: Z, positive, Q, nat stay inductive. *)
From Dino Require Import Base.Ops Base.Sums Model.Filters Extract.Common.
Require Extraction.
Require Import ExtrOcamlBasic.

(** Argument conventions (see tools/props/C15.py).  A shape at position [pos]
    of [ints] is its rank followed by its dimensions. *)
Definition get_shape (ints : list Z) (pos : nat) : list nat :=
  map Z.to_nat (firstn (intn ints pos) (skipn (S pos) ints)).
Definition qshape (s : list nat) : list Q := map (fun d => inject_Z (Z.of_nat d)) s.
Definition flat_arr (s : list nat) (l : list Q) : @Filters.arr Q := of_flat s (qnth l).
Definition out_arr (a : option (@Filters.arr Q)) : option (list Q) :=
  match a with None => None | Some x => Some (qshape (fst x) ++ to_flat x) end.

Definition run_C15 (cmd : Z) (ints : list Z) (arrs : list (list Q)) : option (list Q) :=
  let L := intn ints 0 in
  let p := intn ints 1 in
  let lw := fun j : nat => intn ints (2 + j) in
  let sh := get_shape ints (2 + L) in
  match cmd with
  | 0%Z => let s1 := get_shape ints 0 in
           let s2 := get_shape ints (1 + length s1) in
           match broadcast_shapes s1 s2 with
           | None => Some [0%Q]
           | Some s => Some (1%Q :: qshape s)
           end
  | 1%Z => let s1 := get_shape ints 0 in
           let s2 := get_shape ints (1 + length s1) in
           Some [qofb (preserves_shape s1 s2)]
  | 2%Z => Some (qtab L (fun j => exp_exponent (scalar arrs 0 0) (scalar arrs 0 1) p (maxn L lw) (lw j)))
  | 3%Z => Some (qtab L (fun j => hd_exponent (scalar arrs 0 0) (scalar arrs 0 1) p (lw j)))
  | 4%Z => let a := snd (exp_step_att (scalar arrs 0 0) (scalar_arr (scalar arrs 0 1))) [] in
           Some (qtab L (fun j => exp_exponent a (scalar arrs 0 2) p (maxn L lw) (lw j)))
  | 5%Z => let r := scalar arrs 0 2 in
           let s := snd (hd_step_scale L lw (scalar arrs 0 0) (scalar_arr (scalar arrs 0 1)) r p) [] in
           Some (qtab L (fun j => hd_exponent s r p (lw j)))
  | 6%Z => out_arr (exp_filter_exponent L lw (flat_arr sh (arr arrs 0)) (scalar arrs 1 0) p)
  | 7%Z => out_arr (hd_filter_exponent L lw (flat_arr sh (arr arrs 0)) (scalar arrs 1 0) p)
  | 8%Z => out_arr (exp_filter_exponent L lw (exp_step_att (scalar arrs 1 0) (flat_arr sh (arr arrs 0)))
                                        (scalar arrs 1 1) p)
  | 9%Z => let r := scalar arrs 1 1 in
           out_arr (hd_filter_exponent L lw (hd_step_scale L lw (scalar arrs 1 0) (flat_arr sh (arr arrs 0)) r p) r p)
  | 10%Z => let s1 := get_shape ints 0 in
            let s2 := get_shape ints (1 + length s1) in
            Some (to_flat (rescale (flat_arr s1 (arr arrs 0)) (flat_arr s2 (arr arrs 1))))
  | 11%Z => let s := get_shape ints 0 in
            Some (to_flat (ra_leaf (scalar arrs 3 0) (flat_arr s (arr arrs 0)) (flat_arr s (arr arrs 1))
                                   (flat_arr s (arr arrs 2))))
  | 12%Z => Some (qtab L (fun j => lap_eig (scalar arrs 0 0) (lw j)) ++ [max_abs_eig L lw (scalar arrs 0 0)])
  | _ => None
  end.

Definition run (prop cmd : Z) (ints : list Z) (arrs : list (list Q)) : option (list Q) :=
  run_C15 cmd ints arrs.

Extraction "Extract/ml/C15/dispatch.ml" run.
