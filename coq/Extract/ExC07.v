(** Executable entry point of the C07 model (run at exact rationals) and its
    extraction.  ExtrOcamlBasic only: Z, positive, Q, nat stay inductive. *)
From Dino Require Import Base.Ops Base.Sums Model.Sigma Model.Sharding Extract.Common.
Require Extraction.
Require Import ExtrOcamlBasic.

(** arrays: see tools/props/C07.py for the argument conventions. *)
Definition qnat (k : nat) : Q := inject_Z (Z.of_nat k).
Definition qtab3 (n m l : nat) (f : nat -> nat -> nat -> Q) : list Q :=
  concat (map (fun i => qtab2 m l (f i)) (seq 0 n)).
Definition qtab4 (n m l r : nat) (f : nat -> nat -> nat -> nat -> Q) : list Q :=
  concat (map (fun i => qtab3 m l r (f i)) (seq 0 n)).
Definition optq (x : option nat) : Q := match x with Some k => qnat k | None => (-1)%Q end.
Definition dec_spec (z : Z) : option nat := if Z.eqb z 0 then None else Some (Z.to_nat z - 1)%nat.
Definition enc_spec (x : option nat) : Q := match x with Some k => qnat (S k) | None => 0%Q end.
Definition sub_list (l : list Z) (off len : nat) : list Z := firstn len (skipn off l).

Definition run_C07 (cmd : Z) (ints : list Z) (arrs : list (list Q)) : option (list Q) :=
  match cmd with
  | 0%Z => (* _allgather_matmul_twoway: ints [n; c; A; rev] *)
      let n := intn ints 0 in let c := intn ints 1 in let A := intn ints 2 in
      let J := (n * c)%nat in
      let lhs := fun d a j => arrf arrs 0 ((d * A + a) * J + j)%nat in
      let rhs := fun d j => arrf arrs 1 (d * c + j)%nat in
      match allgather_matmul_twoway n c (intb ints 3) lhs rhs with
      | Some out => Some (qtab2 n A out)
      | None => None
      end
  | 1%Z => (* _matmul_reducescatter_twoway: ints [n; c; cj; rev] *)
      let n := intn ints 0 in let c := intn ints 1 in let cj := intn ints 2 in
      let lhs := fun d a j => arrf arrs 0 ((d * (n * c) + a) * cj + j)%nat in
      let rhs := fun d j => arrf arrs 1 (d * cj + j)%nat in
      match matmul_reducescatter_twoway n c cj (intb ints 3) lhs rhs with
      | Some out => Some (qtab2 n c out)
      | None => None
      end
  | 2%Z => (* _parallel_dot_cumsum per device: ints [n; c; reverse] *)
      let n := intn ints 0 in let c := intn ints 1 in
      let x := fun d j => arrf arrs 0 (d * c + j)%nat in
      Some (qtab2 n c (parallel_dot_cumsum n c (intb ints 2) x))
  | 3%Z => (* _dot_cumsum: ints [n; c; sharded; reverse] *)
      let n := intn ints 0 in let c := intn ints 1 in
      Some (qtab (n * c) (dot_cumsum (intb ints 2) (intb ints 3) n c (arrf arrs 0)))
  | 4%Z => (* _unstack_m: ints [Z; M; L; nx] (nx = 0: no mesh) *)
      let Z := intn ints 0 in let M := intn ints 1 in let L := intn ints 2 in let nx := intn ints 3 in
      let X := fun z m l => arrf arrs 0 ((z * M + m) * L + l)%nat in
      Some (qtab4 Z 2 (M / 2) L
              (if Nat.eqb nx 0 then unstack_m Z M X else unstack_m_sharded Z (M / nx) X))
  | 5%Z => (* _stack_m: ints [Z; K; L; nx] *)
      let Z := intn ints 0 in let K := intn ints 1 in let L := intn ints 2 in let nx := intn ints 3 in
      let Y := fun z s k l => arrf arrs 0 (((z * 2 + s) * K + k) * L + l)%nat in
      Some (qtab3 Z (2 * K) L
              (if Nat.eqb nx 0 then stack_m Z K Y else stack_m_sharded Z (K / nx) Y))
  | 6%Z => (* longitude derivative: ints [M; nx] *)
      let M := intn ints 0 in let nx := intn ints 1 in
      Some (qtab M (if Nat.eqb nx 0 then dlon_global M (arrf arrs 0) else dlon_sharded (M / nx) (arrf arrs 0)))
  | 7%Z => (* padded shapes: ints [lon_nodes; lat_nodes; lon_wavenumbers; total_wavenumbers; base; xs; ys] *)
      let b := intn ints 4 in let xs := intn ints 5 in let ys := intn ints 6 in
      Some [qnat (nodal_shape_x (intn ints 0) b xs); qnat (nodal_shape_y (intn ints 1) b ys);
            qnat (modal_shape_x (intn ints 2) b xs); qnat (modal_shape_y (intn ints 3) b ys)]
  | 8%Z => (* _with_vertical_padding with the level-wise map v -> 2 v + (k+1): ints [K; zs] *)
      let K := intn ints 0 in let zs := intn ints 1 in
      let f := fun (_ : nat) (y : nat -> Q) (k : nat) => (fadd (fmul (2#1) (y k)) (qnat (S k))) in
      let r := with_vertical_padding 0%Q K zs f (arrf arrs 0) in
      Some (qnat (vertical_padding K zs) :: qnat (fst r) :: qtab (fst r) (snd r))
  | 9%Z => (* sharded_einsum subscript logic:
              ints [nl; nr; no; lhs...; rhs...; out...; rhs_spec...; out_spec...] (spec: 0 = None, k+1 = axis k) *)
      let nl := intn ints 0 in let nr := intn ints 1 in let no := intn ints 2 in
      let tl := skipn 3 ints in
      let lhs := map Z.to_nat (sub_list tl 0 nl) in
      let rhs := map Z.to_nat (sub_list tl nl nr) in
      let out := map Z.to_nat (sub_list tl (nl + nr) no) in
      let rspec := map dec_spec (sub_list tl (nl + nr + no) nr) in
      let ospec := map dec_spec (sub_list tl (nl + nr + no + nr) no) in
      Some (optq (determine_reduce_subscript lhs rhs out rspec)
            :: optq (determine_transfer_subscript lhs rhs out ospec)
            :: map enc_spec (lhs_partitions true lhs rhs out rspec ospec)
            ++ map enc_spec (lhs_partitions false lhs rhs out rspec ospec))
  | 10%Z => (* default strategy: ints [out_size; rhs_size] *)
      Some [qofb (default_gather (intn ints 0) (intn ints 1))]
  | _ => None
  end.

Definition run (prop cmd : Z) (ints : list Z) (arrs : list (list Q)) : option (list Q) :=
  run_C07 cmd ints arrs.

Extraction "Extract/ml/C07/dispatch.ml" run.
