(** Executable entry point for C08: the carrier-generic models run at dual
    numbers over exact rationals = forward-mode derivative of the model.
    ExtrOcamlBasic only: Z, positive, Q, nat stay inductive. *)
From Dino Require Import Base.Ops Base.Sums Base.Ord Model.Dual Model.Sigma Model.Implicit Model.PrimEq Extract.Common.
Require Extraction.
Require Import ExtrOcamlBasic.

Definition DQ := dual Q.
#[local] Instance DQOps : Ops DQ := @DualOps Q QOps.

Definition dv (x v : nat -> Q) : nat -> DQ := fun i => mkdual (x i) (v i).
Definition dc (x : nat -> Q) : nat -> DQ := fun i => mkdual (x i) 0%Q.
Definition dq (c : Q) : DQ := mkdual c 0%Q.
Definition out (n : nat) (f : nat -> DQ) : list Q :=
  let l := map f (seq 0 n) in map re l ++ map ep l.

Definition run_C08 (cmd : Z) (ints : list Z) (arrs : list (list Q)) : option (list Q) :=
  let K := intn ints 0%nat in
  let A := arrf arrs in
  match cmd with
  | 0%Z => Some (out K (cum_sigma_integral (intb ints 1%nat) (intb ints 2%nat) K (dc (A 0%nat)) (dv (A 1%nat) (A 2%nat))))
  | 1%Z => Some (out K (centered_vertical_advection K (dc (A 0%nat)) (dv (A 1%nat) (A 3%nat)) (dv (A 2%nat) (A 4%nat))
                          (dq 0%Q) (dq 0%Q) (dq 0%Q) (dq 0%Q)))
  | 2%Z => Some (out (K - 1) (centered_difference (dc (A 0%nat)) (dv (A 1%nat) (A 2%nat))))
  | 3%Z => Some (out K (cum_log_sigma_integral (intb ints 1%nat) (intb ints 2%nat) K (dc (A 0%nat)) (dv (A 1%nat) (A 2%nat))))
  | 4%Z => Some (out K ((if intb ints 1%nat then geo_diff_sparse else geo_diff_dense)
                          K (dq (scalar arrs 3%nat 0%nat)) (dc (A 0%nat)) (dv (A 1%nat) (A 2%nat))))
  | 5%Z => Some (out K (upwind_vertical_advection K (dc (A 0%nat)) (dv (A 1%nat) (A 3%nat)) (dv (A 2%nat) (A 4%nat))))
  (* primitive-equation column algebra (Model/PrimEq.v, Model/Implicit.v) at dual numbers:
     arrs = [0 ls; 1 b; 2 Tref; 3 [R; kappa]; 4.. data; ... tangents] *)
  | 6%Z => let c := @mkPE DQ K (dq (scalar arrs 3%nat 0%nat)) (dq (scalar arrs 3%nat 1%nat)) (dc (A 0%nat)) (dc (A 1%nat)) (dc (A 2%nat)) in
           (* _t_omega_over_sigma_sp(T_field, g_term, v_dot_grad): data 4,5,6 tangents 7,8,9 *)
           Some (out K (t_omega_over_sigma_sp c (dv (A 4%nat) (A 7%nat)) (dv (A 5%nat) (A 8%nat)) (dv (A 6%nat) (A 9%nat))))
  | 7%Z => let c := @mkPE DQ K (dq (scalar arrs 3%nat 0%nat)) (dq (scalar arrs 3%nat 1%nat)) (dc (A 0%nat)) (dc (A 1%nat)) (dc (A 2%nat)) in
           (* get_temperature_implicit(divergence): data 4 tangent 5; ints[1] = sparse *)
           Some (out K ((if intb ints 1%nat then temp_implicit_sparse else temp_implicit_dense) c (dv (A 4%nat) (A 5%nat))))
  | _ => None
  end.

Definition run (prop cmd : Z) (ints : list Z) (arrs : list (list Q)) : option (list Q) :=
  run_C08 cmd ints arrs.

Extraction "Extract/ml/C08/dispatch.ml" run.
