(** Executable entry point for C08: the carrier-generic models run at dual
    numbers over exact rationals = forward-mode derivative of the model.
    ExtrOcamlBasic only: Z, positive, Q, nat stay inductive. *)
From Dino Require Import Base.Ops Base.Sums Base.Ord Model.Dual Model.Sigma Model.Implicit Model.PrimEq Extract.Common.
From Dino Require Model.SHT Model.Deriv Model.Filters Thm.AdjointOps Thm.AdjointJvp.
Require Extraction.
Require Import ExtrOcamlBasic.

Definition DQ := dual Q.
#[local] Instance DQOps : Ops DQ := @DualOps Q QOps.

Definition dv (x v : nat -> Q) : nat -> DQ := fun i => mkdual (x i) (v i).
Definition dc (x : nat -> Q) : nat -> DQ := fun i => mkdual (x i) 0%Q.
Definition dq (c : Q) : DQ := mkdual c 0%Q.
Definition out (n : nat) (f : nat -> DQ) : list Q :=
  let l := map f (seq 0 n) in map re l ++ map ep l.


(** ** nodal column algebra of the primitive equations at dual numbers (Model/PrimEq.v with the
    lifts [dcfg], [dcol], [dmoist] of Thm/AdjointJvp.v).
    ints = [K; include_vertical_advection; sparse]
    arrs = primal block as in ExC04: [0 ls; 1 b; 2 Tref; 3 [R; kappa; Rv; Cpv]; 4 u; 5 v; 6 vort; 7 div;
            8 temp; 9 [gx; gy; sec2; f; lap_lsp]; 10 q (or any tracer); 11 qc; 12 qi; 13 gqx; 14 gqy]
           followed by the tangents of 4..14 at 15..25 (entries sec2, f of 20 are ignored). *)
Definition cfg08 (ints : list Z) (arrs : list (list Q)) : @PEcfg Q :=
  mkPE (intn ints 0) (scalar arrs 3 0) (scalar arrs 3 1) (arrf arrs 0) (arrf arrs 1) (arrf arrs 2).
Definition ncol08 (arrs : list (list Q)) (off : nat) : @NCol Q :=
  mkNCol (arrf arrs (4 + off)) (arrf arrs (5 + off)) (arrf arrs (6 + off)) (arrf arrs (7 + off)) (arrf arrs (8 + off))
         (scalar arrs (9 + off) 0) (scalar arrs (9 + off) 1) (scalar arrs (9 + off) 2) (scalar arrs (9 + off) 3).

(** ** 2-D helpers at the dual carrier *)
Definition a2q (C : nat) (l : list Q) : nat -> nat -> Q := fun i j => qnth l (i * C + j).
Definition d2v (x v : nat -> nat -> Q) : nat -> nat -> DQ := fun i j => mkdual (x i j) (v i j).
Definition d2c (x : nat -> nat -> Q) : nat -> nat -> DQ := fun i j => mkdual (x i j) 0%Q.
Definition out2 (n m : nat) (f : nat -> nat -> DQ) : list Q :=
  let l := concat (map (fun i => map (f i) (seq 0 m)) (seq 0 n)) in map re l ++ map ep l.

(** spectral derivative operators at dual numbers: op selects the operator *)
Definition deriv08 (op : Z) (fast : bool) (L R C n : nat) (r : DQ) (a b x y : nat -> nat -> DQ) (c : bool) : option (list Q) :=
  match op with
  | 0%Z => Some (out2 R C (Deriv.d_dlon fast R x))
  | 1%Z => Some (out2 R C (Deriv.D1 L C a b x))
  | 2%Z => Some (out2 R C (Deriv.D2 L C a b x))
  | 3%Z => Some (out2 R C (Deriv.laplacian L r x))
  | 4%Z => Some (out2 R C (Deriv.inverse_laplacian L r x))
  | 5%Z => Some (out2 R C (Deriv.clip L C n x))
  | 6%Z => let g := Deriv.cos_lat_grad fast L R C r a b c x in Some (out2 R C (fst g) ++ out2 R C (snd g))
  | 7%Z => Some (out2 R C (Deriv.div_cos_lat fast L R C r a b c (x, y)))
  | 8%Z => Some (out2 R C (Deriv.curl_cos_lat fast L R C r a b c (x, y)))
  | _ => None
  end.
(** the explicit transposes (Thm/AdjointOps.v) at exact rationals *)
Definition derivT08 (op : Z) (fast : bool) (L R C n : nat) (r : Q) (a b y z : nat -> nat -> Q) : option (list Q) :=
  match op with
  | 0%Z => Some (qtab2 R C (fun i l => fopp (Deriv.d_dlon fast R y i l)))
  | 1%Z => Some (qtab2 R C (AdjointOps.D1T L C a b y))
  | 2%Z => Some (qtab2 R C (AdjointOps.D2T L C a b y))
  | 3%Z => Some (qtab2 R C (Deriv.laplacian L r y))
  | 4%Z => Some (qtab2 R C (Deriv.inverse_laplacian L r y))
  | 5%Z => Some (qtab2 R C (Deriv.clip L C n y))
  | 6%Z => Some (qtab2 R C (AdjointOps.cos_lat_gradT fast L R C r a b (y, z)))
  | _ => None
  end.

Definition run_C08 (cmd : Z) (ints : list Z) (arrs : list (list Q)) : option (list Q) :=
  let K := intn ints 0%nat in
  let A := arrf arrs in
  match cmd with
  | 0%Z => Some (out K (cum_sigma_integral (intb ints 1%nat) (intb ints 2%nat) K (dc (A 0%nat)) (dv (A 1%nat) (A 2%nat))))
  | 1%Z => Some (out K (centered_vertical_advection K (dc (A 0%nat)) (dv (A 1%nat) (A 3%nat)) (dv (A 2%nat) (A 4%nat))
                          (dq 0%Q) (dq 0%Q) (dq 0%Q) (dq 0%Q)))
  | 2%Z => Some (out (K - 1) (centered_difference (dc (A 0%nat)) (dv (A 1%nat) (A 2%nat))))
  | 3%Z => Some (out K (cum_log_sigma_integral (intb ints 1%nat) (intb ints 2%nat) K (dc (A 0%nat)) (dv (A 1%nat) (A 2%nat))))
  | 4%Z => Some (out K ((if intb ints 1%nat then geo_diff_sparse else geo_diff_dense)
                          K (dq (scalar arrs 3%nat 0%nat)) (dc (A 0%nat)) (dv (A 1%nat) (A 2%nat))))
  | 5%Z => Some (out K (upwind_vertical_advection K (dc (A 0%nat)) (dv (A 1%nat) (A 3%nat)) (dv (A 2%nat) (A 4%nat))))
  (* primitive-equation column algebra (Model/PrimEq.v, Model/Implicit.v) at dual numbers:
     arrs = [0 ls; 1 b; 2 Tref; 3 [R; kappa]; 4.. data; ... tangents] *)
  | 6%Z => let c := @mkPE DQ K (dq (scalar arrs 3%nat 0%nat)) (dq (scalar arrs 3%nat 1%nat)) (dc (A 0%nat)) (dc (A 1%nat)) (dc (A 2%nat)) in
           (* _t_omega_over_sigma_sp(T_field, g_term, v_dot_grad): data 4,5,6 tangents 7,8,9 *)
           Some (out K (t_omega_over_sigma_sp c (dv (A 4%nat) (A 7%nat)) (dv (A 5%nat) (A 8%nat)) (dv (A 6%nat) (A 9%nat))))
  | 7%Z => let c := @mkPE DQ K (dq (scalar arrs 3%nat 0%nat)) (dq (scalar arrs 3%nat 1%nat)) (dc (A 0%nat)) (dc (A 1%nat)) (dc (A 2%nat)) in
           (* get_temperature_implicit(divergence): data 4 tangent 5; ints[1] = sparse *)
           Some (out K ((if intb ints 1%nat then temp_implicit_sparse else temp_implicit_dense) c (dv (A 4%nat) (A 5%nat))))
  (* ---- nodal column algebra at dual numbers ---- *)
  | 10%Z | 11%Z | 12%Z | 13%Z =>
      let va := intb ints 1%nat in let sparse := intb ints 2%nat in
      let c := AdjointJvp.dcfg (cfg08 ints arrs) in
      let m := AdjointJvp.dmoist (mkMoist (scalar arrs 3%nat 2%nat) (scalar arrs 3%nat 3%nat)) in
      let X := AdjointJvp.dcol (ncol08 arrs 0) (ncol08 arrs 11) in
      let Qh := dv (A 10%nat) (A 21%nat) in
      let QC := dv (A 11%nat) (A 22%nat) in let QI := dv (A 12%nat) (A 23%nat) in
      let GX := dv (A 13%nat) (A 24%nat) in let GY := dv (A 14%nat) (A 25%nat) in
      let lap := mkdual (scalar arrs 9%nat 4%nat) (scalar arrs 20%nat 4%nat) in
      match cmd with
      | 10%Z => Some (out K (u_dot_grad X) ++ out (K - 1) (sigma_dot_explicit c X) ++ out (K - 1) (sigma_dot_full c X)
                      ++ out K (temp_vertical_tendency c va X) ++ out K (temp_adiabatic c X)
                      ++ out 1 (fun _ => log_pressure_tendency c X) ++ out K (temp_nodal_total c va X)
                      ++ out K (combined_u c va X (rt_dry c X)) ++ out K (combined_v c va X (rt_dry c X))
                      ++ out K (kinetic X))
      | 11%Z => Some (out K (tracer_nodal_total c va X Qh) ++ out K (hsa_mu X Qh) ++ out K (hsa_mv X Qh))
      | 12%Z => Some (out K (temp_adiabatic_moist c m X Qh) ++ out K (temp_nodal_total_moist c va m X Qh)
                      ++ out K (combined_u c va X (rt_moist c m X Qh)) ++ out K (combined_v c va X (rt_moist c m X Qh))
                      ++ out K (humidity_div_nodal c m X Qh GX GY lap) ++ out K (humidity_geo_nodal c sparse m X Qh)
                      ++ out K (humidity_curl_nodal c m X GX GY))
      | _ => let rt := rt_cloud c m X Qh QC QI in
             Some (out K (combined_u c va X rt) ++ out K (combined_v c va X rt))
      end
  (* ---- spherical-harmonic transforms (reference layout) at dual numbers; tables constant.
          ints = [K; L; I; J]  arrs = [f (I*K); p (K*J*L); w (J); x; dx] ---- *)
  | 20%Z => let Km := intn ints 0%nat in let L := intn ints 1%nat in let I := intn ints 2%nat in let J := intn ints 3%nat in
            let f := SHT.arr2 I Km (arr arrs 0%nat) in let p := SHT.arr3 Km J L (arr arrs 1%nat) in
            let x := SHT.arr2 Km L (arr arrs 3%nat) in let dx := SHT.arr2 Km L (arr arrs 4%nat) in
            Some (out2 I J (SHT.synth Km L J (d2c f) (fun a j l => dq (p a j l)) (d2v x dx)))
  | 21%Z => let Km := intn ints 0%nat in let L := intn ints 1%nat in let I := intn ints 2%nat in let J := intn ints 3%nat in
            let f := SHT.arr2 I Km (arr arrs 0%nat) in let p := SHT.arr3 Km J L (arr arrs 1%nat) in
            let w := SHT.arr1 (arr arrs 2%nat) in
            let z := SHT.arr2 I J (arr arrs 3%nat) in let dz := SHT.arr2 I J (arr arrs 4%nat) in
            Some (out2 Km L (SHT.analysis Km I J (d2c f) (fun a j l => dq (p a j l)) (dc w) (d2v z dz)))
  (* the explicit transposes at exact rationals: synthT z, analysisT y *)
  | 22%Z => let Km := intn ints 0%nat in let L := intn ints 1%nat in let I := intn ints 2%nat in let J := intn ints 3%nat in
            let f := SHT.arr2 I Km (arr arrs 0%nat) in let p := SHT.arr3 Km J L (arr arrs 1%nat) in
            Some (qtab2 Km L (AdjointOps.synthT I J f p (SHT.arr2 I J (arr arrs 3%nat))))
  | 23%Z => let Km := intn ints 0%nat in let L := intn ints 1%nat in let I := intn ints 2%nat in let J := intn ints 3%nat in
            let f := SHT.arr2 I Km (arr arrs 0%nat) in let p := SHT.arr3 Km J L (arr arrs 1%nat) in
            let w := SHT.arr1 (arr arrs 2%nat) in
            Some (qtab2 I J (AdjointOps.analysisT Km L f p w (SHT.arr2 Km L (arr arrs 3%nat))))
  (* ---- spectral derivative operators: ints = [fast; M; L; R; C; clip; n; op]
          arrs = [[r]; a; b; x; y; dx; dy] (dual run) / [[r]; a; b; y; z] (transposes) ---- *)
  | 30%Z => let C := intn ints 4%nat in
            deriv08 (int ints 7%nat) (intb ints 0%nat) (intn ints 2%nat) (intn ints 3%nat) C (intn ints 6%nat)
                    (dq (scalar arrs 0%nat 0%nat)) (d2c (a2q C (arr arrs 1%nat))) (d2c (a2q C (arr arrs 2%nat)))
                    (d2v (a2q C (arr arrs 3%nat)) (a2q C (arr arrs 5%nat)))
                    (d2v (a2q C (arr arrs 4%nat)) (a2q C (arr arrs 6%nat))) (intb ints 5%nat)
  | 31%Z => let C := intn ints 4%nat in
            derivT08 (int ints 7%nat) (intb ints 0%nat) (intn ints 2%nat) (intn ints 3%nat) C (intn ints 6%nat)
                     (scalar arrs 0%nat 0%nat) (a2q C (arr arrs 1%nat)) (a2q C (arr arrs 2%nat))
                     (a2q C (arr arrs 3%nat)) (a2q C (arr arrs 4%nat))
  (* ---- filters: leaf rescaling by a constant attenuation array (the exp table is an input):
          ints = [R; C]  arrs = [scaling (C); x (R*C); dx (R*C)] ---- *)
  | 40%Z => let R := intn ints 0%nat in let C := intn ints 1%nat in
            let sc : @Filters.arr DQ := ([C], fun idx => dq (qnth (arr arrs 0%nat) (last idx 0%nat))) in
            let x : @Filters.arr DQ := Filters.of_flat [R; C] (dv (A 1%nat) (A 2%nat)) in
            let y := Filters.rescale sc x in
            let l := Filters.to_flat y in Some (map re l ++ map ep l)
  | _ => None
  end.

Definition run (prop cmd : Z) (ints : list Z) (arrs : list (list Q)) : option (list Q) :=
  run_C08 cmd ints arrs.

Extraction "Extract/ml/C08/dispatch.ml" run.
