(** Executable entry point for C08: the carrier-generic models run at dual
    numbers over exact rationals = forward-mode derivative of the model.
    ExtrOcamlBasic only: Z, positive, Q, nat stay inductive. *)
From Dino Require Import Base.Ops Base.Sums Base.Ord Model.Dual Model.Sigma Extract.Common.
Require Extraction.
Require Import ExtrOcamlBasic.

Definition DQ := dual Q.
#[local] Instance DQOps : Ops DQ := @DualOps Q QOps.

Definition dv (x v : nat -> Q) : nat -> DQ := fun i => mkdual (x i) (v i).
Definition dc (x : nat -> Q) : nat -> DQ := fun i => mkdual (x i) 0%Q.
Definition dq (c : Q) : DQ := mkdual c 0%Q.
Definition out (n : nat) (f : nat -> DQ) : list Q :=
  let l := map f (seq 0 n) in map re l ++ map ep l.

Definition run_C08 (cmd : Z) (ints : list Z) (arrs : list (list Q)) : option (list Q) :=
  let K := intn ints 0%nat in
  let A := arrf arrs in
  match cmd with
  | 0%Z => Some (out K (cum_sigma_integral (intb ints 1%nat) (intb ints 2%nat) K (dc (A 0%nat)) (dv (A 1%nat) (A 2%nat))))
  | 1%Z => Some (out K (centered_vertical_advection K (dc (A 0%nat)) (dv (A 1%nat) (A 3%nat)) (dv (A 2%nat) (A 4%nat))
                          (dq 0%Q) (dq 0%Q) (dq 0%Q) (dq 0%Q)))
  | 2%Z => Some (out (K - 1) (centered_difference (dc (A 0%nat)) (dv (A 1%nat) (A 2%nat))))
  | 3%Z => Some (out K (cum_log_sigma_integral (intb ints 1%nat) (intb ints 2%nat) K (dc (A 0%nat)) (dv (A 1%nat) (A 2%nat))))
  | 4%Z => Some (out K ((if intb ints 1%nat then geo_diff_sparse else geo_diff_dense)
                          K (dq (scalar arrs 3%nat 0%nat)) (dc (A 0%nat)) (dv (A 1%nat) (A 2%nat))))
  | 5%Z => Some (out K (upwind_vertical_advection K (dc (A 0%nat)) (dv (A 1%nat) (A 3%nat)) (dv (A 2%nat) (A 4%nat))))
  | _ => None
  end.

Definition run (prop cmd : Z) (ints : list Z) (arrs : list (list Q)) : option (list Q) :=
  run_C08 cmd ints arrs.

Extraction "Extract/ml/C08/dispatch.ml" run.
