(** Executable entry point of the C05 models (run at exact rationals) and its extraction:
    the vertical discretisation of the specification (Model/PrimEqSpec.v) and the column
    algebra of the implementation model (Model/PrimEq.v), on one column.
    ExtrOcamlBasic only: Z, positive, Q, nat stay inductive. *)
From Dino Require Import Base.Ops Base.Sums Base.Ord Model.Sigma Model.Implicit Model.PrimEq Model.PrimEqSpec Extract.Common.
Require Extraction.
Require Import ExtrOcamlBasic.

(** Argument conventions (see tools/props/C05.py):
    ints = [K]
    arrs = [0 ls; 1 b; 2 Tref; 3 [R; kappa; Rv; Cpv]; 4 u; 5 v; 6 vort; 7 div; 8 T (absolute);
            9 [gx; gy; sec2; f; phis; cst]; 10 q]. *)
Definition cfg05 (ints : list Z) (arrs : list (list Q)) : @PEcfg Q :=
  mkPE (intn ints 0) (scalar arrs 3 0) (scalar arrs 3 1) (arrf arrs 0) (arrf arrs 1) (arrf arrs 2).
Definition ncol05 (arrs : list (list Q)) : @NCol Q :=
  mkNCol (arrf arrs 4) (arrf arrs 5) (arrf arrs 6) (arrf arrs 7)
         (fun k => Qred (arrf arrs 8 k - arrf arrs 2 k))
         (scalar arrs 9 0) (scalar arrs 9 1) (scalar arrs 9 2) (scalar arrs 9 3).

Definition run_C05 (cmd : Z) (ints : list Z) (arrs : list (list Q)) : option (list Q) :=
  let K := intn ints 0 in
  let c := cfg05 ints arrs in
  let m := mkMoist (scalar arrs 3 2) (scalar arrs 3 3) in
  let x := ncol05 arrs in
  let T := arrf arrs 8 in
  let q := arrf arrs 10 in
  let g := memo K (fun k => n_div x k + u_dot_grad x k) in
  let ug := memo K (u_dot_grad x) in
  match cmd with
  (* the specification's vertical discretisation *)
  | 0%Z => let sd := memo K (spec_sigma_dot c g) in
           Some (qtab (K - 1) sd ++ qtab K (spec_vadv c sd T) ++ qtab K (spec_omega_p c g ug)
                 ++ [- sumn K (fun k => g k * thickness (cb c) k)]
                 ++ qtab K (spec_vadv c sd (n_u x)) ++ qtab K (spec_vadv c sd (n_v x))
                 ++ qtab K (spec_phi c (scalar arrs 9 4) T))
  (* the implementation model: explicit + implicit column terms *)
  | 1%Z => Some (qtab (K - 1) (sigma_dot_full c x)
                 ++ qtab K (fun n => temp_vertical_tendency c true x n + temp_adiabatic c x n + temp_implicit_col c (n_div x) n)
                 ++ qtab K (fun n => temp_vertical_tendency c true x n + temp_adiabatic_moist c m x q n + temp_implicit_col c (n_div x) n)
                 ++ [log_pressure_tendency c x + lnps_implicit_col c (n_div x)]
                 ++ qtab K (effective_pgf_u c true m x (rt_moist c m x q) q)
                 ++ qtab K (effective_pgf_v c true m x (rt_moist c m x q) q)
                 ++ qtab K (kinetic x))
  (* get_geopotential for one modal coefficient: phis + G . (T' + cst * Tref) *)
  | 2%Z => Some (qtab K (spec_phi c (scalar arrs 9 4) (fun j => n_temp x j + scalar arrs 9 5 * cTref c j)))
  (* the specification's upwind operator: boundary velocities in arr 4, layer values in arr 8 *)
  | 3%Z => Some (qtab K (spec_vadv_upwind c (arrf arrs 4) T))
  | _ => None
  end.

Definition run (prop cmd : Z) (ints : list Z) (arrs : list (list Q)) : option (list Q) :=
  run_C05 cmd ints arrs.

Extraction "Extract/ml/C05/dispatch.ml" run.
