(** Executable entry point of the C05 models (run at exact rationals) and its extraction:
    the vertical discretisation of the specification (Model/PrimEqSpec.v) and the column
    algebra of the implementation model (Model/PrimEq.v), on one column.
    ExtrOcamlBasic only: Z, positive, Q, nat stay inductive. *)
From Dino Require Import Base.Ops Base.Sums Base.Ord Model.Sigma Model.Implicit Model.PrimEq Model.PrimEqSpec Extract.Common.
From Dino Require Import Model.SHT Model.Deriv Model.PrimEqFull.
Require Extraction.
Require Import ExtrOcamlBasic.

(** Argument conventions (see tools/props/C05.py):
    ints = [K]
    arrs = [0 ls; 1 b; 2 Tref; 3 [R; kappa; Rv; Cpv]; 4 u; 5 v; 6 vort; 7 div; 8 T (absolute);
            9 [gx; gy; sec2; f; phis; cst]; 10 q]. *)
Definition cfg05 (ints : list Z) (arrs : list (list Q)) : @PEcfg Q :=
  mkPE (intn ints 0) (scalar arrs 3 0) (scalar arrs 3 1) (arrf arrs 0) (arrf arrs 1) (arrf arrs 2).
Definition ncol05 (arrs : list (list Q)) : @NCol Q :=
  mkNCol (arrf arrs 4) (arrf arrs 5) (arrf arrs 6) (arrf arrs 7)
         (fun k => Qred (arrf arrs 8 k - arrf arrs 2 k))
         (scalar arrs 9 0) (scalar arrs 9 1) (scalar arrs 9 2) (scalar arrs 9 3).

Definition run_C05 (cmd : Z) (ints : list Z) (arrs : list (list Q)) : option (list Q) :=
  let K := intn ints 0 in
  let c := cfg05 ints arrs in
  let m := mkMoist (scalar arrs 3 2) (scalar arrs 3 3) in
  let x := ncol05 arrs in
  let T := arrf arrs 8 in
  let q := arrf arrs 10 in
  let g := memo K (fun k => n_div x k + u_dot_grad x k) in
  let ug := memo K (u_dot_grad x) in
  match cmd with
  (* the specification's vertical discretisation *)
  | 0%Z => let sd := memo K (spec_sigma_dot c g) in
           Some (qtab (K - 1) sd ++ qtab K (spec_vadv c sd T) ++ qtab K (spec_omega_p c g ug)
                 ++ [- sumn K (fun k => g k * thickness (cb c) k)]
                 ++ qtab K (spec_vadv c sd (n_u x)) ++ qtab K (spec_vadv c sd (n_v x))
                 ++ qtab K (spec_phi c (scalar arrs 9 4) T))
  (* the implementation model: explicit + implicit column terms *)
  | 1%Z => Some (qtab (K - 1) (sigma_dot_full c x)
                 ++ qtab K (fun n => temp_vertical_tendency c true x n + temp_adiabatic c x n + temp_implicit_col c (n_div x) n)
                 ++ qtab K (fun n => temp_vertical_tendency c true x n + temp_adiabatic_moist c m x q n + temp_implicit_col c (n_div x) n)
                 ++ [log_pressure_tendency c x + lnps_implicit_col c (n_div x)]
                 ++ qtab K (effective_pgf_u c true m x (rt_moist c m x q) q)
                 ++ qtab K (effective_pgf_v c true m x (rt_moist c m x q) q)
                 ++ qtab K (kinetic x))
  (* get_geopotential for one modal coefficient: phis + G . (T' + cst * Tref) *)
  | 2%Z => Some (qtab K (spec_phi c (scalar arrs 9 4) (fun j => n_temp x j + scalar arrs 9 5 * cTref c j)))
  (* the specification's upwind operator: boundary velocities in arr 4, layer values in arr 8 *)
  | 3%Z => Some (qtab K (spec_vadv_upwind c (arrf arrs 4) T))
  | _ => None
  end.

(** *** the EXECUTED whole-state model (Model/PrimEqFull.v) on a whole state; same argument conventions as
    commands 20-21 of Extract/ExC04.v (all arrays flat row-major):
    ints = [M; L; I; J; K; ntr]
    arrs = [0 f (I x R); 1 p (R x J x L); 2 w (J); 3 a (R x L); 4 b (R x L); 5 sec2_lat (J); 6 sin_lat (J);
            7 [radius; angular_velocity; g; R; kappa]; 8 log(centers) (K); 9 boundaries (K+1); 10 T_ref (K);
            11 orography (R x L); 12 vorticity (K x R x L); 13 divergence; 14 temperature_variation;
            15 log_surface_pressure (R x L); 16 tracers (ntr x K x R x L)] *)
Definition hgrid05 (ints : list Z) (arrs : list (list Q)) : @HGrid Q :=
  let M := intn ints 0 in let L := intn ints 1 in let I := intn ints 2 in let J := intn ints 3 in
  let R := modal_rows_real M in
  mkHG M L I J (scalar arrs 7 0) (SHT.arr2 I R (arr arrs 0)) (SHT.arr3 R J L (arr arrs 1)) (arrf arrs 2)
       (SHT.arr2 R L (arr arrs 3)) (SHT.arr2 R L (arr arrs 4)) (arrf arrs 5) (arrf arrs 6) (scalar arrs 7 1).
Definition vcfg05 (ints : list Z) (arrs : list (list Q)) : @PEcfg Q :=
  mkPE (intn ints 4) (scalar arrs 7 3) (scalar arrs 7 4) (arrf arrs 8) (arrf arrs 9) (arrf arrs 10).
Definition slice5 (K A B : nat) (l : list Q) (n : nat) : nat -> nat -> nat -> Q :=
  SHT.arr3 K A B (firstn (K * (A * B)) (skipn (n * (K * (A * B))) l)).
Definition state05 (ints : list Z) (arrs : list (list Q)) : @State Q :=
  let M := intn ints 0 in let L := intn ints 1 in let K := intn ints 4 in let ntr := intn ints 5 in
  let R := modal_rows_real M in
  mkState (SHT.arr3 K R L (arr arrs 12)) (SHT.arr3 K R L (arr arrs 13)) (SHT.arr3 K R L (arr arrs 14))
          (SHT.arr2 R L (arr arrs 15)) (map (slice5 K R L (arr arrs 16)) (seq 0 ntr)).
Definition state_out05 (K R L : nat) (s : @State Q) : list Q :=
  SHT.tab3 K R L (s_vort s) ++ SHT.tab3 K R L (s_div s) ++ SHT.tab3 K R L (s_temp s) ++ SHT.tab2 R L (s_lnps s)
  ++ concat (map (SHT.tab3 K R L) (s_tr s)).

Definition run_C05_full (cmd : Z) (ints : list Z) (arrs : list (list Q)) : option (list Q) :=
  let M := intn ints 0 in let L := intn ints 1 in let K := intn ints 4 in let R := modal_rows_real M in
  let g := hgrid05 ints arrs in
  let c := vcfg05 ints arrs in
  let grav := scalar arrs 7 2 in
  let orog := SHT.arr2 R L (arr arrs 11) in
  match cmd with
  | 30%Z => Some (state_out05 K R L (explicit_terms_full g c grav orog (state05 ints arrs)))
  | 31%Z => Some (state_out05 K R L (implicit_terms_full g c (state05 ints arrs)))
  (* MoistPrimitiveEquations.explicit_terms: arrs[7] = [radius; angular_velocity; g; R; kappa; R_vapor; Cp_vapor]; tracer 0 = specific_humidity *)
  | 32%Z => let m := mkMoist (scalar arrs 7 5) (scalar arrs 7 6) in
            Some (state_out05 K R L (explicit_terms_full_moist g false c m grav orog (state05 ints arrs)))
  | _ => None
  end.

Definition run (prop cmd : Z) (ints : list Z) (arrs : list (list Q)) : option (list Q) :=
  if Z.leb 30 cmd then run_C05_full cmd ints arrs else run_C05 cmd ints arrs.

Extraction "Extract/ml/C05/dispatch.ml" run.
