(** Executable entry point of the C04 model (nodal column algebra of the
    primitive equations, run at exact rationals) and its extraction.
    ExtrOcamlBasic only: Z, positive, Q, nat stay inductive. *)
From Dino Require Import Base.Ops Base.Sums Model.Sigma Model.Implicit Model.PrimEq Extract.Common.
Require Extraction.
Require Import ExtrOcamlBasic.

(** Argument conventions (see tools/props/C04.py):
    ints = [K; include_vertical_advection; sparse]
    arrs = [0 ls; 1 b; 2 Tref; 3 [R; kappa; Rv; Cpv]; 4 u; 5 v; 6 vort; 7 div; 8 temp;
            9 [gx; gy; sec2; f; lap_lsp]; 10 q (or any tracer); 11 qc; 12 qi; 13 gqx; 14 gqy]. *)
Definition cfg04 (ints : list Z) (arrs : list (list Q)) : @PEcfg Q :=
  mkPE (intn ints 0) (scalar arrs 3 0) (scalar arrs 3 1) (arrf arrs 0) (arrf arrs 1) (arrf arrs 2).
Definition moist04 (arrs : list (list Q)) : @Moist Q := mkMoist (scalar arrs 3 2) (scalar arrs 3 3).
Definition ncol04 (arrs : list (list Q)) : @NCol Q :=
  mkNCol (arrf arrs 4) (arrf arrs 5) (arrf arrs 6) (arrf arrs 7) (arrf arrs 8)
         (scalar arrs 9 0) (scalar arrs 9 1) (scalar arrs 9 2) (scalar arrs 9 3).

Definition run_C04 (cmd : Z) (ints : list Z) (arrs : list (list Q)) : option (list Q) :=
  let K := intn ints 0 in
  let va := intb ints 1 in
  let sparse := intb ints 2 in
  let c := cfg04 ints arrs in
  let m := moist04 arrs in
  let x := ncol04 arrs in
  let q := arrf arrs 10 in
  match cmd with
  | 0%Z => Some (qtab K (u_dot_grad x) ++ qtab (K - 1) (sigma_dot_explicit c x) ++ qtab (K - 1) (sigma_dot_full c x))
  | 1%Z => Some (qtab K (temp_vertical_tendency c va x) ++ qtab K (temp_adiabatic c x)
                 ++ [log_pressure_tendency c x] ++ qtab K (temp_nodal_total c va x))
  | 2%Z => Some (qtab K (combined_u c va x (rt_dry c x)) ++ qtab K (combined_v c va x (rt_dry c x))
                 ++ qtab K (kinetic x))
  | 3%Z => Some (qtab K (tracer_nodal_total c va x q) ++ qtab K (hsa_mu x q) ++ qtab K (hsa_mv x q))
  | 4%Z => Some (qtab K (temp_adiabatic_moist c m x q) ++ qtab K (temp_nodal_total_moist c va m x q)
                 ++ qtab K (combined_u c va x (rt_moist c m x q)) ++ qtab K (combined_v c va x (rt_moist c m x q)))
  | 5%Z => let rt := rt_cloud c m x q (arrf arrs 11) (arrf arrs 12) in
           Some (qtab K (combined_u c va x rt) ++ qtab K (combined_v c va x rt))
  | 6%Z => Some (qtab K (humidity_div_nodal c m x q (arrf arrs 13) (arrf arrs 14) (scalar arrs 9 4))
                 ++ qtab K (humidity_geo_nodal c sparse m x q)
                 ++ qtab K (humidity_curl_nodal c m x (arrf arrs 13) (arrf arrs 14)))
  | 7%Z => Some (qtab K (t_omega_over_sigma_sp c (arrf arrs 4) (arrf arrs 5) (arrf arrs 6)))
  | 8%Z => Some (qtab K (temp_implicit_col c (arrf arrs 7)) ++ [lnps_implicit_col c (arrf arrs 7)]
                 ++ qtab K (div_implicit_potential c sparse (arrf arrs 8) (scalar arrs 9 0)))
  | 9%Z => Some [qofb (tref_nonuniform c)]
  | 10%Z => Some (qtab2 K K (temp_weights c))
  | _ => None
  end.

Definition run (prop cmd : Z) (ints : list Z) (arrs : list (list Q)) : option (list Q) :=
  run_C04 cmd ints arrs.

Extraction "Extract/ml/C04/dispatch.ml" run.
