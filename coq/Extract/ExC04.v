(** Executable entry point of the C04 model (nodal column algebra of the
    primitive equations, run at exact rationals) and its extraction.
    ExtrOcamlBasic only: Z, positive, Q, nat stay inductive. *)
From Dino Require Import Base.Ops Base.Sums Model.Sigma Model.Implicit Model.PrimEq Model.SHT Model.Deriv Model.PrimEqFull Extract.Common.
Require Extraction.
Require Import ExtrOcamlBasic.

(** Argument conventions (see tools/props/C04.py):
    ints = [K; include_vertical_advection; sparse]
    arrs = [0 ls; 1 b; 2 Tref; 3 [R; kappa; Rv; Cpv]; 4 u; 5 v; 6 vort; 7 div; 8 temp;
            9 [gx; gy; sec2; f; lap_lsp]; 10 q (or any tracer); 11 qc; 12 qi; 13 gqx; 14 gqy]. *)
Definition cfg04 (ints : list Z) (arrs : list (list Q)) : @PEcfg Q :=
  mkPE (intn ints 0) (scalar arrs 3 0) (scalar arrs 3 1) (arrf arrs 0) (arrf arrs 1) (arrf arrs 2).
Definition moist04 (arrs : list (list Q)) : @Moist Q := mkMoist (scalar arrs 3 2) (scalar arrs 3 3).
Definition ncol04 (arrs : list (list Q)) : @NCol Q :=
  mkNCol (arrf arrs 4) (arrf arrs 5) (arrf arrs 6) (arrf arrs 7) (arrf arrs 8)
         (scalar arrs 9 0) (scalar arrs 9 1) (scalar arrs 9 2) (scalar arrs 9 3).

Definition run_C04 (cmd : Z) (ints : list Z) (arrs : list (list Q)) : option (list Q) :=
  let K := intn ints 0 in
  let va := intb ints 1 in
  let sparse := intb ints 2 in
  let c := cfg04 ints arrs in
  let m := moist04 arrs in
  let x := ncol04 arrs in
  let q := arrf arrs 10 in
  match cmd with
  | 0%Z => Some (qtab K (u_dot_grad x) ++ qtab (K - 1) (sigma_dot_explicit c x) ++ qtab (K - 1) (sigma_dot_full c x))
  | 1%Z => Some (qtab K (temp_vertical_tendency c va x) ++ qtab K (temp_adiabatic c x)
                 ++ [log_pressure_tendency c x] ++ qtab K (temp_nodal_total c va x))
  | 2%Z => Some (qtab K (combined_u c va x (rt_dry c x)) ++ qtab K (combined_v c va x (rt_dry c x))
                 ++ qtab K (kinetic x))
  | 3%Z => Some (qtab K (tracer_nodal_total c va x q) ++ qtab K (hsa_mu x q) ++ qtab K (hsa_mv x q))
  | 4%Z => Some (qtab K (temp_adiabatic_moist c m x q) ++ qtab K (temp_nodal_total_moist c va m x q)
                 ++ qtab K (combined_u c va x (rt_moist c m x q)) ++ qtab K (combined_v c va x (rt_moist c m x q)))
  | 5%Z => let rt := rt_cloud c m x q (arrf arrs 11) (arrf arrs 12) in
           Some (qtab K (combined_u c va x rt) ++ qtab K (combined_v c va x rt))
  | 6%Z => Some (qtab K (humidity_div_nodal c m x q (arrf arrs 13) (arrf arrs 14) (scalar arrs 9 4))
                 ++ qtab K (humidity_geo_nodal c sparse m x q)
                 ++ qtab K (humidity_curl_nodal c m x (arrf arrs 13) (arrf arrs 14)))
  | 7%Z => Some (qtab K (t_omega_over_sigma_sp c (arrf arrs 4) (arrf arrs 5) (arrf arrs 6)))
  | 8%Z => Some (qtab K (temp_implicit_col c (arrf arrs 7)) ++ [lnps_implicit_col c (arrf arrs 7)]
                 ++ qtab K (div_implicit_potential c sparse (arrf arrs 8) (scalar arrs 9 0)))
  | 9%Z => Some [qofb (tref_nonuniform c)]
  | 10%Z => Some (qtab2 K K (temp_weights c))
  | _ => None
  end.

(** *** whole-state model (Model/PrimEqFull.v).  Argument conventions (all arrays flat row-major):
    ints = [M; L; I; J; K; ntr]
    arrs = [0 f (I x R); 1 p (R x J x L); 2 w (J); 3 a (R x L); 4 b (R x L); 5 sec2_lat (J); 6 sin_lat (J);
            7 [radius; angular_velocity; g; R; kappa; eta]; 8 log(centers) (K); 9 boundaries (K+1); 10 T_ref (K);
            11 orography (R x L); 12 vorticity (K x R x L); 13 divergence; 14 temperature_variation;
            15 log_surface_pressure (R x L); 16 tracers (ntr x K x R x L);
            17 np.linalg.inv(implicit_matrix) (L x (2K+1) x (2K+1))        -- command 22
            12..19 nodal vorticity, divergence, temperature, u, v (K x I x J), gx, gy (I x J),
                   tracers (ntr x K x I x J)                                -- command 24 (staged) *)
Definition hgrid04 (ints : list Z) (arrs : list (list Q)) : @HGrid Q :=
  let M := intn ints 0 in let L := intn ints 1 in let I := intn ints 2 in let J := intn ints 3 in
  let R := modal_rows_real M in
  mkHG M L I J (scalar arrs 7 0) (SHT.arr2 I R (arr arrs 0)) (SHT.arr3 R J L (arr arrs 1)) (arrf arrs 2)
       (SHT.arr2 R L (arr arrs 3)) (SHT.arr2 R L (arr arrs 4)) (arrf arrs 5) (arrf arrs 6) (scalar arrs 7 1).
Definition vcfg04 (ints : list Z) (arrs : list (list Q)) : @PEcfg Q :=
  mkPE (intn ints 4) (scalar arrs 7 3) (scalar arrs 7 4) (arrf arrs 8) (arrf arrs 9) (arrf arrs 10).
(** slice n of a (ntr x K x A x B) array *)
Definition slice4 (K A B : nat) (l : list Q) (n : nat) : nat -> nat -> nat -> Q :=
  SHT.arr3 K A B (firstn (K * (A * B)) (skipn (n * (K * (A * B))) l)).
Definition state04 (ints : list Z) (arrs : list (list Q)) : @State Q :=
  let M := intn ints 0 in let L := intn ints 1 in let K := intn ints 4 in let ntr := intn ints 5 in
  let R := modal_rows_real M in
  mkState (SHT.arr3 K R L (arr arrs 12)) (SHT.arr3 K R L (arr arrs 13)) (SHT.arr3 K R L (arr arrs 14))
          (SHT.arr2 R L (arr arrs 15)) (map (slice4 K R L (arr arrs 16)) (seq 0 ntr)).
Definition diag04 (ints : list Z) (arrs : list (list Q)) : @Diag Q :=
  let I := intn ints 2 in let J := intn ints 3 in let K := intn ints 4 in let ntr := intn ints 5 in
  mkDiag (SHT.arr3 K I J (arr arrs 12)) (SHT.arr3 K I J (arr arrs 13)) (SHT.arr3 K I J (arr arrs 14))
         (SHT.arr3 K I J (arr arrs 15)) (SHT.arr3 K I J (arr arrs 16))
         (SHT.arr2 I J (arr arrs 17)) (SHT.arr2 I J (arr arrs 18)) (map (slice4 K I J (arr arrs 19)) (seq 0 ntr)).
(** vorticity ++ divergence ++ temperature_variation ++ log_surface_pressure ++ tracers *)
Definition state_out (K R L : nat) (s : @State Q) : list Q :=
  SHT.tab3 K R L (s_vort s) ++ SHT.tab3 K R L (s_div s) ++ SHT.tab3 K R L (s_temp s) ++ SHT.tab2 R L (s_lnps s)
  ++ concat (map (SHT.tab3 K R L) (s_tr s)).
Definition diag_out (K I J : nat) (d : @Diag Q) : list Q :=
  SHT.tab3 K I J (d_vort d) ++ SHT.tab3 K I J (d_div d) ++ SHT.tab3 K I J (d_temp d)
  ++ SHT.tab3 K I J (d_u d) ++ SHT.tab3 K I J (d_v d) ++ SHT.tab2 I J (d_gx d) ++ SHT.tab2 I J (d_gy d)
  ++ concat (map (SHT.tab3 K I J) (d_tr d)).

Definition run_C04_full (cmd : Z) (ints : list Z) (arrs : list (list Q)) : option (list Q) :=
  let M := intn ints 0 in let L := intn ints 1 in let I := intn ints 2 in let J := intn ints 3 in
  let K := intn ints 4 in let R := modal_rows_real M in
  let g := hgrid04 ints arrs in
  let c := vcfg04 ints arrs in
  let grav := scalar arrs 7 2 in
  let eta := scalar arrs 7 5 in
  let orog := SHT.arr2 R L (arr arrs 11) in
  match cmd with
  | 20%Z => Some (state_out K R L (explicit_terms_full g c grav orog (state04 ints arrs)))
  | 21%Z => Some (state_out K R L (implicit_terms_full g c (state04 ints arrs)))
  | 22%Z => let n := (2 * K + 1)%nat in
            let invs := SHT.arr3 L n n (arr arrs 17) in
            Some (state_out K R L (implicit_inverse_full g c eta invs (state04 ints arrs)))
  | 23%Z => Some (diag_out K I J (diagnostic_state g K (state04 ints arrs)))
  | 24%Z => Some (state_out K R L (explicit_terms_of_diag g c grav orog (diag04 ints arrs)))
  | 25%Z => let n := (2 * K + 1)%nat in
            Some (SHT.tab3 L n n (fun l => implicit_matrix c eta (Deriv.lap_eig L (hr g) l)))
  (* moist classes: ints[6] = 1 for the cloud class; arrs[7] = [...; eta; R_vapor; Cp_vapor]; tracer 0 = specific_humidity
     (cloud: 1, 2 = cloud liquid / ice) *)
  | 26%Z => let m := mkMoist (scalar arrs 7 6) (scalar arrs 7 7) in
            Some (state_out K R L (explicit_terms_full_moist g (intb ints 6) c m grav orog (state04 ints arrs)))
  | _ => None
  end.

Definition run (prop cmd : Z) (ints : list Z) (arrs : list (list Q)) : option (list Q) :=
  if Z.leb 20 cmd then run_C04_full cmd ints arrs else run_C04 cmd ints arrs.

Extraction "Extract/ml/C04/dispatch.ml" run.
