(** Single entry point of the extracted model: property number, command number,
    integer arguments, rational arrays -> optional rational list.
    Extraction uses ExtrOcamlBasic only; Z, positive, Q, nat stay inductive. *)
From Dino Require Import Base.Ops Extract.Common Extract.DispC13.
Require Extraction.
Require Import ExtrOcamlBasic.

Definition run (prop cmd : Z) (ints : list Z) (arrs : list (list Q)) : option (list Q) :=
  match prop with
  | 13%Z => run_C13 cmd ints arrs
  | _ => None
  end.


Extraction "Extract/ml/dispatch.ml" run.
