(** Executable entry point of the C03 model (run at exact rationals) and its
    extraction.  ExtrOcamlBasic only: Z, positive, Q, nat stay inductive. *)
From Dino Require Import Base.Ops Base.Sums Model.Sigma Model.Implicit Extract.Common.
Require Extraction.
Require Import ExtrOcamlBasic.

(** Argument conventions (see tools/props/C03.py):
    ints = [K; flag; ...]; arrs = [ls; b; Tref; [R; kappa; eta; lam]; ...]. *)
Definition cfg_of (ints : list Z) (arrs : list (list Q)) : @PEcfg Q :=
  mkPE (intn ints 0) (scalar arrs 3 0) (scalar arrs 3 1) (arrf arrs 0) (arrf arrs 1) (arrf arrs 2).

Definition col_of (K : nat) (v : nat -> Q) : @Col Q := unstack K v.
Definition col_out (K : nat) (x : @Col Q) : list Q := qtab (2 * K + 1) (stack K x).

(** a flattened row-major n x n table as a matrix *)
Definition mat_of (n : nat) (l : list Q) : @Mat Q := fun i j => qnth l (i * n + j).

Definition method_of (z : Z) : Method :=
  match z with 0%Z => Split | 1%Z => Stacked | _ => Blockwise end.

Definition run_C03 (cmd : Z) (ints : list Z) (arrs : list (list Q)) : option (list Q) :=
  let K := intn ints 0 in
  let c := cfg_of ints arrs in
  let eta := scalar arrs 3 2 in
  let lam := scalar arrs 3 3 in
  match cmd with
  | 0%Z => Some (qtab2 K K (temp_weights c))
  | 1%Z => Some (qtab K (temp_implicit (intb ints 1) c (arrf arrs 4)))
  | 2%Z => Some (qtab2 (2 * K + 1) (2 * K + 1) (implicit_matrix c eta lam))
  | 3%Z => Some (col_out K (implicit_terms (intb ints 1) c lam (col_of K (arrf arrs 4))))
  | 4%Z => (* split / stacked: arrs[5] = the implementation's inverse matrix *)
           let inv := fun (_ : nat) (_ : @Mat Q) => mat_of (2 * K + 1) (arr arrs 5) in
           Some (col_out K (implicit_inverse (method_of (int ints 1)) inv c eta lam (col_of K (arrf arrs 4))))
  | 5%Z => (* blockwise: arrs[5] = inv(I-GH) (K x K), arrs[6] = inv(I-HG) (K+1 x K+1) *)
           let inv := fun (n : nat) (_ : @Mat Q) =>
                        if Nat.eqb n K then mat_of K (arr arrs 5) else mat_of (K + 1) (arr arrs 6) in
           Some (col_out K (implicit_inverse Blockwise inv c eta lam (col_of K (arrf arrs 4))))
  | 6%Z => Some (qtab2 K K (schur_div c eta lam) ++ qtab2 (K + 1) (K + 1) (schur_temp_logp c eta lam))
  | 7%Z => (* time-reversed equation: terms (flag = sparse) *)
           Some (col_out K (tr_implicit_terms (intb ints 1) c lam (col_of K (arrf arrs 4))))
  | 8%Z => (* time-reversed inverse (split), eta = the step size given to the wrapper *)
           let inv := fun (_ : nat) (_ : @Mat Q) => mat_of (2 * K + 1) (arr arrs 5) in
           Some (col_out K (tr_implicit_inverse inv c eta lam (col_of K (arrf arrs 4))))
  | 9%Z => (* the matrix the time-reversed inverse inverts *)
           Some (qtab2 (2 * K + 1) (2 * K + 1) (implicit_matrix c (- eta)%F lam))
  | 10%Z => (* shallow water: arrs[0] = [Phi; lam; eta; div; pot] *)
            let t := sw_implicit_terms (scalar arrs 0 0) (scalar arrs 0 1) (scalar arrs 0 3, scalar arrs 0 4) in
            Some [fst t; snd t]
  | 11%Z => let t := sw_implicit_inverse (scalar arrs 0 0) (scalar arrs 0 1) (scalar arrs 0 2)
                                         (scalar arrs 0 3, scalar arrs 0 4) in
            Some [fst t; snd t]
  | 12%Z => let t := sw_tr_implicit_inverse (scalar arrs 0 0) (scalar arrs 0 1) (scalar arrs 0 2)
                                            (scalar arrs 0 3, scalar arrs 0 4) in
            Some [fst t; snd t]
  | _ => None
  end.

Definition run (prop cmd : Z) (ints : list Z) (arrs : list (list Q)) : option (list Q) :=
  run_C03 cmd ints arrs.

Extraction "Extract/ml/C03/dispatch.ml" run.
