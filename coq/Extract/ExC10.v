(** Executable entry point of the C10 model (symmetry actions, run at exact
    rationals) and its extraction.  ExtrOcamlBasic only: Z, positive, Q, nat stay
    inductive. *)
From Dino Require Import Base.Ops Base.Sums Model.SHT Model.Symmetry Extract.Common.
Require Extraction.
Require Import ExtrOcamlBasic.

Definition qofn (n : nat) : Q := inject_Z (Z.of_nat n).

(** argument conventions: see tools/props/C10.py.  All arrays flat row-major. *)
Definition run_C10 (cmd : Z) (ints : list Z) (arrs : list (list Q)) : option (list Q) :=
  match cmd with
  | 0%Z => (* rot_modal: ints fast R C; arrs c s x *)
      let fast := intb ints 0 in let R := intn ints 1 in let C := intn ints 2 in
      Some (tab2 R C (rot_modal fast (arrf arrs 0) (arrf arrs 1) (arr2 R C (arr arrs 2))))
  | 1%Z => (* mir_modal: ints fast R C pseudo; arrs x *)
      let fast := intb ints 0 in let R := intn ints 1 in let C := intn ints 2 in
      Some (tab2 R C (mir_modal fast (intb ints 3) (arr2 R C (arr arrs 0))))
  | 2%Z => (* shift_lon: ints I J k; arrs z *)
      let I := intn ints 0 in let J := intn ints 1 in
      Some (tab2 I J (shift_lon I (intn ints 2) (arr2 I J (arr arrs 0))))
  | 3%Z => (* flip_lat: ints I J; arrs z *)
      let I := intn ints 0 in let J := intn ints 1 in
      Some (tab2 I J (flip_lat J (arr2 I J (arr arrs 0))))
  | 4%Z => (* tables of the rotation by k steps from the one-step tables: ints k n; arrs c s *)
      let k := intn ints 0 in let n := intn ints 1 in
      Some (qtab n (rot_c_pow k (arrf arrs 0) (arrf arrs 1)) ++ qtab n (rot_s_pow k (arrf arrs 0) (arrf arrs 1)))
  | 5%Z => (* coriolis: ints I J; arrs [omega] sinlat *)
      let I := intn ints 0 in let J := intn ints 1 in
      Some (tab2 I J (coriolis (scalar arrs 0 0) (arrf arrs 1)))
  | 6%Z => (* residual of H_rot_table: ints fast I K k; arrs c s f *)
      let fast := intb ints 0 in let I := intn ints 1 in let K := intn ints 2 in
      Some (tab2 I K (rot_table_residual fast I (intn ints 3) (arrf arrs 0) (arrf arrs 1) (arr2 I K (arr arrs 2))))
  | 7%Z => (* residual of H_parity: ints fast K J L; arrs p *)
      let fast := intb ints 0 in let K := intn ints 1 in let J := intn ints 2 in let L := intn ints 3 in
      Some (tab3 K J L (parity_residual fast J (arr3 K J L (arr arrs 0))))
  | 8%Z => (* row bookkeeping: ints fast R *)
      let fast := intb ints 0 in let R := intn ints 1 in
      Some (qtab R (fun i => qofn (sy_wav fast i)) ++ qtab R (fun i => qofb (sy_cos fast i))
            ++ qtab R (fun i => qofn (sy_partner fast i)))
  | 9%Z => (* rotation then mirror of a stack: ints fast N R C pseudo; arrs c s x *)
      let fast := intb ints 0 in let N := intn ints 1 in let R := intn ints 2 in let C := intn ints 3 in
      Some (tab3 N R C (mir_stack fast (intb ints 4) (rot_stack fast (arrf arrs 0) (arrf arrs 1) (arr3 N R C (arr arrs 2)))))
  | _ => None
  end.

Definition run (prop cmd : Z) (ints : list Z) (arrs : list (list Q)) : option (list Q) :=
  run_C10 cmd ints arrs.

Extraction "Extract/ml/C10/dispatch.ml" run.
