(** Executable entry point of the C10 model (symmetry actions, run at exact
    rationals) and its extraction.  ExtrOcamlBasic only: Z, positive, Q, nat stay
    inductive. *)
From Dino Require Import Base.Ops Base.Sums Gen.Legendre Model.Deriv Model.ShallowWater Model.SHT Model.Symmetry Model.Legendre
     Thm.SymmetryLegendre Extract.Common.
Require Extraction.
Require Import ExtrOcamlBasic.

Definition qofn (n : nat) : Q := inject_Z (Z.of_nat n).


(** shallow water (Model/ShallowWater.v): helpers.  A stack of N layers of n x m arrays is stored layer-major. *)
Definition sw_layers (N n m : nat) (l : list Q) : nat -> nat -> nat -> Q := arr3 N n m l.
(** tabulate one materialised array per layer *)
Definition sw_out (N n m : nat) (t : nat -> Wn -> Q) : list Q :=
  concat (map (fun k => let tk := t k in tab2 n m (fun i j => tk (i, j))) (seq 0 N)).
Definition sw_orog (has : bool) (R L : nat) (l : list Q) : option (nat -> nat -> Q) :=
  if has then Some (arr2 R L l) else None.

(** argument conventions: see tools/props/C10.py.  All arrays flat row-major. *)
Definition run_C10 (cmd : Z) (ints : list Z) (arrs : list (list Q)) : option (list Q) :=
  match cmd with
  | 0%Z => (* rot_modal: ints fast R C; arrs c s x *)
      let fast := intb ints 0 in let R := intn ints 1 in let C := intn ints 2 in
      Some (tab2 R C (rot_modal fast (arrf arrs 0) (arrf arrs 1) (arr2 R C (arr arrs 2))))
  | 1%Z => (* mir_modal: ints fast R C pseudo; arrs x *)
      let fast := intb ints 0 in let R := intn ints 1 in let C := intn ints 2 in
      Some (tab2 R C (mir_modal fast (intb ints 3) (arr2 R C (arr arrs 0))))
  | 2%Z => (* shift_lon: ints I J k; arrs z *)
      let I := intn ints 0 in let J := intn ints 1 in
      Some (tab2 I J (shift_lon I (intn ints 2) (arr2 I J (arr arrs 0))))
  | 3%Z => (* flip_lat: ints I J; arrs z *)
      let I := intn ints 0 in let J := intn ints 1 in
      Some (tab2 I J (flip_lat J (arr2 I J (arr arrs 0))))
  | 4%Z => (* tables of the rotation by k steps from the one-step tables: ints k n; arrs c s *)
      let k := intn ints 0 in let n := intn ints 1 in
      Some (qtab n (rot_c_pow k (arrf arrs 0) (arrf arrs 1)) ++ qtab n (rot_s_pow k (arrf arrs 0) (arrf arrs 1)))
  | 5%Z => (* coriolis: ints I J; arrs [omega] sinlat *)
      let I := intn ints 0 in let J := intn ints 1 in
      Some (tab2 I J (coriolis (scalar arrs 0 0) (arrf arrs 1)))
  | 6%Z => (* residual of H_rot_table: ints fast I K k; arrs c s f *)
      let fast := intb ints 0 in let I := intn ints 1 in let K := intn ints 2 in
      Some (tab2 I K (rot_table_residual fast I (intn ints 3) (arrf arrs 0) (arrf arrs 1) (arr2 I K (arr arrs 2))))
  | 7%Z => (* residual of H_parity: ints fast K J L; arrs p *)
      let fast := intb ints 0 in let K := intn ints 1 in let J := intn ints 2 in let L := intn ints 3 in
      Some (tab3 K J L (parity_residual fast J (arr3 K J L (arr arrs 0))))
  | 8%Z => (* row bookkeeping: ints fast R *)
      let fast := intb ints 0 in let R := intn ints 1 in
      Some (qtab R (fun i => qofn (sy_wav fast i)) ++ qtab R (fun i => qofb (sy_cos fast i))
            ++ qtab R (fun i => qofn (sy_partner fast i)))
  | 9%Z => (* rotation then mirror of a stack: ints fast N R C pseudo; arrs c s x *)
      let fast := intb ints 0 in let N := intn ints 1 in let R := intn ints 2 in let C := intn ints 3 in
      Some (tab3 N R C (mir_stack fast (intb ints 4) (rot_stack fast (arrf arrs 0) (arrf arrs 1) (arr3 N R C (arr arrs 2)))))
  | 20%Z => (* shallow water, nodal algebra of every node: ints N P; arrs u v vort pot [N,P] sec2 f [P] -> (b_u,b_v,g_u,g_v,e) [5,N,P] *)
      let N := intn ints 0 in let P := intn ints 1 in
      let u := arr2 N P (arr arrs 0) in let v := arr2 N P (arr arrs 1) in
      let z := arr2 N P (arr arrs 2) in let ph := arr2 N P (arr arrs 3) in
      let col := fun q => mkSWCol (fun k => u k q) (fun k => v k q) (fun k => z k q) (fun k => ph k q) (arrf arrs 4 q) (arrf arrs 5 q) in
      Some (concat (map (fun fn : SWCol -> nat -> Q => tab2 N P (fun k q => fn (col q) k)) [sw_b_u; sw_b_v; sw_g_u; sw_g_v; sw_e]))
  | 21%Z => (* get_density_ratios: ints N; arrs dens -> [N,N] *)
      let N := intn ints 0 in Some (tab2 N N (density_ratio (arrf arrs 0)))
  | 22%Z => (* sec2_lat and coriolis_parameter from sin(lat): ints J; arrs [omega] sinlat -> sec2 [J] ++ coriolis [J] *)
      let J := intn ints 0 in
      Some (qtab J (sw_sec2 (arrf arrs 1)) ++ qtab J (sw_coriolis (scalar arrs 0 0) (arrf arrs 1)))
  | 23%Z => (* pressure term p (+ orography): ints N R L has_orog; arrs dens pot [N,R,L] orog [R,L] -> [N,R,L] *)
      let N := intn ints 0 in let R := intn ints 1 in let L := intn ints 2 in
      let pot := sw_layers N R L (arr arrs 1) in
      let orog := option_map (fun h : nat -> nat -> Q => sw_pk h) (sw_orog (intb ints 3) R L (arr arrs 2)) in
      Some (sw_out N R L (sw_pressure Wn N (arrf arrs 0) (fun k => sw_pk (pot k)) orog))
  | 24%Z | 25%Z => (* whole explicit_terms (24) / nodal arrays handed to to_modal (25):
                      ints fast R L I J N has_orog; arrs f [I,R] p [R,J,L] w [J] [rad; omega] a b [R,L] dens [N] sinlat [J]
                      orog [R,L] vort dive pot [N,R,L] sec2 [J]
                      (24 takes the sec2_lat table as given - dyadic rationals keep the exact arithmetic cheap; sw_sec2 is
                      compared by command 22 and used by command 25) *)
      let fast := intb ints 0 in let R := intn ints 1 in let L := intn ints 2 in
      let I := intn ints 3 in let J := intn ints 4 in let N := intn ints 5 in
      let f := arr2 I R (arr arrs 0) in let p := arr3 R J L (arr arrs 1) in let w := arrf arrs 2 in
      let rad := scalar arrs 3 0 in let omega := scalar arrs 3 1 in
      let wa := arr2 R L (arr arrs 4) in let wb := arr2 R L (arr arrs 5) in
      let dens := arrf arrs 6 in let sinlat := arrf arrs 7 in
      let orog := sw_orog (intb ints 6) R L (arr arrs 8) in
      let vort := sw_layers N R L (arr arrs 9) in let dive := sw_layers N R L (arr arrs 10) in
      let pot := sw_layers N R L (arr arrs 11) in
      if Z.eqb cmd 24 then
        let T := sw_explicit_terms_tab fast R L I J N f p w rad wa wb dens (arrf arrs 12) (sw_coriolis omega sinlat) orog vort dive pot in
        Some (sw_out N R L (fst (fst T)) ++ sw_out N R L (snd (fst T)) ++ sw_out N R L (snd T))
      else
        Some (concat (map (fun r => concat (map (fun z : Wn -> Q => tab2 I J (fun i j => z (i, j)))
                                                 (sw_bge_nodal fast R L I J N f p rad wa wb omega sinlat vort dive pot r)))
                          (seq 0 N)))
  | 40%Z => (* associated_legendre.evaluate: guards and the radicands np.sqrt is applied to (as C01 command 30): ints M L *)
      let M := intn ints 0 in let L := intn ints 1 in
      Some ([qofb (legendre_accepts M L); qofb (legendre_defined M L)] ++ legendre_radicands M L)
  | 41%Z | 42%Z => (* the Legendre table of the basis from the recurrence model (Thm/SymmetryLegendre.v leg_basis_p over
                      Model/Legendre.v): ints fast R M L J C; arrs x, y = sqrt(1-x^2), radicands, their np.sqrt.
                      (C >= L columns are tabulated: the zero padding of the fast layout)
                      41: the table [R,J,C];  42: its parity residual (Model/Symmetry.v parity_residual) [R,J,C] *)
      let fast := intb ints 0 in let R := intn ints 1 in let M := intn ints 2 in let L := intn ints 3 in let J := intn ints 4 in
      let C := intn ints 5 in
      if legendre_defined M L then
        let pl := tab3 R J C (leg_basis_p fast (sq_table (arr arrs 2) (arr arrs 3)) J (arrf arrs 0) (arrf arrs 1) M L) in
        if Z.eqb cmd 41 then Some pl else Some (tab3 R J C (parity_residual fast J (arr3 R J C pl)))
      else None
  | 43%Z => (* the radicand of y = np.sqrt(1 - x*x) and the residuals of the node symmetries: arrs x y -> y2 [J] ++ x[J-1-j]+x[j] [J] ++ y[J-1-j]-y[j] [J] *)
      let J := length (arr arrs 0) in let x := arrf arrs 0 in let y := arrf arrs 1 in
      Some (map (fun t => leg_y2 t) (arr arrs 0) ++ qtab J (fun j => x (J - 1 - j)%nat + x j) ++ qtab J (fun j => y (J - 1 - j)%nat - y j))
  | _ => None
  end.

Definition run (prop cmd : Z) (ints : list Z) (arrs : list (list Q)) : option (list Q) :=
  run_C10 cmd ints arrs.

Extraction "Extract/ml/C10/dispatch.ml" run.
