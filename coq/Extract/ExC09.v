(** Executable entry point of the C09 model (spherical-harmonic transforms of
    both layouts, run at exact rationals) and its extraction.
    ExtrOcamlBasic only: Z, positive, Q, nat stay inductive.
    The dispatcher is shared verbatim between ExC01.v and ExC09.v. *)
From Dino Require Import Model.Sigma Model.Implicit Model.PrimEq Model.Deriv Model.PrimEqFull Model.PrimEqFullFast.
From Dino Require Import Base.Ops Base.Sums Model.SHT Model.SHTFast Model.FourierR Gen.GridTable Extract.Common.
Require Extraction.
Require Import ExtrOcamlBasic.

Definition qofn (n : nat) : Q := inject_Z (Z.of_nat n).

(** argument conventions: see tools/props/C09.py.  All arrays flat row-major. *)
Definition run_C09 (cmd : Z) (ints : list Z) (arrs : list (list Q)) : option (list Q) :=
  match cmd with
  | 0%Z => (* modal layout of RealSphericalHarmonics: rows, m axis, l axis, mask *)
      let M := intn ints 0 in let L := intn ints 1 in
      let K := modal_rows_real M in
      Some ([qofn K]
            ++ qtab K (fun a => inject_Z (m_real a)) ++ qtab L (fun l => inject_Z (l_real l))
            ++ qtab2 K L (fun a l => qofb (mask_real a l)))
  | 1%Z => (* to_nodal, reference layout *)
      let B := intn ints 0 in let K := intn ints 1 in let L := intn ints 2 in
      let I := intn ints 3 in let J := intn ints 4 in
      let f := arr2 I K (arr arrs 0) in let p := arr3 K J L (arr arrs 1) in
      let x := arr3 B K L (arr arrs 2) in
      Some (tab3 B I J (synth_batch K L J f p x))
  | 2%Z => (* to_modal, reference layout *)
      let B := intn ints 0 in let K := intn ints 1 in let L := intn ints 2 in
      let I := intn ints 3 in let J := intn ints 4 in
      let f := arr2 I K (arr arrs 0) in let p := arr3 K J L (arr arrs 1) in
      let w := arr1 (arr arrs 2) in let z := arr3 B I J (arr arrs 3) in
      Some (tab3 B K L (analysis_batch K I J f p w z))
  | 3%Z => (* integrate (either layout: I, J are the array sizes) *)
      let B := intn ints 0 in let I := intn ints 1 in let J := intn ints 2 in
      let w := arr1 (arr arrs 0) in let r := scalar arrs 1 0 in
      let z := arr3 B I J (arr arrs 2) in
      Some (qtab B (fun n => integrate I J w r (z n)))
  | 4%Z => Some [qofb (resolves (intn ints 0) (intn ints 1) (intn ints 2) (intn ints 3) (intn ints 4));
                 qofn (exact_degree (intn ints 0) (intn ints 2))]
  | 5%Z => (* laplacian_eigenvalues over the (padded) l axis: ints L, cols *)
      let L := intn ints 0 in let cols := intn ints 1 in let r := scalar arrs 0 0 in
      Some (qtab cols (fun l => lap_eig r (l_fast L l)))
  | 6%Z => (* mask (.) x, reference layout *)
      let K := intn ints 0 in let L := intn ints 1 in
      Some (tab2 K L (apply_mask mask_real (arr2 K L (arr arrs 0))))
  | 10%Z => (* FastSphericalHarmonics: shapes, default stacking, modal axes, mask *)
      let base := intn ints 0 in let xs := intn ints 1 in let ys := intn ints 2 in
      let M := intn ints 3 in let L := intn ints 4 in let I := intn ints 5 in let J := intn ints 6 in
      let rows := modal_rows_fast base xs M in let cols := modal_cols_fast base ys L in
      Some ([qofn rows; qofn cols; qofn (nodal_rows_fast base xs I); qofn (nodal_cols_fast base ys J);
             qofb (default_stacked M)]
            ++ qtab rows (fun k => inject_Z (m_fast M k)) ++ qtab cols (fun l => inject_Z (l_fast L l))
            ++ qtab2 rows cols (fun k l => qofb (mask_fast M L k l)))
  | 11%Z => (* to_nodal, fast layout *)
      let B := intn ints 0 in let stacked := intb ints 1 in let rev := intb ints 2 in
      let Mh := intn ints 3 in let Lf := intn ints 4 in let If := intn ints 5 in let Jf := intn ints 6 in
      let f := arr2 If (2 * Mh) (arr arrs 0) in let f3 := arr3 If 2 Mh (arr arrs 0) in
      let p := arr3 Mh Jf Lf (arr arrs 1) in let x := arr3 B (2 * Mh) Lf (arr arrs 2) in
      Some (tab3 B If Jf (synth_fast_batch stacked rev Mh Lf Jf f f3 p x))
  | 12%Z => (* to_modal, fast layout *)
      let B := intn ints 0 in let stacked := intb ints 1 in let rev := intb ints 2 in
      let Mh := intn ints 3 in let Lf := intn ints 4 in let If := intn ints 5 in let Jf := intn ints 6 in
      let f := arr2 If (2 * Mh) (arr arrs 0) in let f3 := arr3 If 2 Mh (arr arrs 0) in
      let p := arr3 Mh Jf Lf (arr arrs 1) in let w := arr1 (arr arrs 2) in
      let z := arr3 B If Jf (arr arrs 3) in
      Some (tab3 B (2 * Mh) Lf (analysis_fast_batch stacked rev Mh If Jf f f3 p w z))
  | 13%Z => (* E *)
      let M := intn ints 0 in let L := intn ints 1 in let rows := intn ints 2 in let cols := intn ints 3 in
      Some (tab2 rows cols (embed M L (arr2 (2 * M - 1) L (arr arrs 0))))
  | 14%Z => (* Pi *)
      let M := intn ints 0 in let L := intn ints 1 in let rows := intn ints 2 in let cols := intn ints 3 in
      Some (tab2 (2 * M - 1) L (proj (arr2 rows cols (arr arrs 0))))
  | 15%Z => (* nodal zero padding *)
      let I := intn ints 0 in let J := intn ints 1 in let If := intn ints 2 in let Jf := intn ints 3 in
      Some (tab2 If Jf (pad2 I J (arr2 I J (arr arrs 0))))
  | 16%Z => (* the Fortran-order reshape of f in basis (stacked transforms) *)
      let If := intn ints 0 in let Mh := intn ints 1 in
      let f3 := stack_f (arr2 If (2 * Mh) (arr arrs 0)) in
      Some (concat (map (fun i => tab2 2 Mh (f3 i)) (seq 0 If)))
  | 17%Z => (* Grid.construct (generated from the source) *)
      let mw := intn ints 0 in let g := intn ints 1 in
      Some [qofn (construct_M mw g); qofn (construct_L mw g); qofn (construct_I mw g); qofn (construct_J mw g)]
  | 18%Z => (* Grid.with_wavenumbers (generated from the source) *)
      let order := intn ints 0 in let M := intn ints 1 in
      let I := wv_I order M in
      Some [qofn M; qofn (wv_L M); qofn I; qofn (wv_J I)]
  | 19%Z => (* mask (.) x, fast layout *)
      let M := intn ints 0 in let L := intn ints 1 in let rows := intn ints 2 in let cols := intn ints 3 in
      Some (tab2 rows cols (apply_mask (mask_fast M L) (arr2 rows cols (arr arrs 0))))
  | 20%Z => (* the factory table *)
      Some (concat (map (fun g => let '(tl, mw, gn) := g in [qofb tl; qofn mw; qofn gn]) grid_table))
  | 21%Z => Some [CONSTANT_NORMALIZATION_FACTOR_Q]
  | 22%Z => (* fourier.real_basis closed form on given cos/sin tables: ints M I; arrs [sqrt(2pi), sqrt(pi)], c (M x I), s (M x I) *)
      let M := intn ints 0 in let I := intn ints 1 in
      let c := arr2 M I (arr arrs 1) in let s := arr2 M I (arr arrs 2) in
      Some (tab2 I (2 * M - 1) (real_basis_g (scalar arrs 0 0) (scalar arrs 0 1) c s))
  | 23%Z => (* fourier.real_basis_with_zero_imag closed form *)
      let M := intn ints 0 in let I := intn ints 1 in
      let c := arr2 M I (arr arrs 1) in let s := arr2 M I (arr arrs 2) in
      Some (tab2 I (2 * M) (real_basis_zi_g (scalar arrs 0 0) (scalar arrs 0 1) c s))
  | _ => None
  end.

(** *** commands >= 40: whole-state primitive-equation model on the FAST layout (Model/PrimEqFullFast.v).
    All arrays flat row-major, R = 2*Mh:
    ints = [M; L; I; J; K; ntr; Mh; Lf; If; Jf; stacked; rev]
    arrs = [0 f (If x R, unstacked view); 1 p (Mh x Jf x Lf); 2 w (Jf); 3 a (R x Lf); 4 b (R x Lf); 5 sec2_lat (Jf);
            6 sin_lat (Jf); 7 [radius; angular_velocity; g; R; kappa; eta]; 8 log(centers) (K); 9 boundaries (K+1);
            10 T_ref (K); 11 orography (R x Lf); 12 vorticity (K x R x Lf); 13 divergence; 14 temperature_variation;
            15 log_surface_pressure (R x Lf); 16 tracers (ntr x K x R x Lf);
            17 np.linalg.inv(implicit_matrix) (Lf x (2K+1) x (2K+1))   -- command 42 *)
Definition fgrid09 (ints : list Z) (arrs : list (list Q)) : @FGrid Q :=
  let Mh := intn ints 6 in let Lf := intn ints 7 in let If := intn ints 8 in let Jf := intn ints 9 in
  let R := (2 * Mh)%nat in
  mkFG (intn ints 0) (intn ints 1) (intn ints 2) (intn ints 3) Mh Lf If Jf (intb ints 10) (intb ints 11)
       (scalar arrs 7 0) (SHT.arr2 If R (arr arrs 0)) (SHT.arr3 Mh Jf Lf (arr arrs 1)) (arrf arrs 2)
       (SHT.arr2 R Lf (arr arrs 3)) (SHT.arr2 R Lf (arr arrs 4)) (arrf arrs 5) (arrf arrs 6) (scalar arrs 7 1).
Definition vcfg09 (ints : list Z) (arrs : list (list Q)) : @PEcfg Q :=
  mkPE (intn ints 4) (scalar arrs 7 3) (scalar arrs 7 4) (arrf arrs 8) (arrf arrs 9) (arrf arrs 10).
Definition slice09 (K A B : nat) (l : list Q) (n : nat) : nat -> nat -> nat -> Q :=
  SHT.arr3 K A B (firstn (K * (A * B)) (skipn (n * (K * (A * B))) l)).
Definition state09 (ints : list Z) (arrs : list (list Q)) : @State Q :=
  let K := intn ints 4 in let ntr := intn ints 5 in
  let R := (2 * intn ints 6)%nat in let Lf := intn ints 7 in
  mkState (SHT.arr3 K R Lf (arr arrs 12)) (SHT.arr3 K R Lf (arr arrs 13)) (SHT.arr3 K R Lf (arr arrs 14))
          (SHT.arr2 R Lf (arr arrs 15)) (map (slice09 K R Lf (arr arrs 16)) (seq 0 ntr)).
Definition state_out09 (K R L : nat) (s : @State Q) : list Q :=
  SHT.tab3 K R L (s_vort s) ++ SHT.tab3 K R L (s_div s) ++ SHT.tab3 K R L (s_temp s) ++ SHT.tab2 R L (s_lnps s)
  ++ concat (map (SHT.tab3 K R L) (s_tr s)).

Definition run_C09_full (cmd : Z) (ints : list Z) (arrs : list (list Q)) : option (list Q) :=
  let K := intn ints 4 in let R := (2 * intn ints 6)%nat in let Lf := intn ints 7 in
  let q := fgrid09 ints arrs in
  let c := vcfg09 ints arrs in
  let grav := scalar arrs 7 2 in
  let eta := scalar arrs 7 5 in
  let orog := SHT.arr2 R Lf (arr arrs 11) in
  match cmd with
  | 40%Z => Some (state_out09 K R Lf (explicit_terms_full_fast q c grav orog (state09 ints arrs)))
  | 41%Z => Some (state_out09 K R Lf (implicit_terms_full_fast q c (state09 ints arrs)))
  | 42%Z => let n := (2 * K + 1)%nat in
            let invs := SHT.arr3 Lf n n (arr arrs 17) in
            Some (state_out09 K R Lf (implicit_inverse_full_fast q c eta invs (state09 ints arrs)))
  | _ => None
  end.

Definition run (prop cmd : Z) (ints : list Z) (arrs : list (list Q)) : option (list Q) :=
  if Z.leb 40 cmd then run_C09_full cmd ints arrs else run_C09 cmd ints arrs.

Extraction "Extract/ml/C09/dispatch.ml" run.
