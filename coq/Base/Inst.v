(** Concrete fields satisfying [FieldC]: the canonical rationals [Qc]
    (axiom-free, computable: used for non-vacuity examples) and Coq's real
    numbers [R] (statements "over the reals"). *)
From Dino Require Import Base.Ops.
From Coq Require Import Qcanon Reals RealField.

#[export] Instance QcOps : Ops Qc := {|
  f0 := Q2Qc 0; f1 := Q2Qc 1;
  fadd := Qcplus; fmul := Qcmult; fsub := Qcminus; fopp := Qcopp;
  fdiv := Qcdiv; finv := Qcinv;
  fofZ z := Q2Qc (inject_Z z);
  fleb x y := Qle_bool x y; feqb x y := Qeq_bool x y |}.

#[export] Instance QcField : FieldC QcOps.
Proof. exact Qcft. Qed.

Definition Rleb (x y : R) : bool := if Rle_dec x y then true else false.
Definition Reqb (x y : R) : bool := if Req_EM_T x y then true else false.

#[export] Instance ROps : Ops R := {|
  f0 := 0%R; f1 := 1%R;
  fadd := Rplus; fmul := Rmult; fsub := Rminus; fopp := Ropp;
  fdiv := Rdiv; finv := Rinv;
  fofZ := IZR;
  fleb := Rleb; feqb := Reqb |}.

#[export] Instance RFieldC : FieldC ROps.
Proof. exact Rfield. Qed.

Lemma Rleb_true x y : Rleb x y = true <-> (x <= y)%R.
Proof. unfold Rleb. destruct (Rle_dec x y); split; intros; auto; discriminate. Qed.
Lemma Rleb_false x y : Rleb x y = false <-> (y < x)%R.
Proof. unfold Rleb. destruct (Rle_dec x y); split; intros; try discriminate; auto.
  - exfalso. apply (Rlt_irrefl x). eapply Rle_lt_trans; eauto.
  - now apply Rnot_le_lt. Qed.
