(** Carrier-generic arithmetic: one record of operations, theorems assume only
    [field_theory] over Leibniz equality; execution instantiates at [Q]. *)
From Coq Require Export ZArith QArith List Field Ring Lia Bool.
Export ListNotations.

Class Ops (F : Type) := mkOps {
  f0 : F; f1 : F;
  fadd : F -> F -> F; fmul : F -> F -> F; fsub : F -> F -> F; fopp : F -> F;
  fdiv : F -> F -> F; finv : F -> F;
  fofZ : Z -> F;
  fleb : F -> F -> bool;   (* order test; only used by order-dependent models *)
  feqb : F -> F -> bool }.

Declare Scope F_scope.
Delimit Scope F_scope with F.
Infix "+" := fadd : F_scope.
Infix "*" := fmul : F_scope.
Infix "-" := fsub : F_scope.
Infix "/" := fdiv : F_scope.
Notation "- x" := (fopp x) : F_scope.
Notation "0" := f0 : F_scope.
Notation "1" := f1 : F_scope.

(** The field hypothesis used by every theorem section. *)
Notation FieldTh o :=
  (field_theory (@f0 _ o) (@f1 _ o) (@fadd _ o) (@fmul _ o) (@fsub _ o) (@fopp _ o)
                (@fdiv _ o) (@finv _ o) (@eq _)).

(** Theorem sections assume [{Fc : FieldC o}] and start with
    [Add Field FF : (field_c : FieldTh o).]; lemma users never pass it explicitly. *)
Class FieldC {F} (o : Ops F) : Prop := field_c : FieldTh o.

(** [fofZ] is the canonical ring morphism (needed to relate integer literals
    of the code such as [2], [l*(l+1)] to field elements). *)
Record ZMorph {F} (o : Ops F) : Prop := {
  zm0 : fofZ 0%Z = f0;
  zm1 : fofZ 1%Z = f1;
  zm_add : forall a b, fofZ (a + b)%Z = fadd (fofZ a) (fofZ b);
  zm_mul : forall a b, fofZ (a * b)%Z = fmul (fofZ a) (fofZ b);
  zm_opp : forall a, fofZ (- a)%Z = fopp (fofZ a) }.

(** Execution carrier: exact rationals, normalised after every operation. *)
#[export] Instance QOps : Ops Q := {|
  f0 := 0%Q; f1 := 1%Q;
  fadd x y := Qred (Qplus x y);
  fmul x y := Qred (Qmult x y);
  fsub x y := Qred (Qminus x y);
  fopp x := Qopp x;
  fdiv x y := Qred (Qdiv x y);
  finv x := Qred (Qinv x);
  fofZ z := inject_Z z;
  fleb x y := Qle_bool x y;
  feqb x y := Qeq_bool x y |}.

(** Execution carrier for ring-only models: integers. *)
#[export] Instance ZOps : Ops Z := {|
  f0 := 0%Z; f1 := 1%Z;
  fadd := Z.add; fmul := Z.mul; fsub := Z.sub; fopp := Z.opp;
  fdiv := Z.div; finv := fun _ => 0%Z;
  fofZ z := z;
  fleb := Z.leb; feqb := Z.eqb |}.
