(** Finite sums over index functions, carrier-generic. *)
From Dino Require Import Base.Ops.
Local Open Scope F_scope.

Section Defs.
  Context {F : Type} {o : Ops F}.

  (** [sumn n f] = f 0 + ... + f (n-1) (left fold, like a sequential loop). *)
  Fixpoint sumn (n : nat) (f : nat -> F) : F :=
    match n with O => 0 | S k => sumn k f + f k end.

  (** [sumr a n f] = f a + ... + f (a+n-1). *)
  Definition sumr (a n : nat) (f : nat -> F) : F := sumn n (fun i => f (a + i)%nat).

  (** Materialise an index function as a list (staging for execution). *)
  Definition tab (n : nat) (f : nat -> F) : list F := map f (seq 0 n).
  Definition memo (n : nat) (f : nat -> F) : nat -> F :=
    let l := tab n f in fun i => nth i l 0.
  Definition ofl (l : list F) : nat -> F := fun i => nth i l 0.

  Definition delta (i j : nat) : F := if Nat.eqb i j then 1 else 0.
End Defs.

Section Lemmas.
  Context {F : Type} {o : Ops F} {Fc : FieldC o}.
  Add Field FF : (field_c : FieldTh o).

  Lemma tab_length n (f : nat -> F) : length (tab n f) = n.
  Proof. unfold tab. now rewrite map_length, seq_length. Qed.

  Lemma tab_nth n (f : nat -> F) i d : (i < n)%nat -> nth i (tab n f) d = f i.
  Proof.
    intros Hi. unfold tab.
    rewrite (nth_indep _ d (f 0%nat)) by (now rewrite map_length, seq_length).
    rewrite map_nth, seq_nth; auto.
  Qed.

  Lemma memo_ok n (f : nat -> F) i : (i < n)%nat -> memo n f i = f i.
  Proof. intros; unfold memo; now apply tab_nth. Qed.

  Lemma memo_out n (f : nat -> F) i : (n <= i)%nat -> memo n f i = 0.
  Proof. intros; unfold memo. apply nth_overflow. now rewrite tab_length. Qed.

  Lemma sumn_ext n (f g : nat -> F) :
    (forall i, (i < n)%nat -> f i = g i) -> sumn n f = sumn n g.
  Proof.
    induction n as [|n IH]; intros H; cbn; [reflexivity|].
    rewrite IH, H; auto.
  Qed.

  Lemma sumn_zero n (f : nat -> F) : (forall i, (i < n)%nat -> f i = 0) -> sumn n f = 0.
  Proof.
    induction n as [|n IH]; intros H; cbn; [reflexivity|].
    rewrite IH, H; auto. ring.
  Qed.

  Lemma sumn_add n (f g : nat -> F) : sumn n (fun i => f i + g i) = sumn n f + sumn n g.
  Proof. induction n as [|n IH]; cbn; [ring|]. rewrite IH. ring. Qed.

  Lemma sumn_sub n (f g : nat -> F) : sumn n (fun i => f i - g i) = sumn n f - sumn n g.
  Proof. induction n as [|n IH]; cbn; [ring|]. rewrite IH. ring. Qed.

  Lemma sumn_opp n (f : nat -> F) : sumn n (fun i => - f i) = - sumn n f.
  Proof. induction n as [|n IH]; cbn; [ring|]. rewrite IH. ring. Qed.

  Lemma sumn_scal_l n c (f : nat -> F) : sumn n (fun i => c * f i) = c * sumn n f.
  Proof. induction n as [|n IH]; cbn; [ring|]. rewrite IH. ring. Qed.

  Lemma sumn_scal_r n c (f : nat -> F) : sumn n (fun i => f i * c) = sumn n f * c.
  Proof. induction n as [|n IH]; cbn; [ring|]. rewrite IH. ring. Qed.

  Lemma sumn_const0 n : sumn n (fun _ => 0) = 0.
  Proof. apply sumn_zero; auto. Qed.

  Lemma sumn_split n m (f : nat -> F) :
    sumn (n + m) f = sumn n f + sumn m (fun i => f (n + i)%nat).
  Proof.
    induction m as [|m IH].
    - rewrite Nat.add_0_r. cbn. ring.
    - rewrite Nat.add_succ_r. cbn. rewrite IH. ring.
  Qed.

  Lemma sumn_S_first n (f : nat -> F) :
    sumn (S n) f = f 0%nat + sumn n (fun i => f (S i)).
  Proof.
    change (S n) with (1 + n)%nat. rewrite sumn_split. cbn. ring.
  Qed.

  (** Reversal of the summation order. *)
  Lemma sumn_rev n (f : nat -> F) : sumn n f = sumn n (fun i => f (n - 1 - i)%nat).
  Proof.
    revert f; induction n as [|n IH]; intros f; [reflexivity|].
    rewrite (sumn_S_first n (fun i => f (S n - 1 - i)%nat)).
    change (sumn (S n) f) with (sumn n f + f n).
    rewrite (IH f).
    replace (S n - 1 - 0)%nat with n by lia.
    rewrite (sumn_ext n (fun i => f (S n - 1 - S i)%nat) (fun i => f (n - 1 - i)%nat)).
    - ring.
    - intros i Hi. f_equal. lia.
  Qed.

  Lemma sumn_exchange n m (f : nat -> nat -> F) :
    sumn n (fun i => sumn m (fun j => f i j)) = sumn m (fun j => sumn n (fun i => f i j)).
  Proof.
    induction n as [|n IH]; cbn.
    - now rewrite sumn_const0.
    - rewrite IH. now rewrite <- sumn_add.
  Qed.

  Lemma sumn_delta_l n k (f : nat -> F) :
    (k < n)%nat -> sumn n (fun i => delta k i * f i) = f k.
  Proof.
    induction n as [|n IH]; intros Hk; [lia|]. cbn.
    destruct (Nat.eq_dec k n) as [->|Hne].
    - rewrite sumn_zero.
      + unfold delta. rewrite Nat.eqb_refl. ring.
      + intros i Hi. unfold delta. destruct (Nat.eqb_spec n i); [lia|ring].
    - rewrite IH by lia. unfold delta. destruct (Nat.eqb_spec k n); [lia|ring].
  Qed.

  Lemma sumn_delta_out n k (f : nat -> F) :
    (n <= k)%nat -> sumn n (fun i => delta k i * f i) = 0.
  Proof.
    intros Hk. apply sumn_zero. intros i Hi. unfold delta.
    destruct (Nat.eqb_spec k i); [lia|ring].
  Qed.

  (** Sum restricted by a boolean mask equals a shorter sum (prefix mask). *)
  Lemma sumn_prefix_mask n k (f : nat -> F) :
    (k <= n)%nat ->
    sumn n (fun i => if Nat.ltb i k then f i else 0) = sumn k f.
  Proof.
    intros Hk. replace n with (k + (n - k))%nat by lia.
    rewrite sumn_split.
    rewrite (sumn_ext k (fun i => if Nat.ltb i k then f i else 0) f).
    2:{ intros i Hi. destruct (Nat.ltb_spec i k); [reflexivity|lia]. }
    rewrite (sumn_zero (n - k)).
    2:{ intros i _. destruct (Nat.ltb_spec (k + i) k); [lia|reflexivity]. }
    ring.
  Qed.

  Lemma sumn_telescope n (g : nat -> F) :
    sumn n (fun i => g (S i) - g i) = g n - g 0%nat.
  Proof. induction n as [|n IH]; cbn; [ring|]. rewrite IH. ring. Qed.

  Lemma sumn_tab n (f : nat -> F) : sumn n (ofl (tab n f)) = sumn n f.
  Proof. apply sumn_ext. intros i Hi. unfold ofl. now apply tab_nth. Qed.
End Lemmas.
