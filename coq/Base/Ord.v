(** Ordered-field interface for the order-dependent models (interpolation,
    regridding, filters, forcings): boolean tests [fleb]/[feqb] of [Ops] are
    related to a total order compatible with + and *.  Instances: Qc, R. *)
From Dino Require Import Base.Ops Base.Inst.
From Coq Require Import Qcanon Reals Lra.
Local Open Scope F_scope.

Section Defs.
  Context {F : Type} {o : Ops F}.
  Definition fle (x y : F) : Prop := fleb x y = true.
  Definition flt (x y : F) : Prop := fleb y x = false.
  Definition fltb (x y : F) : bool := negb (fleb y x).
  Definition fabs (x : F) : F := if fleb 0 x then x else - x.
  Definition fmax (x y : F) : F := if fleb x y then y else x.
  Definition fmin (x y : F) : F := if fleb x y then x else y.
End Defs.

Class OrdFieldC {F} (o : Ops F) : Prop := {
  of_field :> FieldC o;
  fle_refl : forall x, fle x x;
  fle_antisym : forall x y, fle x y -> fle y x -> x = y;
  fle_trans : forall x y z, fle x y -> fle y z -> fle x z;
  fle_total : forall x y, fle x y \/ fle y x;
  fle_add : forall x y z, fle x y -> fle (x + z) (y + z);
  fle_mul_pos : forall x y, fle 0 x -> fle 0 y -> fle 0 (x * y);
  feqb_spec : forall x y : F, feqb x y = true <-> x = y;
  f01 : (0:F) <> 1 }.

Section Lemmas.
  Context {F : Type} {o : Ops F} {Oc : OrdFieldC o}.
  Add Field FFo : (field_c : FieldTh o).

  Lemma flt_iff x y : flt x y <-> ~ fle y x.
  Proof. unfold flt, fle. destruct (fleb y x); split; intros; try discriminate; auto. now exfalso. Qed.
  Lemma fltb_true x y : fltb x y = true <-> flt x y.
  Proof. unfold fltb, flt. destruct (fleb y x); cbn; split; intros; try discriminate; auto. Qed.
  Lemma flt_le x y : flt x y -> fle x y.
  Proof. intros H. apply flt_iff in H. destruct (fle_total x y); tauto. Qed.
  Lemma flt_neq x y : flt x y -> x <> y.
  Proof. intros H E. subst. apply flt_iff in H. apply H, fle_refl. Qed.
  Lemma flt_irrefl x : ~ flt x x.
  Proof. intro H. now apply (flt_neq x x). Qed.
  Lemma fpos_neq0 x : flt 0 x -> x <> 0.
  Proof. intros H E. rewrite E in H. now apply (flt_irrefl 0). Qed.
  Lemma fle_lt_or_eq x y : fle x y -> flt x y \/ x = y.
  Proof.
    intros H. destruct (fleb y x) eqn:E.
    - right. now apply fle_antisym.
    - now left.
  Qed.
  Lemma fle_or_lt x y : fle x y \/ flt y x.
  Proof. unfold fle, flt. destruct (fleb x y); auto. Qed.
  Lemma flt_le_trans x y z : flt x y -> fle y z -> flt x z.
  Proof. intros H1 H2. apply flt_iff. intro H3. apply flt_iff in H1. apply H1. eapply fle_trans; eauto. Qed.
  Lemma fle_lt_trans x y z : fle x y -> flt y z -> flt x z.
  Proof. intros H1 H2. apply flt_iff. intro H3. apply flt_iff in H2. apply H2. eapply fle_trans; eauto. Qed.
  Lemma flt_trans x y z : flt x y -> flt y z -> flt x z.
  Proof. intros H1 H2. eapply flt_le_trans; eauto using flt_le. Qed.

  Lemma fle_sub x y : fle x y <-> fle 0 (y - x).
  Proof.
    split; intros H.
    - replace 0 with (x + (- x)) by ring. replace (y - x) with (y + (- x)) by ring. now apply fle_add.
    - replace x with (0 + x) by ring. replace y with ((y - x) + x) by ring. now apply fle_add.
  Qed.
  Lemma fle_sub_1 x y : fle x y -> fle 0 (y - x). Proof. apply fle_sub. Qed.
  Lemma fle_sub_2 x y : fle 0 (y - x) -> fle x y. Proof. apply fle_sub. Qed.
  Lemma fle_add2 a b c d : fle a b -> fle c d -> fle (a + c) (b + d).
  Proof.
    intros H1 H2. eapply fle_trans; [apply fle_add; eassumption|].
    replace (b + c) with (c + b) by ring. replace (b + d) with (d + b) by ring. now apply fle_add.
  Qed.
  Lemma fle_opp x y : fle x y -> fle (- y) (- x).
  Proof. intros H. apply fle_sub_2. replace (- x - - y) with (y - x) by ring. now apply fle_sub_1. Qed.
  Lemma fle_mul_l c x y : fle 0 c -> fle x y -> fle (c * x) (c * y).
  Proof.
    intros Hc H. apply fle_sub_2. replace (c * y - c * x) with (c * (y - x)) by ring.
    apply fle_mul_pos; auto. now apply fle_sub_1.
  Qed.
  Lemma fle_sq x : fle 0 (x * x).
  Proof.
    destruct (fle_total 0 x) as [H|H].
    - now apply fle_mul_pos.
    - replace (x * x) with ((- x) * (- x)) by ring.
      assert (fle 0 (- x)) by (replace 0 with (- 0) by ring; now apply fle_opp).
      now apply fle_mul_pos.
  Qed.
  Lemma fle_0_1 : fle (0:F) 1.
  Proof. replace 1 with (1 * 1) by ring. apply fle_sq. Qed.
  Lemma flt_0_1 : flt (0:F) 1.
  Proof. destruct (fle_lt_or_eq _ _ fle_0_1); auto. now destruct f01. Qed.

  Lemma flt_add x y z : flt x y -> flt (x + z) (y + z).
  Proof.
    intros H. apply flt_iff. intro H2. apply flt_iff in H. apply H.
    replace y with ((y + z) + (- z)) by ring. replace x with ((x + z) + (- z)) by ring. now apply fle_add.
  Qed.
  Lemma flt_sub x y : flt x y <-> flt 0 (y - x).
  Proof.
    split; intros H.
    - replace 0 with (x + - x) by ring. replace (y - x) with (y + - x) by ring. now apply flt_add.
    - replace x with (0 + x) by ring. replace y with ((y - x) + x) by ring. now apply flt_add.
  Qed.
  Lemma fmul_pos_pos x y : flt 0 x -> flt 0 y -> flt 0 (x * y).
  Proof.
    intros Hx Hy.
    destruct (fle_lt_or_eq 0 (x * y)) as [H|H]; auto.
    - apply fle_mul_pos; now apply flt_le.
    - exfalso. symmetry in H.
      assert (x <> 0) by now apply fpos_neq0.
      assert (y <> 0) by now apply fpos_neq0.
      assert (E : y = (x * y) / x) by (field; auto). rewrite H in E.
      apply H1. rewrite E. field. auto.
  Qed.
  Lemma finv_pos x : flt 0 x -> flt 0 (1 / x).
  Proof.
    intros Hx. assert (x <> 0) by now apply fpos_neq0.
    destruct (fle_or_lt (1 / x) 0) as [H0|H0]; auto. exfalso.
    assert (fle 0 (- (1 / x))) by (replace 0 with (- 0) by ring; now apply fle_opp).
    assert (fle 0 (x * - (1 / x))) by (apply fle_mul_pos; auto using flt_le).
    replace (x * - (1 / x)) with (- (1)) in H2 by (field; auto).
    pose proof (fle_add _ _ 1 H2) as H3.
    replace (0 + 1) with 1 in H3 by ring. replace (- (1) + 1) with 0 in H3 by ring.
    apply (proj1 (flt_iff 0 1) flt_0_1). exact H3.
  Qed.
  Lemma fdiv_pos x y : fle 0 x -> flt 0 y -> fle 0 (x / y).
  Proof.
    intros Hx Hy. assert (y <> 0) by now apply fpos_neq0.
    replace (x / y) with (x * (1 / y)) by (field; auto).
    apply fle_mul_pos; auto. apply flt_le. now apply finv_pos.
  Qed.

  Lemma fabs_nonneg x : fle 0 (fabs x).
  Proof.
    unfold fabs. destruct (fleb 0 x) eqn:E; [exact E|].
    replace 0 with (- 0) by ring. apply fle_opp. apply flt_le. exact E.
  Qed.
  Lemma fmax_ge_l x y : fle x (fmax x y).
  Proof. unfold fmax. destruct (fleb x y) eqn:E; [exact E|apply fle_refl]. Qed.
  Lemma fmax_ge_r x y : fle y (fmax x y).
  Proof. unfold fmax. destruct (fleb x y) eqn:E; [apply fle_refl|]. apply flt_le. exact E. Qed.
  Lemma fmin_le_l x y : fle (fmin x y) x.
  Proof. unfold fmin. destruct (fleb x y) eqn:E; [apply fle_refl|]. apply flt_le. exact E. Qed.
  Lemma fmin_le_r x y : fle (fmin x y) y.
  Proof. unfold fmin. destruct (fleb x y) eqn:E; [exact E|apply fle_refl]. Qed.
End Lemmas.

(** Instances *)
#[export] Instance QcOrd : OrdFieldC QcOps.
Proof.
  assert (L : forall x y : Qc, @fle Qc QcOps x y <-> (x <= y)%Qc).
  { intros x y. unfold fle; cbn. rewrite Qle_bool_iff. reflexivity. }
  constructor.
  - exact QcField.
  - intros x. apply L. apply Qcle_refl.
  - intros x y H1 H2. apply L in H1, H2. now apply Qcle_antisym.
  - intros x y z H1 H2. apply L in H1, H2. apply L. eapply Qcle_trans; eauto.
  - intros x y. destruct (Qclt_le_dec x y) as [H|H].
    + left. apply L. now apply Qclt_le_weak.
    + right. now apply L.
  - intros x y z H. apply L in H. apply L. cbn. now apply Qcplus_le_compat; [|apply Qcle_refl].
  - intros x y H1 H2. apply L in H1, H2. apply L. cbn.
    pose proof (Qcmult_le_compat_r _ _ _ H1 H2) as H3. now rewrite Qcmult_0_l in H3.
  - intros x y. cbn. rewrite Qeq_bool_iff. split; [apply Qc_is_canon|intros ->; reflexivity].
  - cbn. intro H. discriminate H.
Qed.

#[export] Instance ROrd : OrdFieldC ROps.
Proof.
  assert (L : forall x y : R, @fle R ROps x y <-> (x <= y)%R) by (intros; apply Rleb_true).
  constructor.
  - exact RFieldC.
  - intros x. apply L. lra.
  - intros x y H1 H2. apply L in H1, H2. lra.
  - intros x y z H1 H2. apply L in H1, H2. apply L. lra.
  - intros x y. destruct (Rle_dec x y); [left|right]; apply L; lra.
  - intros x y z H. apply L in H. apply L. cbn. lra.
  - intros x y H1 H2. apply L in H1, H2. apply L. cbn in *. now apply Rmult_le_pos.
  - intros x y. cbn. unfold Reqb. destruct (Req_EM_T x y); split; intros; auto; discriminate.
  - cbn. lra.
Qed.

Lemma fle_R (x y : R) : @fle R ROps x y <-> (x <= y)%R.
Proof. apply Rleb_true. Qed.
Lemma flt_R (x y : R) : @flt R ROps x y <-> (x < y)%R.
Proof. unfold flt; cbn. apply Rleb_false. Qed.
