(** Property C19 - persistence and restructuring round trips lose nothing.
    Statements only; proofs are in Thm/Trees.v.  Nested dictionaries: any depth
    and width, any key names (character-code lists, the empty string included)
    that do not contain the one-character separator, any number of empty
    sub-dictionaries.  Arrays: any leaf sizes along the packing axis, any slab
    type.  Spectral arrays: any sizes, any carrier with a zero. *)
From Coq Require Import ZArith List Bool Lia Permutation.
Import ListNotations.
From Dino Require Import Base.Ops Base.Ord Model.Trees Thm.Trees Model.Attrs Thm.Attrs.

(** flatten_dict accepts every well-formed dictionary and unflatten_dict gives
    back a dictionary that Python's [==] identifies with the input (both
    argument orders of [==]) *)
Theorem C19_unflatten_flatten (sep : Z) (d : dict) :
  wf_dict sep d = true ->
  exists flat empties r,
    flatten_dict sep [] d = Some (flat, empties) /\
    unflatten_dict sep flat empties = Some r /\
    tree_eqb (Node r) (Node d) = true /\ tree_eqb (Node d) (Node r) = true.
Proof. exact (unflatten_flatten sep d). Qed.

(** the same, as "what is found at every key path" (leaf value / dictionary / nothing) *)
Theorem C19_unflatten_flatten_paths (sep : Z) (d : dict) :
  wf_dict sep d = true ->
  exists flat empties r,
    flatten_dict sep [] d = Some (flat, empties) /\
    unflatten_dict sep flat empties = Some r /\
    forall q, view q (Node r) = view q (Node d).
Proof. exact (unflatten_flatten_views sep d). Qed.

(** [==] on dictionaries with unique keys is exactly "same content at every path" *)
Theorem C19_dict_eq_is_pathwise (t1 t2 : tree) :
  ndt t1 -> ndt t2 ->
  (tree_eqb t1 t2 = true <-> forall q, view q t1 = view q t2).
Proof.
  intros N1 N2. split; [now apply tree_eqb_views|now apply views_eq_tree_eqb].
Qed.

(** the other direction: a flat dictionary plus a tuple of empty keys whose
    keys are pairwise distinct and prefix-consistent (no key path is a prefix of
    another) is recovered by flatten_dict after unflatten_dict, up to order *)
Theorem C19_flatten_unflatten (sep : Z) (flat : list (str * Z)) (empties : list str) :
  NoDup (map fst flat ++ empties) ->
  PF (flat_entries sep flat empties) ->
  exists r flat' empties',
    unflatten_dict sep flat empties = Some r /\
    flatten_dict sep [] r = Some (flat', empties') /\
    Permutation flat' flat /\ Permutation empties' empties.
Proof. exact (flatten_unflatten sep flat empties). Qed.

(** replace_with_matching_or_default returns the structure of [x]: the same
    dictionaries (empty ones included) and a leaf wherever [x] has a leaf *)
Theorem C19_replace_structure (x repl : dict) (default : Z) (chk : bool) (r : dict) :
  wf_dict amp x = true ->
  replace_with_matching_or_default x repl default chk = Some r ->
  forall q, match view q (Node x) with
            | Some (Some _) => exists v, view q (Node r) = Some (Some v)
            | o => view q (Node r) = o
            end.
Proof. exact (replace_structure x repl default chk r). Qed.

(** pack / unpack, stack / unstack, split / concatenate *)
Theorem C19_unpack_pack {A} (leaves : list (list A)) packed :
  pack_pytree leaves = Some packed ->
  unpack_to_pytree packed (map (@length A) leaves) = Some leaves.
Proof. exact (unpack_pack leaves packed). Qed.

Theorem C19_unstack_stack {A} (leaves : list A) stacked :
  stack_pytree leaves = Some stacked -> unstack_to_pytree stacked (length leaves) = Some leaves.
Proof. exact (unstack_stack leaves stacked). Qed.

Theorem C19_concat_split {A} (i : Z) (inputs : list (list A)) :
  concat_along_axis [fst (split_along_axis i inputs); snd (split_along_axis i inputs)] = Some inputs.
Proof. exact (concat_split i inputs). Qed.

(** split_axis(keep_dims=True) gives one pytree per index and concat_along_axis
    of those pytrees is the input (all leaves of size n >= 1 along the axis) *)
Theorem C19_split_axis_concat {A} (inputs : list (list A)) (n : nat) :
  inputs <> [] -> (1 <= n)%nat -> Forall (fun a => length a = n) inputs ->
  exists trees, split_axis_keep inputs = Some trees /\ length trees = n /\
                concat_along_axis trees = Some inputs.
Proof. exact (split_axis_concat inputs n). Qed.

Theorem C19_empty_pytree {A} : @pack_pytree A [] = None /\ @stack_pytree A [] = None.
Proof. exact pack_empty. Qed.

(** spectral up-sampling then down-sampling is the identity; up-sampling keeps
    every coefficient at its (m, l) index and writes exact zeros elsewhere *)
Section Spectral.
  Context {F : Type} {o : Ops F}.

  Theorem C19_down_up_identity (Mw Lw Mw' Lw' M L M' L' : nat) (x y : list (list F)) :
    length x = M -> Forall (fun row => length row = L) x ->
    (Mw <= Mw')%nat -> (Lw <= Lw')%nat ->
    upsample f0 M L M' L' x = Some y ->
    downsample Mw' Lw' Mw Lw M L y = Some x.
  Proof. exact (downsample_upsample f0 Mw Lw Mw' Lw' M L M' L' x y). Qed.

  Theorem C19_upsample_coef (M L M' L' : nat) (x y : list (list F)) m l :
    length x = M -> Forall (fun row => length row = L) x ->
    upsample f0 M L M' L' x = Some y ->
    coef f0 y m l = (if Nat.ltb m M && Nat.ltb l L then coef f0 x m l else f0) /\
    length y = M' /\ Forall (fun row => length row = L') y.
  Proof.
    intros HM HL. unfold upsample.
    destruct (Nat.ltb M' M || Nat.ltb L' L) eqn:E; [discriminate|]. intros [= <-].
    apply orb_false_iff in E as [E1 E2]. apply Nat.ltb_ge in E1, E2.
    split; [now apply upsample_coef|].
    destruct (pad2_shape f0 M L (M' - M) (L' - L) x HM HL) as [S1 S2].
    split; [lia|]. eapply Forall_impl; [|exact S2]. cbn. intros row Hr. lia.
  Qed.
End Spectral.


(** ** labelled datasets: shape -> dimension names *)
Section Dims.
Local Open Scope Z_scope.
(** For an admissible coordinate system (boolean predicate [admissible]: the
    number of layers is not 1, nodal and modal horizontal shapes differ, both
    have two axes) and no user-supplied extra coordinates, the table that
    data_to_xarray uses is exactly the documented one, with the sample/time
    prefix: *)
Theorem C19_dims_table_documented (K : Z) (modal nodal : shape) (times samples : option Z) :
  admissible K modal nodal = true ->
  exists M1 M2 N1 N2, modal = [M1; M2] /\ nodal = [N1; N2] /\
  xarray_table K modal nodal times samples [] =
    Some (map (update_shape_dims times samples false) (documented K M1 M2 N1 N2)).
Proof. exact (xarray_table_documented K modal nodal times samples). Qed.

(** ... hence the eight documented roles have pairwise different shapes, each
    role's shape receives exactly its documented names (same rank as the
    shape), and every accepted shape is one of the roles. *)
Theorem C19_dims_inference_injective (K : Z) (modal nodal : shape) (times samples : option Z) :
  admissible K modal nodal = true ->
  exists M1 M2 N1 N2, modal = [M1; M2] /\ nodal = [N1; N2] /\
    let doc := documented K M1 M2 N1 N2 in
    NoDup (map fst doc) /\
    (forall sh d, In (sh, d) doc ->
       dims_of K modal nodal times samples [] (pre_s times samples ++ sh) = Some (Some (pre_d times samples ++ d)) /\
       length d = length sh) /\
    (forall sh dd, dims_of K modal nodal times samples [] sh = Some (Some dd) ->
       exists sh0 d0, In (sh0, d0) doc /\ sh = pre_s times samples ++ sh0 /\ dd = pre_d times samples ++ d0).
Proof. exact (dims_inference_injective K modal nodal times samples). Qed.

(** Outside the predicate the table does collide (both replayed on the
    implementation by the plugin): with one layer every 3-d nodal field
    (1, lon, lat) is given the two names (lon, lat); with equal nodal and modal
    shapes a 2-d field is labelled modal while 3-d fields are labelled nodal. *)
Theorem C19_dims_one_layer_refuted (M1 M2 N1 N2 : Z) (times samples : option Z) :
  dims_of 1 [M1; M2] [N1; N2] times samples [] (pre_s times samples ++ [1; N1; N2])
  = Some (Some (pre_d times samples ++ NODAL)).
Proof. exact (dims_one_layer_refuted M1 M2 N1 N2 times samples). Qed.

Theorem C19_dims_nodal_eq_modal_refuted (K N1 N2 : Z) (times samples : option Z) :
  K <> 1 ->
  dims_of K [N1; N2] [N1; N2] times samples [] (pre_s times samples ++ [N1; N2])
    = Some (Some (pre_d times samples ++ MODAL)) /\
  dims_of K [N1; N2] [N1; N2] times samples [] (pre_s times samples ++ [K; N1; N2])
    = Some (Some (pre_d times samples ++ d_level :: NODAL)) /\
  dims_of K [N1; N2] [N1; N2] times samples [] (pre_s times samples ++ [1; N1; N2])
    = Some (Some (pre_d times samples ++ d_surface :: NODAL)).
Proof. exact (dims_nodal_eq_modal_refuted K N1 N2 times samples). Qed.

End Dims.

(** ** coordinate system -> attrs -> coordinate system *)
(** Every field that defines the discretisation is restored: wavenumbers, node
    counts, latitude spacing, longitude offset, radius, the vertical class and
    its boundaries / layers / centers.  Exactly two fields are dropped: the
    spherical-harmonics implementation class (reset to RealSphericalHarmonics)
    and the mesh (reset to None) - see [restored]. *)
Theorem C19_attrs_roundtrip {F : Type} {o : Ops F} (tol0 tol1 : F) (g : grid) (v : vertical) :
  grid_ok g = true -> vertical_ok tol0 tol1 v = true ->
  exists a, cs_asdict g v = Some a /\ from_attrs tol0 tol1 a = Some (restored g, Some v).
Proof. exact (attrs_roundtrip tol0 tol1 g v). Qed.

(** the hypotheses are satisfiable: a T21-like system with 8 layers is
    admissible; a gauss grid with uneven sigma levels passes the constructors *)
Example C19_attrs_hyps_satisfiable :
  admissible 8 [43; 23]%Z [64; 32]%Z = true /\ admissible 1 [43; 23]%Z [64; 32]%Z = false /\
  admissible 8 [7; 5]%Z [7; 5]%Z = false /\
  let g := @mkGrid Q 22%Z 23%Z 64%Z 32%Z [103; 97; 117; 115; 115]%Z (1 # 10)%Q 6371%Q default_impl None in
  grid_ok g = true /\
  @vertical_ok Q QOps (1 # 100000000) (1001 # 100000000) (VSigma [0; 1 # 3; 9 # 10; 1]%Q) = true /\
  @vertical_ok Q QOps (1 # 100000000) (1001 # 100000000) (VPressure [50; 500; 850]%Q) = true.
Proof. vm_compute. repeat split; reflexivity. Qed.

(** Non-vacuity: a non-trivial dictionary satisfies the precondition, i.e.
    {'ab': {}, 'ac': {}, '': {'a': 1, '': {}}, 'a': {'b': {'c': 2, 'd': {}}, 'bc': 3}, 'b': 4}
    with sep = '&' (38); letters a=97 b=98 c=99 d=100 *)
Definition C19_example_dict : dict :=
  [ ([97; 98], Node []); ([97; 99], Node []);
    ([], Node [([97], Leaf 1); ([], Node [])]);
    ([97], Node [([98], Node [([99], Leaf 2); ([100], Node [])]); ([98; 99], Leaf 3)]);
    ([98], Leaf 4) ]%Z.

Example C19_hyps_satisfiable :
  wf_dict 38 C19_example_dict = true /\
  flatten_dict 38 [] C19_example_dict =
    Some ([([38; 97], 1); ([97; 38; 98; 38; 99], 2); ([97; 38; 98; 99], 3); ([98], 4)],
          [[97; 98]; [97; 99]; [38]; [97; 38; 98; 38; 100]])%Z /\
  (* a key containing the separator is rejected *)
  flatten_dict 38 [] [([97; 38; 98], Leaf 1)]%Z = None /\
  wf_dict 38 [([97; 38; 98], Leaf 1)]%Z = false.
Proof. vm_compute. repeat split; reflexivity. Qed.

(** regression instances of the two repaired defects, and a prefix-consistent flat dictionary:
    {'ab': {}, 'ac': {}} and {'': {'a': 1}, 'a': 2} are accepted and round-trip;
    flat = {'a&b': 1, 'c': 2}, empty = ('a&d',) satisfies the hypotheses of C19_flatten_unflatten *)
Example C19_regressions :
  flatten_dict 38 [] [([97; 98], Node []); ([97; 99], Node [])]%Z = Some ([], [[97; 98]; [97; 99]])%Z /\
  flatten_dict 38 [] [([], Node [([97], Leaf 1)]); ([97], Leaf 2)]%Z = Some ([([38; 97], 1); ([97], 2)], [])%Z /\
  unflatten_dict 38 [([38; 97], 1); ([97], 2)]%Z [] = Some [([], Node [([97], Leaf 1)]); ([97], Leaf 2)]%Z /\
  NoDup (map fst [([97; 38; 98], 1); ([99], 2)] ++ [[97; 38; 100]])%Z /\
  PF (flat_entries 38 [([97; 38; 98], 1); ([99], 2)] [[97; 38; 100]])%Z.
Proof.
  repeat split; try (vm_compute; reflexivity).
  - repeat constructor; cbn; intuition discriminate.
  - intros e1 e2 H1 H2. cbn in H1, H2.
    destruct H1 as [<-|[<-|[<-|[]]]], H2 as [<-|[<-|[<-|[]]]]; (now left) || (now right).
Qed.

(** the hypotheses of C19_replace_structure are met:
    x = {'a': {'b': 1, 'e': {}}, 'c': 2}, replace = {'a': {'b': 7}}, default -1 *)
Example C19_replace_example :
  let x := [([97], Node [([98], Leaf 1); ([101], Node [])]); ([99], Leaf 2)]%Z in
  let rep := [([97], Node [([98], Leaf 7)])]%Z in
  wf_dict amp x = true /\
  replace_with_matching_or_default x rep (-1) true =
    Some [([97], Node [([98], Leaf 7); ([101], Node [])]); ([99], Leaf (-1))]%Z /\
  (* an unused replace key is rejected when the check is on *)
  replace_with_matching_or_default x [([122], Leaf 0)]%Z (-1) true = None.
Proof. vm_compute. repeat split; reflexivity. Qed.

Print Assumptions C19_unflatten_flatten.
Print Assumptions C19_unflatten_flatten_paths.
Print Assumptions C19_dict_eq_is_pathwise.
Print Assumptions C19_flatten_unflatten.
Print Assumptions C19_replace_structure.
Print Assumptions C19_unpack_pack.
Print Assumptions C19_unstack_stack.
Print Assumptions C19_concat_split.
Print Assumptions C19_split_axis_concat.
Print Assumptions C19_empty_pytree.
Print Assumptions C19_down_up_identity.
Print Assumptions C19_upsample_coef.
Print Assumptions C19_dims_table_documented.
Print Assumptions C19_dims_inference_injective.
Print Assumptions C19_dims_one_layer_refuted.
Print Assumptions C19_dims_nodal_eq_modal_refuted.
Print Assumptions C19_attrs_roundtrip.
Print Assumptions C19_attrs_hyps_satisfiable.
Print Assumptions C19_hyps_satisfiable.
Print Assumptions C19_regressions.
Print Assumptions C19_replace_example.
