(** Property C16 - conservative regridding preserves constants, bounds and
    integrals.  Statements only; proofs are in Thm/Regrid.v.  Every theorem of
    the section is for an arbitrary ordered field [F] (hence the reals), arbitrary
    numbers of source/target cells and arbitrary sorted boundary lists.
    Weight matrices are indexed [target source]. *)
From Dino Require Import Base.Ops Base.Sums Base.Inst Base.Ord Model.Regrid Thm.Regrid.
From Dino Require Import Model.Filters Gen.RegridSrc Thm.RegridSrc.
From Coq Require Import Reals Qcanon Lra.
Local Open Scope F_scope.

Section C16.
  Context {F : Type} {o : Ops F} {Oc : OrdFieldC o}.

  (** the overlaps of a cell [lo,hi] with the cells of a sorted boundary list add
      up to its overlap with the whole range; inside the range: to its length.
      (Used in both directions: over sources for a target cell, over targets
      for a source cell, since [ov] is symmetric.) *)
  Theorem C16_partition_overlap (s : nat -> F) m lo hi :
    (forall j, (j < m)%nat -> fle (s j) (s (S j))) -> fle lo hi ->
    sumn m (fun j => ov lo hi (s j) (s (S j))) = ov lo hi (s 0%nat) (s m) /\
    sumn m (fun j => ov (s j) (s (S j)) lo hi) = ov lo hi (s 0%nat) (s m) /\
    (fle (s 0%nat) lo -> fle hi (s m) -> sumn m (fun j => ov lo hi (s j) (s (S j))) = hi - lo).
  Proof.
    intros Hs Hl. split; [now apply partition_overlap|split].
    - rewrite <- (partition_overlap s m lo hi Hs Hl). apply sumn_ext. intros; apply ov_sym.
    - intros H0 H1. now apply partition_overlap_inside.
  Qed.

  (** any non-negative overlap matrix, row [i] with non-zero total *)
  Theorem C16_weights_nonneg m (w : nat -> nat -> F) i :
    (forall j, (j < m)%nat -> fle 0 (w i j)) -> row_total m w i <> 0 ->
    forall j, (j < m)%nat -> fle 0 (normalize_rows m w i j).
  Proof. exact (weights_nonneg m w i). Qed.

  Theorem C16_rows_sum_to_one m (w : nat -> nat -> F) i :
    row_total m w i <> 0 -> sumn m (normalize_rows m w i) = 1.
  Proof. exact (rows_sum_to_one m w i). Qed.

  Theorem C16_constants_reproduced m (w : nat -> nat -> F) i c :
    row_total m w i <> 0 -> apply_weights m (normalize_rows m w) (fun _ => c) i = c.
  Proof. intros H. now apply constants_reproduced. Qed.

  (** a convex combination lies between any bounds of the inputs, in particular
      between their minimum and maximum (for every m >= 1) *)
  Theorem C16_range_preserved m (w : nat -> nat -> F) i (x : nat -> F) :
    (forall j, (j < m)%nat -> fle 0 (w i j)) -> row_total m w i <> 0 ->
    (forall lo hi, (forall j, (j < m)%nat -> fle lo (x j) /\ fle (x j) hi) ->
       fle lo (apply_weights m (normalize_rows m w) x i) /\ fle (apply_weights m (normalize_rows m w) x i) hi) /\
    ((0 < m)%nat ->
       fle (fminn (m - 1) x) (apply_weights m (normalize_rows m w) x i) /\
       fle (apply_weights m (normalize_rows m w) x i) (fmaxn (m - 1) x)).
  Proof.
    intros Hn Hz. split.
    - intros lo hi. now apply range_preserved.
    - now apply range_preserved_minmax.
  Qed.

  (** vertical: a row can be normalised exactly when the target layer meets the
      source range; then its weights are >= 0 and sum to one *)
  Theorem C16_vertical_rows n m (tb sb : nat -> F) i :
    (forall i, (i < n)%nat -> fle (tb i) (tb (S i))) ->
    (forall j, (j < m)%nat -> fle (sb j) (sb (S j))) -> (i < n)%nat ->
    (row_total m (interval_overlap sb tb) i <> 0 <->
       flt (fmax (tb i) (sb 0%nat)) (fmin (tb (S i)) (sb m))) /\
    (flt (fmax (tb i) (sb 0%nat)) (fmin (tb (S i)) (sb m)) ->
       (forall j, (j < m)%nat -> fle 0 (vert_weights m sb tb i j)) /\ sumn m (vert_weights m sb tb i) = 1).
  Proof.
    intros Ht Hs Hi. split; [now apply (vertical_row_nonzero_iff n)|now apply (vertical_rows n)].
  Qed.

  (** thickness-weighted integral over the covered range; with equal ranges and
      strictly increasing target bounds: plain layer thicknesses *)
  Theorem C16_vertical_integral_conserved n m (tb sb x : nat -> F) :
    (forall i, (i < n)%nat -> fle (tb i) (tb (S i))) ->
    (forall j, (j < m)%nat -> fle (sb j) (sb (S j))) ->
    ((forall i, (i < n)%nat -> flt (fmax (tb i) (sb 0%nat)) (fmin (tb (S i)) (sb m))) ->
       sumn n (fun i => ov (tb i) (tb (S i)) (sb 0%nat) (sb m) * apply_weights m (vert_weights m sb tb) x i)
       = sumn m (fun j => ov (sb j) (sb (S j)) (tb 0%nat) (tb n) * x j)) /\
    ((forall i, (i < n)%nat -> flt (tb i) (tb (S i))) -> tb 0%nat = sb 0%nat -> tb n = sb m ->
       sumn n (fun i => (tb (S i) - tb i) * apply_weights m (vert_weights m sb tb) x i)
       = sumn m (fun j => (sb (S j) - sb j) * x j)).
  Proof.
    intros Ht Hs. split.
    - now apply vertical_integral_conserved.
    - now apply vertical_integral_conserved_same_range.
  Qed.

  (** regrid_hybrid_to_sigma: source bounds a/sp + b (H_hybrid_incr: sorted at this sp) *)
  Theorem C16_hybrid_integral_conserved n m (a b : nat -> F) (sp : F) (tb x : nat -> F) :
    let hb := hybrid_bounds a b sp in
    (forall i, (i < n)%nat -> fle (tb i) (tb (S i))) ->
    (forall j, (j < m)%nat -> fle (hb j) (hb (S j))) ->
    (forall i, (i < n)%nat -> flt (fmax (tb i) (hb 0%nat)) (fmin (tb (S i)) (hb m))) ->
    sumn n (fun i => ov (tb i) (tb (S i)) (hb 0%nat) (hb m) * regrid_hybrid_to_sigma m a b sp tb x i)
    = sumn m (fun j => ov (hb j) (hb (S j)) (tb 0%nat) (tb n) * x j).
  Proof. intros hb Ht Hs Hx. exact (vertical_integral_conserved n m tb hb Ht Hs x Hx). Qed.

  (** latitude: with a monotone sin table the coded overlap is the overlap of the sin-intervals *)
  Theorem C16_latitude_overlap_is_sin_overlap n m (tb sb st ss : nat -> F) i j :
    sin_mono n m tb sb st ss -> (i < n)%nat -> (j < m)%nat ->
    lat_overlap tb sb st ss i j = ov (st i) (st (S i)) (ss j) (ss (S j)).
  Proof. exact (lat_overlap_is_ov n m tb sb st ss i j). Qed.

  Theorem C16_latitude_rows n m (tb sb st ss : nat -> F) i :
    sin_mono n m tb sb st ss ->
    (forall i, (i < n)%nat -> flt (st i) (st (S i))) ->
    (forall j, (j < m)%nat -> fle (ss j) (ss (S j))) ->
    st 0%nat = ss 0%nat -> st n = ss m -> (i < n)%nat ->
    row_total m (lat_overlap tb sb st ss) i = st (S i) - st i /\
    (forall j, (j < m)%nat -> fle 0 (normalize_rows m (lat_overlap tb sb st ss) i j)) /\
    sumn m (normalize_rows m (lat_overlap tb sb st ss) i) = 1.
  Proof.
    intros H1 H2 H3 H4 H5 Hi. split; [now apply (lat_row_total n m)|now apply (latitude_rows n m)].
  Qed.

  Theorem C16_latitude_integral_conserved hpi n m (tx sx st ss x : nat -> F) :
    sin_mono n m (lat_bounds hpi n tx) (lat_bounds hpi m sx) st ss ->
    (forall i, (i < n)%nat -> flt (st i) (st (S i))) ->
    (forall j, (j < m)%nat -> fle (ss j) (ss (S j))) ->
    st 0%nat = ss 0%nat -> st n = ss m ->
    sumn n (fun i => (st (S i) - st i) * apply_weights m (lat_weights hpi n m tx sx st ss) x i)
    = sumn m (fun j => (ss (S j) - ss j) * x j).
  Proof.
    intros H1 H2 H3 H4 H5.
    exact (latitude_integral_conserved n m _ _ st ss H1 H2 H3 H4 H5 x).
  Qed.

  (** longitude in an arbitrary ordered field: non-negativity, unit row sums,
      constants and range for the periodic overlap exactly as coded, for every row
      with non-zero total (that the total is the cell width, hence non-zero, is
      C16_longitude_rows below, over the reals). *)
  Theorem C16_longitude_rows_given_total period n m (tp sp : nat -> F) i :
    row_total m (lon_overlap period n m tp sp) i <> 0 ->
    (forall j, (j < m)%nat -> fle 0 (lon_weights period n m tp sp i j)) /\
    sumn m (lon_weights period n m tp sp i) = 1 /\
    (forall c, apply_weights m (lon_weights period n m tp sp) (fun _ => c) i = c) /\
    (forall x lo hi, (forall j, (j < m)%nat -> fle lo (x j) /\ fle (x j) hi) ->
        fle lo (apply_weights m (lon_weights period n m tp sp) x i) /\
        fle (apply_weights m (lon_weights period n m tp sp) x i) hi).
  Proof. exact (longitude_rows_partial period n m tp sp i). Qed.

  (** tensor-product (area) integral in an arbitrary ordered field, given the
      periodic partition identity [lon_partition] (proved over the reals below:
      C16_longitude_partition, C16_horizontal_integral_conserved) *)
  Theorem C16_horizontal_integral_conserved_given_partition
          period na nb (tp sp : nat -> F) nc nd (tb sb st ss : nat -> F) (f : nat -> nat -> F) :
    lon_partition period na nb tp sp ->
    (forall a, (a < na)%nat -> cell_width na period tp a <> 0) ->
    sin_mono nc nd tb sb st ss ->
    (forall c, (c < nc)%nat -> flt (st c) (st (S c))) ->
    (forall d, (d < nd)%nat -> fle (ss d) (ss (S d))) ->
    st 0%nat = ss 0%nat -> st nc = ss nd ->
    sumn na (fun a => sumn nc (fun c => cell_width na period tp a * (st (S c) - st c) *
        mean2 nb nd (lon_weights period na nb tp sp) (normalize_rows nd (lat_overlap tb sb st ss)) f a c))
    = sumn nb (fun b => sumn nd (fun d => cell_width nb period sp b * (ss (S d) - ss d) * f b d)).
  Proof. exact (horizontal_integral_conserved_partial period na nb tp sp nc nd tb sb st ss f). Qed.

  (** NaN semantics of ConservativeRegridder.__call__ for output cell (a,c);
      [wlon a b * wlat c d] is the weight of source cell (b,d); [None] = NaN *)
  Section Nan.
    Variables (nb nd : nat) (wlon wlat : nat -> nat -> F) (a c : nat).
    Hypothesis lon_nonneg : forall b, (b < nb)%nat -> fle 0 (wlon a b).
    Hypothesis lat_nonneg : forall d, (d < nd)%nat -> fle 0 (wlat c d).
    Hypothesis lon_sum : sumn nb (wlon a) = 1.
    Hypothesis lat_sum : sumn nd (wlat c) = 1.
    Variable field : nat -> nat -> option F.
    Variable tol : F.          (* atol + rtol of isclose(frac, 1, rtol=1e-3) *)

    (** skipna=False: NaN iff the NaN cells carry more weight than the isclose
        slack; hence not NaN when no overlapping cell is NaN (then the plain
        weighted mean), NaN when an overlapping NaN cell is heavier than the slack *)
    Theorem C16_nan_semantics_strict :
      (regrid_call false tol nb nd wlon wlat field a c = None <->
         flt tol (mean2 nb nd wlon wlat (fun b d => 1 - notnull (field b d)) a c)) /\
      (fle 0 tol ->
       (forall b d, (b < nb)%nat -> (d < nd)%nat -> flt 0 (wlon a b * wlat c d) -> field b d <> None) ->
       regrid_call false tol nb nd wlon wlat field a c
       = Some (mean2 nb nd wlon wlat (fun b d => val0 (field b d)) a c)) /\
      (forall b d, (b < nb)%nat -> (d < nd)%nat -> field b d = None -> flt tol (wlon a b * wlat c d) ->
       regrid_call false tol nb nd wlon wlat field a c = None).
    Proof.
      split; [|split].
      - exact (nan_strict_iff nb nd wlon wlat a c lon_nonneg lat_nonneg lon_sum lat_sum field tol).
      - exact (nan_strict_clean nb nd wlon wlat a c lon_nonneg lat_nonneg lon_sum lat_sum field tol).
      - exact (nan_strict_propagates nb nd wlon wlat a c lon_nonneg lat_nonneg lon_sum lat_sum field tol).
    Qed.

    (** skipna=True: NaN iff every overlapping source cell is NaN; otherwise the
        weight-renormalised mean of the non-NaN cells, within their range *)
    Theorem C16_nan_semantics_skipna :
      (regrid_call true tol nb nd wlon wlat field a c = None <->
         (forall b d, (b < nb)%nat -> (d < nd)%nat -> flt 0 (wlon a b * wlat c d) -> field b d = None)) /\
      (forall v lo hi, regrid_call true tol nb nd wlon wlat field a c = Some v ->
         (forall b d x, (b < nb)%nat -> (d < nd)%nat -> flt 0 (wlon a b * wlat c d) -> field b d = Some x ->
                        fle lo x /\ fle x hi) ->
         v = mean2 nb nd wlon wlat (fun b d => val0 (field b d)) a c
             / mean2 nb nd wlon wlat (fun b d => notnull (field b d)) a c /\
         fle lo v /\ fle v hi).
    Proof.
      split.
      - exact (nan_skipna_iff nb nd wlon wlat a c lon_nonneg lat_nonneg field tol).
      - intros v lo hi R H.
        destruct (nan_skipna_value nb nd wlon wlat a c lon_nonneg lat_nonneg field tol v lo hi R H)
          as (_ & E & L & U).
        split; [exact E|split; assumption].
    Qed.
  End Nan.
End C16.

(** Over the reals with the real [sin]: for all strictly increasing latitude
    centres within [-pi/2, pi/2] the area-weighted integral is conserved. *)
Theorem C16_latitude_integral_conserved_R n m (tx sx x : nat -> R) :
  (0 < n)%nat -> (0 < m)%nat ->
  (forall i, (S i < n)%nat -> (tx i < tx (S i))%R) -> (- (PI / 2) <= tx 0%nat)%R -> (tx (n - 1)%nat <= PI / 2)%R ->
  (forall j, (S j < m)%nat -> (sx j < sx (S j))%R) -> (- (PI / 2) <= sx 0%nat)%R -> (sx (m - 1)%nat <= PI / 2)%R ->
  let tb := @lat_bounds R ROps (PI / 2)%R n tx in
  let sb := @lat_bounds R ROps (PI / 2)%R m sx in
  let st := fun k => sin (tb k) in
  let ss := fun k => sin (sb k) in
  @sumn R ROps n (fun i => (st (S i) - st i) *
                           @apply_weights R ROps m (@lat_weights R ROps (PI / 2)%R n m tx sx st ss) x i)
  = @sumn R ROps m (fun j => (ss (S j) - ss j) * x j).
Proof. exact (latitude_integral_conserved_R n m tx sx x). Qed.

(** Longitude over the reals (current code: the second interval is moved as a
    whole next to x0 and the overlaps with its images at -period, 0, +period are
    summed). *)
Theorem C16_periodic_overlap_images period (x0 x1 y0 y1 : R) :
  let s := (@align_phase R ROps y0 x0 period - y0)%R in
  @per_overlap R ROps period x0 x1 y0 y1
  = (@ov R ROps x0 x1 (y0 + s + - period) (y1 + s + - period) + @ov R ROps x0 x1 (y0 + s + 0) (y1 + s + 0)
     + @ov R ROps x0 x1 (y0 + s + period) (y1 + s + period))%R.
Proof. exact (@per_overlap_images R ROps ROrd period x0 x1 y0 y1). Qed.

Theorem C16_periodic_overlap_full_circle_R (P x0 x1 u : R) :
  (0 < P)%R -> (x0 <= x1)%R -> (x1 - x0 <= P)%R -> (- (3 * P / 2) < u - x0 < 3 * P / 2)%R ->
  @per_overlap R ROps P x0 x1 u (u + P)%R = (x1 - x0)%R /\ @per_overlap R ROps P x0 x1 u u = 0%R.
Proof. intros HP Hx Hw Hr. split; [now apply pov_full_R|now apply pov_empty_R]. Qed.

(** The periodic partition identity, over the reals, for ALL numbers of cells.
    [cyclic_points P n p g]: the points [p] (already reduced into [0,P)) advance
    cyclically by steps [g j] in (0, P/2) and go around exactly once.  This is the
    real precondition of _periodic_lower/upper_bounds (a neighbour exactly P/2
    away, e.g. a 2-node grid, is not aligned correctly).  Then the cells tile the
    circle and the overlaps of every target cell with the source cells add up to
    its width, and vice versa. *)
Theorem C16_longitude_partition P n m (tp gt sp gs : nat -> R) :
  (0 < P)%R -> cyclic_points P n tp gt -> cyclic_points P m sp gs ->
  @lon_partition R ROps P n m tp sp.
Proof. exact (lon_partition_R P n m tp gt sp gs). Qed.

(** strictly increasing longitudes whose gaps (including the closing gap
    x_0 + P - x_{n-1}) lie in (0, P/2), reduced mod P with quotients k_j
    (0 <= x_j - k_j P < P), are cyclic points *)
Theorem C16_longitude_points_cyclic P n (x : nat -> R) (k : nat -> Z) :
  (0 < P)%R -> (0 < n)%nat ->
  (forall j, (j < n)%nat -> (0 < gaps P n x j < P / 2)%R) ->
  (forall j, (j < n)%nat -> (0 <= x j - IZR (k j) * P < P)%R) ->
  cyclic_points P n (fun j => @pmod R ROps P (k j) (x j)) (gaps P n x).
Proof. exact (cyclic_points_of_increasing P n x k). Qed.

(** conservative_longitude_weights: every row total is the (positive) target
    cell width, so every row is normalisable; weights >= 0, rows sum to one,
    constants are reproduced, outputs stay within the range of the inputs *)
Theorem C16_longitude_rows P n m (tp gt sp gs : nat -> R) i :
  (0 < P)%R -> cyclic_points P n tp gt -> cyclic_points P m sp gs -> (i < n)%nat ->
  @row_total R ROps m (@lon_overlap R ROps P n m tp sp) i = @cell_width R ROps n P tp i /\
  (0 < @cell_width R ROps n P tp i)%R /\
  (forall j, (j < m)%nat -> (0 <= @lon_weights R ROps P n m tp sp i j)%R) /\
  @sumn R ROps m (@lon_weights R ROps P n m tp sp i) = 1%R /\
  (forall c, @apply_weights R ROps m (@lon_weights R ROps P n m tp sp) (fun _ => c) i = c) /\
  (forall x lo hi, (forall j, (j < m)%nat -> (lo <= x j <= hi)%R) ->
      (lo <= @apply_weights R ROps m (@lon_weights R ROps P n m tp sp) x i <= hi)%R).
Proof. exact (longitude_rows_R P n m tp gt sp gs i). Qed.

(** ConservativeRegridder._mean conserves the area-weighted integral: real sin,
    strictly increasing latitude centres in [-pi/2, pi/2], strictly increasing
    longitudes with gaps < P/2 reduced mod P; no table or partition hypothesis *)
Theorem C16_horizontal_integral_conserved
        P na nb (tlon slon : nat -> R) (kt ks : nat -> Z) nc nd (tlat slat : nat -> R) (f : nat -> nat -> R) :
  (0 < P)%R -> (0 < na)%nat -> (0 < nb)%nat -> (0 < nc)%nat -> (0 < nd)%nat ->
  (forall j, (j < na)%nat -> (0 < gaps P na tlon j < P / 2)%R) ->
  (forall j, (j < na)%nat -> (0 <= tlon j - IZR (kt j) * P < P)%R) ->
  (forall j, (j < nb)%nat -> (0 < gaps P nb slon j < P / 2)%R) ->
  (forall j, (j < nb)%nat -> (0 <= slon j - IZR (ks j) * P < P)%R) ->
  (forall i, (S i < nc)%nat -> (tlat i < tlat (S i))%R) -> (- (PI / 2) <= tlat 0%nat)%R -> (tlat (nc - 1)%nat <= PI / 2)%R ->
  (forall j, (S j < nd)%nat -> (slat j < slat (S j))%R) -> (- (PI / 2) <= slat 0%nat)%R -> (slat (nd - 1)%nat <= PI / 2)%R ->
  let tp := fun j => @pmod R ROps P (kt j) (tlon j) in
  let sp := fun j => @pmod R ROps P (ks j) (slon j) in
  let st := fun k => sin (@lat_bounds R ROps (PI / 2)%R nc tlat k) in
  let ss := fun k => sin (@lat_bounds R ROps (PI / 2)%R nd slat k) in
  @sumn R ROps na (fun a => @sumn R ROps nc (fun c =>
      (@cell_width R ROps na P tp a * (st (S c) - st c) *
       @mean2 R ROps nb nd (@lon_weights R ROps P na nb tp sp)
              (@lat_weights R ROps (PI / 2)%R nc nd tlat slat st ss) f a c)%R))
  = @sumn R ROps nb (fun b => @sumn R ROps nd (fun d =>
      (@cell_width R ROps nb P sp b * (ss (S d) - ss d) * f b d)%R)).
Proof. exact (horizontal_integral_conserved_real P na nb tlon slon kt ks nc nd tlat slat f). Qed.

(** non-vacuity of [cyclic_points] over R: three points on a circle of length 12 *)
Example C16_cyclic_points_satisfiable :
  cyclic_points 12%R 3 (fun j => nth j [1; 5; 9]%R 0%R) (fun _ => 4%R) /\
  cyclic_points 12%R 3 (fun j => nth j [5; 9; 1]%R 0%R) (fun _ => 4%R).
Proof.
  split; (split; [lia|split; [|split; [|split]]]).
  all: try (intros j Hj; destruct j as [|[|[|j]]]; try lia; unfold nxt; cbn; lra).
  all: cbn; lra.
Qed.

(** The former out-of-domain witness (three source and three target longitudes,
    cells period/3 wide: two widths add up to more than period/2).  With the old
    code (end points aligned independently) the overlaps of source cell 0 added
    up to 3 instead of its width 4; with the current code the partition identity
    holds, so the integral is conserved.  Replayed on the implementation by the
    plugin (runner 'coarse_lon'); a revert of the fix breaks this theorem's
    correspondence. *)
Definition q (z : Z) : Qc := Q2Qc (inject_Z z).
Theorem C16_longitude_coarse_conserves :
  let tp := fun i => q (nth i [1; 5; 9]%Z 0%Z) in
  let sp := fun j => q (nth j [0; 4; 8]%Z 0%Z) in
  lon_partition (q 12) 3 3 tp sp /\
  (forall i, (i < 3)%nat -> row_total 3 (lon_overlap (q 12) 3 3 tp sp) i <> 0).
Proof.
  cbv zeta. split; [split|].
  - intros i Hi. destruct i as [|[|[|i]]]; try lia; apply Qc_is_canon; vm_compute; reflexivity.
  - intros j Hj. destruct j as [|[|[|j]]]; try lia; apply Qc_is_canon; vm_compute; reflexivity.
  - intros i Hi. destruct i as [|[|[|i]]]; try lia; intro H; vm_compute in H; discriminate H.
Qed.

(** Non-vacuity: concrete instances over Qc satisfy the hypotheses. *)
Example C16_hyps_satisfiable :
  (* vertical: 2 target layers over 3 source layers, every layer meets the range *)
  (let tb := fun k => Q2Qc (nth k [0; 1#2; 1]%Q 0%Q) in
   let sb := fun k => Q2Qc (nth k [0; 1#4; 3#4; 1]%Q 0%Q) in
   (forall i, (i < 2)%nat -> fle (tb i) (tb (S i))) /\ (forall j, (j < 3)%nat -> fle (sb j) (sb (S j))) /\
   (forall i, (i < 2)%nat -> flt (fmax (tb i) (sb 0%nat)) (fmin (tb (S i)) (sb 3%nat)))) /\
  (* latitude: centres [-1,1] and [-3/2,0,3/2], "pi/2" = 2, monotone table x -> x^3/8 *)
  (let tx := fun k => Q2Qc (nth k [-1; 1]%Q 0%Q) in
   let sx := fun k => Q2Qc (nth k [-3#2; 0; 3#2]%Q 0%Q) in
   let st := fun k => Q2Qc (nth k [-1; 0; 1]%Q 0%Q) in
   let ss := fun k => Q2Qc (nth k [-1; -27#512; 27#512; 1]%Q 0%Q) in
   sin_mono 2 3 (lat_bounds (q 2) 2 tx) (lat_bounds (q 2) 3 sx) st ss /\
   (forall i, (i < 2)%nat -> flt (st i) (st (S i))) /\ (forall j, (j < 3)%nat -> fle (ss j) (ss (S j))) /\
   st 0%nat = ss 0%nat /\ st 2%nat = ss 3%nat) /\
  (* longitude: 4 target and 6 source cells on a circle of length 12: the
     partition identity holds and no row total vanishes *)
  (let tp := fun i => q (nth i [1; 4; 7; 10]%Z 0%Z) in
   let sp := fun j => q (nth j [0; 2; 4; 6; 8; 10]%Z 0%Z) in
   lon_partition (q 12) 4 6 tp sp /\
   (forall i, (i < 4)%nat -> row_total 6 (lon_overlap (q 12) 4 6 tp sp) i <> 0) /\
   (forall i, (i < 4)%nat -> cell_width 4 (q 12) tp i <> 0)) /\
  (* NaN bookkeeping: weights 1/2,1/2 in both directions *)
  (let w := fun (_ _ : nat) => Q2Qc (1#2) in
   (forall b, (b < 2)%nat -> fle 0 (w 0%nat b)) /\ sumn 2 (w 0%nat) = 1).
Proof.
  cbv zeta. split; [|split; [|split]].
  - split; [|split].
    + intros i Hi. destruct i as [|[|i]]; try lia; vm_compute; reflexivity.
    + intros j Hj. destruct j as [|[|[|j]]]; try lia; vm_compute; reflexivity.
    + intros i Hi. destruct i as [|[|i]]; try lia; vm_compute; reflexivity.
  - split; [|split; [|split; [|split]]].
    + unfold sin_mono. split; [|split; [|split]].
      * intros i j Hi Hj. destruct i as [|[|[|i]]]; try lia; destruct j as [|[|[|[|j]]]]; try lia;
          first [now (intros _; vm_compute)|intros H; vm_compute in H; discriminate H].
      * intros i j Hi Hj. destruct i as [|[|[|i]]]; try lia; destruct j as [|[|[|[|j]]]]; try lia;
          first [now (intros _; vm_compute)|intros H; vm_compute in H; discriminate H].
      * intros i j Hi Hj. destruct i as [|[|[|i]]]; try lia; destruct j as [|[|[|j]]]; try lia;
          first [now (intros _; vm_compute)|intros H; vm_compute in H; discriminate H].
      * intros i j Hi Hj. destruct i as [|[|[|[|i]]]]; try lia; destruct j as [|[|[|[|j]]]]; try lia;
          first [now (intros _; vm_compute)|intros H; vm_compute in H; discriminate H].
    + intros i Hi. destruct i as [|[|i]]; try lia; vm_compute; reflexivity.
    + intros j Hj. destruct j as [|[|[|j]]]; try lia; vm_compute; reflexivity.
    + apply Qc_is_canon; vm_compute; reflexivity.
    + apply Qc_is_canon; vm_compute; reflexivity.
  - split; [|split].
    + unfold lon_partition. split.
      * intros i Hi. destruct i as [|[|[|[|i]]]]; try lia; apply Qc_is_canon; vm_compute; reflexivity.
      * intros j Hj. destruct j as [|[|[|[|[|[|j]]]]]]; try lia; apply Qc_is_canon; vm_compute; reflexivity.
    + intros i Hi. destruct i as [|[|[|[|i]]]]; try lia; intro H; vm_compute in H; discriminate H.
    + intros i Hi. destruct i as [|[|[|[|i]]]]; try lia; intro H; vm_compute in H; discriminate H.
  - split.
    + intros b Hb. vm_compute. reflexivity.
    + apply Qc_is_canon; vm_compute; reflexivity.
Qed.

(** ** Tie to the source by translation (regenerated on every run).
    The scalar kernels the theorems above are about ARE the code of
    dinosaur/horizontal_interpolation.py / vertical_interpolation.py: [*_src]
    are transcribed from the AST by tools/translate/gen_regrid.py
    (_align_phase_with, _periodic_upper/lower_bounds, _periodic_overlap with its
    three periodic images in source order, _interval_overlap, the returned
    expression of _latitude_overlap). *)
Theorem C16_model_is_source {F : Type} {o : Ops F} {Fc : FieldC o}
    (x target period x0 x1 y0 y1 : F) (n : nat) (xs sb tb st ss : nat -> F) (i j : nat) :
  align_phase x target period = align_phase_src x target period /\
  per_upper n period xs i = per_upper_src (xs i) (roll_m1 n xs i) period /\
  per_lower n period xs i = per_lower_src (xs i) (roll_p1 n xs i) period /\
  per_overlap period x0 x1 y0 y1 = per_overlap_src period x0 x1 y0 y1 /\
  interval_overlap sb tb i j = interval_overlap_src (tb i) (tb (S i)) (sb j) (sb (S j)) /\
  lat_overlap tb sb st ss i j =
    lat_overlap_src (if fleb (tb i) (sb j) then sb j else tb i)
                    (if fleb (tb (S i)) (sb (S j)) then tb (S i) else sb (S j))
                    (if fleb (tb i) (sb j) then ss j else st i)
                    (if fleb (tb (S i)) (sb (S j)) then st (S i) else ss (S j)).
Proof.
  split; [apply align_phase_matches_source|].
  split; [apply (per_bounds_match_source n period xs i)|].
  split; [apply (per_bounds_match_source n period xs i)|].
  split; [apply per_overlap_matches_source|].
  split; [apply interval_overlap_matches_source|].
  apply lat_overlap_matches_source.
Qed.

Theorem C16_gen_regrid_complete : gen_regrid_ok = true.
Proof. exact gen_regrid_complete. Qed.

Print Assumptions C16_partition_overlap.
Print Assumptions C16_weights_nonneg.
Print Assumptions C16_rows_sum_to_one.
Print Assumptions C16_constants_reproduced.
Print Assumptions C16_range_preserved.
Print Assumptions C16_vertical_rows.
Print Assumptions C16_vertical_integral_conserved.
Print Assumptions C16_hybrid_integral_conserved.
Print Assumptions C16_latitude_overlap_is_sin_overlap.
Print Assumptions C16_latitude_rows.
Print Assumptions C16_latitude_integral_conserved.
Print Assumptions C16_latitude_integral_conserved_R.
Print Assumptions C16_longitude_rows_given_total.
Print Assumptions C16_horizontal_integral_conserved_given_partition.
Print Assumptions C16_nan_semantics_strict.
Print Assumptions C16_nan_semantics_skipna.
Print Assumptions C16_periodic_overlap_images.
Print Assumptions C16_periodic_overlap_full_circle_R.
Print Assumptions C16_longitude_partition.
Print Assumptions C16_longitude_points_cyclic.
Print Assumptions C16_longitude_rows.
Print Assumptions C16_horizontal_integral_conserved.
Print Assumptions C16_cyclic_points_satisfiable.
Print Assumptions C16_longitude_coarse_conserves.
Print Assumptions C16_hyps_satisfiable.
Print Assumptions C16_model_is_source.
Print Assumptions C16_gen_regrid_complete.
