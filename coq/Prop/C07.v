(** Property C07 - sharded (model-parallel) execution equals single-device
    execution.  Statements only; proofs are in Thm/Sharding.v.  Every theorem
    is for an arbitrary field [F] (hence the reals), an arbitrary ring size
    [n] (1 or ANY even number, not only <= 8 devices), arbitrary chunk sizes
    and arbitrary data.

    Not modelled (exercised by the correspondence on <= 8 devices): that XLA's
    collectives implement rotation / concatenation as in Model/Sharding.v and
    that [shard_map] partitions as the specs say. *)
From Dino Require Import Base.Ops Base.Sums Base.Inst Model.Sigma Model.Sharding Thm.Sharding Gen.ShardingSrc Thm.ShardingSrc.
From Coq Require Import Qcanon.
Local Open Scope F_scope.

Section C07.
  Context {F : Type} {o : Ops F} {Fc : FieldC o}.

  (** [_allgather_matmul_twoway]: every device d obtains, for each of its rows a,
      the full contraction over the reduced axis of length n*c with the
      concatenation of all shards (both argument orders). *)
  Theorem C07_allgather_twoway_correct n c rev (lhs : nat -> nat -> nat -> F) (rhs : nat -> nat -> F) :
    (n = 1 \/ (0 < n /\ n mod 2 = 0))%nat ->
    exists out, allgather_matmul_twoway n c rev lhs rhs = Some out /\
      forall d a, (d < n)%nat ->
        out d a = sumn (n * c) (fun j => lhs d a j * all_gather_tiled c rhs j).
  Proof. exact (allgather_twoway_correct n c rev lhs rhs). Qed.

  (** [_matmul_reducescatter_twoway]: device d ends with rows [d*c, (d+1)*c) of
      the full product, summed over the reduced-axis blocks of ALL devices. *)
  Theorem C07_reducescatter_twoway_correct n c cj rev (lhs : nat -> nat -> nat -> F) (rhs : nat -> nat -> F) :
    (n = 1 \/ (0 < n /\ n mod 2 = 0))%nat ->
    exists out, matmul_reducescatter_twoway n c cj rev lhs rhs = Some out /\
      forall d a, (d < n)%nat ->
        out d a = sumn (n * cj) (fun g => all_gather_tiled cj (fun e j => lhs e (d * c + a)%nat j) g
                                          * all_gather_tiled cj rhs g).
  Proof. exact (reducescatter_twoway_correct n c cj rev lhs rhs). Qed.

  (** odd mesh sizes > 1 are rejected ('axis_size must be 1 or even') *)
  Theorem C07_odd_mesh_rejected n c cj rev (lhs : nat -> nat -> nat -> F) (rhs : nat -> nat -> F) :
    (1 < n)%nat -> (n mod 2 = 1)%nat ->
    allgather_matmul_twoway n c rev lhs rhs = None /\
    matmul_reducescatter_twoway n c cj rev lhs rhs = None.
  Proof.
    intros H1 H2. split; [exact (allgather_odd_rejected n c rev lhs rhs H1 H2)
                         |exact (reducescatter_odd_rejected n c cj rev lhs rhs H1 H2)].
  Qed.

  (** [_parallel_dot_cumsum] (forward and reverse), per device, against the
      masked-matmul cumsum of the concatenated data ... *)
  Theorem C07_parallel_cumsum_per_device n c (x : nat -> nat -> F) d j :
    (d < n)%nat -> (j < c)%nat ->
    parallel_dot_cumsum n c false x d j = cumsum_dot (n * c) (all_gather_tiled c x) (d * c + j) /\
    parallel_dot_cumsum n c true x d j = revcumsum_dot (n * c) (all_gather_tiled c x) (d * c + j).
  Proof.
    intros Hd Hj. split; [exact (parallel_cumsum_fwd n c x d j Hd Hj)|exact (parallel_cumsum_rev n c x d j Hd Hj)].
  Qed.

  (** ... and [_dot_cumsum] as a whole: sharded = unsharded = sequential prefix
      (suffix) sum, for every number of devices n >= 1 and shard length c. *)
  Theorem C07_parallel_cumsum_correct n c (X : nat -> F) g :
    (0 < c)%nat -> (g < n * c)%nat ->
    (forall rv, dot_cumsum true rv n c X g = dot_cumsum false rv n c X g) /\
    dot_cumsum true false n c X g = cumsum_seq X g /\
    dot_cumsum true true n c X g = revcumsum_seq (n * c) X g.
  Proof. exact (parallel_cumsum_correct n c X g). Qed.

  (** [_unstack_m]/[_stack_m] under shard_map = global reshape when the shard
      length is even; stack inverts unstack *)
  Theorem C07_stack_unstack_sharded Z nx Kh (X : nat -> nat -> nat -> F) (Y : nat -> nat -> nat -> nat -> F) :
    (0 < Kh)%nat ->
    (forall z s kg l, (z < Z)%nat -> (s < 2)%nat -> (kg < nx * Kh)%nat ->
       unstack_m_sharded Z (2 * Kh) X z s kg l = unstack_m Z (nx * (2 * Kh)) X z s kg l) /\
    (forall z mg l, (z < Z)%nat -> (mg < nx * (2 * Kh))%nat ->
       stack_m_sharded Z Kh Y z mg l = stack_m Z (nx * Kh) Y z mg l) /\
    (forall z m l, (z < Z)%nat -> (m < 2 * Kh)%nat ->
       stack_m Z Kh (unstack_m Z (2 * Kh) X) z m l = X z m l).
  Proof.
    intros HK. repeat split.
    - intros z s kg l. exact (unstack_sharded_eq_global Z nx Kh X z s kg l).
    - intros z mg l Hz. exact (stack_sharded_eq_global Z nx Kh Y z mg l Hz HK).
    - intros z m l. exact (stack_unstack_id Z Kh X z m l).
  Qed.

  (** frequency-offset longitude derivative: per-shard = global *)
  Theorem C07_sharded_dlon_correct nx Kh (X : nat -> F) g :
    (0 < Kh)%nat -> (g < nx * (2 * Kh))%nat ->
    dlon_sharded (2 * Kh) X g = dlon_global (nx * (2 * Kh)) X g.
  Proof. exact (sharded_dlon_eq_global nx Kh X g). Qed.
End C07.

(** the divisibility [modal_shape] / [nodal_shape] guarantee, for every base
    multiple, every number of shards and every resolution: the padded modal
    x-extent splits into [xs] shards of even length and the padding is minimal *)
Theorem C07_modal_shape_divisible lw base xs :
  (0 < base)%nat -> (0 < xs)%nat ->
  let M := modal_shape_x lw base xs in
  (exists q, M = (xs * (2 * q))%nat /\ (M / xs = 2 * q)%nat) /\
  (2 * lw <= M)%nat /\ (M < 2 * lw + 2 * base * xs)%nat.
Proof. exact (modal_shape_x_divisible lw base xs). Qed.

Theorem C07_shapes_divisible n base s :
  (0 < base)%nat -> (0 < s)%nat ->
  let N := round_to_multiple n (base * s) in
  (exists q, N = (s * q)%nat) /\ (n <= N)%nat /\ (N < n + base * s)%nat.
Proof. exact (shapes_divisible n base s). Qed.

(** crop o pad = id, the padded level count is a multiple of the z-mesh size,
    and the wrapper commutes with every level-wise map (levels are any payload) *)
Theorem C07_vertical_pad_crop {T : Type} (zero : T) K zs (phi : nat -> T -> T)
        (f : nat -> (nat -> T) -> nat -> T) (x : nat -> T) :
  (0 < zs)%nat ->
  (forall Kp y k, f Kp y k = phi k (y k)) ->
  let r := with_vertical_padding zero K zs f x in
  fst r = K /\ (exists q, (K + vertical_padding K zs = zs * q)%nat) /\
  (vertical_padding K zs < zs)%nat /\
  forall k, (k < K)%nat -> snd r k = phi k (x k).
Proof. exact (vertical_pad_crop_levelwise zero K zs phi f x). Qed.

(** the reduce / transfer subscripts picked by [sharded_einsum] are the unique
    subscripts with the required roles *)
Theorem C07_einsum_subscripts_sound lhs rhs out rspec ospec s t :
  determine_reduce_subscript lhs rhs out rspec = Some s ->
  determine_transfer_subscript lhs rhs out ospec = Some t ->
  (In s lhs /\ sub_in s out = false /\ sub_in s rhs = true /\ is_some (spec_at rspec (sub_index s rhs)) = true) /\
  (In t lhs /\ sub_in t rhs = false /\ sub_in t out = true /\ is_some (spec_at ospec (sub_index t out)) = true) /\
  s <> t.
Proof.
  intros Hs Ht.
  destruct (reduce_subscript_sound _ _ _ _ _ Hs) as (A1 & A2 & A3 & A4 & _).
  destruct (transfer_subscript_sound _ _ _ _ _ Ht) as (B1 & B2 & B3 & B4 & _).
  repeat split; auto. intros ->. congruence.
Qed.

(** The model is the source: the index expressions, operand offsets, ring
    permutations, loop bounds, guards, comparison operators and index ranges that
    tools/translate/gen_sharding.py regenerates from dinosaur/jax_numpy_utils.py
    on every run (Gen/ShardingSrc.v) coincide with those of Model/Sharding.v for
    every axis size (so a source change that only shows on more than 8 devices
    still breaks this theorem). *)
Theorem C07_allgather_matches_source :
  src_complete = true /\
  (forall n, Nat.eqb n 1 = src_ag_trivial (Z.of_nat n) /\ Nat.eqb (n mod 2) 1 = src_ag_reject (Z.of_nat n)) /\
  (forall n d i, ag_chunk_index n d i = Z.to_nat (src_ag_chunk_index (Z.of_nat n) (Z.of_nat d) i)) /\
  (forall q c j : nat, Z.of_nat (q * c + j) = (src_ag_slice_start (Z.of_nat q) (Z.of_nat c) + Z.of_nat j)%Z) /\
  (forall i : Z, src_ag_fwd_arg i = (- i)%Z /\ src_ag_bwd_arg i = (i + 1)%Z) /\
  (forall n j, perm_fwd n j = Z.to_nat (src_ag_perm_fwd (Z.of_nat n) (Z.of_nat j)) /\
               perm_bwd n j = Z.to_nat (src_ag_perm_bwd (Z.of_nat n) (Z.of_nat j))) /\
  src_ag_init_arg = 0%Z /\
  (forall n, Z.of_nat 1 = src_ag_loop_lo (Z.of_nat n) /\ Z.of_nat (n / 2) = src_ag_loop_hi (Z.of_nat n)).
Proof. exact allgather_matches_source. Qed.

Theorem C07_reducescatter_matches_source :
  src_complete = true /\
  (forall n, Nat.eqb n 1 = src_rs_trivial (Z.of_nat n) /\ Nat.eqb (n mod 2) 1 = src_rs_reject (Z.of_nat n)) /\
  (forall n d i, rs_chunk_index n d i = Z.to_nat (src_rs_chunk_index (Z.of_nat n) (Z.of_nat d) i)) /\
  (forall q c j : nat, Z.of_nat (q * c + j) = (src_rs_slice_start (Z.of_nat q) (Z.of_nat c) + Z.of_nat j)%Z) /\
  (forall i : Z, src_rs_fwd_arg i = (- i)%Z /\ src_rs_bwd_arg i = (i + 1)%Z) /\
  (forall n j, perm_fwd n j = Z.to_nat (src_rs_perm_fwd (Z.of_nat n) (Z.of_nat j)) /\
               perm_bwd n j = Z.to_nat (src_rs_perm_bwd (Z.of_nat n) (Z.of_nat j))) /\
  (src_rs_init_fwd_arg = 0%Z /\ src_rs_init_bwd_arg = 1%Z) /\
  (forall n, Z.of_nat 1 = src_rs_loop_lo (Z.of_nat n) /\ Z.of_nat (n / 2) = src_rs_loop_hi (Z.of_nat n)).
Proof. exact reducescatter_matches_source. Qed.

Theorem C07_cumsum_matches_source :
  src_complete = true /\
  (forall rv i d, pc_op rv i d = src_pc_op rv (Z.of_nat i) (Z.of_nat d)) /\
  (forall rv n k, (0 < n)%nat ->
     Z.of_nat (pc_index rv k) = (src_pc_range_lo rv (Z.of_nat n) + Z.of_nat k)%Z /\
     Z.of_nat (n - 1) = (src_pc_range_hi rv (Z.of_nat n) - src_pc_range_lo rv (Z.of_nat n))%Z) /\
  (forall rv, src_pc_last_index rv = if rv then 0%Z else (-1)%Z).
Proof. exact cumsum_matches_source. Qed.

(** Non-vacuity: a concrete 4-device ring over Qc with chunk size 2 (so the
    fori_loop really iterates), non-constant data: the model produces, on
    device 3, the full inner product; and the padded-shape example of the
    recently fixed defect (L = 9, base multiple 4). *)
Example C07_hyps_satisfiable :
  let lhs := fun (d a j : nat) => Q2Qc (inject_Z (Z.of_nat (1 + d + 2 * a + j * j))) in
  let rhs := fun (d j : nat) => Q2Qc (inject_Z (Z.of_nat (3 * d + j + 1))) in
  (exists out, allgather_matmul_twoway 4 2 false lhs rhs = Some out /\
               out 3%nat 1%nat = sumn 8 (fun j => lhs 3%nat 1%nat j * all_gather_tiled 2 rhs j) /\
               out 3%nat 1%nat = Q2Qc (inject_Z 1562)) /\
  (exists out, matmul_reducescatter_twoway 4 1 2 true (fun d a j => lhs d a j) rhs = Some out /\
               out 2%nat 0%nat = Q2Qc (inject_Z 368)) /\
  parallel_dot_cumsum 4 2 true rhs 1 1 = Q2Qc (inject_Z 41) /\
  modal_shape_x 9 4 2 = 32%nat /\ modal_shape_y 9 4 1 = 12%nat /\
  vertical_padding 7 4 = 1%nat.
Proof.
  cbv zeta. repeat split.
  - eexists. split; [reflexivity|]. split; vm_compute; reflexivity.
  - eexists. split; [reflexivity|]. vm_compute. reflexivity.
Qed.

Print Assumptions C07_allgather_twoway_correct.
Print Assumptions C07_reducescatter_twoway_correct.
Print Assumptions C07_odd_mesh_rejected.
Print Assumptions C07_parallel_cumsum_per_device.
Print Assumptions C07_parallel_cumsum_correct.
Print Assumptions C07_stack_unstack_sharded.
Print Assumptions C07_sharded_dlon_correct.
Print Assumptions C07_modal_shape_divisible.
Print Assumptions C07_shapes_divisible.
Print Assumptions C07_vertical_pad_crop.
Print Assumptions C07_einsum_subscripts_sound.
Print Assumptions C07_allgather_matches_source.
Print Assumptions C07_reducescatter_matches_source.
Print Assumptions C07_cumsum_matches_source.
Print Assumptions C07_hyps_satisfiable.
