(** Property C15 - spectral filters are mean-preserving, non-amplifying and
    step-size consistent.  Statements only; proofs are in Thm/Filters.v.

    The filters multiply by [exp(e)], where the exponent [e] is a rational
    function of the total wavenumber.  Clauses are stated (a) on the exponents,
    for every ordered field, every L, every wavenumber table [lw] (padded or
    not), and (b) for every function [fexp] with the four properties of the
    exponential, instantiated (c) at Coq's [R] with [exp].
    Float caveat: in float64 [exp e] underflows to 0.0 for e < -745; the
    plugin's oracle demands a strictly positive factor only when e > -700. *)
From Dino Require Import Base.Ops Base.Sums Base.Inst Base.Ord Model.Filters Thm.Filters Gen.FiltersSrc Thm.FiltersSrc.
From Coq Require Import Reals Qcanon Lra.
Local Open Scope F_scope.

Section C15.
  Context {F : Type} {o : Ops F} {Oc : OrdFieldC o}.

  (** exponents are <= 0 (factor <= 1): exponential filter, horizontal
      diffusion filter and the two step filters (strength dt/tau resp.
      dt/(tau*max|eig|^order)) *)
  Theorem C15_scaling_in_unit_interval (a c scale r dt tau : F) p order L (lw : nat -> nat) l :
    (0 < L)%nat -> (0 < maxn L lw)%nat -> (1 <= p)%nat -> (1 <= order)%nat ->
    fle 0 a -> fle 0 c -> flt c 1 -> fle 0 scale -> r <> 0 -> flt 0 dt -> flt 0 tau ->
    fle (exp_exponent a c p (maxn L lw) l) 0 /\
    fle (hd_exponent scale r order l) 0 /\
    fle (exp_exponent (dt / tau) c p (maxn L lw) l) 0 /\
    fle (hd_exponent (hd_step_scale_s L lw dt tau r order) r order l) 0.
  Proof.
    intros HL Hm Hp Ho Ha Hc0 Hc1 Hs Hr Hdt Htau. repeat split.
    - now apply exp_exponent_nonpos.
    - now apply hd_exponent_nonpos.
    - apply exp_exponent_nonpos. apply fdiv_pos; [now apply flt_le|assumption].
    - apply hd_exponent_nonpos; [|assumption]. apply hd_step_scale_nonneg; auto using flt_le.
  Qed.

  (** the global mean (l = 0, also every padded column) has exponent 0 *)
  Theorem C15_mean_untouched (a c scale r : F) p order lmax :
    fle 0 c -> (1 <= order)%nat ->
    exp_exponent a c p lmax 0 = 0 /\ hd_exponent scale r order 0 = 0.
  Proof. intros Hc Ho. split; [now apply exp_exponent_mean|now apply hd_exponent_mean]. Qed.

  Theorem C15_non_increasing (a c scale r : F) p order lmax l l' :
    (l <= l')%nat -> (0 < lmax)%nat -> fle 0 a -> fle 0 c -> flt c 1 -> fle 0 scale -> r <> 0 ->
    fle (exp_exponent a c p lmax l') (exp_exponent a c p lmax l) /\
    fle (hd_exponent scale r order l') (hd_exponent scale r order l).
  Proof.
    intros Hl Hm Ha Hc0 Hc1 Hs Hr. split; [now apply exp_exponent_mono|now apply hd_exponent_mono].
  Qed.

  (** exponent(dt) = 2 exponent(dt/2) for both step filters *)
  Theorem C15_semigroup (dt tau c r : F) p order L (lw : nat -> nat) l :
    (0 < L)%nat -> (0 < maxn L lw)%nat -> r <> 0 -> tau <> 0 ->
    exp_exponent (dt / tau) c p (maxn L lw) l
    = ftwo * exp_exponent ((dt / ftwo) / tau) c p (maxn L lw) l /\
    hd_exponent (hd_step_scale_s L lw dt tau r order) r order l
    = ftwo * hd_exponent (hd_step_scale_s L lw (dt / ftwo) tau r order) r order l.
  Proof.
    intros HL Hm Hr Ht. split; [now apply exp_step_semigroup|now apply hd_step_semigroup].
  Qed.

  (** the normalisation of the diffusion step filter: the largest total
      wavenumber present decays exactly like exp(-dt/tau) *)
  Theorem C15_hd_step_top_mode (dt tau r : F) order L (lw : nat -> nat) :
    (0 < L)%nat -> (0 < maxn L lw)%nat -> r <> 0 -> tau <> 0 ->
    hd_exponent (hd_step_scale_s L lw dt tau r order) r order (maxn L lw) = - (dt / tau).
  Proof. exact (hd_step_top_mode L lw dt tau r order). Qed.

  (** coefficient (.., m, j) of a spectral leaf (.., L) is multiplied by
      fexp(e(l_j)): the factor depends on the total wavenumber only *)
  Theorem C15_depends_on_l_only (fexp : F -> F) L (lw : nat -> nat) (a c s r : F) p order (x : arr) pre :
    fst x = pre ++ [L] ->
    (exists y, exponential_filter fexp L lw (scalar_arr a) c p [x] = Some [y] /\ fst y = fst x /\
       forall ipre j, (j < L)%nat ->
         snd y (ipre ++ [j]) = fexp (exp_exponent a c p (maxn L lw) (lw j)) * snd x (ipre ++ [j])) /\
    (exists y, horizontal_diffusion_filter fexp L lw (scalar_arr s) r order [x] = Some [y] /\ fst y = fst x /\
       forall ipre j, (j < L)%nat ->
         snd y (ipre ++ [j]) = fexp (hd_exponent s r order (lw j)) * snd x (ipre ++ [j])).
  Proof.
    intros Hx. split; [eapply exponential_filter_leaf; eassumption|eapply horizontal_diffusion_filter_leaf; eassumption].
  Qed.

  (** which leaves are rescaled - both directions, any scaling shape: exactly
      those whose trailing dimensions are matched by the scaling's dimensions
      (equal, or 1 in the scaling); every other leaf - including shapes that
      cannot be broadcast at all - is returned as is *)
  Theorem C15_nonspectral_leaves_untouched (sc x : @arr F) :
    ((exists pre suf, fst x = pre ++ suf /\
                      Forall2 (fun dt ds => ds = dt \/ ds = 1%nat) suf (fst sc)) /\
     rescale sc x = (fst x, fun idx => snd sc (bidx (fst sc) idx) * snd x idx))
    \/
    (~ (exists pre suf, fst x = pre ++ suf /\
                        Forall2 (fun dt ds => ds = dt \/ ds = 1%nat) suf (fst sc)) /\
     rescale sc x = x).
  Proof.
    destruct (rescale_spec sc x) as [[H1 H2]|[H1 H2]]; [left|right]; split; auto.
    - now apply preserves_shape_spec.
    - intro H. apply preserves_shape_spec in H. congruence.
  Qed.

  (** scalar strengths (scaling of shape (L,)), L > 1: scalars, 1-element
      clocks and leaves whose last axis is not L come back unchanged *)
  Theorem C15_clocks_untouched (fexp : F -> F) L (lw : nat -> nat) (a c s r : F) p order (x : arr) :
    (1 < L)%nat ->
    (fst x = [] \/ fst x = [1%nat] \/ exists pre d, fst x = pre ++ [d] /\ d <> L) ->
    exponential_filter fexp L lw (scalar_arr a) c p [x] = Some [x] /\
    horizontal_diffusion_filter fexp L lw (scalar_arr s) r order [x] = Some [x].
  Proof.
    intros HL Hx. split;
      [apply exponential_filter_nonspectral|apply horizontal_diffusion_filter_nonspectral]; auto; lia.
  Qed.

  (** broadcast lemma: common leading axis, equal ranks *)
  Theorem C15_rescale_slicewise (T : nat) (ss ls : list nat) (s x : list nat -> F) i idx :
    length ss = length ls -> length idx = length ls -> (i < T)%nat ->
    snd (rescale (T :: ss, s) (T :: ls, x)) (i :: idx)
    = snd (rescale (slice i (T :: ss, s)) (slice i (T :: ls, x))) idx.
  Proof. exact (rescale_slice T ss ls s x i idx). Qed.

  (** strengths of shape (T,1,1,1) on leaves (T,K,M,L): slice i is filtered
      with the scalar strength number i *)
  Theorem C15_array_strength_slicewise (fexp : F -> F) T K M L (lw : nat -> nat) (av : list nat -> F)
          (c r : F) p order (x : list nat -> F) i k m j eA eS hA hS :
    (i < T)%nat -> (j < L)%nat ->
    exp_filter_exponent L lw ([T; 1; 1; 1]%nat, av) c p = Some eA ->
    exp_filter_exponent L lw (scalar_arr (av [i; 0; 0; 0]%nat)) c p = Some eS ->
    hd_filter_exponent L lw ([T; 1; 1; 1]%nat, av) r order = Some hA ->
    hd_filter_exponent L lw (scalar_arr (av [i; 0; 0; 0]%nat)) r order = Some hS ->
    (fst eA = [T; 1; 1; L]%nat /\
     snd (rescale (map_arr fexp eA) ([T; K; M; L], x)) [i; k; m; j]
     = snd (rescale (map_arr fexp eS) (slice i ([T; K; M; L], x))) [k; m; j]) /\
    (fst hA = [T; 1; 1; L]%nat /\
     snd (rescale (map_arr fexp hA) ([T; K; M; L], x)) [i; k; m; j]
     = snd (rescale (map_arr fexp hS) (slice i ([T; K; M; L], x))) [k; m; j]).
  Proof.
    intros Hi Hj E1 E2 E3 E4. split.
    - now apply (exp_filter_slicewise fexp T K M L lw av c p).
    - now apply (hd_filter_slicewise fexp T K M L lw av r order).
  Qed.

  (** for every function with the properties of exp: factors in (0,1], two
      half steps = one full step on every leaf *)
  Section WithExp.
    Variable fexp : F -> F.
    Hypothesis H_exp_0 : fexp 0 = 1.
    Hypothesis H_exp_add : forall x y, fexp (x + y) = fexp x * fexp y.
    Hypothesis H_exp_pos : forall x, flt 0 (fexp x).
    Hypothesis H_exp_mono : forall x y, fle x y -> fle (fexp x) (fexp y).

    Theorem C15_factor_in_unit_interval (e : F) : fle e 0 -> flt 0 (fexp e) /\ fle (fexp e) 1.
    Proof. exact (scaling_unit fexp H_exp_0 H_exp_pos H_exp_mono e). Qed.

    Theorem C15_half_steps_compose L (lw : nat -> nat) (dt tau c r : F) p order (x : arr) idx eh ef hh hf :
      (0 < L)%nat -> (0 < maxn L lw)%nat -> r <> 0 -> tau <> 0 ->
      exp_filter_exponent L lw (exp_step_att (dt / ftwo) (scalar_arr tau)) c p = Some eh ->
      exp_filter_exponent L lw (exp_step_att dt (scalar_arr tau)) c p = Some ef ->
      hd_filter_exponent L lw (hd_step_scale L lw (dt / ftwo) (scalar_arr tau) r order) r order = Some hh ->
      hd_filter_exponent L lw (hd_step_scale L lw dt (scalar_arr tau) r order) r order = Some hf ->
      (fst (rescale (map_arr fexp eh) (rescale (map_arr fexp eh) x)) = fst (rescale (map_arr fexp ef) x) /\
       snd (rescale (map_arr fexp eh) (rescale (map_arr fexp eh) x)) idx = snd (rescale (map_arr fexp ef) x) idx) /\
      (fst (rescale (map_arr fexp hh) (rescale (map_arr fexp hh) x)) = fst (rescale (map_arr fexp hf) x) /\
       snd (rescale (map_arr fexp hh) (rescale (map_arr fexp hh) x)) idx = snd (rescale (map_arr fexp hf) x) idx).
    Proof.
      intros HL Hm Hr Ht E1 E2 E3 E4. split.
      - now apply (exponential_step_twice fexp H_exp_add L lw dt tau c p).
      - now apply (horizontal_diffusion_step_twice fexp H_exp_add L lw dt tau r order).
    Qed.
  End WithExp.

  (** Robert-Asselin: (filtered current, future); the newest level is
      returned as is, shapes are kept, and where previous + future = 2 current
      (linear in time) the current value is kept *)
  Theorem C15_robert_asselin (r : F) (prev cur u0 fut res1 res2 : tree) (d : arr) :
    robert_asselin_leapfrog_filter r (prev, cur) (u0, fut) = Some (res1, res2) ->
    res2 = fut /\ length res1 = length cur /\
    forall n, (n < length cur)%nat ->
      fst (nth n res1 d) = fst (nth n cur d) /\
      forall idx,
        snd (nth n res1 d) idx
        = (1 - ftwo * r) * snd (nth n cur d) idx + r * (snd (nth n prev d) idx + snd (nth n fut d) idx) /\
        (snd (nth n prev d) idx + snd (nth n fut d) idx = ftwo * snd (nth n cur d) idx ->
         snd (nth n res1 d) idx = snd (nth n cur d) idx).
  Proof. exact (robert_asselin_spec r prev cur u0 fut res1 res2 d). Qed.

  Theorem C15_robert_asselin_defined (r : F) (prev cur u0 fut : @tree F) :
    length prev = length cur -> length fut = length cur ->
    exists res, robert_asselin_leapfrog_filter r (prev, cur) (u0, fut) = Some (res, fut).
  Proof. exact (robert_asselin_defined r prev cur u0 fut). Qed.

  (** adapters: the Runge-Kutta adapter filters u_next and ignores u; the
      leapfrog adapter filters only the newest of the two time levels *)
  Theorem C15_step_filter_adapters (f : @tree F -> option (@tree F)) (u u_next : tree) (v v_next : tree * tree) :
    runge_kutta_step_filter f u u_next = f u_next /\
    leapfrog_step_filter f v v_next
    = match f (snd v_next) with Some y => Some (fst v_next, y) | None => None end.
  Proof. split; reflexivity. Qed.
End C15.

(** ** Over the reals, with [exp] *)
Local Open Scope R_scope.

Lemma exp_le_mono (x y : R) : x <= y -> exp x <= exp y.
Proof. intros [H|H]; [left; now apply exp_increasing|right; now rewrite H]. Qed.

Theorem C15_scaling_in_unit_interval_R (a c scale r dt tau : R) p order L (lw : nat -> nat) l :
  (0 < L)%nat -> (0 < maxn L lw)%nat -> (1 <= p)%nat -> (1 <= order)%nat ->
  0 <= a -> 0 <= c < 1 -> 0 <= scale -> r <> 0 -> 0 < dt -> 0 < tau ->
  0 < exp (exp_exponent a c p (maxn L lw) l) <= 1 /\
  0 < exp (hd_exponent scale r order l) <= 1 /\
  0 < exp (exp_exponent (dt / tau) c p (maxn L lw) l) <= 1 /\
  0 < exp (hd_exponent (hd_step_scale_s L lw dt tau r order) r order l) <= 1.
Proof.
  intros HL Hm Hp Ho Ha [Hc0 Hc1] Hs Hr Hdt Htau.
  destruct (@C15_scaling_in_unit_interval R ROps ROrd a c scale r dt tau p order L lw l) as (H1 & H2 & H3 & H4);
    try assumption; try (apply fle_R; assumption); try (apply flt_R; assumption).
  apply fle_R in H1, H2, H3, H4.
  assert (A : forall e : R, e <= 0 -> 0 < exp e <= 1).
  { intros e He. split; [apply exp_pos|]. rewrite <- exp_0. now apply exp_le_mono. }
  repeat split; apply A; assumption.
Qed.

Theorem C15_mean_untouched_R (a c scale r : R) p order lmax :
  0 <= c -> (1 <= order)%nat ->
  exp (exp_exponent a c p lmax 0) = 1 /\ exp (hd_exponent scale r order 0) = 1.
Proof.
  intros Hc Ho.
  destruct (@C15_mean_untouched R ROps ROrd a c scale r p order lmax) as [H1 H2];
    [apply fle_R; assumption|assumption|].
  rewrite H1, H2. split; apply exp_0.
Qed.

Theorem C15_non_increasing_R (a c scale r : R) p order lmax l l' :
  (l <= l')%nat -> (0 < lmax)%nat -> 0 <= a -> 0 <= c < 1 -> 0 <= scale -> r <> 0 ->
  exp (exp_exponent a c p lmax l') <= exp (exp_exponent a c p lmax l) /\
  exp (hd_exponent scale r order l') <= exp (hd_exponent scale r order l).
Proof.
  intros Hl Hm Ha [Hc0 Hc1] Hs Hr.
  destruct (@C15_non_increasing R ROps ROrd a c scale r p order lmax l l') as [H1 H2];
    try assumption; try (apply fle_R; assumption); try (apply flt_R; assumption).
  apply fle_R in H1, H2. split; now apply exp_le_mono.
Qed.

(** two applications with half the step = one with the full step *)
Theorem C15_semigroup_R (dt tau c r : R) p order L (lw : nat -> nat) l :
  (0 < L)%nat -> (0 < maxn L lw)%nat -> r <> 0 -> tau <> 0 ->
  exp (exp_exponent ((dt / 2) / tau) c p (maxn L lw) l) * exp (exp_exponent ((dt / 2) / tau) c p (maxn L lw) l)
  = exp (exp_exponent (dt / tau) c p (maxn L lw) l) /\
  exp (hd_exponent (hd_step_scale_s L lw (dt / 2) tau r order) r order l)
  * exp (hd_exponent (hd_step_scale_s L lw (dt / 2) tau r order) r order l)
  = exp (hd_exponent (hd_step_scale_s L lw dt tau r order) r order l).
Proof.
  intros HL Hm Hr Ht.
  destruct (@C15_semigroup R ROps ROrd dt tau c r p order L lw l HL Hm Hr Ht) as [H1 H2].
  change (@ftwo R ROps) with (1 + 1) in H1, H2. change (@fdiv R ROps) with Rdiv in H1, H2.
  change (@fmul R ROps) with Rmult in H1, H2. replace (1 + 1) with 2 in H1, H2 by lra.
  rewrite H1, H2, <- !exp_plus. split; f_equal; lra.
Qed.

(** the real exponential satisfies the four hypotheses of [WithExp] *)
Theorem C15_exp_hypotheses_R :
  exp 0 = 1 /\ (forall x y, exp (x + y) = exp x * exp y) /\
  (forall x, @flt R ROps 0 (exp x)) /\ (forall x y, @fle R ROps x y -> @fle R ROps (exp x) (exp y)).
Proof.
  split; [apply exp_0|]. split; [apply exp_plus|]. split.
  - intros x. apply flt_R. apply exp_pos.
  - intros x y H. apply fle_R. apply fle_R in H. now apply exp_le_mono.
Qed.

Local Close Scope R_scope.

(** Non-vacuity over Qc: the hypotheses hold on a concrete instance (L = 5 with
    one padded column, attenuation 16, order 2, cutoff 1/4, radius 2) and the
    model computes the expected numbers. *)
Example C15_hyps_satisfiable :
  let lw := fun j : nat => nth j [0; 1; 2; 3; 0]%nat 0%nat in
  let q := fun z : Z => Q2Qc (inject_Z z) in
  maxn 5 lw = 3%nat /\
  @fle Qc QcOps 0 (q 16%Z) /\ @fle Qc QcOps 0 (Q2Qc (1#4)) /\ @flt Qc QcOps (Q2Qc (1#4)) 1 /\ q 2%Z <> 0 /\
  @exp_exponent Qc QcOps (q 16%Z) (Q2Qc (1#4)) 1 3 3 = Q2Qc (-16) /\
  @exp_exponent Qc QcOps (q 16%Z) (Q2Qc (1#4)) 1 3 0 = 0 /\
  @hd_exponent Qc QcOps (q 1%Z) (q 2%Z) 2 3 = Q2Qc (-9) /\
  @max_abs_eig Qc QcOps 5 lw (q 2%Z) = Q2Qc 3 /\
  preserves_shape [2; 7; 5]%nat [5]%nat = true /\ preserves_shape [3]%nat [5]%nat = false /\
  preserves_shape [1]%nat [5]%nat = false /\ preserves_shape []%nat [5]%nat = false /\
  preserves_shape [2; 3; 7; 5]%nat [2; 1; 1; 5]%nat = true /\
  broadcast_shapes [3]%nat [5]%nat = None /\ broadcast_shapes [2; 1; 1; 1]%nat [5]%nat = Some [2; 1; 1; 5]%nat.
Proof.
  cbv zeta. repeat split; try (vm_compute; reflexivity); try (apply Qc_is_canon; vm_compute; reflexivity).
  intro H. discriminate H.
Qed.

(** ** Tie to the source by translation (regenerated on every run).
    The exponent / strength formulas the theorems above are about ARE the
    expressions of dinosaur/filtering.py and dinosaur/time_integration.py:
    [*_src] are transcribed from the AST by tools/translate/gen_filters.py. *)
Theorem C15_model_is_source {F : Type} {o : Ops F} {Fc : FieldC o}
    (a c scale r dt rr p0 c0 f0 : F) (tau : arr) (p order lmax l L : nat) (lw : nat -> nat) idx :
  exp_exponent a c p lmax l = exp_exponent_src a c p (fnat l) (fnat lmax) /\
  hd_exponent scale r order l = hd_exponent_src scale (lap_eig r l) order /\
  snd (exp_step_att dt tau) idx = exp_step_att_src dt (snd tau idx) /\
  snd (exp_step_att dt tau) idx = exp_leapfrog_att_src dt (snd tau idx) /\
  snd (hd_step_scale L lw dt tau r order) idx = hd_step_scale_src dt (snd tau idx) (max_abs_eig L lw r) order /\
  ra_value rr p0 c0 f0 = ra_value_src rr p0 c0 f0.
Proof.
  split; [apply exp_exponent_matches_source|].
  split; [apply hd_exponent_matches_source|].
  split; [apply (exp_step_att_matches_source dt tau idx)|].
  split; [apply (exp_step_att_matches_source dt tau idx)|].
  split; [apply hd_step_scale_matches_source|].
  apply ra_value_matches_source.
Qed.

Theorem C15_source_defaults_and_adapters :
  gen_filters_ok = true /\
  exp_step_adapter_is_runge_kutta = true /\ exp_leapfrog_adapter_is_leapfrog = true /\
  (default_exp_attenuation == 16)%Q /\ (default_exp_order == 18)%Q /\ (default_exp_cutoff == 0)%Q /\
  (default_hd_order == 1)%Q /\ (default_hd_step_order == 1)%Q /\
  (default_step_tau == 10938 # 1000000)%Q /\ (default_lf_tau == default_step_tau)%Q /\
  (default_step_order == 18)%Q /\ (default_lf_order == 18)%Q /\
  (default_step_cutoff == 0)%Q /\ (default_lf_cutoff == 0)%Q.
Proof.
  split; [exact gen_filters_complete|]. split; [apply filter_adapters_as_modelled|].
  split; [apply filter_adapters_as_modelled|]. exact filter_defaults_documented.
Qed.


Print Assumptions C15_scaling_in_unit_interval.
Print Assumptions C15_mean_untouched.
Print Assumptions C15_non_increasing.
Print Assumptions C15_semigroup.
Print Assumptions C15_hd_step_top_mode.
Print Assumptions C15_depends_on_l_only.
Print Assumptions C15_nonspectral_leaves_untouched.
Print Assumptions C15_clocks_untouched.
Print Assumptions C15_rescale_slicewise.
Print Assumptions C15_array_strength_slicewise.
Print Assumptions C15_factor_in_unit_interval.
Print Assumptions C15_half_steps_compose.
Print Assumptions C15_robert_asselin.
Print Assumptions C15_robert_asselin_defined.
Print Assumptions C15_step_filter_adapters.
Print Assumptions C15_scaling_in_unit_interval_R.
Print Assumptions C15_mean_untouched_R.
Print Assumptions C15_non_increasing_R.
Print Assumptions C15_semigroup_R.
Print Assumptions C15_exp_hypotheses_R.
Print Assumptions C15_hyps_satisfiable.
Print Assumptions C15_model_is_source.
Print Assumptions C15_source_defaults_and_adapters.
