(** Property C01 - spherical-harmonic analysis inverts synthesis; the basis is
    discretely orthonormal.  Statements only; proofs in Thm/SHT.v, Thm/SHTFast.v.
    Every theorem of the first section holds for an arbitrary field [F] (hence
    the reals), arbitrary sizes M, L, I, J (and paddings), arbitrary tables
    f, p, w and an arbitrary input.  Facts about the special-function tables
    are the named hypotheses H_weights / H_fourier_orth / H_legendre_orth(_deg) /
    H_p_support / H_f0 / H_p00, re-checked numerically per explored grid by
    tools/props/C01.py (table obligations). *)
From Dino Require Import Base.Ops Base.Sums Base.Inst Model.SHT Model.SHTFast Model.FourierR
  Thm.SHT Thm.SHTFast Thm.FourierR Gen.GridTable Gen.Legendre Gen.DerivExprs Model.Legendre Thm.Legendre Thm.LegendrePoly.
From Coq Require Import Reals Qcanon Lra.
Local Open Scope F_scope.

Section C01.
  Context {F : Type} {o : Ops F} {Fc : FieldC o}.
  Variables (M L I J : nat).
  Variable f : nat -> nat -> F.            (* Fourier matrix  f[i,a]   *)
  Variable p : nat -> nat -> nat -> F.     (* Legendre array  p[a,j,l] *)
  Variable w : nat -> F.                   (* basis.w[j] = wq * wp[j]  *)
  Variable wq : F.
  Variable wp : nat -> F.
  Let K := modal_rows_real M.

  (** analysis . synth is exactly the Gram operator of the tables: no hypothesis
      at all, every input - so the round-trip error of ANY input is the Gram
      residual of the configuration applied to it (linearity is a theorem). *)
  Theorem C01_sht_gram x a l : (a < K)%nat ->
    analysis K I J f p w (synth K L J f p x) a l = gram_apply K L (gram I J f p w) x a l.
  Proof. exact (sht_gram K L I J f p w x a l). Qed.

  (** round trip: analysis (synth x) = mask (.) x for EVERY x, entrywise on the
      whole modal array (inside the triangle returned, outside never appear) *)
  Theorem C01_sht_roundtrip x a l :
    H_weights J w wq wp -> H_fourier_orth K I f wq ->
    H_legendre_orth K L J p wp mabs_real -> H_p_support K L J p mabs_real ->
    (a < K)%nat -> (l < L)%nat ->
    analysis K I J f p w (synth K L J f p x) a l = apply_mask mask_real x a l.
  Proof.
    intros. unfold apply_mask. rewrite mask_real_spec.
    now apply (sht_roundtrip K L I J f p w wq wp mabs_real).
  Qed.

  (** the same when the latitude rule is only exact to degree D (TL* grids,
      equiangular spacings): band-limited input, all output entries with
      l + (Lb-1) <= D *)
  Theorem C01_sht_roundtrip_bandlimited D Lb x a l :
    H_weights J w wq wp -> H_fourier_orth K I f wq ->
    H_legendre_orth_deg K L J p wp mabs_real D -> H_p_support K L J p mabs_real ->
    (forall b l', (b < K)%nat -> (Lb <= l')%nat -> (l' < L)%nat -> x b l' = 0) ->
    (a < K)%nat -> (l < L)%nat -> (l + (Lb - 1) <= D)%nat ->
    analysis K I J f p w (synth K L J f p x) a l = apply_mask mask_real x a l.
  Proof.
    intros. unfold apply_mask. rewrite mask_real_spec.
    now apply (sht_roundtrip_bandlimited K L I J f p w wq wp mabs_real D Lb).
  Qed.

  (** coefficients outside the triangular truncation never influence the result *)
  Theorem C01_masked_inert x i j :
    H_p_support K L J p mabs_real -> (j < J)%nat ->
    synth K L J f p x i j = synth K L J f p (apply_mask mask_real x) i j.
  Proof.
    intros Hs Hj. rewrite (sht_masked_inert K L J f p mabs_real x i j Hs Hj).
    apply synth_ext; [assumption|]. intros a l _ _. unfold apply_mask. now rewrite mask_real_spec.
  Qed.

  (** leading batch / level axes act independently *)
  Theorem C01_sht_batch (x x' : nat -> nat -> nat -> F) (z z' : nat -> nat -> nat -> F) n :
    (forall i j, (j < J)%nat ->
       (forall a l, (a < K)%nat -> (l < L)%nat -> x n a l = x' n a l) ->
       synth_batch K L J f p x n i j = synth K L J f p (x' n) i j) /\
    (forall a l, (a < K)%nat ->
       (forall i j, (i < I)%nat -> (j < J)%nat -> z n i j = z' n i j) ->
       analysis_batch K I J f p w z n a l = analysis K I J f p w (z' n) a l).
  Proof.
    split; intros.
    - now apply sht_batch_synth.
    - now apply sht_batch_analysis.
  Qed.

  (** area integral of a synthesised field = r^2 / (c0 c1) * x[0,0], where c1, c0
      are the constant values of the (0,0) Fourier column and Legendre function *)
  Theorem C01_sht_integral (r c0 c1 : F) x :
    H_weights J w wq wp -> H_fourier_orth K I f wq ->
    H_legendre_orth K L J p wp mabs_real -> H_p_support K L J p mabs_real ->
    (forall i, (i < I)%nat -> f i 0%nat = c1) ->
    (forall j, (j < J)%nat -> p 0%nat j 0%nat = c0) ->
    c0 * c1 <> 0 -> (0 < K)%nat -> (0 < L)%nat ->
    integrate I J w r (synth K L J f p x) = (r * r) * (1 / (c0 * c1)) * x 0%nat 0%nat.
  Proof.
    intros. now apply (sht_integral K L I J f p w wq wp mabs_real r c0 c1 x).
  Qed.

  (** *** fast layout (both transform implementations): round trip and padding inertness *)
  Variables (Mh Lf If Jf : nat).
  Variable ff : nat -> nat -> F.
  Variable pf : nat -> nat -> nat -> F.
  Variable wf : nat -> F.
  Hypothesis HM : (1 <= M)%nat.
  Hypothesis HMh : (M <= Mh)%nat.
  Hypothesis HLf : (L <= Lf)%nat.
  Hypothesis HIf : (I <= If)%nat.
  Hypothesis HJf : (J <= Jf)%nat.

  Theorem C01_fast_roundtrip rev y k l :
    tables_related M L I J Mh Lf If Jf f p w ff pf wf ->
    H_weights J w wq wp -> H_fourier_orth K I f wq ->
    H_legendre_orth K L J p wp mabs_real -> H_p_support K L J p mabs_real ->
    (k < 2 * Mh)%nat -> (l < Lf)%nat ->
    analysis_fast_u rev Mh If Jf ff pf wf (synth_fast_u rev Mh Lf Jf ff pf y) k l
    = apply_mask (mask_fast M L) y k l.
  Proof.
    intros. unfold apply_mask.
    now apply (fast_roundtrip M L I J Mh Lf If Jf HM HMh HLf HIf HJf f p w ff pf wf rev y k l wq wp).
  Qed.

  (** zero-padded tables: whatever the input holds in the extra row / paddings,
      no resolved entry changes and all padded output entries are exactly zero *)
  Theorem C01_fast_padding_inert rev y z :
    tables_related M L I J Mh Lf If Jf f p w ff pf wf ->
    (forall i j, (i < If)%nat -> (j < Jf)%nat ->
       synth_fast_u rev Mh Lf Jf ff pf y i j = pad2 I J (synth K L J f p (proj y)) i j) /\
    (forall k l, (k < 2 * Mh)%nat -> (l < Lf)%nat ->
       analysis_fast_u rev Mh If Jf ff pf wf z k l = embed M L (analysis K I J f p w z) k l).
  Proof.
    intros T. split; intros.
    - eapply synth_fast_general; eauto.
    - eapply analysis_fast_general; eauto.
  Qed.
End C01.

(** *** over the reals: the constant is sqrt(4 pi) *)
Theorem C01_sht_integral_R (M L I J : nat) (f : nat -> nat -> R) p w wq wp (r : R) x :
  let K := modal_rows_real M in
  H_weights J w wq wp -> H_fourier_orth K I f wq ->
  H_legendre_orth K L J p wp mabs_real -> H_p_support K L J p mabs_real ->
  (forall i, (i < I)%nat -> f i 0%nat = (/ sqrt (2 * PI))%R) ->
  (forall j, (j < J)%nat -> p 0%nat j 0%nat = (/ sqrt 2)%R) ->
  (0 < K)%nat -> (0 < L)%nat ->
  integrate I J w r (synth K L J f p x) = (r * r * sqrt (4 * PI) * x 0%nat 0%nat)%R.
Proof.
  intros K Hw Hf Ho Hs Hf0 Hp0 HK HL.
  pose proof PI_RGT_0 as Hpi.
  assert (S2 : (0 < sqrt 2)%R) by (apply sqrt_lt_R0; lra).
  assert (S2P : (0 < sqrt (2 * PI))%R) by (apply sqrt_lt_R0; lra).
  rewrite (sht_integral K L I J f p w wq wp mabs_real r (/ sqrt 2)%R (/ sqrt (2 * PI))%R x); auto.
  - change (@fmul R ROps) with Rmult. change (@fdiv R ROps) with Rdiv. change (@f1 R ROps) with 1%R.
    replace (4 * PI)%R with (2 * (2 * PI))%R by ring.
    rewrite (sqrt_mult 2 (2 * PI)) by lra.
    field. split; apply Rgt_not_eq; assumption.
  - change (@fmul R ROps) with Rmult. change (@f0 R ROps) with 0%R.
    apply Rmult_integral_contrapositive_currified; apply Rinv_neq_0_compat; apply Rgt_not_eq; assumption.
Qed.

(** *** the Fourier half of the orthonormality is a THEOREM (no longer a table obligation):
    the closed form of fourier.real_basis / quadrature_nodes over the reals
    (columns [1/sqrt(2 pi), cos(1 x)/sqrt(pi), sin(1 x)/sqrt(pi), cos(2 x)/sqrt(pi), ...],
    nodes x_i = offset + 2 pi i / I, weights 2 pi / I) is discretely orthonormal
    for EVERY longitude offset, every M >= 1 and every I >= 2M-1.
    Exact condition used by the algebra (C01_fourier_orth_columns_R): the
    wavenumber sum |m(a)| + |m(b)| of the two columns is < I, so that every sum
    and non-zero difference k of the two wavenumbers has 0 < |k| < I (not a
    multiple of I) and the geometric sums of cos(k x_i), sin(k x_i) vanish.
    Negative example, I < 2M-1 (aliasing): I = 2, M = 2, a = b = 1 gives
    (2 pi / 2) (cos(0)^2 + cos(pi)^2) / pi = 2, not 1 - see C01_fourier_aliasing_R. *)
Theorem C01_fourier_orth_columns_R (off : R) (I a b : nat) :
  (0 < I)%nat -> (mabs_real a + mabs_real b < I)%nat ->
  (fourier_weight I * sumn I (fun i => real_basis_R off I i a * real_basis_R off I i b))%R
  = (if Nat.eqb a b then 1 else 0)%R.
Proof. intros HI H. exact (fourier_orth_columns off I a b HI H). Qed.

Theorem C01_fourier_orth_R (off : R) (M I : nat) :
  (1 <= M)%nat -> (2 * M - 1 <= I)%nat ->
  H_fourier_orth (modal_rows_real M) I (real_basis_R off I) (fourier_weight I).
Proof. exact (fourier_orth_R off M I). Qed.

(** consequently the round trip over the reals needs only the Legendre-side hypotheses *)
Theorem C01_sht_roundtrip_fourier_R (off : R) (M L I J : nat) p w wp x a l :
  let K := modal_rows_real M in
  (1 <= M)%nat -> (2 * M - 1 <= I)%nat ->
  H_weights J w (fourier_weight I) wp ->
  H_legendre_orth K L J p wp mabs_real -> H_p_support K L J p mabs_real ->
  (a < K)%nat -> (l < L)%nat ->
  analysis K I J (real_basis_R off I) p w (synth K L J (real_basis_R off I) p x) a l
  = apply_mask mask_real x a l.
Proof.
  intros K HM HI Hw Ho Hs Ha Hl. unfold apply_mask. rewrite mask_real_spec.
  apply (sht_roundtrip K L I J (real_basis_R off I) p w (fourier_weight I) wp mabs_real); auto.
  now apply fourier_orth_R.
Qed.

(** aliasing: with I = 2 < 2M-1 = 3 the cos(1 x) column has squared norm 2 *)
Theorem C01_fourier_aliasing_R :
  (fourier_weight 2 * sumn 2 (fun i => real_basis_R 0 2 i 1 * real_basis_R 0 2 i 1))%R = 2%R.
Proof.
  pose proof PI_RGT_0 as Hpi.
  assert (Hs : (sqrt PI * sqrt PI = PI)%R) by (apply sqrt_sqrt; lra).
  assert (Hsn : sqrt PI <> 0%R) by (apply Rgt_not_eq, sqrt_lt_R0; lra).
  unfold fourier_weight, real_basis_R, real_basis_g, lon_node, sumn.
  cbn [Nat.add Nat.div Nat.divmod fst fadd fmul fdiv f0 f1 ROps INR].
  change (Nat.odd 1) with true. cbv iota.
  replace (1 * (0 + 2 * PI * 0 / (1 + 1)))%R with 0%R by field.
  replace (1 * (0 + 2 * PI * 1 / (1 + 1)))%R with PI by field.
  rewrite cos_0, cos_PI. rewrite <- Hs at 1. field. assumption.
Qed.

(** the literal _CONSTANT_NORMALIZATION_FACTOR of primitive_equations.py (read by the
    translator): its square lies in [12.566370, 12.566371], the 6-decimal bracket of
    4 pi = 12.56637061...  (pure rational arithmetic.  The real-number statement
    |c - sqrt(4 pi)| <= 1e-7 is provable with [interval], but re-checking the Interval /
    Flocq / Coquelicot libraries with coqchk takes > 25 min, so it is not part of this file;
    the plugin checks |c^2 - 4 pi| <= 1e-6 numerically as a table obligation.) *)
Theorem C01_normalization_literal :
  (12566370 # 1000000 <= CONSTANT_NORMALIZATION_FACTOR_Q * CONSTANT_NORMALIZATION_FACTOR_Q)%Q /\
  (CONSTANT_NORMALIZATION_FACTOR_Q * CONSTANT_NORMALIZATION_FACTOR_Q <= 12566371 # 1000000)%Q.
Proof. split; apply Qle_bool_imp_le; vm_compute; reflexivity. Qed.

(** *** factory grids (table regenerated from the source): the Gauss rule of every
    T* grid resolves its full truncation, that of every TL* grid resolves the
    truncation without the extra (clipped) top wavenumber; T* grids are
    quadratically, TL* grids linearly de-aliased in longitude; the translated
    [_round_to_multiple] is the model's. *)
Definition factory_ok (g : bool * nat * nat) : bool :=
  let '(tl, mw, gn) := g in
  let Mw := construct_M mw gn in let Lw := construct_L mw gn in
  let Iw := construct_I mw gn in let Jw := construct_J mw gn in
  if tl then resolves 0 Iw Jw Mw (Lw - 1) && negb (resolves 0 Iw Jw Mw Lw) && (2 * mw + 1 <=? Iw)
  else resolves 0 Iw Jw Mw Lw && (3 * mw + 1 <=? Iw).

Theorem C01_grid_table_resolves :
  gridtable_ok = true /\ forallb factory_ok grid_table = true /\ (20 <= length grid_table)%nat /\ length grid_names = length grid_table /\
  (forall x m, gt_round_to_multiple x m = round_to_multiple x m).
Proof. repeat split; vm_compute; reflexivity. Qed.

(** *** non-vacuity: the hypotheses are met by concrete non-trivial tables over Qc
    (M = 2, L = 2, 3 modal rows, 4 x 2 nodes; Hadamard-type Fourier columns) *)
Definition exq (l : list Q) (n : nat) : Qc := Q2Qc (nth n l 0%Q).
Definition ex_f (i a : nat) : Qc :=
  exq (nth a [[1#2; 1#2; 1#2; 1#2]; [1#2; -1#2; 1#2; -1#2]; [1#2; 1#2; -1#2; -1#2]]%Q []) i.
Definition ex_p (a j l : nat) : Qc :=
  match a with
  | O => exq (nth l [[1; 1]; [-1; 1]]%Q []) j
  | _ => exq (nth l [[0; 0]; [1; 1]]%Q []) j
  end.
Definition ex_wp (j : nat) : Qc := Q2Qc (1#2).
Definition ex_wq : Qc := Q2Qc 1.
Definition ex_w (j : nat) : Qc := Q2Qc (1#2).

Ltac qc := apply Qc_is_canon; vm_compute; reflexivity.

Example C01_hyps_satisfiable :
  H_weights 2 ex_w ex_wq ex_wp /\ H_fourier_orth 3 4 ex_f ex_wq /\
  H_legendre_orth 3 2 2 ex_p ex_wp mabs_real /\ H_p_support 3 2 2 ex_p mabs_real /\
  (forall i, (i < 4)%nat -> ex_f i 0%nat = Q2Qc (1#2)) /\
  (forall j, (j < 2)%nat -> ex_p 0%nat j 0%nat = Q2Qc 1) /\
  (@fmul Qc QcOps (Q2Qc 1) (Q2Qc (1#2)) <> 0) /\
  (* and the conclusion is non-trivial on this instance: a coefficient outside the triangle is dropped *)
  analysis 3 4 2 ex_f ex_p ex_w (synth 3 2 2 ex_f ex_p (fun a l => Q2Qc (inject_Z (Z.of_nat (1 + a + 3 * l))))) 1 0
  = 0 /\
  analysis 3 4 2 ex_f ex_p ex_w (synth 3 2 2 ex_f ex_p (fun a l => Q2Qc (inject_Z (Z.of_nat (1 + a + 3 * l))))) 2 1
  = Q2Qc 6.
Proof.
  split. { intros j Hj. qc. }
  split. { intros a b Ha Hb. destruct a as [|[|[|a]]]; try lia; destruct b as [|[|[|b]]]; try lia; qc. }
  split. { intros a l l' Ha H1 H2 H3 H4.
    destruct a as [|[|[|a]]]; try lia; destruct l as [|[|l]]; try lia; destruct l' as [|[|l']]; try lia;
      try qc; exfalso; vm_compute in H1, H3; lia. }
  split. { intros a j l Ha Hj Hl Hlt.
    destruct a as [|[|[|a]]]; try lia; destruct l as [|[|l]]; try lia;
      try (exfalso; vm_compute in Hlt; lia); destruct j as [|[|j]]; try lia; qc. }
  split. { intros i Hi. destruct i as [|[|[|[|i]]]]; try lia; qc. }
  split. { intros j Hj. destruct j as [|[|j]]; try lia; qc. }
  split. { intro H. discriminate H. }
  split; qc.
Qed.

(** *** associated_legendre.py inside the model (Model/Legendre.v; arithmetic regenerated from the
    source into Gen/Legendre.v).  For EVERY field, every function [sq] standing for np.sqrt, every
    node tables x, y = sqrt(1 - x^2), every number of nodes nx and all sizes: the facts about the
    Legendre table that the transforms use are theorems about the recurrence of the code. *)
Section C01_Legendre.
  Context {F : Type} {o : Ops F} {Fc : FieldC o}.
  Variable sq : F -> F.
  Variable nx : nat.
  Variables x y : nat -> F.

  (** evaluate raises ValueError exactly for n_m > n_l; for 1 <= n_m <= n_l it runs through *)
  Theorem C01_legendre_accepts n_m n_l :
    (legendre_accepts n_m n_l = true <-> (n_m <= n_l)%nat) /\
    (legendre_defined n_m n_l = true <-> (1 <= n_m)%nat /\ (n_m <= n_l)%nat).
  Proof. split; [exact (legendre_accepts_spec n_m n_l) | exact (legendre_defined_spec n_m n_l)]. Qed.

  (** support, exactly as the code zero-fills (no hypothesis): this is H_p_support *)
  Theorem C01_legendre_support n_m n_l m i l :
    (l < m)%nat \/ (n_l <= l)%nat \/ (n_m <= m)%nat -> legendre_evaluate sq nx x y n_m n_l m i l = 0.
  Proof. exact (legendre_support sq nx x y n_m n_l m i l). Qed.

  (** ... in the form the round-trip theorems consume it: basis.p[a] = evaluate(M, L, x)[|m(a)|] *)
  Theorem C01_legendre_H_p_support M L :
    H_p_support (modal_rows_real M) L nx (fun a j l => legendre_evaluate sq nx x y M L (mabs_real a) j l) mabs_real.
  Proof. intros a j l _ _ _ Hlt. apply legendre_support. now left. Qed.

  (** the triangular truncation of _evaluate_rhombus *)
  Theorem C01_rhombus_triangle_zero n_l n_m k m i : (n_m <= n_l)%nat -> (i < nx)%nat ->
    (n_l <= m + k)%nat \/ (n_m <= m)%nat -> rhombus_triangle sq nx x y n_l n_m k m i = 0.
  Proof. exact (rhombus_triangle_zero sq nx x y n_l n_m k m i). Qed.

  (** H_p00: the (0,0) function is the constant 1/sqrt(2) *)
  Theorem C01_legendre_p00 n_m n_l i : (1 <= n_m)%nat -> (n_m <= n_l)%nat -> (i < nx)%nat ->
    legendre_evaluate sq nx x y n_m n_l 0%nat i 0%nat = 1 / sq (1 + 1).
  Proof. exact (legendre_p00 sq nx x y n_m n_l i). Qed.

  (** parity (H_parity of the mirror-symmetry property): mirrored nodes, same cos(latitude) *)
  Theorem C01_legendre_parity (x' y' : nat -> F) n_m n_l m i l :
    (forall j, (j < nx)%nat -> x' j = - x j) -> (forall j, (j < nx)%nat -> y' j = y j) ->
    (n_m <= n_l)%nat -> (i < nx)%nat ->
    legendre_evaluate sq nx x' y' n_m n_l m i l = sgn (l - m) * legendre_evaluate sq nx x y n_m n_l m i l.
  Proof. intros Hx Hy. exact (legendre_parity sq nx x y x' y' Hx Hy n_m n_l m i l). Qed.

  (** three-term relation in the code's coefficients a, b *)
  Theorem C01_legendre_three_term_ab n_m n_l m i l :
    (n_m <= n_l)%nat -> (i < nx)%nat -> (m < n_m)%nat -> (m <= l)%nat -> (l + 1 < n_l)%nat ->
    leg_a sq m (l + 1)%nat <> 0 ->
    x i * legendre_evaluate sq nx x y n_m n_l m i l
    = 1 / leg_a sq m (l + 1)%nat * legendre_evaluate sq nx x y n_m n_l m i (l + 1)%nat
      + leg_b sq m (l + 1)%nat * (if Nat.ltb m l then legendre_evaluate sq nx x y n_m n_l m i (l - 1)%nat else 0).
  Proof. exact (legendre_three_term_ab sq nx x y n_m n_l m i l). Qed.

  (** ... and normalised: x p[m,l] = eps(m,l+1) p[m,l+1] + eps(m,l) p[m,l-1], where
      eps(m,l)^2 = (l^2 - m^2)/(4 l^2 - 1) is the closed form of the derivative recurrence weights *)
  Theorem C01_legendre_three_term_eps n_m n_l m i l :
    (n_m <= n_l)%nat -> (i < nx)%nat -> (m < n_m)%nat -> (m <= l)%nat -> (l + 1 < n_l)%nat ->
    leg_a sq m (l + 1)%nat * leg_b sq m (l + 2)%nat = 1 ->
    x i * legendre_evaluate sq nx x y n_m n_l m i l
    = leg_eps sq m (l + 1)%nat * legendre_evaluate sq nx x y n_m n_l m i (l + 1)%nat
      + leg_eps sq m l * (if Nat.ltb m l then legendre_evaluate sq nx x y n_m n_l m i (l - 1)%nat else 0).
  Proof. exact (legendre_three_term_eps sq nx x y n_m n_l m i l). Qed.

  Theorem C01_legendre_eps_sq m l : (m <= l)%nat ->
    sq (rad_b (llit m) (llit (l + 1 - m))) * sq (rad_b (llit m) (llit (l + 1 - m))) = rad_b (llit m) (llit (l + 1 - m)) ->
    leg_eps sq m l * leg_eps sq m l = a2_expr 1 (lit l) (lit m).
  Proof. exact (leg_eps_sq sq m l). Qed.

  (** the radicands under the two square roots are reciprocal (so the hypothesis of the normalised form
      is sqrt(1/t) * sqrt(t) = 1), and the remaining radicands are the intended ones *)
  Theorem C01_legendre_radicands (m k t : F) :
    (lit 4 * ((m + k) * (m + k)) - 1 <> 0 -> (m + k) * (m + k) - m * m <> 0 -> rad_a m k * rad_b m (k + 1) = 1) /\
    rad_b m k = a2_expr 1 (m + k - 1) m /\
    rad_diag m = 1 + 1 / ((1 + 1) * m) /\ rad_init = 1 + 1 :> F /\ leg_y2 t = 1 - t * t /\
    gen_legendre_complete = true /\
    (forall yy pp a b xx p1 p2 : F,
       leg_diag_step sq m yy pp = - (sq (rad_diag m) * yy * pp) /\
       leg_step a b xx p1 p2 = a * (xx * p1 - b * p2) /\ leg_init sq pp = pp + 1 / sq rad_init).
  Proof.
    split; [exact (rad_a_rad_b m k)|]. split; [exact (rad_b_eps2 m k)|]. split; [exact (rad_diag_spec m)|].
    split; [exact rad_init_spec|]. split; [exact (leg_y2_spec t)|]. split; [exact gen_legendre_complete_ok|].
    intros. apply leg_steps_spec.
  Qed.
End C01_Legendre.

(** non-vacuity of the Legendre theorems over Qc: [sq] := identity (it satisfies the reciprocity
    hypothesis, since the radicands are reciprocal), two nodes, n_m = 2, n_l = 3 *)
Definition lx (i : nat) : Qc := exq [1#2; -1#3]%Q i.
Definition ly (i : nat) : Qc := exq [3#5; 4#5]%Q i.
Definition lxm (i : nat) : Qc := exq [-1#2; 1#3]%Q i.
Definition lsq (t : Qc) : Qc := t.

Example C01_legendre_nonvacuous :
  legendre_defined 2 3 = true /\ legendre_defined 3 2 = false /\ legendre_defined 0 2 = false /\
  leg_a lsq 1 2 * leg_b lsq 1 3 = 1 /\ leg_a lsq 1 2 <> 0 /\
  legendre_evaluate lsq 2 lx ly 2 3 1%nat 0%nat 2%nat = Q2Qc (-9#8) /\
  legendre_evaluate lsq 2 lxm ly 2 3 1%nat 0%nat 2%nat = Q2Qc (9#8) /\
  legendre_evaluate lsq 2 lx ly 2 3 1%nat 0%nat 0%nat = 0 /\
  lx 0%nat * legendre_evaluate lsq 2 lx ly 2 3 0%nat 0%nat 1%nat
  = leg_eps lsq 0 2 * legendre_evaluate lsq 2 lx ly 2 3 0%nat 0%nat 2%nat
    + leg_eps lsq 0 1 * legendre_evaluate lsq 2 lx ly 2 3 0%nat 0%nat 0%nat.
Proof.
  split. { vm_compute; reflexivity. } split. { vm_compute; reflexivity. } split. { vm_compute; reflexivity. }
  split. { qc. } split. { intro H. discriminate H. }
  split. { qc. } split. { qc. } split. { qc. } qc.
Qed.

(** *** polynomial structure of the Legendre table (Thm/LegendrePoly.v): coefficient lists
    [leg_q sq m l] produced by the SAME generated recurrence step run on coefficient lists *)
Section C01_LegendrePoly.
  Context {F : Type} {o : Ops F} {Fc : FieldC o}.
  Variable sq : F -> F.
  Variable nx : nat.
  Variables x y : nat -> F.

  (** p[m,i,l] = y_i^m q_{m,l}(x_i) for every node table; degree q_{m,l} <= l - m *)
  Theorem C01_legendre_poly_factor n_m n_l m i l : (n_m <= n_l)%nat -> (i < nx)%nat ->
    legendre_evaluate sq nx x y n_m n_l m i l
    = (if Nat.ltb m n_m && Nat.leb m l && Nat.ltb l n_l then lpow (y i) m * peval (leg_q sq m l) (x i) else 0)
    /\ (length (leg_q sq m l) <= l - m + 1)%nat.
  Proof. intros H1 H2. split; [exact (legendre_evaluate_poly sq nx x y n_m n_l m i l H1 H2) | exact (leg_q_degree sq m l)]. Qed.

  (** the Gram integrand is the value of ONE polynomial of degree <= l + l' (y^2 = 1 - x^2) *)
  Theorem C01_legendre_gram_integrand n_m n_l m i l l' :
    (n_m <= n_l)%nat -> (i < nx)%nat -> (m < n_m)%nat ->
    (m <= l)%nat -> (l < n_l)%nat -> (m <= l')%nat -> (l' < n_l)%nat ->
    y i * y i = leg_y2 (x i) ->
    legendre_evaluate sq nx x y n_m n_l m i l * legendre_evaluate sq nx x y n_m n_l m i l'
    = peval (leg_gram_poly sq m l l') (x i)
    /\ (length (leg_gram_poly sq m l l') <= l + l' + 1)%nat.
  Proof.
    intros. split; [now apply (legendre_gram_integrand sq nx x y n_m n_l) | now apply leg_gram_poly_degree].
  Qed.

  (** a rule exact to degree D (it integrates x^n, n <= D, to mom n): the discrete Gram entry is the
      functional [pint mom] of that polynomial whenever l + l' <= D - independent of the nodes *)
  Theorem C01_legendre_gram_is_moment_functional (w mom : nat -> F) D n_m n_l m l l' :
    (forall n, (n <= D)%nat -> sumn nx (fun j => w j * lpow (x j) n) = mom n) ->
    (n_m <= n_l)%nat -> (m < n_m)%nat ->
    (m <= l)%nat -> (l < n_l)%nat -> (m <= l')%nat -> (l' < n_l)%nat -> (l + l' <= D)%nat ->
    (forall i, (i < nx)%nat -> y i * y i = leg_y2 (x i)) ->
    sumn nx (fun i => w i * (legendre_evaluate sq nx x y n_m n_l m i l * legendre_evaluate sq nx x y n_m n_l m i l'))
    = pint mom (leg_gram_poly sq m l l').
  Proof. intros H. exact (legendre_gram_is_moment_functional sq nx x y w mom D H n_m n_l m l l'). Qed.

  (** H_legendre_orth_deg from a node-free statement about the functional *)
  Theorem C01_legendre_orth_deg_from_functional (w mom : nat -> F) D M L :
    (forall n, (n <= D)%nat -> sumn nx (fun j => w j * lpow (x j) n) = mom n) ->
    (M <= L)%nat ->
    (forall i, (i < nx)%nat -> y i * y i = leg_y2 (x i)) ->
    (forall m l l', (m < M)%nat -> (m <= l)%nat -> (l < L)%nat -> (m <= l')%nat -> (l' < L)%nat -> (l + l' <= D)%nat ->
       pint mom (leg_gram_poly sq m l l') = delta l l') ->
    H_legendre_orth_deg (modal_rows_real M) L nx
      (fun a j l => legendre_evaluate sq nx x y M L (mabs_real a) j l) w mabs_real D.
  Proof. intros H. exact (legendre_orth_deg_from_functional sq nx x y w mom D H M L). Qed.

  (** on a grid that resolves its truncation: the full H_legendre_orth *)
  Theorem C01_legendre_orth_resolves (w mom : nat -> F) spacing I M L :
    resolves spacing I nx M L = true ->
    (forall n, (n <= exact_degree spacing nx)%nat -> sumn nx (fun j => w j * lpow (x j) n) = mom n) ->
    (forall i, (i < nx)%nat -> y i * y i = leg_y2 (x i)) ->
    (forall m l l', (m < M)%nat -> (m <= l)%nat -> (l < L)%nat -> (m <= l')%nat -> (l' < L)%nat ->
       pint mom (leg_gram_poly sq m l l') = delta l l') ->
    H_legendre_orth (modal_rows_real M) L nx
      (fun a j l => legendre_evaluate sq nx x y M L (mabs_real a) j l) w mabs_real.
  Proof. exact (legendre_orth_resolves sq nx x y w mom spacing I M L). Qed.
End C01_LegendrePoly.

(** non-vacuity over Qc: Simpson's rule on the nodes -1, 0, 1 (y = 0, 1, 0) is exact to degree 3 *)
Definition px (i : nat) : Qc := exq [-1; 0; 1]%Q i.
Definition py (i : nat) : Qc := exq [0; 1; 0]%Q i.
Definition pw (i : nat) : Qc := exq [1#3; 4#3; 1#3]%Q i.
Definition pmom (n : nat) : Qc := exq [2; 0; 2#3; 0]%Q n.

Example C01_legendre_poly_nonvacuous :
  (forall n, (n <= 3)%nat -> sumn 3 (fun j => pw j * lpow (px j) n) = pmom n) /\
  (forall i, (i < 3)%nat -> py i * py i = leg_y2 (px i)) /\
  peval (leg_q lsq 1 2) (Q2Qc (1#2)) = Q2Qc (-15#8) /\ length (leg_q lsq 1 2) = 2%nat /\
  length (leg_gram_poly lsq 1 1 2) = 4%nat /\
  sumn 3 (fun i => pw i * (legendre_evaluate lsq 3 px py 2 3 1%nat i 1%nat * legendre_evaluate lsq 3 px py 2 3 1%nat i 1%nat))
  = pint pmom (leg_gram_poly lsq 1 1 1) /\
  pint pmom (leg_gram_poly lsq 1 1 1) = Q2Qc (3#4).
Proof.
  split. { intros n Hn. destruct n as [|[|[|[|n]]]]; try lia; qc. }
  split. { intros i Hi. destruct i as [|[|[|i]]]; try lia; qc. }
  split. { qc. } split. { vm_compute; reflexivity. } split. { vm_compute; reflexivity. }
  split; qc.
Qed.

Print Assumptions C01_sht_gram.
Print Assumptions C01_sht_roundtrip.
Print Assumptions C01_sht_roundtrip_bandlimited.
Print Assumptions C01_masked_inert.
Print Assumptions C01_sht_batch.
Print Assumptions C01_sht_integral.
Print Assumptions C01_fast_roundtrip.
Print Assumptions C01_fast_padding_inert.
Print Assumptions C01_sht_integral_R.
Print Assumptions C01_fourier_orth_columns_R.
Print Assumptions C01_fourier_orth_R.
Print Assumptions C01_sht_roundtrip_fourier_R.
Print Assumptions C01_fourier_aliasing_R.
Print Assumptions C01_normalization_literal.
Print Assumptions C01_grid_table_resolves.
Print Assumptions C01_hyps_satisfiable.
Print Assumptions C01_legendre_accepts.
Print Assumptions C01_legendre_support.
Print Assumptions C01_legendre_H_p_support.
Print Assumptions C01_rhombus_triangle_zero.
Print Assumptions C01_legendre_p00.
Print Assumptions C01_legendre_parity.
Print Assumptions C01_legendre_three_term_ab.
Print Assumptions C01_legendre_three_term_eps.
Print Assumptions C01_legendre_eps_sq.
Print Assumptions C01_legendre_radicands.
Print Assumptions C01_legendre_nonvacuous.
Print Assumptions C01_legendre_poly_factor.
Print Assumptions C01_legendre_gram_integrand.
Print Assumptions C01_legendre_gram_is_moment_functional.
Print Assumptions C01_legendre_orth_deg_from_functional.
Print Assumptions C01_legendre_orth_resolves.
Print Assumptions C01_legendre_poly_nonvacuous.
