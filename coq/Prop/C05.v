(** Property C05 - tendencies match the continuous equations; balanced states are steady.
    Statements only; proofs are in Thm/PrimEqSpec.v (which builds on Thm/PrimEq.v of C04 and
    Thm/Sigma.v of C13).  Every theorem is for an arbitrary field [F] (hence the reals),
    an arbitrary number of layers and arbitrary levels.

    Three groups:
    (A) model level (Model/PrimEq.v, abstract LINEAR horizontal transforms): a resting isothermal
        atmosphere in hydrostatic balance over any orography has zero total tendency;
    (B) column level: the nodal column algebra of the code, explicit + implicit, equals the vertical
        discretisation of the pointwise specification Model/PrimEqSpec.v, grouping stated per theorem;
    (C) specification level (abstract differential ring): flux form = advective form, the operators as
        coded are div/curl, zonal balanced states (gradient wind / geostrophic) have zero specification
        tendency; the formulas of shallow_water_states.one_layer / multi_layer are balanced.

    NOT proved here (decided by exploration, Oracle A of tools/props/C05.py): that analysis of the
    pointwise specification equals the modal tendency of the model for the vorticity/divergence equations
    (the exactness of products under the transforms); for the temperature equation that statement is
    C04_temperature_modal_invariance's closed form composed with [C05_primeq_column_refines_spec].

    LIMITATION of group (C), stated plainly: the differential-ring hypotheses (linearity, Leibniz,
    commutation) are assumed for ALL functions [P -> F].  They are consistent only for point types [P]
    without decidable equality (an indicator function of a point contradicts the Leibniz rule), so no
    closed instance can be exhibited in Coq; a version restricted to a sub-algebra of smooth fields is
    missing.  The same identities are executed in a concrete differential ring (exact polynomial
    calculus on the sphere, class [Fn] of the plugin) as table obligations.  Group (C) theorems
    therefore carry the suffix [_formal]. *)
From Dino Require Import Base.Ops Base.Sums Base.Inst Base.Ord Model.Sigma Thm.Sigma Model.Implicit Model.PrimEq Thm.PrimEq
     Model.PrimEqSpec Thm.PrimEqSpec.
From Coq Require Import Reals Qcanon.
Local Open Scope F_scope.

(** * (A) resting isothermal atmosphere *)
Section C05_rest.
  Context {F : Type} {o : Ops F} {Fc : FieldC o}.
  Variables W P : Type.
  Variable toM : (P -> F) -> W -> F.
  Variable divc curlc : (W -> F) -> (W -> F) -> W -> F.
  Variable lap clip : (W -> F) -> W -> F.
  Hypothesis toM_lin : Thm.PrimEq.linear toM.
  Hypothesis divc_lin : Thm.PrimEq.linear2 divc.
  Hypothesis curlc_lin : Thm.PrimEq.linear2 curlc.
  Hypothesis lap_lin : Thm.PrimEq.linear lap.
  Hypothesis clip_lin : Thm.PrimEq.linear clip.

  (** For every K, levels, R, kappa, T0 with R T0 <> 0, gravity, any orography [orog], any constant
      [cst], any nodal gradient of ln ps, Coriolis parameter and sec^2 table: with no wind, no divergence,
      T' = 0, T_ref = T0 on all levels and the MODAL relation lnps = cst*one - g/(R T0) orog:
      temperature, vorticity and surface-pressure tendencies (explicit + implicit) vanish and the
      divergence tendency is exactly g (lap orog - clip (lap orog)): zero iff the orography has no
      content in the clipped top total wavenumber.  No exactness hypothesis on the transforms. *)
  Theorem C05_rest_isothermal_steady (c : @PEcfg F) (grav T0 cst : F) (X : P -> @NCol F) (dv Tm : nat -> W -> F)
          (lnps onem orog : W -> F) :
    cR c * T0 <> 0 -> (forall k, cTref c k = T0) ->
    (forall p k, n_u (X p) k = 0) -> (forall p k, n_v (X p) k = 0) ->
    (forall p k, n_div (X p) k = 0) -> (forall p k, n_temp (X p) k = 0) ->
    (forall k w, dv k w = 0) -> (forall k w, Tm k w = 0) ->
    (forall w, lnps w = cst * onem w - grav / (cR c * T0) * orog w) ->
    (forall w, lap onem w = 0) ->
    forall r w,
      temp_tendency_explicit W P toM divc clip c X r w + temp_tendency_implicit W c dv r w = 0 /\
      vort_tendency_explicit W P toM curlc clip c X (fun p => rt_dry c (X p)) (fun _ => 0) r w = 0 /\
      clip (toM (fun p => log_pressure_tendency c (X p))) w + lnps_implicit_col c (fun s => dv s w) = 0 /\
      div_tendency_explicit W P toM divc lap clip c grav X (fun p => rt_dry c (X p)) orog (fun _ => 0) r w
      + div_tendency_implicit W lap c Tm lnps r w = grav * (lap orog w - clip (lap orog) w) /\
      (clip (lap orog) w = lap orog w ->
       div_tendency_explicit W P toM divc lap clip c grav X (fun p => rt_dry c (X p)) orog (fun _ => 0) r w
       + div_tendency_implicit W lap c Tm lnps r w = 0).
  Proof.
    intros H1 H2 H3 H4 H5 H6 H7 H8 H9 H10 r w.
    split; [apply rest_temperature_steady; assumption|].
    split; [apply rest_vorticity_steady; assumption|].
    split; [apply rest_lnps_steady; assumption|].
    split; [eapply (rest_divergence_residual W P toM divc lap clip toM_lin divc_lin lap_lin clip_lin c grav T0 cst); eassumption|].
    eapply (rest_divergence_steady W P toM divc lap clip toM_lin divc_lin lap_lin clip_lin c grav T0 cst); eassumption.
  Qed.
End C05_rest.

(** * (B) column refinement *)
Section C05_column.
  Context {F : Type} {o : Ops F} {Fc : FieldC o}.
  Hypothesis two_nz : two <> 0.
  Hypothesis feqb_sound : forall x y : F, feqb x y = true -> x = y.
  Variable c : @PEcfg F.
  Hypothesis th2_nz : forall k, (S k < cK c)%nat -> thickness (cb c) k + thickness (cb c) (S k) <> 0.
  Hypothesis b_top : cb c 0%nat = 0.

  (** grouping: [explicit vertical advection of T' and of T_ref + explicit kappa (T_ref, T') omega/p
      parts + implicit -H.div] = - sigma_dot dT/dsigma + kappa T omega/p of the spec;
      [explicit -sum(u.grad lnps dsigma) + implicit -sum(div dsigma)] = - sum (div + u.grad lnps) dsigma;
      sigma_dot_full = sigma_{r+1/2} sum_all - sum_{k<=r} of (div + u.grad lnps) dsigma. *)
  Theorem C05_primeq_column_refines_spec (Tref T : nat -> F) (x : NCol) n :
    (n < cK c)%nat ->
    let ci := with_tref c Tref in
    let xi := with_temp x (fun k => T k - Tref k) in
    temp_vertical_tendency ci true xi n + temp_adiabatic ci xi n + temp_implicit_col ci (n_div x) n
    = spec_vadv c (spec_sigma_dot c (gcol x)) T n + ckappa c * (T n * spec_omega_p c (gcol x) (u_dot_grad x) n)
    /\ log_pressure_tendency c x + lnps_implicit_col c (n_div x) = - sumn (cK c) (fun k => gcol x k * thickness (cb c) k)
    /\ sigma_dot_full c x n = spec_sigma_dot c (gcol x) n
    /\ u_dot_grad x n = n_sec2 x * (n_u x n * n_gx x + n_v x n * n_gy x).
  Proof.
    intros Hn ci xi. split; [apply refines_temperature; assumption|].
    split; [apply refines_lnps|]. split; [apply refines_sigma_dot; assumption|].
    apply u_dot_grad_is_spec.
  Qed.

  Theorem C05_primeq_column_refines_spec_moist (m : Moist) (Tref T q : nat -> F) (x : NCol) n :
    (n < cK c)%nat ->
    1 + (mCpv m / (cR c / ckappa c) - 1) * q n <> 0 ->
    let ci := with_tref c Tref in
    let xi := with_temp x (fun k => T k - Tref k) in
    temp_vertical_tendency ci true xi n + temp_adiabatic_moist ci m xi q n + temp_implicit_col ci (n_div x) n
    = spec_vadv c (spec_sigma_dot c (gcol x)) T n
      + ckappa c * (T n * ((1 + (mRv m / cR c - 1) * q n) / (1 + (mCpv m / (cR c / ckappa c) - 1) * q n))
                    * spec_omega_p c (gcol x) (u_dot_grad x) n).
  Proof. intros; apply refines_temperature_moist; assumption. Qed.

  (** the vector differentiated by the vorticity/divergence equations (explicit nodal vector + implicit
      R T_ref grad lnps + explicit humidity corrections) is sec^2 cos(lat) times
      (zeta+f) k x v + sigma_dot dv/dsigma + R Tv grad ln ps  of the spec *)
  Theorem C05_primeq_column_refines_momentum (m : Moist) (Tref T q : nat -> F) (x : NCol) k :
    (k < cK c)%nat -> cR c <> 0 ->
    let ci := with_tref c Tref in
    let xi := with_temp x (fun j => T j - Tref j) in
    effective_pgf_u ci true m xi (rt_moist ci m xi q) q k
    = n_sec2 x * (- n_v x k * (n_vort x k + n_f x) - spec_vadv c (spec_sigma_dot c (gcol x)) (n_u x) k
                  + cR c * (T k * (1 + (mRv m / cR c - 1) * q k)) * n_gx x) /\
    effective_pgf_v ci true m xi (rt_moist ci m xi q) q k
    = n_sec2 x * (n_u x k * (n_vort x k + n_f x) - spec_vadv c (spec_sigma_dot c (gcol x)) (n_v x) k
                  + cR c * (T k * (1 + (mRv m / cR c - 1) * q k)) * n_gy x).
  Proof. intros; apply refines_momentum; assumption. Qed.
End C05_column.

(** * (C) specification level *)
Section C05_spec.
  Context {F : Type} {o : Ops F} {Fc : FieldC o}.
  Hypothesis two_nz : two <> 0.
  Variable P : Type.
  Variables dlon dmu : (P -> F) -> P -> F.
  Variable mu : P -> F.
  Variable a : F.
  Hypothesis a_nz : a <> 0.
  Hypothesis dlon_lin : Thm.PrimEq.linear dlon.
  Hypothesis dmu_lin : Thm.PrimEq.linear dmu.
  Hypothesis dlon_leib : forall (f g : P -> F) p, dlon (fun q => f q * g q) p = dlon f p * g p + f p * dlon g p.
  Hypothesis dmu_leib : forall (f g : P -> F) p, dmu (fun q => f q * g q) p = dmu f p * g p + f p * dmu g p.
  Hypothesis d_commute : forall (f : P -> F) p, dlon (dmu f) p = dmu (dlon f) p.
  Hypothesis dlon_mu : forall p, dlon mu p = 0.
  Hypothesis dmu_mu : forall p, dmu mu p = PrimEqSpec.cos2 P mu p.
  Hypothesis cos2_nz : forall p, PrimEqSpec.cos2 P mu p <> 0.

  (** the code's flux form  X div(v) - div(v X)  is the advective form  - v . grad X *)
  Theorem C05_flux_form_is_advective_form_formal (Uc Vc X : P -> F) p :
    X p * sdiv P dlon dmu mu a Uc Vc p - sdiv P dlon dmu mu a (fun q => Uc q * X q) (fun q => Vc q * X q) p
    = - (PrimEqSpec.sec2 P mu p * (Uc p * dlon X p + Vc p * dmu X p) / a).
  Proof. apply flux_form_is_advective_form; assumption. Qed.

  (** div/curl of the velocity derived from (psi, chi) are lap chi / lap psi; the operators as coded
      (d/dlon and sec d/dlat(cos^2 .) on sec^2-scaled components) are div and curl *)
  Theorem C05_operators_formal (psi chi M N : P -> F) p :
    sdiv P dlon dmu mu a (vel_u P dlon dmu a psi chi) (vel_v P dlon dmu a psi chi) p = slap P dlon dmu mu a chi p /\
    scurl P dlon dmu mu a (vel_u P dlon dmu a psi chi) (vel_v P dlon dmu a psi chi) p = slap P dlon dmu mu a psi p /\
    div_cos_lat_pt P dlon dmu mu a (fun q => M q * PrimEqSpec.sec2 P mu q) (fun q => N q * PrimEqSpec.sec2 P mu q) p = sdiv P dlon dmu mu a M N p /\
    curl_cos_lat_pt P dlon dmu mu a (fun q => M q * PrimEqSpec.sec2 P mu q) (fun q => N q * PrimEqSpec.sec2 P mu q) p = scurl P dlon dmu mu a M N p /\
    (forall k, slap P dlon dmu mu a (fun _ => k) p = 0).
  Proof.
    split; [apply div_of_velocity; assumption|].
    split; [apply curl_of_velocity; assumption|].
    split; [apply div_cos_lat_is_sdiv; assumption|].
    split; [apply curl_cos_lat_is_scurl; assumption|].
    intros k. apply laplacian_of_constant; assumption.
  Qed.

  Theorem C05_zonal_polynomial_derivative_formal (cs : list F) p :
    dlon (fun q => peval cs (mu q)) p = 0 /\ dmu (fun q => peval cs (mu q)) p = PrimEqSpec.cos2 P mu p * pdiff cs (mu p).
  Proof.
    assert (Z : zd P dlon dmu mu (fun q => peval cs (mu q)) (fun q => pdiff cs (mu q))) by (apply zonal_polynomial_derivative; assumption).
    destruct Z as [Hz Hd].
    split; [apply Hz|apply Hd].
  Qed.

  (** primitive equations, solid-body rotation on every level in gradient-wind balance (all K, levels,
      rotation rate, radius, per-layer temperatures Tb_k + tau_k mu^2, uniform humidity q0, ln ps =
      cst + beta mu^2, orography gam mu^2): every component of the specification tendency vanishes *)
  Theorem C05_solid_body_steady_formal (c : @PEcfg F) (Omega grav Rv Cpv q0 cst beta gam : F) (Uk Tb tau : nat -> F) :
    let mf := 1 + (Rv / cR c - 1) * q0 in
    (forall k, Uk k * (Uk k + two * a * Omega)
               + two * (grav * gam + mf * sumn (cK c) (fun j => geo_weights (cK c) (cR c) (cls c) k j * tau j))
               + two * (cR c * mf * Tb k * beta) = 0) ->
    (forall k, beta * tau k = 0) ->
    let st := mkPES P (fun k p => - (a * Uk k) * mu p) (fun _ _ => 0)
                    (fun k p => Tb k + tau k * (mu p * mu p)) (fun p => cst + beta * (mu p * mu p)) (fun _ _ => q0) in
    let oro := fun p => gam * (mu p * mu p) in
    forall k p,
      spec_vort_tend P dlon dmu mu a c Omega Rv st k p = 0 /\
      spec_div_tend P dlon dmu mu a c Omega grav Rv oro st k p = 0 /\
      spec_temp_tend P dlon dmu mu a c Rv Cpv st k p = 0 /\
      spec_lnps_tend P dlon dmu mu a c st p = 0 /\
      spec_tracer_tend P dlon dmu mu a c st (st_q P st) k p = 0.
  Proof.
    apply solid_body_steady; assumption.
  Qed.

  (** shallow water: ANY polynomial jets u_i = cos(lat) w_i(mu) (coefficient lists of any length), polynomial
      potentials and zonal orography in geostrophic balance, any number of layers, any density matrix *)
  Theorem C05_sw_polynomial_jet_steady_formal (Kl : nat) (Rm : nat -> nat -> F) (ref : nat -> F) (Omega : F)
          (ws Ps Phs : nat -> list F) (Os : list F) :
    (forall i x, pdiff (Ps i) x = - (a * peval (ws i) x)) ->
    (forall i x, sumn Kl (fun j => Rm i j * pdiff (Phs j) x) + pdiff Os x
                 = - (x * peval (ws i) x * (peval (ws i) x + two * a * Omega))) ->
    let st := mkSWS P (fun i p => peval (Ps i) (mu p)) (fun _ _ => 0) (fun i p => peval (Phs i) (mu p)) in
    let oro := fun p => peval Os (mu p) in
    forall i p,
      sw_vort_tend P dlon dmu mu a Omega st i p = 0 /\
      sw_div_tend P dlon dmu mu a Kl Rm Omega oro st i p = 0 /\
      sw_pot_tend P dlon dmu mu a ref st i p = 0.
  Proof.
    apply sw_polynomial_jet_steady; assumption.
  Qed.

  (** one layer, u = U0 cos(lat): the balanced height is c0 - (U0^2/2 + a Omega U0) sin^2(lat) *)
  Theorem C05_sw_solid_body_one_layer_formal (ref : nat -> F) (Omega U0 c0 : F) :
    let st := mkSWS P (fun _ p => - (a * U0) * mu p) (fun _ _ => 0)
                    (fun _ p => c0 - (U0 * U0 / two + a * Omega * U0) * (mu p * mu p)) in
    forall p,
      sw_vort_tend P dlon dmu mu a Omega st 0%nat p = 0 /\
      sw_div_tend P dlon dmu mu a 1 (fun _ _ => 1) Omega (fun _ => 0) st 0%nat p = 0 /\
      sw_pot_tend P dlon dmu mu a ref st 0%nat p = 0.
  Proof.
    apply sw_solid_body_one_layer; assumption.
  Qed.

  (** the formulas of shallow_water_states.one_layer (no 1/radius factors, f = sin(lat)) give the vorticity of
      the jet and a vanishing divergence tendency when radius = 1 and 2 Omega = 1; multi_layer reduces to it *)
  Theorem C05_one_layer_formulas_balanced_formal (Omega k0 : F) (psi wf wf' pe : P -> F) :
    a = 1 -> two * Omega = 1 ->
    zd P dlon dmu mu wf wf' -> zd P dlon dmu mu psi (fun p => - (a * wf p)) ->
    let vort := fun p => - Eop P dmu mu wf p in
    (forall p, slap P dlon dmu mu a pe p = - Eop P dmu mu (fun q => wf q * (vort q + mu q)) p) ->
    let st := mkSWS P (fun _ => psi) (fun _ _ => 0) (fun _ p => pe p - PrimEqSpec.cos2 P mu p * wf p * wf p / two + k0) in
    forall p,
      wzeta P dlon dmu mu a st 0%nat p = vort p /\
      sw_div_tend P dlon dmu mu a 1 (fun _ _ => 1) Omega (fun _ => 0) st 0%nat p = 0.
  Proof.
    apply one_layer_formulas_balanced; assumption.
  Qed.

  Theorem C05_multi_layer_formulas_balanced_formal (Kl : nat) (Rm : nat -> nat -> F) (Omega : F) (oro : P -> F)
          (psi chi pot s : nat -> P -> F) i :
    (forall p, sumn Kl (fun j => Rm i j * pot j p) = s i p) ->
    forall p,
      sw_div_tend P dlon dmu mu a Kl Rm Omega oro (mkSWS P psi chi pot) i p
      = sw_div_tend P dlon dmu mu a 1 (fun _ _ => 1) Omega oro (mkSWS P (fun _ => psi i) (fun _ => chi i) (fun _ => s i)) 0%nat p.
  Proof. apply multi_layer_formulas_balanced; assumption. Qed.
End C05_spec.

(** * over the reals *)
Definition C05_rest_isothermal_steady_R := @C05_rest_isothermal_steady R ROps RFieldC.

(** * non-vacuity of groups (A) and (B): a concrete uneven 3-level instance over Qc with a one-coefficient /
    one-node horizontal discretisation (laplacian = multiplication by -2, clip = identity) and non-zero
    orography: every hypothesis holds, the implicit and explicit halves are individually non-zero. *)
Definition q3 (l : list Q) : nat -> Qc := fun k => Q2Qc (nth k l 0%Q).
Definition ex_cfg : @PEcfg Qc :=
  mkPE 3 (Q2Qc (2#7)) (Q2Qc (2#7)) (q3 [-(2#1); -(7#10); -(1#8)]%Q) (q3 [0; 1#4; 3#4; 1]%Q) (fun _ => Q2Qc (250#1)).
Definition ex_rest : @NCol Qc :=
  mkNCol (fun _ => 0) (fun _ => 0) (fun _ => 0) (fun _ => 0) (fun _ => 0) (Q2Qc (1#3)) (Q2Qc (-(1#5))) (Q2Qc (4#3)) (Q2Qc (1#2)).
Definition tI (x : unit -> Qc) (w : unit) : Qc := x tt.
Definition tD (x y : unit -> Qc) (w : unit) : Qc := x tt + y tt.
Definition tL (x : unit -> Qc) (w : unit) : Qc := Q2Qc (-(2#1)) * x tt.
Example C05_hyps_satisfiable :
  let orog := fun _ : unit => Q2Qc (1#10) in
  let grav := Q2Qc (9#1) in let T0 := Q2Qc (250#1) in
  let lnps := fun w : unit => Q2Qc (3#1) * 0 - grav / (cR ex_cfg * T0) * orog w in
  (@two Qc QcOps <> 0) /\
  (forall k, (S k < cK ex_cfg)%nat -> thickness (cb ex_cfg) k + thickness (cb ex_cfg) (S k) <> 0) /\
  cb ex_cfg 0%nat = 0 /\ cR ex_cfg * T0 <> 0 /\
  Thm.PrimEq.linear tI /\ Thm.PrimEq.linear2 tD /\ Thm.PrimEq.linear tL /\
  (forall w, tL (fun _ => 0) w = 0) /\ (forall w, tI (tL orog) w = tL orog w) /\
  div_tendency_implicit unit tL ex_cfg (fun _ _ => 0) lnps 1 tt <> 0 /\
  div_tendency_explicit unit unit tI tD tL tI ex_cfg grav (fun _ => ex_rest) (fun p => rt_dry ex_cfg ex_rest) orog (fun _ => 0) 1 tt
  + div_tendency_implicit unit tL ex_cfg (fun _ _ => 0) lnps 1 tt = 0.
Proof.
  cbv zeta.
  split; [intro H; discriminate H|].
  split; [intros k Hk; destruct k as [|[|k]]; [| |cbn in Hk; lia]; intro H; vm_compute in H; discriminate H|].
  split; [apply Qc_is_canon; vm_compute; reflexivity|].
  split; [intro H; vm_compute in H; discriminate H|].
  split; [split; [intros x y H b; apply H | intros; unfold tI; cbn; ring]|].
  split; [split; [intros x1 y1 x2 y2 H1 H2 b; unfold tD; now rewrite H1, H2 | intros; unfold tD; cbn; ring]|].
  split; [split; [intros x y H b; unfold tL; now rewrite H | intros; unfold tL; cbn; ring]|].
  split; [intros w; apply Qc_is_canon; vm_compute; reflexivity|].
  split; [intros w; reflexivity|].
  split; [intro H; vm_compute in H; discriminate H|].
  apply Qc_is_canon. vm_compute. reflexivity.
Qed.

Print Assumptions C05_rest_isothermal_steady.
Print Assumptions C05_primeq_column_refines_spec.
Print Assumptions C05_primeq_column_refines_spec_moist.
Print Assumptions C05_primeq_column_refines_momentum.
Print Assumptions C05_flux_form_is_advective_form_formal.
Print Assumptions C05_operators_formal.
Print Assumptions C05_zonal_polynomial_derivative_formal.
Print Assumptions C05_solid_body_steady_formal.
Print Assumptions C05_sw_polynomial_jet_steady_formal.
Print Assumptions C05_sw_solid_body_one_layer_formal.
Print Assumptions C05_one_layer_formulas_balanced_formal.
Print Assumptions C05_multi_layer_formulas_balanced_formal.
Print Assumptions C05_rest_isothermal_steady_R.
Print Assumptions C05_hyps_satisfiable.
