(** Property C05 - tendencies match the continuous equations; balanced states are steady.
    Statements only; proofs are in Thm/PrimEqSpec.v (which builds on Thm/PrimEq.v of C04 and
    Thm/Sigma.v of C13).  Every theorem is for an arbitrary field [F] (hence the reals),
    an arbitrary number of layers and arbitrary levels.

    Three groups:
    (A) model level (Model/PrimEq.v, abstract LINEAR horizontal transforms): a resting isothermal
        atmosphere in hydrostatic balance over any orography has zero total tendency;
    (B) column level: the nodal column algebra of the code, explicit + implicit, equals the vertical
        discretisation of the pointwise specification Model/PrimEqSpec.v, grouping stated per theorem;
    (C) specification level (abstract commutative differential ring): flux form = advective form, the operators as
        coded are div/curl, zonal balanced states (gradient wind / geostrophic) have zero specification
        tendency; the formulas of shallow_water_states.one_layer / multi_layer are balanced.

    NOT proved here (decided by exploration, Oracle A of tools/props/C05.py): that analysis of the
    pointwise specification equals the modal tendency of the model for the vorticity/divergence equations
    (the exactness of products under the transforms); for the temperature equation that statement is
    C04_temperature_modal_invariance's closed form composed with [C05_primeq_column_refines_spec].

    Group (C) is stated over an ABSTRACT COMMUTATIVE DIFFERENTIAL RING [A] of smooth nodal fields (ring laws,
    two commuting additive derivations with the Leibniz rule, mu with cos(lat) d mu/dlat = 1 - mu^2,
    units a, 2, 1 - mu^2).  Non-vacuity: [C05_differential_ring_instance] exhibits every hypothesis in the
    ring of formal power series in mu over Qc with the non-zero derivation (1 - mu^2) d/dmu, and
    [C05_solid_body_steady_series] / [C05_sw_solid_body_series] instantiate the balance theorems there. *)
From Dino Require Import Base.Ops Base.Sums Base.Inst Base.Ord Model.Sigma Thm.Sigma Model.Implicit Model.PrimEq Thm.PrimEq
     Model.PrimEqSpec Thm.PrimEqSpec.
From Dino Require Import Model.Filters Gen.PrimEqSrc Thm.PrimEqSrc.
From Coq Require Import Reals Qcanon.
Local Open Scope F_scope.

(** * (A) resting isothermal atmosphere *)
Section C05_rest.
  Context {F : Type} {o : Ops F} {Fc : FieldC o}.
  Variables W P : Type.
  Variable toM : (P -> F) -> W -> F.
  Variable divc curlc : (W -> F) -> (W -> F) -> W -> F.
  Variable lap clip : (W -> F) -> W -> F.
  Hypothesis toM_lin : Thm.PrimEq.linear toM.
  Hypothesis divc_lin : Thm.PrimEq.linear2 divc.
  Hypothesis curlc_lin : Thm.PrimEq.linear2 curlc.
  Hypothesis lap_lin : Thm.PrimEq.linear lap.
  Hypothesis clip_lin : Thm.PrimEq.linear clip.

  (** For every K, levels, R, kappa, T0 with R T0 <> 0, gravity, any orography [orog], any constant
      [cst], any nodal gradient of ln ps, Coriolis parameter and sec^2 table: with no wind, no divergence,
      T' = 0, T_ref = T0 on all levels and the MODAL relation lnps = cst*one - g/(R T0) orog:
      temperature, vorticity and surface-pressure tendencies (explicit + implicit) vanish and the
      divergence tendency is exactly g (lap orog - clip (lap orog)): zero iff the orography has no
      content in the clipped top total wavenumber.  No exactness hypothesis on the transforms. *)
  Theorem C05_rest_isothermal_steady (c : @PEcfg F) (grav T0 cst : F) (X : P -> @NCol F) (dv Tm : nat -> W -> F)
          (lnps onem orog : W -> F) :
    cR c * T0 <> 0 -> (forall k, cTref c k = T0) ->
    (forall p k, n_u (X p) k = 0) -> (forall p k, n_v (X p) k = 0) ->
    (forall p k, n_div (X p) k = 0) -> (forall p k, n_temp (X p) k = 0) ->
    (forall k w, dv k w = 0) -> (forall k w, Tm k w = 0) ->
    (forall w, lnps w = cst * onem w - grav / (cR c * T0) * orog w) ->
    (forall w, lap onem w = 0) ->
    forall r w,
      temp_tendency_explicit W P toM divc clip c X r w + temp_tendency_implicit W c dv r w = 0 /\
      vort_tendency_explicit W P toM curlc clip c X (fun p => rt_dry c (X p)) (fun _ => 0) r w = 0 /\
      clip (toM (fun p => log_pressure_tendency c (X p))) w + lnps_implicit_col c (fun s => dv s w) = 0 /\
      div_tendency_explicit W P toM divc lap clip c grav X (fun p => rt_dry c (X p)) orog (fun _ => 0) r w
      + div_tendency_implicit W lap c Tm lnps r w = grav * (lap orog w - clip (lap orog) w) /\
      (clip (lap orog) w = lap orog w ->
       div_tendency_explicit W P toM divc lap clip c grav X (fun p => rt_dry c (X p)) orog (fun _ => 0) r w
       + div_tendency_implicit W lap c Tm lnps r w = 0).
  Proof.
    intros H1 H2 H3 H4 H5 H6 H7 H8 H9 H10 r w.
    split; [apply rest_temperature_steady; assumption|].
    split; [apply rest_vorticity_steady; assumption|].
    split; [apply rest_lnps_steady; assumption|].
    split; [eapply (rest_divergence_residual W P toM divc lap clip toM_lin divc_lin lap_lin clip_lin c grav T0 cst); eassumption|].
    eapply (rest_divergence_steady W P toM divc lap clip toM_lin divc_lin lap_lin clip_lin c grav T0 cst); eassumption.
  Qed.

  (** the same for the moist classes (MoistPrimitiveEquations): uniform specific humidity q0 (nodal gradient of q = 0),
      lnps = cst*one - g/(R T0 (1 + eps q0)) orog with eps = Rv/R - 1.  Additional hypotheses: the analysed constant
      field has no laplacian ([lap (toM 1) = 0]) and laplacian(lnps) survives to_nodal -> to_modal under the clip.
      Divergence residual: g/(1 + eps q0) (lap orog - clip(lap orog)). *)
  Theorem C05_rest_isothermal_steady_moist (c : @PEcfg F) (grav T0 cst : F) (X : P -> @NCol F) (dv Tm : nat -> W -> F)
          (onem orog lnpsm : W -> F) (m : @Moist F) (q0 : F) (q gqx gqy : P -> nat -> F) (lapn : P -> F) :
    cR c * T0 <> 0 -> (forall k, cTref c k = T0) ->
    (forall p k, n_u (X p) k = 0) -> (forall p k, n_v (X p) k = 0) ->
    (forall p k, n_div (X p) k = 0) -> (forall p k, n_temp (X p) k = 0) ->
    (forall k w, dv k w = 0) -> (forall k w, Tm k w = 0) ->
    (forall w, lap onem w = 0) ->
    (forall p k, q p k = q0) -> (forall p k, gqx p k = 0) -> (forall p k, gqy p k = 0) ->
    cR c <> 0 -> 1 + (mRv m / cR c - 1) * q0 <> 0 ->
    (forall w, lnpsm w = cst * onem w - grav / (cR c * T0 * (1 + (mRv m / cR c - 1) * q0)) * orog w) ->
    (forall w, lap (toM (fun _ => 1)) w = 0) ->
    (forall w, clip (toM lapn) w = clip (lap lnpsm) w) ->
    forall r w,
      temp_tendency_explicit_moist W P toM divc clip c m X q r w + temp_tendency_implicit W c dv r w = 0 /\
      vort_tendency_explicit W P toM curlc clip c X (fun p => rt_moist c m (X p) (q p))
                             (fun w' => humidity_curl_modal W P toM c m X gqx gqy r w') r w = 0 /\
      clip (toM (fun p => log_pressure_tendency c (X p))) w + lnps_implicit_col c (fun s => dv s w) = 0 /\
      div_tendency_explicit W P toM divc lap clip c grav X (fun p => rt_moist c m (X p) (q p)) orog
                            (fun w' => humidity_div_modal W P toM lap c m X q gqx gqy lapn r w') r w
      + div_tendency_implicit W lap c Tm lnpsm r w
      = grav / (1 + (mRv m / cR c - 1) * q0) * (lap orog w - clip (lap orog) w) /\
      (clip (lap orog) w = lap orog w ->
       div_tendency_explicit W P toM divc lap clip c grav X (fun p => rt_moist c m (X p) (q p)) orog
                             (fun w' => humidity_div_modal W P toM lap c m X q gqx gqy lapn r w') r w
       + div_tendency_implicit W lap c Tm lnpsm r w = 0).
  Proof.
    intros H1 H2 H3 H4 H5 H6 H7 H8 H10 Hq Hgx Hgy HR Hmf Hhyd Hone Hlapn r w.
    split; [apply (rest_temperature_steady_moist W P toM divc clip toM_lin divc_lin clip_lin c X H3 H4 H5 H6 dv H7 m q)|].
    split; [apply (rest_vorticity_steady_moist W P toM curlc clip toM_lin curlc_lin clip_lin c X H3 H4 H5 H6 m q gqx gqy Hgx Hgy)|].
    split; [apply rest_lnps_steady; assumption|].
    split.
    - eapply (rest_divergence_residual_moist W P toM divc lap clip toM_lin divc_lin lap_lin clip_lin c grav T0 cst H1 H2 X H3 H4 H5 H6 Tm H8
                onem orog H10 m q0 q gqx gqy lapn Hq Hgx Hgy lnpsm HR Hmf Hhyd Hone Hlapn).
    - eapply (rest_divergence_steady_moist W P toM divc lap clip toM_lin divc_lin lap_lin clip_lin c grav T0 cst H1 H2 X H3 H4 H5 H6 Tm H8
                onem orog H10 m q0 q gqx gqy lapn Hq Hgx Hgy lnpsm HR Hmf Hhyd Hone Hlapn).
  Qed.
End C05_rest.

(** * (B) column refinement *)
Section C05_column.
  Context {F : Type} {o : Ops F} {Fc : FieldC o}.
  Hypothesis two_nz : two <> 0.
  Hypothesis feqb_sound : forall x y : F, feqb x y = true -> x = y.
  Variable c : @PEcfg F.
  Hypothesis th2_nz : forall k, (S k < cK c)%nat -> thickness (cb c) k + thickness (cb c) (S k) <> 0.
  Hypothesis b_top : cb c 0%nat = 0.

  (** grouping: [explicit vertical advection of T' and of T_ref + explicit kappa (T_ref, T') omega/p
      parts + implicit -H.div] = - sigma_dot dT/dsigma + kappa T omega/p of the spec;
      [explicit -sum(u.grad lnps dsigma) + implicit -sum(div dsigma)] = - sum (div + u.grad lnps) dsigma;
      sigma_dot_full = sigma_{r+1/2} sum_all - sum_{k<=r} of (div + u.grad lnps) dsigma. *)
  Theorem C05_primeq_column_refines_spec (Tref T : nat -> F) (x : NCol) n :
    (n < cK c)%nat ->
    let ci := with_tref c Tref in
    let xi := with_temp x (fun k => T k - Tref k) in
    temp_vertical_tendency ci true xi n + temp_adiabatic ci xi n + temp_implicit_col ci (n_div x) n
    = spec_vadv c (spec_sigma_dot c (gcol x)) T n + ckappa c * (T n * spec_omega_p c (gcol x) (u_dot_grad x) n)
    /\ log_pressure_tendency c x + lnps_implicit_col c (n_div x) = - sumn (cK c) (fun k => gcol x k * thickness (cb c) k)
    /\ sigma_dot_full c x n = spec_sigma_dot c (gcol x) n
    /\ u_dot_grad x n = n_sec2 x * (n_u x n * n_gx x + n_v x n * n_gy x).
  Proof.
    intros Hn ci xi. split; [apply refines_temperature; assumption|].
    split; [apply refines_lnps|]. split; [apply refines_sigma_dot; assumption|].
    apply u_dot_grad_is_spec.
  Qed.

  Theorem C05_primeq_column_refines_spec_moist (m : Moist) (Tref T q : nat -> F) (x : NCol) n :
    (n < cK c)%nat ->
    1 + (mCpv m / (cR c / ckappa c) - 1) * q n <> 0 ->
    let ci := with_tref c Tref in
    let xi := with_temp x (fun k => T k - Tref k) in
    temp_vertical_tendency ci true xi n + temp_adiabatic_moist ci m xi q n + temp_implicit_col ci (n_div x) n
    = spec_vadv c (spec_sigma_dot c (gcol x)) T n
      + ckappa c * (T n * ((1 + (mRv m / cR c - 1) * q n) / (1 + (mCpv m / (cR c / ckappa c) - 1) * q n))
                    * spec_omega_p c (gcol x) (u_dot_grad x) n).
  Proof. intros; apply refines_temperature_moist; assumption. Qed.

  (** the vector differentiated by the vorticity/divergence equations (explicit nodal vector + implicit
      R T_ref grad lnps + explicit humidity corrections) is sec^2 cos(lat) times
      (zeta+f) k x v + sigma_dot dv/dsigma + R Tv grad ln ps  of the spec *)
  Theorem C05_primeq_column_refines_momentum (m : Moist) (Tref T q : nat -> F) (x : NCol) k :
    (k < cK c)%nat -> cR c <> 0 ->
    let ci := with_tref c Tref in
    let xi := with_temp x (fun j => T j - Tref j) in
    effective_pgf_u ci true m xi (rt_moist ci m xi q) q k
    = n_sec2 x * (- n_v x k * (n_vort x k + n_f x) - spec_vadv c (spec_sigma_dot c (gcol x)) (n_u x) k
                  + cR c * (T k * (1 + (mRv m / cR c - 1) * q k)) * n_gx x) /\
    effective_pgf_v ci true m xi (rt_moist ci m xi q) q k
    = n_sec2 x * (n_u x k * (n_vort x k + n_f x) - spec_vadv c (spec_sigma_dot c (gcol x)) (n_v x) k
                  + cR c * (T k * (1 + (mRv m / cR c - 1) * q k)) * n_gy x).
  Proof. intros; apply refines_momentum; assumption. Qed.

  (** the public option [vertical_advection = upwind_vertical_advection]: the code's operator (Model/Sigma.v, tied to the
      implementation by C13) is the specification's first-order upwind difference; it vanishes on level-independent
      profiles and in the interior is  -(max(w_{n-1/2},0) dX_{n-1/2} + min(w_{n+1/2},0) dX_{n+1/2}) *)
  Theorem C05_upwind_is_spec (w x : nat -> F) n :
    upwind_vertical_advection (cK c) (cb c) w x n = spec_vadv_upwind c w x n /\
    ((forall k, x k = x 0%nat) -> spec_vadv_upwind c w x n = 0) /\
    ((0 < n)%nat -> (S n < cK c)%nat ->
     spec_vadv_upwind c w x n = - (fmax (w (n - 1)%nat) 0 * spec_ddsigma c x (n - 1) + fmin (w n) 0 * spec_ddsigma c x n)).
  Proof.
    split; [apply upwind_is_spec|]. split; [apply upwind_constant|apply upwind_one_sided].
  Qed.
End C05_column.

(** * (B') modal layer: the model's divergence / vorticity tendencies are the clipped modal operators applied
    to the analysed specification quantities.  Exactness hypotheses used: [H_div_grad], [H_curl_grad], [lap_const]
    (and [H_leibniz], [H_leibniz_curl] for the moist classes) - the table obligations checked by C04/C02 - plus b_0 = 0.
    NOT assumed and NOT proved: that to_modal of a nodal product is the exact spectral projection of the product of the
    continuous fields (alias-freeness); that last link to the continuous equations is Oracle A of the plugin. *)
Section C05_modal.
  Context {F : Type} {o : Ops F} {Fc : FieldC o}.
  Variables W P : Type.
  Variable toM : (P -> F) -> W -> F.
  Variable divc curlc : (W -> F) -> (W -> F) -> W -> F.
  Variable lap clip : (W -> F) -> W -> F.
  Hypothesis toM_lin : Thm.PrimEq.linear toM.
  Hypothesis divc_lin : Thm.PrimEq.linear2 divc.
  Hypothesis curlc_lin : Thm.PrimEq.linear2 curlc.
  Hypothesis lap_lin : Thm.PrimEq.linear lap.
  Hypothesis clip_lin : Thm.PrimEq.linear clip.
  Variable c : @PEcfg F.
  Hypothesis b_top : cb c 0%nat = 0.
  Variable grav : F.
  Variable X : P -> @NCol F.
  Variable T : nat -> P -> F.
  Variable Tm : nat -> W -> F.
  Variable lnps onem orog : W -> F.
  Hypothesis H_div_grad : forall w,
      clip (divc (toM (fun p => n_gx (X p) * n_sec2 (X p))) (toM (fun p => n_gy (X p) * n_sec2 (X p)))) w = lap lnps w.
  Hypothesis H_curl_grad : forall w,
      clip (curlc (toM (fun p => n_gx (X p) * n_sec2 (X p))) (toM (fun p => n_gy (X p) * n_sec2 (X p)))) w = 0.
  Hypothesis lap_const : forall w, lap onem w = 0.
  Notation sP := (spec_P P c X).
  Notation sQ := (spec_Q P c X).
  Notation rtd := (rt_abs P c T).

  (** dry / with-time classes, any reference profile [Tref]:
      explicit + implicit divergence tendency = clip( -div(spec momentum) - lap(KE + g orog) ) - lap(G.T);
      in the documented form -div(...) - lap(KE + Phi) when G.T has nothing in the clipped wavenumber;
      explicit vorticity tendency = clip( -curl(spec momentum) ). *)
  Theorem C05_primeq_refines_spec (Tref : nat -> F) r w :
    (r < cK c)%nat ->
    div_tendency_explicit W P toM divc lap clip (with_tref c Tref) grav (Xs P X T Tref)
                          (fun p => rt_dry (with_tref c Tref) (Xs P X T Tref p)) orog (fun _ => 0) r w
    + div_tendency_implicit W lap (with_tref c Tref) (Tms W Tm onem Tref) lnps r w
    = clip (fun w' => - divc (toM (fun p => sP rtd p r)) (toM (fun p => sQ rtd p r)) w'
                      - lap (fun w2 => toM (fun p => kinetic (X p) r) w2 + grav * orog w2) w') w
      - lap (fun w' => geo_diff false c (fun k => Tm k w') r) w
    /\ (clip (lap (fun w' => geo_diff false c (fun k => Tm k w') r)) w = lap (fun w' => geo_diff false c (fun k => Tm k w') r) w ->
        div_tendency_explicit W P toM divc lap clip (with_tref c Tref) grav (Xs P X T Tref)
                              (fun p => rt_dry (with_tref c Tref) (Xs P X T Tref p)) orog (fun _ => 0) r w
        + div_tendency_implicit W lap (with_tref c Tref) (Tms W Tm onem Tref) lnps r w
        = clip (fun w' => - divc (toM (fun p => sP rtd p r)) (toM (fun p => sQ rtd p r)) w'
                          - lap (fun w2 => toM (fun p => kinetic (X p) r) w2
                                           + spec_phi c (grav * orog w2) (fun k => Tm k w2) r) w') w)
    /\ vort_tendency_explicit W P toM curlc clip (with_tref c Tref) (Xs P X T Tref)
                              (fun p => rt_dry (with_tref c Tref) (Xs P X T Tref p)) (fun _ => 0) r w
       = clip (fun w' => - curlc (toM (fun p => sP rtd p r)) (toM (fun p => sQ rtd p r)) w') w.
  Proof.
    intros Hr. split; [|split].
    - apply refines_divergence_modal; assumption.
    - intros Hc. apply refines_divergence_modal_energy; assumption.
    - apply refines_vorticity_modal; assumption.
  Qed.

  (** moist classes: R Tv in the momentum vector, the humidity part of the geopotential evaluated at the nodes *)
  Theorem C05_primeq_refines_spec_modal_moist (m : @Moist F) (q gqx gqy : P -> nat -> F) (lapn : P -> F) (Tref : nat -> F) r w :
    cR c <> 0 ->
    (forall r w, clip (fun w' => divc (toM (qgx P X q r)) (toM (qgy P X q r)) w' - toM (leib_div P X q gqx gqy lapn r) w') w = 0) ->
    (forall r w, clip (fun w' => curlc (toM (qgx P X q r)) (toM (qgy P X q r)) w' + toM (leib_curl P X gqx gqy r) w') w = 0) ->
    (r < cK c)%nat ->
    let rtv := rtv_abs P c T m q in
    div_tendency_explicit W P toM divc lap clip (with_tref c Tref) grav (Xs P X T Tref)
        (fun p => rt_moist (with_tref c Tref) m (Xs P X T Tref p) (q p)) orog
        (fun w' => humidity_div_modal W P toM lap (with_tref c Tref) m (Xs P X T Tref) q gqx gqy lapn r w') r w
    + div_tendency_implicit W lap (with_tref c Tref) (Tms W Tm onem Tref) lnps r w
    = clip (fun w' => - divc (toM (fun p => sP rtv p r)) (toM (fun p => sQ rtv p r)) w'
                      - lap (fun w2 => toM (fun p => kinetic (X p) r) w2 + grav * orog w2
                                       + toM (fun p => geo_diff false c (fun k => q p k * T k p * (mRv m / cR c - 1)) r) w2) w') w
      - lap (fun w' => geo_diff false c (fun k => Tm k w') r) w
    /\ vort_tendency_explicit W P toM curlc clip (with_tref c Tref) (Xs P X T Tref)
          (fun p => rt_moist (with_tref c Tref) m (Xs P X T Tref p) (q p))
          (fun w' => humidity_curl_modal W P toM (with_tref c Tref) m (Xs P X T Tref) gqx gqy r w') r w
       = clip (fun w' => - curlc (toM (fun p => sP rtv p r)) (toM (fun p => sQ rtv p r)) w') w.
  Proof.
    intros HR HL HLc Hr rtv. split.
    - apply refines_divergence_modal_moist; assumption.
    - apply refines_vorticity_modal_moist; assumption.
  Qed.
End C05_modal.

(** * (C) specification level: abstract commutative differential ring of smooth fields *)
Section C05_spec.
  Context {A : Type} {o : Ops A}.
  Hypothesis Aring : ring_theory (@f0 A o) f1 fadd fmul fsub fopp (@eq A).
  Hypothesis div_def : forall x y : A, x / y = x * finv y.
  Variables dlon dmu : A -> A.
  Variables mu a : A.
  Hypothesis inv_a : finv a * a = 1.
  Hypothesis inv_c2 : finv (PrimEqSpec.cos2 mu) * PrimEqSpec.cos2 mu = 1.
  Hypothesis inv_two : finv (@two A o) * two = 1.
  Hypothesis dlon_add : forall x y, dlon (x + y) = dlon x + dlon y.
  Hypothesis dmu_add : forall x y, dmu (x + y) = dmu x + dmu y.
  Hypothesis dlon_leib : forall x y, dlon (x * y) = dlon x * y + x * dlon y.
  Hypothesis dmu_leib : forall x y, dmu (x * y) = dmu x * y + x * dmu y.
  Hypothesis d_commute : forall x, dlon (dmu x) = dmu (dlon x).
  Hypothesis dlon_mu : dlon mu = 0.
  Hypothesis dmu_mu : dmu mu = PrimEqSpec.cos2 mu.
  Hypothesis dlon_a : dlon a = 0.
  Hypothesis dmu_a : dmu a = 0.
  Notation cstA := (cst dlon dmu).
  Notation zonA := (zon dlon).

  (** the code's flux form  X div(v) - div(v X)  is the advective form  - v . grad X *)
  Theorem C05_flux_form_is_advective_form (Uc Vc X : A) :
    X * sdiv dlon dmu mu a Uc Vc - sdiv dlon dmu mu a (Uc * X) (Vc * X)
    = - (PrimEqSpec.sec2 mu * (Uc * dlon X + Vc * dmu X) / a).
  Proof. apply flux_form_is_advective_form; assumption. Qed.

  (** div/curl of the velocity derived from (psi, chi) are lap chi / lap psi; the operators as coded
      (d/dlon and sec d/dlat(cos^2 .) on sec^2-scaled components) are div and curl; lap(constant) = 0 *)
  Theorem C05_operators (psi chi M N : A) :
    sdiv dlon dmu mu a (vel_u dlon dmu a psi chi) (vel_v dlon dmu a psi chi) = slap dlon dmu mu a chi /\
    scurl dlon dmu mu a (vel_u dlon dmu a psi chi) (vel_v dlon dmu a psi chi) = slap dlon dmu mu a psi /\
    div_cos_lat_pt dlon dmu mu a (M * PrimEqSpec.sec2 mu) (N * PrimEqSpec.sec2 mu) = sdiv dlon dmu mu a M N /\
    curl_cos_lat_pt dlon dmu mu a (M * PrimEqSpec.sec2 mu) (N * PrimEqSpec.sec2 mu) = scurl dlon dmu mu a M N /\
    (forall k, cstA k -> slap dlon dmu mu a k = 0).
  Proof.
    split; [apply div_of_velocity; assumption|].
    split; [apply curl_of_velocity; assumption|].
    split; [apply div_cos_lat_is_sdiv; assumption|].
    split; [apply curl_cos_lat_is_scurl; assumption|].
    intros k Hk. apply laplacian_of_constant; assumption.
  Qed.

  Theorem C05_zonal_polynomial_derivative (cs : list A) :
    Forall cstA cs -> dlon (peval cs mu) = 0 /\ dmu (peval cs mu) = PrimEqSpec.cos2 mu * pdiff cs mu.
  Proof.
    intros H. assert (Z : zd dlon dmu mu (peval cs mu) (pdiff cs mu)) by (apply zonal_polynomial_derivative; assumption).
    exact Z.
  Qed.

  (** primitive equations, solid-body rotation on every level in gradient-wind balance (all K, levels,
      rotation rate, radius, per-layer temperatures Tb_k + tau_k mu^2, uniform humidity q0, ln ps =
      cst + beta mu^2, orography gam mu^2; all parameters constant fields): every component of the
      specification tendency vanishes *)
  Theorem C05_solid_body_steady (c : @PEcfg A) (Omega grav Rv Cpv q0 cst0 beta gam : A) (Uk Tb tau : nat -> A) :
    cstA Omega -> cstA grav -> cstA q0 -> cstA cst0 -> cstA beta -> cstA gam ->
    cstA (cR c) -> cstA (Rv / cR c) -> (forall i, cstA (cls c i)) ->
    (forall k, cstA (Uk k)) -> (forall k, cstA (Tb k)) -> (forall k, cstA (tau k)) ->
    let mf := 1 + (Rv / cR c - 1) * q0 in
    (forall k, Uk k * (Uk k + two * a * Omega)
               + two * (grav * gam + mf * sumn (cK c) (fun j => geo_weights (cK c) (cR c) (cls c) k j * tau j))
               + two * (cR c * mf * Tb k * beta) = 0) ->
    (forall k, beta * tau k = 0) ->
    let st := mkPES (fun k => - (a * Uk k) * mu) (fun _ => 0)
                    (fun k => Tb k + tau k * (mu * mu)) (cst0 + beta * (mu * mu)) (fun _ => q0) in
    let oro := gam * (mu * mu) in
    forall k,
      spec_vort_tend dlon dmu mu a c Omega Rv st k = 0 /\
      spec_div_tend dlon dmu mu a c Omega grav Rv oro st k = 0 /\
      spec_temp_tend dlon dmu mu a c Rv Cpv st k = 0 /\
      spec_lnps_tend dlon dmu mu a c st = 0 /\
      spec_tracer_tend dlon dmu mu a c st (st_q st) k = 0.
  Proof. apply solid_body_steady; assumption. Qed.

  (** shallow water: ANY polynomial jets u_i = cos(lat) w_i(mu) (coefficient lists of any length), polynomial
      potentials and zonal orography in geostrophic balance, any number of layers, any density matrix *)
  Theorem C05_sw_polynomial_jet_steady (Kl : nat) (Rm : nat -> nat -> A) (ref : nat -> A) (Omega : A)
          (ws Ps Phs : nat -> list A) (Os : list A) :
    zonA Omega -> (forall i, zonA (ref i)) -> (forall i j, cstA (Rm i j)) ->
    (forall i, Forall cstA (ws i)) -> (forall i, Forall cstA (Ps i)) -> (forall i, Forall cstA (Phs i)) -> Forall cstA Os ->
    (forall i x, pdiff (Ps i) x = - (a * peval (ws i) x)) ->
    (forall i x, sumn Kl (fun j => Rm i j * pdiff (Phs j) x) + pdiff Os x
                 = - (x * peval (ws i) x * (peval (ws i) x + two * a * Omega))) ->
    let st := mkSWS (fun i => peval (Ps i) mu) (fun _ => 0) (fun i => peval (Phs i) mu) in
    let oro := peval Os mu in
    forall i,
      sw_vort_tend dlon dmu mu a Omega st i = 0 /\
      sw_div_tend dlon dmu mu a Kl Rm Omega oro st i = 0 /\
      sw_pot_tend dlon dmu mu a ref st i = 0.
  Proof. apply sw_polynomial_jet_steady; assumption. Qed.

  (** one layer, u = U0 cos(lat): the balanced height is c0 - (U0^2/2 + a Omega U0) sin^2(lat) *)
  Theorem C05_sw_solid_body_one_layer (ref : nat -> A) (Omega U0 c0 : A) :
    cstA Omega -> cstA U0 -> cstA c0 -> (forall i, zonA (ref i)) ->
    let st := mkSWS (fun _ => - (a * U0) * mu) (fun _ => 0)
                    (fun _ => c0 - (U0 * U0 / two + a * Omega * U0) * (mu * mu)) in
    sw_vort_tend dlon dmu mu a Omega st 0%nat = 0 /\
    sw_div_tend dlon dmu mu a 1 (fun _ _ => 1) Omega 0 st 0%nat = 0 /\
    sw_pot_tend dlon dmu mu a ref st 0%nat = 0.
  Proof. apply sw_solid_body_one_layer; assumption. Qed.

  (** the formulas of shallow_water_states.one_layer (no 1/radius factors, f = sin(lat)) give the vorticity of
      the jet and a vanishing divergence tendency when radius = 1 and 2 Omega = 1; multi_layer reduces to it *)
  Theorem C05_one_layer_formulas_balanced (Omega k0 psi wf wf' pe : A) :
    a = 1 -> two * Omega = 1 -> cstA k0 ->
    zd dlon dmu mu wf wf' -> zd dlon dmu mu psi (- (a * wf)) ->
    let vort := - Eop dmu mu wf in
    slap dlon dmu mu a pe = - Eop dmu mu (wf * (vort + mu)) ->
    let st := mkSWS (fun _ => psi) (fun _ => 0) (fun _ => pe - PrimEqSpec.cos2 mu * wf * wf / two + k0) in
    wzeta dlon dmu mu a st 0%nat = vort /\
    sw_div_tend dlon dmu mu a 1 (fun _ _ => 1) Omega 0 st 0%nat = 0.
  Proof. apply one_layer_formulas_balanced; assumption. Qed.

  Theorem C05_multi_layer_formulas_balanced (Kl : nat) (Rm : nat -> nat -> A) (Omega oro : A)
          (psi chi pot s : nat -> A) i :
    sumn Kl (fun j => Rm i j * pot j) = s i ->
    sw_div_tend dlon dmu mu a Kl Rm Omega oro (mkSWS psi chi pot) i
    = sw_div_tend dlon dmu mu a 1 (fun _ _ => 1) Omega oro (mkSWS (fun _ => psi i) (fun _ => chi i) (fun _ => s i)) 0%nat.
  Proof. apply multi_layer_formulas_balanced; assumption. Qed.
End C05_spec.

(** * non-vacuity of group (C): the ring of formal power series in mu over Qc, mu = X, radius 2,
    d/dlon = 0, cos(lat) d/dlat = (1 - X^2) d/dX (a NON-ZERO derivation), 1/(1 - X^2) = 1 + X^2 + X^4 + ... *)
Example C05_differential_ring_instance :
  ring_theory (@f0 ps psOps) f1 fadd fmul fsub fopp (@eq ps) /\
  (forall x y : ps, x / y = x * finv y) /\
  finv ps_a * ps_a = 1 /\ finv (PrimEqSpec.cos2 ps_X) * PrimEqSpec.cos2 ps_X = 1 /\ finv (@two ps psOps) * two = 1 /\
  (forall x y : ps, ps_dlon (x + y) = ps_dlon x + ps_dlon y) /\ (forall x y : ps, ps_dmu (x + y) = ps_dmu x + ps_dmu y) /\
  (forall x y : ps, ps_dlon (x * y) = ps_dlon x * y + x * ps_dlon y) /\
  (forall x y : ps, ps_dmu (x * y) = ps_dmu x * y + x * ps_dmu y) /\
  (forall x : ps, ps_dlon (ps_dmu x) = ps_dmu (ps_dlon x)) /\
  ps_dlon ps_X = 0 /\ ps_dmu ps_X = PrimEqSpec.cos2 ps_X /\ ps_dlon ps_a = 0 /\ ps_dmu ps_a = 0 /\
  ps_dmu ps_X <> 0.
Proof.
  repeat (split; [ps_hyps|]). exact ps_dmu_nontrivial.
Qed.

Add Ring psR2 : ps_ring.
Definition qq (x : Q) : ps := ps_c (Q2Qc x).
Definition ps_cfg : @PEcfg ps :=
  mkPE 2 (qq (2#7)) (qq (2#7)) (fun i => qq (nth i [-(2#1); -(1#4)] 0)%Q) (fun i => qq (nth i [0; 1#3; 1] 0)%Q) (fun _ => qq (250#1)).

(** the solid-body theorem instantiated in the power-series ring: two levels, radius 2, Omega = 1/2,
    U = 1 on both levels, g = 3, orography -mu^2/2, T = 250 and 260, q0 = 1/100 *)
Theorem C05_solid_body_steady_series :
  let st := mkPES (fun k => - (ps_a * qq 1) * ps_X) (fun _ => 0)
                  (fun k => qq (inject_Z (250 + Z.of_nat k)) + 0 * (ps_X * ps_X)) (qq 1 + 0 * (ps_X * ps_X)) (fun _ => qq (1#100)) in
  let oro := qq (-(1#2)) * (ps_X * ps_X) in
  forall k,
    spec_vort_tend ps_dlon ps_dmu ps_X ps_a ps_cfg (qq (1#2)) (qq (3#7)) st k = 0 /\
    spec_div_tend ps_dlon ps_dmu ps_X ps_a ps_cfg (qq (1#2)) (qq 3) (qq (3#7)) oro st k = 0 /\
    spec_temp_tend ps_dlon ps_dmu ps_X ps_a ps_cfg (qq (3#7)) (qq 2) st k = 0 /\
    spec_lnps_tend ps_dlon ps_dmu ps_X ps_a ps_cfg st = 0 /\
    spec_tracer_tend ps_dlon ps_dmu ps_X ps_a ps_cfg st (st_q st) k = 0.
Proof.
  apply (@solid_body_steady ps psOps ps_ring psH_div_def ps_dlon ps_dmu ps_X ps_a psH_inv_a psH_inv_c2 psH_inv_two
           psH_dlon_add psH_dmu_add psH_dlon_leib psH_dmu_leib psH_commute psH_dlon_mu psH_dmu_mu psH_dlon_a psH_dmu_a
           ps_cfg (qq (1#2)) (qq 3) (qq (3#7)) (qq 2) (qq (1#100)) (qq 1) 0 (qq (-(1#2)))
           (fun _ => qq 1) (fun k => qq (inject_Z (250 + Z.of_nat k))) (fun _ => 0)).
  - exact (ps_cst_c _).
  - exact (ps_cst_c _).
  - exact (ps_cst_c _).
  - exact (ps_cst_c _).
  - exact (ps_cst_c _).
  - exact (ps_cst_c _).
  - exact (ps_cst_c (Q2Qc (2#7))).
  - change (cst ps_dlon ps_dmu (ps_c (Q2Qc (3#7)) / ps_c (Q2Qc (2#7)))). rewrite ps_div_c. apply ps_cst_c.
  - intros i. exact (ps_cst_c _).
  - intros k. exact (ps_cst_c _).
  - intros k. exact (ps_cst_c _).
  - intros k. exact (ps_cst_c _).
  - intros k. cbv beta.
    rewrite (sumn_zero_ring ps_ring) by (intros; cbv beta; apply ps_mul_0_r).
    transitivity (qq 1 * (qq 1 + (1 + 1) * ps_a * qq (1#2)) + (1 + 1) * (qq 3 * qq (-(1#2)))); [unfold two; ring|].
    change (ps_add (ps_mul (qq 1) (ps_add (qq 1) (ps_mul (ps_mul (ps_add (ps_c (@f1 Qc QcOps)) (ps_c (@f1 Qc QcOps))) (ps_c (@f1 Qc QcOps + @f1 Qc QcOps))) (qq (1#2)))))
                   (ps_mul (ps_add (ps_c (@f1 Qc QcOps)) (ps_c (@f1 Qc QcOps))) (ps_mul (qq 3) (qq (-(1#2))))) = ps_c (@f0 Qc QcOps)).
    unfold qq. repeat (rewrite ps_c_add || rewrite ps_c_mul). f_equal; try (apply Qc_is_canon; vm_compute; reflexivity).
  - intros k. apply ps_mul_0_r.
Qed.

(** the one-layer shallow-water solid-body theorem in the power-series ring *)
Theorem C05_sw_solid_body_series :
  let st := mkSWS (fun _ => - (ps_a * qq 1) * ps_X) (fun _ => 0)
                  (fun _ => qq 5 - (qq 1 * qq 1 / two + ps_a * qq (1#2) * qq 1) * (ps_X * ps_X)) in
  sw_vort_tend ps_dlon ps_dmu ps_X ps_a (qq (1#2)) st 0%nat = 0 /\
  sw_div_tend ps_dlon ps_dmu ps_X ps_a 1 (fun _ _ => 1) (qq (1#2)) 0 st 0%nat = 0 /\
  sw_pot_tend ps_dlon ps_dmu ps_X ps_a (fun _ => qq 1) st 0%nat = 0.
Proof.
  apply (@sw_solid_body_one_layer ps psOps ps_ring psH_div_def ps_dlon ps_dmu ps_X ps_a psH_inv_a psH_inv_c2 psH_inv_two
           psH_dlon_add psH_dmu_add psH_dlon_leib psH_dmu_leib psH_commute psH_dlon_mu psH_dmu_mu psH_dlon_a psH_dmu_a);
    try (intros; first [apply ps_cst_c | reflexivity]).
Qed.

(** * over the reals *)
Definition C05_rest_isothermal_steady_R := @C05_rest_isothermal_steady R ROps RFieldC.

(** * non-vacuity of groups (A) and (B): a concrete uneven 3-level instance over Qc with a one-coefficient /
    one-node horizontal discretisation (laplacian = multiplication by -2, clip = identity) and non-zero
    orography: every hypothesis holds, the implicit and explicit halves are individually non-zero. *)
Definition q3 (l : list Q) : nat -> Qc := fun k => Q2Qc (nth k l 0%Q).
Definition ex_cfg : @PEcfg Qc :=
  mkPE 3 (Q2Qc (2#7)) (Q2Qc (2#7)) (q3 [-(2#1); -(7#10); -(1#8)]%Q) (q3 [0; 1#4; 3#4; 1]%Q) (fun _ => Q2Qc (250#1)).
Definition ex_rest : @NCol Qc :=
  mkNCol (fun _ => 0) (fun _ => 0) (fun _ => 0) (fun _ => 0) (fun _ => 0) (Q2Qc (1#3)) (Q2Qc (-(1#5))) (Q2Qc (4#3)) (Q2Qc (1#2)).
Definition tI (x : unit -> Qc) (w : unit) : Qc := x tt.
Definition tD (x y : unit -> Qc) (w : unit) : Qc := x tt + y tt.
Definition tL (x : unit -> Qc) (w : unit) : Qc := Q2Qc (-(2#1)) * x tt.
Example C05_hyps_satisfiable :
  let orog := fun _ : unit => Q2Qc (1#10) in
  let grav := Q2Qc (9#1) in let T0 := Q2Qc (250#1) in
  let lnps := fun w : unit => Q2Qc (3#1) * 0 - grav / (cR ex_cfg * T0) * orog w in
  (@two Qc QcOps <> 0) /\
  (forall k, (S k < cK ex_cfg)%nat -> thickness (cb ex_cfg) k + thickness (cb ex_cfg) (S k) <> 0) /\
  cb ex_cfg 0%nat = 0 /\ cR ex_cfg * T0 <> 0 /\
  Thm.PrimEq.linear tI /\ Thm.PrimEq.linear2 tD /\ Thm.PrimEq.linear tL /\
  (forall w, tL (fun _ => 0) w = 0) /\ (forall w, tI (tL orog) w = tL orog w) /\
  div_tendency_implicit unit tL ex_cfg (fun _ _ => 0) lnps 1 tt <> 0 /\
  div_tendency_explicit unit unit tI tD tL tI ex_cfg grav (fun _ => ex_rest) (fun p => rt_dry ex_cfg ex_rest) orog (fun _ => 0) 1 tt
  + div_tendency_implicit unit tL ex_cfg (fun _ _ => 0) lnps 1 tt = 0.
Proof.
  cbv zeta.
  split; [intro H; discriminate H|].
  split; [intros k Hk; destruct k as [|[|k]]; [| |cbn in Hk; lia]; intro H; vm_compute in H; discriminate H|].
  split; [apply Qc_is_canon; vm_compute; reflexivity|].
  split; [intro H; vm_compute in H; discriminate H|].
  split; [split; [intros x y H b; apply H | intros; unfold tI; cbn; ring]|].
  split; [split; [intros x1 y1 x2 y2 H1 H2 b; unfold tD; now rewrite H1, H2 | intros; unfold tD; cbn; ring]|].
  split; [split; [intros x y H b; unfold tL; now rewrite H | intros; unfold tL; cbn; ring]|].
  split; [intros w; apply Qc_is_canon; vm_compute; reflexivity|].
  split; [intros w; reflexivity|].
  split; [intro H; vm_compute in H; discriminate H|].
  apply Qc_is_canon. vm_compute. reflexivity.
Qed.

(** * non-vacuity of the modal-layer hypotheses (B'): one coefficient / one node, to_modal = clip = identity,
    div(x,y) = x + y, curl(x,y) = b x - a y with (a,b) the analysed sec^2 grad(lnps), laplacian = -2 *)
Definition ex_colm : @NCol Qc :=
  mkNCol (q3 [3#20; -(3#28); 1#2]%Q) (q3 [-(1#10); 1#4; 1#7]%Q) (q3 [1#3; -(1#2); 2#5]%Q) (q3 [1#9; 1#8; -(1#6)]%Q)
         (fun _ => 0) (Q2Qc (1#3)) (Q2Qc (-(1#5))) (Q2Qc (4#3)) (Q2Qc (1#2)).
Definition tC (a b : Qc) (x y : unit -> Qc) (w : unit) : Qc := b * x tt - a * y tt.
Example C05_modal_hyps_satisfiable :
  let X := fun _ : unit => ex_colm in
  let ga := n_gx ex_colm * n_sec2 ex_colm in let gb := n_gy ex_colm * n_sec2 ex_colm in
  let lnps := fun _ : unit => (ga + gb) * Q2Qc (-(1#2)) in
  let onem := fun _ : unit => (0 : Qc) in
  let q := fun (_ : unit) (k : nat) => q3 [1#100; 1#50; 3#100]%Q k in
  let gq0 := fun (_ : unit) (_ : nat) => (0 : Qc) in
  let lapn := fun _ : unit => ga + gb in
  Thm.PrimEq.linear tI /\ Thm.PrimEq.linear2 tD /\ Thm.PrimEq.linear2 (tC ga gb) /\ Thm.PrimEq.linear tL /\
  cb ex_cfg 0%nat = 0 /\ cR ex_cfg <> 0 /\
  (forall w, tI (tD (tI (fun p => n_gx (X p) * n_sec2 (X p))) (tI (fun p => n_gy (X p) * n_sec2 (X p)))) w = tL lnps w) /\
  (forall w, tI (tC ga gb (tI (fun p => n_gx (X p) * n_sec2 (X p))) (tI (fun p => n_gy (X p) * n_sec2 (X p)))) w = 0) /\
  (forall w, tL onem w = 0) /\
  (forall r w, tI (fun w' => tD (tI (qgx unit X q r)) (tI (qgy unit X q r)) w' - tI (leib_div unit X q gq0 gq0 lapn r) w') w = 0) /\
  (forall r w, tI (fun w' => tC ga gb (tI (qgx unit X q r)) (tI (qgy unit X q r)) w' + tI (leib_curl unit X gq0 gq0 r) w') w = 0) /\
  tL lnps tt <> 0.
Proof.
  cbv zeta.
  split; [split; [intros x y H b; apply H | intros; unfold tI; cbn; ring]|].
  split; [split; [intros x1 y1 x2 y2 H1 H2 b; unfold tD; now rewrite H1, H2 | intros; unfold tD; cbn; ring]|].
  split; [split; [intros x1 y1 x2 y2 H1 H2 w; unfold tC; now rewrite H1, H2 | intros; unfold tC; cbn; ring]|].
  split; [split; [intros x y H b; unfold tL; now rewrite H | intros; unfold tL; cbn; ring]|].
  split; [apply Qc_is_canon; vm_compute; reflexivity|].
  split; [intro H; vm_compute in H; discriminate H|].
  split; [intros w; apply Qc_is_canon; vm_compute; reflexivity|].
  split; [intros w; unfold tI, tC; cbn; ring|].
  split; [intros w; apply Qc_is_canon; vm_compute; reflexivity|].
  split; [intros r w; unfold tI, tD, qgx, qgy, leib_div; cbn; ring|].
  split; [intros r w; unfold tI, tC, qgx, qgy, leib_curl; cbn; ring|].
  intro H; vm_compute in H; discriminate H.
Qed.

(** * non-vacuity of the moist rest-state hypotheses: two nodes / two coefficients (mean and wave),
    to_modal = (mean, half difference), laplacian = (0, -2), clip = identity, orography with a wave component *)
Definition h2 : Qc := Q2Qc (1#2).
Definition toM2 (f : bool -> Qc) (w : bool) : Qc := if w then (f true - f false) * h2 else (f true + f false) * h2.
Definition toN2 (x : bool -> Qc) (p : bool) : Qc := if p then x false + x true else x false - x true.
Definition lap2 (x : bool -> Qc) (w : bool) : Qc := if w then Q2Qc (-(2#1)) * x true else 0.
Definition id2 (x : bool -> Qc) (w : bool) : Qc := x w.
Definition div2 (x y : bool -> Qc) (w : bool) : Qc := x w + y w.
Definition curl2 (x y : bool -> Qc) (w : bool) : Qc := x w - y w.
Definition ex_rest2 (p : bool) : @NCol Qc :=
  mkNCol (fun _ => 0) (fun _ => 0) (fun _ => 0) (fun _ => 0) (fun _ => 0)
         (if p then Q2Qc (1#3) else Q2Qc (-(1#4))) (Q2Qc (-(1#5))) (if p then Q2Qc (4#3) else Q2Qc (5#4)) (Q2Qc (1#2)).
Example C05_rest_moist_hyps_satisfiable :
  let m := mkMoist (Q2Qc (3#7)) (Q2Qc (2#1)) in
  let q0 := Q2Qc (1#100) in let grav := Q2Qc (9#1) in let T0 := Q2Qc (250#1) in
  let onem := fun w : bool => if w then (0 : Qc) else 1 in
  let orog := fun w : bool => if w then Q2Qc (1#10) else Q2Qc (3#1) in
  let lnpsm := fun w : bool => Q2Qc (3#1) * onem w - grav / (cR ex_cfg * T0 * (1 + (mRv m / cR ex_cfg - 1) * q0)) * orog w in
  let lapn := toN2 (lap2 lnpsm) in
  let q := fun (_ : bool) (_ : nat) => q0 in let gq0 := fun (_ : bool) (_ : nat) => (0 : Qc) in
  Thm.PrimEq.linear toM2 /\ Thm.PrimEq.linear2 div2 /\ Thm.PrimEq.linear2 curl2 /\ Thm.PrimEq.linear lap2 /\ Thm.PrimEq.linear id2 /\
  cR ex_cfg * T0 <> 0 /\ cR ex_cfg <> 0 /\ 1 + (mRv m / cR ex_cfg - 1) * q0 <> 0 /\
  (forall w, lap2 onem w = 0) /\ (forall w, lap2 (toM2 (fun _ => 1)) w = 0) /\
  (forall w, id2 (toM2 lapn) w = id2 (lap2 lnpsm) w) /\
  (forall w, id2 (lap2 orog) w = lap2 orog w) /\
  div_tendency_implicit bool lap2 ex_cfg (fun _ _ => 0) lnpsm 1 true <> 0 /\
  div_tendency_explicit bool bool toM2 div2 lap2 id2 ex_cfg grav ex_rest2 (fun p => rt_moist ex_cfg m (ex_rest2 p) (q p)) orog
                        (fun w' => humidity_div_modal bool bool toM2 lap2 ex_cfg m ex_rest2 q gq0 gq0 lapn 1 w') 1 true
  + div_tendency_implicit bool lap2 ex_cfg (fun _ _ => 0) lnpsm 1 true = 0.
Proof.
  cbv zeta.
  split; [split; [intros x y H b; unfold toM2; now rewrite !H | intros t x y b; unfold toM2; destruct b; cbn; ring]|].
  split; [split; [intros x1 y1 x2 y2 H1 H2 b; unfold div2; now rewrite H1, H2 | intros; unfold div2; cbn; ring]|].
  split; [split; [intros x1 y1 x2 y2 H1 H2 b; unfold curl2; now rewrite H1, H2 | intros; unfold curl2; cbn; ring]|].
  split; [split; [intros x y H b; unfold lap2; now rewrite H | intros t x y b; unfold lap2; destruct b; cbn; ring]|].
  split; [split; [intros x y H b; apply H | intros; unfold id2; cbn; ring]|].
  split; [intro H; vm_compute in H; discriminate H|].
  split; [intro H; vm_compute in H; discriminate H|].
  split; [intro H; vm_compute in H; discriminate H|].
  split; [intros w; destruct w; apply Qc_is_canon; vm_compute; reflexivity|].
  split; [intros w; destruct w; apply Qc_is_canon; vm_compute; reflexivity|].
  split; [intros w; destruct w; apply Qc_is_canon; vm_compute; reflexivity|].
  split; [intros w; reflexivity|].
  split; [intro H; vm_compute in H; discriminate H|].
  apply Qc_is_canon. vm_compute. reflexivity.
Qed.

(** ** Tie to the source by translation (regenerated on every run).
    The nodal column algebra the theorems above are about IS the code of
    dinosaur/primitive_equations.py: the [*_src] terms are transcribed from the
    AST by tools/translate/gen_primeq.py (compute_diagnostic_state, the nodal
    methods of PrimitiveEquations, MoistPrimitiveEquations and the cloud class). *)
Theorem C05_model_is_source {F : Type} {o : Ops F} {Fc : FieldC o} (c : @PEcfg F) (m : @Moist F)
    (inc_va : bool) (x : @NCol F) (Tf g vg s q qc qi rt : nat -> F) (k : nat) :
  u_dot_grad x k = u_dot_grad_src x k /\
  t_omega_over_sigma_sp c Tf g vg k = t_omega_over_sigma_sp_src c Tf g vg k /\
  combined_u c inc_va x (rt_dry c x) k = combined_u_src c inc_va x k /\
  combined_v c inc_va x (rt_dry c x) k = combined_v_src c inc_va x k /\
  kinetic x k = kinetic_src x k /\
  temp_vertical_tendency c inc_va x k = temp_vertical_tendency_src c inc_va x k /\
  hsa_nodal x s k = hsa_nodal_src x s k /\
  hsa_mu x s k = hsa_u_src x s k * n_sec2 x /\
  hsa_mv x s k = hsa_v_src x s k * n_sec2 x /\
  temp_adiabatic c x k = temp_adiabatic_src c x k /\
  log_pressure_tendency c x = log_pressure_tendency_src c x /\
  moisture_contribution c m q k = moisture_contribution_src c m q k /\
  rt_moist c m x q k = rt_moist_src c x (moisture_contribution c m q) k /\
  rt_cloud c m x q qc qi k = rt_cloud_src c x (moisture_contribution c m q) qc qi k /\
  combined_u c inc_va x rt k = combined_u_moist_src c inc_va x q rt k /\
  combined_v c inc_va x rt k = combined_v_moist_src c inc_va x q rt k /\
  temp_adiabatic_moist c m x q k = temp_adiabatic_moist_src c m x q k.
Proof. exact (primeq_model_is_source c m inc_va x Tf g vg s q qc qi rt k). Qed.

Theorem C05_gen_primeq_complete : gen_primeq_ok = true.
Proof. exact gen_primeq_complete. Qed.

(** * (A') the EXECUTED whole-state model (Model/PrimEqFull.v: explicit_terms_full + implicit_terms_full at the concrete
    operators of Model/SHT.v / Model/Deriv.v) at rest.  For every grid table set, every K, levels, constants:
    if the MODAL state has no vorticity, no divergence and no temperature variation on the coefficient range, the reference
    temperature is T0 on the K levels, and lnps = cst * (the (0,0)-only spectrum v00) - g orog / (R T0) as modal arrays, then on
    every in-range coefficient the total tendency of vorticity, temperature and lnps is 0 and the divergence tendency is
    exactly g (lap orog - clip (lap orog)): 0 below the clipped total wavenumber L-1.  Linearity of the five concrete
    operators and lap(constant) = 0 are discharged (C04_concrete_operators_linear); NO table hypothesis remains. *)
From Dino Require Import Model.SHT Model.Deriv Model.PrimEqFull Thm.PrimEqFull Thm.SteadyFull.

Theorem C05_whole_state_rest_isothermal_steady {F : Type} {o : Ops F} {Fc : FieldC o}
        (g : @HGrid F) (c : @PEcfg F) (grav T0 cst v00 : F) (orog : nat -> nat -> F) (s : @State F) :
  cR c * T0 <> 0 -> (forall k, (k < cK c)%nat -> cTref c k = T0) ->
  (forall k a l, (k < cK c)%nat -> (a < hR g)%nat -> (l < hL g)%nat -> s_vort s k a l = 0) ->
  (forall k a l, (k < cK c)%nat -> (a < hR g)%nat -> (l < hL g)%nat -> s_div s k a l = 0) ->
  (forall k a l, (k < cK c)%nat -> (a < hR g)%nat -> (l < hL g)%nat -> s_temp s k a l = 0) ->
  (forall a l, (a < hR g)%nat -> (l < hL g)%nat ->
               s_lnps s a l = cst * onem00 v00 (a, l) - grav / (cR c * T0) * orog a l) ->
  forall k a l, (k < cK c)%nat -> (a < hR g)%nat -> (l < hL g)%nat ->
    let E := explicit_terms_full g c grav orog s in
    let I := implicit_terms_full g c s in
    s_vort E k a l + s_vort I k a l = 0 /\
    s_temp E k a l + s_temp I k a l = 0 /\
    s_lnps E a l + s_lnps I a l = 0 /\
    s_div E k a l + s_div I k a l = grav * (lapm g orog a l - clipm g (lapm g orog) a l) /\
    ((l < hL g - 1)%nat -> s_div E k a l + s_div I k a l = 0).
Proof.
  intros H1 H2 H3 H4 H5 H6 k a l Hk Ha Hl.
  exact (whole_state_rest_isothermal_steady g c grav T0 cst v00 orog s H1 H2 H3 H4 H5 H6 k a l Hk Ha Hl).
Qed.

(** non-vacuity: a zonal grid over Qc (M = 1, L = 3, one longitude, two latitudes), three uneven levels, orography with
    content in every total wavenumber including the clipped one: every hypothesis holds, the implicit half is non-zero,
    the total divergence tendency vanishes at l = 1 and is the non-zero residual at l = L - 1 = 2 *)
Definition rest_grid : @HGrid Qc :=
  mkHG 1 3 1 2 (Q2Qc 1)
    (fun i a => match i, a with O, O => Q2Qc 1 | _, _ => 0 end)
    (fun a j l => match a with
                  | O => match l with
                         | O => match j with O => Q2Qc 1 | S O => Q2Qc 1 | _ => 0 end
                         | S O => match j with O => Q2Qc (-(1#1)) | S O => Q2Qc 1 | _ => 0 end
                         | _ => 0 end
                  | _ => 0 end)
    (fun j => match j with O => Q2Qc (1#2) | S O => Q2Qc (1#2) | _ => 0 end)
    (fun a l => match a with O => match l with S O => Q2Qc (3#4) | S (S O) => Q2Qc (1#3) | _ => 0 end | _ => 0 end)
    (fun a l => match a with O => match l with O => Q2Qc (1#2) | S O => Q2Qc (1#5) | _ => 0 end | _ => 0 end)
    (fun j => Q2Qc (4#3))
    (fun j => match j with O => Q2Qc (-(1#2)) | _ => Q2Qc (1#2) end)
    (Q2Qc (1#2)).
Definition rest_orog (a l : nat) : Qc :=
  match a, l with O, O => Q2Qc 3 | O, S O => Q2Qc (1#10) | O, S (S O) => Q2Qc (1#5) | _, _ => 0 end.
Definition rest_lnps (a l : nat) : Qc :=
  Q2Qc 3 * onem00 (Q2Qc 2) (a, l) - Q2Qc 9 / (cR ex_cfg * Q2Qc 250) * rest_orog a l.
Definition rest_state : @State Qc := mkState (fun _ _ _ => 0) (fun _ _ _ => 0) (fun _ _ _ => 0) rest_lnps [].
Example C05_whole_state_rest_hyps_satisfiable :
  let E := explicit_terms_full rest_grid ex_cfg (Q2Qc 9) rest_orog rest_state in
  let I := implicit_terms_full rest_grid ex_cfg rest_state in
  cR ex_cfg * Q2Qc 250 <> 0 /\ (forall k, (k < cK ex_cfg)%nat -> cTref ex_cfg k = Q2Qc 250) /\
  (forall a l, (a < hR rest_grid)%nat -> (l < hL rest_grid)%nat ->
               s_lnps rest_state a l = Q2Qc 3 * onem00 (Q2Qc 2) (a, l) - Q2Qc 9 / (cR ex_cfg * Q2Qc 250) * rest_orog a l) /\
  s_div I 1%nat 0%nat 1%nat <> 0 /\ s_div E 1%nat 0%nat 1%nat + s_div I 1%nat 0%nat 1%nat = 0 /\
  s_div E 1%nat 0%nat 2%nat + s_div I 1%nat 0%nat 2%nat <> 0.
Proof.
  cbv zeta.
  split; [intro H; vm_compute in H; discriminate H|].
  split; [intros k _; reflexivity|].
  split; [intros a l _ _; reflexivity|].
  split; [intro H; vm_compute in H; discriminate H|].
  split; [apply Qc_is_canon; vm_compute; reflexivity|].
  intro H; vm_compute in H; discriminate H.
Qed.

(** * (A'') the EXECUTED MOIST whole-state model (MoistPrimitiveEquations = explicit_terms_full_moist with cloud = false, tracer 0 =
    specific humidity) at rest: isothermal, uniform humidity q0, lnps = cst * (0,0)-spectrum - g orog / (R T0 (1 + eps q0)),
    eps = Rv/R - 1.  On every in-range coefficient the total vorticity, temperature and lnps tendencies vanish and the divergence
    tendency is g/(1 + eps q0) (lap orog - clip (lap orog)).  Linearity and lap(constant) = 0 are discharged.  Named table hypotheses
    (all restricted to the index ranges; checked by the plugin on the implementation's tables): H_q_uniform, H_gradq_zero (nodal
    humidity = q0, its nodal cos-lat gradient = 0), H_lap_one (to_modal(1) has no laplacian), H_lapn (laplacian(lnps) survives
    to_nodal -> to_modal under the clip). *)
Theorem C05_whole_state_rest_isothermal_steady_moist {F : Type} {o : Ops F} {Fc : FieldC o}
        (g : @HGrid F) (c : @PEcfg F) (m : @Moist F) (grav T0 cst v00 q0 : F) (orog : nat -> nat -> F) (s : @State F) :
  cR c * T0 <> 0 -> cR c <> 0 -> 1 + (mRv m / cR c - 1) * q0 <> 0 ->
  (forall k, (k < cK c)%nat -> cTref c k = T0) ->
  (forall k a l, (k < cK c)%nat -> (a < hR g)%nat -> (l < hL g)%nat -> s_vort s k a l = 0) ->
  (forall k a l, (k < cK c)%nat -> (a < hR g)%nat -> (l < hL g)%nat -> s_div s k a l = 0) ->
  (forall k a l, (k < cK c)%nat -> (a < hR g)%nat -> (l < hL g)%nat -> s_temp s k a l = 0) ->
  (forall a l, (a < hR g)%nat -> (l < hL g)%nat ->
               s_lnps s a l = cst * onem00 v00 (a, l) - grav / (cR c * T0 * (1 + (mRv m / cR c - 1) * q0)) * orog a l) ->
  s_tr s <> [] ->
  (forall k i j, (k < cK c)%nat -> (i < hI g)%nat -> (j < hJ g)%nat -> to_nodal g (q_modal s k) i j = q0) ->
  (forall k i j, (k < cK c)%nat -> (i < hI g)%nat -> (j < hJ g)%nat ->
                 to_nodal g (fst (gradm g (q_modal s k))) i j = 0 /\ to_nodal g (snd (gradm g (q_modal s k))) i j = 0) ->
  (forall a l, (a < hR g)%nat -> (l < hL g)%nat -> lap_c g (toM_c g (fun _ => 1)) (a, l) = 0) ->
  (forall a l, (a < hR g)%nat -> (l < hL g)%nat ->
               clip_c g (toM_c g (lapn0 g s)) (a, l) = clip_c g (lap_c g (unc (s_lnps s))) (a, l)) ->
  forall k a l, (k < cK c)%nat -> (a < hR g)%nat -> (l < hL g)%nat ->
    let E := explicit_terms_full_moist g false c m grav orog s in
    let I := implicit_terms_full g c s in
    s_vort E k a l + s_vort I k a l = 0 /\
    s_temp E k a l + s_temp I k a l = 0 /\
    s_lnps E a l + s_lnps I a l = 0 /\
    s_div E k a l + s_div I k a l = grav / (1 + (mRv m / cR c - 1) * q0) * (lapm g orog a l - clipm g (lapm g orog) a l) /\
    ((l < hL g - 1)%nat -> s_div E k a l + s_div I k a l = 0).
Proof.
  intros H1 H2 H3 H4 H5 H6 H7 H8 H9 H10 H11 H12 H13 k a l Hk Ha Hl.
  exact (whole_state_rest_isothermal_steady_moist g c m grav T0 cst v00 q0 orog s H1 H2 H3 H4 H5 H6 H7 H8 H9 H10 H11 H12 H13 k a l Hk Ha Hl).
Qed.

(** non-vacuity: the zonal grid [rest_grid] over Qc (the (0,0)-only spectrum 1 synthesises to the constant one), K = 3, Rv/R = 3/2,
    q0 = 1/100, orography with content in every total wavenumber: every hypothesis holds on the index ranges, the implicit half is
    non-zero, the total divergence tendency vanishes at l = 1 and is the non-zero residual at the clipped l = 2 *)
Definition restm_moist : @Moist Qc := mkMoist (Q2Qc (3#7)) (Q2Qc (2#1)).
Definition restm_lnps (a l : nat) : Qc :=
  Q2Qc 3 * onem00 (Q2Qc 1) (a, l)
  - Q2Qc 9 / (cR ex_cfg * Q2Qc 250 * (1 + (mRv restm_moist / cR ex_cfg - 1) * Q2Qc (1#100))) * rest_orog a l.
Definition restm_state : @State Qc :=
  mkState (fun _ _ _ => 0) (fun _ _ _ => 0) (fun _ _ _ => 0) restm_lnps [fun _ a l => Q2Qc (1#100) * onem00 (Q2Qc 1) (a, l)].
Example C05_whole_state_rest_moist_hyps_satisfiable :
  let g := rest_grid in let s := restm_state in let q0 := Q2Qc (1#100) in
  let E := explicit_terms_full_moist g false ex_cfg restm_moist (Q2Qc 9) rest_orog s in
  let I := implicit_terms_full g ex_cfg s in
  1 + (mRv restm_moist / cR ex_cfg - 1) * q0 <> 0 /\ s_tr s <> [] /\
  (forall k i j, (k < cK ex_cfg)%nat -> (i < hI g)%nat -> (j < hJ g)%nat -> to_nodal g (q_modal s k) i j = q0) /\
  (forall k i j, (k < cK ex_cfg)%nat -> (i < hI g)%nat -> (j < hJ g)%nat ->
                 to_nodal g (fst (gradm g (q_modal s k))) i j = 0 /\ to_nodal g (snd (gradm g (q_modal s k))) i j = 0) /\
  (forall a l, (a < hR g)%nat -> (l < hL g)%nat -> lap_c g (toM_c g (fun _ => 1)) (a, l) = 0) /\
  (forall a l, (a < hR g)%nat -> (l < hL g)%nat ->
               clip_c g (toM_c g (lapn0 g s)) (a, l) = clip_c g (lap_c g (unc (s_lnps s))) (a, l)) /\
  s_div I 1%nat 0%nat 1%nat <> 0 /\ s_div E 1%nat 0%nat 1%nat + s_div I 1%nat 0%nat 1%nat = 0 /\
  s_div E 1%nat 0%nat 2%nat + s_div I 1%nat 0%nat 2%nat <> 0.
Proof.
  cbv zeta.
  split; [intro H; vm_compute in H; discriminate H|].
  split; [discriminate|].
  split.
  { intros k i j _ Hi Hj. change (hI rest_grid) with 1%nat in Hi. change (hJ rest_grid) with 2%nat in Hj.
    destruct i as [|i]; [|lia]. destruct j as [|[|j]]; [| |lia]; apply Qc_is_canon; vm_compute; reflexivity. }
  split.
  { intros k i j _ Hi Hj. change (hI rest_grid) with 1%nat in Hi. change (hJ rest_grid) with 2%nat in Hj.
    destruct i as [|i]; [|lia]. destruct j as [|[|j]]; [| |lia]; split; apply Qc_is_canon; vm_compute; reflexivity. }
  split.
  { intros a l Ha Hl. change (hR rest_grid) with 1%nat in Ha. change (hL rest_grid) with 3%nat in Hl.
    destruct a as [|a]; [|lia]. destruct l as [|[|[|l]]]; [| | |lia]; apply Qc_is_canon; vm_compute; reflexivity. }
  split.
  { intros a l Ha Hl. change (hR rest_grid) with 1%nat in Ha. change (hL rest_grid) with 3%nat in Hl.
    destruct a as [|a]; [|lia]. destruct l as [|[|[|l]]]; [| | |lia]; apply Qc_is_canon; vm_compute; reflexivity. }
  split; [intro H; vm_compute in H; discriminate H|].
  split; [apply Qc_is_canon; vm_compute; reflexivity|].
  intro H; vm_compute in H; discriminate H.
Qed.

(** the same with the uniform humidity given as a MODAL array (tracer 0 = q0 times the (0,0)-only spectrum v00 on the coefficient
    range): H_q_uniform and H_gradq_zero are DERIVED from H_one (the (0,0)-only spectrum v00 synthesises to the constant one - the
    table hypothesis of C04_whole_state_split_invariance); remaining table hypotheses: H_one, H_lap_one, H_lapn. *)
Theorem C05_whole_state_rest_isothermal_steady_moist_modal {F : Type} {o : Ops F} {Fc : FieldC o}
        (g : @HGrid F) (c : @PEcfg F) (m : @Moist F) (grav T0 cst v00 q0 : F) (orog : nat -> nat -> F) (s : @State F) :
  cR c * T0 <> 0 -> cR c <> 0 -> 1 + (mRv m / cR c - 1) * q0 <> 0 ->
  (forall k, (k < cK c)%nat -> cTref c k = T0) ->
  (forall k a l, (k < cK c)%nat -> (a < hR g)%nat -> (l < hL g)%nat -> s_vort s k a l = 0) ->
  (forall k a l, (k < cK c)%nat -> (a < hR g)%nat -> (l < hL g)%nat -> s_div s k a l = 0) ->
  (forall k a l, (k < cK c)%nat -> (a < hR g)%nat -> (l < hL g)%nat -> s_temp s k a l = 0) ->
  (forall a l, (a < hR g)%nat -> (l < hL g)%nat ->
               s_lnps s a l = cst * onem00 v00 (a, l) - grav / (cR c * T0 * (1 + (mRv m / cR c - 1) * q0)) * orog a l) ->
  s_tr s <> [] ->
  (forall k a l, (k < cK c)%nat -> (a < hR g)%nat -> (l < hL g)%nat -> q_modal s k a l = q0 * onem00 v00 (a, l)) ->
  (forall i j, (i < hI g)%nat -> (j < hJ g)%nat -> to_nodal g (cur (onem00 v00)) i j = 1) ->
  (forall a l, (a < hR g)%nat -> (l < hL g)%nat -> lap_c g (toM_c g (fun _ => 1)) (a, l) = 0) ->
  (forall a l, (a < hR g)%nat -> (l < hL g)%nat ->
               clip_c g (toM_c g (lapn0 g s)) (a, l) = clip_c g (lap_c g (unc (s_lnps s))) (a, l)) ->
  forall k a l, (k < cK c)%nat -> (a < hR g)%nat -> (l < hL g)%nat ->
    let E := explicit_terms_full_moist g false c m grav orog s in
    let I := implicit_terms_full g c s in
    s_vort E k a l + s_vort I k a l = 0 /\
    s_temp E k a l + s_temp I k a l = 0 /\
    s_lnps E a l + s_lnps I a l = 0 /\
    s_div E k a l + s_div I k a l = grav / (1 + (mRv m / cR c - 1) * q0) * (lapm g orog a l - clipm g (lapm g orog) a l) /\
    ((l < hL g - 1)%nat -> s_div E k a l + s_div I k a l = 0).
Proof.
  intros H1 H2 H3 H4 H5 H6 H7 H8 H9 H10 H11 H12 H13 k a l Hk Ha Hl.
  exact (whole_state_rest_isothermal_steady_moist_modal g c m grav T0 cst v00 q0 orog s H1 H2 H3 H4 H5 H6 H7 H8 H9 H10 H11 H12 H13 k a l Hk Ha Hl).
Qed.

(** its two new hypotheses on the instance of [C05_whole_state_rest_moist_hyps_satisfiable] (the others are shown there) *)
Example C05_whole_state_rest_moist_modal_hyps_satisfiable :
  (forall k a l, (k < cK ex_cfg)%nat -> (a < hR rest_grid)%nat -> (l < hL rest_grid)%nat ->
                 q_modal restm_state k a l = Q2Qc (1#100) * onem00 (Q2Qc 1) (a, l)) /\
  (forall i j, (i < hI rest_grid)%nat -> (j < hJ rest_grid)%nat -> to_nodal rest_grid (cur (onem00 (Q2Qc 1))) i j = 1).
Proof.
  split; [intros; reflexivity|].
  intros i j Hi Hj. change (hI rest_grid) with 1%nat in Hi. change (hJ rest_grid) with 2%nat in Hj.
  destruct i as [|i]; [|lia]. destruct j as [|[|j]]; [| |lia]; apply Qc_is_canon; vm_compute; reflexivity.
Qed.

(** * (B'') the EXECUTED dry whole-state model refines the specification at the modal layer: [C05_primeq_refines_spec] for
    explicit_terms_full + implicit_terms_full of the state (s0 with temperature variation temp1) under the reference profile T1,
    every in-range coefficient.  X = the ideal nodal columns of the state, T / Tm = absolute temperature (nodal / modal).
    Linearity and lap_const are discharged; remaining named exactness hypotheses are those of C04_whole_state_split_invariance:
    H_one, H_div_grad, H_curl_grad (table obligations of C04, satisfiable: C04_whole_state_hyps_satisfiable), and b_0 = 0. *)
Section C05_whole_refine.
  Context {F : Type} {o : Ops F} {Fc : FieldC o}.
  Variable g : @HGrid F.
  Variable c : @PEcfg F.
  Hypothesis b_top : cb c 0%nat = 0.
  Variable grav : F.
  Variable orog : nat -> nat -> F.
  Variable s0 : @State F.
  Variable temp1 : nat -> nat -> nat -> F.
  Variable T1 : nat -> F.
  Variable v00 : F.
  Hypothesis H_one : forall i j, (i < hI g)%nat -> (j < hJ g)%nat -> to_nodal g (cur (onem00 v00)) i j = 1.
  Notation X := (X_ideal g (cK c) s0).
  Notation T := (T_abs g c temp1 T1 v00).
  Notation Tm := (Tm_abs temp1 T1 v00).
  Hypothesis H_div_grad : forall w,
      clip_c g (divc_c g (toM_c g (fun p => n_gx (X p) * n_sec2 (X p))) (toM_c g (fun p => n_gy (X p) * n_sec2 (X p)))) w
      = lap_c g (unc (s_lnps s0)) w.
  Hypothesis H_curl_grad : forall w,
      clip_c g (curlc_c g (toM_c g (fun p => n_gx (X p) * n_sec2 (X p))) (toM_c g (fun p => n_gy (X p) * n_sec2 (X p)))) w = 0.

  Theorem C05_whole_state_refines_spec k a l :
    (k < cK c)%nat -> (a < hR g)%nat -> (l < hL g)%nat ->
    let E := explicit_terms_full g (with_tref c T1) grav orog (with_stemp s0 temp1) in
    let I := implicit_terms_full g (with_tref c T1) (with_stemp s0 temp1) in
    s_vort E k a l + s_vort I k a l
    = clip_c g (fun w' => - curlc_c g (toM_c g (fun p => spec_P Wi c X (rt_abs Wi c T) p k))
                                      (toM_c g (fun p => spec_Q Wi c X (rt_abs Wi c T) p k)) w') (a, l) /\
    s_div E k a l + s_div I k a l
    = clip_c g (fun w' => - divc_c g (toM_c g (fun p => spec_P Wi c X (rt_abs Wi c T) p k))
                                     (toM_c g (fun p => spec_Q Wi c X (rt_abs Wi c T) p k)) w'
                          - lap_c g (fun w2 => toM_c g (fun p => kinetic (X p) k) w2 + grav * unc orog w2) w') (a, l)
      - lap_c g (fun w' => geo_diff false c (fun k' => Tm k' w') k) (a, l).
  Proof. exact (whole_state_refines_spec g c b_top grav orog s0 temp1 T1 v00 H_one H_div_grad H_curl_grad k a l). Qed.

  (** PARTIAL (solid-body rotation, any gradient-wind balanced state).  Full statement wanted: the executed model has zero total
      tendency on the solid-body state of [C05_solid_body_steady].  Proved: if the clipped modal operators on the analysed
      specification quantities vanish at the coefficient (H_sb_vort, H_sb_div: what [C05_solid_body_steady] says of the continuous
      operators on the continuous fields) the executed total vorticity and divergence tendencies vanish there.  Missing:
      alias-freeness of the transforms on the products of the balanced state, the evaluation homomorphism from the differential ring
      to nodal values, and whole-state statements for temperature / lnps (column refinement + the solid-body oracle of the plugin). *)
  Theorem C05_whole_state_solid_body_steady_partial k a l :
    (k < cK c)%nat -> (a < hR g)%nat -> (l < hL g)%nat ->
    clip_c g (fun w' => - curlc_c g (toM_c g (fun p => spec_P Wi c X (rt_abs Wi c T) p k))
                                    (toM_c g (fun p => spec_Q Wi c X (rt_abs Wi c T) p k)) w') (a, l) = 0 ->
    clip_c g (fun w' => - divc_c g (toM_c g (fun p => spec_P Wi c X (rt_abs Wi c T) p k))
                                   (toM_c g (fun p => spec_Q Wi c X (rt_abs Wi c T) p k)) w'
                        - lap_c g (fun w2 => toM_c g (fun p => kinetic (X p) k) w2 + grav * unc orog w2) w') (a, l)
    - lap_c g (fun w' => geo_diff false c (fun k' => Tm k' w') k) (a, l) = 0 ->
    let E := explicit_terms_full g (with_tref c T1) grav orog (with_stemp s0 temp1) in
    let I := implicit_terms_full g (with_tref c T1) (with_stemp s0 temp1) in
    s_vort E k a l + s_vort I k a l = 0 /\ s_div E k a l + s_div I k a l = 0.
  Proof. exact (whole_state_solid_body_steady_partial g c b_top grav orog s0 temp1 T1 v00 H_one H_div_grad H_curl_grad k a l). Qed.
End C05_whole_refine.

(** * (D) shallow water on the MODEL of shallow_water.py: explicit_terms (the assembly [Section SWAssembly] of Model/ShallowWater.v
    that [sw_explicit_terms] instantiates at the concrete operators) + implicit_terms (Model/Implicit.v [sw_implicit_terms]) are the
    clipped modal div / curl / laplacian of the analysed specification quantities of Model/PrimEqSpec.v (absolute-vorticity flux,
    pressure with the FULL weight matrix Rm = density ratios + identity, kinetic energy, mass flux of ref + pot), for abstract
    LINEAR horizontal operators with a diagonal laplacian, in the sense of [C05_primeq_refines_spec].
    Named exactness hypotheses (table obligations of the plugin): H_sw_pot_clip, H_sw_div_vel. *)
From Dino Require Import Model.ShallowWater.
Section C05_sw_model.
  Context {F : Type} {o : Ops F} {Fc : FieldC o}.
  Variables W P : Type.
  Variable toM : (P -> F) -> W -> F.
  Variable divc curlc : (W -> F) -> (W -> F) -> W -> F.
  Variable lap clip : (W -> F) -> W -> F.
  Hypothesis toM_lin : Thm.PrimEq.linear toM.
  Hypothesis divc_lin : Thm.PrimEq.linear2 divc.
  Hypothesis lap_lin : Thm.PrimEq.linear lap.
  Hypothesis clip_lin : Thm.PrimEq.linear clip.
  Variable N : nat.
  Variable dens : nat -> F.
  Variable X : P -> @SWCol F.
  Variable pot dive : nat -> W -> F.
  Variable orog : option (W -> F).
  Variable ref : nat -> F.
  Variable lam : W -> F.
  Hypothesis lap_diag : forall x w, lap x w = x w * lam w.

  Theorem C05_sw_model_refines_spec r w :
    (r < N)%nat ->
    clip (lap (pot r)) w = lap (pot r) w ->
    clip (divc (toM (fun p => s_u (X p) r * s_sec2 (X p))) (toM (fun p => s_v (X p) r * s_sec2 (X p)))) w = dive r w ->
    let imp := sw_implicit_terms (ref r) (lam w) (dive r w, pot r w) in
    sw_vort_explicit W P toM divc clip X r w + 0
    = clip (fun w' => - divc (toM (sw_flux_u P X r)) (toM (sw_flux_v P X r)) w') w /\
    sw_div_explicit W P toM curlc lap clip N dens X pot orog r w + fst imp
    = clip (fun w' => curlc (toM (sw_flux_u P X r)) (toM (sw_flux_v P X r)) w'
                      - lap (fun w2 => sumn N (fun j => sw_Rm dens r j * pot j w2) + sw_orog0 W orog w2 + toM (sw_kin P X r) w2) w') w /\
    sw_pot_explicit W P toM divc clip X r w + snd imp
    = clip (fun w' => - divc (toM (sw_mass_u P X ref r)) (toM (sw_mass_v P X ref r)) w') w.
  Proof. exact (sw_model_refines_spec W P toM divc curlc lap clip toM_lin divc_lin lap_lin clip_lin N dens X pot dive orog ref lam lap_diag r w). Qed.

  (** PARTIAL.  Full statement wanted: a state whose nodal fields are the balanced zonal jet of [C05_sw_polynomial_jet_steady] has zero
      total tendency.  Proved: under the exactness obligations H_sw_jet_vort / H_sw_jet_div / H_sw_jet_pot (the clipped modal operators
      on the analysed nodal specification quantities vanish, as the continuous operators do on the continuous jet by
      [C05_sw_polynomial_jet_steady]) the model's explicit + implicit tendency is zero.  Missing: the evaluation homomorphism from the
      differential ring to nodal values and alias-freeness on the jet's products (checked numerically as table obligations). *)
  Theorem C05_sw_model_jet_steady_partial r w :
    (r < N)%nat ->
    clip (lap (pot r)) w = lap (pot r) w ->
    clip (divc (toM (fun p => s_u (X p) r * s_sec2 (X p))) (toM (fun p => s_v (X p) r * s_sec2 (X p)))) w = dive r w ->
    clip (fun w' => - divc (toM (sw_flux_u P X r)) (toM (sw_flux_v P X r)) w') w = 0 ->
    clip (fun w' => curlc (toM (sw_flux_u P X r)) (toM (sw_flux_v P X r)) w'
                    - lap (fun w2 => sumn N (fun j => sw_Rm dens r j * pot j w2) + sw_orog0 W orog w2 + toM (sw_kin P X r) w2) w') w = 0 ->
    clip (fun w' => - divc (toM (sw_mass_u P X ref r)) (toM (sw_mass_v P X ref r)) w') w = 0 ->
    let imp := sw_implicit_terms (ref r) (lam w) (dive r w, pot r w) in
    sw_vort_explicit W P toM divc clip X r w + 0 = 0 /\
    sw_div_explicit W P toM curlc lap clip N dens X pot orog r w + fst imp = 0 /\
    sw_pot_explicit W P toM divc clip X r w + snd imp = 0.
  Proof. exact (sw_model_jet_steady_partial W P toM divc curlc lap clip toM_lin divc_lin lap_lin clip_lin N dens X pot dive orog ref lam lap_diag r w). Qed.
End C05_sw_model.

(** the same for the EXECUTED shallow-water model: [sw_explicit_terms] of Model/ShallowWater.v (concrete transforms of Model/SHT.v,
    spectral operators of Model/Deriv.v, both layouts, every table set, any number of layers, orography or None) + the implicit terms.
    The linearity hypotheses and [lap_diag] of [C05_sw_model_refines_spec] are DISCHARGED for the concrete operators
    (sw_toM_lin, sw_divc_lin, sw_curlc_lin, sw_lap_lin, sw_clip_lin in Thm/SteadyFull.v); what remains are the two named exactness
    obligations H_sw_pot_clip, H_sw_div_vel at the coefficient in question. *)
Theorem C05_sw_concrete_refines_spec {F : Type} {o : Ops F} {Fc : FieldC o}
        (fast : bool) (R L I J N : nat) (f : nat -> nat -> F) (p : nat -> nat -> nat -> F) (wq : nat -> F) (rad : F) (wa wb : @arr2 F)
        (dens : nat -> F) (omega : F) (sinlat : nat -> F) (orog : option (@arr2 F)) (vort dive pot : nat -> @arr2 F) (ref : nat -> F)
        r (w : Wn) :
  let X := sw_cols_of_state fast R L I J N f p rad wa wb vort dive pot (sw_sec2 sinlat) (sw_coriolis omega sinlat) in
  let potw := fun k => sw_pk (pot k) in
  let orogw := option_map sw_pk orog in
  let toMs := sw_toM R L I J f p wq in
  let divs := sw_divc fast R L rad wa wb in
  let curls := sw_curlc fast R L rad wa wb in
  let laps := sw_lap L rad in
  let clips := sw_clip L in
  (r < N)%nat ->
  clips (laps (potw r)) w = laps (potw r) w ->
  clips (divs (toMs (fun q => s_u (X q) r * s_sec2 (X q))) (toMs (fun q => s_v (X q) r * s_sec2 (X q)))) w = sw_pk (dive r) w ->
  let E := sw_explicit_terms fast R L I J N f p wq rad wa wb dens omega sinlat orog vort dive pot in
  let imp := sw_implicit_terms (ref r) (lap_eig L rad (snd w)) (dive r (fst w) (snd w), pot r (fst w) (snd w)) in
  fst (fst E) r w + 0
  = clips (fun w' => - divs (toMs (sw_flux_u Wn X r)) (toMs (sw_flux_v Wn X r)) w') w /\
  snd (fst E) r w + fst imp
  = clips (fun w' => curls (toMs (sw_flux_u Wn X r)) (toMs (sw_flux_v Wn X r)) w'
                     - laps (fun w2 => sumn N (fun j => sw_Rm dens r j * potw j w2) + sw_orog0 Wn orogw w2
                                       + toMs (sw_kin Wn X r) w2) w') w /\
  snd E r w + snd imp
  = clips (fun w' => - divs (toMs (sw_mass_u Wn X ref r)) (toMs (sw_mass_v Wn X ref r)) w') w.
Proof.
  cbv zeta. intros Hr Hpc Hdv.
  exact (sw_concrete_refines_spec fast R L I J f p wq rad wa wb N dens omega sinlat orog vort dive pot ref r w Hr Hpc Hdv).
Qed.

(** non-vacuity at the concrete operators: the zonal grid [rest_grid] (reference layout), two layers at rest with non-zero
    potentials: both obligations hold at the coefficient (0, 1) and the implicit divergence term is non-zero there *)
Definition swc_pot (k a l : nat) : Qc :=
  match a, l with O, O => Q2Qc 1 | O, S O => Q2Qc (inject_Z (Z.of_nat (S k)) / 3) | _, _ => 0 end.
Example C05_sw_concrete_hyps_satisfiable :
  let g := rest_grid in
  let zero := fun (_ _ _ : nat) => (0 : Qc) in
  let X := sw_cols_of_state false 1 3 1 2 2 (hf g) (hp g) (hr g) (ha g) (hb g) zero zero swc_pot (sw_sec2 (hsin g)) (sw_coriolis (Q2Qc (1#2)) (hsin g)) in
  let toMs := sw_toM 1 3 1 2 (hf g) (hp g) (hw g) in
  let divs := sw_divc false 1 3 (hr g) (ha g) (hb g) in
  let w := (0%nat, 1%nat) in
  sw_clip 3 (sw_lap 3 (hr g) (sw_pk (swc_pot 1))) w = sw_lap 3 (hr g) (sw_pk (swc_pot 1)) w /\
  sw_clip 3 (divs (toMs (fun q => s_u (X q) 1 * s_sec2 (X q))) (toMs (fun q => s_v (X q) 1 * s_sec2 (X q)))) w = sw_pk (zero 1%nat) w /\
  fst (sw_implicit_terms (Q2Qc (7#10)) (lap_eig 3 (hr g) 1) (zero 1%nat 0%nat 1%nat, swc_pot 1 0 1)) <> 0.
Proof.
  cbv zeta.
  split; [apply Qc_is_canon; vm_compute; reflexivity|].
  split; [apply Qc_is_canon; vm_compute; reflexivity|].
  intro H; vm_compute in H; discriminate H.
Qed.

(** non-vacuity of the shallow-water hypotheses: one coefficient / one node over Qc, to_modal = clip = identity, div(x,y) = x + y,
    laplacian = multiplication by -2, two layers with densities 1 and 3/2: the hypotheses hold and both implicit terms are non-zero *)
Definition sw_ex_col : @SWCol Qc :=
  mkSWCol (q3 [1#3; -(1#2)]%Q) (q3 [1#5; 1#7]%Q) (q3 [2#3; 1#4]%Q) (q3 [3#2; 5#4]%Q) (Q2Qc (4#3)) (Q2Qc (1#2)).
Example C05_sw_model_hyps_satisfiable :
  let X := fun _ : unit => sw_ex_col in
  let pot := fun (k : nat) (_ : unit) => q3 [3#2; 5#4]%Q k in
  let dive := fun (k : nat) (_ : unit) => s_u sw_ex_col k * s_sec2 sw_ex_col + s_v sw_ex_col k * s_sec2 sw_ex_col in
  let lam := fun _ : unit => Q2Qc (-(2#1)) in
  Thm.PrimEq.linear tI /\ Thm.PrimEq.linear2 tD /\ Thm.PrimEq.linear tL /\
  (forall x w, tL x w = x w * lam w) /\
  (forall r w, tI (tL (pot r)) w = tL (pot r) w) /\
  (forall r w, tI (tD (tI (fun p => s_u (X p) r * s_sec2 (X p))) (tI (fun p => s_v (X p) r * s_sec2 (X p)))) w = dive r w) /\
  fst (sw_implicit_terms (Q2Qc (7#10)) (lam tt) (dive 1%nat tt, pot 1%nat tt)) <> 0 /\
  snd (sw_implicit_terms (Q2Qc (7#10)) (lam tt) (dive 1%nat tt, pot 1%nat tt)) <> 0 /\
  sw_Rm (q3 [1; 3#2]%Q) 1 0 <> 0.
Proof.
  cbv zeta.
  split; [split; [intros x y H b; apply H | intros; unfold tI; cbn; ring]|].
  split; [split; [intros x1 y1 x2 y2 H1 H2 b; unfold tD; now rewrite H1, H2 | intros; unfold tD; cbn; ring]|].
  split; [split; [intros x y H b; unfold tL; now rewrite H | intros; unfold tL; cbn; ring]|].
  split; [intros x []; unfold tL; cbn; ring|].
  split; [intros r w; reflexivity|].
  split; [intros r w; reflexivity|].
  split; [intro H; vm_compute in H; discriminate H|].
  split; [intro H; vm_compute in H; discriminate H|].
  intro H; vm_compute in H; discriminate H.
Qed.

Print Assumptions C05_rest_isothermal_steady.
Print Assumptions C05_primeq_column_refines_spec.
Print Assumptions C05_primeq_column_refines_spec_moist.
Print Assumptions C05_primeq_column_refines_momentum.
Print Assumptions C05_upwind_is_spec.
Print Assumptions C05_primeq_refines_spec.
Print Assumptions C05_primeq_refines_spec_modal_moist.
Print Assumptions C05_rest_isothermal_steady_moist.
Print Assumptions C05_flux_form_is_advective_form.
Print Assumptions C05_operators.
Print Assumptions C05_zonal_polynomial_derivative.
Print Assumptions C05_solid_body_steady.
Print Assumptions C05_sw_polynomial_jet_steady.
Print Assumptions C05_sw_solid_body_one_layer.
Print Assumptions C05_one_layer_formulas_balanced.
Print Assumptions C05_multi_layer_formulas_balanced.
Print Assumptions C05_differential_ring_instance.
Print Assumptions C05_solid_body_steady_series.
Print Assumptions C05_sw_solid_body_series.
Print Assumptions C05_rest_isothermal_steady_R.
Print Assumptions C05_hyps_satisfiable.
Print Assumptions C05_modal_hyps_satisfiable.
Print Assumptions C05_rest_moist_hyps_satisfiable.
Print Assumptions C05_model_is_source.
Print Assumptions C05_gen_primeq_complete.
Print Assumptions C05_whole_state_rest_isothermal_steady.
Print Assumptions C05_whole_state_rest_hyps_satisfiable.
Print Assumptions C05_sw_model_refines_spec.
Print Assumptions C05_sw_model_jet_steady_partial.
Print Assumptions C05_sw_model_hyps_satisfiable.
Print Assumptions C05_sw_concrete_refines_spec.
Print Assumptions C05_sw_concrete_hyps_satisfiable.
Print Assumptions C05_whole_state_rest_isothermal_steady_moist.
Print Assumptions C05_whole_state_rest_moist_hyps_satisfiable.
Print Assumptions C05_whole_state_refines_spec.
Print Assumptions C05_whole_state_solid_body_steady_partial.
Print Assumptions C05_whole_state_rest_isothermal_steady_moist_modal.
Print Assumptions C05_whole_state_rest_moist_modal_hyps_satisfiable.
