(** Property C11 - structural invariants survive any number of steps.
    Statements only; proofs are in Thm/Invariants.v.  Every theorem is for an
    arbitrary field [F] (hence the reals), an arbitrary vector space [V] with
    operators [Fx] (explicit terms), [G] (implicit terms), [Ginv] (implicit
    inverse), an arbitrary step term (all integrators of time_integration.py are
    such terms, see [C11_terms_are_the_integrators]), an arbitrary filter stack
    and EVERY step count [k]. *)
From Dino Require Import Base.Ops Base.Sums Base.Ord Base.Inst Model.Filters Model.Sigma
     Gen.DerivExprs Gen.Tableaux Model.Deriv Model.Invariants Thm.Invariants.
From Dino Require Model.Integrators.
From Dino Require Import Model.ShallowWater Thm.ShallowWater.
From Coq Require Import Reals Qcanon.
Local Open Scope F_scope.
Notation iter := Dino.Model.Invariants.iter.

Section C11.
  Context {F : Type} {o : Ops F} {Fc : FieldC o}.
  Add Field FFp : (field_c : FieldTh o).
  Context {V : Type} {vo : VSp F V}.
  Variables (Fx G : V -> V) (Ginv : F -> V -> V).

  (** ** linear subspaces *)
  Section Subspace.
    Variable S : V -> Prop.
    Hypothesis S_zero : S vz.
    Hypothesis S_add : forall x y, S x -> S y -> S (va x y).
    Hypothesis S_scale : forall c x, S x -> S (vs c x).
    Hypothesis F_into : forall x, S x -> S (Fx x).
    Hypothesis G_pres : forall x, S x -> S (G x).
    Hypothesis Ginv_pres : forall eta x, S x -> S (Ginv eta x).

    Theorem C11_term_preserves_subspace (t : stepterm F) (env : nat -> V) :
      (forall i, S (env i)) -> S (eval Fx G Ginv t env).
    Proof. exact (term_preserves_subspace Fx G Ginv S S_zero S_add S_scale F_into G_pres Ginv_pres t env). Qed.

    Theorem C11_trajectory_in_subspace (t : stepterm F) (filters : list (V -> V -> V)) :
      (forall f, In f filters -> forall u un, S u -> S un -> S (f u un)) ->
      forall k u, S u -> S (iter k (with_filters (step_of Fx G Ginv t) filters) u).
    Proof. exact (trajectory_in_subspace Fx G Ginv S S_zero S_add S_scale F_into G_pres Ginv_pres t filters). Qed.

    Theorem C11_leapfrog_trajectory_in_subspace (t : stepterm F) (filters : list (V * V -> V * V -> V * V)) :
      (forall f, In f filters -> forall u un, S2 S u -> S2 S un -> S2 S (f u un)) ->
      forall k u, S2 S u -> S2 S (iter k (with_filters (lf_step_of Fx G Ginv t) filters) u).
    Proof. exact (lf_trajectory_in_subspace Fx G Ginv S S_zero S_add S_scale F_into G_pres Ginv_pres t filters). Qed.

    (** a linear component that sees F = 0, G = 0, G_inv = id on S never changes *)
    Theorem C11_term_fixes_invariant_component (P : V -> F) (t : stepterm F) (c : F)
            (filters : list (V -> V -> V)) :
      P vz = 0 -> (forall x y, P (va x y) = P x + P y) -> (forall a x, P (vs a x) = a * P x) ->
      (forall x, S x -> P (Fx x) = 0) -> (forall x, S x -> P (G x) = 0) ->
      (forall eta x, S x -> P (Ginv eta x) = P x) ->
      consistent t c ->
      (forall f, In f filters -> forall u un, S u -> S un -> S (f u un) /\ P (f u un) = P un) ->
      forall k u, S u -> P (iter k (with_filters (step_of Fx G Ginv t) filters) u) = P u.
    Proof.
      intros P0 Pa Ps PF PG PI Hc Hf k u Hu.
      rewrite (component_after_k_steps Fx G Ginv S S_zero S_add S_scale F_into G_pres Ginv_pres
                 P 0 P0 Pa Ps PF PG PI t c filters Hc Hf k u Hu).
      ring.
    Qed.
  End Subspace.

  (** ** the support pattern: triangular mask, clipped top wavenumber, padding *)
  Section Pattern.
    Variables (fast : bool) (M L R C : nat).
    Hypothesis HLC : (L <= C)%nat.

    (** explicit_terms = clip_wavenumbers(anything respecting the mask on inputs in the pattern) *)
    Theorem C11_explicit_into_Supp (pre : stack -> stack) :
      (forall x, Supp fast M L R C x -> forall k i l, (i < R)%nat -> (l < C)%nat ->
                 mask fast M L i l = false -> pre x k i l = 0) ->
      forall x, Supp fast M L R C x -> Supp fast M L R C (explicit_model L C pre x).
    Proof. exact (explicit_into_Supp_rel fast M L R C HLC pre). Qed.

    (** the top wavenumber and the padded columns: for ANY input and ANY pre-clip value *)
    Theorem C11_explicit_top_zero (pre : stack -> stack) x k i l :
      (L - 1 <= l)%nat -> explicit_model L C pre x k i l = 0.
    Proof. exact (explicit_top_zero L C HLC pre x k i l). Qed.

    (** implicit terms, implicit inverse (matrices per (m,l)) and filters (scalings per l) *)
    Theorem C11_diagonal_preserves_Supp N A s x :
      Supp fast M L R C x -> Supp fast M L R C (diagop N A x) /\ Supp fast M L R C (lfilter s x).
    Proof.
      intros Hx. split; [exact (diagop_preserves_Supp fast M L R C N A x Hx)|exact (lfilter_preserves_Supp fast M L R C s x Hx)].
    Qed.

    Theorem C11_modal_trajectory_in_Supp (pre : stack -> stack) N AG (AI : F -> nat -> nat -> nat -> nat -> F)
            (t : stepterm F) (scalings : list (nat -> nat -> F)) :
      (forall x, Supp fast M L R C x -> forall k i l, (i < R)%nat -> (l < C)%nat ->
                 mask fast M L i l = false -> pre x k i l = 0) ->
      forall k u, Supp fast M L R C u ->
        Supp fast M L R C
             (iter k (with_filters
                        (step_of (vo := StackSp) (explicit_model L C pre) (diagop N AG) (fun eta => diagop N (AI eta)) t)
                        (map (fun s => rk_filter (lfilter s)) scalings)) u).
    Proof. exact (modal_trajectory_in_Supp fast M L R C HLC pre N AG AI t scalings). Qed.
  End Pattern.

  (** ** global means: the (0,0) coefficients *)
  Section Means.
    Variables (fast : bool) (L R C : nat) (r : F) (a b : @arr2 F).
    Hypothesis Hr : r <> 0.
    Hypothesis HL : (2 <= L)%nat.
    Hypothesis HLC : (L <= C)%nat.
    Hypothesis HR : (0 < R)%nat.

    (** Stokes / Gauss in spectral form: for ANY arguments and ANY weight tables *)
    Theorem C11_mean_tendencies_vanish g uv ke oro pe :
      pe_vort_tend fast L R C r a b uv 0%nat 0%nat = 0 /\
      pe_div_tend fast L R C r a b g uv ke oro 0%nat 0%nat = 0 /\
      sw_vort_tend fast L R C r a b uv 0%nat 0%nat = 0 /\
      sw_div_tend fast L R C r a b uv pe 0%nat 0%nat = 0 /\
      sw_pot_tend fast L R C r a b uv 0%nat 0%nat = 0.
    Proof.
      repeat split.
      - eapply pe_vort_tend_00; eassumption.
      - eapply pe_div_tend_00; eassumption.
      - eapply sw_vort_tend_00; eassumption.
      - eapply sw_div_tend_00; eassumption.
      - eapply sw_pot_tend_00; eassumption.
    Qed.

    Theorem C11_sw_implicit_at_mean eta phi d p :
      sw_impl_div (lap_eig L r 0) p = 0 /\
      sw_inv_div eta phi (lap_eig L r 0) d p = d /\
      sw_inv_pot eta phi (lap_eig L r 0) d p = p - eta * phi * d /\
      sw_impl_pot phi d = - phi * d.
    Proof. eapply (sw_implicit_00 L R C r); eassumption. Qed.
  End Means.

  (** any inverse of (1 - eta G) passes every component that G annihilates
      (first block row [I 0 0] of the implicit matrix at l = 0) *)
  Theorem C11_inverse_passes_component (P : V -> F) eta y :
    (forall x y, P (va x y) = P x + P y) -> (forall c x, P (vs c x) = c * P x) -> (forall x, P (G x) = 0) ->
    va (Ginv eta y) (vs (- eta) (G (Ginv eta y))) = y -> P (Ginv eta y) = P y.
  Proof. intros Pa Ps PG. exact (inverse_passes_component G Ginv P Pa Ps PG eta y). Qed.

  (** shallow water: (0,0) potential tendency -phiref * div00, so the mean thickness is
      conserved along every trajectory that starts with zero mean divergence *)
  Theorem C11_sw_mean_thickness_conserved (D P : V -> F) (phiref : F) (t : stepterm F) (c : F)
          (filters : list (V -> V -> V)) :
    D vz = 0 -> (forall x y, D (va x y) = D x + D y) -> (forall a x, D (vs a x) = a * D x) ->
    P vz = 0 -> (forall x y, P (va x y) = P x + P y) -> (forall a x, P (vs a x) = a * P x) ->
    (forall x, D (Fx x) = 0) -> (forall x, D (G x) = 0) -> (forall eta x, D (Ginv eta x) = D x) ->
    (forall x, P (Fx x) = 0) -> (forall x, P (G x) = - phiref * D x) ->
    (forall eta x, P (Ginv eta x) = P x - eta * phiref * D x) ->
    consistent t c ->
    (forall f, In f filters -> forall u un, D (f u un) = D un /\ P (f u un) = P un) ->
    forall k u, D u = 0 ->
      P (iter k (with_filters (step_of Fx G Ginv t) filters) u) = P u /\
      D (iter k (with_filters (step_of Fx G Ginv t) filters) u) = 0.
  Proof.
    intros. eapply (sw_mean_thickness_conserved Fx G Ginv D P phiref); eauto.
  Qed.

  (** ** scalar images of all integrators (arbitrary coefficient lists / tableaux) *)
  Theorem C11_integrators_consistent (dt : F) :
    consistent (euler_term dt) dt /\
    ((1 + 1 : F) <> 0 -> consistent (cn_rk2_term dt) dt) /\
    (forall al be ga, consistent (ls_step_term dt al be ga) (dt * ls_consistency al be ga)) /\
    (forall a_ex a_im b_ex b_im t, imex_term dt a_ex a_im b_ex b_im = Some t ->
                                   consistent t (dt * imex_consistency a_ex a_im b_ex)) /\
    (forall alpha ph pe, aeval ph (leapfrog_term dt alpha) pe = pe 0%nat + itwo * dt * ph).
  Proof.
    split; [|split; [|split; [|split]]].
    - exact (euler_consistent dt).
    - exact (cn_rk2_consistent dt).
    - exact (ls_consistent dt).
    - exact (imex_consistent dt).
    - intros alpha ph pe. exact (leapfrog_scalar dt alpha ph pe).
  Qed.

  (** ** sim_time: explicit tendency tdot (1.0 in the code), implicit tendency 0, the
      inverse and the filters pass it through: t0 + k * (c * tdot) after k steps *)
  Theorem C11_sim_time_advances (tdot : F) (t : stepterm F) (c : F) (fs : list (V -> V)) k (u : V * F) :
    consistent t c ->
    snd (iter k (with_filters (step_of (vo := TimedSp vo) (timed_F tdot Fx) (timed_G G) (timed_Ginv Ginv) t)
                              (map (fun f => rk_filter (timed_filter f)) fs)) u)
    = snd u + lit k * (c * tdot).
  Proof. exact (sim_time_advances Fx G Ginv tdot t c fs k u). Qed.

  (** filtering._preserves_shape: a scaling with at least one axis never touches a scalar leaf *)
  Theorem C11_filter_leaves_scalar_leaf (sc : Filters.arr) (t : F) :
    fst sc <> [] -> rescale sc (scalar_arr t) = scalar_arr t.
  Proof. exact (filter_leaves_scalar sc t). Qed.

  (** ** uniform tracer *)
  (** vertical advection of a level-constant field is exactly 0 (all K, all level sets, all velocities) *)
  Theorem C11_uniform_tracer_vertical K (b w : nat -> F) (c wt wb : F) n :
    centered_vertical_advection K b w (fun _ => c) wt wb 0 0 n = 0.
  Proof. exact (cva_constant K b w c wt wb n). Qed.

  (** horizontal part under the named hypothesis H_uv_roundtrip (last premise):
      to_modal(c*div + vertical) - H(c u, c v) = 0 *)
  Theorem C11_uniform_tracer_horizontal {N : Type} (scaleN : F -> N -> N) (addN : N -> N -> N) (zeroN : N)
          (to_modal : N -> F) (Hop : N -> N -> F) (c : F) (divn un vn vert : N) :
    (forall k x, to_modal (scaleN k x) = k * to_modal x) ->
    (forall x y, to_modal (addN x y) = to_modal x + to_modal y) ->
    (forall k x y, Hop (scaleN k x) (scaleN k y) = k * Hop x y) ->
    to_modal vert = 0 ->
    Hop un vn = to_modal divn ->
    to_modal (addN (scaleN c divn) vert) + - Hop (scaleN c un) (scaleN c vn) = 0.
  Proof. exact (uniform_tracer_horizontal scaleN addN zeroN to_modal Hop c divn un vn vert). Qed.

  (** hence: if the tracer tendency vanishes on the subspace U of states with a uniform
      tracer (the two facts above), U is invariant and every tracer coefficient P is
      constant along every trajectory *)
  Theorem C11_uniform_tracer_stays_uniform (U : V -> Prop) (P : V -> F) (t : stepterm F) (c : F)
          (filters : list (V -> V -> V)) :
    U vz -> (forall x y, U x -> U y -> U (va x y)) -> (forall a x, U x -> U (vs a x)) ->
    (forall x, U x -> U (Fx x)) -> (forall x, U x -> U (G x)) -> (forall eta x, U x -> U (Ginv eta x)) ->
    P vz = 0 -> (forall x y, P (va x y) = P x + P y) -> (forall a x, P (vs a x) = a * P x) ->
    (forall x, U x -> P (Fx x) = 0) -> (forall x, U x -> P (G x) = 0) ->
    (forall eta x, U x -> P (Ginv eta x) = P x) ->
    consistent t c ->
    (forall f, In f filters -> forall u un, U u -> U un -> U (f u un) /\ P (f u un) = P un) ->
    forall k u, U u ->
      U (iter k (with_filters (step_of Fx G Ginv t) filters) u) /\
      P (iter k (with_filters (step_of Fx G Ginv t) filters) u) = P u.
  Proof.
    intros U0 Ua Us UF UG UI P0 Pa Ps PF PG PI Hc Hf k u Hu. split.
    - apply (trajectory_in_subspace Fx G Ginv U U0 Ua Us UF UG UI); [|exact Hu].
      intros f Hin v vn Hv Hvn. exact (proj1 (Hf f Hin v vn Hv Hvn)).
    - exact (C11_term_fixes_invariant_component U U0 Ua Us UF UG UI P t c filters P0 Pa Ps PF PG PI Hc Hf k u Hu).
  Qed.

  (** ** the step terms are the step functions of the C06 model of time_integration.py *)
  Theorem C11_terms_are_the_integrators (dt : F) :
    let Gi := fun x eta => Ginv eta x in
    let vo' := toVOps (vo := vo) in
    (forall u, step_of Fx G Ginv (euler_term dt) u = Integrators.euler_step (vo := vo') Fx Gi dt u) /\
    (forall u, step_of Fx G Ginv (cn_rk2_term dt) u = Integrators.cn_rk2_step (vo := vo') Fx G Gi dt u) /\
    (forall al be ga u, step_of Fx G Ginv (ls_step_term dt al be ga) u
                        = Integrators.ls_step (vo := vo') Fx G Gi dt al be ga u) /\
    (forall a_ex a_im b_ex b_im u,
        option_map (fun t => step_of Fx G Ginv t u) (imex_term dt a_ex a_im b_ex b_im)
        = Integrators.imex_step (vo := vo') Fx G Gi dt a_ex a_im b_ex b_im u) /\
    (forall alpha pc, lf_step_of Fx G Ginv (leapfrog_term dt alpha) pc
                      = Integrators.leapfrog_step (vo := vo') Fx G Gi dt alpha pc).
  Proof.
    cbv zeta. split; [|split; [|split; [|split]]].
    - exact (bridge_euler Fx G Ginv dt).
    - exact (bridge_cn_rk2 Fx G Ginv dt).
    - intros al be ga u. exact (bridge_ls Fx G Ginv dt al be ga u).
    - intros a_ex a_im b_ex b_im u. exact (bridge_imex Fx G Ginv dt a_ex a_im b_ex b_im u).
    - intros alpha pc. exact (bridge_leapfrog Fx G Ginv dt alpha pc).
  Qed.
End C11.

(** ** the coefficient tables of the source (Gen/Tableaux.v, regenerated on every run) *)
Theorem C11_concrete_consistency_sums :
  ls_consistency (qcl rk3_alphas) (qcl rk3_betas) (qcl rk3_gammas) = 1 /\
  fle (fabs (ls_consistency (qcl rk4_alphas) (qcl rk4_betas) (qcl rk4_gammas) - 1)) (Q2Qc (1 # 1000000000000)) /\
  imex_consistency (qcll sil3_a_ex) (qcll sil3_a_im) (qcl sil3_b_ex) = 1 /\
  (forall dt : Qc, exists t, imex_term dt (qcll sil3_a_ex) (qcll sil3_a_im) (qcl sil3_b_ex) (qcl sil3_b_im) = Some t).
Proof.
  split; [|split; [|split]].
  - exact rk3_consistency.
  - exact rk4_consistency.
  - exact sil3_consistency.
  - exact sil3_term_defined.
Qed.

(** sim_time with the generated tables: exactly t0 + k*dt for RK3 and SIL3, and
    t0 + k*dt*c with |c - 1| <= 1e-12 for the decimal RK4 coefficients *)
Theorem C11_sim_time_advances_rk4 {V : Type} {vo : VSp Qc V} (Fx G : V -> V) (Ginv : Qc -> V -> V)
        (dt : Qc) (fs : list (V -> V)) k (u : V * Qc) :
  let run t := snd (iter k (with_filters (step_of (vo := TimedSp vo) (timed_F 1 Fx) (timed_G G) (timed_Ginv Ginv) t)
                                         (map (fun f => rk_filter (timed_filter f)) fs)) u) in
  run (ls_step_term dt (qcl rk3_alphas) (qcl rk3_betas) (qcl rk3_gammas)) = snd u + lit k * dt /\
  (forall t, imex_term dt (qcll sil3_a_ex) (qcll sil3_a_im) (qcl sil3_b_ex) (qcl sil3_b_im) = Some t ->
             run t = snd u + lit k * dt) /\
  exists c, fle (fabs (c - 1)) (Q2Qc (1 # 1000000000000)) /\
            run (ls_step_term dt (qcl rk4_alphas) (qcl rk4_betas) (qcl rk4_gammas)) = snd u + lit k * (dt * c).
Proof.
  cbv zeta. repeat split.
  - rewrite (sim_time_advances Fx G Ginv 1 _ _ fs k u (ls_consistent dt _ _ _)).
    rewrite rk3_consistency. f_equal. f_equal. change (dt * 1 * 1 = dt)%Qc. ring.
  - intros t Ht. rewrite (sim_time_advances Fx G Ginv 1 _ _ fs k u (imex_consistent dt _ _ _ _ t Ht)).
    rewrite sil3_consistency. f_equal. f_equal. change (dt * 1 * 1 = dt)%Qc. ring.
  - exists (ls_consistency (qcl rk4_alphas) (qcl rk4_betas) (qcl rk4_gammas)). split; [exact rk4_consistency|].
    rewrite (sim_time_advances Fx G Ginv 1 _ _ fs k u (ls_consistent dt _ _ _)).
    f_equal. f_equal. set (c := ls_consistency _ _ _). change (dt * c * 1 = dt * c)%Qc. ring.
Qed.

(** over the reals (Euler and CN-RK2; any consistent term) *)
Theorem C11_sim_time_advances_R {V : Type} {vo : VSp R V} (Fx G : V -> V) (Ginv : R -> V -> V)
        (dt : R) (fs : list (V -> V)) k (u : V * R) :
  snd (iter k (with_filters (step_of (vo := TimedSp vo) (timed_F 1%R Fx) (timed_G G) (timed_Ginv Ginv) (cn_rk2_term dt))
                            (map (fun f => rk_filter (timed_filter f)) fs)) u)
  = (snd u + @lit R ROps k * (dt * 1))%R.
Proof.
  assert (H2 : (@fadd R ROps 1 1 : R) <> 0).
  { cbn. intro H. apply (Rlt_irrefl 0). rewrite <- H at 2. apply Rplus_lt_0_compat; exact Rlt_0_1. }
  exact (sim_time_advances (F := R) Fx G Ginv 1%R (cn_rk2_term dt) dt fs k u (cn_rk2_consistent dt H2)).
Qed.

(** Non-vacuity: a concrete non-linear timed system over Qc (F(x) = x*x + 1, G(x) = -x,
    G_inv(eta, x) = x/(1+eta)); two RK3 steps with a filter advance the time by
    exactly 2/10; and a concrete 3 x 3 modal array on which the pattern hypotheses hold
    while the clipped explicit tendency is not identically zero. *)
Example C11_hyps_satisfiable :
  let dt := Q2Qc (1 # 10) in
  let t := ls_step_term dt (qcl rk3_alphas) (qcl rk3_betas) (qcl rk3_gammas) in
  let Fx := fun x : Qc => x * x + 1 in
  let G := fun x : Qc => - x in
  let Ginv := fun eta x : Qc => x / (1 + eta) in
  let step := with_filters (step_of (vo := TimedSp FSp) (timed_F 1 Fx) (timed_G G) (timed_Ginv Ginv) t)
                           [rk_filter (timed_filter (fun x => Q2Qc (1 # 2) * x))] in
  consistent t dt /\
  snd (iter 2 step (Q2Qc 2, Q2Qc 0)) = Q2Qc (1 # 5) /\
  fst (iter 2 step (Q2Qc 2, Q2Qc 0)) <> 0 /\
  let pre := fun (x : stack) k i l => if mask false 2 3 i l then x k i l * x k i l + 1 else 0 in
  let x0 : stack := fun k i l => if must_vanish false 2 3 i l then 0 else Q2Qc (1 # 2) in
  Supp false 2 3 3 3 x0 /\
  (forall x k i l, mask false 2 3 i l = false -> pre x k i l = 0) /\
  explicit_model 3 3 pre x0 0%nat 0%nat 0%nat <> 0 /\
  Supp false 2 3 3 3 (explicit_model 3 3 pre x0).
Proof.
  cbv zeta. split; [|split; [|split; [|split; [|split; [|split]]]]].
  - intros ph pe. rewrite (ls_consistent (Q2Qc (1 # 10)) _ _ _ ph pe), rk3_consistency.
    f_equal; try (change (Q2Qc (1 # 10) * 1 * ph = Q2Qc (1 # 10) * ph)%Qc; ring).
  - apply Qc_is_canon. vm_compute. reflexivity.
  - match goal with |- ?v <> _ => assert (E : Qeq_bool v 0 = false) by (vm_compute; reflexivity); intro H; rewrite H in E; discriminate E end.
  - intros k i l _ _ Hm. rewrite Hm. reflexivity.
  - intros x k i l Hm. rewrite Hm. reflexivity.
  - match goal with |- ?v <> _ => assert (E : Qeq_bool v 0 = false) by (vm_compute; reflexivity); intro H; rewrite H in E; discriminate E end.
  - apply (explicit_into_Supp false 2 3 3 3 (le_n 3)). intros x k i l _ _ Hm. rewrite Hm. reflexivity.
Qed.

(** ** maybe_fix_sim_time_roundoff (dt * round(sim_time / dt)) as the last step filter:
    for any rounding to the nearest integer, any dt <> 0 of either sign, any scheme whose
    consistency sum cs is within 1/2 of 1, any array filters: from n0*dt (n0 any integer,
    negative, zero or positive) the clock after k steps is exactly (n0 + k)*dt *)
Theorem C11_fix_time_trajectory {F : Type} {o : Ops F} {Oc : OrdFieldC o} (ZM : ZMorph o)
        (rnd : F -> Z) (dt cs : F) {V : Type} {vo : VSp F V} (Fx G : V -> V) (Ginv : F -> V -> V)
        (t : stepterm F) (fs : list (V -> V)) (n0 : Z) k (u : V * F) :
  nearest rnd -> dt <> 0 -> flt (1 - ihalf) cs -> flt cs (1 + ihalf) ->
  consistent t (dt * cs) -> snd u = dt * fofZ n0 ->
  snd (iter k (with_filters (step_of (vo := TimedSp vo) (timed_F 1 Fx) (timed_G G) (timed_Ginv Ginv) t)
                            (map (fun f => rk_filter (timed_filter f)) fs
                                 ++ [rk_filter (fix_time_filter rnd dt)])) u)
  = dt * fofZ (n0 + Z.of_nat k)%Z.
Proof.
  intros Hn Hdt Hlo Hhi Hc Hu.
  exact (fix_time_trajectory ZM rnd dt cs Hn Hdt Hlo Hhi Fx G Ginv t fs n0 k u Hc Hu).
Qed.

(** instance: round-half-to-even on the rationals (the model of jnp.round that is run
    against the implementation) is a rounding to nearest; with the generated RK3 table the
    clock started at n0*dt is at (n0 + k)*dt after k steps, for every integer n0 and every k *)
Theorem C11_fix_time_round_half_even {V : Type} {vo : VSp Qc V} (Fx G : V -> V) (Ginv : Qc -> V -> V)
        (dt : Qc) (fs : list (V -> V)) (n0 : Z) k (u : V * Qc) :
  nearest (fun x : Qc => rhe (this x)) /\
  (dt <> 0 -> snd u = dt * fofZ n0 ->
   snd (iter k (with_filters (step_of (vo := TimedSp vo) (timed_F 1 Fx) (timed_G G) (timed_Ginv Ginv)
                                      (ls_step_term dt (qcl rk3_alphas) (qcl rk3_betas) (qcl rk3_gammas)))
                             (map (fun f => rk_filter (timed_filter f)) fs
                                  ++ [rk_filter (fix_time_filter (fun x : Qc => rhe (this x)) dt)])) u)
   = dt * fofZ (n0 + Z.of_nat k)%Z).
Proof.
  split; [exact rnd_qc_nearest|]. intros Hdt Hu.
  assert (Hlo : @flt Qc QcOps (1 - ihalf) 1) by (vm_compute; reflexivity).
  assert (Hhi : @flt Qc QcOps 1 (1 + ihalf)) by (vm_compute; reflexivity).
  assert (Hc : consistent (ls_step_term dt (qcl rk3_alphas) (qcl rk3_betas) (qcl rk3_gammas)) (dt * 1)).
  { rewrite <- rk3_consistency. apply ls_consistent. }
  exact (fix_time_trajectory QcZMorph _ dt 1 rnd_qc_nearest Hdt Hlo Hhi Fx G Ginv _ fs n0 k u Hc Hu).
Qed.


(** ** the shallow-water explicit terms as modelled in Model/ShallowWater.v (the concrete assembly of
    ShallowWaterEquations.explicit_terms: all layers, density ratios, orography; proofs in Thm/ShallowWater.v) *)
Section C11_shallow_water.
  Context {F : Type} {o : Ops F} {Fc : FieldC o}.
  Variables (fast : bool) (M R L I J N : nat) (f : nat -> nat -> F) (p : nat -> nat -> nat -> F) (wq : nat -> F)
            (rad : F) (wa wb : @arr2 F) (dens : nat -> F).
  Let toM := sw_toM R L I J f p wq.
  Let divc := sw_divc fast R L rad wa wb.
  Let curlc := sw_curlc fast R L rad wa wb.
  Let lap := sw_lap (F := F) L rad.
  Let clp := sw_clip (F := F) L.

  (** global means: the (0,0) coefficients of the vorticity, divergence and potential (layer thickness) tendencies of
      every layer vanish for ANY nodal columns, potentials, orography, densities and ANY tables *)
  Theorem C11_sw_mean_tendencies_vanish (X : Wn -> SWCol) (pot : nat -> Wn -> F) (orog : option (Wn -> F)) r :
    rad <> 0 -> (2 <= L)%nat -> (0 < R)%nat ->
    sw_vort_explicit Wn Wn toM divc clp X r (0%nat, 0%nat) = 0 /\
    sw_div_explicit Wn Wn toM curlc lap clp N dens X pot orog r (0%nat, 0%nat) = 0 /\
    sw_pot_explicit Wn Wn toM divc clp X r (0%nat, 0%nat) = 0.
  Proof. intros; eapply sw_mean_tendencies_vanish; eassumption. Qed.

  (** the clipped top total wavenumber: unconditional *)
  Theorem C11_sw_explicit_top_zero (X : Wn -> SWCol) (pot : nat -> Wn -> F) (orog : option (Wn -> F)) r a l :
    (L - 1 <= l)%nat ->
    sw_vort_explicit Wn Wn toM divc clp X r (a, l) = 0 /\
    sw_div_explicit Wn Wn toM curlc lap clp N dens X pot orog r (a, l) = 0 /\
    sw_pot_explicit Wn Wn toM divc clp X r (a, l) = 0.
  Proof. intros; eapply sw_explicit_top_zero; eassumption. Qed.

  (** the whole support pattern (triangular mask and top wavenumber), under the named hypotheses sw_H_p_support
      (basis functions f * p zero outside the mask) and sw_H_deriv_mask (div / curl keep the mask), for modal inputs
      (potentials, orography) in the pattern *)
  Theorem C11_sw_explicit_into_Supp (X : Wn -> SWCol) (pot : nat -> Wn -> F) (orog : option (Wn -> F)) :
    sw_H_p_support fast M R L I J f p -> sw_H_deriv_mask fast M R L rad wa wb ->
    (forall b, (b < N)%nat -> sw_masked fast M R L (pot b)) -> (forall h, orog = Some h -> sw_masked fast M R L h) ->
    Supp fast M L R L (fun k i l => sw_vort_explicit Wn Wn toM divc clp X k (i, l)) /\
    Supp fast M L R L (fun k i l => sw_div_explicit Wn Wn toM curlc lap clp N dens X pot orog k (i, l)) /\
    Supp fast M L R L (fun k i l => sw_pot_explicit Wn Wn toM divc clp X k (i, l)).
  Proof. intros; eapply sw_explicit_into_Supp; eassumption. Qed.
End C11_shallow_water.


(** ** the CONCRETE whole-state primitive-equation model (Model/PrimEqFull.v: explicit_terms_full, implicit_terms_full,
    implicit_inverse_full = PrimitiveEquations.explicit_terms / implicit_terms / implicit_inverse, dry class, reference
    layout, any number of levels and tracers, with orography; proofs in Thm/InvariantsFull.v).  The table obligations
    H_pre_mask / H_mean_tendency_zero of the abstract theorems above are THEOREMS here. *)
From Dino Require Import Model.Implicit Model.PrimEq Model.PrimEqFull Thm.InvariantsFull.

Section C11_primitive_equations.
  Context {F : Type} {o : Ops F} {Fc : FieldC o}.
  Variables (g : @HGrid F) (c : @PEcfg F) (grav : F) (orog : nat -> nat -> F).
  Let E := explicit_terms_full g c grav orog.
  Let G := implicit_terms_full g c.

  (** the clipped top total wavenumber (and everything beyond): every field, level, tracer, state, ALL tables *)
  Theorem C11_pe_explicit_top_zero (s : @State F) a l :
    (hL g - 1 <= l)%nat ->
    (forall k, s_vort (E s) k a l = 0) /\ (forall k, s_div (E s) k a l = 0) /\ (forall k, s_temp (E s) k a l = 0) /\
    (s_lnps (E s) a l = 0) /\ List.Forall (fun t : nat -> nat -> nat -> F => forall k, t k a l = 0) (s_tr (E s)).
  Proof. exact (pe_explicit_top_zero g c grav orog s a l). Qed.

  (** the whole pattern for ANY input state (the input may violate the pattern), under the named hypotheses
      pe_H_p_support (f * p zero outside the mask), pe_H_deriv_mask (div / curl keep the mask), orography in the mask *)
  Theorem C11_pe_explicit_into_Supp (s : @State F) :
    pe_H_p_support g -> pe_H_deriv_mask g -> pe_masked g orog -> StSupp g (E s).
  Proof. exact (pe_explicit_into_Supp g c grav orog s). Qed.

  (** Stokes / Gauss: (0,0) coefficients of the vorticity and divergence tendencies, explicit and implicit, every level,
      ANY state, ALL tables *)
  Theorem C11_pe_mean_tendencies_vanish (s : @State F) k :
    hr g <> 0 -> (2 <= hL g)%nat -> (0 < hR g)%nat ->
    s_vort (E s) k 0%nat 0%nat = 0 /\ s_div (E s) k 0%nat 0%nat = 0 /\
    s_vort (G s) k 0%nat 0%nat = 0 /\ s_div (G s) k 0%nat 0%nat = 0.
  Proof.
    intros Hr HL HR0. destruct (pe_explicit_means_vanish g c grav orog s k Hr HL HR0) as [A B].
    destruct (pe_implicit_means_vanish g c s k Hr) as [A' B']. repeat split; assumption.
  Qed.

  (** implicit terms and implicit inverse (ANY inverse tables) map the pattern to itself *)
  Theorem C11_pe_implicit_preserve_Supp (eta : F) (invt : nat -> @Mat F) (s : @State F) :
    StSupp g s -> StSupp g (G s) /\ StSupp g (implicit_inverse_full g c eta invt s).
  Proof. intros Hs. split; [now apply pe_implicit_preserves_Supp|now apply pe_inverse_preserves_Supp]. Qed.

  Variable invt : F -> nat -> @Mat F.
  Let Gi := fun eta => implicit_inverse_full g c eta (invt eta).

  (** trajectories: every step term (all integrators are such terms: C11_terms_are_the_integrators), every filter stack
      that keeps the pattern, every number of steps; Runge-Kutta type and leapfrog *)
  Theorem C11_primeq_trajectory_in_subspace (t : stepterm F) (filters : list (@State F -> @State F -> @State F)) :
    pe_H_p_support g -> pe_H_deriv_mask g -> pe_masked g orog ->
    (forall f, In f filters -> forall u un, StSupp g u -> StSupp g un -> StSupp g (f u un)) ->
    forall k u, StSupp g u ->
      StSupp g (iter k (with_filters (step_of (vo := StateSp) E G Gi t) filters) u).
  Proof. exact (primeq_trajectory_in_subspace g c grav orog invt t filters). Qed.

  Theorem C11_primeq_leapfrog_trajectory_in_subspace (t : stepterm F)
          (filters : list (@State F * @State F -> @State F * @State F -> @State F * @State F)) :
    pe_H_p_support g -> pe_H_deriv_mask g -> pe_masked g orog ->
    (forall f, In f filters -> forall u un, S2 (StSupp g) u -> S2 (StSupp g) un -> S2 (StSupp g) (f u un)) ->
    forall k u, S2 (StSupp g) u ->
      S2 (StSupp g) (iter k (with_filters (lf_step_of (vo := StateSp) E G Gi t) filters) u).
  Proof. exact (primeq_leapfrog_trajectory_in_subspace g c grav orog invt t filters). Qed.

  (** global means never change, from ANY initial state: vorticity unconditionally; divergence when the divergence rows of
      the inverse table at total wavenumber 0 are unit rows (pe_H_inv0_div_rows: first block row [I 0 0]) *)
  Theorem C11_primeq_means_conserved (t : stepterm F) (cs : F) (filters : list (@State F -> @State F -> @State F)) lev :
    hr g <> 0 -> (2 <= hL g)%nat -> (0 < hR g)%nat ->
    consistent t cs ->
    (forall f, In f filters -> forall u un, P_vort lev (f u un) = P_vort lev un /\ P_div lev (f u un) = P_div lev un) ->
    forall k u,
      P_vort lev (iter k (with_filters (step_of (vo := StateSp) E G Gi t) filters) u) = P_vort lev u /\
      (pe_H_inv0_div_rows c invt -> (lev < cK c)%nat ->
       P_div lev (iter k (with_filters (step_of (vo := StateSp) E G Gi t) filters) u) = P_div lev u).
  Proof. exact (primeq_means_conserved g c grav orog invt t cs filters lev). Qed.
End C11_primitive_equations.

(** the named hypotheses (except pe_H_deriv_mask, which is a statement about all pairs of arrays and is re-checked on the
    implementation's operators like sw_H_deriv_mask) are satisfiable on a concrete 3 x 3 instance over Qc (M = 2, L = 3; tables that are non-zero
    inside the mask), with the exact inverse at total wavenumber 0 *)
Definition ex_pe_grid : @HGrid Qc :=
  mkHG 2 3 2 2 1 (fun _ _ => 1) (fun a _ l => if mask false 2 3 a l then 1 else 0) (fun _ => 1)
       (fun _ _ => 0) (fun _ _ => 1) (fun _ => 1) (fun _ => 0) 1.
Definition ex_pe_cfg : @PEcfg Qc := mkPE 2 1 1 (fun k => fofZ (Z.of_nat k)) (fun k => fofZ (Z.of_nat k)) (fun _ => 1).
Definition ex_pe_invt (eta : Qc) (_ : nat) : @Mat Qc :=
  fun i j => if Nat.ltb i 2 then eye i j
             else if Nat.ltb j 2 then (if Nat.ltb i 4 then - (eta * temp_weights ex_pe_cfg (i - 2)%nat j)
                                       else - (eta * thickness (cb ex_pe_cfg) j))
                  else eye i j.
Example C11_pe_hyps_satisfiable :
  pe_H_p_support ex_pe_grid /\
  pe_masked ex_pe_grid (fun a l => if mask false 2 3 a l then 1 else 0) /\
  pe_H_inv0_div_rows ex_pe_cfg ex_pe_invt /\
  (exists a l, (a < 3)%nat /\ (l < 3)%nat /\ mask false 2 3 a l = false) /\
  hf ex_pe_grid 0%nat 0%nat * hp ex_pe_grid 0%nat 0%nat 0%nat <> 0.
Proof.
  split; [|split; [|split; [|split]]].
  - intros i a j l _ _ _ _ Hm. cbn [ex_pe_grid hf hp hM hL] in *. rewrite Hm. apply Qc_is_canon. vm_compute. reflexivity.
  - intros a l _ _ Hm. cbn [ex_pe_grid hM hL] in Hm. rewrite Hm. reflexivity.
  - intros eta i j Hi _. unfold ex_pe_invt. cbn [ex_pe_cfg cK] in Hi. destruct (Nat.ltb_spec i 2); [reflexivity|lia].
  - exists 1%nat, 0%nat. repeat split; lia.
  - intro H. vm_compute in H. discriminate H.
Qed.

(** ** Tie to the source by translation: [maybe_fix_sim_time_roundoff] of the model is the transcribed
    expression [dt * jnp.round(state.sim_time / dt)] (tools/translate/gen_combinators.py). *)
(** ** round 2: the named hypotheses of the concrete primitive-equation theorems derived from more primitive facts *)
From Dino Require Import Model.Legendre Model.Symmetry Thm.SymmetryLegendre.

Section C11_primitive_equations_derived.
  Context {F : Type} {o : Ops F} {Fc : FieldC o}.
  Variables (g : @HGrid F) (c : @PEcfg F) (grav : F) (orog : nat -> nat -> F) (invt : F -> nat -> @Mat F).
  Let E := explicit_terms_full g c grav orog.
  Let G := implicit_terms_full g c.
  Let Gi := fun eta => implicit_inverse_full g c eta (invt eta).

  (** pe_H_inv0_div_rows holds for EVERY right inverse of the assembled implicit matrix at total wavenumber 0
      (whose divergence rows are the unit rows [I 0 0] because the laplacian eigenvalue is 0) *)
  Theorem C11_pe_right_inverse_div_rows :
    hr g <> 0 -> (2 <= hL g)%nat -> pe_H_inv0_right_inverse g c invt -> pe_H_inv0_div_rows c invt.
  Proof. exact (pe_right_inverse_div_rows g c invt). Qed.

  (** pe_H_p_support holds for the table the code builds: basis.p[a] = legendre.evaluate(M, L, x)[|m(a)|]
      (Model/Legendre.v; the support is proved from the recurrence in Thm/Legendre.v) *)
  Theorem C11_pe_H_p_support_from_recurrence (sq : F -> F) (x y : nat -> F) :
    pe_p_is_evaluate g sq x y -> pe_H_p_support g.
  Proof. exact (pe_H_p_support_from_recurrence g sq x y). Qed.

  (** pe_H_deriv_mask holds whenever the recurrence weight a vanishes at l = |m| (reference layout; ANY b, radius) *)
  Theorem C11_pe_H_deriv_mask_from_weights : pe_H_a_diag g -> pe_H_deriv_mask g.
  Proof. exact (pe_H_deriv_mask_from_weights g). Qed.

  (** the pattern theorems resting on: basis.p is the recurrence table, a = 0 at l = |m|, orography in the mask *)
  Theorem C11_pe_explicit_into_Supp_from_recurrence (sq : F -> F) (x y : nat -> F) (s : @State F) :
    pe_p_is_evaluate g sq x y -> pe_H_a_diag g -> pe_masked g orog -> StSupp g (E s).
  Proof. exact (pe_explicit_into_Supp_from_recurrence g c grav orog sq x y s). Qed.

  Theorem C11_primeq_trajectory_in_subspace_from_recurrence (sq : F -> F) (x y : nat -> F)
          (t : stepterm F) (filters : list (@State F -> @State F -> @State F)) :
    pe_p_is_evaluate g sq x y -> pe_H_a_diag g -> pe_masked g orog ->
    (forall f, In f filters -> forall u un, StSupp g u -> StSupp g un -> StSupp g (f u un)) ->
    forall k u, StSupp g u ->
      StSupp g (iter k (with_filters (step_of (vo := StateSp) E G Gi t) filters) u).
  Proof. exact (primeq_trajectory_in_subspace_from_recurrence g c grav orog invt sq x y t filters). Qed.

  Theorem C11_primeq_leapfrog_trajectory_in_subspace_from_recurrence (sq : F -> F) (x y : nat -> F) (t : stepterm F)
          (filters : list (@State F * @State F -> @State F * @State F -> @State F * @State F)) :
    pe_p_is_evaluate g sq x y -> pe_H_a_diag g -> pe_masked g orog ->
    (forall f, In f filters -> forall u un, S2 (StSupp g) u -> S2 (StSupp g) un -> S2 (StSupp g) (f u un)) ->
    forall k u, S2 (StSupp g) u ->
      S2 (StSupp g) (iter k (with_filters (lf_step_of (vo := StateSp) E G Gi t) filters) u).
  Proof. exact (primeq_leapfrog_trajectory_in_subspace_from_recurrence g c grav orog invt sq x y t filters). Qed.

  (** global means of vorticity AND divergence never change, from ANY initial state, for every consistent step term,
      every number of steps: the only fact about the inverse tables is that the one of total wavenumber 0 is a right inverse *)
  Theorem C11_primeq_means_conserved_from_inverse (t : stepterm F) (cs : F)
          (filters : list (@State F -> @State F -> @State F)) lev :
    hr g <> 0 -> (2 <= hL g)%nat -> (0 < hR g)%nat ->
    consistent t cs ->
    (forall f, In f filters -> forall u un, P_vort lev (f u un) = P_vort lev un /\ P_div lev (f u un) = P_div lev un) ->
    pe_H_inv0_right_inverse g c invt -> (lev < cK c)%nat ->
    forall k u,
      P_vort lev (iter k (with_filters (step_of (vo := StateSp) E G Gi t) filters) u) = P_vort lev u /\
      P_div lev (iter k (with_filters (step_of (vo := StateSp) E G Gi t) filters) u) = P_div lev u.
  Proof. exact (primeq_means_conserved_from_inverse g c grav orog invt t cs filters lev). Qed.

  (** semi_implicit_leapfrog (any dt, alpha), any filters that keep "both snapshots have mean m": if both snapshots start
      with the same global mean m it stays m on both snapshots for every number of steps (the unfiltered scheme alone would
      only swap the two means) *)
  Theorem C11_primeq_leapfrog_means_conserved (dt alpha : F) lev (mv md : F)
          (filters : list (@State F * @State F -> @State F * @State F -> @State F * @State F)) :
    hr g <> 0 -> (2 <= hL g)%nat -> (0 < hR g)%nat ->
    (forall k u, (forall f, In f filters -> forall v vn, Pm (P_vort lev) mv v -> Pm (P_vort lev) mv vn -> Pm (P_vort lev) mv (f v vn)) ->
                 Pm (P_vort lev) mv u ->
                 Pm (P_vort lev) mv (iter k (with_filters (lf_step_of (vo := StateSp) E G Gi (leapfrog_term dt alpha)) filters) u)) /\
    (pe_H_inv0_right_inverse g c invt -> (lev < cK c)%nat ->
     forall k u, (forall f, In f filters -> forall v vn, Pm (P_div lev) md v -> Pm (P_div lev) md vn -> Pm (P_div lev) md (f v vn)) ->
                 Pm (P_div lev) md u ->
                 Pm (P_div lev) md (iter k (with_filters (lf_step_of (vo := StateSp) E G Gi (leapfrog_term dt alpha)) filters) u)).
  Proof. exact (primeq_leapfrog_means_conserved g c grav orog invt dt alpha lev mv md filters). Qed.
End C11_primitive_equations_derived.

(** the new hypotheses are satisfiable over Qc: a grid whose Legendre table IS the recurrence table (M = 2, L = 3, two
    nodes; non-zero entry), a weight table with a = 0 exactly at l = |m| and 1 elsewhere, a one-level configuration with
    the exact inverse at total wavenumber 0 for every eta *)
Definition ex2_x : nat -> Qc := fun j => if Nat.eqb j 0 then Q2Qc (-1 # 2) else Q2Qc (1 # 2).
Definition ex2_y : nat -> Qc := fun _ => Q2Qc (1 # 2).
Definition ex2_sq : Qc -> Qc := fun v => v.
Definition ex2_grid : @HGrid Qc :=
  mkHG 2 3 2 2 1 (fun _ _ => 1) (leg_basis_p false ex2_sq 2 ex2_x ex2_y 2 3) (fun _ => 1)
       (fun a l => if Nat.eqb l (dref_j a) then 0 else 1) (fun _ _ => 1) (fun _ => 1) (fun _ => 0) 1.
Definition ex2_cfg : @PEcfg Qc := mkPE 1 1 1 (fun k => fofZ (Z.of_nat k)) (fun k => fofZ (Z.of_nat k)) (fun _ => 1).
Example C11_pe_round2_hyps_satisfiable :
  pe_p_is_evaluate ex2_grid ex2_sq ex2_x ex2_y /\ pe_H_a_diag ex2_grid /\
  pe_H_inv0_right_inverse ex2_grid ex2_cfg (fun eta _ => pe_inv0_one_level ex2_cfg eta) /\
  hp ex2_grid 0%nat 0%nat 0%nat <> 0 /\ ha ex2_grid 1%nat 2%nat <> 0 /\
  pe_H_p_support ex2_grid /\ pe_H_deriv_mask ex2_grid.
Proof.
  assert (A : pe_p_is_evaluate ex2_grid ex2_sq ex2_x ex2_y) by (intros a j l _ _ _; reflexivity).
  assert (B : pe_H_a_diag ex2_grid).
  { intros a l _ _ ->. cbn [ex2_grid ha]. now rewrite Nat.eqb_refl. }
  split; [exact A|]. split; [exact B|]. split; [|split; [|split; [|split]]].
  - intros eta i j Hi Hj. cbn [ex2_cfg cK] in Hi, Hj.
    apply (pe_inv0_one_level_right_inverse ex2_cfg eta _ i j eq_refl); [|lia|lia].
    apply (lap_eig_0 3 1 3); [|lia|lia|lia]. cbn [ex2_grid hr]. destruct (field_c (o := QcOps)); auto.
  - intro H. vm_compute in H. discriminate H.
  - intro H. vm_compute in H. discriminate H.
  - exact (pe_H_p_support_from_recurrence ex2_grid ex2_sq ex2_x ex2_y A).
  - exact (pe_H_deriv_mask_from_weights ex2_grid B).
Qed.

From Dino Require Import Gen.CombinatorsSrc Thm.CombinatorsSrc.
Theorem C11_fix_time_is_source {F : Type} {o : Ops F} {Fc : FieldC o} (rnd : F -> Z) (dt t : F) :
  fix_time rnd dt t = fix_time_src (fun x => fofZ (rnd x)) dt t /\ gen_combinators_ok = true.
Proof. split; [apply fix_time_matches_source | exact gen_combinators_complete]. Qed.

Print Assumptions C11_term_preserves_subspace.
Print Assumptions C11_trajectory_in_subspace.
Print Assumptions C11_leapfrog_trajectory_in_subspace.
Print Assumptions C11_explicit_into_Supp.
Print Assumptions C11_explicit_top_zero.
Print Assumptions C11_diagonal_preserves_Supp.
Print Assumptions C11_modal_trajectory_in_Supp.
Print Assumptions C11_term_fixes_invariant_component.
Print Assumptions C11_mean_tendencies_vanish.
Print Assumptions C11_inverse_passes_component.
Print Assumptions C11_sw_implicit_at_mean.
Print Assumptions C11_sw_mean_thickness_conserved.
Print Assumptions C11_integrators_consistent.
Print Assumptions C11_concrete_consistency_sums.
Print Assumptions C11_sim_time_advances.
Print Assumptions C11_sim_time_advances_rk4.
Print Assumptions C11_filter_leaves_scalar_leaf.
Print Assumptions C11_uniform_tracer_vertical.
Print Assumptions C11_uniform_tracer_horizontal.
Print Assumptions C11_uniform_tracer_stays_uniform.
Print Assumptions C11_terms_are_the_integrators.
Print Assumptions C11_sim_time_advances_R.
Print Assumptions C11_hyps_satisfiable.
Print Assumptions C11_fix_time_trajectory.
Print Assumptions C11_fix_time_round_half_even.
Print Assumptions C11_sw_mean_tendencies_vanish.
Print Assumptions C11_sw_explicit_top_zero.
Print Assumptions C11_sw_explicit_into_Supp.
Print Assumptions C11_pe_explicit_top_zero.
Print Assumptions C11_pe_explicit_into_Supp.
Print Assumptions C11_pe_mean_tendencies_vanish.
Print Assumptions C11_pe_implicit_preserve_Supp.
Print Assumptions C11_primeq_trajectory_in_subspace.
Print Assumptions C11_primeq_leapfrog_trajectory_in_subspace.
Print Assumptions C11_primeq_means_conserved.
Print Assumptions C11_pe_hyps_satisfiable.
Print Assumptions C11_fix_time_is_source.
Print Assumptions C11_pe_right_inverse_div_rows.
Print Assumptions C11_pe_H_p_support_from_recurrence.
Print Assumptions C11_pe_H_deriv_mask_from_weights.
Print Assumptions C11_pe_explicit_into_Supp_from_recurrence.
Print Assumptions C11_primeq_trajectory_in_subspace_from_recurrence.
Print Assumptions C11_primeq_leapfrog_trajectory_in_subspace_from_recurrence.
Print Assumptions C11_primeq_means_conserved_from_inverse.
Print Assumptions C11_primeq_leapfrog_means_conserved.
Print Assumptions C11_pe_round2_hyps_satisfiable.
