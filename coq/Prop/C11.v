From Dino Require Import Base.Ops Model.Invariants Thm.Invariants.
